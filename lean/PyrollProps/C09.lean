import PyrollModel.Gen.C09Contours
import PyrollModel.Gen.C09Roll
import PyrollProofs.PassGeomInterp

/-!
# C09 — pass opening: symmetric contours, exact gap, interchangeable gap / height / inscribed-circle diameter

Every theorem is about terms GENERATED from the current `/repo` source on every run:
* `Gen.C09.two_roll_line0/1`, `Gen.C09.three_roll_line0/1/2` — the placement programs read out of
  `TwoRollPass.contour_lines` / `ThreeRollPass.contour_lines` (`driver/translate/c09_contours.py`),
* `Gen.C09.two_*`, `Gen.C09.three_*` — the hook implementations (guards and formulas) of gap / height /
  inscribed_circle_diameter / usable_width, and the class tables `two_cls`, `three_cls`.

The groove contour is an ARBITRARY vertex list `c`; `ρ` assigns reals to the attribute paths the source reads.
Geometry is the vertex-wise model `PyrollModel/PassGeom.lean` (tied to shapely by the correspondence run).
-/

open Gen.C09 Expr PassGeom

namespace C09

/-- lift of the contour in a three-roll pass (`shift` in the source) -/
noncomputable def shift (ρ : String → ℝ) : ℝ :=
  ρ "roll.groove.usable_width" / 2 / Real.sqrt 3 + ρ "gap" / Real.sqrt 3

theorem sqrt3_mul_shift (ρ : String → ℝ) :
    Real.sqrt 3 * shift ρ = ρ "roll.groove.usable_width" / 2 + ρ "gap" := by
  have := sqrt3_pos
  unfold shift; field_simp

def halfTurn (p : Pt ℝ) : Pt ℝ := ⟨-p.x, -p.y⟩

/-- rotation about the origin by 120° -/
noncomputable def rot120 (p : Pt ℝ) : Pt ℝ :=
  ⟨-(1 / 2) * p.x - Real.sqrt 3 / 2 * p.y, Real.sqrt 3 / 2 * p.x - 1 / 2 * p.y⟩

theorem rot120_is_rotation (p : Pt ℝ) :
    rot120 p = ⟨Real.cos (2 * Real.pi / 3) * p.x - Real.sin (2 * Real.pi / 3) * p.y,
                Real.sin (2 * Real.pi / 3) * p.x + Real.cos (2 * Real.pi / 3) * p.y⟩ := by
  have h : 2 * Real.pi / 3 = Real.pi - Real.pi / 3 := by ring
  rw [h, Real.cos_pi_sub, Real.sin_pi_sub, Real.cos_pi_div_three, Real.sin_pi_div_three]
  ext <;> simp [rot120] <;> ring

noncomputable def dist (p q : Pt ℝ) : ℝ := Real.sqrt ((p.x - q.x) ^ 2 + (p.y - q.y) ^ 2)

/-! ## where the generated placement programs send one vertex -/

theorem two_upper_pt (ρ : String → ℝ) (p : Pt ℝ) :
    placePt ρ two_roll_line0 p = ⟨p.x, p.y + ρ "gap" / 2⟩ := by
  simp [two_roll_line0, placePt, applyPt, eval]

theorem two_lower_pt (ρ : String → ℝ) (p : Pt ℝ) :
    placePt ρ two_roll_line1 p = ⟨-p.x, -(p.y + ρ "gap" / 2)⟩ := by
  simp [two_roll_line1, placePt, applyPt, eval, rotPt_180, rotPt_neg180]

theorem three_left_pt (ρ : String → ℝ) (p : Pt ℝ) :
    placePt ρ three_roll_line0 p =
      ⟨1 / 2 * p.x - Real.sqrt 3 / 2 * (p.y + shift ρ), Real.sqrt 3 / 2 * p.x + 1 / 2 * (p.y + shift ρ)⟩ := by
  simp [three_roll_line0, placePt, applyPt, eval, rotPt_60, shift]

theorem three_lower_pt (ρ : String → ℝ) (p : Pt ℝ) :
    placePt ρ three_roll_line1 p = ⟨-p.x, -(p.y + shift ρ)⟩ := by
  simp [three_roll_line1, placePt, applyPt, eval, rotPt_180, rotPt_neg180, shift]

theorem three_right_pt (ρ : String → ℝ) (p : Pt ℝ) :
    placePt ρ three_roll_line2 p =
      ⟨1 / 2 * p.x + Real.sqrt 3 / 2 * (p.y + shift ρ), -(Real.sqrt 3 / 2) * p.x + 1 / 2 * (p.y + shift ρ)⟩ := by
  simp [three_roll_line2, placePt, applyPt, eval, rotPt_neg60, shift]

theorem two_flips : flips two_roll_line0 = false ∧ flips two_roll_line1 = false := by decide
theorem three_flips :
    flips three_roll_line0 = true ∧ flips three_roll_line1 = true ∧ flips three_roll_line2 = true := by decide

/-! ## two-roll pass -/

/-- **half turn**: for every contour, the lower contour line is the image of the upper one under the half turn about the
    origin, and vice versa (vertex by vertex, in order). -/
theorem two_roll_half_turn (ρ : String → ℝ) (c : List (Pt ℝ)) :
    place ρ two_roll_line1 c = (place ρ two_roll_line0 c).map halfTurn ∧
    place ρ two_roll_line0 c = (place ρ two_roll_line1 c).map halfTurn := by
  simp only [place_eq, two_flips, Bool.false_eq_true, if_false, List.map_map]
  constructor <;> apply List.map_congr_left <;> intro p _ <;>
    simp [two_upper_pt, two_lower_pt, halfTurn]

/-- **face separation**: a face vertex `(x0, 0)` of the contour sits on the upper roll exactly `gap` above the place where
    the mirrored face vertex `(-x0, 0)` sits on the lower roll: same abscissa, ordinates `gap` apart.
    (At pad angle 0 the faces are the parts of the contour at `y = 0`.) -/
theorem two_roll_face_separation (ρ : String → ℝ) (c : List (Pt ℝ)) (x0 : ℝ)
    (hr : (⟨x0, 0⟩ : Pt ℝ) ∈ c) (hl : (⟨-x0, 0⟩ : Pt ℝ) ∈ c) :
    ∃ u ∈ place ρ two_roll_line0 c, ∃ l ∈ place ρ two_roll_line1 c,
      u.x = x0 ∧ l.x = x0 ∧ u.y - l.y = ρ "gap" := by
  refine ⟨_, (mem_place _ _ _ _).mpr ⟨_, hr, rfl⟩, _, (mem_place _ _ _ _).mpr ⟨_, hl, rfl⟩, ?_⟩
  rw [two_upper_pt, two_lower_pt]
  refine ⟨rfl, ?_, ?_⟩ <;> simp only <;> ring

/-- every point of the upper face level is `gap` above every point of the lower face level -/
theorem two_roll_face_levels (ρ : String → ℝ) (p q : Pt ℝ) (hp : p.y = 0) (hq : q.y = 0) :
    (placePt ρ two_roll_line0 p).y - (placePt ρ two_roll_line1 q).y = ρ "gap" := by
  simp only [two_upper_pt, two_lower_pt, hp, hq]; ring

/-- **height = gap + 2·depth**, as a formula … -/
theorem two_roll_height_formula (ρ : String → ℝ) :
    eval ρ two_height_e = ρ "gap" + 2 * ρ "roll.groove.depth" := by
  simp [two_height_e, eval]

/-- … and as the extent of the opening: if the contour is nowhere deeper than `depth` and reaches it, the upper contour line
    reaches exactly `height/2`, the lower one exactly `-height/2`. -/
theorem two_roll_height_is_opening (ρ : String → ℝ) (c : List (Pt ℝ))
    (hle : ∀ p ∈ c, p.y ≤ ρ "roll.groove.depth") (hat : ∃ p ∈ c, p.y = ρ "roll.groove.depth") :
    (∀ u ∈ place ρ two_roll_line0 c, u.y ≤ eval ρ two_height_e / 2) ∧
    (∃ u ∈ place ρ two_roll_line0 c, u.y = eval ρ two_height_e / 2) ∧
    (∀ l ∈ place ρ two_roll_line1 c, -(eval ρ two_height_e / 2) ≤ l.y) ∧
    (∃ l ∈ place ρ two_roll_line1 c, l.y = -(eval ρ two_height_e / 2)) := by
  rw [two_roll_height_formula]
  obtain ⟨p0, hp0, hy0⟩ := hat
  refine ⟨?_, ⟨_, (mem_place _ _ _ _).mpr ⟨p0, hp0, rfl⟩, ?_⟩, ?_, ⟨_, (mem_place _ _ _ _).mpr ⟨p0, hp0, rfl⟩, ?_⟩⟩
  · intro u hu
    obtain ⟨p, hp, rfl⟩ := (mem_place _ _ _ _).mp hu
    have := hle p hp
    simp only [two_upper_pt]; linarith
  · simp only [two_upper_pt, hy0]; ring
  · intro l hl
    obtain ⟨p, hp, rfl⟩ := (mem_place _ _ _ _).mp hl
    have := hle p hp
    simp only [two_lower_pt]; linarith
  · simp only [two_lower_pt, hy0]; ring

/-- gap ↦ height and height ↦ gap are mutually inverse -/
theorem two_roll_gap_height_inverse (ρ : String → ℝ) :
    eval (Function.update ρ "height" (eval ρ two_height_e)) two_gap_e = ρ "gap" ∧
    eval (Function.update ρ "gap" (eval ρ two_gap_e)) two_height_e = ρ "height" := by
  simp [two_gap_e, two_height_e, eval, Function.update]

/-- the usable width of a two-roll pass is the groove's; its end points `(±uw/2, 0)` are placed at `(±uw/2, ±gap/2)` -/
theorem two_roll_usable_width (ρ : String → ℝ) :
    eval ρ two_usable_width_e = ρ "roll.groove.usable_width" ∧
    placePt ρ two_roll_line0 ⟨eval ρ two_usable_width_e / 2, 0⟩ = ⟨ρ "roll.groove.usable_width" / 2, ρ "gap" / 2⟩ ∧
    placePt ρ two_roll_line1 ⟨eval ρ two_usable_width_e / 2, 0⟩ = ⟨-(ρ "roll.groove.usable_width" / 2), -(ρ "gap" / 2)⟩ := by
  simp [two_usable_width_e, eval, two_upper_pt, two_lower_pt]

/-! ## three-roll pass -/

/-- **120° symmetry**: for every contour, turning by 120° maps left ↦ lower ↦ right ↦ left (vertex by vertex, in order). -/
theorem three_roll_120 (ρ : String → ℝ) (c : List (Pt ℝ)) :
    (place ρ three_roll_line0 c).map rot120 = place ρ three_roll_line1 c ∧
    (place ρ three_roll_line1 c).map rot120 = place ρ three_roll_line2 c ∧
    (place ρ three_roll_line2 c).map rot120 = place ρ three_roll_line0 c := by
  have h3 := sqrt3_sq
  simp only [place_eq, three_flips, if_true, List.map_reverse, List.map_map]
  refine ⟨?_, ?_, ?_⟩ <;> congr 1 <;> apply List.map_congr_left <;> intro p _ <;>
    simp only [Function.comp, three_left_pt, three_lower_pt, three_right_pt, rot120] <;> ext <;> simp only
  · linear_combination (-(1 / 4) * p.x) * h3
  · linear_combination (-(1 / 4) * (p.y + shift ρ)) * h3
  · ring
  · ring
  · linear_combination ((1 / 4) * p.x) * h3
  · linear_combination ((1 / 4) * (p.y + shift ρ)) * h3

/-- **faces of neighbouring rolls are `gap` apart** (lower/right pair): for ANY point `q` on the left face line and ANY
    point `p` on the right face line of the groove — the lines through the usable-width points `(∓uw/2, 0)` at 30°,
    `√3·y = |x| − uw/2` — the placed points differ by exactly `gap` along the common normal `(1/2, √3/2)` of the two faces. -/
theorem three_roll_face_separation (ρ : String → ℝ) (p q : Pt ℝ)
    (hp : Real.sqrt 3 * p.y = p.x - ρ "roll.groove.usable_width" / 2)
    (hq : Real.sqrt 3 * q.y = -q.x - ρ "roll.groove.usable_width" / 2) :
    1 / 2 * ((placePt ρ three_roll_line2 p).x - (placePt ρ three_roll_line1 q).x) +
      Real.sqrt 3 / 2 * ((placePt ρ three_roll_line2 p).y - (placePt ρ three_roll_line1 q).y) = ρ "gap" := by
  have h3 := sqrt3_sq
  have hs := sqrt3_mul_shift ρ
  simp only [three_right_pt, three_lower_pt]
  linear_combination (1 / 2) * hp + (1 / 2) * hq + hs - (p.x / 4) * h3

/-- **neighbouring face end points are exactly `gap` apart**: if the contour ends in the mirror-symmetric vertices
    `(∓z0, y0)` lying on the 30° face lines, the end of the lower contour line and the end of the right one are at distance
    `gap` (for `gap ≥ 0`); by `three_roll_120` the same holds for the other two pairs. -/
theorem three_roll_neighbour_gap (ρ : String → ℝ) (z0 y0 : ℝ)
    (hface : Real.sqrt 3 * y0 = z0 - ρ "roll.groove.usable_width" / 2) (hg : 0 ≤ ρ "gap") :
    dist (placePt ρ three_roll_line1 ⟨-z0, y0⟩) (placePt ρ three_roll_line2 ⟨z0, y0⟩) = ρ "gap" := by
  have h3 := sqrt3_sq
  have hs := sqrt3_mul_shift ρ
  have ht : Real.sqrt 3 * (y0 + shift ρ) = z0 + ρ "gap" := by linear_combination hface + hs
  simp only [three_right_pt, three_lower_pt, dist]
  have hx : - -z0 - (1 / 2 * z0 + Real.sqrt 3 / 2 * (y0 + shift ρ)) = -(ρ "gap" / 2) := by
    linear_combination (-1 / 2) * ht
  have hy : -(y0 + shift ρ) - (-(Real.sqrt 3 / 2) * z0 + 1 / 2 * (y0 + shift ρ)) = -(Real.sqrt 3 / 2) * ρ "gap" := by
    linear_combination (-(Real.sqrt 3) / 2) * ht + ((y0 + shift ρ) / 2) * h3
  rw [hx, hy]
  have : (-(ρ "gap" / 2)) ^ 2 + (-(Real.sqrt 3 / 2) * ρ "gap") ^ 2 = ρ "gap" ^ 2 := by
    linear_combination (ρ "gap" ^ 2 / 4) * h3
  rw [this, Real.sqrt_sq hg]

/-- the other two neighbour pairs, from the 120° symmetry: right/left and left/lower -/
theorem three_roll_neighbour_gap_all (ρ : String → ℝ) (z0 y0 : ℝ)
    (hface : Real.sqrt 3 * y0 = z0 - ρ "roll.groove.usable_width" / 2) (hg : 0 ≤ ρ "gap") :
    dist (placePt ρ three_roll_line2 ⟨-z0, y0⟩) (placePt ρ three_roll_line0 ⟨z0, y0⟩) = ρ "gap" ∧
    dist (placePt ρ three_roll_line0 ⟨-z0, y0⟩) (placePt ρ three_roll_line1 ⟨z0, y0⟩) = ρ "gap" := by
  have h3 := sqrt3_sq
  have hs := sqrt3_mul_shift ρ
  have ht : Real.sqrt 3 * (y0 + shift ρ) = z0 + ρ "gap" := by linear_combination hface + hs
  simp only [three_right_pt, three_lower_pt, three_left_pt, dist]
  constructor
  · have hx : 1 / 2 * -z0 + Real.sqrt 3 / 2 * (y0 + shift ρ) - (1 / 2 * z0 - Real.sqrt 3 / 2 * (y0 + shift ρ)) = ρ "gap" := by
      linear_combination ht
    have hy : -(Real.sqrt 3 / 2) * -z0 + 1 / 2 * (y0 + shift ρ) - (Real.sqrt 3 / 2 * z0 + 1 / 2 * (y0 + shift ρ)) = 0 := by
      ring
    rw [hx, hy]; simp [Real.sqrt_sq hg]
  · have hx : 1 / 2 * -z0 - Real.sqrt 3 / 2 * (y0 + shift ρ) - -z0 = -(ρ "gap" / 2) := by
      linear_combination (-1 / 2) * ht
    have hy : Real.sqrt 3 / 2 * -z0 + 1 / 2 * (y0 + shift ρ) - -(y0 + shift ρ) = Real.sqrt 3 / 2 * ρ "gap" := by
      linear_combination (Real.sqrt 3 / 2) * ht - ((y0 + shift ρ) / 2) * h3
    rw [hx, hy]
    have : (-(ρ "gap" / 2)) ^ 2 + (Real.sqrt 3 / 2 * ρ "gap") ^ 2 = ρ "gap" ^ 2 := by
      linear_combination (ρ "gap" ^ 2 / 4) * h3
    rw [this, Real.sqrt_sq hg]

/-- **the usable width of a three-roll pass is where the usable parts of neighbouring grooves end**: the usable-width end
    points `(∓uw/2, 0)` of the right / left groove are placed at height `usable_width/2` (towards the upper gap), `gap/2` to the
    right / left of the axis. -/
theorem three_roll_usable_width_corner (ρ : String → ℝ) :
    placePt ρ three_roll_line2 ⟨-(ρ "roll.groove.usable_width" / 2), 0⟩ = ⟨ρ "gap" / 2, eval ρ three_usable_width_e / 2⟩ ∧
    placePt ρ three_roll_line0 ⟨ρ "roll.groove.usable_width" / 2, 0⟩ = ⟨-(ρ "gap" / 2), eval ρ three_usable_width_e / 2⟩ := by
  have h := sqrt3_pos
  have h3 : Real.sqrt 3 ^ 2 = 3 := Real.sq_sqrt (by norm_num)
  have hs := sqrt3_mul_shift ρ
  have e : shift ρ = (ρ "roll.groove.usable_width" / 2 + ρ "gap") / Real.sqrt 3 := by field_simp; linarith
  simp only [three_right_pt, three_left_pt, three_usable_width_e, eval, PyNum.nat_real, PyNum.sqrt_real]
  push_cast
  rw [e]
  -- identities in ℚ(√3): clear denominators, normalise, use √3² = 3 (independent of how the source writes 2/√3)
  constructor <;> ext <;> simp only <;> field_simp <;> ring_nf <;> (try simp only [h3]) <;> (try ring)

/-! ## gap ↔ height ↔ inscribed-circle diameter: the conversions are mutually inverse -/

/-- gap ↦ inscribed-circle diameter and back (both directions) -/
theorem three_roll_icd_gap_inverse (ρ : String → ℝ) :
    eval (Function.update ρ "inscribed_circle_diameter" (eval ρ three_icd_from_gap_e)) three_gap_from_icd_e = ρ "gap" ∧
    eval (Function.update ρ "gap" (eval ρ three_gap_from_icd_e)) three_icd_from_gap_e = ρ "inscribed_circle_diameter" := by
  have := sqrt3_pos
  constructor <;> simp [three_gap_from_icd_e, three_icd_from_gap_e, eval, Function.update] <;> field_simp <;> ring

/-- the inscribed circle touches the groove bottoms: its radius is the lift plus the groove depth -/
theorem three_roll_icd_formula (ρ : String → ℝ) :
    eval ρ three_icd_from_gap_e = 2 * (shift ρ + ρ "roll.groove.depth") := by
  simp [three_icd_from_gap_e, eval, shift]; ring

/-- depth of the usable part of the contour, as `height3` / `gap3_from_height` measure it: the largest ordinate of the
    contour clipped to the groove's usable width -/
noncomputable def usableDepth (ρ : String → ℝ) (c : List (Pt ℝ)) : ℝ :=
  bound 3 (clipCands (-(ρ "roll.groove.usable_width" / 2)) (ρ "roll.groove.usable_width" / 2) c)

def UsableNonempty (ρ : String → ℝ) (c : List (Pt ℝ)) : Prop :=
  clipCands (-(ρ "roll.groove.usable_width" / 2)) (ρ "roll.groove.usable_width" / 2) c ≠ []

/-- what `gap3_from_height` measures on the roll contour -/
theorem three_roll_measured_depth (ρ : String → ℝ) (c : List (Pt ℝ)) :
    clipValue three_cls three_roll_lines ρ c 0 3 = usableDepth ρ c := by
  simp [clipValue, three_cls, lineOf, usableDepth, eval, neg_div]

/-- what `height3` measures on the placed lower contour line: minus (lift + depth of the usable part of the contour) -/
theorem three_roll_measured_bottom (ρ : String → ℝ) (c : List (Pt ℝ)) (hne : UsableNonempty ρ c) :
    clipValue three_cls three_roll_lines ρ c 1 1 = -(usableDepth ρ c + shift ρ) := by
  have hl : placePt ρ three_roll_line1 = lowerMap (shift ρ) := by
    funext p; rw [three_lower_pt]; rfl
  simp only [clipValue, three_cls, lineOf, three_roll_lines, List.getD_cons_succ, List.getD_cons_zero,
    List.getElem?_cons_succ, List.getElem?_cons_zero, eval, neg_div, PyNum.nat_real, Nat.cast_ofNat]
  rw [place_eq, three_flips.2.1, if_pos rfl, hl]
  exact bound1_lower (shift ρ) (ρ "roll.groove.usable_width" / 2) c hne

/-- **height of a three-roll pass**: twice the distance from the axis to the bottom of the usable part of the groove -/
theorem three_roll_height_value (ρ : String → ℝ) (c : List (Pt ℝ)) (hne : UsableNonempty ρ c)
    (hb : ρ "height3:usable_contour.bounds[1]" = clipValue three_cls three_roll_lines ρ c 1 1)
    (hopen : 0 ≤ shift ρ + usableDepth ρ c) :
    eval ρ three_height_e = 2 * (shift ρ + usableDepth ρ c) := by
  simp only [three_height_e, eval, hb, three_roll_measured_bottom ρ c hne, PyNum.abs_real, PyNum.nat_real]
  rw [show ((2 : ℕ) : ℝ) * -(usableDepth ρ c + shift ρ) = -(2 * (shift ρ + usableDepth ρ c)) by push_cast; ring,
    abs_neg, abs_of_nonneg (by linarith)]

/-- … which is the inscribed-circle diameter exactly when the usable part of the contour is as deep as `groove.depth` -/
theorem three_roll_height_eq_icd (ρ : String → ℝ) (c : List (Pt ℝ)) (hne : UsableNonempty ρ c)
    (hb : ρ "height3:usable_contour.bounds[1]" = clipValue three_cls three_roll_lines ρ c 1 1)
    (hopen : 0 ≤ shift ρ + usableDepth ρ c) (hd : usableDepth ρ c = ρ "roll.groove.depth") :
    eval ρ three_height_e = eval ρ three_icd_from_gap_e := by
  rw [three_roll_height_value ρ c hne hb hopen, three_roll_icd_formula, hd]

/-- gap ↦ height (measured) ↦ gap is the identity, for every contour -/
theorem three_roll_gap_height_inverse (ρ : String → ℝ) (c : List (Pt ℝ)) (hne : UsableNonempty ρ c)
    (hb : ρ "height3:usable_contour.bounds[1]" = clipValue three_cls three_roll_lines ρ c 1 1)
    (hr : ρ "gap3_from_height:usable_contour.bounds[3]" = clipValue three_cls three_roll_lines ρ c 0 3)
    (hopen : 0 ≤ shift ρ + usableDepth ρ c) :
    eval (Function.update ρ "height" (eval ρ three_height_e)) three_gap_from_height_e = ρ "gap" := by
  have := sqrt3_pos
  rw [three_roll_height_value ρ c hne hb hopen]
  simp only [three_gap_from_height_e, eval, Function.update, hr, three_roll_measured_depth, shift]
  simp
  field_simp
  ring

/-- height ↦ gap ↦ height (measured on the contour lines built with that gap) is the identity, for every contour -/
theorem three_roll_height_gap_inverse (ρ : String → ℝ) (c : List (Pt ℝ)) (hne : UsableNonempty ρ c)
    (hr : ρ "gap3_from_height:usable_contour.bounds[3]" = clipValue three_cls three_roll_lines ρ c 0 3)
    (hb : (Function.update ρ "gap" (eval ρ three_gap_from_height_e)) "height3:usable_contour.bounds[1]"
        = clipValue three_cls three_roll_lines (Function.update ρ "gap" (eval ρ three_gap_from_height_e)) c 1 1)
    (hopen : 0 ≤ ρ "height") :
    eval (Function.update ρ "gap" (eval ρ three_gap_from_height_e)) three_height_e = ρ "height" := by
  have h3 := sqrt3_pos
  have hd : usableDepth (Function.update ρ "gap" (eval ρ three_gap_from_height_e)) c = usableDepth ρ c := by
    simp [usableDepth, Function.update]
  have hne' : UsableNonempty (Function.update ρ "gap" (eval ρ three_gap_from_height_e)) c := by
    simpa [UsableNonempty, Function.update] using hne
  have hs : shift (Function.update ρ "gap" (eval ρ three_gap_from_height_e)) + usableDepth ρ c = ρ "height" / 2 := by
    simp only [shift, three_gap_from_height_e, eval, Function.update, hr, three_roll_measured_depth]
    simp
    field_simp
    ring
  rw [three_roll_height_value _ c hne' hb (by rw [hd, hs]; linarith), hd, hs]
  ring

/-! ## interchangeability on fresh passes

Control part (kernel-evaluated on the GENERATED guards and tables by `decide`): for each member supplied on a fresh pass and
each order in which members are read afterwards, which implementation fires, that every read yields a value (no
`AttributeError`), and which term comes out.  Algebraic part (over ℝ): each of these terms evaluates to THE value of that
member in the one consistent opening determined by the supplied member. -/

/-- all orders in which one, two or all members of a two-roll pass can be read, also followed / preceded by `usable_width` -/
def orders2 : List (List String) :=
  [["gap"], ["height"], ["gap", "height"], ["height", "gap"],
   ["gap", "height", "usable_width"], ["usable_width", "gap", "height"], ["usable_width", "height", "gap"]]

def G : String := "gap"
def H : String := "height"
def D : String := "inscribed_circle_diameter"
def U : String := "usable_width"

/-- every permutation of every non-empty subset of {gap, height, inscribed_circle_diameter} (15), and the full permutations
    followed / preceded by `usable_width` -/
def orders3 : List (List String) :=
  [[G], [H], [D],
   [G, H], [H, G], [G, D], [D, G], [H, D], [D, H],
   [G, H, D], [G, D, H], [H, G, D], [H, D, G], [D, G, H], [D, H, G],
   [G, H, D, U], [G, D, H, U], [H, G, D, U], [H, D, G, U], [D, G, H, U], [D, H, G, U],
   [U, G, H, D], [U, G, D, H], [U, H, G, D], [U, H, D, G], [U, D, G, H], [U, D, H, G]]

/-- the terms a two-roll pass may answer: (supplied member, member read, term) -/
def canon2 : List (String × String × Expr) :=
  [(G, G, .var G), (G, H, two_height_e), (G, U, two_usable_width_e),
   (H, H, .var H), (H, G, two_gap_e), (H, U, two_usable_width_e)]

/-- the terms a three-roll pass may answer -/
def canon3 : List (String × String × Expr) :=
  [(G, G, .var G), (G, H, three_height_e), (G, D, three_icd_from_gap_e), (G, U, three_usable_width_e),
   (H, H, .var H), (H, G, three_gap_from_height_e),
   (H, D, substE [(G, three_gap_from_height_e)] three_icd_from_gap_e),
   (H, U, substE [(G, three_gap_from_height_e)] three_usable_width_e),
   (D, D, .var D), (D, G, three_gap_from_icd_e), (D, H, three_height_e),
   (D, U, substE [(G, three_gap_from_icd_e)] three_usable_width_e)]

/-- **control, two rolls**: whichever of gap / height is supplied and in whichever order the members are read, every read
    succeeds and answers one of the terms of `canon2` -/
theorem two_roll_control :
    ∀ g ∈ [G, H], ∀ o ∈ orders2, okIn canon2 g (session two_cls [g] o) = true := by decide

/-- **control, three rolls**: whichever of gap / height / inscribed-circle diameter is supplied and in whichever order the
    members are read, every read succeeds and answers one of the terms of `canon3`; `contour_lines` is built from the
    canonical gap term -/
theorem three_roll_control :
    ∀ g ∈ [G, H, D], ∀ o ∈ orders3, okIn canon3 g (session three_cls [g] o) = true := by decide

/-- with nothing supplied no member is available (no accidental default, no endless recursion) -/
theorem nothing_given_nothing_available :
    (session two_cls [] [G, H]).1 = [(G, .attrErr), (H, .attrErr)] ∧
    (session three_cls [] [D, G, H]).1 = [(D, .attrErr), (G, .attrErr), (H, .attrErr)] := by decide

/-- a consistent two-roll opening: the members have the values the implementations derive from the gap -/
structure World2 (ρ : String → ℝ) : Prop where
  height : ρ "height" = eval ρ two_height_e
  usable_width : ρ "usable_width" = eval ρ two_usable_width_e

/-- a consistent three-roll opening over the contour `c`: the two measuring implementations see the model geometry built
    with this gap, the members have the values derived from the gap, the usable part of the contour is not empty and
    its bottom is not above the axis -/
structure World3 (ρ : String → ℝ) (c : List (Pt ℝ)) : Prop where
  clip_roll : ρ "gap3_from_height:usable_contour.bounds[3]" = clipValue three_cls three_roll_lines ρ c 0 3
  clip_pass : ρ "height3:usable_contour.bounds[1]" = clipValue three_cls three_roll_lines ρ c 1 1
  height : ρ "height" = eval ρ three_height_e
  icd : ρ "inscribed_circle_diameter" = eval ρ three_icd_from_gap_e
  usable_width : ρ "usable_width" = eval ρ three_usable_width_e
  nonempty : UsableNonempty ρ c
  opening : 0 ≤ shift ρ + usableDepth ρ c

theorem canon2_sound (ρ : String → ℝ) (W : World2 ρ) : ∀ x ∈ canon2, eval ρ x.2.2 = ρ x.2.1 := by
  have hh := W.height
  have hu := W.usable_width
  simp only [two_height_e, two_usable_width_e, eval] at hh hu
  intro x hx
  simp only [canon2, List.mem_cons, List.not_mem_nil, or_false] at hx
  rcases hx with rfl | rfl | rfl | rfl | rfl | rfl <;>
    simp only [G, H, U, eval, two_height_e, two_gap_e, two_usable_width_e, hh, hu, PyNum.nat_real] <;> ring

theorem canon3_sound (ρ : String → ℝ) (c : List (Pt ℝ)) (W : World3 ρ c) :
    ∀ x ∈ canon3, eval ρ x.2.2 = ρ x.2.1 := by
  have h3 := sqrt3_pos
  have hH := three_roll_height_value ρ c W.nonempty W.clip_pass W.opening
  have hgh : eval ρ three_gap_from_height_e = ρ "gap" := by
    have := three_roll_gap_height_inverse ρ c W.nonempty W.clip_pass W.clip_roll W.opening
    rw [← W.height] at this
    simpa using this
  have hgd : eval ρ three_gap_from_icd_e = ρ "gap" := by
    have := (three_roll_icd_gap_inverse ρ).1
    rw [← W.icd] at this
    simpa using this
  intro x hx
  simp only [canon3, List.mem_cons, List.not_mem_nil, or_false] at hx
  rcases hx with rfl | rfl | rfl | rfl | rfl | rfl | rfl | rfl | rfl | rfl | rfl | rfl
  · rfl
  · exact W.height.symm
  · exact W.icd.symm
  · exact W.usable_width.symm
  · rfl
  · exact hgh
  · rw [eval_substE ρ _ (by intro x hx; simp only [List.mem_singleton] at hx; subst hx; exact hgh)]
    exact W.icd.symm
  · rw [eval_substE ρ _ (by intro x hx; simp only [List.mem_singleton] at hx; subst hx; exact hgh)]
    exact W.usable_width.symm
  · rfl
  · exact hgd
  · exact W.height.symm
  · rw [eval_substE ρ _ (by intro x hx; simp only [List.mem_singleton] at hx; subst hx; exact hgd)]
    exact W.usable_width.symm

/-- **interchangeability, two rolls**: supply gap or height of a consistent opening to a fresh pass; then in every read order
    every member read is available and has its value in that opening. -/
theorem two_roll_interchangeable (ρ : String → ℝ) (W : World2 ρ) :
    ∀ g ∈ [G, H], ∀ o ∈ orders2,
      ∀ x ∈ (session two_cls [g] o).1, ∃ e, x.2 = Res.val e ∧ eval ρ e = ρ x.1 := by
  intro g hg o ho
  exact (okIn_sound ρ canon2 g _ (fun x hx _ => canon2_sound ρ W x hx) (two_roll_control g hg o ho)).1

/-- **interchangeability, three rolls**: supply gap, height or inscribed-circle diameter of a consistent opening to a fresh
    pass; then in every read order every member read is available and has its value in that opening, and the contour lines
    are built with the gap of that opening. -/
theorem three_roll_interchangeable (ρ : String → ℝ) (c : List (Pt ℝ)) (W : World3 ρ c) :
    ∀ g ∈ [G, H, D], ∀ o ∈ orders3,
      (∀ x ∈ (session three_cls [g] o).1, ∃ e, x.2 = Res.val e ∧ eval ρ e = ρ x.1) ∧
      (∀ xs, (session three_cls [g] o).2.contour = some xs → ∀ x ∈ xs, eval ρ x.2 = ρ x.1) := by
  intro g hg o ho
  exact okIn_sound ρ canon3 g _ (fun x hx _ => canon3_sound ρ c W x hx) (three_roll_control g hg o ho)

/-! ## life cycle "dimensioned late"

A pass constructed WITHOUT gap / height / inscribed-circle diameter (a stand from a catalogue), looked at from outside while
its opening is undetermined (`contour_lines`, the member hooks, `usable_width`; each failing look caught by the caller) and
given one member by assignment afterwards.  The looks must not decide anything about the opening: whatever they leave
behind on the object (`__cache__`, the memoised `_contour_lines`) is kernel-evaluated on the GENERATED tables. -/

/-- the looks at a three-roll pass from outside that the model knows: its member hooks, `usable_width`, `contour_lines` -/
def looks3 : List Probe := [.hook G, .hook H, .hook D, .hook U, .contour]

def looks2 : List Probe := [.hook G, .hook H, .hook U, .contour]

/-- one look at a three-roll pass without members fails and leaves the object exactly as it was -/
theorem three_roll_look_leaves_no_trace : ∀ p ∈ looks3, probe three_cls p bare = (.attrErr, bare) := by decide

/-- ANY sequence of such looks (of any length, with repetitions) fails look by look and leaves no trace -/
theorem three_roll_looks_leave_no_trace (ls : List Probe) (h : ∀ p ∈ ls, p ∈ looks3) :
    (probes three_cls ls bare).2 = bare ∧ ∀ x ∈ (probes three_cls ls bare).1, x.2 = Res.attrErr := by
  induction ls with
  | nil => simp [probes]
  | cons p ps ih =>
    have hp := three_roll_look_leaves_no_trace p (h p (by simp))
    have := ih (fun q hq => h q (by simp [hq]))
    simp only [probes, hp]
    refine ⟨this.1, ?_⟩
    intro x hx
    simp only [List.mem_cons] at hx
    rcases hx with rfl | hx
    · rfl
    · exact this.2 x hx

/-- hence a three-roll pass dimensioned AFTER it was looked at answers exactly like a fresh pass dimensioned at construction -/
theorem three_roll_late_is_fresh (ls : List Probe) (h : ∀ p ∈ ls, p ∈ looks3) (g : String) (o : List String) :
    (lateSession three_cls ls [g] o).2 = session three_cls [g] o := by
  simp only [lateSession, (three_roll_looks_leave_no_trace ls h).1]
  rfl

/-- **interchangeability, three rolls, dimensioned late** -/
theorem three_roll_late_interchangeable (ρ : String → ℝ) (c : List (Pt ℝ)) (W : World3 ρ c)
    (ls : List Probe) (h : ∀ p ∈ ls, p ∈ looks3) :
    ∀ g ∈ [G, H, D], ∀ o ∈ orders3,
      (∀ x ∈ (lateSession three_cls ls [g] o).2.1, ∃ e, x.2 = Res.val e ∧ eval ρ e = ρ x.1) ∧
      (∀ xs, (lateSession three_cls ls [g] o).2.2.contour = some xs → ∀ x ∈ xs, eval ρ x.2 = ρ x.1) := by
  intro g hg o ho
  rw [three_roll_late_is_fresh ls h g o]
  exact three_roll_interchangeable ρ c W g hg o ho

/-- a two-roll pass without members: the only trace a look can leave is the cached `usable_width` (which does not depend
    on the opening) -/
def bareU : HState := { dict := [], cache := [(U, two_usable_width_e)], contour := Option.none }

theorem two_roll_look_trace : ∀ p ∈ looks2,
    ((probe two_cls p bare).2 = bare ∨ (probe two_cls p bare).2 = bareU) ∧ (probe two_cls p bareU).2 = bareU ∧
    ((probe two_cls p bare).1 = .attrErr ∨ (probe two_cls p bare).1 = .val two_usable_width_e) ∧
    ((probe two_cls p bareU).1 = .attrErr ∨ (probe two_cls p bareU).1 = .val two_usable_width_e) := by decide

theorem two_roll_looks_trace (ls : List Probe) (h : ∀ p ∈ ls, p ∈ looks2) :
    ∀ st, (st = bare ∨ st = bareU) →
      ((probes two_cls ls st).2 = bare ∨ (probes two_cls ls st).2 = bareU) ∧
      ∀ x ∈ (probes two_cls ls st).1, x.2 = Res.attrErr ∨ x.2 = Res.val two_usable_width_e := by
  induction ls with
  | nil => intro st hst; simpa [probes] using hst
  | cons p ps ih =>
    intro st hst
    have hp := two_roll_look_trace p (h p (by simp))
    have ih' := ih (fun q hq => h q (by simp [hq]))
    simp only [probes]
    rcases hst with rfl | rfl
    · have := ih' _ hp.1
      refine ⟨this.1, ?_⟩
      intro x hx
      simp only [List.mem_cons] at hx
      rcases hx with rfl | hx
      · exact hp.2.2.1
      · exact this.2 x hx
    · have := ih' (probe two_cls p bareU).2 (Or.inr hp.2.1)
      refine ⟨this.1, ?_⟩
      intro x hx
      simp only [List.mem_cons] at hx
      rcases hx with rfl | hx
      · exact hp.2.2.2
      · exact this.2 x hx

/-- control on a two-roll pass whose `usable_width` was cached before the member was assigned -/
theorem two_roll_control_after_looks :
    ∀ g ∈ [G, H], ∀ o ∈ orders2, okIn canon2 g (reads two_cls o (assign [g] bareU)) = true := by decide

/-- **interchangeability, two rolls, dimensioned late** -/
theorem two_roll_late_interchangeable (ρ : String → ℝ) (W : World2 ρ) (ls : List Probe) (h : ∀ p ∈ ls, p ∈ looks2) :
    ∀ g ∈ [G, H], ∀ o ∈ orders2,
      (∀ x ∈ (lateSession two_cls ls [g] o).1, x.2 = Res.attrErr ∨ ∃ e, x.2 = Res.val e ∧ eval ρ e = ρ U) ∧
      (∀ x ∈ (lateSession two_cls ls [g] o).2.1, ∃ e, x.2 = Res.val e ∧ eval ρ e = ρ x.1) := by
  intro g hg o ho
  have ht := two_roll_looks_trace ls h bare (Or.inl rfl)
  constructor
  · intro x hx
    rcases ht.2 x hx with h1 | h1
    · exact Or.inl h1
    · exact Or.inr ⟨_, h1, by simpa [U] using W.usable_width.symm⟩
  · simp only [lateSession]
    rcases ht.1 with h1 | h1 <;> rw [h1]
    · exact (okIn_sound ρ canon2 g _ (fun x hx _ => canon2_sound ρ W x hx) (two_roll_control g hg o ho)).1
    · exact (okIn_sound ρ canon2 g _ (fun x hx _ => canon2_sound ρ W x hx) (two_roll_control_after_looks g hg o ho)).1

/-! ## the usable cross-section spans exactly the usable width OF THE PASS

`usable_cross_section` / `usable_cross_section3` hand the opening to a helper that cuts the polygon enclosed by the contour
lines with `clip_by_rect`.  Generated: `two_usable_cs`, `three_usable_cs` (which helper is called and the TERM handed over for
every parameter - an omitted argument appears as the helper's default) and `two_usable_cs_helper`, `three_usable_cs_helper`
(the clip / turn steps over the parameter variables).  GEOS' polygon clipping is not modelled: the theorems follow one point
of the opening through the steps (`keepPt`). -/

/-- the implementation calls the translated helper and every parameter of the helper receives a term from it -/
theorem usable_cs_call_binds_every_parameter :
    two_usable_cs.helper = two_usable_cs_helper.fn ∧ two_usable_cs.args.map (·.1) = two_usable_cs_helper.params ∧
    two_usable_cs_helper.params ≠ [] ∧
    three_usable_cs.helper = three_usable_cs_helper.fn ∧ three_usable_cs.args.map (·.1) = three_usable_cs_helper.params ∧
    three_usable_cs_helper.params ≠ [] := by decide

/-- **two rolls: the usable cross-section is the part of the opening with `|z| ≤ usable_width / 2`, `usable_width` being the
    hook value of the PASS** (`ρ "usable_width"`; the groove's usable width is `ρ "roll.groove.usable_width"`): a point of the
    opening is kept, where it is, exactly when it lies in that window. -/
theorem usable_cs_spans_usable_width (ρ : String → ℝ) (p : Pt ℝ) :
    keepPt (callEnv ρ two_usable_cs) two_usable_cs_helper.ops p =
      if -(ρ U / 2) ≤ p.x ∧ p.x ≤ ρ U / 2 then some p else none := by
  by_cases h : -(ρ "usable_width" / 2) ≤ p.x ∧ p.x ≤ ρ "usable_width" / 2 <;>
    simp [two_usable_cs, two_usable_cs_helper, keepPt, callEnv, extend, lookup, lowerOk, upperOk, eval, U, neg_div, h]

theorem rot120_cube (p : Pt ℝ) : rot120 (rot120 (rot120 p)) = p := by
  have h3 := sqrt3_sq
  ext <;> simp only [rot120]
  · linear_combination (3 / 8 * p.x + Real.sqrt 3 * p.y / 8) * h3
  · linear_combination (3 / 8 * p.y - Real.sqrt 3 * p.x / 8) * h3

/-- the extent of a point towards the three gaps of a three-roll pass (directions 90°, 330°, 210°) -/
theorem rot120_extents (p : Pt ℝ) :
    (rot120 p).y = Real.sqrt 3 / 2 * p.x - 1 / 2 * p.y ∧
    (rot120 (rot120 p)).y = -(Real.sqrt 3 / 2) * p.x - 1 / 2 * p.y := by
  have h3 := sqrt3_sq
  refine ⟨rfl, ?_⟩
  simp only [rot120]
  linear_combination (-(1 / 4) * p.y) * h3

/-- **three rolls: the usable cross-section is the part of the opening whose extent towards each of the three gaps is at most
    `usable_width / 2`, `usable_width` being the hook value of the PASS**; a kept point ends up where it was (three turns). -/
theorem usable_cs3_spans_usable_width (ρ : String → ℝ) (p : Pt ℝ) :
    keepPt (callEnv ρ three_usable_cs) three_usable_cs_helper.ops p =
      if p.y ≤ ρ U / 2 ∧ (rot120 p).y ≤ ρ U / 2 ∧ (rot120 (rot120 p)).y ≤ ρ U / 2 then some p else none := by
  have hr : ∀ q : Pt ℝ, rotPt (120 : ℝ) q = rot120 q := fun q => rotPt_120_deg q
  simp only [three_usable_cs, three_usable_cs_helper, keepPt, callEnv, extend, lookup, lowerOk, upperOk, eval, U,
    List.map, PyNum.nat_real, Nat.cast_ofNat, hr, rot120_cube, Bool.true_and, le_real, decide_eq_true_eq, if_true]
  by_cases h1 : p.y ≤ ρ "usable_width" / 2 <;> by_cases h2 : (rot120 p).y ≤ ρ "usable_width" / 2 <;>
    by_cases h3 : (rot120 (rot120 p)).y ≤ ρ "usable_width" / 2 <;> simp [h1, h2, h3]

/-- the width handed over is one of the canonical `usable_width` terms of the supplied member -/
def widthIn (canon : List (String × String × Expr)) (g : String) (r : List (String × Res)) : Bool :=
  !r.isEmpty && r.all fun x => match x.2 with
    | .val e => decide ((g, U, e) ∈ canon)
    | _ => false

/-- **which width (control part, kernel-evaluated on the generated call and tables)**: on a fresh pass given one member, the
    term handed to the helper is what a read of the hook `usable_width` of the pass answers (`canon2` / `canon3`); when
    `usable_width` is given explicitly to the pass it is that value (`.var U`), and when a plug-in subclass registers its own
    implementation it is that implementation's answer - never the groove's usable width read past the hook. -/
theorem usable_cs_width_is_the_pass_usable_width :
    (∀ g ∈ [G, H], widthIn canon2 g (handedOver two_cls two_usable_cs [g]) = true ∧
      (handedOver two_cls two_usable_cs [g, U]).map (·.2) = [.val (.var U)] ∧
      (handedOver (withPlugin two_cls U (.var "plugin.usable_width")) two_usable_cs [g]).map (·.2)
        = [.val (.var "plugin.usable_width")]) ∧
    (∀ g ∈ [G, H, D], widthIn canon3 g (handedOver three_cls three_usable_cs [g]) = true ∧
      (handedOver three_cls three_usable_cs [g, U]).map (·.2) = [.val (.var U)] ∧
      (handedOver (withPlugin three_cls U (.var "plugin.usable_width")) three_usable_cs [g]).map (·.2)
        = [.val (.var "plugin.usable_width")]) := by decide

theorem widthIn_sound (ρ : String → ℝ) (canon : List (String × String × Expr)) (g : String) (r : List (String × Res))
    (hc : ∀ x ∈ canon, eval ρ x.2.2 = ρ x.2.1) (h : widthIn canon g r = true) :
    r ≠ [] ∧ ∀ x ∈ r, ∃ e, x.2 = Res.val e ∧ eval ρ e = ρ U := by
  simp only [widthIn, Bool.and_eq_true, List.all_eq_true, Bool.not_eq_true', List.isEmpty_eq_false_iff] at h
  refine ⟨h.1, ?_⟩
  intro x hx
  have := h.2 x hx
  cases hv : x.2 with
  | val e =>
    rw [hv] at this
    simp only [decide_eq_true_eq] at this
    exact ⟨e, rfl, hc _ this⟩
  | none => rw [hv] at this; simp at this
  | bool b => rw [hv] at this; simp at this
  | env xs => rw [hv] at this; simp at this
  | unit => rw [hv] at this; simp at this
  | attrErr => rw [hv] at this; simp at this
  | unsupported w => rw [hv] at this; simp at this
  | fuelOut => rw [hv] at this; simp at this

/-- **which width (value), two rolls**: in a consistent opening the width handed to the helper has the value of the usable
    width of the pass, whichever member was supplied -/
theorem usable_cs_width_value (ρ : String → ℝ) (W : World2 ρ) :
    ∀ g ∈ [G, H], ∀ x ∈ handedOver two_cls two_usable_cs [g], ∃ e, x.2 = Res.val e ∧ eval ρ e = ρ U := by
  intro g hg
  exact (widthIn_sound ρ canon2 g _ (canon2_sound ρ W) ((usable_cs_width_is_the_pass_usable_width.1 g hg).1)).2

/-- **which width (value), three rolls** -/
theorem usable_cs3_width_value (ρ : String → ℝ) (c : List (Pt ℝ)) (W : World3 ρ c) :
    ∀ g ∈ [G, H, D], ∀ x ∈ handedOver three_cls three_usable_cs [g], ∃ e, x.2 = Res.val e ∧ eval ρ e = ρ U := by
  intro g hg
  exact (widthIn_sound ρ canon3 g _ (canon3_sound ρ c W) ((usable_cs_width_is_the_pass_usable_width.2 g hg).1)).2

/-- **three rolls, reaches exactly the usable width**: with the default usable width (`World3`) the placed usable-width end
    points of the right and the left groove - `(±gap/2, usable_width/2)` by `three_roll_usable_width_corner` - lie ON the clip
    line of the upper gap and are kept (for `gap ≥ 0` and a non-negative groove width): the cross-section reaches the usable
    width there and, by `usable_cs3_spans_usable_width`, nowhere beyond. -/
theorem usable_cs3_keeps_usable_width_corners (ρ : String → ℝ) (hU : ρ U = eval ρ three_usable_width_e)
    (hg : 0 ≤ ρ "gap") (hw : 0 ≤ ρ "roll.groove.usable_width") :
    keepPt (callEnv ρ three_usable_cs) three_usable_cs_helper.ops
        (placePt ρ three_roll_line2 ⟨-(ρ "roll.groove.usable_width" / 2), 0⟩) = some ⟨ρ "gap" / 2, ρ U / 2⟩ ∧
    keepPt (callEnv ρ three_usable_cs) three_usable_cs_helper.ops
        (placePt ρ three_roll_line0 ⟨ρ "roll.groove.usable_width" / 2, 0⟩) = some ⟨-(ρ "gap" / 2), ρ U / 2⟩ := by
  have h3 := sqrt3_sq
  have hp := sqrt3_pos
  have hc := three_roll_usable_width_corner ρ
  rw [hc.1, hc.2, ← hU, usable_cs3_spans_usable_width, usable_cs3_spans_usable_width]
  have hUv : Real.sqrt 3 * ρ U = 2 * ρ "roll.groove.usable_width" + ρ "gap" := by
    rw [hU]
    simp only [three_usable_width_e, eval, PyNum.nat_real, PyNum.sqrt_real]
    push_cast
    linear_combination (2 / 3 * (ρ "roll.groove.usable_width" + ρ "gap" / 2)) * h3
  have hUpos : 0 ≤ ρ U := by
    have : 0 ≤ Real.sqrt 3 * ρ U := by rw [hUv]; linarith
    exact nonneg_of_mul_nonneg_right (by linarith) hp
  obtain ⟨e1, e2⟩ := rot120_extents (⟨ρ "gap" / 2, ρ U / 2⟩ : Pt ℝ)
  obtain ⟨f1, f2⟩ := rot120_extents (⟨-(ρ "gap" / 2), ρ U / 2⟩ : Pt ℝ)
  have k1 : Real.sqrt 3 * (Real.sqrt 3 / 2 * (ρ "gap" / 2)) ≤ Real.sqrt 3 * (3 / 4 * ρ U) := by
    have : Real.sqrt 3 * (Real.sqrt 3 / 2 * (ρ "gap" / 2)) = 3 / 4 * ρ "gap" := by linear_combination (ρ "gap" / 4) * h3
    rw [this]; nlinarith
  have k1' := le_of_mul_le_mul_left k1 hp
  constructor
  · rw [if_pos]
    refine ⟨le_refl _, ?_, ?_⟩
    · rw [e1]; simp only; linarith
    · rw [e2]; simp only; nlinarith
  · rw [if_pos]
    refine ⟨le_refl _, ?_, ?_⟩
    · rw [f1]; simp only; nlinarith
    · rw [f2]; simp only; linarith

/-! ## non-vacuity: concrete contours / openings satisfying the hypotheses -/

/-- a triangular groove of width 4 and depth 1 with its face vertices at `y = 0` -/
def tri : List (Pt ℝ) := [⟨-2, 0⟩, ⟨0, 1⟩, ⟨2, 0⟩]

def env2 : String → ℝ := fun n =>
  if n = "gap" then 1 else if n = "roll.groove.depth" then 1 else if n = "roll.groove.usable_width" then 4
  else if n = "height" then 3 else if n = "usable_width" then 4 else 0

example : (⟨2, 0⟩ : Pt ℝ) ∈ tri ∧ (⟨-2, 0⟩ : Pt ℝ) ∈ tri := by simp [tri]

example : (∀ p ∈ tri, p.y ≤ env2 "roll.groove.depth") ∧ (∃ p ∈ tri, p.y = env2 "roll.groove.depth") := by
  simp [tri, env2]

example : World2 env2 := ⟨by simp [env2, two_height_e, eval]; norm_num, by simp [env2, two_usable_width_e, eval]⟩

/-- the supplied height 3 of that opening gives back gap 1 in the order (usable_width, height, gap) -/
example : ∀ x ∈ (session two_cls [H] [U, H, G]).1, ∃ e, x.2 = Res.val e ∧ eval env2 e = env2 x.1 :=
  two_roll_interchangeable env2 ⟨by simp [env2, two_height_e, eval]; norm_num, by simp [env2, two_usable_width_e, eval]⟩
    H (by simp [G, H]) _ (by simp [orders2, G, H, U])

/-- face points of a 30° groove: on the lines through the usable-width points -/
example : ∃ (ρ : String → ℝ) (p q : Pt ℝ),
    Real.sqrt 3 * p.y = p.x - ρ "roll.groove.usable_width" / 2 ∧
    Real.sqrt 3 * q.y = -q.x - ρ "roll.groove.usable_width" / 2 ∧ p.y ≠ 0 ∧ 0 < ρ "gap" :=
  ⟨fun n => if n = "gap" then 1 else 2, ⟨1 + Real.sqrt 3, 1⟩, ⟨-1 - Real.sqrt 3, 1⟩, by simp, by simp, by simp, by simp⟩

/-- a 30° groove of usable width 2 and depth 1 (the usable part is the triangle, the faces rise outside of it) in a three-roll
    opening with gap 1 -/
noncomputable def tri3 : List (Pt ℝ) := [⟨-1 - Real.sqrt 3, 1⟩, ⟨-1, 0⟩, ⟨0, 1⟩, ⟨1, 0⟩, ⟨1 + Real.sqrt 3, 1⟩]

noncomputable def env3 : String → ℝ := fun n =>
  if n = "gap" then 1 else if n = "roll.groove.depth" then 1 else if n = "roll.groove.usable_width" then 2
  else if n = "gap3_from_height:usable_contour.bounds[3]" then 1
  else if n = "height3:usable_contour.bounds[1]" then -(1 + 2 / Real.sqrt 3)
  else if n = "height" then 2 * (2 / Real.sqrt 3 + 1)
  else if n = "inscribed_circle_diameter" then 2 * (2 / Real.sqrt 3 + 1)
  else if n = "usable_width" then 2 / 3 * Real.sqrt 3 * (2 + 1 / 2) else 0

theorem env3_shift : shift env3 = 2 / Real.sqrt 3 := by
  simp [shift, env3]; ring

theorem tri3_usable : clipCands (-(env3 "roll.groove.usable_width" / 2)) (env3 "roll.groove.usable_width" / 2) tri3
    = [⟨-1, 0⟩, ⟨0, 1⟩, ⟨1, 0⟩] := by
  have h3 := sqrt3_pos
  have e : env3 "roll.groove.usable_width" / 2 = 1 := by simp [env3]
  rw [e]
  have a1 : ¬ (-1 ≤ -1 - Real.sqrt 3) := by linarith
  have a2 : ¬ (1 + Real.sqrt 3 ≤ 1) := by linarith
  have a3 : ¬ (1 + Real.sqrt 3 < 1) := by linarith
  have a4 : ¬ (-1 < -1 - Real.sqrt 3) := by linarith
  have a5 : ¬ (1 + Real.sqrt 3 < -1) := by linarith
  have a6 : ¬ (1 < -1 - Real.sqrt 3) := by linarith
  simp [clipCands, segs, tri3, crossings, between, insideX, List.filter, a1, a2, a3, a4, a5, a6]

theorem tri3_depth : usableDepth env3 tri3 = 1 := by
  rw [usableDepth, tri3_usable]
  simp [bound, maxOf]

theorem world3_example : World3 env3 tri3 := by
  have h3 := sqrt3_pos
  have hne : UsableNonempty env3 tri3 := by rw [UsableNonempty, tri3_usable]; simp
  refine ⟨?_, ?_, ?_, ?_, ?_, hne, ?_⟩
  · rw [three_roll_measured_depth, tri3_depth]; simp [env3]
  · rw [three_roll_measured_bottom _ _ hne, tri3_depth, env3_shift]; simp [env3]
  · have hb : env3 "height3:usable_contour.bounds[1]" = clipValue three_cls three_roll_lines env3 tri3 1 1 := by
      rw [three_roll_measured_bottom _ _ hne, tri3_depth, env3_shift]; simp [env3]
    rw [three_roll_height_value env3 tri3 hne hb (by rw [tri3_depth, env3_shift]; positivity), tri3_depth, env3_shift]
    simp [env3]
  · rw [three_roll_icd_formula, env3_shift]; simp [env3]
  · have h3' : Real.sqrt 3 ^ 2 = 3 := Real.sq_sqrt (by norm_num)
    have e1 : env3 "usable_width" = 2 / 3 * Real.sqrt 3 * (2 + 1 / 2) := by simp [env3]
    have e2 : env3 "roll.groove.usable_width" = 2 := by simp [env3]
    have e3 : env3 "gap" = 1 := by simp [env3]
    simp only [three_usable_width_e, eval, e1, e2, e3, PyNum.nat_real, PyNum.sqrt_real]
    push_cast
    field_simp <;> ring_nf <;> (try simp only [h3']) <;> (try ring)
  · rw [tri3_depth, env3_shift]; positivity

example : ∃ ρ c, World3 ρ c := ⟨env3, tri3, world3_example⟩

/-- in that opening the supplied height determines the inscribed-circle diameter even when it is read first -/
example : ∀ x ∈ (session three_cls [H] [D, G, H]).1, ∃ e, x.2 = Res.val e ∧ eval env3 e = env3 x.1 :=
  (three_roll_interchangeable env3 tri3 world3_example H (by simp [G, H, D]) _ (by simp [orders3, G, H, D, U])).1

/-- the end vertices of `tri3` lie on the 30° face lines; with gap 1 the neighbouring face ends are 1 apart -/
example : dist (placePt env3 three_roll_line1 ⟨-(1 + Real.sqrt 3), 1⟩) (placePt env3 three_roll_line2 ⟨1 + Real.sqrt 3, 1⟩)
    = 1 := by
  have := three_roll_neighbour_gap env3 (1 + Real.sqrt 3) 1 (by simp [env3]) (by simp [env3])
  simpa [env3] using this

/-- dimensioned late: the same opening, the height assigned after `contour_lines`, `height` and `usable_width` were asked of
    the bare pass -/
example : ∀ x ∈ (lateSession three_cls [.contour, .hook H, .hook U] [H] [D, G, H]).2.1,
    ∃ e, x.2 = Res.val e ∧ eval env3 e = env3 x.1 :=
  (three_roll_late_interchangeable env3 tri3 world3_example _ (by decide) H (by simp [G, H, D]) _
    (by simp [orders3, G, H, D, U])).1

/-- two rolls: `usable_width` answers on the bare pass (and stays cached), `contour_lines` does not; the gap assigned
    afterwards still determines the height -/
example : (lateSession two_cls [.hook U, .contour] [G] [H]).1 = [(U, .val two_usable_width_e), ("contour_lines", .attrErr)] ∧
    (lateSession two_cls [.hook U, .contour] [G] [H]).2.1 = [(H, .val two_height_e)] := by decide

/-- usable width 4 of the pass `env2`: the point `(2, 0.3)` of the opening belongs to the usable cross-section, `(2.1, 0)` not -/
example : keepPt (callEnv env2 two_usable_cs) two_usable_cs_helper.ops ⟨2, 3 / 10⟩ = some ⟨2, 3 / 10⟩ ∧
    keepPt (callEnv env2 two_usable_cs) two_usable_cs_helper.ops ⟨21 / 10, 0⟩ = none := by
  rw [usable_cs_spans_usable_width, usable_cs_spans_usable_width]
  constructor
  · rw [if_pos]; simp [env2, U]; norm_num
  · rw [if_neg]; simp [env2, U]; norm_num

/-- a pass whose usable width (3) is NOT the groove's (4): the usable cross-section ends at ±1.5 -/
example : ∃ ρ : String → ℝ, ρ U ≠ ρ "roll.groove.usable_width" ∧
    keepPt (callEnv ρ two_usable_cs) two_usable_cs_helper.ops ⟨3 / 2, 0⟩ = some ⟨3 / 2, 0⟩ ∧
    keepPt (callEnv ρ two_usable_cs) two_usable_cs_helper.ops ⟨2, 0⟩ = none := by
  refine ⟨fun n => if n = "usable_width" then 3 else 4, by simp [U], ?_, ?_⟩
  · rw [usable_cs_spans_usable_width, if_pos]; simp only [U]; norm_num
  · rw [usable_cs_spans_usable_width, if_neg]; simp only [U]; norm_num

/-- three rolls, the opening `env3`: on the axis of the upper gap the usable cross-section ends exactly at `usable_width / 2` -/
example : keepPt (callEnv env3 three_usable_cs) three_usable_cs_helper.ops ⟨0, env3 U / 2⟩ = some ⟨0, env3 U / 2⟩ ∧
    keepPt (callEnv env3 three_usable_cs) three_usable_cs_helper.ops ⟨0, env3 U / 2 + 1⟩ = none := by
  have h3 := sqrt3_pos
  have hU : 0 < env3 U := by simp only [env3, U]; simp; positivity
  rw [usable_cs3_spans_usable_width, usable_cs3_spans_usable_width]
  constructor
  · obtain ⟨e1, e2⟩ := rot120_extents (⟨0, env3 U / 2⟩ : Pt ℝ)
    rw [if_pos]
    refine ⟨le_refl _, ?_, ?_⟩
    · rw [e1]; simp only; linarith
    · rw [e2]; simp only; linarith
  · rw [if_neg]
    intro h
    have := h.1
    simp only at this
    linarith

example : ∀ g ∈ [G, H, D], ∀ x ∈ handedOver three_cls three_usable_cs [g], ∃ e, x.2 = Res.val e ∧ eval env3 e = env3 U :=
  usable_cs3_width_value env3 tri3 world3_example

example : ∀ g ∈ [G, H], ∀ x ∈ handedOver two_cls two_usable_cs [g], ∃ e, x.2 = Res.val e ∧ eval env2 e = env2 U :=
  usable_cs_width_value env2 ⟨by simp [env2, two_height_e, eval]; norm_num, by simp [env2, two_usable_width_e, eval]⟩

/-- the corners of `env3` (gap 1, groove width 2) -/
example : keepPt (callEnv env3 three_usable_cs) three_usable_cs_helper.ops
    (placePt env3 three_roll_line2 ⟨-(env3 "roll.groove.usable_width" / 2), 0⟩) = some ⟨env3 "gap" / 2, env3 U / 2⟩ :=
  (usable_cs3_keeps_usable_width_corners env3 world3_example.usable_width (by simp [env3]) (by simp [env3])).1

/-! ## where the placed contour comes from; what refinement does to the cross-sections

`contour_lines` places `self.roll.contour_line` (pinned by the placement extractor).  `Gen.C09Roll` holds, re-read from the
source on every run: the property `Roll.contour_line`, every implementation registered on `Roll.contour_points`, the
statements of `refine_cross_section`, and what the return statement of the cross-section helpers wraps the polygon in. -/

section RollSource
open Gen.C09Roll

/-- **the contour a pass places is the groove's contour** on every roll whose contour points are not given explicitly,
    whatever else is given on the roll (barrel width, radii): `Roll.contour_line` is the line through the hook value
    `contour_points`, and every implementation of that hook answers `groove.contour_points` - unguarded, reading nothing else.
    (Together with the placement theorems above, which hold for an ARBITRARY vertex list, this covers explicitly given contour
    points as well.) -/
theorem placed_contour_is_the_groove_contour :
    resolve roll_hook_impls 3 roll_contour_line = [.lineOf .grooveContour] := by decide

/-- **refinement only adds points**: the cross-section helpers return their clipped polygon through `refine_cross_section`
    (or as it is); with `Config.PROFILE_CONTOUR_REFINEMENT = 0` that function answers its argument, with every value `≥ 1` its
    argument with vertices inserted on the edges - no statement of it changes the point set.  Hence the span / kept-point
    theorems about `usable_cross_section` hold under every value of the configuration switch. -/
theorem refinement_only_adds_points :
    (∀ s ∈ refine_steps, s.keepsPointSet = true) ∧
    answering 0 refine_steps = some (.offBelow 1) ∧
    (∀ v, 1 ≤ v → answering v refine_steps = some .segmentize) ∧
    (∀ h ∈ helper_returns, h.2 = "refine_cross_section" ∨ h.2 = "") ∧
    helper_returns.map (·.1) = [two_usable_cs_helper.fn, three_usable_cs_helper.fn] := by
  refine ⟨by decide, by decide, ?_, by decide, by decide⟩
  intro v hv
  have : ¬ v < 1 := by omega
  simp [refine_steps, answering, this]

/-- non-vacuity: the statements distinguish - an implementation reading more than the groove, a rebuilt polygon -/
example : resolve [("contour_points", [.opaque "continues the face to the barrel edge"])] 3 roll_contour_line
    ≠ [.lineOf .grooveContour] := by decide
example : ¬ (∀ s ∈ [RefineStep.offBelow 1, .opaque "polygon rebuilt from interpolated points"], s.keepsPointSet = true) := by
  decide
example : answering 7 refine_steps = some .segmentize := refinement_only_adds_points.2.2.1 7 (by omega)

end RollSource

end C09
