import PyrollModel.Gen.C17
import PyrollProofs.RealNum

/-!
# C17 — derived profile, stress and deformation quantities obey their identities

Every theorem below is about the `Expr` GENERATED from the current `/repo` source
(`PyrollModel/Gen/C17.lean`, rewritten by `driver/props/c17.py::translate` on every run), evaluated over ℝ.
A change of a formula in `pyroll/core/profile/hookimpls.py`, `roll/hookimpls.py` or
`roll_pass/hookimpls/deformation_unit.py` changes the generated term, and the theorem that no longer follows
stops building.

A hook implementation is translated as a list of guarded ALTERNATIVES (`Impl.alts`: one per `return`, with its path
condition).  The `…_every_alt` theorems state an identity for EVERY alternative of the generated `Impl` (`EveryAlt`), the
`…_single_alt` theorems state that an implementation consists of its one unguarded formula: a branch added to the source
(e.g. a shortcut through a cached value) appears as a further alternative and must satisfy the identity too, otherwise the
theorem named after the source item stops building.

Variables are the attribute paths the implementation reads (`cross_section.area`, `width`, …); `ρ` assigns reals.
Chord properties of `local_height/local_width` (shapely intersections) are not theorems: they are checked
numerically by the harness (partial, see DESIGN.md).
-/

open Gen.C17 Expr

namespace C17

variable (ρ : String → ℝ)

/-- Every alternative of a translated implementation is either `return None` (the hook falls through to the next
    implementation) or a formula satisfying `P`; an alternative outside the translatable subset falsifies it. -/
def EveryAlt (i : Impl) (P : Expr → Prop) : Prop :=
  ∀ a ∈ i.alts, match a.2 with
    | .expr e => P e
    | .none => True
    | _ => False

/-! ### equivalent rectangle / radius -/

/-- the three implementations are their single unguarded formula (no other branch exists) -/
theorem rectangle_single_alt :
    equivalent_height.alts = [(.tt, .expr equivalent_height_e)] ∧
    equivalent_width.alts = [(.tt, .expr equivalent_width_e)] ∧
    equivalent_radius.alts = [(.tt, .expr equivalent_radius_e)] := ⟨rfl, rfl, rfl⟩

/-- the equivalent rectangle has the profile's area -/
theorem eq_rect_area (hA : 0 ≤ ρ "cross_section.area") (hw : 0 < ρ "width") (hh : 0 < ρ "height") :
    eval ρ equivalent_width_e * eval ρ equivalent_height_e = ρ "cross_section.area" := by
  simp only [equivalent_width_e, equivalent_height_e, eval, PyNum.sqrt_real]
  rw [← Real.sqrt_mul (by positivity)]
  have : ρ "cross_section.area" * ρ "width" / ρ "height" * (ρ "cross_section.area" * ρ "height" / ρ "width")
      = ρ "cross_section.area" ^ 2 := by field_simp
  rw [this, Real.sqrt_sq hA]

/-- … and its width-to-height ratio -/
theorem eq_rect_ratio (hA : 0 < ρ "cross_section.area") (hw : 0 < ρ "width") (hh : 0 < ρ "height") :
    eval ρ equivalent_width_e / eval ρ equivalent_height_e = ρ "width" / ρ "height" := by
  simp only [equivalent_width_e, equivalent_height_e, eval, PyNum.sqrt_real]
  rw [← Real.sqrt_div (by positivity)]
  have : ρ "cross_section.area" * ρ "width" / ρ "height" / (ρ "cross_section.area" * ρ "height" / ρ "width")
      = (ρ "width" / ρ "height") ^ 2 := by field_simp
  rw [this, Real.sqrt_sq (by positivity)]

/-- the equivalent radius has the area of the profile -/
theorem eq_radius_area (hA : 0 ≤ ρ "cross_section.area") :
    Real.pi * (eval ρ equivalent_radius_e) ^ 2 = ρ "cross_section.area" := by
  simp only [equivalent_radius_e, eval, PyNum.sqrt_real, PyNum.pi_real]
  rw [Real.sq_sqrt (by positivity)]
  field_simp

/-! ### stresses -/

/-- hydrostatic stress is the mean of the three principal stresses -/
theorem hydrostatic_mean :
    eval ρ hydrostatic_stress_e
      = (ρ "longitudinal_stress" + ρ "altitudinal_stress" + ρ "latitudinal_stress") / 3 := by
  simp [hydrostatic_stress_e, eval]

/-- … in every alternative of the implementation (the only other one is `return None` when a stress is missing) -/
theorem hydrostatic_every_alt :
    EveryAlt hydrostatic_stress (fun e => eval ρ e
      = (ρ "longitudinal_stress" + ρ "altitudinal_stress" + ρ "latitudinal_stress") / 3) := by
  simp [EveryAlt, hydrostatic_stress, eval]

/-- the three stresses as an environment (for the permutation statements) -/
def stressEnv (a b c : ℝ) : String → ℝ := fun n =>
  if n = "longitudinal_stress" then a else if n = "altitudinal_stress" then b
  else if n = "latitudinal_stress" then c else 0

theorem von_mises_value (a b c : ℝ) :
    eval (stressEnv a b c) equivalent_stress_e
      = Real.sqrt (1 / 2 * ((a - b) ^ 2 + (b - c) ^ 2 + (c - a) ^ 2)) := by
  simp [equivalent_stress_e, eval, stressEnv]

/-- every alternative of `equivalent_stress` is the von Mises value (so the statements below hold for each branch) -/
theorem von_mises_every_alt (a b c : ℝ) :
    EveryAlt equivalent_stress (fun e => eval (stressEnv a b c) e
      = Real.sqrt (1 / 2 * ((a - b) ^ 2 + (b - c) ^ 2 + (c - a) ^ 2))) := by
  simp [EveryAlt, equivalent_stress, eval, stressEnv]

/-- equivalent stress is unchanged under every permutation of the principal stresses -/
theorem von_mises_perm (a b c : ℝ) :
    eval (stressEnv b a c) equivalent_stress_e = eval (stressEnv a b c) equivalent_stress_e ∧
    eval (stressEnv a c b) equivalent_stress_e = eval (stressEnv a b c) equivalent_stress_e ∧
    eval (stressEnv c b a) equivalent_stress_e = eval (stressEnv a b c) equivalent_stress_e ∧
    eval (stressEnv b c a) equivalent_stress_e = eval (stressEnv a b c) equivalent_stress_e ∧
    eval (stressEnv c a b) equivalent_stress_e = eval (stressEnv a b c) equivalent_stress_e := by
  simp only [von_mises_value]
  refine ⟨?_, ?_, ?_, ?_, ?_⟩ <;> congr 1 <;> ring

/-- zero for a hydrostatic state -/
theorem von_mises_hydrostatic_zero (s : ℝ) : eval (stressEnv s s s) equivalent_stress_e = 0 := by
  simp [von_mises_value]

/-- `|s|` for a uniaxial state, whichever axis carries it -/
theorem von_mises_uniaxial (s : ℝ) :
    eval (stressEnv s 0 0) equivalent_stress_e = |s| ∧
    eval (stressEnv 0 s 0) equivalent_stress_e = |s| ∧
    eval (stressEnv 0 0 s) equivalent_stress_e = |s| := by
  simp only [von_mises_value]
  refine ⟨?_, ?_, ?_⟩ <;>
  · rw [← Real.sqrt_sq_eq_abs]; congr 1; ring

/-! ### thermal quantities (profile and roll) -/

theorem diffusivity_identity (hr : ρ "density" ≠ 0) (hc : ρ "specific_heat_capacity" ≠ 0) :
    eval ρ thermal_diffusivity_e * ρ "density" * ρ "specific_heat_capacity" = ρ "thermal_conductivity" := by
  simp only [thermal_diffusivity_e, eval]; field_simp

theorem penetration_identity
    (h : 0 ≤ ρ "thermal_conductivity" * ρ "density" * ρ "specific_heat_capacity") :
    (eval ρ heat_penetration_number_e) ^ 2
      = ρ "thermal_conductivity" * ρ "density" * ρ "specific_heat_capacity" := by
  simp only [heat_penetration_number_e, eval, PyNum.sqrt_real]
  exact Real.sq_sqrt h

theorem roll_diffusivity_identity (hr : ρ "density" ≠ 0) (hc : ρ "specific_heat_capacity" ≠ 0) :
    eval ρ roll_thermal_diffusivity_e * ρ "density" * ρ "specific_heat_capacity" = ρ "thermal_conductivity" := by
  simp only [roll_thermal_diffusivity_e, eval]; field_simp

theorem roll_penetration_identity
    (h : 0 ≤ ρ "thermal_conductivity" * ρ "density" * ρ "specific_heat_capacity") :
    (eval ρ roll_heat_penetration_number_e) ^ 2
      = ρ "thermal_conductivity" * ρ "density" * ρ "specific_heat_capacity" := by
  simp only [roll_heat_penetration_number_e, eval, PyNum.sqrt_real]
  exact Real.sq_sqrt h

/-! #### the same for EVERY alternative of the four implementations

A branch that reuses another (cached) derived value reads a variable other than the three material constants and has to
satisfy the identity for arbitrary values of it - i.e. it cannot; the derived quantities "follow from conductivity,
density and heat capacity". -/

/-- `a·ρ·c = λ` as a predicate on a formula -/
def IsDiffusivity (e : Expr) : Prop :=
  eval ρ e * ρ "density" * ρ "specific_heat_capacity" = ρ "thermal_conductivity"

/-- `b² = λ·ρ·c`, `b ≥ 0` as a predicate on a formula -/
def IsPenetration (e : Expr) : Prop :=
  (eval ρ e) ^ 2 = ρ "thermal_conductivity" * ρ "density" * ρ "specific_heat_capacity" ∧ 0 ≤ eval ρ e

theorem diffusivity_every_alt (hr : ρ "density" ≠ 0) (hc : ρ "specific_heat_capacity" ≠ 0) :
    EveryAlt thermal_diffusivity (IsDiffusivity ρ) := by
  simp only [EveryAlt, IsDiffusivity, thermal_diffusivity, List.forall_mem_cons, List.not_mem_nil, eval]
  field_simp
  simp

theorem roll_diffusivity_every_alt (hr : ρ "density" ≠ 0) (hc : ρ "specific_heat_capacity" ≠ 0) :
    EveryAlt roll_thermal_diffusivity (IsDiffusivity ρ) := by
  simp only [EveryAlt, IsDiffusivity, roll_thermal_diffusivity, List.forall_mem_cons, List.not_mem_nil, eval]
  field_simp
  simp

theorem penetration_every_alt
    (h : 0 ≤ ρ "thermal_conductivity" * ρ "density" * ρ "specific_heat_capacity") :
    EveryAlt heat_penetration_number (IsPenetration ρ) := by
  simp only [EveryAlt, IsPenetration, heat_penetration_number, List.forall_mem_cons, List.not_mem_nil, eval,
    PyNum.sqrt_real]
  simp [Real.sq_sqrt h, Real.sqrt_nonneg]

theorem roll_penetration_every_alt
    (h : 0 ≤ ρ "thermal_conductivity" * ρ "density" * ρ "specific_heat_capacity") :
    EveryAlt roll_heat_penetration_number (IsPenetration ρ) := by
  simp only [EveryAlt, IsPenetration, roll_heat_penetration_number, List.forall_mem_cons, List.not_mem_nil, eval,
    PyNum.sqrt_real]
  simp [Real.sq_sqrt h, Real.sqrt_nonneg]

/-- the two identities determine each derived value from the other: `b = λ/√a` -/
theorem mutual_of_identities {ea eb : Expr} (ha : IsDiffusivity ρ ea) (hb : IsPenetration ρ eb)
    (hk : 0 < ρ "thermal_conductivity") (hr : 0 < ρ "density") (hc : 0 < ρ "specific_heat_capacity") :
    eval ρ eb = ρ "thermal_conductivity" / Real.sqrt (eval ρ ea) := by
  obtain ⟨hb2, hb0⟩ := hb
  unfold IsDiffusivity at ha
  have hapos : 0 < eval ρ ea := by
    by_contra hneg
    have h1 : eval ρ ea * ρ "density" * ρ "specific_heat_capacity" ≤ 0 :=
      mul_nonpos_of_nonpos_of_nonneg (mul_nonpos_of_nonpos_of_nonneg (not_lt.mp hneg) hr.le) hc.le
    linarith
  have hs : 0 < Real.sqrt (eval ρ ea) := Real.sqrt_pos.2 hapos
  rw [eq_div_iff hs.ne']
  have hsq : (eval ρ eb * Real.sqrt (eval ρ ea)) ^ 2 = ρ "thermal_conductivity" ^ 2 := by
    rw [mul_pow, Real.sq_sqrt hapos.le, hb2, ← ha]; ring
  have h0 : 0 ≤ eval ρ eb * Real.sqrt (eval ρ ea) := mul_nonneg hb0 hs.le
  exact (pow_left_inj₀ h0 hk.le (by norm_num)).mp hsq

/-- … for every pair of alternatives, i.e. whichever branch either implementation takes (profile / roll) -/
theorem thermal_mutual_every_alt
    (hk : 0 < ρ "thermal_conductivity") (hr : 0 < ρ "density") (hc : 0 < ρ "specific_heat_capacity") :
    EveryAlt thermal_diffusivity (fun ea => EveryAlt heat_penetration_number (fun eb =>
      eval ρ eb = ρ "thermal_conductivity" / Real.sqrt (eval ρ ea))) := by
  have hA := diffusivity_every_alt ρ hr.ne' hc.ne'
  have hB := penetration_every_alt ρ (by positivity)
  intro a ha
  have hA' := hA a ha
  split <;> try trivial
  · intro b hb
    have hB' := hB b hb
    split <;> try trivial
    · simp_all only
      exact mutual_of_identities ρ hA' hB' hk hr hc
    · simp_all
  · simp_all

theorem roll_thermal_mutual_every_alt
    (hk : 0 < ρ "thermal_conductivity") (hr : 0 < ρ "density") (hc : 0 < ρ "specific_heat_capacity") :
    EveryAlt roll_thermal_diffusivity (fun ea => EveryAlt roll_heat_penetration_number (fun eb =>
      eval ρ eb = ρ "thermal_conductivity" / Real.sqrt (eval ρ ea))) := by
  have hA := roll_diffusivity_every_alt ρ hr.ne' hc.ne'
  have hB := roll_penetration_every_alt ρ (by positivity)
  intro a ha
  have hA' := hA a ha
  split <;> try trivial
  · intro b hb
    have hB' := hB b hb
    split <;> try trivial
    · simp_all only
      exact mutual_of_identities ρ hA' hB' hk hr hc
    · simp_all
  · simp_all

/-! ### coefficients of draught, spread, elongation: absolute / relative / logarithmic forms -/

/-- A consistent assignment: every hook variable the formulas read has the value its own formula gives. -/
structure Consistent (ρ : String → ℝ) : Prop where
  draught : ρ "draught" = eval ρ draught_e
  spread : ρ "spread" = eval ρ spread_e
  elongation : ρ "elongation" = eval ρ elongation_e
  abs_draught : ρ "abs_draught" = eval ρ abs_draught_e
  abs_spread : ρ "abs_spread" = eval ρ abs_spread_e
  abs_elongation : ρ "abs_elongation" = eval ρ abs_elongation_e
  log_draught : ρ "log_draught" = eval ρ log_draught_e
  log_spread : ρ "log_spread" = eval ρ log_spread_e
  log_elongation : ρ "log_elongation" = eval ρ log_elongation_e

/-- each of the twelve coefficient implementations is its single unguarded formula: the `Consistent` structure and the
    theorems below therefore speak about every branch of the source -/
theorem coefficients_single_alt :
    draught.alts = [(.tt, .expr draught_e)] ∧ spread.alts = [(.tt, .expr spread_e)] ∧
    elongation.alts = [(.tt, .expr elongation_e)] ∧
    log_draught.alts = [(.tt, .expr log_draught_e)] ∧ log_spread.alts = [(.tt, .expr log_spread_e)] ∧
    log_elongation.alts = [(.tt, .expr log_elongation_e)] ∧
    abs_draught.alts = [(.tt, .expr abs_draught_e)] ∧ abs_spread.alts = [(.tt, .expr abs_spread_e)] ∧
    abs_elongation.alts = [(.tt, .expr abs_elongation_e)] ∧
    rel_draught.alts = [(.tt, .expr rel_draught_e)] ∧ rel_spread.alts = [(.tt, .expr rel_spread_e)] ∧
    rel_elongation.alts = [(.tt, .expr rel_elongation_e)] :=
  ⟨rfl, rfl, rfl, rfl, rfl, rfl, rfl, rfl, rfl, rfl, rfl, rfl⟩

theorem draught_is_ratio :
    eval ρ draught_e = ρ "out_profile.equivalent_rectangle.height" / ρ "in_profile.equivalent_rectangle.height" ∧
    eval ρ spread_e = ρ "out_profile.equivalent_rectangle.width" / ρ "in_profile.equivalent_rectangle.width" ∧
    eval ρ elongation_e = ρ "in_profile.cross_section.area" / ρ "out_profile.cross_section.area" := by
  simp [draught_e, spread_e, elongation_e, eval]

/-- relative = coefficient − 1 (draught, spread) -/
theorem rel_draught_consistent (h : Consistent ρ) (hi : ρ "in_profile.equivalent_rectangle.height" ≠ 0) :
    eval ρ rel_draught_e = eval ρ draught_e - 1 := by
  simp only [rel_draught_e, eval, h.abs_draught, abs_draught_e, draught_e]; field_simp

theorem rel_spread_consistent (h : Consistent ρ) (hi : ρ "in_profile.equivalent_rectangle.width" ≠ 0) :
    eval ρ rel_spread_e = eval ρ spread_e - 1 := by
  simp only [rel_spread_e, eval, h.abs_spread, abs_spread_e, spread_e]; field_simp

/-- relative elongation = (l_out − l_in)/l_in, which is elongation − 1 as soon as volume is conserved -/
theorem rel_elongation_consistent (h : Consistent ρ) (hi : ρ "in_profile.length" ≠ 0)
    (hA : ρ "out_profile.cross_section.area" ≠ 0)
    (hvol : ρ "out_profile.cross_section.area" * ρ "out_profile.length"
          = ρ "in_profile.cross_section.area" * ρ "in_profile.length") :
    eval ρ rel_elongation_e = eval ρ elongation_e - 1 := by
  simp only [rel_elongation_e, eval, h.abs_elongation, abs_elongation_e, elongation_e]
  field_simp
  linarith

/-- logarithmic = log of the coefficient -/
theorem log_coefficients (h : Consistent ρ) :
    eval ρ log_draught_e = Real.log (eval ρ draught_e) ∧
    eval ρ log_spread_e = Real.log (eval ρ spread_e) ∧
    eval ρ log_elongation_e = Real.log (eval ρ elongation_e) := by
  simp only [log_draught_e, log_spread_e, log_elongation_e, eval, h.draught, h.spread, h.elongation,
    PyNum.log_real, and_self]

/-- pass strain is the equivalent of the three logarithmic coefficients -/
theorem strain_def :
    eval ρ strain_e
      = Real.sqrt (2 / 3 * (ρ "log_elongation" ^ 2 + ρ "log_spread" ^ 2 + ρ "log_draught" ^ 2)) := by
  simp [strain_e, eval]

/-- … in EVERY alternative of the implementation: a branch that computes the strain from fewer than the three
    logarithmic coefficients (e.g. assuming volume constancy) does not satisfy this for all values of the three -/
theorem strain_every_alt :
    EveryAlt strain (fun e => eval ρ e
      = Real.sqrt (2 / 3 * (ρ "log_elongation" ^ 2 + ρ "log_spread" ^ 2 + ρ "log_draught" ^ 2))) := by
  simp [EveryAlt, strain, eval]

/-- draught · spread · elongation = 1 when the equivalent rectangles carry the areas (C06 uses this too) -/
theorem coefficients_multiply_to_one
    (hin : ρ "in_profile.equivalent_rectangle.height" * ρ "in_profile.equivalent_rectangle.width"
         = ρ "in_profile.cross_section.area")
    (hout : ρ "out_profile.equivalent_rectangle.height" * ρ "out_profile.equivalent_rectangle.width"
          = ρ "out_profile.cross_section.area")
    (h1 : ρ "in_profile.equivalent_rectangle.height" ≠ 0) (h2 : ρ "in_profile.equivalent_rectangle.width" ≠ 0)
    (h3 : ρ "out_profile.cross_section.area" ≠ 0) :
    eval ρ draught_e * eval ρ spread_e * eval ρ elongation_e = 1 := by
  simp only [draught_e, spread_e, elongation_e, eval]
  rw [← hin]
  have h4 : ρ "out_profile.equivalent_rectangle.height" * ρ "out_profile.equivalent_rectangle.width" ≠ 0 := by
    rw [hout]; exact h3
  rw [← hout]
  have h5 := left_ne_zero_of_mul h4
  have h6 := right_ne_zero_of_mul h4
  field_simp

/-- hence the logarithmic coefficients sum to zero -/
theorem log_sum_zero (hd : 0 < eval ρ draught_e) (hs : 0 < eval ρ spread_e) (he : 0 < eval ρ elongation_e)
    (hprod : eval ρ draught_e * eval ρ spread_e * eval ρ elongation_e = 1) :
    Real.log (eval ρ draught_e) + Real.log (eval ρ spread_e) + Real.log (eval ρ elongation_e) = 0 := by
  rw [← Real.log_mul (ne_of_gt hd) (ne_of_gt hs), ← Real.log_mul (by positivity) (ne_of_gt he), hprod, Real.log_one]

/-! ### non-vacuity -/

example : ∃ ρ : String → ℝ, 0 < ρ "cross_section.area" ∧ 0 < ρ "width" ∧ 0 < ρ "height" :=
  ⟨fun _ => 2, by norm_num, by norm_num, by norm_num⟩

example : eval (stressEnv 3 0 0) equivalent_stress_e = 3 := by
  rw [(von_mises_uniaxial 3).1]; norm_num

/-- `EveryAlt` is not vacuous: each guarded implementation HAS a formula alternative, and it is the `_e` term -/
example : Impl.mainExpr roll_thermal_diffusivity = some roll_thermal_diffusivity_e ∧
    Impl.mainExpr roll_heat_penetration_number = some roll_heat_penetration_number_e ∧
    Impl.mainExpr thermal_diffusivity = some thermal_diffusivity_e ∧
    Impl.mainExpr heat_penetration_number = some heat_penetration_number_e ∧
    Impl.mainExpr equivalent_stress = some equivalent_stress_e ∧
    Impl.mainExpr hydrostatic_stress = some hydrostatic_stress_e ∧
    Impl.mainExpr strain = some strain_e := ⟨rfl, rfl, rfl, rfl, rfl, rfl, rfl⟩

/-- … and `EveryAlt` does reject a wrong branch: the shortcut `b²/(ρ c)` through a cached heat penetration number -/
example : ¬ EveryAlt
    { roll_thermal_diffusivity with
      alts := (.hasCached "" "heat_penetration_number",
               .expr (.div (.pow (.var "heat_penetration_number") 2)
                 (.mul (.var "density") (.var "specific_heat_capacity")))) :: roll_thermal_diffusivity.alts }
    (IsDiffusivity (fun n => if n = "heat_penetration_number" then 2 else 1)) := by
  intro h
  have := h _ List.mem_cons_self
  simp [IsDiffusivity, eval] at this
  norm_num at this

example : ∃ ρ : String → ℝ, 0 < ρ "thermal_conductivity" ∧ 0 < ρ "density" ∧ 0 < ρ "specific_heat_capacity" :=
  ⟨fun _ => 2, by norm_num, by norm_num, by norm_num⟩

end C17
