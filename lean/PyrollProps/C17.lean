import PyrollModel.Gen.C17
import PyrollProofs.RealNum

/-!
# C17 — derived profile, stress and deformation quantities obey their identities

Every theorem below is about the `Expr` GENERATED from the current `/repo` source
(`PyrollModel/Gen/C17.lean`, rewritten by `driver/props/c17.py::translate` on every run), evaluated over ℝ.
A change of a formula in `pyroll/core/profile/hookimpls.py`, `roll/hookimpls.py` or
`roll_pass/hookimpls/deformation_unit.py` changes the generated term, and the theorem that no longer follows
stops building.

Variables are the attribute paths the implementation reads (`cross_section.area`, `width`, …); `ρ` assigns reals.
Chord properties of `local_height/local_width` (shapely intersections) are not theorems: they are checked
numerically by the harness (partial, see DESIGN.md).
-/

open Gen.C17 Expr

namespace C17

variable (ρ : String → ℝ)

/-! ### equivalent rectangle / radius -/

/-- the equivalent rectangle has the profile's area -/
theorem eq_rect_area (hA : 0 ≤ ρ "cross_section.area") (hw : 0 < ρ "width") (hh : 0 < ρ "height") :
    eval ρ equivalent_width_e * eval ρ equivalent_height_e = ρ "cross_section.area" := by
  simp only [equivalent_width_e, equivalent_height_e, eval, PyNum.sqrt_real]
  rw [← Real.sqrt_mul (by positivity)]
  have : ρ "cross_section.area" * ρ "width" / ρ "height" * (ρ "cross_section.area" * ρ "height" / ρ "width")
      = ρ "cross_section.area" ^ 2 := by field_simp
  rw [this, Real.sqrt_sq hA]

/-- … and its width-to-height ratio -/
theorem eq_rect_ratio (hA : 0 < ρ "cross_section.area") (hw : 0 < ρ "width") (hh : 0 < ρ "height") :
    eval ρ equivalent_width_e / eval ρ equivalent_height_e = ρ "width" / ρ "height" := by
  simp only [equivalent_width_e, equivalent_height_e, eval, PyNum.sqrt_real]
  rw [← Real.sqrt_div (by positivity)]
  have : ρ "cross_section.area" * ρ "width" / ρ "height" / (ρ "cross_section.area" * ρ "height" / ρ "width")
      = (ρ "width" / ρ "height") ^ 2 := by field_simp
  rw [this, Real.sqrt_sq (by positivity)]

/-- the equivalent radius has the area of the profile -/
theorem eq_radius_area (hA : 0 ≤ ρ "cross_section.area") :
    Real.pi * (eval ρ equivalent_radius_e) ^ 2 = ρ "cross_section.area" := by
  simp only [equivalent_radius_e, eval, PyNum.sqrt_real, PyNum.pi_real]
  rw [Real.sq_sqrt (by positivity)]
  field_simp

/-! ### stresses -/

/-- hydrostatic stress is the mean of the three principal stresses -/
theorem hydrostatic_mean :
    eval ρ hydrostatic_stress_e
      = (ρ "longitudinal_stress" + ρ "altitudinal_stress" + ρ "latitudinal_stress") / 3 := by
  simp [hydrostatic_stress_e, eval]

/-- the three stresses as an environment (for the permutation statements) -/
def stressEnv (a b c : ℝ) : String → ℝ := fun n =>
  if n = "longitudinal_stress" then a else if n = "altitudinal_stress" then b
  else if n = "latitudinal_stress" then c else 0

theorem von_mises_value (a b c : ℝ) :
    eval (stressEnv a b c) equivalent_stress_e
      = Real.sqrt (1 / 2 * ((a - b) ^ 2 + (b - c) ^ 2 + (c - a) ^ 2)) := by
  simp [equivalent_stress_e, eval, stressEnv]

/-- equivalent stress is unchanged under every permutation of the principal stresses -/
theorem von_mises_perm (a b c : ℝ) :
    eval (stressEnv b a c) equivalent_stress_e = eval (stressEnv a b c) equivalent_stress_e ∧
    eval (stressEnv a c b) equivalent_stress_e = eval (stressEnv a b c) equivalent_stress_e ∧
    eval (stressEnv c b a) equivalent_stress_e = eval (stressEnv a b c) equivalent_stress_e ∧
    eval (stressEnv b c a) equivalent_stress_e = eval (stressEnv a b c) equivalent_stress_e ∧
    eval (stressEnv c a b) equivalent_stress_e = eval (stressEnv a b c) equivalent_stress_e := by
  simp only [von_mises_value]
  refine ⟨?_, ?_, ?_, ?_, ?_⟩ <;> congr 1 <;> ring

/-- zero for a hydrostatic state -/
theorem von_mises_hydrostatic_zero (s : ℝ) : eval (stressEnv s s s) equivalent_stress_e = 0 := by
  simp [von_mises_value]

/-- `|s|` for a uniaxial state, whichever axis carries it -/
theorem von_mises_uniaxial (s : ℝ) :
    eval (stressEnv s 0 0) equivalent_stress_e = |s| ∧
    eval (stressEnv 0 s 0) equivalent_stress_e = |s| ∧
    eval (stressEnv 0 0 s) equivalent_stress_e = |s| := by
  simp only [von_mises_value]
  refine ⟨?_, ?_, ?_⟩ <;>
  · rw [← Real.sqrt_sq_eq_abs]; congr 1; ring

/-! ### thermal quantities (profile and roll) -/

theorem diffusivity_identity (hr : ρ "density" ≠ 0) (hc : ρ "specific_heat_capacity" ≠ 0) :
    eval ρ thermal_diffusivity_e * ρ "density" * ρ "specific_heat_capacity" = ρ "thermal_conductivity" := by
  simp only [thermal_diffusivity_e, eval]; field_simp

theorem penetration_identity
    (h : 0 ≤ ρ "thermal_conductivity" * ρ "density" * ρ "specific_heat_capacity") :
    (eval ρ heat_penetration_number_e) ^ 2
      = ρ "thermal_conductivity" * ρ "density" * ρ "specific_heat_capacity" := by
  simp only [heat_penetration_number_e, eval, PyNum.sqrt_real]
  exact Real.sq_sqrt h

theorem roll_diffusivity_identity (hr : ρ "density" ≠ 0) (hc : ρ "specific_heat_capacity" ≠ 0) :
    eval ρ roll_thermal_diffusivity_e * ρ "density" * ρ "specific_heat_capacity" = ρ "thermal_conductivity" := by
  simp only [roll_thermal_diffusivity_e, eval]; field_simp

theorem roll_penetration_identity
    (h : 0 ≤ ρ "thermal_conductivity" * ρ "density" * ρ "specific_heat_capacity") :
    (eval ρ roll_heat_penetration_number_e) ^ 2
      = ρ "thermal_conductivity" * ρ "density" * ρ "specific_heat_capacity" := by
  simp only [roll_heat_penetration_number_e, eval, PyNum.sqrt_real]
  exact Real.sq_sqrt h

/-! ### coefficients of draught, spread, elongation: absolute / relative / logarithmic forms -/

/-- A consistent assignment: every hook variable the formulas read has the value its own formula gives. -/
structure Consistent (ρ : String → ℝ) : Prop where
  draught : ρ "draught" = eval ρ draught_e
  spread : ρ "spread" = eval ρ spread_e
  elongation : ρ "elongation" = eval ρ elongation_e
  abs_draught : ρ "abs_draught" = eval ρ abs_draught_e
  abs_spread : ρ "abs_spread" = eval ρ abs_spread_e
  abs_elongation : ρ "abs_elongation" = eval ρ abs_elongation_e
  log_draught : ρ "log_draught" = eval ρ log_draught_e
  log_spread : ρ "log_spread" = eval ρ log_spread_e
  log_elongation : ρ "log_elongation" = eval ρ log_elongation_e

theorem draught_is_ratio :
    eval ρ draught_e = ρ "out_profile.equivalent_rectangle.height" / ρ "in_profile.equivalent_rectangle.height" ∧
    eval ρ spread_e = ρ "out_profile.equivalent_rectangle.width" / ρ "in_profile.equivalent_rectangle.width" ∧
    eval ρ elongation_e = ρ "in_profile.cross_section.area" / ρ "out_profile.cross_section.area" := by
  simp [draught_e, spread_e, elongation_e, eval]

/-- relative = coefficient − 1 (draught, spread) -/
theorem rel_draught_consistent (h : Consistent ρ) (hi : ρ "in_profile.equivalent_rectangle.height" ≠ 0) :
    eval ρ rel_draught_e = eval ρ draught_e - 1 := by
  simp only [rel_draught_e, eval, h.abs_draught, abs_draught_e, draught_e]; field_simp

theorem rel_spread_consistent (h : Consistent ρ) (hi : ρ "in_profile.equivalent_rectangle.width" ≠ 0) :
    eval ρ rel_spread_e = eval ρ spread_e - 1 := by
  simp only [rel_spread_e, eval, h.abs_spread, abs_spread_e, spread_e]; field_simp

/-- relative elongation = (l_out − l_in)/l_in, which is elongation − 1 as soon as volume is conserved -/
theorem rel_elongation_consistent (h : Consistent ρ) (hi : ρ "in_profile.length" ≠ 0)
    (hA : ρ "out_profile.cross_section.area" ≠ 0)
    (hvol : ρ "out_profile.cross_section.area" * ρ "out_profile.length"
          = ρ "in_profile.cross_section.area" * ρ "in_profile.length") :
    eval ρ rel_elongation_e = eval ρ elongation_e - 1 := by
  simp only [rel_elongation_e, eval, h.abs_elongation, abs_elongation_e, elongation_e]
  field_simp
  linarith

/-- logarithmic = log of the coefficient -/
theorem log_coefficients (h : Consistent ρ) :
    eval ρ log_draught_e = Real.log (eval ρ draught_e) ∧
    eval ρ log_spread_e = Real.log (eval ρ spread_e) ∧
    eval ρ log_elongation_e = Real.log (eval ρ elongation_e) := by
  simp only [log_draught_e, log_spread_e, log_elongation_e, eval, h.draught, h.spread, h.elongation,
    PyNum.log_real, and_self]

/-- pass strain is the equivalent of the three logarithmic coefficients -/
theorem strain_def :
    eval ρ strain_e
      = Real.sqrt (2 / 3 * (ρ "log_elongation" ^ 2 + ρ "log_spread" ^ 2 + ρ "log_draught" ^ 2)) := by
  simp [strain_e, eval]

/-- draught · spread · elongation = 1 when the equivalent rectangles carry the areas (C06 uses this too) -/
theorem coefficients_multiply_to_one
    (hin : ρ "in_profile.equivalent_rectangle.height" * ρ "in_profile.equivalent_rectangle.width"
         = ρ "in_profile.cross_section.area")
    (hout : ρ "out_profile.equivalent_rectangle.height" * ρ "out_profile.equivalent_rectangle.width"
          = ρ "out_profile.cross_section.area")
    (h1 : ρ "in_profile.equivalent_rectangle.height" ≠ 0) (h2 : ρ "in_profile.equivalent_rectangle.width" ≠ 0)
    (h3 : ρ "out_profile.cross_section.area" ≠ 0) :
    eval ρ draught_e * eval ρ spread_e * eval ρ elongation_e = 1 := by
  simp only [draught_e, spread_e, elongation_e, eval]
  rw [← hin]
  have h4 : ρ "out_profile.equivalent_rectangle.height" * ρ "out_profile.equivalent_rectangle.width" ≠ 0 := by
    rw [hout]; exact h3
  rw [← hout]
  have h5 := left_ne_zero_of_mul h4
  have h6 := right_ne_zero_of_mul h4
  field_simp

/-- hence the logarithmic coefficients sum to zero -/
theorem log_sum_zero (hd : 0 < eval ρ draught_e) (hs : 0 < eval ρ spread_e) (he : 0 < eval ρ elongation_e)
    (hprod : eval ρ draught_e * eval ρ spread_e * eval ρ elongation_e = 1) :
    Real.log (eval ρ draught_e) + Real.log (eval ρ spread_e) + Real.log (eval ρ elongation_e) = 0 := by
  rw [← Real.log_mul (ne_of_gt hd) (ne_of_gt hs), ← Real.log_mul (by positivity) (ne_of_gt he), hprod, Real.log_one]

/-! ### non-vacuity -/

example : ∃ ρ : String → ℝ, 0 < ρ "cross_section.area" ∧ 0 < ρ "width" ∧ 0 < ρ "height" :=
  ⟨fun _ => 2, by norm_num, by norm_num, by norm_num⟩

example : eval (stressEnv 3 0 0) equivalent_stress_e = 3 := by
  rw [(von_mises_uniaxial 3).1]; norm_num

end C17
