import PyrollProofs.HeapSolve
import PyrollProofs.HeapCopy
import PyrollProofs.HeapEdit
import PyrollProofs.HeapReuse
import PyrollProofs.HeapMake
import PyrollModel.Gen.C12

/-!
  C12 — solving has no side effects on its inputs and no aliasing between positions; deep copies are disjoint
  and closed.

  Model: `PyrollModel/Heap.lean` (objects with identity, strong entries, weak back-links; `solveU` = `Unit.solve`
  as an effect trace; `copyObj` = `copy.deepcopy` with memo; `appendUnit`/`replaceUnit`/`setGap` = edits).
  The classifier producers the model runs are TRANSLATED from the source (`Gen.C12`), as are the shapes of the two
  shallow copy constructors and the write list of the solve procedure; the certificates below are re-decided on
  every run.  All theorems hold for arbitrary heaps / sequences / histories (induction over fuel, lists, histories).
-/

namespace C12
open Heap

/-- the producers the model runs: translated from rotator/hookimpls.py, roll_pass/hookimpls/profile.py,
roll_pass/symmetric_roll_pass.py -/
def P : Producers :=
  { rot := Gen.C12.rotatorClassifiers, pass := Gen.C12.passOutClassifiers, sym := Gen.C12.symmetricClassifiers,
    reuse := Gen.C12.outReuse }

/-! ## certificates about the translated source -/

/-- every translated classifier producer (rotator, pass, symmetric / three-roll pass, groove, `from_groove`,
`from_polygon`) changes in place only sets that the same call created (`| {…}`, `set(…)`, a literal) -/
theorem translated_producers_safe : Gen.C12.producers.all (fun e => e.2.safe) = true := by decide

theorem model_producers_safe : P.Safe := ⟨by decide, by decide, by decide⟩

/-- receivers the solve procedure may assign to: the unit / hook host itself, its own cache and dict, its own
out-profile, the hook function's bookkeeping set, a (class-level) hook object, the cache of the pass whose
pre-processor is being built -/
def allowedReceivers : List String :=
  ["self", "self.__cache__", "self.out_profile", "self._active_instances", "instance.__dict__", "instance.__cache__",
   "owner", "hook", "roll_pass.__cache__"]

/-- the source still has the shape the hand-written model assumes: both copy constructors take the public entries
only, by reference, set a weak back-link and do nothing else; `init_solve` stores COPIES; the sub-units are fed the
parent's in-profile and then each other's return value; `solve` returns a fresh public copy of `out_profile`;
no function of the solve procedure assigns to anything but the allowed receivers (never to `in_profile`, a
template or a groove); the hook value cache of an object is bound in ONE place of the whole package, to a new empty
dict when the object is created (`HookHost.__init__`) - no object adopts the cache of another -/
theorem translated_shapes_certified :
    Gen.C12.cacheBindings = [("hooks.py:HookHost.__init__", "self", "dict()")] ∧
    Gen.C12.profileInit = { publicOnly := true, byReference := true, weakBackLink := true, other := [] } ∧
    Gen.C12.rollInit = { publicOnly := true, byReference := true, weakBackLink := true, other := [] } ∧
    Gen.C12.solveWrites.all (fun w => allowedReceivers.contains w.2.1) = true ∧
    Gen.C12.stores =
      [("Unit.init_solve", "in_profile", "self.InProfile(self, in_profile)"),
       ("Unit.init_solve", "out_profile", "self.OutProfile(self, in_profile)"),
       ("SymmetricRollPass.__init__", "roll", "self.Roll(roll, self)"),
       ("Unit._solve_subunits", "last_profile", "self.in_profile"),
       ("Unit._solve_subunits", "last_profile", "u.solve(last_profile)"),
       ("Unit.solve", "return",
        "BaseProfile(**{k: v for k, v in self.out_profile.__dict__.items() if not k.startswith('_')}) <- post_processor.solve(out_profile)")] :=
  ⟨by decide, by decide, by decide, by decide, rfl⟩

/-- receivers the velocity solvers of a pass sequence may assign to: the roll passes listed in the sequence itself
(`for roll_pass, velocity in zip(self.roll_passes, …)`) and arrays they made themselves -/
def allowedVelReceivers : List String := ["self.roll_passes[*]", "<new array>"]

/-- `PassSequence.solve_velocities_forward` / `solve_velocities_backward` still have the shape `Heap.solveVel` assumes:
they assign to nothing but the `velocity` of the sequence's own roll passes (`roll_passes` = the `BaseRollPass`es listed
directly) and local arrays; the caller's profile is handed to `self.solve` as it is and otherwise only read; and these
two, `solve` and the `init_solve`s it calls are ALL the functions of the package that take an incoming profile (a further
entry point would have to be modelled first) -/
theorem translated_velocity_solvers_certified :
    Gen.C12.velocityWrites.all (fun w => allowedVelReceivers.contains w.2.1) = true ∧
    (Gen.C12.velocityWrites.filter (fun w => w.2.1 == "self.roll_passes[*]")).all (fun w => w.2.2 == "set.velocity") = true ∧
    Gen.C12.velocityUses.all (fun e =>
      ["arg:self.solve(in_profile)", "read:in_profile.cross_section.area"].contains e.2) = true ∧
    Gen.C12.rollPassesProperty = "list((u for u in self._subunits if isinstance(u, BaseRollPass)))" ∧
    Gen.C12.profileEntryPoints =
      ["disk_elements/disk_element_unit.py:DiskElementUnit.init_solve",
       "roll_pass/base.py:BaseRollPass.init_solve",
       "sequence/sequence.py:PassSequence.solve_velocities_backward",
       "sequence/sequence.py:PassSequence.solve_velocities_forward",
       "unit/unit.py:Unit.init_solve",
       "unit/unit.py:Unit.solve"] :=
  ⟨by decide, by decide, by decide, by decide, rfl⟩

/-- the deep copy protocol of the package is what `Heap.copyBody` models: `HookHost.__deepcopy__` enters the memo first,
then copies EVERY entry - a weak reference through the memo (dead stays dead), anything else (numbers, containers,
callables given as explicit values …) by `copy.deepcopy(v, memo)`, no entry is kept by reference;
`_SubUnitsList.__deepcopy__` re-points the owner through the memo and appends the deep copies of ALL items (also of
none); no other class defines a method of the copy / pickle protocol -/
theorem translated_deepcopy_certified :
    Gen.C12.hostDeepcopy =
      [("", "cls = self.__class__"),
       ("", "result = cls.__new__(cls)"),
       ("", "memo[id(self)] = result"),
       ("for (k, v) in self.__dict__.items() & isinstance(v, weakref.ref)", "t = v()"),
       ("for (k, v) in self.__dict__.items() & isinstance(v, weakref.ref) & t is None", "new_v = v"),
       ("for (k, v) in self.__dict__.items() & isinstance(v, weakref.ref) & not (t is None) & id(t) in memo",
        "new_v = weakref.ref(memo[id(t)])"),
       ("for (k, v) in self.__dict__.items() & isinstance(v, weakref.ref) & not (t is None) & not (id(t) in memo)",
        "new_t = copy.deepcopy(t, memo)"),
       ("for (k, v) in self.__dict__.items() & isinstance(v, weakref.ref) & not (t is None) & not (id(t) in memo)",
        "new_v = weakref.ref(new_t)"),
       ("for (k, v) in self.__dict__.items() & not (isinstance(v, weakref.ref))", "new_v = copy.deepcopy(v, memo)"),
       ("for (k, v) in self.__dict__.items()", "setattr(result, k, new_v)"),
       ("", "return result")] ∧
    Gen.C12.listDeepcopy =
      [("", "cls = self.__class__"),
       ("", "result = cls.__new__(cls)"),
       ("", "o = self._owner()"),
       ("id(o) in memo", "result._owner = weakref.ref(memo[id(o)])"),
       ("not (id(o) in memo)", "result._owner = weakref.ref(copy.deepcopy(o, memo))"),
       ("for e in self", "result.append(copy.deepcopy(e, memo))"),
       ("", "return result")] ∧
    Gen.C12.copyProtocolDefs =
      ["hooks.py:HookHost.__copy__", "hooks.py:HookHost.__deepcopy__", "unit/unit.py:Unit._SubUnitsList.__deepcopy__"] :=
  ⟨rfl, rfl, rfl⟩

/-- values are handed along the line BY REFERENCE (both shallow copies, every hand-over in `init_solve`, every root-hook
fallback), and a number can be a mutable object (a numpy array where a python float is usual).  The model has the result
of a hook function as a NEW value or a handed-on reference and numbers as atoms that nothing changes; on the side of the
code that is: no hook function of the package (every module level function decorated with `@<Class>.….<hook>`, all of
them are read) performs an in-place operation - augmented assignment of any operator, mutating method call, assignment to
a subscript or attribute, `out=` - on anything but a local it has bound only to objects it built itself (`length = 0;
length += …`, `acc = []; acc.append(…)`, `t = a | {…}; t.add(…)`).  `strain = in_profile.strain; strain += …` is listed
in `hookInplaceForeign` (with array valued strain it changes the in-profile's - the caller's - value) -/
theorem translated_hook_functions_no_inplace :
    Gen.C12.hookInplaceForeign = [] ∧ 0 < Gen.C12.hookFunctions :=
  ⟨rfl, by decide⟩

/-- the reader is not blind: the package does have in-place operations in hook functions, all on locals of their own -/
example : 0 < Gen.C12.hookInplaceOwn.length := by decide
example : ("rotator/hookimpls.py:classifiers", "t.add('edged')") ∈ Gen.C12.hookInplaceOwn := by decide

/-! ## a concrete state for the non-vacuity examples

  0,1  cross-section and classifier set of the caller's profile 2;   3 groove classifiers, 4 groove, 5 roll template;
  6 roll pass (auto-rotation on) with list 7 and pass roll 8;   9 transport (one disk element) with list 10;
  11 sequence [6, 9] with list 12. -/
def ex0 : S :=
  let s0 : S := { h := H.empty }
  let s1 := (s0.alloc { kind := .value, content := [1] }).1
  let s2 := (s1.alloc { kind := .value, content := [2] }).1
  let s3 := (s2.alloc { kind := .profile, fields := [(fCS, 0), (fCL, 1)] }).1
  let s4 := (s3.alloc { kind := .value, content := [5] }).1
  let s5 := (s4.alloc { kind := .groove, fields := [(fCL, 3)] }).1
  let s6 := (s5.alloc { kind := .rollTemplate, fields := [(fGROOVE, 4)] }).1
  let s7 := (s6.alloc { kind := .unit, tag := 1, rot := true }).1
  let s8 := (s7.alloc { kind := .subList, weak := some 6 }).1
  let s9 := s8.write 6 fSUB 7
  let s10 := (s9.alloc { kind := .passRoll, fields := [(fGROOVE, 4)], weak := some 6 }).1
  let s11 := s10.write 6 fROLL 8
  let s12 := (s11.alloc { kind := .unit, tag := 2, disks := 1 }).1
  let s13 := (s12.alloc { kind := .subList, weak := some 9 }).1
  let s14 := s13.write 9 fSUB 10
  let s15 := (s14.alloc { kind := .unit, tag := 3 }).1
  let s16 := (s15.alloc { kind := .subList, weak := some 11, items := [6, 9] }).1
  let s17 := s16.write 11 fSUB 12
  (s17.setWeak 6 (some 11)).setWeak 9 (some 11)

theorem ex0_good : Good ex0 := by
  have g0 := Good.empty
  have g1 := g0.alloc { kind := .value, content := [1] } (by decide) (by decide) (by decide)
  have g2 := g1.alloc { kind := .value, content := [2] } (by decide) (by decide) (by decide)
  have g3 := g2.alloc { kind := .profile, fields := [(fCS, 0), (fCL, 1)] } (by decide) (by decide) (by decide)
  have g4 := g3.alloc { kind := .value, content := [5] } (by decide) (by decide) (by decide)
  have g5 := g4.alloc { kind := .groove, fields := [(fCL, 3)] } (by decide) (by decide) (by decide)
  have g6 := g5.alloc { kind := .rollTemplate, fields := [(fGROOVE, 4)] } (by decide) (by decide) (by decide)
  have g7 := g6.alloc { kind := .unit, tag := 1, rot := true } (by decide) (by decide) (by decide)
  have g8 := g7.alloc { kind := .subList, weak := some 6 } (by decide) (by decide) (by decide)
  have g9 := g8.write (o := 6) (f := fSUB) (v := 7) (by decide) (by decide) (by decide)
  have g10 := g9.alloc { kind := .passRoll, fields := [(fGROOVE, 4)], weak := some 6 } (by decide) (by decide) (by decide)
  have g11 := g10.write (o := 6) (f := fROLL) (v := 8) (by decide) (by decide) (by decide)
  have g12 := g11.alloc { kind := .unit, tag := 2, disks := 1 } (by decide) (by decide) (by decide)
  have g13 := g12.alloc { kind := .subList, weak := some 9 } (by decide) (by decide) (by decide)
  have g14 := g13.write (o := 9) (f := fSUB) (v := 10) (by decide) (by decide) (by decide)
  have g15 := g14.alloc { kind := .unit, tag := 3 } (by decide) (by decide) (by decide)
  have g16 := g15.alloc { kind := .subList, weak := some 11, items := [6, 9] } (by decide) (by decide) (by decide)
  have g17 := g16.write (o := 11) (f := fSUB) (v := 12) (by decide) (by decide) (by decide)
  have g18 := g17.setWeak (o := 6) (w := some 11) (by decide) (by decide)
  exact g18.setWeak (o := 9) (w := some 11) (by decide) (by decide)

/-- the example sequence solved once with the caller's profile 2 (two passes of the outer loop) -/
def ex0i : S := { ex0 with its := [2, 1, 1, 1, 1, 1, 1, 1, 1] }
def ex1 : S := (solveU P 4 ex0i 11 2).1

/-! ## 1. solve writes only to what it allocated or what the solved unit owns -/

/-- Every write (entry, weak link, in-place change) of `unit.solve(profile)` targets an object allocated by this
very solve or an object OWNED by the unit: the unit itself, its out-profile, its pass roll, its sub-unit list and,
recursively, whatever its sub-units own. -/
theorem solve_writes_only_owned (fuel : Nat) (s : S) (u p : Nat) (w : Wf s.h) (hu : u < s.h.next)
    (hp : p < s.h.next) :
    ∃ t, (solveU P fuel s u p).1.tr = s.tr ++ t ∧ ∀ o ∈ targets t, s.h.next ≤ o ∨ Owned s.h u o :=
  (solveU_spec P model_producers_safe fuel s u p w hu hp).trk.tr

/-- …and semantically: an existing object that the unit does not own is exactly as before (all entries, the weak
link, list items, content) -/
theorem solve_frame (fuel : Nat) (s : S) (u p : Nat) (w : Wf s.h) (hu : u < s.h.next) (hp : p < s.h.next)
    (o : Nat) (ho : o < s.h.next) (hn : ¬ Owned s.h u o) : (solveU P fuel s u p).1.h.obj o = s.h.obj o :=
  (solveU_spec P model_producers_safe fuel s u p w hu hp).trk.frame o ho hn

/-- never the caller's profile, a groove, a roll template or a value: objects of these kinds are owned by no unit
(in a typed heap), so no write targets them and they are unchanged -/
theorem solve_never_touches_inputs (fuel : Nat) (s : S) (u p : Nat) (g : Good s) (hu : u < s.h.next)
    (hp : p < s.h.next) (hk : (s.h.obj u).kind = .unit) (q : Nat) (hq : q < s.h.next)
    (hs : stableKind (s.h.obj q).kind) :
    (solveU P fuel s u p).1.h.obj q = s.h.obj q ∧
    ∀ t, (solveU P fuel s u p).1.tr = s.tr ++ t → q ∉ targets t := by
  have hno : ¬ Owned s.h u q := fun ho => stable_not_owned hs (ho.kind g.typed hk)
  refine ⟨solve_frame fuel s u p g.wf hu hp q hq hno, ?_⟩
  intro t ht hmem
  obtain ⟨t', ht', hok⟩ := solve_writes_only_owned fuel s u p g.wf hu hp
  have : t = t' := List.append_cancel_left (ht.symm.trans ht')
  subst this
  rcases hok q hmem with h | h
  · omega
  · exact hno h

-- non-vacuity: the hypotheses hold for the example; the solve there writes (among new objects) to the sequence 11,
-- the pass 6, its roll 8, the transport 9 and to nothing else that existed
example : Good ex0 ∧ (11 : Nat) < ex0.h.next ∧ (2 : Nat) < ex0.h.next ∧ (ex0.h.obj 11).kind = .unit :=
  ⟨ex0_good, by decide, by decide, by decide⟩
set_option maxRecDepth 100000 in
example : ((targets (ex1.tr.drop ex0.tr.length)).filter (· < ex0.h.next)).eraseDups = [11, 6, 8, 9] := by decide
example : stableKind (ex0.h.obj 2).kind ∧ stableKind (ex0.h.obj 4).kind ∧ stableKind (ex0.h.obj 5).kind ∧
    stableKind (ex0.h.obj 1).kind := by
  unfold stableKind; decide

/-! ## 1b. the hook value cache (`__cache__`) -/

/-- Both shallow copies — the in- and out-profile made from the incoming profile, the returned profile made from the
out-profile, the pass roll made from the roll TEMPLATE — start with an empty cache of their own, whatever has been
evaluated on the template already (a roll the caller looked at before he built the pass from it).
(That the constructors do nothing beyond what the model does is `translated_shapes_certified`: `other = []`.) -/
theorem copies_start_with_own_empty_cache (h : H) (k : Kind) (unit : Option Nat) (pass tpl : Nat) :
    (profCopy h k unit tpl).cache = [] ∧ (rollCopy h pass tpl).cache = [] := ⟨rfl, rfl⟩

/-- Cache changes are effects of the trace like any other write (`Eff.cachew`), so `solve_writes_only_owned` covers
them: a solve fills / re-evaluates / pops only the caches of objects it allocated or the unit owns.  For the inputs:
the cache of the caller's profile, of every roll template, groove, plain or in-profile is exactly what it was -
also when it was NOT empty before (values read before the object was handed over). -/
theorem solve_leaves_input_caches (fuel : Nat) (s : S) (u p : Nat) (g : Good s) (hu : u < s.h.next)
    (hp : p < s.h.next) (hk : (s.h.obj u).kind = .unit) (q : Nat) (hq : q < s.h.next)
    (hs : stableKind (s.h.obj q).kind) :
    ((solveU P fuel s u p).1.h.obj q).cache = (s.h.obj q).cache ∧
    ∀ t, (solveU P fuel s u p).1.tr = s.tr ++ t → Eff.cachew q ∉ t := by
  obtain ⟨h1, h2⟩ := solve_never_touches_inputs fuel s u p g hu hp hk q hq hs
  refine ⟨by rw [h1], ?_⟩
  intro t ht hmem
  apply h2 t ht
  simp only [targets, List.mem_filterMap]
  exact ⟨_, hmem, rfl⟩

/-- no leak between positions: the roll of ANOTHER pass (not below the unit being solved) keeps its entries and its
cache - also when both passes were built from one template -/
theorem other_roll_untouched (fuel : Nat) (s : S) (u p r : Nat) (w : Wf s.h) (hu : u < s.h.next)
    (hp : p < s.h.next) (hr : r < s.h.next) (hn : ¬ Owned s.h u r) :
    (solveU P fuel s u p).1.h.obj r = s.h.obj r := solve_frame fuel s u p w hu hp r hr hn

-- non-vacuity: the caller has looked at the roll template 5 (two names cached) and builds a SECOND pass from it:
-- unit 13, list 14, roll 15
def exC : S :=
  let s0 := ex0.setCache 5 [31, 32]
  let s1 := (s0.alloc { kind := .unit, tag := 1 }).1
  let s2 := (s1.alloc { kind := .subList, weak := some 13 }).1
  let s3 := s2.write 13 fSUB 14
  let s4 := (s3.alloc (rollCopy s3.h 13 5)).1
  s4.write 13 fROLL 15

theorem exC_good : Good exC := by
  have g0 := ex0_good.setCache (o := 5) (c := [31, 32]) (by decide)
  have g1 := g0.alloc { kind := .unit, tag := 1 } (by decide) (by decide) (by decide)
  have g2 := g1.alloc { kind := .subList, weak := some 13 } (by decide) (by decide) (by decide)
  have g3 := g2.write (o := 13) (f := fSUB) (v := 14) (by decide) (by decide) (by decide)
  have g4 := g3.alloc { kind := .passRoll, fields := [(fGROOVE, 4)], weak := some 13 } (by decide) (by decide) (by decide)
  exact g4.write (o := 13) (f := fROLL) (v := 15) (by decide) (by decide) (by decide)

def exCi : S := { exC with its := [2, 1, 1, 1, 1, 1, 1, 1, 1] }
def exC1 : S := (solveU P 4 exCi 11 2).1

-- both pass rolls start with an empty cache although the template's is not
example : (exC.h.obj 5).cache = [31, 32] ∧ (exC.h.obj 8).cache = [] ∧ (exC.h.obj 15).cache = [] ∧
    getF exC.h 8 fGROOVE = getF exC.h 15 fGROOVE := by decide
-- solving the sequence 11 (pass 6 with roll 8): the template 5 and the other pass's roll 15 are exactly as before,
-- roll 8 has cached values; among the objects that existed, caches changed on 6, 8, 9, 11 only
set_option maxRecDepth 100000 in
example : exC1.h.obj 5 = exC.h.obj 5 ∧ exC1.h.obj 15 = exC.h.obj 15 ∧ (exC1.h.obj 8).cache = [cROLL] ∧
    ((exC1.tr.drop exC.tr.length).filterMap (fun e => match e with | .cachew o => some o | _ => none)).eraseDups.filter
      (· < exC.h.next) = [6, 8, 9, 11] := by decide
-- then the second pass 13 solved alone: now ITS roll 15 has cached values, roll 8 and the template are untouched
set_option maxRecDepth 100000 in
example : ((solveU P 3 { exC1 with its := [1, 1] } 13 2).1.h.obj 15).cache = [cROLL] ∧
    (solveU P 3 { exC1 with its := [1, 1] } 13 2).1.h.obj 8 = exC1.h.obj 8 ∧
    (solveU P 3 { exC1 with its := [1, 1] } 13 2).1.h.obj 5 = exC.h.obj 5 := by decide

/-! ## 2. the returned profile is fresh -/

/-- `solve` returns an object allocated by this solve: a plain `Profile` without back-link, and at the moment of
return NO object refers to it (it is neither the unit's out-profile nor stored anywhere) -/
theorem returned_profile_fresh (fuel : Nat) (s : S) (u p : Nat) (w : Wf s.h) (hu : u < s.h.next)
    (hp : p < s.h.next) :
    let r := solveU P fuel s u p
    s.h.next ≤ r.2 ∧ r.2 < r.1.h.next ∧ (r.1.h.obj r.2).kind = .profile ∧ (r.1.h.obj r.2).weak = none ∧
      (∀ o, r.2 ∉ (r.1.h.obj o).ptrs) ∧ getF r.1.h u fOUT ≠ some r.2 := by
  have sp := solveU_spec P model_producers_safe fuel s u p w hu hp
  refine ⟨sp.ret_lo, sp.ret_hi, sp.ret_kind, sp.ret_weak, sp.ret_unref, ?_⟩
  intro h
  exact sp.ret_unref u (getF_mem_ptrs h)

-- non-vacuity: in the example the returned profile is object 53; the sequence's out-profile is another object whose
-- public entries it shares by reference
example : (solveU P 4 ex0i 11 2).2 = ex1.h.next - 1 := by decide
example : getF ex1.h 11 fOUT ≠ some (ex1.h.next - 1) ∧
    (ex1.h.obj (ex1.h.next - 1)).fields = pubFields ex1.h ((getF ex1.h 11 fOUT).getD 0) := by decide

/-! ## 3. earlier profiles are stable under every later solve / edit -/

/-- Through ANY history of later solves (of any unit, with any profile) and edits (append, replace, change a
keyword value), every existing plain profile (the caller's, one returned earlier), every in-profile, every value
object, groove and roll template stays exactly as it is — entries, identity of the referenced values, content. -/
theorem earlier_profiles_stable (ops : List Op) (s : S) (g : Good s) (q : Nat) (hq : q < s.h.next)
    (hs : stableKind (s.h.obj q).kind) : (run P s ops).h.obj q = s.h.obj q :=
  (keeps_run P model_producers_safe ops s g).stable q hq hs

/-- …and the history keeps the heap well-formed and typed, so the statement applies again afterwards -/
theorem history_keeps_good (ops : List Op) (s : S) (g : Good s) : Good (run P s ops) :=
  (keeps_run P model_producers_safe ops s g).good

/-- an out-profile (it IS rewritten when its own unit is solved again) is untouched by a solve of any unit that does
not own it — e.g. the out-profile of an earlier position while a later position is solved alone -/
theorem earlier_out_profile_stable (fuel : Nat) (s : S) (u p q : Nat) (w : Wf s.h) (hu : u < s.h.next)
    (hp : p < s.h.next) (hq : q < s.h.next) (hn : ¬ Owned s.h u q) :
    (solveU P fuel s u p).1.h.obj q = s.h.obj q := solve_frame fuel s u p w hu hp q hq hn

-- non-vacuity: after the first solve, the returned profile and the pass's in-profile survive a history that re-solves
-- the sequence, solves the transport alone, changes the gap of the pass, appends a unit and re-solves
def exOps : List Op := [.solve 11 2, .solve 9 2, .gap 6, .append 11 9, .solve 11 (ex1.h.next - 1)]
set_option maxRecDepth 100000 in
example : (ex1.h.obj (ex1.h.next - 1)).kind = .profile ∧
    (run P ex1 exOps).h.obj (ex1.h.next - 1) = ex1.h.obj (ex1.h.next - 1) ∧ ex1.h.next < (run P ex1 exOps).h.next := by
  decide

-- solving the transport 9 ALONE (a later position) leaves the pass's out-profile (object 26) as it is
set_option maxRecDepth 100000 in
example : getF ex1.h 6 fOUT = some 26 ∧ (solveU P 3 ex1 9 2).1.h.obj 26 = ex1.h.obj 26 := by decide

/-! ## 4. no in-place modification of shared values -/

/-- A producer that passes the static check changes in place ONLY objects created by the same run: every write
target of its trace is new, and every object that existed before (in particular every set obtained from another
object) is exactly as before. -/
theorem no_inplace_on_shared_values (p : Prog) (hp : p.safe = true) (s : S) (w : Wf s.h) (fe : Nat → Nat)
    (gd : Nat → Bool) (hfe : ∀ q, fe q < s.h.next) (h0 : 0 < s.h.next) :
    (∃ t, (runProg fe gd p [] s).1.tr = s.tr ++ t ∧ ∀ o ∈ targets t, s.h.next ≤ o) ∧
    (∀ o, o < s.h.next → (runProg fe gd p [] s).1.h.obj o = s.h.obj o) := by
  have hown' : ∀ u o, Owned s.h u o → s.h.next ≤ u → o = u := by
    intro u o ho
    induction ho with
    | self => intro _; rfl
    | field _ hg => intro hu; have := w.lt_of_getF hg; omega
    | child hl _ _ _ => intro hu; have := w.lt_of_getF hl; omega
  have hown : ∀ o, Owned s.h s.h.next o → o = s.h.next := fun o ho => hown' _ o ho (Nat.le_refl _)
  obtain ⟨st, _⟩ := runProg_spec (hb := s.h) (u := s.h.next) (tr0 := s.tr) fe gd p [] [] s hp
    (Trk.refl w s.h.next) hfe (by intro v x h; simp [List.lookup] at h) (by intro v h; cases h) h0
  obtain ⟨t, ht, hok⟩ := st.trk.tr
  refine ⟨⟨t, ht, ?_⟩, ?_⟩
  · intro o ho
    rcases hok o ho with h | h
    · exact h
    · rw [hown o h]; exact Nat.le_refl _
  · intro o ho
    apply st.trk.frame o ho
    intro h; have := hown o h; omega

/-- the same for the translated producers of the core (instances of the theorem above) -/
theorem core_producers_no_inplace (name : String) (p : Prog) (hmem : (name, p) ∈ Gen.C12.producers) (s : S)
    (w : Wf s.h) (fe : Nat → Nat) (gd : Nat → Bool) (hfe : ∀ q, fe q < s.h.next) (h0 : 0 < s.h.next) :
    ∀ o, o < s.h.next → (runProg fe gd p [] s).1.h.obj o = s.h.obj o := by
  have hall := translated_producers_safe
  rw [List.all_eq_true] at hall
  exact (no_inplace_on_shared_values p (hall _ hmem) s w fe gd hfe h0).2

/-- through any history of solves and edits the content of an existing value object never changes -/
theorem value_content_stable (ops : List Op) (s : S) (g : Good s) (v : Nat) (hv : v < s.h.next)
    (hk : (s.h.obj v).kind = .value) : ((run P s ops).h.obj v).content = (s.h.obj v).content := by
  rw [earlier_profiles_stable ops s g v hv (Or.inr (Or.inr (Or.inl hk)))]

-- non-vacuity: the rotator's producer run on the caller's classifier set 1 creates new sets and adds to the new one;
-- a producer that adds to the received set is rejected by the check, and running it DOES change the caller's set
example : (runProg (fun _ => 1) (fun _ => true) Gen.C12.rotatorClassifiers [] ex0).2 = some 14 ∧
    ((runProg (fun _ => 1) (fun _ => true) Gen.C12.rotatorClassifiers [] ex0).1.h.obj 14).content = [2, 0, 1, 2, 3] ∧
    ((runProg (fun _ => 1) (fun _ => true) Gen.C12.rotatorClassifiers [] ex0).1.h.obj 1).content = [2] := by decide
def badProducer : Prog := [{ act := .assign 0 (.foreign 0) }, { act := .add 0 7 }, { act := .ret (.var 0) }]
example : badProducer.safe = false ∧
    ((runProg (fun _ => 1) (fun _ => true) badProducer [] ex0).1.h.obj 1).content = [2, 7] := by decide

/-! ## 5. a deep copy is disjoint from the original and closed -/

/-- `copy.deepcopy(o)` (empty memo) of any object of a well-formed heap:
  * leaves every existing object exactly as it is and writes only to objects it creates,
  * returns a NEW object of the same kind (an immutable atom is returned itself),
  * CLOSED: whatever is reachable from the copy — through strong entries, list items AND the weak back-links
    (`_parent`, `_unit`, `_roll_pass`, `_owner`) — is an object created by this copy, or an atom;
    in particular every back-reference inside the copy points into the copy,
  * DISJOINT: what is reachable from the copy and also from the original is an atom (immutable):
    no unit, profile, roll, sub-unit list, groove or mutable value is shared. -/
theorem deepcopy_disjoint_and_closed (s : S) (w : Wf s.h) (o : Nat) (ho : o < s.h.next) :
    let r := deepCopy s o
    (∀ x, x < s.h.next → r.1.h.obj x = s.h.obj x) ∧
    (∃ t, r.1.tr = s.tr ++ t ∧ ∀ x ∈ targets t, s.h.next ≤ x) ∧
    ((s.h.obj o).kind ≠ .atom → s.h.next ≤ r.2.2) ∧
    (r.1.h.obj r.2.2).kind = (s.h.obj o).kind ∧
    (∀ x, Reach r.1.h r.2.2 x → s.h.next ≤ x ∨ (s.h.obj x).kind = .atom) ∧
    (∀ x, Reach r.1.h r.2.2 x → Reach s.h o x → (s.h.obj x).kind = .atom) := by
  have c := copyObj_spec (hb := s.h) (tr0 := s.tr) w (s.h.next + 1) s [] o (DInv.init w) ho
  unfold deepCopy
  have hcl : ∀ x, Reach (copyObj (s.h.next + 1) s [] o).1.h (copyObj (s.h.next + 1) s [] o).2.2 x →
      s.h.next ≤ x ∨ (s.h.obj x).kind = .atom :=
    fun x hr => reach_fresh c.inv hr c.fresh
  refine ⟨c.inv.frame, c.inv.tr, ?_, c.kind, hcl, ?_⟩
  · intro hk
    rcases c.fresh with h | h
    · exact h
    · apply Nat.le_of_not_lt
      intro hlt
      have e := c.kind
      rw [c.inv.frame _ hlt] at e
      rw [e] at h
      exact hk h
  · intro x h1 h2
    rcases hcl x h1 with h | h
    · have := reach_old w h2 ho; omega
    · exact h

-- non-vacuity: deep copy of the SOLVED example sequence 11: the copy is a new unit; the parent link of the copied
-- pass, the unit link of its in-profile, the pass link of its roll and the owner link of its list all point to NEW
-- objects (the copies), and nothing of the original changed
def exCopy : S × Memo × Nat := deepCopy ex1 11
theorem ex0i_wf : Wf ex0i.h := ex0_good.wf
example : Wf ex1.h :=
  (solveU_spec P model_producers_safe 4 ex0i 11 2 ex0i_wf (by decide) (by decide)).trk.wf
set_option maxRecDepth 100000 in
example :
    let c6 := (exCopy.2.1.lookup 6).getD 0
    let i := (getF exCopy.1.h c6 fIN).getD 0
    let r := (getF exCopy.1.h c6 fROLL).getD 0
    let l := (getF exCopy.1.h c6 fSUB).getD 0
    ex1.h.next ≤ exCopy.2.2 ∧ (exCopy.1.h.obj exCopy.2.2).kind = .unit ∧
    ex1.h.next ≤ c6 ∧ (exCopy.1.h.obj c6).weak = some exCopy.2.2 ∧
    (exCopy.1.h.obj i).weak = some c6 ∧ (exCopy.1.h.obj r).weak = some c6 ∧ (exCopy.1.h.obj l).weak = some c6 ∧
    ex1.h.next ≤ i ∧ ex1.h.next ≤ r ∧ ex1.h.next ≤ l ∧ exCopy.1.h.obj 6 = ex1.h.obj 6 := by decide

/-! ## 6. a re-used out-profile and the incoming profile of the CURRENT solve (the form of `Unit.init_solve`)

`Unit.init_solve` keeps the out-profile of a previous solve (its root-hook results are the start values of the next
iteration).  Which form the source has is read by the translator (`Gen.C12.outReuse`, used by `P`); every theorem above
holds for both forms (`solveU_spec` is proved for an arbitrary `Producers.reuse`).  This section says what the form
`handOver` (the `else:` branch) adds in C12's terms - no state of an earlier solve's caller profile leaks into a later
solve through the re-used out-profile - and that the form `keep` does not have it. -/

/-- the model with the form of `init_solve` fixed (whatever the translated source has) -/
def Pk : Producers := { P with reuse := .keep }
def Ph : Producers := { P with reuse := .handOver }

/-- The statement, for a form `rf` of `init_solve`: a unit solved before (its out-profile `o` is re-used; no sub-unit
owns `o`) is solved again with ANY profile `p`; afterwards `o` has under every public name that is not a root hook of
the out-profile exactly what `p` has under it - the same reference, or nothing. -/
def ReusedOutCurrentAfterSolve (rf : Reuse) : Prop :=
  ∀ (fuel : Nat) (s : S) (u p o : Nat), Good s → u < s.h.next → p < s.h.next → (s.h.obj u).kind = .unit →
    getF s.h u fOUT = some o →
    (∀ l c, getF s.h u fSUB = some l → c ∈ (s.h.obj l).items → ¬ Owned s.h c o) →
    ∀ g, isPublic g = true → (outRoots (s.h.obj u).tag).contains g = false →
      getF (solveU { P with reuse := rf } (fuel + 1) s u p).1.h o g = getF s.h p g

/-- the form `handOver` HAS it, for arbitrary well-formed typed heaps, units (also a pass whose pre-processor turns the
profile), profiles, fuel and iteration counts: `init_solve` sets these entries from the incoming profile; the root
hooks write under root-hook names only; the producers only allocate and change sets they created; a sub-solve does not
touch an object its unit does not own (`solve_frame`); the in-profile, the unit and the pass roll are other objects -/
theorem reused_out_profile_current_after_solve : ReusedOutCurrentAfterSolve .handOver := by
  intro fuel s u p o gd hu hp hk ho hsep g hpub hnr
  exact (solveU_reuse_current { P with reuse := .handOver } model_producers_safe rfl fuel s u p o gd hu hp hk ho hsep g
    hpub hnr).1

/-- …and so does the profile handed back to the caller (the public copy of the out-profile) -/
theorem returned_profile_has_current_entries (fuel : Nat) (s : S) (u p o : Nat) (gd : Good s) (hu : u < s.h.next)
    (hp : p < s.h.next) (hk : (s.h.obj u).kind = .unit) (ho : getF s.h u fOUT = some o)
    (hsep : ∀ l c, getF s.h u fSUB = some l → c ∈ (s.h.obj l).items → ¬ Owned s.h c o)
    (g : Nat) (hpub : isPublic g = true) (hnr : (outRoots (s.h.obj u).tag).contains g = false) :
    getF (solveU Ph (fuel + 1) s u p).1.h (solveU Ph (fuel + 1) s u p).2 g = getF s.h p g :=
  (solveU_reuse_current Ph model_producers_safe rfl fuel s u p o gd hu hp hk ho hsep g hpub hnr).2

/-- no state leaks between solves through the re-used out-profile: a value `v` that the caller's profile of the current
solve does not refer to - a value of the caller profile of an EARLIER solve, a result of the earlier solve - is,
after the solve, referred to by no public entry of the out-profile other than (possibly) a root hook's, which the solve
itself has set anew -/
theorem no_state_leaks_through_reused_out_profile (fuel : Nat) (s : S) (u p o v : Nat) (gd : Good s)
    (hu : u < s.h.next) (hp : p < s.h.next) (hk : (s.h.obj u).kind = .unit) (ho : getF s.h u fOUT = some o)
    (hsep : ∀ l c, getF s.h u fSUB = some l → c ∈ (s.h.obj l).items → ¬ Owned s.h c o)
    (hv : ∀ g, getF s.h p g ≠ some v) (g : Nat) (hpub : isPublic g = true)
    (hnr : (outRoots (s.h.obj u).tag).contains g = false) :
    getF (solveU Ph (fuel + 1) s u p).1.h o g ≠ some v := by
  have e : getF (solveU Ph (fuel + 1) s u p).1.h o g = getF s.h p g :=
    reused_out_profile_current_after_solve fuel s u p o gd hu hp hk ho hsep g hpub hnr
  rw [e]; exact hv g

/-- the step of `init_solve` itself, for ANY heap (no well-formedness needed), out-profile created or re-used: when it is
done, the unit's out-profile has under every public name that is not a root hook what the incoming profile has -/
theorem init_solve_hands_over_current_entries (tag : Nat) (s : S) (u p1 g : Nat) (hpub : isPublic g = true)
    (hnr : (outRoots tag).contains g = false) :
    getF (ensureOut .handOver tag s u p1).1.h (ensureOut .handOver tag s u p1).2 g = getF s.h p1 g :=
  ensureOut_handOver_getF tag s u p1 g hpub hnr

/-- the form `keep`: a re-used out-profile is exactly what the previous solve left -/
theorem keep_form_reuses_as_is (tag : Nat) (s : S) (u p1 o : Nat) (ho : getF s.h u fOUT = some o) :
    ensureOut .keep tag s u p1 = (s, o) := ensureOut_keep_reused tag s u p1 o ho

/-! non-vacuity: the example heap with two caller profiles and a lone transport
  13 material list and 14 tag set of the caller's profile 15 (entries 10 `material`, 13 `my_tags`);
  16 another material list, of the caller's profile 17 (no tag set);  18 a transport without disk elements, list 19. -/
def exL : S :=
  let s1 := (ex0.alloc { kind := .value, content := [10] }).1
  let s2 := (s1.alloc { kind := .value, content := [11] }).1
  let s3 := (s2.alloc { kind := .profile, fields := [(fCS, 0), (fCL, 1), (10, 13), (13, 14)] }).1
  let s4 := (s3.alloc { kind := .value, content := [12] }).1
  let s5 := (s4.alloc { kind := .profile, fields := [(fCS, 0), (fCL, 1), (10, 16)] }).1
  let s6 := (s5.alloc { kind := .unit, tag := 2 }).1
  let s7 := (s6.alloc { kind := .subList, weak := some 18 }).1
  s7.write 18 fSUB 19

theorem exL_good : Good exL := by
  have g1 := ex0_good.alloc { kind := .value, content := [10] } (by decide) (by decide) (by decide)
  have g2 := g1.alloc { kind := .value, content := [11] } (by decide) (by decide) (by decide)
  have g3 := g2.alloc { kind := .profile, fields := [(fCS, 0), (fCL, 1), (10, 13), (13, 14)] } (by decide) (by decide)
    (by decide)
  have g4 := g3.alloc { kind := .value, content := [12] } (by decide) (by decide) (by decide)
  have g5 := g4.alloc { kind := .profile, fields := [(fCS, 0), (fCL, 1), (10, 16)] } (by decide) (by decide) (by decide)
  have g6 := g5.alloc { kind := .unit, tag := 2 } (by decide) (by decide) (by decide)
  have g7 := g6.alloc { kind := .subList, weak := some 18 } (by decide) (by decide) (by decide)
  exact g7.write (o := 18) (f := fSUB) (v := 19) (by decide) (by decide) (by decide)

/-- the example sequence 11 solved with the caller's profile 15, then again with the caller's profile 17 -/
def exL2 (Q : Producers) : S :=
  (solveU Q 4 { (solveU Q 4 { exL with its := [2, 1, 1, 1, 1, 1, 1, 1, 1] } 11 15).1 with
    its := [2, 1, 1, 1, 1, 1, 1, 1, 1] } 11 17).1

/-- the out-profiles of the sequence, the pass, the transport and the transport's disk element -/
def exLouts (s : S) : List Nat :=
  [getF s.h 11 fOUT, getF s.h 6 fOUT, getF s.h 9 fOUT, (subItems s.h 9).head?.bind (fun d => getF s.h d fOUT)].map
    (·.getD 0)

-- form `handOver`: after the second solve every out-profile of the tree (all four were re-used) has the CURRENT
-- caller's material list 16 and no tag set; nothing refers to the earlier caller's 13 / 14 any more; the transport's
-- `technologically_orientated_cross_section` (not a root hook of a transport) is the one the pass produced NOW
set_option maxRecDepth 100000 in
example : exLouts (exL2 Ph) = [21, 33, 47, 52] ∧
    (exLouts (exL2 Ph)).all (fun o => getF (exL2 Ph).h o 10 == some 16 && getF (exL2 Ph).h o 13 == none &&
      ((exL2 Ph).h.obj o).fields.all (fun e => e.2 != 13 && e.2 != 14)) = true ∧
    getF (exL2 Ph).h 47 fTOCS = getF (exL2 Ph).h 33 fTOCS := by decide
-- form `keep`: the same history leaves the FIRST caller's material list and tag set in every out-profile, and the
-- transport's `technologically_orientated_cross_section` is the object the pass produced in the first solve
set_option maxRecDepth 100000 in
example : exLouts (exL2 Pk) = [21, 33, 47, 52] ∧
    (exLouts (exL2 Pk)).all (fun o => getF (exL2 Pk).h o 10 == some 13 && getF (exL2 Pk).h o 13 == some 14) = true ∧
    getF (exL2 Pk).h 47 fTOCS ≠ getF (exL2 Pk).h 33 fTOCS := by decide

/-- the lone transport 18 solved once with the caller's profile 15 (out-profile 21, new empty sub-unit list 22) -/
def exW (Q : Producers) : S := { (solveU Q 2 { exL with its := [1] } 18 15).1 with its := [1] }

theorem exW_good (Q : Producers) (hQ : Q.Safe) : Good (exW Q) := by
  have k := keeps_solve Q hQ (s := { exL with its := [1] }) ⟨exL_good.wf, exL_good.typed⟩ 2 18 15 (by decide)
    (by decide) (by decide)
  exact ⟨k.good.wf, k.good.typed⟩

-- non-vacuity of the hypotheses of `reused_out_profile_current_after_solve` (the transport 18 solved before: `Good` is
-- `exW_good`, the out-profile 21 is there, the sub-unit list 22 is empty), and the instance computed: after the second
-- solve with profile 17 the out-profile 21 has 17's material list where it had 15's, and the tag set is gone
set_option maxRecDepth 100000 in
example : getF (exW Ph).h 18 fOUT = some 21 ∧ ((exW Ph).h.obj 18).kind = .unit ∧
    getF (exW Ph).h 18 fSUB = some 22 ∧ ((exW Ph).h.obj 22).items = [] ∧
    getF (exW Ph).h 21 10 = some 13 ∧
    (∀ g ∈ [10, 13, 2, 11, 12], getF (solveU Ph 2 (exW Ph) 18 17).1.h 21 g = getF (exW Ph).h 17 g) := by decide

/-- the form `keep` does NOT have the property: the transport 18, solved with the caller's profile 15 and then with the
caller's profile 17, still has 15's material list 13 in its out-profile -/
theorem keep_form_leaks : ¬ ReusedOutCurrentAfterSolve .keep := by
  intro h
  have hsafe : Pk.Safe := model_producers_safe
  have hsep : ∀ l c, getF (exW Pk).h 18 fSUB = some l → c ∈ ((exW Pk).h.obj l).items → ¬ Owned (exW Pk).h c 21 := by
    intro l c hl hc
    have e : getF (exW Pk).h 18 fSUB = some 22 := by decide
    rw [e] at hl
    cases hl
    have e2 : ((exW Pk).h.obj 22).items = [] := by decide
    rw [e2] at hc
    cases hc
  have := h 1 (exW Pk) 18 17 21 (exW_good Pk hsafe) (by decide) (by decide) (by decide) (by decide) hsep
    10 (by decide) (by decide)
  revert this
  decide

/-! ## 7. the velocity solvers of a pass sequence are solve entry points like `solve`

`PassSequence.solve_velocities_forward(in_profile, initial_speed)` / `solve_velocities_backward(in_profile, …)` take the
caller's profile, set `velocity` on the roll passes listed in the sequence and call `self.solve(in_profile)` repeatedly
(`Heap.solveVel`; that the source has this shape is `translated_velocity_solvers_certified`). -/

/-- every write of a velocity solver - any number of rounds - targets an object it allocated or one the sequence owns -/
theorem velocity_solver_writes_only_owned (n : Nat) (s : S) (u p : Nat) (w : Wf s.h) (hu : u < s.h.next)
    (hp : p < s.h.next) :
    ∃ t, (solveVel P n s u p).tr = s.tr ++ t ∧ ∀ o ∈ targets t, s.h.next ≤ o ∨ Owned s.h u o :=
  (solveVel_spec P model_producers_safe n s u p w hu hp).tr

theorem velocity_solver_frame (n : Nat) (s : S) (u p : Nat) (w : Wf s.h) (hu : u < s.h.next) (hp : p < s.h.next)
    (o : Nat) (ho : o < s.h.next) (hn : ¬ Owned s.h u o) : (solveVel P n s u p).h.obj o = s.h.obj o :=
  (solveVel_spec P model_producers_safe n s u p w hu hp).frame o ho hn

/-- never the caller's profile (whatever the first unit of the line is, whether or not the profile has a velocity), a
groove, a roll template, a value, a callable: unchanged in every component (entries, cache), named by no effect -/
theorem velocity_solver_never_touches_inputs (n : Nat) (s : S) (u p : Nat) (g : Good s) (hu : u < s.h.next)
    (hp : p < s.h.next) (hk : (s.h.obj u).kind = .unit) (q : Nat) (hq : q < s.h.next)
    (hs : stableKind (s.h.obj q).kind) :
    (solveVel P n s u p).h.obj q = s.h.obj q ∧
    ∀ t, (solveVel P n s u p).tr = s.tr ++ t → q ∉ targets t := by
  have hno : ¬ Owned s.h u q := fun ho => stable_not_owned hs (ho.kind g.typed hk)
  refine ⟨velocity_solver_frame n s u p g.wf hu hp q hq hno, ?_⟩
  intro t ht hmem
  obtain ⟨t', ht', hok⟩ := velocity_solver_writes_only_owned n s u p g.wf hu hp
  have : t = t' := List.append_cancel_left (ht.symm.trans ht')
  subst this
  rcases hok q hmem with h | h
  · omega
  · exact hno h

/-- …and a second run with the SAME profile object starts from the same profile: whatever the first run did, the
profile it is handed is the object the caller built (histories: `earlier_profiles_stable` has `Op.solveVel`) -/
theorem velocity_solver_reuse_of_profile (n m : Nat) (s : S) (u u' p : Nat) (g : Good s)
    (hp : p < s.h.next) (hs : stableKind (s.h.obj p).kind) :
    (run P s [.solveVel u p n, .solveVel u' p m]).h.obj p = s.h.obj p :=
  earlier_profiles_stable _ s g p hp hs

-- non-vacuity: the example sequence 11 (pass 6, transport 9) run through a velocity solver with 2 rounds and the
-- caller's profile 2: among the objects that existed, written are 6 (velocity, solve), its roll 8, 11 and 9; the pass
-- has a velocity; the caller's profile 2, its values 0 / 1, the groove 4 and the template 5 are what they were
def ex0v : S := { ex0 with its := [2, 1, 1, 1, 1, 1, 1, 1, 1, 2, 1, 1, 1, 1, 1, 1, 1, 1] }
set_option maxRecDepth 100000 in
example : ((targets ((solveVel P 2 ex0v 11 2).tr.drop ex0.tr.length)).filter (· < ex0.h.next)).eraseDups = [6, 8, 11, 9] ∧
    (getF (solveVel P 2 ex0v 11 2).h 6 fUVEL).isSome = true ∧ getF ex0.h 6 fUVEL = none ∧
    (solveVel P 2 ex0v 11 2).its = [] ∧
    [0, 1, 2, 3, 4, 5].all (fun q => decide ((solveVel P 2 ex0v 11 2).h.obj q = ex0.h.obj q)) = true := by decide

/-! ## 8. callables given as explicit values (bound methods of other units, `functools.partial`, callable objects)

An explicit value may be a callable that refers to another object of the same graph (`Transport(duration=
first_pass.pause_after)`, `gap=partial(same_gap_as, first_pass)`): an object of kind `closure` holding a reference.
`deepcopy_disjoint_and_closed` speaks of EVERYTHING reachable, so it covers them; spelled out: -/

/-- every callable reachable from a deep copy is an object made by this copy, and what it is bound to is made by this
copy as well (or an immutable atom): the copy's links follow the copy's own units, never the original's -/
theorem deepcopy_rebinds_callables (s : S) (w : Wf s.h) (o : Nat) (ho : o < s.h.next) (x f c g t : Nat) :
    let r := deepCopy s o
    Reach r.1.h r.2.2 x → (r.1.h.obj x).kind ≠ .atom → getF r.1.h x f = some c → (r.1.h.obj c).kind = .closure →
    getF r.1.h c g = some t →
    s.h.next ≤ c ∧ (s.h.next ≤ t ∨ (s.h.obj t).kind = .atom) := by
  intro r hx hxa hc hk ht
  obtain ⟨hframe, _, _, _, hcl, _⟩ := deepcopy_disjoint_and_closed s w o ho
  have rc : Reach r.1.h r.2.2 c := Reach.step hx hxa (getF_mem_ptrs hc)
  have hca : (r.1.h.obj c).kind ≠ .atom := by rw [hk]; decide
  have rt : Reach r.1.h r.2.2 t := Reach.step rc hca (getF_mem_ptrs ht)
  refine ⟨?_, hcl t rt⟩
  rcases hcl c rc with h | h
  · exact h
  · apply Nat.le_of_not_lt
    intro hlt
    have e : (r.1.h.obj c).kind = (s.h.obj c).kind := by rw [hframe c hlt]
    rw [← e, hk] at h
    cases h

/-- a solve - and a velocity solver, and any history - leaves a callable and what it refers to alone (kind `closure`
is owned by nobody): instance of `solve_never_touches_inputs` -/
theorem solve_leaves_callables (fuel : Nat) (s : S) (u p : Nat) (g : Good s) (hu : u < s.h.next) (hp : p < s.h.next)
    (hk : (s.h.obj u).kind = .unit) (c : Nat) (hc : c < s.h.next) (hkc : (s.h.obj c).kind = .closure) :
    (solveU P fuel s u p).1.h.obj c = s.h.obj c :=
  (solve_never_touches_inputs fuel s u p g hu hp hk c hc
    (Or.inr (Or.inr (Or.inr (Or.inr (Or.inr (Or.inr hkc))))))).1

-- non-vacuity: in the solved example the transport 9 gets `duration` (entry 43) = a callable bound to the pass 6
-- (history op `bind`); the deep copy of the sequence 11 has, in the copy of 9, a NEW callable bound to the COPY of 6,
-- and the original callable is what it was
def exB : S := run P ex1 [.bind 9 43 6]
def exBc : S × Memo × Nat := deepCopy exB 11
set_option maxRecDepth 100000 in
example :
    let k := (getF exB.h 9 43).getD 0
    let c9 := (exBc.2.1.lookup 9).getD 0
    let c6 := (exBc.2.1.lookup 6).getD 0
    let k' := (getF exBc.1.h c9 43).getD 0
    (exB.h.obj k).kind = .closure ∧ getF exB.h k fBIND = some 6 ∧
    exB.h.next ≤ c9 ∧ exB.h.next ≤ c6 ∧ exB.h.next ≤ k' ∧ (exBc.1.h.obj k').kind = .closure ∧
    getF exBc.1.h k' fBIND = some c6 ∧ exBc.1.h.obj k = exB.h.obj k ∧
    (exBc.1.h.obj c6).weak = some exBc.2.2 := by decide

/-! ## 9. construction of a roll pass: the pass owns a FRESH roll, whatever roll object it is built from

`SymmetricRollPass.__init__(self, roll, …)` (`Heap.mkPass`): the caller may hand in a plain `Roll` template, one template
for several passes, or an object that already belongs to another position - the roll of another pass
(`RollPass(roll=other_pass.roll, …)`).  The form in which the constructor binds `self.roll` is read by the translator
(`Gen.C12.rollStore`); the shape of the copy `BaseRollPass.Roll.__init__` makes is `Gen.C12.rollInit` (`rollCopy`). -/

/-- the source still has the shape `Heap.mkPass` assumes: `SymmetricRollPass.__init__` binds `self.roll` by the one
unconditional statement `self.roll = self.Roll(roll, self)` (no case distinction on what is handed in); in the whole
package the attribute `roll` of an object is bound in this one place; the constructors of the two concrete pass classes
hand their `roll` on to it as it is; `BaseRollPass.Roll` is the only `…Roll` class of roll_pass/ with a constructor of its
own (its shape is `rollInit` in `translated_shapes_certified`) -/
theorem translated_pass_construction_certified :
    Gen.C12.rollStore = .copy ∧
    Gen.C12.rollBindings =
      [("roll_pass/symmetric_roll_pass.py:SymmetricRollPass.__init__", "self", "self.Roll(roll, self)")] ∧
    Gen.C12.rollParamUses =
      [("base.py:BaseRollPass.Roll.__init__", "<defined>"),
       ("symmetric_roll_pass.py:SymmetricRollPass.__init__", "self.roll = self.Roll(roll, self)"),
       ("three_roll_pass.py:ThreeRollPass.__init__", "super().__init__(roll, label, **kwargs)"),
       ("two_roll_pass.py:TwoRollPass.__init__", "super().__init__(roll, label, **kwargs)")] :=
  ⟨rfl, rfl, rfl⟩

/-- The statement, for a form `rs` of the constructor: in any well-formed typed heap, whatever allocated object `t` is
handed in as `roll` (template or pass roll), the new pass has under `roll` an object `q` that
  * did not exist before (so it is not `t` and not the roll of any other position), as the pass itself,
  * is a pass roll whose back-link is THIS pass, with an empty hook value cache of its own,
  * has the public entries of `t` by reference (the groove is shared: an input, never written - theorem 1),
  * is referred to by this pass only (`ptrs` = strong entries, back-links, list items of every object),
and every object that existed - `t` itself with ITS back-link, the pass `t` belongs to - is exactly as before; the heap
stays well-formed and typed (so theorems 1-8 apply to what is built). -/
def PassOwnsFreshRoll (rs : RollStore) : Prop :=
  ∀ (s : S) (rot : Bool) (disks t : Nat), Good s → t < s.h.next →
    ∃ q, getF (mkPass rs s rot disks t).1.h (mkPass rs s rot disks t).2 fROLL = some q ∧
      s.h.next ≤ (mkPass rs s rot disks t).2 ∧ s.h.next ≤ q ∧
      ((mkPass rs s rot disks t).1.h.obj q).kind = .passRoll ∧
      ((mkPass rs s rot disks t).1.h.obj q).weak = some (mkPass rs s rot disks t).2 ∧
      ((mkPass rs s rot disks t).1.h.obj q).cache = [] ∧
      ((mkPass rs s rot disks t).1.h.obj q).fields = pubFields s.h t ∧
      (∀ o, q ∈ ((mkPass rs s rot disks t).1.h.obj o).ptrs → o = (mkPass rs s rot disks t).2) ∧
      (∀ o, o < s.h.next → (mkPass rs s rot disks t).1.h.obj o = s.h.obj o) ∧
      Good (mkPass rs s rot disks t).1

/-- the form `copy` (what the translator reads from /repo) HAS it -/
theorem pass_owns_fresh_roll : PassOwnsFreshRoll .copy := by
  intro s rot disks t g ht
  have ob := mkPass_copy_obj s rot disks t ht
  have hid := mkPass_id .copy s rot disks t
  refine ⟨s.h.next + 2, ?_, by rw [hid]; exact Nat.le_refl _, by omega, ?_, ?_, ?_, ?_, ?_, ?_,
    mkPass_copy_good g rot disks ht⟩
  · unfold getF; rw [hid, ob, if_pos rfl]; simp [List.lookup, fSUB, fROLL]
  · rw [ob, if_neg (by omega), if_neg (by omega), if_pos rfl]
  · rw [ob, if_neg (by omega), if_neg (by omega), if_pos rfl, hid]
  · rw [ob, if_neg (by omega), if_neg (by omega), if_pos rfl]
  · rw [ob, if_neg (by omega), if_neg (by omega), if_pos rfl]
  · intro o ho
    rw [hid]
    rw [ob o] at ho
    by_cases e0 : o = s.h.next
    · exact e0
    · rw [if_neg e0] at ho
      by_cases e1 : o = s.h.next + 1
      · rw [if_pos e1] at ho
        rcases mem_ptrs.1 ho with ⟨f, he⟩ | hw | hi
        · cases he
        · have := Option.some.inj hw; omega
        · cases hi
      · rw [if_neg e1] at ho
        by_cases e2 : o = s.h.next + 2
        · rw [if_pos e2] at ho
          rcases mem_ptrs.1 ho with ⟨f, he⟩ | hw | hi
          · have := g.wf.closed t _ (mem_ptrs.2 (Or.inl ⟨f, (mem_pubFields he).1⟩)); omega
          · have := Option.some.inj hw; omega
          · cases hi
        · rw [if_neg e2] at ho
          have := g.wf.closed o _ ho; omega
  · intro o ho
    rw [ob, if_neg (by omega), if_neg (by omega), if_neg (by omega)]

/-- no aliasing between two positions: a pass `a` built from any roll object `t`, then a pass `b` built from THE ROLL
OF `a`: `b`'s roll is another object than `a`'s, each roll's back-link names its own pass, `a` still has its roll and
that roll is exactly what it was; what the two rolls share is what `t` had under its public names (the groove) -/
theorem derived_pass_shares_no_roll (s : S) (g : Good s) (rot1 rot2 : Bool) (d1 d2 t : Nat) (ht : t < s.h.next) :
    ∃ ra rb, getF (mkPass .copy s rot1 d1 t).1.h (mkPass .copy s rot1 d1 t).2 fROLL = some ra ∧
      getF (mkPass .copy (mkPass .copy s rot1 d1 t).1 rot2 d2 ra).1.h
        (mkPass .copy (mkPass .copy s rot1 d1 t).1 rot2 d2 ra).2 fROLL = some rb ∧
      rb ≠ ra ∧ (mkPass .copy (mkPass .copy s rot1 d1 t).1 rot2 d2 ra).2 ≠ (mkPass .copy s rot1 d1 t).2 ∧
      ((mkPass .copy (mkPass .copy s rot1 d1 t).1 rot2 d2 ra).1.h.obj rb).weak =
        some (mkPass .copy (mkPass .copy s rot1 d1 t).1 rot2 d2 ra).2 ∧
      ((mkPass .copy (mkPass .copy s rot1 d1 t).1 rot2 d2 ra).1.h.obj ra).weak = some (mkPass .copy s rot1 d1 t).2 ∧
      getF (mkPass .copy (mkPass .copy s rot1 d1 t).1 rot2 d2 ra).1.h (mkPass .copy s rot1 d1 t).2 fROLL = some ra ∧
      (mkPass .copy (mkPass .copy s rot1 d1 t).1 rot2 d2 ra).1.h.obj ra = (mkPass .copy s rot1 d1 t).1.h.obj ra ∧
      ((mkPass .copy (mkPass .copy s rot1 d1 t).1 rot2 d2 ra).1.h.obj rb).fields = pubFields s.h t := by
  obtain ⟨ra, ha, hua, hra, _, hwa, _, hfa, _, _, ga⟩ := pass_owns_fresh_roll s rot1 d1 t g ht
  have hra' : ra < (mkPass .copy s rot1 d1 t).1.h.next := ga.wf.getF_lt ha
  have hua' : (mkPass .copy s rot1 d1 t).2 < (mkPass .copy s rot1 d1 t).1.h.next := ga.wf.lt_of_getF ha
  obtain ⟨rb, hb, hub, hrb, _, hwb, _, hfb, _, hold, _⟩ :=
    pass_owns_fresh_roll (mkPass .copy s rot1 d1 t).1 rot2 d2 ra ga hra'
  refine ⟨ra, rb, ha, hb, by omega, by omega, hwb, ?_, ?_, hold ra hra', ?_⟩
  · rw [hold ra hra']; exact hwa
  · unfold getF; rw [hold _ hua']; exact ha
  · rw [hfb]
    unfold pubFields
    rw [hfa]
    unfold pubFields
    rw [List.filter_filter]
    congr 1
    funext e
    simp

/-- solving one position leaves the other's objects unchanged: a pass built from ANY existing roll object - also the
roll of another pass - and then solved (any fuel, profile, iteration counts): every object that existed when the pass
was built is exactly as before, in all components (entries, back-link, cache): the roll handed in, the pass it
belongs to, that pass's profiles.  (The new pass owns only what its construction made: `mkPass_copy_owned`; a solve
writes only to what it allocates or the solved unit owns: theorem 1.) -/
theorem solving_derived_pass_leaves_source_roll (fuel : Nat) (s : S) (g : Good s) (rot : Bool) (disks t p : Nat)
    (ht : t < s.h.next) (hp : p < s.h.next) (o : Nat) (ho : o < s.h.next) :
    (solveU P fuel (mkPass .copy s rot disks t).1 (mkPass .copy s rot disks t).2 p).1.h.obj o = s.h.obj o := by
  have gb := mkPass_copy_good g rot disks ht
  have hn := mkPass_copy_next s rot disks t
  have hid := mkPass_id .copy s rot disks t
  have hno : ¬ Owned (mkPass .copy s rot disks t).1.h (mkPass .copy s rot disks t).2 o := by
    rw [hid]; intro h
    have := mkPass_copy_owned rot disks ht h
    omega
  rw [solve_frame fuel _ _ p gb.wf (by rw [hid, hn]; omega) (by rw [hn]; omega) o (by rw [hn]; omega) hno]
  rw [mkPass_copy_obj s rot disks t ht, if_neg (by omega), if_neg (by omega), if_neg (by omega)]

/-- the form `adopt` (`self.roll = roll`) does NOT have it: a pass built from the roll 8 of the example pass 6 holds
that very object -/
theorem adopt_form_shares_roll : ¬ PassOwnsFreshRoll .adopt := by
  intro h
  obtain ⟨q, hq, _, hle, _⟩ := h ex0 false 0 8 ex0_good (by decide)
  have e : getF (mkPass .adopt ex0 false 0 8).1.h (mkPass .adopt ex0 false 0 8).2 fROLL = some 8 := by decide
  rw [e] at hq
  cases hq
  revert hle
  decide

-- non-vacuity: the SOLVED example (`ex1`: the roll 8 of pass 6 has a torque entry and cached values) is well-formed and
-- typed; a second pass is built from the roll 8 of pass 6
theorem ex1_good : Good ex1 :=
  (keeps_solve P model_producers_safe (s := ex0i) ⟨ex0_good.wf, ex0_good.typed⟩ 4 11 2 (by decide) (by decide)
    (by decide)).good
def exD : S × Nat := mkPass .copy ex1 true 0 8
-- the new pass `exD.2` has a new roll (two objects further) whose back-link is the new pass, cache empty, the groove
-- and the torque entry of roll 8 by reference; roll 8 still belongs to pass 6 and is what it was, cache included
set_option maxRecDepth 100000 in
example : (8 : Nat) < ex1.h.next ∧ (ex1.h.obj 8).kind = .passRoll ∧ (ex1.h.obj 8).cache = [cROLL] ∧
    (getF ex1.h 8 fTORQUE).isSome = true ∧
    exD.2 = ex1.h.next ∧ getF exD.1.h exD.2 fROLL = some (ex1.h.next + 2) ∧
    (exD.1.h.obj (ex1.h.next + 2)).weak = some exD.2 ∧ (exD.1.h.obj (ex1.h.next + 2)).cache = [] ∧
    getF exD.1.h (ex1.h.next + 2) fGROOVE = some 4 ∧
    getF exD.1.h (ex1.h.next + 2) fTORQUE = getF ex1.h 8 fTORQUE ∧
    exD.1.h.obj 8 = ex1.h.obj 8 ∧ (exD.1.h.obj 8).weak = some 6 ∧ getF exD.1.h 6 fROLL = some 8 := by decide
-- the derived pass solved alone with the caller's profile 2: its own roll gets cached values and a new torque entry,
-- roll 8, pass 6, the template 5 and the groove 4 are exactly what they were
set_option maxRecDepth 100000 in
example :
    let r := (solveU P 3 { exD.1 with its := [1, 1] } exD.2 2).1
    (r.h.obj (ex1.h.next + 2)).cache = [cROLL] ∧
    getF r.h (ex1.h.next + 2) fTORQUE ≠ getF ex1.h 8 fTORQUE ∧
    r.h.obj 8 = ex1.h.obj 8 ∧ r.h.obj 6 = ex1.h.obj 6 ∧ r.h.obj 5 = ex1.h.obj 5 ∧ r.h.obj 4 = ex1.h.obj 4 := by decide
-- non-vacuity of `derived_pass_shares_no_roll` / `solving_derived_pass_leaves_source_roll`: the hypotheses hold for the
-- example heaps; a pass built from the template 5 (objects 13, 14, 15), then a pass built from ITS roll 15 (objects 16,
-- 17, 18): roll 18 names pass 16, roll 15 still names pass 13, both have groove 4
example : Good ex0 ∧ (5 : Nat) < ex0.h.next ∧
    getF (mkPass .copy ex0 false 0 5).1.h 13 fROLL = some 15 ∧
    getF (mkPass .copy (mkPass .copy ex0 false 0 5).1 true 1 15).1.h 16 fROLL = some 18 ∧
    ((mkPass .copy (mkPass .copy ex0 false 0 5).1 true 1 15).1.h.obj 18).weak = some 16 ∧
    ((mkPass .copy (mkPass .copy ex0 false 0 5).1 true 1 15).1.h.obj 15).weak = some 13 ∧
    getF (mkPass .copy (mkPass .copy ex0 false 0 5).1 true 1 15).1.h 18 fGROOVE = some 4 :=
  ⟨ex0_good, by decide, by decide, by decide, by decide, by decide, by decide⟩
example : Good ex1 ∧ (8 : Nat) < ex1.h.next ∧ (2 : Nat) < ex1.h.next := ⟨ex1_good, by decide, by decide⟩
-- the form `adopt` on the same input: the new pass holds object 8 itself, whose back-link names pass 6
example : getF (mkPass .adopt ex1 true 0 8).1.h (mkPass .adopt ex1 true 0 8).2 fROLL = some 8 ∧
    ((mkPass .adopt ex1 true 0 8).1.h.obj 8).weak = some 6 := by decide

end C12
