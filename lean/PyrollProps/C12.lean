import PyrollModel.Heap
import PyrollModel.Gen.C12
