import PyrollProps.C04
import PyrollProofs.GrooveC04Mono

/-!
# C04 — parameters exactly ON the boundary of their range, uniqueness for the `r2 is None` patterns, and the defective branch

Continuation of `PyrollProps/C04.lean` (same generated terms, same conventions).
-/

open Gen.C04 Gen.C04.Groove Gen.C04.Valid GrooveC04
set_option linter.unusedSimpArgs false
set_option linter.unusedVariables false
set_option linter.unusedTactic false
set_option linter.unreachableTactic false
set_option linter.unnecessarySeqFocus false

namespace C04

local macro "norm_env" : tactic => `(tactic| simp only [Expr.eval, upd, PyNum.nat_real, PyNum.sin_real, PyNum.cos_real,
  PyNum.tan_real, PyNum.acos_real, PyNum.atan_real, PyNum.pi_real, String.reduceEq, reduceIte, if_true, Nat.cast_one,
  Nat.cast_ofNat, Nat.cast_zero] at *)

local macro "norm_ex" : tactic => `(tactic| simp only [env, upd, Expr.eval, List.lookup, String.reduceBEq, String.reduceEq,
  reduceIte, Option.getD, PyNum.nat_real, PyNum.sin_real, PyNum.cos_real, PyNum.tan_real, PyNum.acos_real,
  PyNum.atan_real, PyNum.pi_real, Nat.cast_one, Nat.cast_ofNat, Nat.cast_zero] at *)

/-! ## `solve_r124`, `r2 is None`: the residual in reduced form and uniqueness of its root

`r124_r2None_*_closure` (C04.lean) says: a root of the residual closes the contour.  Here: there is only ONE root in
`(0, π/2)`, for every flank mode and every `r1 ≥ 0` (the sharp edge `r1 = 0` included) - depth and usable width (and the
flank dimension) determine the groove, so that re-building a groove from `depth + usable_width` must give the groove they
were measured on.  (`r4 = indent = 0`: how every class calls the solver.) -/
section r2None_unique

local macro "reduce_r2None" : tactic => `(tactic| (
  norm_env
  simp only [*, add_zero, zero_div, sub_zero, Real.arccos_one, Real.sin_zero, mul_zero] at *))

theorem r124_r2None_free_reduced (ρ : String → ℝ) (α : ℝ) (hs : Real.sin α ≠ 0) (h1 : Real.cos α ≠ 1)
    (h4 : ρ "r4" = 0) (hi : ρ "indent" = 0)
    (hres : Expr.eval (upd ρ "_x0" α) r124_r2None_free_res0 = 0) :
    ρ "depth" = Real.tan (α / 2) * (ρ "width" / 2 + ρ "r1" * Real.tan ((α + ρ "pad_angle") / 2)) := by
  simp only [r124_r2None_free_res0] at hres
  norm_env
  simp only [h4, hi, add_zero, zero_div, sub_zero, Real.arccos_one, Real.sin_zero, mul_zero] at hres
  have h1c : 1 - Real.cos α ≠ 0 := sub_ne_zero.mpr (Ne.symm h1)
  generalize hQ : (ρ "depth" - ρ "r1" * Real.tan ((α + ρ "pad_angle") / 2) * Real.sin α) / (1 - Real.cos α) = Q at hres
  have e1 : Q * (1 - Real.cos α) = ρ "depth" - ρ "r1" * Real.tan ((α + ρ "pad_angle") / 2) * Real.sin α - 0 := by
    rw [sub_zero, ← hQ]; field_simp
  have := r2None_reduce (ρ "width") (ρ "depth") (ρ "r1" * Real.tan ((α + ρ "pad_angle") / 2)) 0 0 α Q hs e1
    (by linear_combination hres)
  linear_combination this

theorem r124_r2None_fl_reduced (ρ : String → ℝ) (α : ℝ) (hs : Real.sin α ≠ 0) (h1 : Real.cos α ≠ 1)
    (h4 : ρ "r4" = 0) (hi : ρ "indent" = 0)
    (hres : Expr.eval (upd ρ "_x0" α) r124_r2None_fl_res0 = 0) :
    ρ "depth" = Real.tan (α / 2) * ((ρ "width" / 2 + ρ "flank_length") + ρ "r1" * Real.tan ((α + ρ "pad_angle") / 2)) := by
  simp only [r124_r2None_fl_res0] at hres
  norm_env
  simp only [h4, hi, add_zero, zero_div, sub_zero, Real.arccos_one, Real.sin_zero, mul_zero] at hres
  have h1c : 1 - Real.cos α ≠ 0 := sub_ne_zero.mpr (Ne.symm h1)
  generalize hQ : (ρ "depth" - ρ "r1" * Real.tan ((α + ρ "pad_angle") / 2) * Real.sin α
    - ρ "flank_length" * Real.sin α) / (1 - Real.cos α) = Q at hres
  have e1 : Q * (1 - Real.cos α) = ρ "depth" - ρ "r1" * Real.tan ((α + ρ "pad_angle") / 2) * Real.sin α
      - ρ "flank_length" * Real.sin α := by
    rw [← hQ]; field_simp
  have := r2None_reduce (ρ "width") (ρ "depth") (ρ "r1" * Real.tan ((α + ρ "pad_angle") / 2))
    (ρ "flank_length" * Real.cos α) (ρ "flank_length" * Real.sin α) α Q hs e1 (by linear_combination hres)
  linear_combination this + ρ "flank_length" * sin_sub_half_cos α hs

theorem r124_r2None_fw_reduced (ρ : String → ℝ) (α : ℝ) (hs : Real.sin α ≠ 0) (h1 : Real.cos α ≠ 1)
    (h4 : ρ "r4" = 0) (hi : ρ "indent" = 0)
    (hres : Expr.eval (upd ρ "_x0" α) r124_r2None_fw_res0 = 0) :
    ρ "depth" = Real.tan (α / 2) * (ρ "width" / 2 + ρ "r1" * Real.tan ((α + ρ "pad_angle") / 2))
      + ρ "flank_width" * (Real.tan α - Real.tan (α / 2)) := by
  simp only [r124_r2None_fw_res0] at hres
  norm_env
  simp only [h4, hi, add_zero, zero_div, sub_zero, Real.arccos_one, Real.sin_zero, mul_zero] at hres
  have h1c : 1 - Real.cos α ≠ 0 := sub_ne_zero.mpr (Ne.symm h1)
  generalize hQ : (ρ "depth" - ρ "r1" * Real.tan ((α + ρ "pad_angle") / 2) * Real.sin α
    - ρ "flank_width" * Real.tan α) / (1 - Real.cos α) = Q at hres
  have e1 : Q * (1 - Real.cos α) = ρ "depth" - ρ "r1" * Real.tan ((α + ρ "pad_angle") / 2) * Real.sin α
      - ρ "flank_width" * Real.tan α := by
    rw [← hQ]; field_simp
  have := r2None_reduce (ρ "width") (ρ "depth") (ρ "r1" * Real.tan ((α + ρ "pad_angle") / 2))
    (ρ "flank_width") (ρ "flank_width" * Real.tan α) α Q hs e1 (by linear_combination hres)
  linear_combination this

theorem r124_r2None_fh_reduced (ρ : String → ℝ) (α : ℝ) (hs : Real.sin α ≠ 0) (h1 : Real.cos α ≠ 1)
    (h4 : ρ "r4" = 0) (hi : ρ "indent" = 0)
    (hres : Expr.eval (upd ρ "_x0" α) r124_r2None_fh_res0 = 0) :
    ρ "depth" = Real.tan (α / 2) * (ρ "width" / 2 + ρ "r1" * Real.tan ((α + ρ "pad_angle") / 2))
      + ρ "flank_height" * (1 - Real.tan (α / 2) / Real.tan α) := by
  simp only [r124_r2None_fh_res0] at hres
  norm_env
  simp only [h4, hi, add_zero, zero_div, sub_zero, Real.arccos_one, Real.sin_zero, mul_zero] at hres
  have h1c : 1 - Real.cos α ≠ 0 := sub_ne_zero.mpr (Ne.symm h1)
  generalize hQ : (ρ "depth" - ρ "r1" * Real.tan ((α + ρ "pad_angle") / 2) * Real.sin α
    - ρ "flank_height") / (1 - Real.cos α) = Q at hres
  have e1 : Q * (1 - Real.cos α) = ρ "depth" - ρ "r1" * Real.tan ((α + ρ "pad_angle") / 2) * Real.sin α
      - ρ "flank_height" := by
    rw [← hQ]; field_simp
  have := r2None_reduce (ρ "width") (ρ "depth") (ρ "r1" * Real.tan ((α + ρ "pad_angle") / 2))
    (ρ "flank_height" / Real.tan α) (ρ "flank_height") α Q hs e1 (by linear_combination hres)
  rw [this]; ring

/-- **uniqueness, `r2 is None`, no flank** (Round, CircularOval): depth and usable width determine the flank angle -/
theorem r124_r2None_free_root_unique (ρ : String → ℝ) (α β : ℝ) (hr1 : 0 ≤ ρ "r1") (hw : 0 < ρ "width")
    (hp0 : 0 ≤ ρ "pad_angle") (hp1 : ρ "pad_angle" < Real.pi / 2) (h4 : ρ "r4" = 0) (hi : ρ "indent" = 0)
    (hα0 : 0 < α) (hα1 : α < Real.pi / 2) (hβ0 : 0 < β) (hβ1 : β < Real.pi / 2)
    (hα : Expr.eval (upd ρ "_x0" α) r124_r2None_free_res0 = 0)
    (hβ : Expr.eval (upd ρ "_x0" β) r124_r2None_free_res0 = 0) : α = β := by
  obtain ⟨sa, ca⟩ := sin_ne_zero_cos_ne_one α hα0 hα1
  obtain ⟨sb, cb⟩ := sin_ne_zero_cos_ne_one β hβ0 hβ1
  have ea := r124_r2None_free_reduced ρ α sa ca h4 hi hα
  have eb := r124_r2None_free_reduced ρ β sb cb h4 hi hβ
  rcases lt_trichotomy α β with h | h | h
  · exfalso
    have c := r124_r2None_core_strictMono (ρ "r1") (ρ "width" / 2) (ρ "pad_angle") α β hr1 (by linarith) hp0 hp1 hα0 h hβ1
    linarith
  · exact h
  · exfalso
    have c := r124_r2None_core_strictMono (ρ "r1") (ρ "width" / 2) (ρ "pad_angle") β α hr1 (by linarith) hp0 hp1 hβ0 h hα1
    linarith

theorem r124_r2None_fl_root_unique (ρ : String → ℝ) (α β : ℝ) (hr1 : 0 ≤ ρ "r1") (hw : 0 < ρ "width")
    (hf : 0 ≤ ρ "flank_length")
    (hp0 : 0 ≤ ρ "pad_angle") (hp1 : ρ "pad_angle" < Real.pi / 2) (h4 : ρ "r4" = 0) (hi : ρ "indent" = 0)
    (hα0 : 0 < α) (hα1 : α < Real.pi / 2) (hβ0 : 0 < β) (hβ1 : β < Real.pi / 2)
    (hα : Expr.eval (upd ρ "_x0" α) r124_r2None_fl_res0 = 0)
    (hβ : Expr.eval (upd ρ "_x0" β) r124_r2None_fl_res0 = 0) : α = β := by
  obtain ⟨sa, ca⟩ := sin_ne_zero_cos_ne_one α hα0 hα1
  obtain ⟨sb, cb⟩ := sin_ne_zero_cos_ne_one β hβ0 hβ1
  have ea := r124_r2None_fl_reduced ρ α sa ca h4 hi hα
  have eb := r124_r2None_fl_reduced ρ β sb cb h4 hi hβ
  rcases lt_trichotomy α β with h | h | h
  · exfalso
    have c := r124_r2None_core_strictMono (ρ "r1") (ρ "width" / 2 + ρ "flank_length") (ρ "pad_angle") α β hr1
      (by linarith) hp0 hp1 hα0 h hβ1
    linarith
  · exact h
  · exfalso
    have c := r124_r2None_core_strictMono (ρ "r1") (ρ "width" / 2 + ρ "flank_length") (ρ "pad_angle") β α hr1
      (by linarith) hp0 hp1 hβ0 h hα1
    linarith

theorem r124_r2None_fw_root_unique (ρ : String → ℝ) (α β : ℝ) (hr1 : 0 ≤ ρ "r1") (hw : 0 < ρ "width")
    (hf : 0 ≤ ρ "flank_width")
    (hp0 : 0 ≤ ρ "pad_angle") (hp1 : ρ "pad_angle" < Real.pi / 2) (h4 : ρ "r4" = 0) (hi : ρ "indent" = 0)
    (hα0 : 0 < α) (hα1 : α < Real.pi / 2) (hβ0 : 0 < β) (hβ1 : β < Real.pi / 2)
    (hα : Expr.eval (upd ρ "_x0" α) r124_r2None_fw_res0 = 0)
    (hβ : Expr.eval (upd ρ "_x0" β) r124_r2None_fw_res0 = 0) : α = β := by
  obtain ⟨sa, ca⟩ := sin_ne_zero_cos_ne_one α hα0 hα1
  obtain ⟨sb, cb⟩ := sin_ne_zero_cos_ne_one β hβ0 hβ1
  have ea := r124_r2None_fw_reduced ρ α sa ca h4 hi hα
  have eb := r124_r2None_fw_reduced ρ β sb cb h4 hi hβ
  rcases lt_trichotomy α β with h | h | h
  · exfalso
    have c := r124_r2None_core_strictMono (ρ "r1") (ρ "width" / 2) (ρ "pad_angle") α β hr1 (by linarith) hp0 hp1 hα0 h hβ1
    have e := mul_le_mul_of_nonneg_left (tan_sub_half_strictMono α β hα0 h hβ1).le hf
    linarith
  · exact h
  · exfalso
    have c := r124_r2None_core_strictMono (ρ "r1") (ρ "width" / 2) (ρ "pad_angle") β α hr1 (by linarith) hp0 hp1 hβ0 h hα1
    have e := mul_le_mul_of_nonneg_left (tan_sub_half_strictMono β α hβ0 h hα1).le hf
    linarith

theorem r124_r2None_fh_root_unique (ρ : String → ℝ) (α β : ℝ) (hr1 : 0 ≤ ρ "r1") (hw : 0 < ρ "width")
    (hf : 0 ≤ ρ "flank_height")
    (hp0 : 0 ≤ ρ "pad_angle") (hp1 : ρ "pad_angle" < Real.pi / 2) (h4 : ρ "r4" = 0) (hi : ρ "indent" = 0)
    (hα0 : 0 < α) (hα1 : α < Real.pi / 2) (hβ0 : 0 < β) (hβ1 : β < Real.pi / 2)
    (hα : Expr.eval (upd ρ "_x0" α) r124_r2None_fh_res0 = 0)
    (hβ : Expr.eval (upd ρ "_x0" β) r124_r2None_fh_res0 = 0) : α = β := by
  obtain ⟨sa, ca⟩ := sin_ne_zero_cos_ne_one α hα0 hα1
  obtain ⟨sb, cb⟩ := sin_ne_zero_cos_ne_one β hβ0 hβ1
  have ea := r124_r2None_fh_reduced ρ α sa ca h4 hi hα
  have eb := r124_r2None_fh_reduced ρ β sb cb h4 hi hβ
  rcases lt_trichotomy α β with h | h | h
  · exfalso
    have c := r124_r2None_core_strictMono (ρ "r1") (ρ "width" / 2) (ρ "pad_angle") α β hr1 (by linarith) hp0 hp1 hα0 h hβ1
    have e := mul_le_mul_of_nonneg_left (one_sub_half_div_strictMono α β hα0 h hβ1).le hf
    linarith
  · exact h
  · exfalso
    have c := r124_r2None_core_strictMono (ρ "r1") (ρ "width" / 2) (ρ "pad_angle") β α hr1 (by linarith) hp0 hp1 hβ0 h hα1
    have e := mul_le_mul_of_nonneg_left (one_sub_half_div_strictMono β α hβ0 h hα1).le hf
    linarith

end r2None_unique

/-! ## the one-radius groove without flank (Round, CircularOval): one relation for all three defining pairs,
       every `r1 ≥ 0` - the sharp edge `r1 = 0` is not excluded - and every pad angle

`RoundRel r1 p w d r α`: the r2 arc turns by `α` from the groove centre and meets the tangent of the face fillet `r1`
(tangent length `l = r1·tan((α+p)/2)`; `l = 0` for the sharp edge, where the arc itself ends in the face corner). -/
section round

/-- half usable width and depth of a flank-free one-radius groove in terms of `r2 = r` and the flank angle `α` -/
def RoundRel (r1 p w d r α : ℝ) : Prop :=
  w / 2 = r * Real.sin α + r1 * Real.tan ((α + p) / 2) * Real.cos α ∧
  d = r * (1 - Real.cos α) + r1 * Real.tan ((α + p) / 2) * Real.sin α

abbrev RoundRelOf (ρ : String → ℝ) (w d r a : Expr) : Prop :=
  RoundRel (ρ "r1") (ρ "pad_angle") (Expr.eval ρ w) (Expr.eval ρ d) (Expr.eval ρ r) (Expr.eval ρ a)

variable (ρ : String → ℝ)

/-- each of the three defining pairs resolves to a tuple satisfying the same relation: (r2, depth) given … -/
theorem r124_free_consistent_widthNone (hs : Real.sin (ρ "root") ≠ 0) (hc : Real.cos (ρ "root") ≠ 0)
    (h4 : ρ "r4" = 0) (hi : ρ "indent" = 0)
    (hres : Expr.eval (upd ρ "_x0" (ρ "root")) r124_widthNone_free_res0 = 0) :
    RoundRelOf ρ r124_widthNone_free_width r124_widthNone_free_depth r124_widthNone_free_r2 r124_widthNone_free_alpha := by
  simp only [RoundRelOf, RoundRel, r124_widthNone_free_res0, r124_widthNone_free_width, r124_widthNone_free_depth,
    r124_widthNone_free_r2, r124_widthNone_free_alpha] at *
  norm_env
  simp only [h4, hi, add_zero, zero_div, sub_zero, Real.arccos_one, Real.sin_zero, mul_zero] at *
  have e : ρ "depth" - ρ "r2" * (1 - Real.cos (ρ "root"))
      = ρ "r1" * Real.tan ((ρ "root" + ρ "pad_angle") / 2) * Real.sin (ρ "root") := by linear_combination hres
  refine ⟨?_, by linear_combination hres⟩
  rw [e, Real.tan_eq_sin_div_cos (ρ "root")]
  field_simp

/-- … (r2, usable width) given … -/
theorem r124_free_consistent_depthNone (hc : Real.cos (ρ "root") ≠ 0)
    (h4 : ρ "r4" = 0) (hi : ρ "indent" = 0)
    (hres : Expr.eval (upd ρ "_x0" (ρ "root")) r124_depthNone_free_res0 = 0) :
    RoundRelOf ρ r124_depthNone_free_width r124_depthNone_free_depth r124_depthNone_free_r2 r124_depthNone_free_alpha := by
  simp only [RoundRelOf, RoundRel, r124_depthNone_free_res0, r124_depthNone_free_width, r124_depthNone_free_depth,
    r124_depthNone_free_r2, r124_depthNone_free_alpha] at *
  norm_env
  simp only [h4, hi, add_zero, zero_div, sub_zero, Real.arccos_one, Real.sin_zero, mul_zero] at *
  have e : ρ "width" / 2 - ρ "r2" * Real.sin (ρ "root")
      = ρ "r1" * Real.tan ((ρ "root" + ρ "pad_angle") / 2) * Real.cos (ρ "root") := by linear_combination hres
  refine ⟨by linear_combination hres, ?_⟩
  rw [e, Real.tan_eq_sin_div_cos (ρ "root")]
  field_simp

/-- … (depth, usable width) given: root of the residual for the angle, fixed point for `r2` -/
theorem r124_free_consistent_r2None (hc : Real.cos (ρ "root") ≠ 0) (h1 : Real.cos (ρ "root") ≠ 1)
    (h4 : ρ "r4" = 0) (hi : ρ "indent" = 0)
    (hres : Expr.eval (upd ρ "_x0" (ρ "root")) r124_r2None_free_res0 = 0)
    (hfp : ρ "fp" = Expr.eval (upd ρ "_x0" (ρ "fp")) r124_r2None_free_o2_map0) :
    RoundRelOf ρ r124_r2None_free_width r124_r2None_free_depth r124_r2None_free_r2 r124_r2None_free_alpha := by
  simp only [RoundRelOf, RoundRel, r124_r2None_free_res0, r124_r2None_free_o2_map0, r124_r2None_free_width,
    r124_r2None_free_depth, r124_r2None_free_r2, r124_r2None_free_alpha] at *
  norm_env
  simp only [h4, hi, add_zero, zero_div, sub_zero, Real.arccos_one, Real.sin_zero, mul_zero] at *
  have hD := den_ne_zero (ρ "root") hc h1
  have h1c : 1 - Real.cos (ρ "root") ≠ 0 := sub_ne_zero.mpr (Ne.symm h1)
  have k : ρ "r1" * Real.tan ((ρ "root" + ρ "pad_angle") / 2) * Real.cos (ρ "root") * Real.tan (ρ "root")
      = ρ "r1" * Real.tan ((ρ "root" + ρ "pad_angle") / 2) * Real.sin (ρ "root") := by
    rw [Real.tan_eq_sin_div_cos (ρ "root")]; field_simp
  have e3 : ρ "fp" * (1 - Real.cos (ρ "root") - Real.sin (ρ "root") * Real.tan (ρ "root"))
      = ρ "depth" - ρ "width" / 2 * Real.tan (ρ "root") := (eq_div_iff hD).mp hfp
  generalize hQ : (ρ "depth" - ρ "r1" * Real.tan ((ρ "root" + ρ "pad_angle") / 2) * Real.sin (ρ "root"))
    / (1 - Real.cos (ρ "root")) = Q at hres
  have e1 : Q * (1 - Real.cos (ρ "root"))
      = ρ "depth" - ρ "r1" * Real.tan ((ρ "root" + ρ "pad_angle") / 2) * Real.sin (ρ "root") := by
    rw [← hQ]; field_simp
  have e2 : ρ "width" / 2 = Q * Real.sin (ρ "root")
      + ρ "r1" * Real.tan ((ρ "root" + ρ "pad_angle") / 2) * Real.cos (ρ "root") := by linear_combination hres
  have hq : (ρ "fp" - Q) * (1 - Real.cos (ρ "root") - Real.sin (ρ "root") * Real.tan (ρ "root")) = 0 := by
    linear_combination e3 - e1 - Real.tan (ρ "root") * e2 - k
  have hfq : ρ "fp" = Q := by
    rcases mul_eq_zero.mp hq with h | h
    · linarith
    · exact absurd h hD
  rw [hfq]
  exact ⟨e2, by linear_combination (-1 : ℝ) * e1⟩

end round

section round_unique
variable (r1 p w w' d d' r r' α β : ℝ)

/-- `r2` and `depth` determine the angle and the usable width (`r1 ≥ 0`: also for the sharp edge) -/
theorem roundRel_of_r_d (hr1 : 0 ≤ r1) (hr : 0 < r) (hp0 : 0 ≤ p) (hp1 : p < Real.pi / 2)
    (hα0 : 0 < α) (hα1 : α < Real.pi / 2) (hβ0 : 0 < β) (hβ1 : β < Real.pi / 2)
    (A : RoundRel r1 p w d r α) (B : RoundRel r1 p w' d r β) : α = β ∧ w = w' := by
  obtain ⟨a1, a2⟩ := A
  obtain ⟨b1, b2⟩ := B
  have hab : α = β := by
    rcases lt_trichotomy α β with h | h | h
    · exfalso
      have c := r124_core_strictMono r1 r p α β hr1 hr hp0 hp1 hα0 h hβ1
      linarith
    · exact h
    · exfalso
      have c := r124_core_strictMono r1 r p β α hr1 hr hp0 hp1 hβ0 h hα1
      linarith
  subst hab
  exact ⟨rfl, by linarith⟩

/-- `depth` and usable width determine the angle and `r2` (`r1 ≥ 0`: also for the sharp edge) -/
theorem roundRel_of_d_w (hr1 : 0 ≤ r1) (hw : 0 < w) (hp0 : 0 ≤ p) (hp1 : p < Real.pi / 2)
    (hα0 : 0 < α) (hα1 : α < Real.pi / 2) (hβ0 : 0 < β) (hβ1 : β < Real.pi / 2)
    (A : RoundRel r1 p w d r α) (B : RoundRel r1 p w d r' β) : α = β ∧ r = r' := by
  obtain ⟨a1, a2⟩ := A
  obtain ⟨b1, b2⟩ := B
  obtain ⟨sa, ca⟩ := sin_ne_zero_cos_ne_one α hα0 hα1
  obtain ⟨sb, cb⟩ := sin_ne_zero_cos_ne_one β hβ0 hβ1
  have ea := r2None_reduce w d (r1 * Real.tan ((α + p) / 2)) 0 0 α r sa (by linear_combination (-1 : ℝ) * a2)
    (by linear_combination a1)
  have eb := r2None_reduce w d (r1 * Real.tan ((β + p) / 2)) 0 0 β r' sb (by linear_combination (-1 : ℝ) * b2)
    (by linear_combination b1)
  have hab : α = β := by
    rcases lt_trichotomy α β with h | h | h
    · exfalso
      have c := r124_r2None_core_strictMono r1 (w / 2) p α β hr1 (by linarith) hp0 hp1 hα0 h hβ1
      linarith
    · exact h
    · exfalso
      have c := r124_r2None_core_strictMono r1 (w / 2) p β α hr1 (by linarith) hp0 hp1 hβ0 h hα1
      linarith
  subst hab
  refine ⟨rfl, ?_⟩
  have h1c : 1 - Real.cos α ≠ 0 := sub_ne_zero.mpr (Ne.symm ca)
  have : (r - r') * (1 - Real.cos α) = 0 := by linear_combination b2 - a2
  rcases mul_eq_zero.mp this with h | h
  · linarith
  · exact absurd h h1c

/-- the sharp-edged round (`r1 = 0`): the face corner `(w/2, 0)` lies on the r2 circle around `(0, d − r)`, whatever the
    pad angle; this is the chord relation `(w/2)² + (r − d)² = r²` -/
theorem roundRel_sharp_chord (A : RoundRel 0 p w d r α) : (w / 2) ^ 2 + (r - d) ^ 2 = r ^ 2 := by
  obtain ⟨a1, a2⟩ := A
  rw [a1, a2]
  linear_combination (r ^ 2) * Real.sin_sq_add_cos_sq α

/-- the sharp-edged round: `tan(α/2) = depth / (w/2)` - the closed form of the flank angle when `r2` is the unknown
    (for `r1 > 0`, `p = 0` the same elimination gives `r1·t² + (w/2)·t − depth = 0`, see `roundRel_quadratic`) -/
theorem roundRel_sharp_angle (hw : w ≠ 0) (hα0 : 0 < α) (hα1 : α < Real.pi / 2) (A : RoundRel 0 p w d r α) :
    Real.tan (α / 2) = 2 * d / w := by
  obtain ⟨a1, a2⟩ := A
  obtain ⟨sa, ca⟩ := sin_ne_zero_cos_ne_one α hα0 hα1
  have ea := r2None_reduce w d (0 * Real.tan ((α + p) / 2)) 0 0 α r sa (by linear_combination (-1 : ℝ) * a2)
    (by linear_combination a1)
  field_simp
  linear_combination (-2 : ℝ) * ea

theorem roundRel_quadratic (hα0 : 0 < α) (hα1 : α < Real.pi / 2) (A : RoundRel r1 0 w d r α) :
    r1 * Real.tan (α / 2) ^ 2 + w / 2 * Real.tan (α / 2) - d = 0 := by
  obtain ⟨a1, a2⟩ := A
  obtain ⟨sa, ca⟩ := sin_ne_zero_cos_ne_one α hα0 hα1
  rw [add_zero] at a1 a2
  have ea := r2None_reduce w d (r1 * Real.tan (α / 2)) 0 0 α r sa (by linear_combination (-1 : ℝ) * a2)
    (by linear_combination a1)
  linear_combination (-1 : ℝ) * ea

end round_unique

/-! ### cross-subset: a groove of this family re-built from another defining pair filled with its own values

Whatever produced the tuple `(w, d, r, α)` (any of the three patterns: `r124_free_consistent_*`), feeding `(r, d)` to the
`width is None` pattern or `(d, w)` to the `r2 is None` pattern returns the tuple - provided the root finder keeps its
contract (a root in the bracket).  The third direction, `(r, w)` into `depth is None`, is genuinely ambiguous
(`r·sin α + l·cos α` is not monotone), see notes/C04.md. -/
section round_cross
variable (ρ : String → ℝ) (w d r α : ℝ)

theorem r124_free_roundtrip_widthNone (h : RoundRel (ρ "r1") (ρ "pad_angle") w d r α)
    (h1 : ρ "r2" = r) (h2 : ρ "depth" = d) (h4 : ρ "r4" = 0) (hi : ρ "indent" = 0)
    (hr1 : 0 ≤ ρ "r1") (hr : 0 < r) (hp0 : 0 ≤ ρ "pad_angle") (hp1 : ρ "pad_angle" < Real.pi / 2)
    (hα0 : 0 < α) (hα1 : α < Real.pi / 2) (hr0 : 0 < ρ "root") (hr1' : ρ "root" < Real.pi / 2)
    (hres : Expr.eval (upd ρ "_x0" (ρ "root")) r124_widthNone_free_res0 = 0) :
    Expr.eval ρ r124_widthNone_free_width = w ∧ Expr.eval ρ r124_widthNone_free_depth = d ∧
    Expr.eval ρ r124_widthNone_free_r2 = r ∧ Expr.eval ρ r124_widthNone_free_alpha = α := by
  have hpi := Real.pi_pos
  have hs : Real.sin (ρ "root") ≠ 0 := (Real.sin_pos_of_pos_of_lt_pi hr0 (by linarith)).ne'
  have hc : Real.cos (ρ "root") ≠ 0 := (Real.cos_pos_of_mem_Ioo ⟨by linarith, hr1'⟩).ne'
  have R := r124_free_consistent_widthNone ρ hs hc h4 hi hres
  simp only [RoundRelOf] at R
  have e2 : Expr.eval ρ r124_widthNone_free_depth = d := by simp only [r124_widthNone_free_depth, Expr.eval]; exact h2
  have e3 : Expr.eval ρ r124_widthNone_free_r2 = r := by simp only [r124_widthNone_free_r2, Expr.eval]; exact h1
  have e4 : Expr.eval ρ r124_widthNone_free_alpha = ρ "root" := by simp only [r124_widthNone_free_alpha, Expr.eval]
  rw [e2, e3, e4] at R
  obtain ⟨ha, hw⟩ := roundRel_of_r_d _ _ _ _ _ _ _ _ hr1 hr hp0 hp1 hr0 hr1' hα0 hα1 R h
  exact ⟨hw, e2, e3, by rw [e4, ha]⟩

theorem r124_free_roundtrip_r2None (h : RoundRel (ρ "r1") (ρ "pad_angle") w d r α)
    (h1 : ρ "width" = w) (h2 : ρ "depth" = d) (h4 : ρ "r4" = 0) (hi : ρ "indent" = 0)
    (hr1 : 0 ≤ ρ "r1") (hw : 0 < w) (hp0 : 0 ≤ ρ "pad_angle") (hp1 : ρ "pad_angle" < Real.pi / 2)
    (hα0 : 0 < α) (hα1 : α < Real.pi / 2) (hr0 : 0 < ρ "root") (hr1' : ρ "root" < Real.pi / 2)
    (hres : Expr.eval (upd ρ "_x0" (ρ "root")) r124_r2None_free_res0 = 0)
    (hfp : ρ "fp" = Expr.eval (upd ρ "_x0" (ρ "fp")) r124_r2None_free_o2_map0) :
    Expr.eval ρ r124_r2None_free_width = w ∧ Expr.eval ρ r124_r2None_free_depth = d ∧
    Expr.eval ρ r124_r2None_free_r2 = r ∧ Expr.eval ρ r124_r2None_free_alpha = α := by
  have hpi := Real.pi_pos
  have hc : Real.cos (ρ "root") ≠ 0 := (Real.cos_pos_of_mem_Ioo ⟨by linarith, hr1'⟩).ne'
  obtain ⟨-, c1⟩ := sin_ne_zero_cos_ne_one (ρ "root") hr0 hr1'
  have R := r124_free_consistent_r2None ρ hc c1 h4 hi hres hfp
  simp only [RoundRelOf] at R
  have e1 : Expr.eval ρ r124_r2None_free_width = w := by simp only [r124_r2None_free_width, Expr.eval]; exact h1
  have e2 : Expr.eval ρ r124_r2None_free_depth = d := by simp only [r124_r2None_free_depth, Expr.eval]; exact h2
  have e4 : Expr.eval ρ r124_r2None_free_alpha = ρ "root" := by simp only [r124_r2None_free_alpha, Expr.eval]
  rw [e1, e2, e4] at R
  obtain ⟨ha, hr⟩ := roundRel_of_d_w _ _ _ _ _ _ _ _ hr1 hw hp0 hp1 hr0 hr1' hα0 hα1 R h
  exact ⟨e1, e2, hr, by rw [e4, ha]⟩

end round_cross

/-! ## `solve_r1234` with the flank angle given: the full closure statement is FALSE, and by exactly how much

`r1234_fa_closure_full` (C04.lean) was kept as an unproved `Prop`.  The residual of this branch takes its flank width from
`solve_r123` (no constriction): the terms `(r3+r4)·sin α4` and `sin(α3−α4)` of the constricted chain are missing.  Proved
here: at a root of the residual the chain ends with a step of exactly `tan(fa)·D`,
`D = (r3+r4)·sin α4 + (r3−r2)·(sin(α3−α4) − sin α3)`; so the branch closes iff `D = 0` (e.g. without constriction), and the
full statement is refuted by a concrete environment (45° flank, α2 = 15°, α3 = 60°, α4 = 30°, all radii 1, sharp edge):
step = 1.  No groove class reaches the branch (`plumbing_calls`). -/
section r1234_fa

/-- the defect of the residual: what the flank width of the traced chain has and `_fw` of the code lacks -/
noncomputable def faDefect (σ : String → ℝ) : ℝ :=
  (σ "r3" + σ "r4") * Real.sin (σ "alpha4")
    + (σ "r3" - σ "r2") * (Real.sin (σ "alpha3" - σ "alpha4") - Real.sin (σ "alpha3"))

theorem r1234_fa_step_exact (ρ σ : String → ℝ)
    (L : Link1234 r1234_fa_flank_angle r1234_fa_alpha3 r1234_fa_alpha4 ρ σ)
    (A : AngleOK (ρ "flank_angle") (ρ "pad_angle"))
    (hres0 : Expr.eval (upd (upd ρ "_x0" (ρ "root0")) "_x1" (ρ "root1")) r1234_fa_res0 = 0)
    (hres1 : Expr.eval (upd (upd ρ "_x0" (ρ "root0")) "_x1" (ρ "root1")) r1234_fa_res1 = 0) :
    stepAt4 σ = Real.tan (σ "flank_angle") * faDefect σ := by
  obtain ⟨l1, l2, l3, l4, l5, l6, l7, l8, l9, l10, l11⟩ := L
  simp only [r1234_fa_res0, r1234_fa_res1, r1234_fa_flank_angle, r1234_fa_alpha3, r1234_fa_alpha4] at *
  norm_env
  have hh' : Real.cos ((σ "flank_angle" + σ "pad_angle") / 2) ≠ 0 := by rw [l9, l2]; exact A.h
  simp only [stepAt4, faDefect]
  rw [eval_z3 σ hh', eval_y3 σ hh', z4_closed, y4_closed]
  simp only [lt, l1, l2, l3, l4, l5, l6, l7, l8, l9, l10, l11, Real.sin_pi_div_two_sub, Real.cos_pi_div_two_sub] at *
  have e : ρ "root1" - (ρ "root0" + ρ "root1" - ρ "flank_angle") = ρ "flank_angle" - ρ "root0" := by ring
  rw [e] at hres0 ⊢
  linear_combination hres0 - hres1

/-- the branch closes exactly when the defect vanishes -/
theorem r1234_fa_noStep_iff (ρ σ : String → ℝ)
    (L : Link1234 r1234_fa_flank_angle r1234_fa_alpha3 r1234_fa_alpha4 ρ σ)
    (A : AngleOK (ρ "flank_angle") (ρ "pad_angle"))
    (hres0 : Expr.eval (upd (upd ρ "_x0" (ρ "root0")) "_x1" (ρ "root1")) r1234_fa_res0 = 0)
    (hres1 : Expr.eval (upd (upd ρ "_x0" (ρ "root0")) "_x1" (ρ "root1")) r1234_fa_res1 = 0) :
    NoStep σ ↔ faDefect σ = 0 := by
  have hfa : σ "flank_angle" = ρ "flank_angle" := by
    have := L.fa; simpa [r1234_fa_flank_angle, Expr.eval] using this
  have ht : Real.tan (σ "flank_angle") ≠ 0 := by
    rw [hfa, Real.tan_eq_sin_div_cos]; exact div_ne_zero A.s A.c
  rw [noStep_iff_step_zero, r1234_fa_step_exact ρ σ L A hres0 hres1]
  constructor
  · intro h; rcases mul_eq_zero.mp h with h | h
    · exact absurd h ht
    · exact h
  · intro h; rw [h, mul_zero]

/-- … in particular when the root has no constriction (`alpha4 = root0 + root1 − flank_angle = 0`): then the full
    statement holds -/
theorem r1234_fa_closure_unconstricted (ρ σ : String → ℝ)
    (L : Link1234 r1234_fa_flank_angle r1234_fa_alpha3 r1234_fa_alpha4 ρ σ)
    (A : AngleOK (ρ "flank_angle") (ρ "pad_angle")) (h0 : ρ "root0" + ρ "root1" = ρ "flank_angle")
    (hres0 : Expr.eval (upd (upd ρ "_x0" (ρ "root0")) "_x1" (ρ "root1")) r1234_fa_res0 = 0)
    (hres1 : Expr.eval (upd (upd ρ "_x0" (ρ "root0")) "_x1" (ρ "root1")) r1234_fa_res1 = 0) :
    NoStep σ ∧ Expr.eval σ y10 + σ "r3" = σ "depth" := by
  refine ⟨(r1234_fa_noStep_iff ρ σ L A hres0 hres1).mpr ?_, (r1234_fa_closure_partial ρ σ L hres1).2⟩
  have ha4 : σ "alpha4" = 0 := by
    have := L.a4; simp only [r1234_fa_alpha4, Expr.eval] at this; rw [this, h0]; ring
  simp only [faDefect, ha4, Real.sin_zero, sub_zero, mul_zero, sub_self, add_zero]

/-- the canonical `σ` of a `Link1234` (no even ground) -/
noncomputable def mk1234 (fa a3 a4 : Expr) (ρ : String → ℝ) : String → ℝ := fun n =>
  if n = "r1" then ρ "r1" else if n = "pad_angle" then ρ "pad_angle" else if n = "r2" then ρ "r2"
  else if n = "r3" then ρ "r3" else if n = "r4" then ρ "r4" else if n = "depth" then ρ "depth"
  else if n = "indent" then ρ "indent" else if n = "usable_width" then ρ "width"
  else if n = "flank_angle" then Expr.eval ρ fa else if n = "alpha3" then Expr.eval ρ a3
  else if n = "alpha4" then Expr.eval ρ a4 else 0

theorem link1234_mk (fa a3 a4 : Expr) (ρ : String → ℝ) : Link1234 fa a3 a4 ρ (mk1234 fa a3 a4 ρ) := by
  constructor <;> simp [mk1234]

/-- the witness: flank angle 45°, (α2, α3) = (15°, 60°) hence α4 = 30°; r2 = r3 = r4 = 1, sharp edge, depth 1; width and
    indent are what makes the two components of the residual vanish -/
noncomputable def faWitness : String → ℝ :=
  env [("flank_angle", Real.pi / 4), ("root0", Real.pi / 12), ("root1", Real.pi / 3), ("r2", 1), ("r3", 1), ("r4", 1),
    ("depth", 1), ("width", 2 * (Real.cos (Real.pi / 4) + Real.sin (Real.pi / 4))),
    ("indent", (1 + 1) * (1 - Real.cos (Real.pi / 12 + Real.pi / 3 - Real.pi / 4)))]

theorem faWitness_root :
    Expr.eval (upd (upd faWitness "_x0" (faWitness "root0")) "_x1" (faWitness "root1")) r1234_fa_res0 = 0 ∧
    Expr.eval (upd (upd faWitness "_x0" (faWitness "root0")) "_x1" (faWitness "root1")) r1234_fa_res1 = 0 := by
  constructor
  · simp only [r1234_fa_res0, faWitness]; norm_ex
    rw [Real.sin_pi_div_two_sub, Real.cos_pi_div_two_sub, Real.tan_pi_div_four]; ring
  · simp only [r1234_fa_res1, faWitness]; norm_ex; ring

theorem faWitness_angle : AngleOK (faWitness "flank_angle") (faWitness "pad_angle") := by
  have h1 : faWitness "flank_angle" = Real.pi / 4 := by simp [faWitness, env, List.lookup]
  have h2 : faWitness "pad_angle" = 0 := by simp [faWitness, env, List.lookup]
  rw [h1, h2]
  exact AngleOK.of_range (by positivity) (by linarith [Real.pi_pos]) le_rfl (by positivity)

/-- at the witness the chain ends one unit above the flank line -/
theorem faWitness_step :
    stepAt4 (mk1234 r1234_fa_flank_angle r1234_fa_alpha3 r1234_fa_alpha4 faWitness) = 1 := by
  rw [r1234_fa_step_exact faWitness _ (link1234_mk _ _ _ _) faWitness_angle faWitness_root.1 faWitness_root.2]
  simp only [faDefect, mk1234, r1234_fa_flank_angle, r1234_fa_alpha3, r1234_fa_alpha4, faWitness]
  norm_ex
  rw [show Real.pi / 12 + Real.pi / 3 - Real.pi / 4 = Real.pi / 6 by ring, Real.tan_pi_div_four, Real.sin_pi_div_six]
  norm_num

/-- **the full closure statement of the `flank_angle`-given branch of `solve_r1234` is false** -/
theorem r1234_fa_closure_full_false : ¬ r1234_fa_closure_full := by
  intro h
  obtain ⟨hn, -⟩ := h faWitness _ (link1234_mk _ _ _ _) faWitness_angle faWitness_root.1 faWitness_root.2
  have := (noStep_iff_step_zero _).mp hn
  rw [faWitness_step] at this
  norm_num at this

end r1234_fa

/-! ## `solve_r123` with the flank angle given: uniqueness of the root -/
section r123_fa

/-- `solve_r123` with the flank angle given (Oval3RadiiFlanked): the residual in `alpha2` is
    `const + (r3 − r2)·cos(alpha2)/cos(flank_angle)` - strictly monotone on `(0, π)` unless `r3 = r2` (then the two arcs
    are one circle and the split of the turning between them is immaterial) -/
theorem r123_fa_root_unique (ρ : String → ℝ) (α β : ℝ) (h32 : ρ "r3" ≠ ρ "r2") (hc : Real.cos (ρ "flank_angle") ≠ 0)
    (hα0 : 0 ≤ α) (hα1 : α ≤ Real.pi) (hβ0 : 0 ≤ β) (hβ1 : β ≤ Real.pi)
    (hα : Expr.eval (upd ρ "_x0" α) r123_fa_res0 = 0) (hβ : Expr.eval (upd ρ "_x0" β) r123_fa_res0 = 0) : α = β := by
  simp only [r123_fa_res0] at hα hβ
  norm_env
  have id : ∀ x : ℝ, Real.cos (ρ "flank_angle" - x) + Real.sin (ρ "flank_angle" - x) * Real.tan (ρ "flank_angle")
      = Real.cos x / Real.cos (ρ "flank_angle") := by
    intro x
    rw [Real.tan_eq_sin_div_cos, Real.cos_sub, Real.sin_sub]
    field_simp
    linear_combination (Real.cos x) * Real.sin_sq_add_cos_sq (ρ "flank_angle")
  have d : (ρ "r3" - ρ "r2") * ((Real.cos (ρ "flank_angle" - α) + Real.sin (ρ "flank_angle" - α) * Real.tan (ρ "flank_angle"))
      - (Real.cos (ρ "flank_angle" - β) + Real.sin (ρ "flank_angle" - β) * Real.tan (ρ "flank_angle"))) = 0 := by
    linear_combination hα - hβ
  rw [id α, id β] at d
  have key : (ρ "r3" - ρ "r2") * (Real.cos α - Real.cos β) = 0 := by
    field_simp at d
    linear_combination d
  rcases mul_eq_zero.mp key with h | h
  · exact absurd (sub_eq_zero.mp h) h32
  · exact Real.injOn_cos ⟨hα0, hα1⟩ ⟨hβ0, hβ1⟩ (sub_eq_zero.mp h)

end r123_fa

/-! ## non-vacuity: concrete environments (sharp edge `r1 = 0` throughout, unless stated) -/
section examples

theorem cos_quarter_ne_one : Real.cos (Real.pi / 4) ≠ 1 :=
  (sin_ne_zero_cos_ne_one (Real.pi / 4) (by positivity) (by linarith [Real.pi_pos])).2

/-- the sharp-edged round of radius 1 turned by 45°: `RoundRel` holds with `r1 = 0` (hypothesis of `roundRel_of_r_d`,
    `roundRel_of_d_w`, `roundRel_sharp_chord`, `roundRel_sharp_angle`, `r124_free_roundtrip_*`) -/
example : RoundRel 0 0 (2 * Real.sin (Real.pi / 4)) (1 - Real.cos (Real.pi / 4)) 1 (Real.pi / 4) := by
  constructor <;> simp

/-- `roundRel_quadratic`: the same round with a fillet `r1 = 1` on a two-roll face (`p = 0`) -/
example : RoundRel 1 0 (2 * (Real.sin (Real.pi / 4) + Real.tan ((Real.pi / 4 + 0) / 2) * Real.cos (Real.pi / 4)))
    ((1 - Real.cos (Real.pi / 4)) + Real.tan ((Real.pi / 4 + 0) / 2) * Real.sin (Real.pi / 4)) 1 (Real.pi / 4) := by
  constructor <;> simp

/-- hypotheses of `r124_r2None_free_reduced` / `_root_unique` / `r124_free_consistent_r2None` at the sharp edge: `r1 = 0`,
    depth and width of the round above, root 45° -/
example : ∃ ρ : String → ℝ, ρ "r1" = 0 ∧ 0 < ρ "width" ∧ ρ "r4" = 0 ∧ ρ "indent" = 0 ∧ ρ "pad_angle" = 0 ∧
    Expr.eval (upd ρ "_x0" (Real.pi / 4)) r124_r2None_free_res0 = 0 := by
  have h := cos_quarter_ne_one
  have h' : 1 - Real.cos (Real.pi / 4) ≠ 0 := sub_ne_zero.mpr (Ne.symm h)
  have hs : 0 < Real.sin (Real.pi / 4) := Real.sin_pos_of_pos_of_lt_pi (by positivity) (by linarith [Real.pi_pos])
  refine ⟨env [("depth", 1 - Real.cos (Real.pi / 4)), ("width", 2 * Real.sin (Real.pi / 4))],
    by simp [env, List.lookup], by norm_ex; linarith, by simp [env, List.lookup],
    by simp [env, List.lookup], by simp [env, List.lookup], ?_⟩
  simp only [r124_r2None_free_res0]; norm_ex
  simp only [zero_mul, sub_zero, add_zero, zero_div, Real.arccos_one, Real.sin_zero, mul_zero]
  field_simp; ring

/-- `r124_r2None_fl_*`: sharp edge, r2 = 1, flank of length 1 under 45° -/
example : ∃ ρ : String → ℝ, ρ "r1" = 0 ∧ 0 < ρ "width" ∧ 0 ≤ ρ "flank_length" ∧ ρ "r4" = 0 ∧ ρ "indent" = 0 ∧
    Expr.eval (upd ρ "_x0" (Real.pi / 4)) r124_r2None_fl_res0 = 0 := by
  have h := cos_quarter_ne_one
  have h' : 1 - Real.cos (Real.pi / 4) ≠ 0 := sub_ne_zero.mpr (Ne.symm h)
  have hs : 0 < Real.sin (Real.pi / 4) := Real.sin_pos_of_pos_of_lt_pi (by positivity) (by linarith [Real.pi_pos])
  have hc : 0 < Real.cos (Real.pi / 4) := Real.cos_pos_of_mem_Ioo ⟨by linarith [Real.pi_pos], by linarith [Real.pi_pos]⟩
  refine ⟨env [("flank_length", 1), ("depth", 1 - Real.cos (Real.pi / 4) + 1 * Real.sin (Real.pi / 4)),
      ("width", 2 * (Real.sin (Real.pi / 4) + 1 * Real.cos (Real.pi / 4)))],
    by simp [env, List.lookup], ?_, by simp [env, List.lookup], by simp [env, List.lookup], by simp [env, List.lookup], ?_⟩
  · norm_ex; linarith
  simp only [r124_r2None_fl_res0]; norm_ex
  simp only [zero_mul, sub_zero, add_zero, zero_div, Real.arccos_one, Real.sin_zero, mul_zero]
  field_simp; ring

/-- `r124_r2None_fw_*`: sharp edge, r2 = 1, flank of width 1 under 45° -/
example : ∃ ρ : String → ℝ, ρ "r1" = 0 ∧ 0 < ρ "width" ∧ 0 ≤ ρ "flank_width" ∧ ρ "r4" = 0 ∧ ρ "indent" = 0 ∧
    Expr.eval (upd ρ "_x0" (Real.pi / 4)) r124_r2None_fw_res0 = 0 := by
  have h := cos_quarter_ne_one
  have h' : 1 - Real.cos (Real.pi / 4) ≠ 0 := sub_ne_zero.mpr (Ne.symm h)
  have hs : 0 < Real.sin (Real.pi / 4) := Real.sin_pos_of_pos_of_lt_pi (by positivity) (by linarith [Real.pi_pos])
  refine ⟨env [("flank_width", 1), ("depth", 1 - Real.cos (Real.pi / 4) + 1 * Real.tan (Real.pi / 4)),
      ("width", 2 * (Real.sin (Real.pi / 4) + 1))],
    by simp [env, List.lookup], ?_, by simp [env, List.lookup], by simp [env, List.lookup], by simp [env, List.lookup], ?_⟩
  · norm_ex; linarith
  simp only [r124_r2None_fw_res0]; norm_ex
  simp only [zero_mul, sub_zero, add_zero, zero_div, Real.arccos_one, Real.sin_zero, mul_zero]
  field_simp; ring

/-- `r124_r2None_fh_*`: sharp edge, r2 = 1, flank of height 1 under 45° -/
example : ∃ ρ : String → ℝ, ρ "r1" = 0 ∧ 0 < ρ "width" ∧ 0 ≤ ρ "flank_height" ∧ ρ "r4" = 0 ∧ ρ "indent" = 0 ∧
    Expr.eval (upd ρ "_x0" (Real.pi / 4)) r124_r2None_fh_res0 = 0 := by
  have h := cos_quarter_ne_one
  have h' : 1 - Real.cos (Real.pi / 4) ≠ 0 := sub_ne_zero.mpr (Ne.symm h)
  have hs : 0 < Real.sin (Real.pi / 4) := Real.sin_pos_of_pos_of_lt_pi (by positivity) (by linarith [Real.pi_pos])
  refine ⟨env [("flank_height", 1), ("depth", 1 - Real.cos (Real.pi / 4) + 1),
      ("width", 2 * (Real.sin (Real.pi / 4) + 1 / Real.tan (Real.pi / 4)))],
    by simp [env, List.lookup], ?_, by simp [env, List.lookup], by simp [env, List.lookup], by simp [env, List.lookup], ?_⟩
  · norm_ex; rw [Real.tan_pi_div_four]; linarith
  simp only [r124_r2None_fh_res0]; norm_ex
  simp only [zero_mul, sub_zero, add_zero, zero_div, Real.arccos_one, Real.sin_zero, mul_zero]
  field_simp; ring

/-- hypotheses of `r124_free_consistent_widthNone` / `_depthNone` at the sharp edge (r2 = 1, root 45°) -/
example : ∃ ρ : String → ℝ, ρ "r1" = 0 ∧ ρ "r4" = 0 ∧ ρ "indent" = 0 ∧
    Expr.eval (upd ρ "_x0" (Real.pi / 4)) r124_widthNone_free_res0 = 0 := by
  refine ⟨env [("r2", 1), ("depth", 1 - Real.cos (Real.pi / 4))], by simp [env, List.lookup], by simp [env, List.lookup],
    by simp [env, List.lookup], ?_⟩
  simp only [r124_widthNone_free_res0]; norm_ex; ring

example : ∃ ρ : String → ℝ, ρ "r1" = 0 ∧ ρ "r4" = 0 ∧ ρ "indent" = 0 ∧
    Expr.eval (upd ρ "_x0" (Real.pi / 4)) r124_depthNone_free_res0 = 0 := by
  refine ⟨env [("r2", 1), ("width", 2 * Real.sin (Real.pi / 4))], by simp [env, List.lookup], by simp [env, List.lookup],
    by simp [env, List.lookup], ?_⟩
  simp only [r124_depthNone_free_res0]; norm_ex
  simp only [zero_mul, sub_zero, add_zero, zero_div, Real.arccos_one, Real.sin_zero, mul_zero]
  ring

/-- `r1234_fa_step_exact` / `r1234_fa_noStep_iff`: the witness environment satisfies every hypothesis
    (`link1234_mk`, `faWitness_angle`, `faWitness_root`) and has a non-zero defect -/
example : faDefect (mk1234 r1234_fa_flank_angle r1234_fa_alpha3 r1234_fa_alpha4 faWitness) ≠ 0 := by
  intro h
  have := faWitness_step
  rw [r1234_fa_step_exact faWitness _ (link1234_mk _ _ _ _) faWitness_angle faWitness_root.1 faWitness_root.2, h,
    mul_zero] at this
  norm_num at this

/-- `r1234_fa_closure_unconstricted`: 45° flank reached by (α2, α3) = (15°, 30°), no indent: both residuals vanish and
    `root0 + root1 = flank_angle` -/
example : ∃ ρ : String → ℝ, ρ "root0" + ρ "root1" = ρ "flank_angle" ∧
    Expr.eval (upd (upd ρ "_x0" (ρ "root0")) "_x1" (ρ "root1")) r1234_fa_res0 = 0 ∧
    Expr.eval (upd (upd ρ "_x0" (ρ "root0")) "_x1" (ρ "root1")) r1234_fa_res1 = 0 := by
  refine ⟨env [("flank_angle", Real.pi / 4), ("root0", Real.pi / 12), ("root1", Real.pi / 6), ("r2", 1), ("r3", 1),
    ("r4", 1), ("depth", 1), ("width", 2 * (Real.cos (Real.pi / 4) + Real.sin (Real.pi / 4)))], ?_, ?_, ?_⟩
  · norm_ex; ring
  · simp only [r1234_fa_res0]; norm_ex
    rw [Real.sin_pi_div_two_sub, Real.cos_pi_div_two_sub, Real.tan_pi_div_four]; ring
  · simp only [r1234_fa_res1]; norm_ex
    rw [show Real.pi / 12 + Real.pi / 6 - Real.pi / 4 = 0 by ring, Real.cos_zero]; ring

/-- `r123_fa_root_unique`: 45° flank, r3 = 3, r2 = 1, sharp edge, width 8 and the depth for which `alpha2 = 15°` is a root -/
example : ∃ ρ : String → ℝ, ρ "r3" ≠ ρ "r2" ∧ Real.cos (ρ "flank_angle") ≠ 0 ∧
    Expr.eval (upd ρ "_x0" (Real.pi / 12)) r123_fa_res0 = 0 := by
  refine ⟨env [("flank_angle", Real.pi / 4), ("r3", 3), ("r2", 1), ("width", 8),
    ("depth", 3 - (3 - 1) * Real.cos (Real.pi / 4 - Real.pi / 12) - 1 * Real.sin (Real.pi / 2 - Real.pi / 4)
      + (8 / 2 - (3 - 1) * Real.sin (Real.pi / 4 - Real.pi / 12) - 1 * Real.cos (Real.pi / 2 - Real.pi / 4))
        * Real.tan (Real.pi / 4))], by simp [env, List.lookup], ?_, ?_⟩
  · have : env [("flank_angle", Real.pi / 4), ("r3", 3), ("r2", 1), ("width", 8),
      ("depth", 3 - (3 - 1) * Real.cos (Real.pi / 4 - Real.pi / 12) - 1 * Real.sin (Real.pi / 2 - Real.pi / 4)
        + (8 / 2 - (3 - 1) * Real.sin (Real.pi / 4 - Real.pi / 12) - 1 * Real.cos (Real.pi / 2 - Real.pi / 4))
          * Real.tan (Real.pi / 4))] "flank_angle" = Real.pi / 4 := by simp [env, List.lookup]
    rw [this]
    exact (Real.cos_pos_of_mem_Ioo ⟨by linarith [Real.pi_pos], by linarith [Real.pi_pos]⟩).ne'
  · simp only [r123_fa_res0]; norm_ex; ring

end examples

end C04
