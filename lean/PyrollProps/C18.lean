import PyrollProofs.ProcLemmas

/-!
# C18 — pre- and post-processors run in hierarchy order and affect only what they should

Model: `PyrollModel/Proc.lean`, tied to `pyroll/core/unit/unit.py` and `pyroll/core/roll_pass/base.py`
(T) by `driver/translate/c18_procs.py`, which re-reads the class attributes, `__init_subclass__`, the two walks,
`init_solve`, `solve`, `_solve_subunits` and the library's own registrations on every run and writes them as programs
over a small instruction set (`PyrollModel/Gen/C18.lean`, interpreter `PyrollModel/ProcProg.lean`): section 10
"What the source says" proves that running the generated programs equals the hand-written `defClass`, `walk`, `chain`,
`initSolve`, `solveSubs`, `iterate`, `solveLeaf`, `solveSeq`, and
(K) by the correspondence harness `driver/props/c18.py`.  Only property theorems live here; helper lemmas are in
`PyrollProofs/ProcLemmas.lean`.

`walk H w c` is THE CODE (`_yield_pre_processors` for `w = true`, `_yield_post_processors` for `w = false`, of an
instance of class `c`), `ownList H w k` the list the class `k` holds itself, `chain` the processor loop,
`initSolve` / `finishSolve` / `solveLeaf` / `solveSeq` the pieces of `Unit.solve`.

The order and scope theorems carry the hypothesis `OwnLists H w c` (every class along the MRO has its own list —
what `Unit.__init_subclass__` provides).  `coop_history_ownLists` discharges it for EVERY history of class
definitions and list operations in which no class swallows the `__init_subclass__` call;
`getattr_walk_consults_twice` shows that the hypothesis cannot be dropped (model and code agree there, the harness
replays the same history on the implementation).
-/

namespace Proc

/-! ## 1. Order -/

/-- `x` occurs before `y` in `l` -/
def Before (l : List Nat) (x y : Nat) : Prop := ∃ xs ys zs, l = xs ++ x :: ys ++ y :: zs

/-- under `OwnLists` the code's walk is the specification: own lists of the classes, bases first -/
theorem walk_eq_spec (H : Hier) (w : Bool) (c : Nat) (h : OwnLists H w c) :
    walk H w c = (H.mro c).reverse.flatMap (ownList H w) :=
  walk_eq_yieldOf h

/-- **base before derived**: when `b` stands behind `d` in the MRO of `c` (as every base class of `d` does), the
whole block of `b`'s registrations runs before the whole block of `d`'s -/
theorem base_before_derived (H : Hier) (w : Bool) (c b d : Nat) (l1 l2 l3 : List Nat) (ho : OwnLists H w c)
    (hm : H.mro c = l1 ++ d :: (l2 ++ b :: l3)) :
    ∃ xs ys zs, walk H w c = xs ++ ownList H w b ++ ys ++ ownList H w d ++ zs := by
  rw [walk_eq_yieldOf ho, yieldOf_split H w c b d l1 l2 l3 hm]
  exact ⟨_, _, _, rfl⟩

/-- … in particular every single registration of the base precedes every registration of the derived class -/
theorem base_registration_runs_first (H : Hier) (w : Bool) (c b d f g : Nat) (l1 l2 l3 : List Nat)
    (ho : OwnLists H w c) (hm : H.mro c = l1 ++ d :: (l2 ++ b :: l3))
    (hf : f ∈ ownList H w b) (hg : g ∈ ownList H w d) : Before (walk H w c) f g := by
  obtain ⟨xs, ys, zs, h⟩ := base_before_derived H w c b d l1 l2 l3 ho hm
  obtain ⟨p, q, hb⟩ := List.append_of_mem hf
  obtain ⟨r, s, hd⟩ := List.append_of_mem hg
  refine ⟨xs ++ p, q ++ ys ++ r, s ++ zs, ?_⟩
  rw [h, hb, hd]
  simp [List.append_assoc]

/-- **a class's registrations run between those of its bases and those of its subclasses** — the situation of the
library's only built-in processor: the auto-rotator factory `r` registered on `BaseRollPass` (= `m`) runs AFTER every
registration `f` on a base `b` of `BaseRollPass` (`Unit`, `DeformationUnit`, `DiskElementUnit`) and BEFORE every
registration `g` on a subclass `d` (`SymmetricRollPass`, `TwoRollPass`, user classes), for every class `c` below -/
theorem registration_between_base_and_subclass (H : Hier) (w : Bool) (c b m d f r g : Nat) (l1 l2 l3 l4 : List Nat)
    (ho : OwnLists H w c) (hm : H.mro c = l1 ++ d :: (l2 ++ m :: (l3 ++ b :: l4)))
    (hf : f ∈ ownList H w b) (hr : r ∈ ownList H w m) (hg : g ∈ ownList H w d) :
    Before (walk H w c) f r ∧ Before (walk H w c) r g := by
  constructor
  · exact base_registration_runs_first H w c b m f r (l1 ++ d :: l2) l3 l4 ho (by rw [hm]; simp) hf hr
  · exact base_registration_runs_first H w c m d r g l1 l2 (l3 ++ b :: l4) ho hm hr hg

/-- **registration order within a class**: a registration on a class with its own list lands at the END of that
list and nowhere else -/
theorem registration_order_within_class (H : Hier) (w : Bool) (c f : Nat) (l t : List Nat)
    (hl : H.lists w c = some l) (hm : H.mro c = c :: t) :
    (register H w c f).2 = .ok ∧
    ownList (register H w c f).1 w c = ownList H w c ++ [f] ∧
    (∀ w' k, ¬ (w' = w ∧ k = c) → ownList (register H w c f).1 w' k = ownList H w' k) ∧
    (register H w c f).1.mro = H.mro := by
  rw [register_own hl hm]
  refine ⟨rfl, ?_, ?_, rfl⟩
  · rw [ownList_setList]; simp [ownList, hl]
  · intro w' k hk; rw [ownList_setList]; simp [hk]

/-- the registrations made on class `c`, kind `w`, in a history -/
def regsOn (w : Bool) (c : Nat) : List COp → List Nat
  | [] => []
  | .register w' c' f :: ops => if w' = w ∧ c' = c then f :: regsOn w c ops else regsOn w c ops
  | _ :: ops => regsOn w c ops

/-- histories of class definitions and registrations on classes that have their own lists -/
def RegRun : Hier → List COp → Prop
  | _, [] => True
  | H, .register w c f :: ops =>
      ((H.lists w c).isSome ∧ ∃ t, H.mro c = c :: t) ∧ RegRun (register H w c f).1 ops
  | H, .defClass tail isub body :: ops => RegRun (defClass H tail isub body) ops
  | _, _ :: _ => False

def RegRun.dec : ∀ (ops : List COp) (H : Hier), Decidable (RegRun H ops)
  | [], _ => inferInstanceAs (Decidable True)
  | .register w c f :: ops, H =>
    have := RegRun.dec ops (register H w c f).1
    have : Decidable (∃ t, H.mro c = c :: t) :=
      decidable_of_iff ((H.mro c).head? = some c) (by cases H.mro c <;> simp)
    inferInstanceAs (Decidable (((H.lists w c).isSome ∧ ∃ t, H.mro c = c :: t) ∧ RegRun (register H w c f).1 ops))
  | .defClass tail isub body :: ops, H => RegRun.dec ops (defClass H tail isub body)
  | .unregister _ _ _ :: _, _ => inferInstanceAs (Decidable False)
  | .clear _ _ :: _, _ => inferInstanceAs (Decidable False)

instance (H : Hier) (ops : List COp) : Decidable (RegRun H ops) := RegRun.dec ops H

/-- … hence, over a whole history, the block of a class IS its registration log, in registration order -/
theorem own_list_is_registration_log (ops : List COp) :
    ∀ H, RegRun H ops → ∀ w c, c < H.n → ownList (run H ops) w c = ownList H w c ++ regsOn w c ops := by
  induction ops with
  | nil => intro H _ w c _; simp [run, regsOn]
  | cons op ops ih =>
    intro H hr w c hc
    cases op with
    | register w' c' f =>
      obtain ⟨⟨hs, t, ht⟩, hr'⟩ := hr
      obtain ⟨l, hl⟩ := Option.isSome_iff_exists.1 hs
      have hreg := registration_order_within_class H w' c' f l t hl ht
      have hn : (register H w' c' f).1.n = H.n := by rw [register_own hl ht]; rfl
      have := ih (register H w' c' f).1 hr' w c (by rw [hn]; exact hc)
      simp only [run, List.foldl_cons, step] at this ⊢
      rw [this]
      by_cases hk : w = w' ∧ c = c'
      · obtain ⟨rfl, rfl⟩ := hk
        rw [hreg.2.1]; simp [regsOn]
      · rw [hreg.2.2.1 w c hk]
        have : ¬ (w' = w ∧ c' = c) := fun h => hk ⟨h.1.symm, h.2.symm⟩
        simp [regsOn, this]
    | defClass tail isub body =>
      have := ih (defClass H tail isub body) hr w c (by rw [defClass_n]; omega)
      simp only [run, List.foldl_cons, step] at this ⊢
      rw [this]
      have hne : c ≠ H.n := Nat.ne_of_lt hc
      simp [regsOn, ownList, defClass_lists, hne]
    | unregister _ _ _ => exact absurd hr (by simp [RegRun])
    | clear _ _ => exact absurd hr (by simp [RegRun])

/-! ## 2. Scope -/

/-- **scope = the class and its subclasses only**: after registering `f` on `c`, a class `k` yields `g` iff it did
before, or `g` is the new registration and `c` is in the MRO of `k` (`k` is `c` or a subclass); classes that do not
have `c` in their MRO — siblings, bases, unrelated classes — yield exactly what they yielded before, and the other
kind of processors is not affected at all. -/
theorem scope_class_and_subclasses_only (H : Hier) (w : Bool) (c f : Nat) (l t : List Nat)
    (hl : H.lists w c = some l) (hm : H.mro c = c :: t) (k : Nat)
    (ho : OwnLists H w k) :
    OwnLists (register H w c f).1 w k ∧
    (∀ g, g ∈ walk (register H w c f).1 w k ↔ g ∈ walk H w k ∨ (g = f ∧ c ∈ H.mro k)) ∧
    (c ∉ H.mro k → walk (register H w c f).1 w k = walk H w k) ∧
    (∀ k', walk (register H w c f).1 (!w) k' = walk H (!w) k') := by
  have hreg := registration_order_within_class H w c f l t hl hm
  have hmro := hreg.2.2.2
  have hlists : ∀ w' s, ((register H w c f).1.lists w' s).isSome = (H.lists w' s).isSome := by
    intro w' s
    rw [register_own hl hm, setList_lists]
    split
    · rename_i h; obtain ⟨rfl, rfl⟩ := h; simp [hl]
    · rfl
  have ho' : OwnLists (register H w c f).1 w k := by
    constructor
    · intro s hs; rw [hmro] at hs ⊢; exact ho.head s hs
    · intro s hs hn
      rw [hmro] at hs ⊢
      have hn' : H.lists w s = none := by
        have := hlists w s; rw [hn] at this; simpa using this.symm
      have := lookup_eq_none.1 (ho.own s hs hn')
      apply lookup_eq_none.2
      intro j hj
      have h2 := hlists w j
      rw [this j hj] at h2
      simpa using h2
  refine ⟨ho', ?_, ?_, ?_⟩
  · intro g
    rw [walk_eq_yieldOf ho', walk_eq_yieldOf ho, mem_yieldOf, mem_yieldOf, hmro]
    constructor
    · rintro ⟨s, hs, hg⟩
      by_cases hsc : s = c
      · subst hsc
        rw [hreg.2.1] at hg
        rcases List.mem_append.1 hg with h | h
        · exact Or.inl ⟨s, hs, h⟩
        · exact Or.inr ⟨by simpa using h, hs⟩
      · rw [hreg.2.2.1 w s (by simp [hsc])] at hg
        exact Or.inl ⟨s, hs, hg⟩
    · rintro (⟨s, hs, hg⟩ | ⟨rfl, hc⟩)
      · refine ⟨s, hs, ?_⟩
        by_cases hsc : s = c
        · subst hsc; rw [hreg.2.1]; exact List.mem_append_left _ hg
        · rw [hreg.2.2.1 w s (by simp [hsc])]; exact hg
      · exact ⟨c, hc, by rw [hreg.2.1]; simp⟩
  · intro hc
    rw [walk_eq_yieldOf ho', walk_eq_yieldOf ho]
    unfold yieldOf
    rw [hmro]
    apply flatMap_congr'
    intro s hs
    have hs' : s ∈ H.mro k := by simpa using hs
    have : s ≠ c := fun h => hc (h ▸ hs')
    exact hreg.2.2.1 w s (by simp [this])
  · intro k'
    unfold walk
    rw [hmro]
    apply flatMap_congr'
    intro s _
    have : ∀ j, (register H w c f).1.lists (!w) j = H.lists (!w) j := by
      intro j; rw [register_own hl hm, setList_lists]; simp
    have : (register H w c f).1.lists (!w) = H.lists (!w) := funext this
    rw [this]

/-- **siblings are isolated**: a registration on `b` is invisible to a class `s` that does not have `b` among its
bases, and `b` itself gains it -/
theorem siblings_isolated (H : Hier) (w : Bool) (b s f : Nat) (l tb : List Nat)
    (hl : H.lists w b = some l) (hb : H.mro b = b :: tb) (hs : b ∉ H.mro s)
    (hos : OwnLists H w s) (hob : OwnLists H w b) :
    walk (register H w b f).1 w s = walk H w s ∧ f ∈ walk (register H w b f).1 w b :=
  ⟨(scope_class_and_subclasses_only H w b f l tb hl hb s hos).2.2.1 hs,
   ((scope_class_and_subclasses_only H w b f l tb hl hb b hob).2.1 f).2 (Or.inr ⟨rfl, by rw [hb]; simp⟩)⟩

/-- **subclasses defined later**: a class defined AFTER the registrations yields everything its bases hold, gets
fresh empty lists of its own (no alias of a base's list), and its definition changes nothing for the classes
that existed before -/
theorem later_subclass_inherits (H : Hier) (tail : List Nat) (isub : InitSub) (body : Bool) (w : Bool)
    (hr : reaches H.isub tail = true) (ht : ∀ k ∈ tail, k < H.n) :
    (defClass H tail isub body).lists w H.n = some [] ∧
    yieldOf (defClass H tail isub body) w H.n = tail.reverse.flatMap (ownList H w) ∧
    (∀ b f, b ∈ tail → f ∈ ownList H w b → f ∈ yieldOf (defClass H tail isub body) w H.n) ∧
    (∀ k, k < H.n → (∀ j ∈ H.mro k, j < H.n ∧ ∀ i ∈ H.mro j, i < H.n) →
      walk (defClass H tail isub body) w k = walk H w k ∧
      ownList (defClass H tail isub body) w k = ownList H w k) := by
  have hold : ∀ k, k < H.n → ownList (defClass H tail isub body) w k = ownList H w k := by
    intro k hk
    simp [ownList, defClass_lists, Nat.ne_of_lt hk]
  have hy : yieldOf (defClass H tail isub body) w H.n = tail.reverse.flatMap (ownList H w) := by
    unfold yieldOf
    rw [defClass_mro]
    simp only [if_true, List.reverse_cons, List.flatMap_append, List.flatMap_cons, List.flatMap_nil]
    have : ownList (defClass H tail isub body) w H.n = [] := by simp [ownList, defClass_lists, hr]
    rw [this]
    simp only [List.append_nil]
    apply flatMap_congr'
    intro s hs
    exact hold s (ht s (by simpa using hs))
  refine ⟨by simp [defClass_lists, hr], hy, ?_, ?_⟩
  · intro b f hb hf
    rw [hy]
    exact List.mem_flatMap.2 ⟨b, by simpa using hb, hf⟩
  · intro k hk hj
    refine ⟨?_, hold k hk⟩
    unfold walk
    rw [defClass_mro, if_neg (Nat.ne_of_lt hk)]
    apply flatMap_congr'
    intro s hs
    have hs' := hj s (by simpa using hs)
    rw [defClass_mro, if_neg (Nat.ne_of_lt hs'.1)]
    -- lookup along an old MRO never meets the new class
    suffices h : ∀ (m : List Nat), (∀ j ∈ m, j ≠ H.n) →
        lookup ((defClass H tail isub body).lists w) m = lookup (H.lists w) m by
      rw [h]
      intro j hjm
      exact Nat.ne_of_lt (hs'.2 j hjm)
    intro m
    induction m with
    | nil => intro _; rfl
    | cons a m ih =>
      intro hm
      have ha : a ≠ H.n := hm a (by simp)
      simp only [lookup, defClass_lists, if_neg ha]
      rw [ih (fun j hj => hm j (by simp [hj]))]

/-! ## 3. The contract is met by every cooperative history

`CoopOp` / `CoopRun` (PyrollProofs/ProcLemmas.lean): no class definition of the history swallows
`__init_subclass__` (`isub ≠ .noncoop`), only the class that implements the hook (`Unit`) defines lists in its body,
and every MRO handed in consists of existing classes and contains the MROs of its members (C3 guarantees both). -/

/-- **every cooperative history satisfies the hypothesis of the order and scope theorems**: whatever classes are
defined (single / multiple inheritance, mix-ins, cooperative `__init_subclass__` overrides) and whatever is
registered, removed or cleared in between, every class sees, along its MRO, only classes with lists of their own -/
theorem coop_history_ownLists (ops : List COp) (h : CoopRun init ops) (w : Bool) (c : Nat)
    (hc : c < (run init ops).n) : OwnLists (run init ops) w c :=
  hinv_ownLists _ (hinv_run ops init hinv_init h) w c hc

/-! ## 4. Solving: the chain -/

/-- **factories that return nothing are skipped**: the factory is consulted, no processor runs, heap and profile are
handed on unchanged, and the chain goes on with the remaining factories -/
theorem none_skipped (E : Env) (w : Bool) (u f : Nat) (fs : List Nat) (h : Heap) (cur : Nat)
    (hf : E.fac f u = none) :
    chain E w u (f :: fs) h cur =
      ((chain E w u fs h cur).1, (chain E w u fs h cur).2.1, .consult w f u :: (chain E w u fs h cur).2.2) :=
  chain_none E w u f fs h cur hf

/-- … so, for the whole chain: every factory of the walk is consulted, in order, whatever the earlier ones returned;
exactly the processors that were created run, in that order; heap and result are those of the chain over the
factories that do return a processor -/
theorem none_does_not_stop_the_chain (E : Env) (w : Bool) (u : Nat) (fs : List Nat) (h : Heap) (cur : Nat) :
    consults (chain E w u fs h cur).2.2 = fs ∧
    procsRun (chain E w u fs h cur).2.2 = fs.filterMap (fun f => E.fac f u) ∧
    (chain E w u fs h cur).1 = (chain E w u (fs.filter (fun f => (E.fac f u).isSome)) h cur).1 ∧
    (chain E w u fs h cur).2.1 = (chain E w u (fs.filter (fun f => (E.fac f u).isSome)) h cur).2.1 := by
  refine ⟨chain_consults E w u fs h cur, chain_procsRun E w u fs h cur, ?_⟩
  induction fs generalizing h cur with
  | nil => exact ⟨rfl, rfl⟩
  | cons f fs ih =>
    cases hf : E.fac f u with
    | none =>
      rw [chain_none E w u f fs h cur hf]
      simp only [List.filter_cons, hf, Option.isSome_none, Bool.false_eq_true, if_false]
      exact ih h cur
    | some p =>
      rw [chain_some E w u f p fs h cur hf]
      simp only [List.filter_cons, hf, Option.isSome_some, if_true]
      rw [chain_some E w u f p _ h cur hf]
      exact ih _ _

/-- **each processor receives its predecessor's output** (pre- and post-chains alike), the first one what the chain
was started on; the chain returns what the last processor returned -/
theorem chain_threads_profile (E : Env) (w : Bool) (u : Nat) (fs : List Nat) (h : Heap) (cur : Nat) :
    threads cur (chain E w u fs h cur).2.2 ∧ (chain E w u fs h cur).2.1 = lastRet cur (chain E w u fs h cur).2.2 :=
  ⟨chain_threads E w u fs h cur, chain_lastRet E w u fs h cur⟩

/-! ## 5. Solving: `init_solve` -/

/-- **the unit's incoming profile is what the last pre-processor returned**: `init_solve` consults exactly the walk
of the unit's class, threads the profile handed to `solve` through the processors, and stores as `in_profile` a
NEW object carrying the marks of the last processor's output (of the handed-in profile if none ran) -/
theorem in_profile_is_last_pre_output (E : Env) (st : RState) (u inp : Nat) (hin : inp < st.heap.n) :
    consults (initSolve E st u inp).2 = walk E.H true (E.ucls u) ∧
    (∀ e ∈ (initSolve E st u inp).2, e.phase = some true) ∧
    threads inp (initSolve E st u inp).2 ∧
    ∃ ip, (initSolve E st u inp).1.uin u = some ip ∧ st.heap.n ≤ ip ∧
      ip ≠ lastRet inp (initSolve E st u inp).2 ∧
      (initSolve E st u inp).1.heap.marks ip =
        (initSolve E st u inp).1.heap.marks (lastRet inp (initSolve E st u inp).2) := by
  rw [initSolve_evs]
  obtain ⟨a1, a2, _, _⟩ := chain_frame E true u (walk E.H true (E.ucls u)) st.heap inp hin
  have hl : (preChain E st u inp).2.1 = lastRet inp (preChain E st u inp).2.2 := chain_lastRet _ _ _ _ _ _
  refine ⟨chain_consults _ _ _ _ _ _, chain_phase _ _ _ _ _ _, chain_threads _ _ _ _ _ _, ?_⟩
  refine ⟨(preChain E st u inp).1.n, ?_, a1, ?_, ?_⟩
  · rw [initSolve_uin]; simp
  · rw [← hl]; exact (Nat.ne_of_lt a2).symm
  · rw [← hl]
    have h1 : (preChain E st u inp).2.1 ≠ (preChain E st u inp).1.n := Nat.ne_of_lt a2
    have h2 : (preChain E st u inp).2.1 ≠ (preChain E st u inp).1.n + 1 := by
      have : (preChain E st u inp).2.1 < (preChain E st u inp).1.n := a2
      omega
    rw [initSolve_marks, initSolve_marks]
    simp only [if_true]
    show _ = if (preChain E st u inp).2.1 = _ then _ else _
    rw [if_neg h1]
    split <;> rfl

/-- **`init_solve` writes only to the unit's own incoming and outgoing profile.**  First solve: `out_profile` is a
new object with the marks of the last pre-processor's output.  Re-solve: the SAME `out_profile` object is re-used and
brought up to date - it carries the marks of the last pre-processor's output of THIS solve (what the previous solve
left on it is replaced).  No other unit's profiles change; of the objects that existed before, only the handed-in
profile (in-place pre-processors) and the own `out_profile` can differ afterwards; and `init_solve`'s own writes
(everything after the pre-processor chain) touch no object the chain left behind except the own `out_profile`: the
caller's profile and the pre-processors' outputs are as the chain left them -/
theorem init_solve_touches_only_its_input (E : Env) (st : RState) (u inp : Nat) (hin : inp < st.heap.n) :
    (∀ o, st.uout u = some o → (initSolve E st u inp).1.uout u = some o ∧
        (initSolve E st u inp).1.heap.marks o =
          (initSolve E st u inp).1.heap.marks (lastRet inp (initSolve E st u inp).2)) ∧
    (st.uout u = none → ∃ op, (initSolve E st u inp).1.uout u = some op ∧ st.heap.n ≤ op ∧
        (initSolve E st u inp).1.heap.marks op =
          (initSolve E st u inp).1.heap.marks (lastRet inp (initSolve E st u inp).2)) ∧
    (∀ x, x ≠ u → (initSolve E st u inp).1.uin x = st.uin x ∧ (initSolve E st u inp).1.uout x = st.uout x) ∧
    (∀ o, o < st.heap.n → o ≠ inp → st.uout u ≠ some o →
        (initSolve E st u inp).1.heap.marks o = st.heap.marks o) ∧
    (∀ o, o < (preChain E st u inp).1.n → st.uout u ≠ some o →
        (initSolve E st u inp).1.heap.marks o = (preChain E st u inp).1.marks o) := by
  obtain ⟨a1, a2, _, a4⟩ := chain_frame E true u (walk E.H true (E.ucls u)) st.heap inp hin
  have hlt : (preChain E st u inp).2.1 < (preChain E st u inp).1.n := a2
  have hl : (preChain E st u inp).2.1 = lastRet inp (preChain E st u inp).2.2 := chain_lastRet _ _ _ _ _ _
  have hcur : (initSolve E st u inp).1.heap.marks (preChain E st u inp).2.1 =
      (preChain E st u inp).1.marks (preChain E st u inp).2.1 := by
    rw [initSolve_marks, if_neg (Nat.ne_of_lt hlt)]
    split <;> rfl
  refine ⟨?_, ?_, ?_, ?_, ?_⟩
  · intro o ho
    refine ⟨by rw [initSolve_uout]; simp [ho], ?_⟩
    rw [initSolve_evs, ← hl, hcur, initSolve_marks]
    split
    · rfl
    · simp [ho]
  · intro hn
    refine ⟨(preChain E st u inp).1.n + 1, ?_, Nat.le_succ_of_le a1, ?_⟩
    · rw [initSolve_uout]; simp [hn]
    · rw [initSolve_evs, ← hl, hcur, initSolve_marks]
      simp [hn]
  · intro x hx; rw [initSolve_uin, initSolve_uout]; simp [hx]
  · intro o ho hne hno
    have hle : st.heap.n ≤ (preChain E st u inp).1.n := a1
    rw [initSolve_marks, if_neg (by omega), if_neg (fun h => by
      rcases h with h | h
      · omega
      · exact hno h)]
    exact a4 o ho hne
  · intro o ho hno
    rw [initSolve_marks, if_neg (by omega), if_neg (fun h => by
      rcases h with h | h
      · omega
      · exact hno h)]

/-- **the unit's own solution starts from what the last pre-processor returned - at the first and at EVERY later
solve**: when `init_solve` is done, the unit's outgoing profile carries the marks of the last pre-processor's output
(of the handed-in profile if no processor ran), the same as `in_profile`.  `st` is ANY state: if the unit has no out
profile yet, `out_profile` is a new object (different from `in_profile`); if it has one - a second `solve()`, every
round of an enclosing sequence's loop - that SAME object is re-used and what it carried (the hand-over and the results
of the earlier solve) is replaced by the output of the last pre-processor of THIS solve; never by the profile as the
caller passed it, which differs as soon as a pre-processor hands back a new object (example `exSt1` below). -/
theorem out_profile_is_last_pre_output (E : Env) (st : RState) (u inp : Nat) (hin : inp < st.heap.n) :
    ∃ ip op, (initSolve E st u inp).1.uin u = some ip ∧ (initSolve E st u inp).1.uout u = some op ∧
      (∀ o, st.uout u = some o → op = o) ∧
      (st.uout u = none → st.heap.n ≤ op ∧ op ≠ ip) ∧
      (initSolve E st u inp).1.heap.marks op =
        (initSolve E st u inp).1.heap.marks (lastRet inp (initSolve E st u inp).2) ∧
      (initSolve E st u inp).1.heap.marks op = (initSolve E st u inp).1.heap.marks ip := by
  obtain ⟨_, _, _, ip, hip, _, _, hm⟩ := in_profile_is_last_pre_output E st u inp hin
  obtain ⟨h1, h2, _, _, _⟩ := init_solve_touches_only_its_input E st u inp hin
  obtain ⟨a1, _, _, _⟩ := chain_frame E true u (walk E.H true (E.ucls u)) st.heap inp hin
  have hipn : ip = (preChain E st u inp).1.n := by
    rw [initSolve_uin] at hip; simpa using hip.symm
  cases ho : st.uout u with
  | some o =>
    obtain ⟨b1, b2⟩ := h1 o ho
    exact ⟨ip, o, hip, b1, fun o' h' => by simpa using h', fun h' => by simp at h', b2, by rw [b2, hm]⟩
  | none =>
    refine ⟨ip, (preChain E st u inp).1.n + 1, hip, by rw [initSolve_uout]; simp [ho], fun o' h' => by simp at h',
      fun _ => ⟨Nat.le_succ_of_le a1, by omega⟩, ?_, ?_⟩
    · obtain ⟨op, c1, _, c3⟩ := h2 ho
      rw [initSolve_uout] at c1
      simp [ho] at c1
      rw [c1]; exact c3
    · obtain ⟨op, c1, _, c3⟩ := h2 ho
      rw [initSolve_uout] at c1
      simp [ho] at c1
      rw [c1, c3, hm]

/-! ## 6. Solving: the post-processors -/

/-- **the post-processor chain threads**: it consults exactly the post-walk of the unit's class, starts on a NEW
object (a copy of the outgoing state), hands each processor its predecessor's output, and `solve` returns what the
last one returned -/
theorem post_chain_threads (E : Env) (st : RState) (u : Nat) :
    ∃ post lv, (finishSolve E st u).2.2 = post ++ [lv] ∧ lv.phase = none ∧
      consults post = walk E.H false (E.ucls u) ∧ (∀ e ∈ post, e.phase = some false) ∧
      threads st.heap.n post ∧ (finishSolve E st u).2.1 = lastRet st.heap.n post := by
  refine ⟨(postChain E st u).2.2, leaveEv E st u, rfl, rfl, chain_consults _ _ _ _ _ _, chain_phase _ _ _ _ _ _,
    chain_threads _ _ _ _ _ _, chain_lastRet _ _ _ _ _ _⟩

/-- **post-processors do not touch the unit's own state** (nor anything else that existed): `in_profile` and
`out_profile` of every unit stay the same objects, EVERY object that existed when the post-processing started keeps
its marks – in particular `unit.out_profile` –, and the returned profile is an object that did not exist before,
hence never `unit.out_profile` itself -/
theorem post_does_not_touch_unit_state (E : Env) (st : RState) (u : Nat) :
    (finishSolve E st u).1.uin = st.uin ∧ (finishSolve E st u).1.uout = st.uout ∧
    (∀ o, o < st.heap.n → (finishSolve E st u).1.heap.marks o = st.heap.marks o) ∧
    st.heap.n ≤ (finishSolve E st u).2.1 ∧
    (∀ op, st.uout u = some op → op < st.heap.n →
      (finishSolve E st u).2.1 ≠ op ∧ (finishSolve E st u).1.heap.marks op = st.heap.marks op) := by
  obtain ⟨a1, _, _, a4⟩ := postChain_frame E st u
  refine ⟨rfl, rfl, a4, a1, ?_⟩
  intro op _ hlt
  refine ⟨?_, a4 op hlt⟩
  have : st.heap.n ≤ (finishSolve E st u).2.1 := a1
  omega

/-- what the first post-processor receives is a copy of the outgoing state as the own solution left it: the chain of
`finishSolve` runs on the heap extended by ONE new object `st.heap.n` carrying the marks of `unit.out_profile` -/
theorem post_chain_starts_on_copy_of_out_state (E : Env) (st : RState) (u : Nat) :
    (finishSolve E st u).2.2 =
      (chain E false u (walk E.H false (E.ucls u)) (st.heap.alloc (st.heap.marks ((st.uout u).getD 0))).1
        st.heap.n).2.2 ++ [leaveEv E st u] ∧
    (st.heap.alloc (st.heap.marks ((st.uout u).getD 0))).1.marks st.heap.n = st.heap.marks ((st.uout u).getD 0) ∧
    ∀ o, o < st.heap.n → (st.heap.alloc (st.heap.marks ((st.uout u).getD 0))).1.marks o = st.heap.marks o := by
  refine ⟨rfl, by simp [Heap.alloc], ?_⟩
  intro o ho
  simp [Heap.alloc, Nat.ne_of_lt ho]

/-! ## 7. Solving: the whole of `solve` -/

/-- **pre-processors before, post-processors after the unit's own solution** (unit solved alone): the trace of
`solve` is  enter · pre-chain · own solution · post-chain · leave,  the pre-chain consulting exactly the pre-walk and
the post-chain exactly the post-walk of the unit's class, both threading the profile -/
theorem pre_before_own_before_post (E : Env) (st : RState) (u inp : Nat) :
    ∃ pre post lv, (solveLeaf E st u inp).2.2 = .enter u inp :: pre ++ .own u :: (post ++ [lv]) ∧
      (∀ e ∈ pre, e.phase = some true) ∧ (∀ e ∈ post, e.phase = some false) ∧ lv.phase = none ∧
      consults pre = walk E.H true (E.ucls u) ∧ consults post = walk E.H false (E.ucls u) ∧
      threads inp pre ∧ threads (initSolve E st u inp).1.heap.n post ∧
      (solveLeaf E st u inp).2.1 = lastRet (initSolve E st u inp).1.heap.n post := by
  rw [solveLeaf_eq]
  refine ⟨(initSolve E st u inp).2, (postChain E (ownStep (initSolve E st u inp).1 u) u).2.2,
    leaveEv E (ownStep (initSolve E st u inp).1 u) u, rfl, ?_, chain_phase _ _ _ _ _ _, rfl, ?_,
    chain_consults _ _ _ _ _ _, ?_, chain_threads _ _ _ _ _ _, chain_lastRet _ _ _ _ _ _⟩
  · rw [initSolve_evs]; exact chain_phase _ _ _ _ _ _
  · rw [initSolve_evs]; exact chain_consults _ _ _ _ _ _
  · rw [initSolve_evs]; exact chain_threads _ _ _ _ _ _

/-- **what runs at a solve is what the factories return at THAT solve**: from ANY state `st` – in particular the state
an earlier solve of the same unit left behind – `solve` consults every factory of both walks again and runs exactly
the processors the factories return now (`E.fac` = the factories' answers for the unit as it is at this solve) -/
theorem solve_runs_what_factories_return_now (E : Env) (st : RState) (u inp : Nat) :
    ∃ pre post lv, (solveLeaf E st u inp).2.2 = .enter u inp :: pre ++ .own u :: (post ++ [lv]) ∧ lv.phase = none ∧
      consults pre = walk E.H true (E.ucls u) ∧
      procsRun pre = (walk E.H true (E.ucls u)).filterMap (fun f => E.fac f u) ∧
      consults post = walk E.H false (E.ucls u) ∧
      procsRun post = (walk E.H false (E.ucls u)).filterMap (fun f => E.fac f u) := by
  rw [solveLeaf_eq]
  refine ⟨(initSolve E st u inp).2, (postChain E (ownStep (initSolve E st u inp).1 u) u).2.2,
    leaveEv E (ownStep (initSolve E st u inp).1 u) u, rfl, rfl, ?_, ?_, chain_consults _ _ _ _ _ _,
    chain_procsRun _ _ _ _ _ _⟩
  · rw [initSolve_evs]; exact chain_consults _ _ _ _ _ _
  · rw [initSolve_evs]; exact chain_procsRun _ _ _ _ _ _

/-- **a later solve of the same unit asks the factories again**: after a solve under `E` (the factories' answers
then), a solve under `E'` (same classes, the factories answer differently because the unit's state changed) runs the
processors `E'` gives – nothing of the earlier answers is kept: a factory that returned a processor before and
returns nothing now is skipped, one that returned nothing before and returns a processor now has it run -/
theorem resolve_asks_factories_again (E E' : Env) (st : RState) (u inp inp' : Nat) :
    ∃ pre post lv, (solveLeaf E' (solveLeaf E st u inp).1 u inp').2.2 =
        .enter u inp' :: pre ++ .own u :: (post ++ [lv]) ∧ lv.phase = none ∧
      consults pre = walk E'.H true (E'.ucls u) ∧
      procsRun pre = (walk E'.H true (E'.ucls u)).filterMap (fun f => E'.fac f u) ∧
      consults post = walk E'.H false (E'.ucls u) ∧
      procsRun post = (walk E'.H false (E'.ucls u)).filterMap (fun f => E'.fac f u) :=
  solve_runs_what_factories_return_now E' (solveLeaf E st u inp).1 u inp'

/-- **everything `solve` hands on comes from the last pre-processor's output** (`preOutMarks` = its marks when
`init_solve` is done), from ANY state `st` in which the unit's out profile - if it has one - is an existing object
(`hwf`; first solve, second solve, any round of a sequence):
* when `solve` returns, `out_profile` (the object the unit had before, if any) carries exactly the last pre-processor's
  output followed by the own solution's mark - nothing of an earlier solve, nothing of the post-processors;
* the post-processor chain starts on a NEW object `n` of a heap `H0` carrying the same, threads, and `solve` returns its
  last output;
* so without post-processors the returned profile carries the last pre-processor's output and the own mark. -/
theorem solve_hands_on_last_pre_output (E : Env) (st : RState) (u inp : Nat) (hin : inp < st.heap.n)
    (hwf : ∀ o, st.uout u = some o → o < st.heap.n) :
    ∃ op, (solveLeaf E st u inp).1.uout u = some op ∧ (∀ o, st.uout u = some o → op = o) ∧
      op < (solveLeaf E st u inp).1.heap.n ∧
      (solveLeaf E st u inp).1.heap.marks op = preOutMarks E st u inp ++ [.own u] ∧
      (∃ post lv H0, (solveLeaf E st u inp).2.2 =
          .enter u inp :: (initSolve E st u inp).2 ++ .own u :: (post ++ [lv]) ∧
        post = (chain E false u (walk E.H false (E.ucls u)) H0 (initSolve E st u inp).1.heap.n).2.2 ∧
        H0.marks (initSolve E st u inp).1.heap.n = preOutMarks E st u inp ++ [.own u] ∧
        threads (initSolve E st u inp).1.heap.n post ∧
        (solveLeaf E st u inp).2.1 = lastRet (initSolve E st u inp).1.heap.n post) ∧
      ((∀ f ∈ walk E.H false (E.ucls u), E.fac f u = none) →
        (solveLeaf E st u inp).1.heap.marks (solveLeaf E st u inp).2.1 = preOutMarks E st u inp ++ [.own u]) := by
  obtain ⟨ip, op, _, hop, hsame, hnew, hm, _⟩ := out_profile_is_last_pre_output E st u inp hin
  obtain ⟨a1, _, _, _⟩ := chain_frame E true u (walk E.H true (E.ucls u)) st.heap inp hin
  -- the out profile exists when `init_solve` is done
  have hlt : op < (initSolve E st u inp).1.heap.n := by
    rw [initSolve_heap_n]
    cases ho : st.uout u with
    | some o =>
      have := hsame o ho
      have := hwf o ho
      have : st.heap.n ≤ (preChain E st u inp).1.n := a1
      simp; omega
    | none =>
      rw [initSolve_uout] at hop
      simp [ho] at hop
      simp; omega
  have hgd : ((ownStep (initSolve E st u inp).1 u).uout u).getD 0 = op := by rw [ownStep_uout, hop]; rfl
  have hown : (ownStep (initSolve E st u inp).1 u).heap.marks op = preOutMarks E st u inp ++ [.own u] := by
    rw [ownStep_marks, hop]
    simp only [Option.getD_some, if_true]
    rw [hm]; rfl
  obtain ⟨b1, b2, b3, b4⟩ := postChain_frame E (ownStep (initSolve E st u inp).1 u) u
  refine ⟨op, ?_, hsame, ?_, ?_, ?_, ?_⟩
  · rw [solveLeaf_eq, finishSolve_eq]; exact hop
  · rw [solveLeaf_eq, finishSolve_eq]
    show op < (postChain E (ownStep (initSolve E st u inp).1 u) u).1.n
    have : (ownStep (initSolve E st u inp).1 u).heap.n < (postChain E (ownStep (initSolve E st u inp).1 u) u).1.n := b3
    rw [ownStep_n] at this
    omega
  · rw [solveLeaf_eq, finishSolve_eq]
    show (postChain E (ownStep (initSolve E st u inp).1 u) u).1.marks op = _
    rw [b4 op hlt, hown]
  · refine ⟨(postChain E (ownStep (initSolve E st u inp).1 u) u).2.2, leaveEv E (ownStep (initSolve E st u inp).1 u) u,
      ((ownStep (initSolve E st u inp).1 u).heap.alloc ((ownStep (initSolve E st u inp).1 u).heap.marks op)).1,
      ?_, ?_, ?_, chain_threads _ _ _ _ _ _, chain_lastRet _ _ _ _ _ _⟩
    · rw [solveLeaf_eq, finishSolve_eq]
    · unfold postChain; rw [hgd]; rfl
    · rw [hown]; simp [Heap.alloc, ownStep_n]
  · intro hn
    rw [solveLeaf_eq, finishSolve_eq]
    show (postChain E (ownStep (initSolve E st u inp).1 u) u).1.marks (postChain E (ownStep (initSolve E st u inp).1 u) u).2.1 = _
    obtain ⟨c1, c2⟩ := chain_all_none E false u (walk E.H false (E.ucls u))
      ((ownStep (initSolve E st u inp).1 u).heap.alloc
        ((ownStep (initSolve E st u inp).1 u).heap.marks (((ownStep (initSolve E st u inp).1 u).uout u).getD 0))).1
      (ownStep (initSolve E st u inp).1 u).heap.n hn
    unfold postChain
    rw [c1, c2, hgd, hown]
    simp [Heap.alloc]

/-- **a later solve of the same unit re-uses its out profile and refreshes it from the last pre-processor's output of
THAT solve**: after a solve under `E`, `init_solve` of a solve under `E'` on the profile `inp'` leaves `out_profile`
the SAME object `op` the first solve left, now carrying what the last pre-processor returned at this solve - the same
as the new `in_profile` object `ip ≠ op`. -/
theorem resolve_out_profile_is_last_pre_output (E E' : Env) (st : RState) (u inp inp' : Nat)
    (hin : inp < st.heap.n) (hwf : ∀ o, st.uout u = some o → o < st.heap.n)
    (hin' : inp' < (solveLeaf E st u inp).1.heap.n) :
    ∃ op, (solveLeaf E st u inp).1.uout u = some op ∧
      (initSolve E' (solveLeaf E st u inp).1 u inp').1.uout u = some op ∧
      (initSolve E' (solveLeaf E st u inp).1 u inp').1.heap.marks op =
        preOutMarks E' (solveLeaf E st u inp).1 u inp' ∧
      ∃ ip, (initSolve E' (solveLeaf E st u inp).1 u inp').1.uin u = some ip ∧ ip ≠ op ∧
        (initSolve E' (solveLeaf E st u inp).1 u inp').1.heap.marks ip =
          preOutMarks E' (solveLeaf E st u inp).1 u inp' := by
  obtain ⟨op, hop, _, hlt, _⟩ := solve_hands_on_last_pre_output E st u inp hin hwf
  obtain ⟨h1, _, _, _, _⟩ := init_solve_touches_only_its_input E' (solveLeaf E st u inp).1 u inp' hin'
  obtain ⟨b1, b2⟩ := h1 op hop
  obtain ⟨_, _, _, ip, hip, hge, _, hm⟩ := in_profile_is_last_pre_output E' (solveLeaf E st u inp).1 u inp' hin'
  exact ⟨op, hop, b1, b2, ip, hip, by omega, hm⟩

/-- **inside a sequence**: the sequence's own pre-chain, then its iterations (each: own marker, then the members in
list order, each member a complete `solve` of its own that receives what its predecessor returned), then the
sequence's post-chain -/
theorem seq_pre_before_own_before_post (E : Env) (st : RState) (s : Nat) (subs : List Nat) (iters inp : Nat) :
    ∃ pre mid post lv, (solveSeq E st s subs iters inp).2.2 = .enter s inp :: pre ++ mid ++ (post ++ [lv]) ∧
      (∀ e ∈ pre, e.phase = some true) ∧ (∀ e ∈ post, e.phase = some false) ∧ lv.phase = none ∧
      consults pre = walk E.H true (E.ucls s) ∧ consults post = walk E.H false (E.ucls s) ∧
      mid = (iterate E s subs iters (ownStep (initSolve E st s inp).1 s)).2 ∧ ConsultsOwnClass E mid := by
  rw [solveSeq_eq]
  refine ⟨(initSolve E st s inp).2, _, (postChain E (iterate E s subs iters (ownStep (initSolve E st s inp).1 s)).1 s).2.2,
    leaveEv E (iterate E s subs iters (ownStep (initSolve E st s inp).1 s)).1 s, rfl, ?_, chain_phase _ _ _ _ _ _, rfl, ?_,
    chain_consults _ _ _ _ _ _, rfl, iterate_consultsOwn _ _ _ _ _⟩
  · rw [initSolve_evs]; exact chain_phase _ _ _ _ _ _
  · rw [initSolve_evs]; exact chain_consults _ _ _ _ _ _

/-- one iteration of a sequence: the members are solved in list order, each a complete leaf `solve` on the
profile its predecessor returned (the first on the sequence's `in_profile`) -/
theorem members_threaded (E : Env) (c : Nat) (cs : List Nat) (st : RState) (cur : Nat) :
    solveSubs E (c :: cs) st cur =
      ((solveSubs E cs (solveLeaf E st c cur).1 (solveLeaf E st c cur).2.1).1,
       (solveSubs E cs (solveLeaf E st c cur).1 (solveLeaf E st c cur).2.1).2.1,
       (solveLeaf E st c cur).2.2 ++ (solveSubs E cs (solveLeaf E st c cur).1 (solveLeaf E st c cur).2.1).2.2) :=
  solveSubs_cons E c cs st cur

/-- **the following unit continues from it**: in a round of a sequence - from ANY state, so in the first round as in
every later one, where every member's out profile is re-used - the member `d` behind a member `c` without
post-processors is entered with the profile `c`'s solve returned, and that profile carries the output of `c`'s last
pre-processor followed by `c`'s own mark (with post-processors: `solve_hands_on_last_pre_output`, the chain starts on
that). -/
theorem sequence_member_hands_on_last_pre_output (E : Env) (c d : Nat) (cs : List Nat) (st : RState) (cur : Nat)
    (hin : cur < st.heap.n) (hwf : ∀ o, st.uout c = some o → o < st.heap.n)
    (hn : ∀ f ∈ walk E.H false (E.ucls c), E.fac f c = none) :
    ∃ r rest, (solveSubs E (c :: d :: cs) st cur).2.2 = (solveLeaf E st c cur).2.2 ++ .enter d r :: rest ∧
      r = (solveLeaf E st c cur).2.1 ∧
      (solveLeaf E st c cur).1.heap.marks r = preOutMarks E st c cur ++ [.own c] := by
  obtain ⟨_, _, _, _, _, _, h6⟩ := solve_hands_on_last_pre_output E st c cur hin hwf
  rw [solveSubs_cons, solveSubs_cons, solveLeaf_eq E (solveLeaf E st c cur).1 d]
  exact ⟨(solveLeaf E st c cur).2.1, _, rfl, rfl, h6 hn⟩

/-- **scope while solving a sequence**: whatever is consulted anywhere in the trace – for the sequence itself or for
a member, in any iteration – is a factory that the walk of THAT unit's class yields: registrations on the
sequence's class do not reach the members and vice versa -/
theorem sequence_consults_own_classes (E : Env) (st : RState) (s : Nat) (subs : List Nat) (iters inp : Nat) :
    ConsultsOwnClass E (solveSeq E st s subs iters inp).2.2 := by
  rw [solveSeq_eq]
  refine ConsultsOwnClass.append (ConsultsOwnClass.append
    (ConsultsOwnClass.cons_other (by intro w f v h; cases h) ?_) (iterate_consultsOwn _ _ _ _ _)) ?_
  · rw [initSolve_evs]; exact chain_consultsOwn E true s _ _
  · rw [finishSolve_eq]
    refine ConsultsOwnClass.append (chain_consultsOwn E false s _ _) ?_
    intro e he w f v hev
    simp only [List.mem_singleton] at he
    subst he
    cases hev

/-! ## 8. The hypothesis `OwnLists` cannot be dropped (observation O1 of notes/C18.md) -/

/-- the preamble of the harness: the library's unit classes `Unit`=0, `PassSequence`=1, `DiskElementUnit`=2,
`Transport`=3, `Rotator`=4, `DeformationUnit`=5, `BaseRollPass`=6, `SymmetricRollPass`=7, `TwoRollPass`=8,
`ThreeRollPass`=9, `CoolingPipe`=10 with their real MRO tails, and the one registration the library makes itself:
the auto-rotator factory (id 900) as pre-processor on `BaseRollPass`.  (driver/props/c18.py derives the same lines
from the real classes on every run and sends them to the model.) -/
def libOps : List COp :=
  [.defClass [] .unitImpl true, .defClass [0] .absent false, .defClass [0] .absent false,
   .defClass [2, 0] .absent false, .defClass [0] .absent false, .defClass [0] .absent false,
   .defClass [2, 5, 0] .absent false, .defClass [6, 2, 5, 0] .absent false, .defClass [7, 6, 2, 5, 0] .absent false,
   .defClass [7, 6, 2, 5, 0] .absent false, .defClass [3, 2, 0] .absent false,
   .register true 6 900]

/-- the library classes, then `A(Unit)`=11 whose `__init_subclass__` does not call `super()`, then `B(A)`=12; a
pre-processor factory `0` registered on `A`, a post-processor factory `1` registered through `B`.  (Corpus history 4
of driver/props/c18.py — the implementation shows exactly this behaviour.) -/
def swallowOps : List COp :=
  libOps ++ [.defClass [0] .noncoop false, .defClass [11, 0] .absent false,
   .register true 11 0, .register false 12 1]

/-- `B` got no lists of its own, so (i) the `getattr` walk yields `A`'s factory a second time for instances of `B`,
where the specification has it once, and (ii) the registration made through `B` landed in `A`'s list and applies
to instances of the BASE class `A`.  `OwnLists` fails for `B`, and the history is not cooperative. -/
theorem getattr_walk_consults_twice :
    walk (run init swallowOps) true 12 = [0, 0] ∧ yieldOf (run init swallowOps) true 12 = [0] ∧
    (run init swallowOps).lists false 12 = none ∧ walk (run init swallowOps) false 11 = [1] ∧
    ¬ OwnLists (run init swallowOps) true 12 ∧ ¬ CoopRun init swallowOps := by
  refine ⟨by decide, by decide, by decide, by decide, ?_, ?_⟩
  · intro h
    have := h.own 12 (by decide) (by decide)
    revert this
    decide
  · decide

/-! ## 9. Non-vacuity: concrete instances of the hypotheses -/

/-- `Unit`=0, `A(Unit)`=1, `B(A)`=2, `S(A)`=3 (sibling of `B`), a mix-in `M`=4 that is no unit, registrations on
`Unit`, `A`, `A`, `B` (pre) and `A`, `B` (post), THEN `C(B, M)`=5 and the diamond `D(B, S)`=6 with a cooperative
`__init_subclass__` override, then a late registration on `S`. -/
def exOps : List COp :=
  [.defClass [] .unitImpl true, .defClass [0] .absent false, .defClass [1, 0] .absent false,
   .defClass [1, 0] .absent false, .defClass [] .absent false,
   .register true 0 10, .register true 1 11, .register true 1 12, .register true 2 13,
   .register false 1 14, .register false 2 15,
   .defClass [2, 1, 0, 4] .absent false, .defClass [2, 3, 1, 0] .coop false,
   .register true 3 16]

def exH : Hier := run init exOps

example : CoopRun init exOps := by decide

example : RegRun init exOps := by decide

/-- `coop_history_ownLists` applies -/
example : OwnLists exH true 6 :=
  coop_history_ownLists exOps (by decide) true 6 (by decide)

/-- `base_before_derived`, `base_registration_runs_first`: `A` (=1) stands behind `B` (=2) in the MRO of `D` (=6) -/
example : exH.mro 6 = [6] ++ 2 :: ([3] ++ 1 :: [0]) := by decide
example : 11 ∈ ownList exH true 1 ∧ 13 ∈ ownList exH true 2 := by decide
example : walk exH true 6 = [10, 11, 12, 16, 13] := by decide
/-- the class defined after the registrations (`C` = 5) yields them; the sibling `S` (=3) does not see `B`'s -/
example : walk exH true 5 = [10, 11, 12, 13] ∧ walk exH false 5 = [14, 15] ∧ walk exH true 3 = [10, 11, 12, 16] ∧
    walk exH false 3 = [14] := by decide
/-- `registration_order_within_class`, `scope_class_and_subclasses_only`, `siblings_isolated`: hypotheses hold for
`B` (=2, not in the MRO of `S` = 3) -/
example : exH.lists true 2 = some [13] ∧ exH.mro 2 = 2 :: [1, 0] ∧ 2 ∉ exH.mro 3 ∧ 2 ∈ exH.mro 6 := by decide
example : walk (register exH true 2 17).1 true 6 = [10, 11, 12, 16, 13, 17] ∧
    walk (register exH true 2 17).1 true 3 = [10, 11, 12, 16] := by decide
/-- `own_list_is_registration_log` -/
example : regsOn true 1 exOps = [11, 12] ∧ ownList exH true 1 = [11, 12] := by decide
/-- `later_subclass_inherits`: defining `C` when `B` already holds 13 -/
example : reaches (run init (exOps.take 11)).isub [2, 1, 0, 4] = true ∧
    13 ∈ ownList (run init (exOps.take 11)) true 2 := by decide

/-- a run: unit 0 of class `D` (=6), unit 1 of class `S` (=3), sequence 2 of class `C`… factories 12 and 15 return
nothing, processor 111 copies, 113 returns what it got, the others write in place -/
def exE : Env :=
  { H := exH
    ucls := fun u => if u = 0 then 6 else if u = 1 then 3 else 5
    fac := fun f _ => if f = 12 ∨ f = 15 then none else some (f + 100)
    beh := fun p => if p = 111 then .fresh else if p = 113 then .same else .inplace }

def exSt : RState := { RState.init with heap := (RState.init.heap.alloc []).1 }

/-- `none_skipped`, `none_does_not_stop_the_chain`, `pre_before_own_before_post`, `in_profile_is_last_pre_output`
(`0 < exSt.heap.n`), `post_does_not_touch_unit_state` on a concrete solve -/
example : (solveLeaf exE exSt 0 0).2.2 =
    [.enter 0 0, .consult true 10 0, .proc true 110 0 0, .consult true 11 0, .proc true 111 0 1,
     .consult true 12 0, .consult true 16 0, .proc true 116 1 1, .consult true 13 0, .proc true 113 1 1,
     .own 0, .consult false 14 0, .proc false 114 4 4, .consult false 15 0,
     .leave 0 4 2 3 [.proc 110, .proc 111, .proc 116, .own 0, .proc 114] [.proc 110, .proc 111, .proc 116]
       [.proc 110, .proc 111, .proc 116, .own 0]] := by decide

example : exE.fac 12 0 = none ∧ 0 < exSt.heap.n := by decide

/-- `solve_runs_what_factories_return_now`, `resolve_asks_factories_again`: unit 0 (class `D`) solved under `exE`,
then – its state changed – under `exE'` where factory 11 (a processor before) returns nothing and factory 12 (nothing
before) returns processor 112, likewise 14 / 15 of the post-processors.  (Corpus history 5 of driver/props/c18.py
does the same on the implementation with `setflag`.) -/
def exE' : Env :=
  { exE with fac := fun f _ => if f = 11 ∨ f = 14 then none else some (f + 100) }

example : procsRun (solveLeaf exE exSt 0 0).2.2 = [110, 111, 116, 113, 114] ∧
    procsRun (solveLeaf exE' (solveLeaf exE exSt 0 0).1 0 0).2.2 = [110, 112, 116, 113, 115] ∧
    consults (solveLeaf exE' (solveLeaf exE exSt 0 0).1 0 0).2.2 = [10, 11, 12, 16, 13, 14, 15] := by decide

/-- `init_solve_touches_only_its_input` on a RE-SOLVE: the state unit 0 (class `D`) was left in by a solve under `exE`
(`out_profile` = object 3 carrying the marks 110, 111, 116 and the own mark), solved again under `exE'` on profile 0
(which the in-place processor 110 marked at the first solve): `out_profile` is still object 3, `in_profile` a new
object (5), and object 3 now carries exactly what the last pre-processor returned at THIS solve - the marks of the
earlier solve (111, own 0) are gone -/
def exSt1 : RState := (solveLeaf exE exSt 0 0).1

example : exSt1.uout 0 = some 3 ∧ 0 < exSt1.heap.n ∧
    exSt1.heap.marks 3 = [.proc 110, .proc 111, .proc 116, .own 0] := by decide
example : (initSolve exE' exSt1 0 0).1.uout 0 = some 3 ∧ (initSolve exE' exSt1 0 0).1.uin 0 = some 5 ∧
    lastRet 0 (initSolve exE' exSt1 0 0).2 = 0 ∧
    (initSolve exE' exSt1 0 0).1.heap.marks 3 = [.proc 110, .proc 110, .proc 112, .proc 116] ∧
    (initSolve exE' exSt1 0 0).1.heap.marks 0 = [.proc 110, .proc 110, .proc 112, .proc 116] := by decide

/-- `out_profile_is_last_pre_output`, `resolve_out_profile_is_last_pre_output` on a RE-SOLVE in which a pre-processor
hands back a NEW object: `exSt1` solved again under `exE` on profile 0 (which carries `[110]` from the first solve).
110 marks object 0 in place, 111 returns the new object 5, 116 marks that: the last pre-processor's output is object 5
with `[110, 110, 111, 116]`, while the profile as the CALLER passed it (object 0) carries `[110, 110]`.  `in_profile` is
the new object 6, `out_profile` is STILL object 3, and both carry what object 5 carries - not what object 0 carries. -/
example : 0 < exSt1.heap.n ∧ lastRet 0 (initSolve exE exSt1 0 0).2 = 5 ∧
    (initSolve exE exSt1 0 0).1.uin 0 = some 6 ∧ (initSolve exE exSt1 0 0).1.uout 0 = some 3 ∧
    preOutMarks exE exSt1 0 0 = [.proc 110, .proc 110, .proc 111, .proc 116] ∧
    (initSolve exE exSt1 0 0).1.heap.marks 3 = [.proc 110, .proc 110, .proc 111, .proc 116] ∧
    (initSolve exE exSt1 0 0).1.heap.marks 6 = [.proc 110, .proc 110, .proc 111, .proc 116] ∧
    (initSolve exE exSt1 0 0).1.heap.marks 0 = [.proc 110, .proc 110] := by decide

/-- the hypotheses of `solve_hands_on_last_pre_output` / `resolve_out_profile_is_last_pre_output` /
`sequence_member_hands_on_last_pre_output` hold of `exSt` (no out profile yet) and of `exSt1` (out profile = object 3) -/
example : (∀ o, exSt.uout 0 = some o → o < exSt.heap.n) ∧ (∀ o, exSt1.uout 0 = some o → o < exSt1.heap.n) := by
  refine ⟨fun o h => ?_, fun o h => ?_⟩
  · have h0 : exSt.uout 0 = none := by decide
    rw [h0] at h; cases h
  · have h3 : exSt1.uout 0 = some 3 := by decide
    rw [h3] at h; cases h; decide

/-- the factories as in `exE`, but no post-processor for any unit (14, 15 return nothing) and 12 returns nothing -/
def exE2 : Env :=
  { exE with fac := fun f _ => if f = 12 ∨ f = 14 ∨ f = 15 then none else some (f + 100) }

/-- `solve_hands_on_last_pre_output` on that re-solve: `out_profile` (object 3) and - no post-processor running - the
returned profile (object 7) carry the last pre-processor's output followed by the own mark; the marks of the first
solve (`111`, `own 0` once each) are not kept -/
example : (∀ f ∈ walk exE2.H false (exE2.ucls 0), exE2.fac f 0 = none) ∧
    (solveLeaf exE2 exSt1 0 0).1.uout 0 = some 3 ∧ (solveLeaf exE2 exSt1 0 0).2.1 = 7 ∧
    (solveLeaf exE2 exSt1 0 0).1.heap.marks 3 = [.proc 110, .proc 110, .proc 111, .proc 116, .own 0] ∧
    (solveLeaf exE2 exSt1 0 0).1.heap.marks 7 = [.proc 110, .proc 110, .proc 111, .proc 116, .own 0] := by decide

/-- `sequence_member_hands_on_last_pre_output`: a round over the members 0, 1 started from `exSt1` - member 1 is
entered with object 7, the profile member 0 returned -/
example : ((solveSubs exE2 [0, 1] exSt1 0).2.2.filter (fun e => e.phase.isNone ∧ e.consulted.isNone)).take 3 =
    [.enter 0 0, .own 0, .leave 0 7 6 3 [.proc 110, .proc 110, .proc 111, .proc 116, .own 0]
      [.proc 110, .proc 110, .proc 111, .proc 116] [.proc 110, .proc 110, .proc 111, .proc 116, .own 0]] ∧
    .enter 1 7 ∈ (solveSubs exE2 [0, 1] exSt1 0).2.2 := by decide

/-- `registration_between_base_and_subclass` on the library's hierarchy: `K(TwoRollPass)`=11, `L(K)`=12 defined after
the library classes; registrations on `TwoRollPass`, `DeformationUnit`, `Unit`, `BaseRollPass` (after the library's
own 900), `DiskElementUnit`, `L`.  The history is cooperative, so `OwnLists` holds for `L`; `BaseRollPass` (=6) stands
behind `TwoRollPass` (=8) and before `DeformationUnit` (=5) in the MRO of `L`; the walk has the auto-rotator after the
registrations on `Unit`, `DeformationUnit`, `DiskElementUnit` and before those on `BaseRollPass` (later), `TwoRollPass`,
`L`.  (Corpus history 7 of driver/props/c18.py solves real roll passes of these classes.) -/
def rollOps : List COp :=
  libOps ++ [.defClass [8, 7, 6, 2, 5, 0] .absent false, .defClass [11, 8, 7, 6, 2, 5, 0] .absent false,
   .register true 8 4, .register true 5 1, .register true 0 0, .register true 6 2, .register true 2 3,
   .register true 12 5]

example : CoopRun init rollOps := by decide
example : OwnLists (run init rollOps) true 12 := coop_history_ownLists rollOps (by decide) true 12 (by decide)
example : (run init rollOps).mro 12 = [12, 11] ++ 8 :: ([7] ++ 6 :: ([2] ++ 5 :: [0])) := by decide
example : 1 ∈ ownList (run init rollOps) true 5 ∧ 900 ∈ ownList (run init rollOps) true 6 ∧
    4 ∈ ownList (run init rollOps) true 8 := by decide
example : walk (run init rollOps) true 12 = [0, 1, 3, 900, 2, 4, 5] ∧ walk (run init rollOps) true 9 = [0, 1, 3, 900, 2] ∧
    walk (run init rollOps) true 10 = [0, 3] ∧ walk (run init rollOps) true 4 = [0] := by decide

/-- `seq_pre_before_own_before_post`, `sequence_consults_own_classes`: sequence 2 (class `C`) with members 0 and 1,
two iterations -/
example : consults (solveSeq exE exSt 2 [0, 1] 2 0).2.2 =
    [10, 11, 12, 13,  10, 11, 12, 16, 13, 14, 15,  10, 11, 12, 16, 14,
     10, 11, 12, 16, 13, 14, 15,  10, 11, 12, 16, 14,  14, 15] := by decide

/-! ## 10. What the source says (tie T)

`Gen.C18` holds the statements of the code the property is about, as read from the current source
(`driver/translate/c18_procs.py`).  The theorems of this section run those programs (`PyrollModel/ProcProg.lean`:
what one instruction does) and prove - for EVERY class table, registration state, environment of factories, unit,
heap and profile, by unfolding - that the result is what the hand-written model does.  So the theorems of sections
1-8, which speak of `defClass`, `walk`, `chain`, `initSolve`, `finishSolve`, `solveLeaf`, `solveSubs`, `iterate`,
`solveSeq`, are theorems about what the source says; a source change that alters a program either leaves these
proofs intact (nothing observable changed) or makes this file stop building (broken tie).

CONSUMED (general proof): the class attributes of `Unit`'s body and `Unit.__init_subclass__`
(`defClass_program_refines_defClass`), `_yield_pre_processors` / `_yield_post_processors`
(`walk_program_refines_walk`), the two factory loops (`pre_loop_/post_loop_program_refines_chain`), `init_solve`
(`init_solve_program_refines_initSolve`, including the re-use branch for an existing out profile: what it does to a
public non-root entry that both profiles hold - the marks - is computed from the literals of its delete and set
conditions), `_solve_subunits` (`members_/solve_subunits_program_refines_solveSubs`), the
solution loop (`solution_loop_program_refines_iterate`), `solve` as a whole (`solve_/leaf_/seq_program_refines_…`).
PINNED (`decide`d equality, `library_as_modelled`): which unit classes of pyroll/core override one of the watched
names (today: two `init_solve` overrides, pinned statement by statement - both call `super().init_solve` first and
then touch neither processors nor the profile objects' identity), every other statement of pyroll/core that
mentions the lists / walk methods (today: the one registration in roll_pass/base.py), that registration itself, the
initial `None` of `in_profile` / `out_profile`, and that the class table `libOps` used in sections 8 and 9 is the
one the `class` statements give. -/

section Source
open Gen.C18
set_option linter.unusedSimpArgs false

/-! ### classes and the walk -/

/-- `class C(…)` as the source has it (the body of `Unit` with its two attributes, `Unit.__init_subclass__` run for
every class whose `__init_subclass__` chain reaches it) is the model's `defClass`, for every hierarchy, MRO tail,
kind of `__init_subclass__` and for `Unit` itself (`body`) -/
theorem defClass_program_refines_defClass (H : Hier) (tail : List Nat) (isub : InitSub) (body : Bool) :
    runDefClass Gen.C18.unit_body Gen.C18.init_subclass H tail isub body = some (defClass H tail isub body) := by
  simp only [runDefClass, Gen.C18.unit_body, Gen.C18.init_subclass, translated, assigns, defClass]
  simp only [Bool.and_self, if_true, Option.some.injEq]
  congr 1
  funext w k
  cases w <;> simp

/-- a subclass of `Unit` defined after registrations on its base gets two NEW empty lists -/
example : ((runDefClass Gen.C18.unit_body Gen.C18.init_subclass (run init (exOps.take 11)) [2, 1, 0, 4] .absent false).map
    (fun H => (H.lists true 5, H.lists false 5, H.lists true 2))) = some (some [], some [], some [13]) := by decide
/-- without `__init_subclass__` (lists shared with the base class) the program does NOT refine the model -/
example : ((runDefClass Gen.C18.unit_body { defined := false, body := [] } (run init (exOps.take 11)) [2, 1, 0, 4]
    .absent false).map (fun H => H.lists true 5)) ≠
    some ((defClass (run init (exOps.take 11)) [2, 1, 0, 4] .absent false).lists true 5) := by decide

/-- `_yield_pre_processors` (`w = true`) / `_yield_post_processors` as the source has them yield exactly the model's
`walk`, for every hierarchy and class -/
theorem walk_program_refines_walk (H : Hier) (w : Bool) (c : Nat) :
    srcProgs.walk H w c = some (walk H w c) := by
  cases w
  · simp only [Progs.walk, srcProgs, runWalk, Gen.C18.yield_post, if_true, walk, Bool.false_eq_true, if_false]
    apply collect_total
    intro s
    simp only [walkStep, Kind.isPre]
    cases lookup (H.lists false) (H.mro s) <;> rfl
  · simp only [Progs.walk, srcProgs, runWalk, Gen.C18.yield_pre, if_true, walk]
    apply collect_total
    intro s
    simp only [walkStep, Kind.isPre]
    cases lookup (H.lists true) (H.mro s) <;> rfl

example : srcProgs.walk exH true 6 = some [10, 11, 12, 16, 13] ∧ srcProgs.walk exH false 5 = some [14, 15] := by decide
/-- the walk without `reversed`, or reading the list of the other kind, does NOT refine the model -/
example : runWalk { Gen.C18.yield_pre with order := .mroForward } exH 6 ≠ some (walk exH true 6) ∧
    runWalk { Gen.C18.yield_pre with kind := .post } exH 6 ≠ some (walk exH true 6) := by decide
/-- a walk over the classes' own `__dict__` differs where a class has no list of its own (observation O1) -/
example : runWalk { Gen.C18.yield_pre with lookup := .ownDict } (run init swallowOps) 12 ≠
    some (walk (run init swallowOps) true 12) := by decide

/-- hence the order theorem speaks about the source: under `OwnLists` the source's walk is the concatenation of the
classes' own lists along the reversed MRO -/
theorem source_walk_is_spec (H : Hier) (w : Bool) (c : Nat) (h : OwnLists H w c) :
    srcProgs.walk H w c = some ((H.mro c).reverse.flatMap (ownList H w)) := by
  rw [walk_program_refines_walk, walk_eq_spec H w c h]

example : OwnLists exH true 6 := coop_history_ownLists exOps (by decide) true 6 (by decide)

/-! ### the factory loops -/

/-- the loop of `init_solve` (`p = factory(self)`, `None` → `continue`, `in_profile = p.solve(in_profile)`) over ANY
list of factories is the model's `chain` on the method's profile parameter; nothing else of the frame changes -/
theorem pre_loop_program_refines_chain (E : Env) (u : Nat) (fs : List Nat) (e : MEnv) :
    runLoop E true u Gen.C18.pre_loop.body fs e =
      some ({ e with st := { e.st with heap := (chain E true u fs e.st.heap e.arg).1 },
                     arg := (chain E true u fs e.st.heap e.arg).2.1 },
            (chain E true u fs e.st.heap e.arg).2.2) := by
  induction fs generalizing e with
  | nil => rfl
  | cons f fs ih =>
    simp only [Gen.C18.pre_loop] at ih
    cases hf : E.fac f u with
    | none =>
      simp only [runLoop, Gen.C18.pre_loop, execBody, hf, ih, chain]
      rfl
    | some p =>
      simp only [runLoop, Gen.C18.pre_loop, execBody, hf, ih, chain, MEnv.get, MEnv.setOpt, MEnv.set, MEnv.withHeap]
      rfl

/-- the loop of `solve` over ANY list of factories is the model's `chain` on the local holding the returned profile -/
theorem post_loop_program_refines_chain (E : Env) (u : Nat) (fs : List Nat) (e : MEnv) (cur : Nat)
    (hl : e.loc = some cur) :
    runLoop E false u Gen.C18.post_loop.body fs e =
      some ({ e with st := { e.st with heap := (chain E false u fs e.st.heap cur).1 },
                     loc := some (chain E false u fs e.st.heap cur).2.1 },
            (chain E false u fs e.st.heap cur).2.2) := by
  induction fs generalizing e cur with
  | nil => simp [runLoop, chain, ← hl]
  | cons f fs ih =>
    simp only [Gen.C18.post_loop] at ih
    cases hf : E.fac f u with
    | none =>
      simp only [runLoop, Gen.C18.post_loop, execBody, hf, ih _ _ hl, chain]
      rfl
    | some p =>
      simp only [runLoop, Gen.C18.post_loop, execBody, hf, chain, MEnv.get, MEnv.setOpt, MEnv.set, MEnv.withHeap, hl]
      rw [ih _ (applyProc E.beh e.st.heap p cur).2 rfl]
      rfl

example : ((runLoop exE true 0 Gen.C18.pre_loop.body [10, 11, 12, 16, 13] { st := exSt, arg := 0 }).map (·.2)) =
    some [.consult true 10 0, .proc true 110 0 0, .consult true 11 0, .proc true 111 0 1,
     .consult true 12 0, .consult true 16 0, .proc true 116 1 1, .consult true 13 0, .proc true 113 1 1] := by decide
example : ({ st := exSt, arg := 0, loc := some 0 } : MEnv).loc = some 0 := rfl
/-- `break` instead of `continue`, a `None` that is not skipped (python raises), a result that is dropped: none of
these loops refines the model's chain -/
example :
    (runLoop exE true 0 [.callFactory, .ifNone .stop, .logProc, .solve (some .arg) .arg] [11, 12, 16]
      { st := exSt, arg := 0 }).map (·.2) ≠ some (chain exE true 0 [11, 12, 16] exSt.heap 0).2.2 ∧
    (runLoop exE true 0 [.callFactory, .logProc, .solve (some .arg) .arg] [11, 12, 16]
      { st := exSt, arg := 0 }).map (·.2) ≠ some (chain exE true 0 [11, 12, 16] exSt.heap 0).2.2 ∧
    (runLoop exE true 0 [.callFactory, .ifNone .skip, .logProc, .solve none .arg] [11, 12, 16]
      { st := exSt, arg := 0 }).map (·.2) ≠ some (chain exE true 0 [11, 12, 16] exSt.heap 0).2.2 := by decide

/-! ### `init_solve` -/

/-- `Unit.init_solve` as the source has it is the model's `initSolve`: the pre-processor chain over the source's walk,
`InProfile` built from the LAST pre-processor's output, and `OutProfile` built from it at the first solve resp. the
existing out profile refreshed from it at a re-solve (the re-use branch as read: `Gen.C18.out_refresh`) -/
theorem init_solve_program_refines_initSolve (E : Env) (st : RState) (u inp : Nat) :
    runInitSolve srcProgs E u st inp = some (initSolve E st u inp) := by
  have hw : srcProgs.walk E.H = fun w c => some (walk E.H w c) := by
    funext w c; exact walk_program_refines_walk E.H w c
  have hc := pre_loop_program_refines_chain E u (walk E.H true (E.ucls u)) { st := st, arg := inp }
  simp only [Gen.C18.pre_loop] at hc
  simp only [runInitSolve, initCallees, hw]
  simp only [srcProgs, Gen.C18.init_solve, Gen.C18.pre_loop, execS, Kind.isPre]
  cases ho : st.uout u with
  | none => simp [hc, MEnv.get, MEnv.set, MEnv.withHeap, initSolve, ho, Heap.alloc]
  | some o =>
    simp [hc, MEnv.get, MEnv.set, MEnv.withHeap, initSolve, ho, Heap.alloc, Heap.setMarks, Gen.C18.out_refresh,
      refreshMarks, litHolds]

example : (runInitSolve srcProgs exE 0 exSt 0).map (fun r => (r.1.uin 0, r.1.uout 0, r.1.heap.marks 2)) =
    some (some 2, some 3, [.proc 110, .proc 111, .proc 116]) := by decide
/-- … and on a re-solve (the out profile, object 3, exists) -/
example : (runInitSolve srcProgs exE' 0 exSt1 0).map (fun r => (r.1.uin 0, r.1.uout 0, r.1.heap.marks 3)) =
    some (some 5, some 3, [.proc 110, .proc 110, .proc 112, .proc 116]) := by decide
/-- an `init_solve` that leaves a re-used out profile as it is (no re-use branch), one whose re-use branch hands over
from a copy of the profile the CALLER handed in (second local), and one whose set loop skips entries
that are present, do NOT refine the model on a re-solve -/
example :
    (execS exE' (initCallees srcProgs exE') 0
      [.loop Gen.C18.pre_loop, .newIn .arg, .newOut .arg true]
      { st := exSt1, arg := 0 }).map (fun r => r.1.st.heap.marks 3) ≠ some ((initSolve exE' exSt1 0 0).1.heap.marks 3) ∧
    (execS exE' (initCallees srcProgs exE') 0
      [.publicCopy .loc .arg, .loop Gen.C18.pre_loop, .newIn .arg,
       .newOrRefreshOut .arg { Gen.C18.out_refresh with src := .loc }]
      { st := exSt1, arg := 0 }).map (fun r => r.1.st.heap.marks 3) ≠ some ((initSolve exE' exSt1 0 0).1.heap.marks 3) ∧
    (execS exE' (initCallees srcProgs exE') 0
      [.loop Gen.C18.pre_loop, .newIn .arg, .newOrRefreshOut .arg { Gen.C18.out_refresh with set := [.isPresent false] }]
      { st := exSt1, arg := 0 }).map (fun r => r.1.st.heap.marks 3) ≠ some ((initSolve exE' exSt1 0 0).1.heap.marks 3) := by
  decide
/-- `InProfile` built from the profile the caller handed in (kept in a second local) instead of the last
pre-processor's output does NOT refine the model -/
example : (execS exE (initCallees srcProgs exE) 0
      [.bind .loc .arg, .loop Gen.C18.pre_loop, .newIn .loc, .newOut .arg true]
      { st := exSt, arg := 0 }).map (fun r => r.1.st.heap.marks 2) ≠
    some ((initSolve exE exSt 0 0).1.heap.marks 2) := by decide

/-- hence `out_profile_is_last_pre_output` speaks about the source: running the source's `init_solve` from ANY state
leaves `self.out_profile` - a new object at the first solve, the SAME object at every later one - carrying what the
last pre-processor returned, like `self.in_profile` -/
theorem source_out_profile_is_last_pre_output (E : Env) (st : RState) (u inp : Nat) (hin : inp < st.heap.n) :
    ∃ r ip op, runInitSolve srcProgs E u st inp = some r ∧ r.1.uin u = some ip ∧ r.1.uout u = some op ∧
      (∀ o, st.uout u = some o → op = o) ∧ (st.uout u = none → st.heap.n ≤ op ∧ op ≠ ip) ∧
      r.1.heap.marks op = r.1.heap.marks (lastRet inp r.2) ∧ r.1.heap.marks op = r.1.heap.marks ip := by
  obtain ⟨ip, op, h⟩ := out_profile_is_last_pre_output E st u inp hin
  exact ⟨_, ip, op, init_solve_program_refines_initSolve E st u inp, h⟩

example : (runInitSolve srcProgs exE 0 exSt1 0).map (fun r => (r.1.uin 0, r.1.uout 0, r.1.heap.marks 3, r.1.heap.marks 0)) =
    some (some 6, some 3, [.proc 110, .proc 110, .proc 111, .proc 116], [.proc 110, .proc 110]) := by decide

/-- **WHICH variable `init_solve` hands over**: every profile variable from which the source's `init_solve` builds
`self.in_profile`, a new `self.out_profile`, and from which its re-use branch takes the entries for an existing out
profile (`handoverRefs`: read from the statements; `self.in_profile` counting as the variable it was just built from)
denotes, after the source's pre-processor loop over ANY factory
list in ANY frame, the output of the last pre-processor (`chain … .2.1`) - the variable the loop rebinds, not a
variable still holding the profile as the caller passed it -/
theorem source_handover_reads_last_pre_output (E : Env) (u : Nat) (fs : List Nat) (e : MEnv) :
    handoverRefs Gen.C18.init_solve ≠ [] ∧
    ∀ r ∈ handoverRefs Gen.C18.init_solve,
      (runLoop E true u Gen.C18.pre_loop.body fs e).map (fun x => x.1.get u r) =
        some (some (chain E true u fs e.st.heap e.arg).2.1) := by
  refine ⟨by decide, ?_⟩
  intro r hr
  rw [pre_loop_program_refines_chain]
  have hall : ∀ r ∈ handoverRefs Gen.C18.init_solve, r = .arg := by decide
  rw [hall r hr]
  rfl

example : handoverRefs Gen.C18.init_solve = [.arg, .arg, .arg] ∧
    Gen.C18.pre_loop.body = [.callFactory, .ifNone .skip, .logProc, .solve (some .arg) .arg] := by decide
/-- a re-use branch that hands over from `self.in_profile` (just built from the loop's variable) reads the same values;
one that reads an in profile built BEFORE the loop does not -/
example : handoverRefs [.loop Gen.C18.pre_loop, .newIn .arg,
      .newOrRefreshOut .arg { Gen.C18.out_refresh with src := .selfIn }] = [.arg, .arg, .arg] ∧
    handoverRefs [.newIn .arg, .loop Gen.C18.pre_loop,
      .newOrRefreshOut .arg { Gen.C18.out_refresh with src := .selfIn }] = [.arg, .arg, .selfIn] := by decide

/-- an `init_solve` whose pre-processor loop runs on a second local (`processed`), with `InProfile` and a NEW
`OutProfile` built from it, but whose re-use branch still hands over from the method's parameter - the profile as the
CALLER passed it, before the pre-processors -/
def rawHandover : List SInstr :=
  [.bind .loc .arg,
   .loop { walk := .pre, body := [.callFactory, .ifNone .skip, .logProc, .solve (some .loc) .loc] },
   .newIn .loc, .newOrRefreshOut .loc { Gen.C18.out_refresh with src := .arg }]

/-- … does what the model does at a FIRST solve, and after in-place pre-processors; at a re-solve in which a
pre-processor hands back a new object the re-used out profile (object 3) gets the caller's `[110, 110]` instead of
the last pre-processor's `[110, 110, 111, 116]`: it does NOT refine the model, and one of its hand-over variables
is not the one its loop rebinds -/
example :
    (execS exE (initCallees srcProgs exE) 0 rawHandover { st := exSt, arg := 0 }).map
        (fun r => (r.1.st.uin 0, r.1.st.uout 0, r.1.st.heap.marks 2, r.1.st.heap.marks 3)) =
      some ((initSolve exE exSt 0 0).1.uin 0, (initSolve exE exSt 0 0).1.uout 0,
        (initSolve exE exSt 0 0).1.heap.marks 2, (initSolve exE exSt 0 0).1.heap.marks 3) ∧
    (execS exE (initCallees srcProgs exE) 0 rawHandover { st := exSt1, arg := 0 }).map
        (fun r => (r.1.st.heap.marks 6, r.1.st.heap.marks 3)) =
      some ([.proc 110, .proc 110, .proc 111, .proc 116], [.proc 110, .proc 110]) ∧
    (execS exE (initCallees srcProgs exE) 0 rawHandover { st := exSt1, arg := 0 }).map (fun r => r.1.st.heap.marks 3) ≠
      some ((initSolve exE exSt1 0 0).1.heap.marks 3) ∧
    handoverRefs rawHandover = [.loc, .loc, .arg] := by decide

/-- what the re-use branch does to the marks (`refreshMarks`, used by the interpreter) is what it does to any public
non-root entry which both profiles hold (`refreshEntry`) -/
theorem refreshMarks_is_refreshEntry (r : Refresh) (old new : List Mark) :
    refreshMarks r old new = (refreshEntry r (some old) (some new)).getD [] := by
  unfold refreshMarks refreshEntry
  simp only [Option.isSome_some, Bool.true_and]
  cases r.delete.all (litHolds { pub := true, root := false, handed := true, present := true }) <;> simp <;>
    split <;> rfl

/-- **the re-use branch as read hands over EVERY public entry that is no root hook** - evaluated on the literals of its
delete and set conditions: a value the last pre-processor's output holds is what the re-used out profile holds
afterwards, whether it held another value under that name (`old = some _`: CHANGED) or none (`old = none`: ADDED); a
value the out profile still held from the earlier solve and which the last pre-processor's output does not have
(`new = none`) is removed. -/
theorem source_reuse_branch_hands_over_every_entry {α : Type} (old new : Option α) :
    refreshEntry Gen.C18.out_refresh old new = new := by
  cases old <;> cases new <;> rfl

example : refreshEntry Gen.C18.out_refresh (some 1) (some 2) = some 2 ∧
    refreshEntry Gen.C18.out_refresh (none : Option Nat) (some 2) = some 2 ∧
    refreshEntry Gen.C18.out_refresh (some 1) (none : Option Nat) = none := by decide
/-- a set loop that only fills in missing entries keeps the OLD value of a changed entry, a branch without the delete
loop keeps an outdated entry: neither hands over every entry -/
example : refreshEntry { Gen.C18.out_refresh with set := [.isPresent false] } (some 1) (some 2) = some 1 ∧
    refreshEntry { Gen.C18.out_refresh with set := [.isPresent false] } (none : Option Nat) (some 2) = some 2 ∧
    refreshEntry { Gen.C18.out_refresh with delete := [.isPublic false] } (some 1) (none : Option Nat) = some 1 := by
  decide

/-! ### `_solve_subunits`, the solution loop -/

/-- the loop of `_solve_subunits` over ANY list of sub-units, each solved like a leaf, is the model's `solveSubs`:
every sub-unit receives what its predecessor's `solve` RETURNED -/
theorem members_program_refines_solveSubs (E : Env) (member : RState → Nat → Nat → Option (RState × Nat × List Ev))
    (s : Nat) (subs : List Nat) (hm : SolvesLeaves E member subs) (st : RState) (cur : Nat) :
    runMembers member s Gen.C18.solve_subunits.body subs st cur = some (solveSubs E subs st cur) := by
  induction subs generalizing st cur with
  | nil => rfl
  | cons c cs ih =>
    have hc := hm c (by simp) st cur
    have ih' := ih (fun c' h' => hm c' (by simp [h'])) (solveLeaf E st c cur).1 (solveLeaf E st c cur).2.1
    simp only [Gen.C18.solve_subunits] at ih'
    simp only [runMembers, execMember, Gen.C18.solve_subunits, uget, hc, ih', solveSubs_cons, if_true]
    simp

/-- `Unit._solve_subunits` as the source has it: `solveSubs` started on `self.in_profile` -/
theorem solve_subunits_program_refines_solveSubs (E : Env)
    (member : RState → Nat → Nat → Option (RState × Nat × List Ev)) (s : Nat) (subs : List Nat)
    (hm : SolvesLeaves E member subs) (st : RState) :
    runSubs member Gen.C18.solve_subunits s subs st =
      some ((solveSubs E subs st ((st.uin s).getD 0)).1, (solveSubs E subs st ((st.uin s).getD 0)).2.2) := by
  have h := members_program_refines_solveSubs E member s subs hm st ((st.uin s).getD 0)
  simp only [Gen.C18.solve_subunits] at h
  simp only [runSubs, Gen.C18.solve_subunits, uget, h, if_true]

/-- the solution loop as the source has it (one call of `_solve_subunits` per round) is the model's `iterate`, for
every number of rounds -/
theorem solution_loop_program_refines_iterate (E : Env)
    (member : RState → Nat → Nat → Option (RState × Nat × List Ev)) (s : Nat) (subs : List Nat)
    (hm : SolvesLeaves E member subs) (k : Nat) (st : RState) :
    iterProg s (runSubs member Gen.C18.solve_subunits s subs) Gen.C18.solution_loop k st =
      some (iterate E s subs k st) := by
  induction k generalizing st with
  | zero => rfl
  | succ k ih =>
    have ih' := ih (solveSubs E subs st ((st.uin s).getD 0)).1
    simp only [Gen.C18.solution_loop] at ih'
    simp only [iterProg, Gen.C18.solution_loop, execL, solve_subunits_program_refines_solveSubs E member s subs hm,
      ih', iterate_succ]
    simp

example : SolvesLeaves exE (fun st c x => some (solveLeaf exE st c x)) [0, 1] := fun _ _ _ _ => rfl

/-! ### `solve` -/

/-- `Unit.solve` as the source has it (`init_solve`, solution loop, the returned profile = public copy of
`self.out_profile`, post-processor loop, `return`) is the model's `solveSeq`, whenever the sub-units are solved like
leaves -/
theorem solve_program_refines_solveSeq (E : Env) (member : RState → Nat → Nat → Option (RState × Nat × List Ev))
    (s : Nat) (subs : List Nat) (hm : SolvesLeaves E member subs) (st : RState) (iters inp : Nat) :
    runSolveWith member srcProgs E st s subs iters inp = some (solveSeq E st s subs iters inp) := by
  have hi : runInitSolve srcProgs E s = fun st x => some (initSolve E st s x) := by
    funext st x; exact init_solve_program_refines_initSolve E st s x
  have hw : srcProgs.walk E.H = fun w c => some (walk E.H w c) := by
    funext w c; exact walk_program_refines_walk E.H w c
  have hit := solution_loop_program_refines_iterate E member s subs hm iters
  have hc := fun e cur hl => post_loop_program_refines_chain E s (walk E.H false (E.ucls s)) e cur hl
  simp only [Gen.C18.post_loop] at hc
  simp only [runSolveWith, hi, hw]
  simp only [srcProgs, Gen.C18.solve, Gen.C18.post_loop, execS, MEnv.get, hit, Kind.isPre, MEnv.set, MEnv.withHeap]
  rw [hc _ _ rfl]
  simp only [MEnv.get, solveSeq, finishSolve, Heap.alloc]
  simp

/-- `solve` of a unit without sub-units, as the source has it, is the model's `solveLeaf` -/
theorem leaf_program_refines_solveLeaf (E : Env) (st : RState) (u inp : Nat) :
    runLeaf srcProgs E st u inp = some (solveLeaf E st u inp) := by
  rw [solveLeaf_eq_solveSeq]
  exact solve_program_refines_solveSeq E _ u [] (fun c hc => by simp at hc) st 1 inp

/-- `solve` of a unit whose sub-units are leaves - every call of `solve`, `init_solve`, `_solve_subunits` and of the two
walks running the generated programs - is the model's `solveSeq` -/
theorem seq_program_refines_solveSeq (E : Env) (st : RState) (s : Nat) (subs : List Nat) (iters inp : Nat) :
    runSeq srcProgs E st s subs iters inp = some (solveSeq E st s subs iters inp) :=
  solve_program_refines_solveSeq E _ s subs (fun c _ st x => leaf_program_refines_solveLeaf E st c x) st iters inp

example : (runLeaf srcProgs exE exSt 0 0).map (·.2.2) = some (solveLeaf exE exSt 0 0).2.2 := by decide
example : (runSeq srcProgs exE exSt 2 [0, 1] 2 0).map (fun r => consults r.2.2) =
    some [10, 11, 12, 13,  10, 11, 12, 16, 13, 14, 15,  10, 11, 12, 16, 14,
     10, 11, 12, 16, 13, 14, 15,  10, 11, 12, 16, 14,  14, 15] := by decide
/-- post-processors applied to `self.out_profile` instead of the fresh returned profile (the copy made at `return`),
and sub-units that are handed their predecessor's `out_profile` instead of what its `solve` returned: neither
program refines the model -/
example : (runLeaf { srcProgs with solve := [.initSolve .arg, .iterLoop Gen.C18.solution_loop, .bind .loc .selfOut,
      .loop Gen.C18.post_loop, .retCopy .loc] } exE exSt 0 0).map (·.2.2) ≠ some (solveLeaf exE exSt 0 0).2.2 := by
  decide
example : (runSeq { srcProgs with subs := { Gen.C18.solve_subunits with
      body := [.solveMember false .last, .bind .memberOut] } } exE exSt 2 [0, 1] 1 0).map (·.2.2) ≠
    some (solveSeq exE exSt 2 [0, 1] 1 0).2.2 := by decide

/-- hence `pre_before_own_before_post` speaks about the source: running the source's `solve` on a unit without
sub-units gives the trace  enter · pre-chain · own solution · post-chain · leave,  the chains consulting exactly what
the source's walks yield, both threading the profile -/
theorem source_pre_before_own_before_post (E : Env) (st : RState) (u inp : Nat) :
    ∃ r pre post lv, runLeaf srcProgs E st u inp = some r ∧
      r.2.2 = .enter u inp :: pre ++ .own u :: (post ++ [lv]) ∧
      (∀ e ∈ pre, e.phase = some true) ∧ (∀ e ∈ post, e.phase = some false) ∧ lv.phase = none ∧
      some (consults pre) = srcProgs.walk E.H true (E.ucls u) ∧
      some (consults post) = srcProgs.walk E.H false (E.ucls u) ∧
      threads inp pre ∧ threads (initSolve E st u inp).1.heap.n post ∧
      r.2.1 = lastRet (initSolve E st u inp).1.heap.n post := by
  obtain ⟨pre, post, lv, h1, h2, h3, h4, h5, h6, h7, h8, h9⟩ := pre_before_own_before_post E st u inp
  refine ⟨_, pre, post, lv, leaf_program_refines_solveLeaf E st u inp, h1, h2, h3, h4, ?_, ?_, h7, h8, h9⟩
  · rw [walk_program_refines_walk, h5]
  · rw [walk_program_refines_walk, h6]

/-- … and `sequence_consults_own_classes`: whatever the source's `solve` of a sequence consults, for itself or for a
member, is yielded by the walk of THAT unit's class -/
theorem source_sequence_consults_own_classes (E : Env) (st : RState) (s : Nat) (subs : List Nat) (iters inp : Nat) :
    ∃ r, runSeq srcProgs E st s subs iters inp = some r ∧ ConsultsOwnClass E r.2.2 :=
  ⟨_, seq_program_refines_solveSeq E st s subs iters inp, sequence_consults_own_classes E st s subs iters inp⟩

/-! ### the library (pinned) -/

/-- what the translator found in pyroll/core besides `Unit`'s own methods, compared with what the model assumes:
no unit class overrides a walk, `solve`, `_solve_subunits`, `__init_subclass__` or the list attributes; the two
`init_solve` overrides call `super().init_solve(in_profile)` first and then only set an attribute of the own
`out_profile` / create the disk elements; the only other statement that touches the lists is the registration of
`rotator_factory` as pre-processor on `BaseRollPass` by `append`; a new unit has neither `in_profile` nor
`out_profile`; and the class table + registration `libOps` (sections 8, 9) is what the `class` statements of the
library give (C3 computed by the translator, compared with the real `__mro__` by the harness on every run) -/
theorem library_as_modelled :
    Gen.C18.overrides = [("BaseRollPass", "init_solve"), ("DiskElementUnit", "init_solve")] ∧
    (∃ seed : List String,
      -- the roll pass's override only calls the inherited `init_solve` and gives the out profile its first-guess cross-section:
      -- on every solve (old form) or only when this call created the out profile (repair of the re-solve defect, C05)
      (seed = ["(self, in_profile)",
               "super().init_solve(in_profile)",
               "self.out_profile.cross_section = self.usable_cross_section"] ∨
       seed = ["(self, in_profile)",
               "v0 = not self.out_profile",
               "super().init_solve(in_profile)",
               "if v0:",
               "    self.out_profile.cross_section = self.usable_cross_section"]) ∧
      Gen.C18.initSolveOverrides =
        [("BaseRollPass", seed),
         ("DiskElementUnit",
          ["(self, in_profile)",
           "super().init_solve(in_profile)",
           "if not self._subunits:",
           "    self._subunits = self._SubUnitsList(self, [self.DiskElement(self, v0) for v0 in range(self.disk_element_count)])"])]) ∧
    Gen.C18.mentions =
      [("pyroll/core/roll_pass/base.py", "BaseRollPass.pre_processors.append(rotator_factory)")] ∧
    Gen.C18.libRegistrations = [("BaseRollPass", .pre, "append", "rotator_factory")] ∧
    Gen.C18.unitInitState = [("in_profile", "None"), ("out_profile", "None")] ∧
    libOps = opsOfLib Gen.C18.libClasses Gen.C18.libRegistrations := by
  refine ⟨by decide, ⟨_, ?_, rfl⟩, by decide, by decide, by decide, by decide⟩
  first | exact Or.inl rfl | exact Or.inr rfl

example : (run init (opsOfLib Gen.C18.libClasses Gen.C18.libRegistrations)).lists true 6 = some [900] := by decide

end Source

end Proc
