import PyrollModel.GrooveRep
import PyrollProofs.RealNum

/-! Helper lemmas for C10: linear interpolation on polylines (scipy interp1d / interpn as (bi)linear model), refinement by
collinear vertices, reflection, list extrema.  Over ℝ. -/

open GrooveRep

namespace GrooveRepI

/-- strictly ascending abscissae -/
def Asc (l : List (ℝ × ℝ)) : Prop := l.Pairwise (fun p q => p.1 < q.1)

theorem lerp_left (p q : ℝ × ℝ) : lerp p q p.1 = p.2 := by
  simp [lerp]

theorem lerp_right (p q : ℝ × ℝ) (h : p.1 ≠ q.1) : lerp p q q.1 = q.2 := by
  have : q.1 - p.1 ≠ 0 := sub_ne_zero.mpr (Ne.symm h)
  simp only [lerp]; field_simp; ring

theorem interp1_cons_cons (p q : ℝ × ℝ) (rest : List (ℝ × ℝ)) (z : ℝ) :
    interp1 (p :: q :: rest) z = if rest = [] ∨ z ≤ q.1 then lerp p q z else interp1 (q :: rest) z := by
  simp only [interp1, PyNum.le, Bool.or_eq_true, List.isEmpty_iff, decide_eq_true_eq]

/-- `a`, `b` are consecutive vertices of `l` -/
def Adj (l : List (ℝ × ℝ)) (a b : ℝ × ℝ) : Prop := ∃ s t, l = s ++ a :: b :: t

theorem Asc.tail {p : ℝ × ℝ} {l : List (ℝ × ℝ)} (h : Asc (p :: l)) : Asc l := (List.pairwise_cons.mp h).2

theorem Asc.head_lt {p : ℝ × ℝ} {l : List (ℝ × ℝ)} (h : Asc (p :: l)) {q} (hq : q ∈ l) : p.1 < q.1 :=
  (List.pairwise_cons.mp h).1 q hq

/-- on the segment between two consecutive vertices the interpolation is the chord -/
theorem interp1_on_segment : ∀ (s : List (ℝ × ℝ)) (a b : ℝ × ℝ) (t : List (ℝ × ℝ)) (z : ℝ),
    Asc (s ++ a :: b :: t) → a.1 ≤ z → z ≤ b.1 → interp1 (s ++ a :: b :: t) z = lerp a b z
  | [], a, b, t, z, _, _, hb => by
    simp only [List.nil_append, interp1_cons_cons, hb, or_true, if_true]
  | [c], a, b, t, z, hasc, ha, hb => by
    have hca : c.1 < a.1 := hasc.head_lt (by simp)
    rw [List.cons_append, List.nil_append, interp1_cons_cons]
    by_cases hz : z ≤ a.1
    · have : z = a.1 := le_antisymm hz ha
      subst this
      rw [if_pos (Or.inr le_rfl), lerp_left, lerp_right c a hca.ne]
    · rw [if_neg (by simp [hz])]
      exact interp1_on_segment [] a b t z hasc.tail ha hb
  | c :: d :: s, a, b, t, z, hasc, ha, hb => by
    have hda : d.1 < a.1 := hasc.tail.head_lt (by simp)
    have hz : ¬ z ≤ d.1 := by intro h; linarith
    have hne : s ++ a :: b :: t ≠ [] := by simp
    rw [List.cons_append, List.cons_append, interp1_cons_cons, if_neg (by simp [hz])]
    exact interp1_on_segment (d :: s) a b t z hasc.tail ha hb

/-- every abscissa between the first and last vertex lies on some segment -/
theorem exists_segment : ∀ (l : List (ℝ × ℝ)) (a : ℝ × ℝ) (b : ℝ × ℝ) (z : ℝ),
    a.1 ≤ z → z ≤ ((a :: b :: l).getLast (by simp)).1 →
    ∃ p q, Adj (a :: b :: l) p q ∧ p.1 ≤ z ∧ z ≤ q.1
  | [], a, b, z, ha, hb => ⟨a, b, ⟨[], [], rfl⟩, ha, by simpa using hb⟩
  | c :: l, a, b, z, ha, hb => by
    by_cases hz : z ≤ b.1
    · exact ⟨a, b, ⟨[], c :: l, rfl⟩, ha, hz⟩
    · obtain ⟨p, q, ⟨s, t, hst⟩, hp, hq⟩ := exists_segment l b c z (le_of_not_ge hz) (by simpa using hb)
      exact ⟨p, q, ⟨a :: s, t, by simp [hst]⟩, hp, hq⟩

/-- the interpolation passes through every vertex -/
theorem interp1_at_vertex (l : List (ℝ × ℝ)) (hl : Asc l) (h2 : 2 ≤ l.length) (p : ℝ × ℝ) (hp : p ∈ l) :
    interp1 l p.1 = p.2 := by
  obtain ⟨s, t, rfl⟩ := List.append_of_mem hp
  cases t with
  | nil =>
    -- last vertex: the segment before it
    rcases List.eq_nil_or_concat s with rfl | ⟨s', a, rfl⟩
    · simp at h2
    · have hasc : Asc (s' ++ a :: p :: []) := by simpa using hl
      have hap : a.1 < p.1 := by
        have : Asc [a, p] := (List.pairwise_append.mp hasc).2.1
        exact this.head_lt (by simp)
      have := interp1_on_segment s' a p [] p.1 hasc hap.le le_rfl
      simpa [lerp_right a p hap.ne] using this
  | cons b t =>
    have hpb : p.1 < b.1 := by
      have : Asc (p :: b :: t) := (List.pairwise_append.mp hl).2.1
      exact this.head_lt (by simp)
    have := interp1_on_segment s p b t p.1 hl le_rfl hpb.le
    simpa [lerp_left] using this

/-! ### translation in the abscissa -/

theorem interp1_shift (c : ℝ) : ∀ (l : List (ℝ × ℝ)) (z : ℝ), interp1 (shiftX c l) z = interp1 l (z + c)
  | [], _ => rfl
  | [p], _ => rfl
  | p :: q :: rest, z => by
    have ih := interp1_shift c (q :: rest) z
    simp only [shiftX, List.map_cons] at ih ⊢
    rw [interp1_cons_cons, interp1_cons_cons, ih]
    have h1 : (z ≤ q.1 - c) ↔ (z + c ≤ q.1) := by constructor <;> intro h <;> linarith
    have h2 : lerp (p.1 - c, p.2) (q.1 - c, q.2) z = lerp p q (z + c) := by
      simp only [lerp]; ring_nf
    simp only [List.map_eq_nil_iff, h1, h2]

/-! ### refinement by collinear vertices -/

/-- `r` lies strictly between `p` and `q` on their chord -/
def OnChord (p q r : ℝ × ℝ) : Prop := p.1 < r.1 ∧ r.1 < q.1 ∧ r.2 = lerp p q r.1

theorem lerp_chord_left {p q r : ℝ × ℝ} (h : OnChord p q r) (z : ℝ) : lerp p r z = lerp p q z := by
  obtain ⟨h1, h2, h3⟩ := h
  have a : r.1 - p.1 ≠ 0 := by linarith [h1]
  have b : q.1 - p.1 ≠ 0 := by intro h; linarith
  simp only [lerp] at h3 ⊢
  rw [h3]; field_simp; ring

theorem lerp_chord_right {p q r : ℝ × ℝ} (h : OnChord p q r) (z : ℝ) : lerp r q z = lerp p q z := by
  obtain ⟨h1, h2, h3⟩ := h
  have a : q.1 - r.1 ≠ 0 := by intro h; linarith
  have b : q.1 - p.1 ≠ 0 := by intro h; linarith
  simp only [lerp] at h3 ⊢
  rw [h3]; field_simp; ring

theorem refine1_ne_nil {l l' : List (ℝ × ℝ)} (h : Refine1 OnChord l l') : ∃ a b t, l = a :: b :: t := by
  induction h with
  | here p q r rest _ => exact ⟨p, q, rest, rfl⟩
  | there p l l' _ ih => obtain ⟨a, b, t, rfl⟩ := ih; exact ⟨p, a, b :: t, rfl⟩

theorem refine1_target_ne_nil {l l' : List (ℝ × ℝ)} (h : Refine1 OnChord l l') : l' ≠ [] := by
  cases h <;> simp

theorem refine1_head {l l' : List (ℝ × ℝ)} (h : Refine1 OnChord l l') : l'.head? = l.head? := by
  cases h <;> rfl

/-- inserting one collinear vertex does not change the interpolated function - anywhere, also where it extrapolates -/
theorem interp1_refine1 {l l' : List (ℝ × ℝ)} (h : Refine1 OnChord l l') (z : ℝ) : interp1 l' z = interp1 l z := by
  induction h with
  | here p q r rest hc =>
    rw [interp1_cons_cons, interp1_cons_cons, interp1_cons_cons]
    by_cases h1 : z ≤ r.1
    · have : z ≤ q.1 := by linarith [hc.2.1]
      simp [h1, this, lerp_chord_left hc]
    · by_cases h2 : rest = [] ∨ z ≤ q.1
      · simp [h1, h2, lerp_chord_right hc]
      · simp [h1, h2]
  | there p l l' h ih =>
    obtain ⟨a, b, t, rfl⟩ := refine1_ne_nil h
    have hh := refine1_head h
    cases l' with
    | nil => simp at hh
    | cons a' t' =>
      simp only [List.head?_cons, Option.some.injEq] at hh
      subst hh
      have ht' : t' ≠ [] := by
        cases h with
        | here => simp
        | there _ _ _ h' => exact refine1_target_ne_nil h'
      rw [interp1_cons_cons, interp1_cons_cons, ih]
      simp [ht']

theorem interp1_refines {l l' : List (ℝ × ℝ)} (h : Refines OnChord l l') (z : ℝ) : interp1 l' z = interp1 l z := by
  induction h with
  | refl => rfl
  | step l' l'' _ h1 ih => rw [interp1_refine1 h1, ih]

/-! ### minimum / maximum of a list -/

theorem minL_spec : ∀ (l : List ℝ), l ≠ [] → minL l ∈ l ∧ ∀ x ∈ l, minL l ≤ x
  | [], h => absurd rfl h
  | [a], _ => by simp [minL]
  | a :: b :: as, _ => by
    obtain ⟨hm, hle⟩ := minL_spec (b :: as) (by simp)
    simp only [minL, PyNum.lt, decide_eq_true_eq]
    split_ifs with h
    · exact ⟨List.mem_cons_of_mem _ hm, fun x hx => by
        rcases List.mem_cons.mp hx with rfl | hx
        · exact h.le
        · exact hle x hx⟩
    · exact ⟨List.mem_cons_self, fun x hx => by
        rcases List.mem_cons.mp hx with rfl | hx
        · exact le_rfl
        · exact le_trans (le_of_not_gt h) (hle x hx)⟩

theorem maxL_spec : ∀ (l : List ℝ), l ≠ [] → maxL l ∈ l ∧ ∀ x ∈ l, x ≤ maxL l
  | [], h => absurd rfl h
  | [a], _ => by simp [maxL]
  | a :: b :: as, _ => by
    obtain ⟨hm, hle⟩ := maxL_spec (b :: as) (by simp)
    simp only [maxL, PyNum.lt, decide_eq_true_eq]
    split_ifs with h
    · exact ⟨List.mem_cons_of_mem _ hm, fun x hx => by
        rcases List.mem_cons.mp hx with rfl | hx
        · exact h.le
        · exact hle x hx⟩
    · exact ⟨List.mem_cons_self, fun x hx => by
        rcases List.mem_cons.mp hx with rfl | hx
        · exact le_rfl
        · exact le_trans (hle x hx) (le_of_not_gt h)⟩

theorem minL_unique (l : List ℝ) (m : ℝ) (hm : m ∈ l) (hle : ∀ x ∈ l, m ≤ x) : minL l = m := by
  obtain ⟨h1, h2⟩ := minL_spec l (List.ne_nil_of_mem hm)
  exact le_antisymm (h2 m hm) (hle _ h1)

theorem maxL_unique (l : List ℝ) (m : ℝ) (hm : m ∈ l) (hle : ∀ x ∈ l, x ≤ m) : maxL l = m := by
  obtain ⟨h1, h2⟩ := maxL_spec l (List.ne_nil_of_mem hm)
  exact le_antisymm (hle _ h1) (h2 m hm)

theorem minL_map_sub (l : List ℝ) (h : l ≠ []) (c : ℝ) : minL (l.map (· - c)) = minL l - c := by
  obtain ⟨h1, h2⟩ := minL_spec l h
  apply minL_unique
  · exact List.mem_map.mpr ⟨_, h1, rfl⟩
  · intro x hx
    obtain ⟨y, hy, rfl⟩ := List.mem_map.mp hx
    linarith [h2 y hy]

theorem maxL_map_sub (l : List ℝ) (h : l ≠ []) (c : ℝ) : maxL (l.map (· - c)) = maxL l - c := by
  obtain ⟨h1, h2⟩ := maxL_spec l h
  apply maxL_unique
  · exact List.mem_map.mpr ⟨_, h1, rfl⟩
  · intro x hx
    obtain ⟨y, hy, rfl⟩ := List.mem_map.mp hx
    linarith [h2 y hy]

/-! ### what a refinement leaves unchanged -/

theorem refine1_mem {l l' : List (ℝ × ℝ)} (h : Refine1 OnChord l l') :
    ∃ p q r, p ∈ l ∧ q ∈ l ∧ OnChord p q r ∧ ∀ x, x ∈ l' ↔ (x = r ∨ x ∈ l) := by
  induction h with
  | here p q r rest hc =>
    refine ⟨p, q, r, by simp, by simp, hc, fun x => ?_⟩
    simp only [List.mem_cons]; tauto
  | there a l l' _ ih =>
    obtain ⟨p, q, r, hp, hq, hc, hx⟩ := ih
    refine ⟨p, q, r, List.mem_cons_of_mem _ hp, List.mem_cons_of_mem _ hq, hc, fun x => ?_⟩
    simp only [List.mem_cons, hx]; tauto

theorem refine1_getLast {l l' : List (ℝ × ℝ)} (h : Refine1 OnChord l l') : l'.getLast? = l.getLast? := by
  induction h with
  | here p q r rest _ => simp [List.getLast?_cons_cons]
  | there a l l' h ih =>
    obtain ⟨b, c, t, rfl⟩ := refine1_ne_nil h
    obtain ⟨b', t', rfl⟩ := List.exists_cons_of_ne_nil (refine1_target_ne_nil h)
    rw [List.getLast?_cons_cons, List.getLast?_cons_cons, ih]

/-- a function of the vertices that is monotone along chords keeps its extrema under refinement -/
theorem refine1_minL (f : ℝ × ℝ → ℝ) (hf : ∀ p q r, OnChord p q r → min (f p) (f q) ≤ f r)
    {l l' : List (ℝ × ℝ)} (h : Refine1 OnChord l l') : minL (l'.map f) = minL (l.map f) := by
  obtain ⟨p, q, r, hp, hq, hc, hx⟩ := refine1_mem h
  obtain ⟨a, b, t, rfl⟩ := refine1_ne_nil h
  obtain ⟨h1, h2⟩ := minL_spec ((a :: b :: t).map f) (by simp)
  apply minL_unique
  · obtain ⟨y, hy, hfy⟩ := List.mem_map.mp h1
    exact List.mem_map.mpr ⟨y, (hx y).mpr (Or.inr hy), hfy⟩
  · intro x hx'
    obtain ⟨y, hy, rfl⟩ := List.mem_map.mp hx'
    rcases (hx y).mp hy with rfl | hy
    · have := hf p q y hc
      have hp' := h2 (f p) (List.mem_map.mpr ⟨p, hp, rfl⟩)
      have hq' := h2 (f q) (List.mem_map.mpr ⟨q, hq, rfl⟩)
      exact le_trans (le_min hp' hq') this
    · exact h2 _ (List.mem_map.mpr ⟨y, hy, rfl⟩)

theorem refine1_maxL (f : ℝ × ℝ → ℝ) (hf : ∀ p q r, OnChord p q r → f r ≤ max (f p) (f q))
    {l l' : List (ℝ × ℝ)} (h : Refine1 OnChord l l') : maxL (l'.map f) = maxL (l.map f) := by
  obtain ⟨p, q, r, hp, hq, hc, hx⟩ := refine1_mem h
  obtain ⟨a, b, t, rfl⟩ := refine1_ne_nil h
  obtain ⟨h1, h2⟩ := maxL_spec ((a :: b :: t).map f) (by simp)
  apply maxL_unique
  · obtain ⟨y, hy, hfy⟩ := List.mem_map.mp h1
    exact List.mem_map.mpr ⟨y, (hx y).mpr (Or.inr hy), hfy⟩
  · intro x hx'
    obtain ⟨y, hy, rfl⟩ := List.mem_map.mp hx'
    rcases (hx y).mp hy with rfl | hy
    · have := hf p q y hc
      have hp' := h2 (f p) (List.mem_map.mpr ⟨p, hp, rfl⟩)
      have hq' := h2 (f q) (List.mem_map.mpr ⟨q, hq, rfl⟩)
      exact le_trans this (max_le hp' hq')
    · exact h2 _ (List.mem_map.mpr ⟨y, hy, rfl⟩)

theorem chord_fst_min (p q r : ℝ × ℝ) (h : OnChord p q r) : min p.1 q.1 ≤ r.1 :=
  le_trans (min_le_left _ _) h.1.le

theorem chord_fst_max (p q r : ℝ × ℝ) (h : OnChord p q r) : r.1 ≤ max p.1 q.1 :=
  le_trans h.2.1.le (le_max_right _ _)

theorem chord_snd_max (p q r : ℝ × ℝ) (h : OnChord p q r) : r.2 ≤ max p.2 q.2 := by
  obtain ⟨h1, h2, h3⟩ := h
  have d : 0 < q.1 - p.1 := by linarith
  -- r.2 = (1 - s) p.2 + s q.2 with s = (r.1 - p.1)/(q.1 - p.1) ∈ (0, 1)
  set s := (r.1 - p.1) / (q.1 - p.1) with hs
  have s0 : 0 ≤ s := div_nonneg (by linarith) d.le
  have s1 : s ≤ 1 := by rw [hs, div_le_one d]; linarith
  have e : r.2 = (1 - s) * p.2 + s * q.2 := by
    rw [h3, hs]; simp only [lerp]; field_simp; ring
  rw [e]
  have a1 : p.2 ≤ max p.2 q.2 := le_max_left _ _
  have a2 : q.2 ≤ max p.2 q.2 := le_max_right _ _
  nlinarith [mul_le_mul_of_nonneg_left a1 (sub_nonneg.mpr s1), mul_le_mul_of_nonneg_left a2 s0]

theorem chord_snd_min (p q r : ℝ × ℝ) (h : OnChord p q r) : min p.2 q.2 ≤ r.2 := by
  obtain ⟨h1, h2, h3⟩ := h
  have d : 0 < q.1 - p.1 := by linarith
  set s := (r.1 - p.1) / (q.1 - p.1) with hs
  have s0 : 0 ≤ s := div_nonneg (by linarith) d.le
  have s1 : s ≤ 1 := by rw [hs, div_le_one d]; linarith
  have e : r.2 = (1 - s) * p.2 + s * q.2 := by
    rw [h3, hs]; simp only [lerp]; field_simp; ring
  rw [e]
  have a1 : min p.2 q.2 ≤ p.2 := min_le_left _ _
  have a2 : min p.2 q.2 ≤ q.2 := min_le_right _ _
  nlinarith [mul_le_mul_of_nonneg_left a1 (sub_nonneg.mpr s1), mul_le_mul_of_nonneg_left a2 s0]

/-! ### mirror symmetry -/

/-- the polyline reflected in the ordinate axis (again ascending) -/
noncomputable def mirror (l : List (ℝ × ℝ)) : List (ℝ × ℝ) := (l.map mirrorPt).reverse

theorem asc_mirror {l : List (ℝ × ℝ)} (h : Asc l) : Asc (mirror l) := by
  unfold Asc mirror
  rw [List.pairwise_reverse, List.pairwise_map]
  exact h.imp (by intro a b hab; simp only [mirrorPt]; linarith)

theorem lerp_mirror (p q : ℝ × ℝ) (h : p.1 ≠ q.1) (z : ℝ) : lerp (mirrorPt q) (mirrorPt p) (-z) = lerp p q z := by
  have d : q.1 - p.1 ≠ 0 := sub_ne_zero.mpr (Ne.symm h)
  have d' : -p.1 - -q.1 ≠ 0 := by intro h'; apply d; linarith
  simp only [lerp, mirrorPt]; field_simp; ring

/-- inside its extent, the reflected polyline interpolates the reflected function -/
theorem interp1_mirror (a b : ℝ × ℝ) (t : List (ℝ × ℝ)) (hl : Asc (a :: b :: t)) (z : ℝ) (h1 : a.1 ≤ z)
    (h2 : z ≤ ((a :: b :: t).getLast (by simp)).1) : interp1 (mirror (a :: b :: t)) (-z) = interp1 (a :: b :: t) z := by
  obtain ⟨p, q, ⟨s, u, hsu⟩, hp, hq⟩ := exists_segment t a b z h1 h2
  have hasc : Asc (s ++ p :: q :: u) := hsu ▸ hl
  have hpq : p.1 < q.1 := by
    have : Asc (p :: q :: u) := (List.pairwise_append.mp hasc).2.1
    exact this.head_lt (by simp)
  rw [hsu, interp1_on_segment s p q u z hasc hp hq]
  have hm : mirror (s ++ p :: q :: u) = (u.map mirrorPt).reverse ++ mirrorPt q :: mirrorPt p :: (s.map mirrorPt).reverse := by
    simp [mirror]
  have hasc' : Asc ((u.map mirrorPt).reverse ++ mirrorPt q :: mirrorPt p :: (s.map mirrorPt).reverse) :=
    hm ▸ asc_mirror hasc
  rw [hm, interp1_on_segment _ _ _ _ (-z) hasc' (by simp only [mirrorPt]; linarith) (by simp only [mirrorPt]; linarith)]
  exact lerp_mirror p q hpq.ne z

theorem asc_head_le {a : ℝ × ℝ} {l : List (ℝ × ℝ)} (h : Asc (a :: l)) {p : ℝ × ℝ} (hp : p ∈ a :: l) : a.1 ≤ p.1 := by
  rcases List.mem_cons.mp hp with rfl | hp
  · exact le_rfl
  · exact (h.head_lt hp).le

theorem asc_le_getLast : ∀ (l : List (ℝ × ℝ)) (_ : Asc l) (hne : l ≠ []) {q : ℝ × ℝ} (_ : q ∈ l), q.1 ≤ (l.getLast hne).1
  | [], _, hne, _, _ => absurd rfl hne
  | [a], _, _, q, hq => by simp only [List.mem_singleton] at hq; subst hq; simp
  | a :: b :: t, h, _, q, hq => by
    rw [List.getLast_cons (by simp)]
    rcases List.mem_cons.mp hq with rfl | hq
    · exact le_trans (h.head_lt (List.mem_cons_self)).le
        (asc_le_getLast (b :: t) h.tail (by simp) List.mem_cons_self)
    · exact asc_le_getLast (b :: t) h.tail (by simp) hq

/-- `z` lies between the abscissae of two vertices of the polyline -/
def InExtent (l : List (ℝ × ℝ)) (z : ℝ) : Prop := ∃ p ∈ l, ∃ q ∈ l, p.1 ≤ z ∧ z ≤ q.1

theorem interp1_symmetric (l : List (ℝ × ℝ)) (hl : Asc l) (hs : mirror l = l) (z : ℝ) (hz : InExtent l z) :
    interp1 l (-z) = interp1 l z := by
  obtain ⟨p, hp, q, hq, h1, h2⟩ := hz
  match l, hl, hs, hp, hq with
  | [], _, _, hp, _ => simp at hp
  | [a], _, _, _, _ => rfl
  | a :: b :: t, hl, hs, hp, hq =>
    have := interp1_mirror a b t hl z (le_trans (asc_head_le hl hp) h1)
      (le_trans h2 (asc_le_getLast _ hl (by simp) hq))
    rwa [hs] at this

/-! ### the rectilinear grid -/

theorem asc_zip : ∀ (xs : List ℝ) (vs : List ℝ), xs.Pairwise (· < ·) → Asc (xs.zip vs)
  | [], _, _ => by simp [Asc]
  | _ :: _, [], _ => by simp [Asc]
  | a :: xs, v :: vs, h => by
    obtain ⟨h1, h2⟩ := List.pairwise_cons.mp h
    simp only [List.zip_cons_cons, Asc, List.pairwise_cons]
    exact ⟨fun q hq => h1 _ (List.of_mem_zip (a := q.1) (b := q.2) hq).1, asc_zip xs vs h2⟩

theorem mirror_zip (xs vs : List ℝ) (hlen : xs.length = vs.length) (hx : (xs.map (fun t => -t)).reverse = xs)
    (hv : vs.reverse = vs) : mirror (xs.zip vs) = xs.zip vs := by
  unfold mirror
  have : (xs.zip vs).map mirrorPt = (xs.map (fun t => -t)).zip vs := by
    rw [List.zip_map_left]; apply List.map_congr_left; intro p _; rfl
  have hz : ((xs.map (fun t => -t)).zip vs).reverse = (xs.map (fun t => -t)).reverse.zip vs.reverse := by
    simp only [List.zip]
    exact List.reverse_zipWith (by simpa using hlen)
  rw [this, hz, hx, hv]

/-- at a grid abscissa the surface interpolation is the polyline interpolation of that grid row -/
theorem bilinear_at_x_node (xs zs : List ℝ) (G : List (List ℝ)) (hx : xs.Pairwise (· < ·))
    (hlen : 2 ≤ (xs.zip G).length) (x0 : ℝ) (row0 : List ℝ) (h : (x0, row0) ∈ xs.zip G) (z : ℝ) :
    bilinear xs zs G x0 z = interp1 (zs.zip row0) z := by
  unfold bilinear
  have hmem : (x0, interp1 (zs.zip row0) z) ∈ xs.zip (G.map fun row => interp1 (zs.zip row) z) := by
    rw [List.zip_map_right]
    exact List.mem_map.mpr ⟨(x0, row0), h, rfl⟩
  have hl : 2 ≤ (xs.zip (G.map fun row => interp1 (zs.zip row) z)).length := by
    simpa [List.length_zip] using hlen
  exact interp1_at_vertex _ (asc_zip _ _ hx) hl _ hmem

end GrooveRepI
