import PyrollModel.GrooveWF
import PyrollProofs.GrooveWF

/-!
# Helper lemmas for C03: the shape checks of `SplineGroove.__init__` for an ARBITRARY face test (over ℝ)

* `onFace_iff`, `onFace_abs`, `onFace_mono` — either face test says `|y| ≤ FaceTest.tol rows`: it depends on `|y|` only and
  is downward closed.
* `extent`, `FaceBounded` (`0 ≤ tol ≤ max 1e-8 (1e-9·extent)`), `faceBounded_isclose`, `faceBounded_within_extent` — the two
  tolerances the source may have; `extent_le`.
* `splineAccepts_iff` — the three shape checks accept exactly the two-dimensional, non-empty arrays with two columns whose
  first and last ordinate are within the tolerance.
-/

namespace GrooveWF

theorem fmax_real (a b : ℝ) : fmax a b = max a b := by
  unfold fmax
  simp only [lt_real, le_real, decide_eq_true_eq]
  split_ifs with h1 h2
  · exact (max_eq_right (le_of_lt h1)).symm
  · exact (max_eq_left h2).symm
  · exact absurd (not_lt.mp h1) h2

theorem fmin_real (a b : ℝ) : fmin a b = min a b := by
  unfold fmin
  simp only [lt_real, le_real, decide_eq_true_eq]
  split_ifs with h1 h2
  · exact (min_eq_right (le_of_lt h1)).symm
  · exact (min_eq_left h2).symm
  · exact absurd (not_lt.mp h1) h2

theorem lmax_spec : ∀ (l : List ℝ), l ≠ [] → lmax l ∈ l ∧ ∀ v ∈ l, v ≤ lmax l
  | [], h => absurd rfl h
  | [a], _ => by simp [lmax]
  | a :: b :: r, _ => by
    obtain ⟨hm, hle⟩ := lmax_spec (b :: r) (by simp)
    simp only [lmax, fmax_real]
    constructor
    · rcases le_total a (lmax (b :: r)) with h | h
      · rw [max_eq_right h]; exact List.mem_cons_of_mem _ hm
      · rw [max_eq_left h]; exact List.mem_cons_self
    · intro v hv
      rcases List.mem_cons.mp hv with rfl | hv
      · exact le_max_left _ _
      · exact le_trans (hle v hv) (le_max_right _ _)

theorem lmin_spec : ∀ (l : List ℝ), l ≠ [] → lmin l ∈ l ∧ ∀ v ∈ l, lmin l ≤ v
  | [], h => absurd rfl h
  | [a], _ => by simp [lmin]
  | a :: b :: r, _ => by
    obtain ⟨hm, hle⟩ := lmin_spec (b :: r) (by simp)
    simp only [lmin, fmin_real]
    constructor
    · rcases le_total a (lmin (b :: r)) with h | h
      · rw [min_eq_left h]; exact List.mem_cons_self
      · rw [min_eq_right h]; exact List.mem_cons_of_mem _ hm
    · intro v hv
      rcases List.mem_cons.mp hv with rfl | hv
      · exact min_le_left _ _
      · exact le_trans (min_le_right _ _) (hle v hv)

theorem colOf_ne_nil (k : Nat) {rows : List (List ℝ)} (h : rows ≠ []) : colOf k rows ≠ [] := by
  simpa [colOf] using h

/-! ### the face test -/

/-- both kinds of face test say `|y| ≤ tolerance`, the tolerance being `FaceTest.tol` of the vertex array as given
    (`np.isclose(y, 0)`: `|y − 0| ≤ 1e-8 + 1e-5·|0|`) -/
theorem onFace_iff (ft : FaceTest) (rows : List (List ℝ)) (y : ℝ) : ft.onFace rows y = true ↔ |y| ≤ ft.tol rows := by
  cases ft with
  | isclose =>
    simp only [FaceTest.onFace, FaceTest.tol, isclose, le_real, zero_real, PyNum.dec_real, PyNum.abs_real,
      decide_eq_true_eq]
    norm_num
  | within t => simp only [FaceTest.onFace, FaceTest.tol, le_real, PyNum.abs_real, decide_eq_true_eq]

/-- the face test looks at `|y|` only -/
theorem onFace_abs (ft : FaceTest) (rows : List (List ℝ)) {y y' : ℝ} (h : |y| = |y'|) :
    ft.onFace rows y = ft.onFace rows y' := by
  rw [Bool.eq_iff_iff, onFace_iff, onFace_iff, h]

/-- … and is downward closed in it -/
theorem onFace_mono (ft : FaceTest) (rows : List (List ℝ)) {y y' : ℝ} (h : |y'| ≤ |y|) (hy : ft.onFace rows y = true) :
    ft.onFace rows y' = true := by
  rw [onFace_iff] at hy ⊢; exact le_trans h hy

/-- the larger of the two column extents of the vertex array (`np.max(np.ptp(contour_points, axis=0))`) -/
noncomputable def extent (rows : List (List ℝ)) : ℝ :=
  max (lmax (colOf 0 rows) - lmin (colOf 0 rows)) (lmax (colOf 1 rows) - lmin (colOf 1 rows))

theorem extent_nonneg {rows : List (List ℝ)} (h : rows ≠ []) : 0 ≤ extent rows := by
  have hne := colOf_ne_nil 0 h
  have h1 := (lmin_spec _ hne).2 _ (lmax_spec _ hne).1
  exact le_max_of_le_left (by linarith)

/-- an array whose entries are bounded by `B` has an extent of at most `2B` -/
theorem extent_le {rows : List (List ℝ)} (h : rows ≠ []) (B : ℝ)
    (hB : ∀ r ∈ rows, |r.getD 0 1| ≤ B ∧ |r.getD 1 1| ≤ B) : extent rows ≤ 2 * B := by
  have bound : ∀ k, k = 0 ∨ k = 1 → lmax (colOf k rows) - lmin (colOf k rows) ≤ 2 * B := by
    intro k hk
    have hne := colOf_ne_nil k h
    obtain ⟨hM, _⟩ := lmax_spec _ hne
    obtain ⟨hm, _⟩ := lmin_spec _ hne
    have mem : ∀ v ∈ colOf k rows, |v| ≤ B := by
      intro v hv
      simp only [colOf, List.mem_map] at hv
      obtain ⟨r, hr, rfl⟩ := hv
      rcases hk with rfl | rfl
      · simpa using (hB r hr).1
      · simpa using (hB r hr).2
    have a := abs_le.mp (mem _ hM)
    have b := abs_le.mp (mem _ hm)
    linarith
  exact max_le (bound 0 (Or.inl rfl)) (bound 1 (Or.inr rfl))

/-- what the face test of the source has to be: its tolerance is non-negative (an ordinate that IS 0 lies on the face
    line) and at most `max 1e-8 (1e-9 · extent)` (an ordinate beyond that never does) -/
def FaceBounded (ft : FaceTest) : Prop :=
  ∀ rows : List (List ℝ), rows ≠ [] → 0 ≤ ft.tol rows ∧ ft.tol rows ≤ max (1 / 10 ^ 8) (1 / 10 ^ 9 * extent rows)

theorem faceBounded_isclose : FaceBounded .isclose := by
  intro rows _
  simp only [FaceTest.tol, PyNum.dec_real]
  exact ⟨by positivity, le_max_of_le_left (by norm_num)⟩

/-- `1e-9 * np.max(np.ptp(contour_points, axis=0))` -/
theorem faceBounded_within_extent :
    FaceBounded (.within (.mul (.dec 1 9) (.max (.sub (.colMax 0) (.colMin 0)) (.sub (.colMax 1) (.colMin 1))))) := by
  intro rows h
  have he : (FaceTest.within (.mul (.dec 1 9) (.max (.sub (.colMax 0) (.colMin 0))
      (.sub (.colMax 1) (.colMin 1))))).tol rows = 1 / 10 ^ 9 * extent rows := by
    simp only [FaceTest.tol, FTerm.eval, PyNum.dec_real, fmax_real, extent]; norm_num
  rw [he]
  exact ⟨mul_nonneg (by positivity) (extent_nonneg h), le_max_right _ _⟩

/-! ### the three shape checks -/

/-- `SplineGroove.__init__`'s shape checks with the face test `ft` accept an argument iff it is two-dimensional, has at
    least one row, two entries in every row, and its first and last ordinate are within the tolerance of `ft` -/
theorem splineAccepts_iff (ft : FaceTest) (nd : Nat) (rows : List (List ℝ)) :
    splineAccepts ft [.ndim 2, .cols 2, .endsOnFace] nd rows = true ↔
      nd = 2 ∧ rows ≠ [] ∧ (∀ r ∈ rows, r.length = 2) ∧
        ∀ a ∈ rows.head?, ∀ b ∈ rows.getLast?, |a.getD 1 1| ≤ ft.tol rows ∧ |b.getD 1 1| ≤ ft.tol rows := by
  rcases rows with _ | ⟨r, t⟩
  · simp [splineAccepts]
  · obtain ⟨b, hb⟩ : ∃ b, (r :: t).getLast? = some b := ⟨_, List.getLast?_eq_some_getLast (by simp)⟩
    simp only [splineAccepts, List.all_cons, List.all_nil, Bool.and_true, Bool.and_eq_true, decide_eq_true_eq,
      List.head?_cons, hb, onFace_iff, List.isEmpty_cons, Bool.not_false, List.all_eq_true, ne_eq,
      reduceCtorEq, not_false_eq_true, true_and, List.mem_cons, forall_eq_or_imp, Option.mem_def, Option.some.injEq,
      forall_eq', PyNum.nat_real, Nat.cast_one]

end GrooveWF
