import PyrollProofs.HookRegLemmas

/-!
  C01 helper lemmas: `specRegs` is the list of the in-scope live registrations sorted by the documented priority
  (`Before`): wrappers first, tryfirst < normal < trylast, index of the owner in the `__mro__`, latest first.
-/

namespace Hooks

/-- position of the store in `functions_gen`: wrappers (first, normal, last), then plain (first, normal, last) -/
def rank (w : Bool) (t : Tier) : Nat :=
  (if w then 0 else 3) + (match t with | .first => 0 | .normal => 1 | .last => 2)

def Reg.rank (r : Reg) : Nat := Hooks.rank r.hf.wrapper r.tier

/-- the documented priority: `r1` is consulted before `r2` by an object whose class has the `__mro__` `m` -/
def Before (m : List Cls) (r1 r2 : Reg) : Prop :=
  r1.rank < r2.rank ∨
    (r1.rank = r2.rank ∧ (m.idxOf r1.cls < m.idxOf r2.cls ∨ (r1.cls = r2.cls ∧ r2.hf.id < r1.hf.id)))

instance (m : List Cls) (r1 r2 : Reg) : Decidable (Before m r1 r2) := by unfold Before; infer_instance

theorem Before.asymm {m : List Cls} {r1 r2 : Reg} (h : Before m r1 r2) : ¬ Before m r2 r1 := by
  intro h'
  rcases h with h | ⟨he, h | ⟨hc, h⟩⟩ <;> rcases h' with h' | ⟨he', h' | ⟨hc', h'⟩⟩ <;>
    first
      | omega
      | (rw [hc] at h'; omega)
      | (rw [hc'] at h; omega)

theorem Before.irrefl {m : List Cls} {r : Reg} : ¬ Before m r r := fun h => h.asymm h

theorem idxOf_lt_of_sublist {l : List Cls} (hn : l.Nodup) {a b : Cls} (hs : [a, b].Sublist l) :
    l.idxOf a < l.idxOf b := by
  induction l with
  | nil => cases hs
  | cons x l ih =>
    rw [List.nodup_cons] at hn
    cases hs with
    | cons _ h =>
      have ha : a ∈ l := h.subset (by simp)
      have hb : b ∈ l := h.subset (by simp)
      have hxa : (x == a) = false := by simp; exact fun e => hn.1 (e ▸ ha)
      have hxb : (x == b) = false := by simp; exact fun e => hn.1 (e ▸ hb)
      simp only [List.idxOf_cons, hxa, hxb, cond_false]
      have := ih hn.2 h
      omega
    | cons_cons _ h =>
      have hb : b ∈ l := h.subset (by simp)
      have hxb : (a == b) = false := by simp; exact fun e => hn.1 (e ▸ hb)
      simp [List.idxOf_cons, hxb]

theorem tiers6_sorted : tiers6.Pairwise (fun a b => rank a.1 a.2 < rank b.1 b.2) := by
  simp [tiers6, rank]

theorem mem_seg {log : List Reg} {k : Cls} {wt : Bool × Tier} {r : Reg}
    (h : r ∈ (log.filter fun r => r.cls == k && r.hf.wrapper == wt.1 && r.tier == wt.2).reverse) :
    r ∈ log ∧ r.cls = k ∧ r.hf.wrapper = wt.1 ∧ r.tier = wt.2 := by
  simp only [List.mem_reverse, List.mem_filter, Bool.and_eq_true, beq_iff_eq] at h
  exact ⟨h.1, h.2.1.1, h.2.1.2, h.2.2⟩

/-- `specRegs` is sorted by the documented priority -/
theorem specRegs_sorted {m : List Cls} {log : List Reg} (hm : m.Nodup)
    (hl : log.Pairwise (fun r1 r2 => r1.hf.id < r2.hf.id)) : (specRegs m log).Pairwise (Before m) := by
  unfold specRegs
  rw [List.pairwise_flatMap]
  constructor
  · intro wt _
    rw [List.pairwise_flatMap]
    constructor
    · intro k _
      rw [List.pairwise_reverse]
      refine (hl.filter _).imp_of_mem ?_
      intro r1 r2 h1 h2 hlt
      simp only [List.mem_filter, Bool.and_eq_true, beq_iff_eq] at h1 h2
      refine Or.inr ⟨?_, Or.inr ⟨?_, hlt⟩⟩
      · simp [Reg.rank, h1.2.1.2, h1.2.2, h2.2.1.2, h2.2.2]
      · rw [h2.2.1.1, h1.2.1.1]
    · have hidx : m.Pairwise (fun a b => m.idxOf a < m.idxOf b) :=
        List.pairwise_iff_forall_sublist.2 fun h => idxOf_lt_of_sublist hm h
      refine hidx.imp ?_
      intro k1 k2 hlt x hx y hy
      obtain ⟨_, hx1, hx2, hx3⟩ := mem_seg hx
      obtain ⟨_, hy1, hy2, hy3⟩ := mem_seg hy
      refine Or.inr ⟨?_, Or.inl ?_⟩
      · simp [Reg.rank, hx2, hx3, hy2, hy3]
      · rw [hx1, hy1]; exact hlt
  · refine tiers6_sorted.imp ?_
    intro a b hlt x hx y hy
    simp only [List.mem_flatMap] at hx hy
    obtain ⟨_, _, hx⟩ := hx
    obtain ⟨_, _, hy⟩ := hy
    obtain ⟨_, _, hx2, hx3⟩ := mem_seg hx
    obtain ⟨_, _, hy2, hy3⟩ := mem_seg hy
    left
    simp only [Reg.rank, hx2, hx3, hy2, hy3]
    exact hlt

/-- scope: exactly the live registrations whose owner is in the `__mro__` -/
theorem mem_specRegs {m : List Cls} {log : List Reg} {r : Reg} : r ∈ specRegs m log ↔ r ∈ log ∧ r.cls ∈ m := by
  simp only [specRegs, List.mem_flatMap, List.mem_reverse, List.mem_filter, Bool.and_eq_true, beq_iff_eq]
  constructor
  · rintro ⟨wt, _, k, hk, hr, ⟨hc, _⟩, _⟩
    exact ⟨hr, hc ▸ hk⟩
  · rintro ⟨hr, hk⟩
    refine ⟨(r.hf.wrapper, r.tier), ?_, r.cls, hk, hr, ⟨rfl, rfl⟩, rfl⟩
    cases r.hf.wrapper <;> cases r.tier <;> simp [tiers6]

theorem specRegs_nodup {m : List Cls} {log : List Reg} (hm : m.Nodup)
    (hl : log.Pairwise (fun r1 r2 => r1.hf.id < r2.hf.id)) : (specRegs m log).Nodup := by
  rw [List.nodup_iff_pairwise_ne]
  refine (specRegs_sorted hm hl).imp ?_
  intro a b h e
  exact Before.irrefl (e ▸ h)

/-- two different entries of an id-sorted log have different ids -/
theorem id_inj_of_sorted {log : List Reg} (hl : log.Pairwise (fun r1 r2 => r1.hf.id < r2.hf.id)) {r1 r2 : Reg}
    (h1 : r1 ∈ log) (h2 : r2 ∈ log) (he : r1.hf.id = r2.hf.id) : r1 = r2 := by
  induction log with
  | nil => cases h1
  | cons x l ih =>
    rw [List.pairwise_cons] at hl
    simp only [List.mem_cons] at h1 h2
    rcases h1 with rfl | h1 <;> rcases h2 with rfl | h2
    · rfl
    · have := hl.1 r2 h2; omega
    · have := hl.1 r1 h1; omega
    · exact ih hl.2 h1 h2

theorem specOrder_ids_nodup {m : List Cls} {log : List Reg} (hm : m.Nodup)
    (hl : log.Pairwise (fun r1 r2 => r1.hf.id < r2.hf.id)) : ((specOrder m log).map (·.id)).Nodup := by
  simp only [specOrder, List.map_map]
  rw [List.nodup_iff_pairwise_ne, List.pairwise_map]
  have hn := specRegs_nodup hm hl
  rw [List.nodup_iff_pairwise_ne] at hn
  refine hn.imp_of_mem ?_
  intro a b ha hb hne e
  exact hne (id_inj_of_sorted hl (mem_specRegs.1 ha).1 (mem_specRegs.1 hb).1 e)

/-- in a list sorted by an asymmetric relation the position of two members follows from their keys -/
theorem sublist_pair_of_pairwise {α : Type} {R : α → α → Prop} {l : List α} (hp : l.Pairwise R) {a b : α}
    (ha : a ∈ l) (hb : b ∈ l) (hne : a ≠ b) (hR : ¬ R b a) : [a, b].Sublist l := by
  induction l with
  | nil => cases ha
  | cons x l ih =>
    rw [List.pairwise_cons] at hp
    simp only [List.mem_cons] at ha hb
    rcases ha with rfl | ha
    · rcases hb with rfl | hb
      · exact absurd rfl hne
      · exact List.Sublist.cons_cons _ (List.singleton_sublist.2 hb)
    · rcases hb with rfl | hb
      · exact absurd (hp.1 a ha) hR
      · exact List.Sublist.cons _ (ih hp.2 ha hb)

/-- two in-scope live registrations are consulted in the order of their keys -/
theorem specOrder_pair {m : List Cls} {log : List Reg} (hm : m.Nodup)
    (hl : log.Pairwise (fun r1 r2 => r1.hf.id < r2.hf.id)) {r1 r2 : Reg} (h1 : r1 ∈ log) (h2 : r2 ∈ log)
    (hc1 : r1.cls ∈ m) (hc2 : r2.cls ∈ m) (hb : Before m r1 r2) : [r1.hf, r2.hf].Sublist (specOrder m log) := by
  have := sublist_pair_of_pairwise (specRegs_sorted hm hl) (mem_specRegs.2 ⟨h1, hc1⟩) (mem_specRegs.2 ⟨h2, hc2⟩)
    (fun e => Before.irrefl (e ▸ hb)) hb.asymm
  exact this.map (·.hf)

/-- wrappers first: the order splits into its wrappers followed by its plain implementations -/
theorem specOrder_split (m : List Cls) (log : List Reg) :
    specOrder m log = (specOrder m log).filter (·.wrapper) ++ (specOrder m log).filter (fun f => !f.wrapper) := by
  have key : ∀ (l1 l2 : List HF), (∀ f ∈ l1, f.wrapper = true) → (∀ f ∈ l2, f.wrapper = false) →
      l1 ++ l2 = (l1 ++ l2).filter (·.wrapper) ++ (l1 ++ l2).filter (fun f => !f.wrapper) := by
    intro l1 l2 h1 h2
    have a1 : l1.filter (·.wrapper) = l1 := List.filter_eq_self.2 h1
    have a2 : l2.filter (·.wrapper) = [] := by
      rw [List.filter_eq_nil_iff]; intro f hf; simp [h2 f hf]
    have a3 : l1.filter (fun f => !f.wrapper) = [] := by
      rw [List.filter_eq_nil_iff]; intro f hf; simp [h1 f hf]
    have a4 : l2.filter (fun f => !f.wrapper) = l2 := List.filter_eq_self.2 (fun f hf => by simp [h2 f hf])
    simp [List.filter_append, a1, a2, a3, a4]
  have seg : ∀ (w : Bool) (t : Tier), ∀ f ∈ (m.flatMap fun k =>
      (log.filter fun r => r.cls == k && r.hf.wrapper == (w, t).1 && r.tier == (w, t).2).reverse).map (·.hf),
      f.wrapper = w := by
    intro w t f hf
    simp only [List.mem_map, List.mem_flatMap] at hf
    obtain ⟨r, ⟨k, _, hr⟩, rfl⟩ := hf
    exact (mem_seg (wt := (w, t)) hr).2.2.1
  have : specOrder m log =
      ((((m.flatMap fun k => (log.filter fun r => r.cls == k && r.hf.wrapper == (true, Tier.first).1 && r.tier == (true, Tier.first).2).reverse).map (·.hf)) ++
        ((m.flatMap fun k => (log.filter fun r => r.cls == k && r.hf.wrapper == (true, Tier.normal).1 && r.tier == (true, Tier.normal).2).reverse).map (·.hf)) ++
        ((m.flatMap fun k => (log.filter fun r => r.cls == k && r.hf.wrapper == (true, Tier.last).1 && r.tier == (true, Tier.last).2).reverse).map (·.hf)))) ++
      ((((m.flatMap fun k => (log.filter fun r => r.cls == k && r.hf.wrapper == (false, Tier.first).1 && r.tier == (false, Tier.first).2).reverse).map (·.hf)) ++
        ((m.flatMap fun k => (log.filter fun r => r.cls == k && r.hf.wrapper == (false, Tier.normal).1 && r.tier == (false, Tier.normal).2).reverse).map (·.hf)) ++
        ((m.flatMap fun k => (log.filter fun r => r.cls == k && r.hf.wrapper == (false, Tier.last).1 && r.tier == (false, Tier.last).2).reverse).map (·.hf)))) := by
    simp [specOrder, specRegs, tiers6]
  rw [this]
  apply key
  · intro f hf
    simp only [List.mem_append] at hf
    rcases hf with (hf | hf) | hf
    · exact seg true .first f hf
    · exact seg true .normal f hf
    · exact seg true .last f hf
  · intro f hf
    simp only [List.mem_append] at hf
    rcases hf with (hf | hf) | hf
    · exact seg false .first f hf
    · exact seg false .normal f hf
    · exact seg false .last f hf

theorem idxOf_inj_of_mem {l : List Cls} {a b : Cls} (ha : a ∈ l) (h : l.idxOf a = l.idxOf b) : a = b := by
  induction l with
  | nil => cases ha
  | cons x l ih =>
    simp only [List.idxOf_cons] at h
    cases hxa : (x == a) <;> cases hxb : (x == b) <;> simp only [hxa, hxb, cond_true, cond_false] at h
    · have : a ∈ l := by
        simp only [List.mem_cons] at ha
        rcases ha with rfl | ha
        · simp at hxa
        · exact ha
      exact ih this (by omega)
    · omega
    · omega
    · simp only [beq_iff_eq] at hxa hxb; rw [← hxa, ← hxb]

end Hooks
