import PyrollModel.Lifecycle

/-!
Helper lemmas for C02 (hook value life-cycle; core Lean only, no Mathlib).

* the association-list primitives `lookup / put / del / keys` (python dict with insertion order);
* `Pres` and `ev_pres`: an evaluation (`Hook.__get__`, `get_result`, a function body) never changes an explicit value,
  the registry or a remembered VALUE; it only appends/fills cache entries and extends the trace; `ev_frame`: it touches
  one instance only; `ev_succ / ev_fuel_mono`: a finished evaluation does not depend on the fuel;
* the loops `reevalLoop` (`reevaluate_cache`) and `rootLoop` (`evaluate_and_set_hooks`);
* per-operation stability lemmas used for the induction over histories in `PyrollProps/C02.lean`.
-/

-- every unfolding of `step` names the lemmas about the generated source tables, whether the goal has that case or not
set_option linter.unusedSimpArgs false

namespace Life

/-! ### what the model consumes from the GENERATED source tables (`PyrollModel/Gen/C02Hooks.lean`)

`hasSet`, `hasCached`, `reeval` and `noneOutcome` are the model instantiated with what was read from `pyroll/core/hooks.py`
on this run; these lemmas evaluate them for the generated values and are the only places where the proofs look at the
tables.  A source change that alters one of them (`has_set` looking into `__cache__`, `reevaluate_cache` clearing or going
through the read path, the `None` check dropped or moved behind the store) makes the lemma - and the theorems - fail to build. -/

/-- `has_set` tests the keys of `__dict__` -/
@[simp] theorem hasSet_gen (st : State) (i : Inst) (n : Name) : hasSet st i n = (lookup n (st.obj i).dict).isSome := rfl

/-- `has_cached` tests the keys of `__cache__` -/
@[simp] theorem hasCached_gen (st : State) (i : Inst) (n : Name) :
    hasCached st i n = (lookup n (st.obj i).cache).isSome := rfl

/-- `reevaluate_cache` recomputes every remembered name with `get_result` and stores the result -/
@[simp] theorem reeval_gen (fuel : Nat) (i : Inst) (st : State) :
    reeval fuel i st = reevalLoop fuel i st (keys (st.obj i).cache) := rfl

/-- a `None` result raises AttributeError and nothing is stored -/
@[simp] theorem noneOutcome_gen (i : Inst) (n : Name) (s : State) : noneOutcome i n s = (s, .attrErr) := rfl

/-- the mark is discarded on every way out of `HookFunction.__call__` - also when the function raised - unless the call was
a cycled one (`if not cycle:` in the `finally` clause) -/
@[simp] theorem discards_gen (cyc failed : Bool) : discards cyc failed = !cyc := by
  cases cyc <;> cases failed <;> rfl

theorem leave_gen (st : State) (cyc failed : Bool) (k : Id) (i : Inst) :
    st.leave cyc failed k i = if cyc then st else { st with active := st.active.erase (k, i) } := by
  cases cyc <;> simp [State.leave]

/-- `Hook.functions_gen` yields the plain implementations store by store: tryfirst, normal, trylast -/
@[simp] theorem tierOrder_gen : tierOrder = [0, 1, 2] := by decide

/-- per store: the classes of the MRO in order, the registrations of a class latest first -/
theorem tierRegs_gen (st : State) (c : Cls) (n : Name) (t : Nat) :
    tierRegs st c n t =
      (st.mro c).flatMap fun k => (st.regs.filter fun r => r.cls == k && r.hook == n && r.tier == t).reverse := rfl

theorem order_gen (st : State) (c : Cls) (n : Name) :
    order st c n = tierRegs st c n 0 ++ (tierRegs st c n 1 ++ tierRegs st c n 2) := by
  simp [order]

/-- `add_function(f, tryfirst, trylast)`: tryfirst wins over trylast -/
theorem tierOfFlags_gen (first last : Bool) :
    tierOfFlags first last = if first then 0 else if last then 2 else 1 := by
  cases first <;> cases last <;> rfl

/-- `remove_function(hf)` removes exactly the registration object `hf`, whatever store it is in -/
@[simp] theorem removes_gen (r : Reg) (key : Id) : removes r key = (r.key == key) := by
  unfold removes
  have h : Gen.C02.Extra.removeStores.contains (storeName r.tier) = true := by
    rcases ht : r.tier with _ | _ | t <;> simp [storeName] <;> decide
  rw [h]
  have h2 : (Gen.C02.Extra.removeMatches == "func") = true := by decide
  rw [h2]; simp

/-- the `root_hooks` list API as read from the source -/
@[simp] theorem rootAdd_gen {α : Type} [DecidableEq α] (x : α) (l : List α) : rootAdd x l = l ++ [x] := rfl
@[simp] theorem rootRemove_gen {α : Type} [DecidableEq α] (x : α) (l : List α) : rootRemove x l = removeLastOcc x l := rfl
@[simp] theorem insertBeforeShift_gen : Gen.C02.Extra.insertBeforeShift = 0 := rfl
@[simp] theorem insertAfterShift_gen : Gen.C02.Extra.insertAfterShift = 1 := rfl

/-! ### python `dict` primitives -/

theorem lookup_put_self {α : Type} (n : Name) (v : α) (l : List (Name × α)) : lookup n (put n v l) = some v := by
  induction l with
  | nil => simp [put, lookup]
  | cons e l ih =>
    obtain ⟨k, w⟩ := e
    by_cases h : k = n <;> simp [put, lookup, h, ih]

theorem lookup_put_ne {α : Type} {m n : Name} (h : m ≠ n) (v : α) (l : List (Name × α)) :
    lookup m (put n v l) = lookup m l := by
  induction l with
  | nil => simp [put, lookup]; intro h'; exact absurd h'.symm h
  | cons e l ih =>
    obtain ⟨k, w⟩ := e
    simp only [put]
    split <;> simp only [lookup] <;> grind

theorem lookup_del_self {α : Type} (n : Name) (l : List (Name × α)) : lookup n (del n l) = none := by
  induction l with
  | nil => simp [del, lookup]
  | cons e l ih =>
    obtain ⟨k, w⟩ := e
    by_cases h : k = n
    · subst h; simpa [del] using ih
    · simp only [del] at ih ⊢
      simp [h, lookup, ih]

theorem lookup_del_ne {α : Type} {m n : Name} (h : m ≠ n) (l : List (Name × α)) :
    lookup m (del n l) = lookup m l := by
  induction l with
  | nil => simp [del, lookup]
  | cons e l ih =>
    obtain ⟨k, w⟩ := e
    simp only [del] at ih ⊢
    simp only [List.filter_cons]
    split <;> simp only [lookup] <;> grind

theorem lookup_isSome_iff {α : Type} (n : Name) (l : List (Name × α)) : (lookup n l).isSome ↔ n ∈ keys l := by
  induction l with
  | nil => simp [lookup, keys]
  | cons e l ih =>
    obtain ⟨k, w⟩ := e
    by_cases h : k = n
    · simp [lookup, keys, h]
    · simp only [keys] at ih
      have h' : ¬ n = k := fun x => h x.symm
      simp [lookup, keys, h, h', ih]

theorem keys_put_mem {α : Type} {n : Name} (v : α) {l : List (Name × α)} (h : n ∈ keys l) :
    keys (put n v l) = keys l := by
  induction l with
  | nil => simp [keys] at h
  | cons e l ih =>
    obtain ⟨k, w⟩ := e
    by_cases hk : k = n
    · simp [put, keys, hk]
    · have : n ∈ keys l := by
        simp only [keys, List.map_cons, List.mem_cons] at h ⊢
        rcases h with h | h
        · exact absurd h.symm hk
        · exact h
      simp only [keys] at ih
      simp [put, keys, hk, ih this]

theorem keys_put_not_mem {α : Type} {n : Name} (v : α) {l : List (Name × α)} (h : n ∉ keys l) :
    keys (put n v l) = keys l ++ [n] := by
  induction l with
  | nil => simp [keys, put]
  | cons e l ih =>
    obtain ⟨k, w⟩ := e
    simp only [keys, List.map_cons, List.mem_cons, not_or] at h ih ⊢
    have hk : ¬ k = n := fun x => h.1 x.symm
    simp [put, hk, ih h.2]

theorem keys_put_prefix {α : Type} (n : Name) (v : α) (l : List (Name × α)) : keys l <+: keys (put n v l) := by
  by_cases hm : n ∈ keys l
  · rw [keys_put_mem v hm]; exact List.prefix_refl _
  · rw [keys_put_not_mem v hm]; exact List.prefix_append _ _

theorem keys_put_nodup {α : Type} (n : Name) (v : α) {l : List (Name × α)} (h : (keys l).Nodup) :
    (keys (put n v l)).Nodup := by
  by_cases hm : n ∈ keys l
  · rw [keys_put_mem v hm]; exact h
  · rw [keys_put_not_mem v hm]
    rw [List.nodup_append]
    refine ⟨h, by simp, ?_⟩
    intro a ha b hb
    simp at hb; subst hb
    intro hab; subst hab; exact hm ha

theorem keys_del_nodup {α : Type} (n : Name) {l : List (Name × α)} (h : (keys l).Nodup) :
    (keys (del n l)).Nodup := by
  simp only [keys, del] at h ⊢
  exact (List.filter_sublist.map _).nodup h

/-! ### what an evaluation can change -/

/-- what NO evaluation changes: the shape of the world (instances, classes, registry, root list), and what every
evaluation may only extend: the list of remembered names of each instance (python dict order) and the trace -/
structure Same (st st' : State) : Prop where
  n : st'.n = st.n
  mro : st'.mro = st.mro
  regs : st'.regs = st.regs
  roots : st'.roots = st.roots
  cls : ∀ j, (st'.obj j).cls = (st.obj j).cls
  fb : ∀ j, (st'.obj j).fb = (st.obj j).fb
  keysPrefix : ∀ j, keys (st.obj j).cache <+: keys (st'.obj j).cache
  nodup : (∀ j, (keys (st.obj j).cache).Nodup) → ∀ j, (keys (st'.obj j).cache).Nodup
  trace : ∃ t, st'.trace = st.trace ++ t

theorem Same.refl (st : State) : Same st st :=
  ⟨rfl, rfl, rfl, rfl, fun _ => rfl, fun _ => rfl, fun _ => List.prefix_refl _, fun h => h, ⟨[], by simp⟩⟩

theorem Same.trans {a b c : State} (h1 : Same a b) (h2 : Same b c) : Same a c where
  n := h2.n.trans h1.n
  mro := h2.mro.trans h1.mro
  regs := h2.regs.trans h1.regs
  roots := h2.roots.trans h1.roots
  cls j := (h2.cls j).trans (h1.cls j)
  fb j := (h2.fb j).trans (h1.fb j)
  keysPrefix j := (h1.keysPrefix j).trans (h2.keysPrefix j)
  nodup h := h2.nodup (h1.nodup h)
  trace := by
    obtain ⟨t1, e1⟩ := h1.trace
    obtain ⟨t2, e2⟩ := h2.trace
    exact ⟨t1 ++ t2, by rw [e2, e1, List.append_assoc]⟩

theorem Same.log (st : State) (id : Id) : Same st (st.log id) :=
  ⟨rfl, rfl, rfl, rfl, fun _ => rfl, fun _ => rfl, fun _ => List.prefix_refl _, fun h => h, ⟨[id], rfl⟩⟩

theorem Same.remember {st s : State} (h : Same st s) (i : Inst) (n : Name) (x : Option Val) :
    Same st (s.remember i n x) where
  n := h.n
  mro := h.mro
  regs := h.regs
  roots := h.roots
  cls j := by
    by_cases hj : j = i
    · subst hj; simp [State.remember, State.setObj, h.cls]
    · simp [State.remember, State.setObj, hj, h.cls]
  fb j := by
    by_cases hj : j = i
    · subst hj; simp [State.remember, State.setObj, h.fb]
    · simp [State.remember, State.setObj, hj, h.fb]
  keysPrefix j := by
    by_cases hj : j = i
    · subst hj
      simp only [State.remember, State.setObj, if_true]
      exact (h.keysPrefix j).trans (keys_put_prefix _ _ _)
    · simp only [State.remember, State.setObj, hj, if_false]; exact h.keysPrefix j
  nodup hnd j := by
    by_cases hj : j = i
    · subst hj
      simp only [State.remember, State.setObj, if_true]
      exact keys_put_nodup _ _ (h.nodup hnd j)
    · simp only [State.remember, State.setObj, hj, if_false]; exact h.nodup hnd j
  trace := h.trace

theorem remember_dict (s : State) (i j : Inst) (n : Name) (x : Option Val) :
    ((s.remember i n x).obj j).dict = (s.obj j).dict := by
  by_cases hj : j = i
  · subst hj; simp [State.remember, State.setObj]
  · simp [State.remember, State.setObj, hj]

/-- `st'` differs from `st` at most by new/filled cache entries and a longer trace:
explicit values are the same and every remembered VALUE is still remembered. -/
structure Pres (st st' : State) : Prop extends Same st st' where
  dict : ∀ j, (st'.obj j).dict = (st.obj j).dict
  cacheMono : ∀ j m v, lookup m (st.obj j).cache = some (some v) → lookup m (st'.obj j).cache = some (some v)

theorem Pres.refl (st : State) : Pres st st := ⟨Same.refl st, fun _ => rfl, fun _ _ _ h => h⟩

theorem Pres.trans {a b c : State} (h1 : Pres a b) (h2 : Pres b c) : Pres a c :=
  ⟨h1.toSame.trans h2.toSame, fun j => (h2.dict j).trans (h1.dict j),
   fun j m v h => h2.cacheMono j m v (h1.cacheMono j m v h)⟩

theorem Pres.log (st : State) (id : Id) : Pres st (st.log id) := ⟨Same.log st id, fun _ => rfl, fun _ _ _ h => h⟩

/-! the executing marks are no part of `Same` / `Pres`: setting and removing a mark changes nothing else -/

@[simp] theorem enter_obj (s : State) (k : Id) (i : Inst) : (s.enter k i).obj = s.obj := by
  unfold State.enter; split <;> rfl
@[simp] theorem enter_n (s : State) (k : Id) (i : Inst) : (s.enter k i).n = s.n := by
  unfold State.enter; split <;> rfl
@[simp] theorem enter_mro (s : State) (k : Id) (i : Inst) : (s.enter k i).mro = s.mro := by
  unfold State.enter; split <;> rfl
@[simp] theorem enter_regs (s : State) (k : Id) (i : Inst) : (s.enter k i).regs = s.regs := by
  unfold State.enter; split <;> rfl
@[simp] theorem enter_roots (s : State) (k : Id) (i : Inst) : (s.enter k i).roots = s.roots := by
  unfold State.enter; split <;> rfl
@[simp] theorem enter_trace (s : State) (k : Id) (i : Inst) : (s.enter k i).trace = s.trace := by
  unfold State.enter; split <;> rfl
@[simp] theorem leave_obj (s : State) (cyc failed : Bool) (k : Id) (i : Inst) : (s.leave cyc failed k i).obj = s.obj := by
  unfold State.leave; split <;> rfl
@[simp] theorem leave_n (s : State) (cyc failed : Bool) (k : Id) (i : Inst) : (s.leave cyc failed k i).n = s.n := by
  unfold State.leave; split <;> rfl
@[simp] theorem leave_mro (s : State) (cyc failed : Bool) (k : Id) (i : Inst) : (s.leave cyc failed k i).mro = s.mro := by
  unfold State.leave; split <;> rfl
@[simp] theorem leave_regs (s : State) (cyc failed : Bool) (k : Id) (i : Inst) : (s.leave cyc failed k i).regs = s.regs := by
  unfold State.leave; split <;> rfl
@[simp] theorem leave_roots (s : State) (cyc failed : Bool) (k : Id) (i : Inst) :
    (s.leave cyc failed k i).roots = s.roots := by
  unfold State.leave; split <;> rfl
@[simp] theorem leave_trace (s : State) (cyc failed : Bool) (k : Id) (i : Inst) :
    (s.leave cyc failed k i).trace = s.trace := by
  unfold State.leave; split <;> rfl

theorem Pres.ofEq {st s : State} (hn : s.n = st.n) (hm : s.mro = st.mro) (hr : s.regs = st.regs)
    (hro : s.roots = st.roots) (ho : s.obj = st.obj) (ht : s.trace = st.trace) : Pres st s where
  n := hn
  mro := hm
  regs := hr
  roots := hro
  cls j := by rw [ho]
  fb j := by rw [ho]
  keysPrefix j := by rw [ho]; exact List.prefix_refl _
  nodup h := by rw [ho]; exact h
  trace := ⟨[], by rw [ht]; simp⟩
  dict j := by rw [ho]
  cacheMono j m v h := by rw [ho]; exact h

theorem Pres.enter (s : State) (k : Id) (i : Inst) : Pres s (s.enter k i) :=
  Pres.ofEq (enter_n ..) (enter_mro ..) (enter_regs ..) (enter_roots ..) (enter_obj ..) (enter_trace ..)

theorem Pres.leave (s : State) (cyc failed : Bool) (k : Id) (i : Inst) : Pres s (s.leave cyc failed k i) :=
  Pres.ofEq (leave_n ..) (leave_mro ..) (leave_regs ..) (leave_roots ..) (leave_obj ..) (leave_trace ..)

/-- mark set, leaf function run (state unchanged), mark removed: the state is as before -/
theorem leave_enter_log (st : State) (id k : Id) (i : Inst) (failed : Bool) :
    ((st.log id).enter k i).leave (st.marked k i) failed k i = st.log id := by
  rw [leave_gen]
  unfold State.enter
  have hm : (st.log id).marked k i = st.marked k i := rfl
  rw [hm]
  cases st.marked k i
  · simp
  · simp

/-- mark set, function run, mark removed: the marks are as before (`cycle` is computed before the mark is set) -/
theorem leave_enter (s : State) (k : Id) (i : Inst) (failed : Bool)
    (s1 : State) (h1 : s1.active = (s.enter k i).active) :
    (s1.leave (s.marked k i) failed k i).active = s.active := by
  rw [leave_gen]
  unfold State.enter at h1
  cases hm : s.marked k i
  · simp only [hm] at h1 ⊢
    simp [h1]
  · simp only [hm] at h1 ⊢
    simpa using h1

/-- storing a computed value under a name that held no VALUE before -/
theorem Pres.remember {st s : State} (h : Pres st s) (i : Inst) (n : Name) (x : Option Val)
    (hn : ∀ w, lookup n (st.obj i).cache ≠ some (some w)) : Pres st (s.remember i n x) where
  toSame := h.toSame.remember i n x
  dict j := (remember_dict s i j n x).trans (h.dict j)
  cacheMono j m v hm := by
    by_cases hj : j = i
    · subst hj
      by_cases hmn : m = n
      · subst hmn; exact absurd hm (hn v)
      · simp only [State.remember, State.setObj, if_true]
        rw [lookup_put_ne hmn]; exact h.cacheMono j m v hm
    · simp only [State.remember, State.setObj, hj, if_false]; exact h.cacheMono j m v hm

theorem Pres.combine {st : State} {k c : Int} {x : State × Res} (h : Pres st x.1) : Pres st (combine k c x).1 := by
  obtain ⟨s, r⟩ := x
  cases r <;> exact h

theorem Pres.finishGet {st : State} {i : Inst} {n : Name} {x : State × Res} (h : Pres st x.1)
    (hn : ∀ w, lookup n (st.obj i).cache ≠ some (some w)) : Pres st (finishGet i n x).1 := by
  obtain ⟨s, r⟩ := x
  cases r
  · exact h.remember i n _ hn
  all_goals exact h

/-- **computation never overwrites an explicit value** (and never forgets a remembered one): every evaluation
task leaves `__dict__`, the registry and all remembered values alone. -/
theorem ev_pres : ∀ (f : Nat) (st : State) (t : Task), Pres st (ev f st t).1 := by
  intro f
  induction f with
  | zero => intro st t; simp only [ev]; exact Pres.refl st
  | succ f ih =>
    intro st t
    cases t with
    | get i n =>
      simp only [ev]
      split
      · exact Pres.refl st
      · exact Pres.log st _
      · exact (Pres.log st _).trans (ih _ _)
      · exact Pres.refl st
      · exact ih _ _
      · exact ih _ _
    | unset i n =>
      simp only [ev]
      split
      · exact Pres.refl st
      · next h => exact Pres.finishGet (ih _ _) (by intro w; rw [h]; simp)
      · next h => exact Pres.finishGet (ih _ _) (by intro w; rw [h]; simp)
    | chain i rs =>
      cases rs with
      | nil => simp only [ev]; exact Pres.refl st
      | cons r rs =>
        simp only [ev]
        have h1 := ((Pres.log st r.id).trans (Pres.enter _ r.key i)).trans
          (ih ((st.log r.id).enter r.key i) (.body i (r.body.under (st.marked r.key i))))
        split
        · next h => rw [h] at h1; exact (h1.trans (Pres.leave _ _ _ _ _)).trans (ih _ _)
        all_goals (next h => rw [h] at h1; exact h1.trans (Pres.leave _ _ _ _ _))
    | body i b =>
      cases b with
      | const v => simp only [ev]; exact Pres.refl st
      | none => simp only [ev]; exact Pres.refl st
      | cread m k c => simp only [ev]; exact ih _ _
      | ctry m k c => simp only [ev]; exact ih _ _
      | read m k c => simp only [ev]; exact Pres.combine (ih _ _)
      | tryRead m k c =>
        simp only [ev]
        have h1 := ih st (.get i m)
        split
        · next h => rw [h] at h1; exact h1
        · next h => rw [h] at h1; exact Pres.combine (h1.trans (ih _ _))
        · next h => rw [h] at h1; exact Pres.combine (h1.trans (ih _ _))
        · next h => rw [h] at h1; exact h1
        · next h => rw [h] at h1; exact h1

/-! ### instances are independent -/

theorem remember_other (s : State) (i j : Inst) (n : Name) (x : Option Val) (h : j ≠ i) :
    (s.remember i n x).obj j = s.obj j := by
  simp [State.remember, State.setObj, h]

theorem combine_obj (k c : Int) (x : State × Res) : (combine k c x).1 = x.1 := by
  obtain ⟨s, r⟩ := x; cases r <;> rfl

theorem finishGet_other (i j : Inst) (n : Name) (x : State × Res) (h : j ≠ i) :
    (finishGet i n x).1.obj j = x.1.obj j := by
  obtain ⟨s, r⟩ := x
  cases r
  · exact remember_other s i j n _ h
  all_goals rfl

/-- an evaluation on instance `t.inst` does not touch any other instance -/
theorem ev_frame : ∀ (f : Nat) (st : State) (t : Task) (j : Inst), j ≠ t.inst → (ev f st t).1.obj j = st.obj j := by
  intro f
  induction f with
  | zero => intro st t j _; simp only [ev]
  | succ f ih =>
    intro st t j hj
    cases t with
    | get i n =>
      simp only [ev]
      split
      · rfl
      · rfl
      · exact ih (st.log _) (.body i _) j hj
      · rfl
      · exact ih st (.unset i n) j hj
      · exact ih st (.unset i n) j hj
    | unset i n =>
      simp only [ev]
      split
      · rfl
      · rw [finishGet_other i j n _ hj]; exact ih st (.chain i _) j hj
      · rw [finishGet_other i j n _ hj]; exact ih st (.chain i _) j hj
    | chain i rs =>
      cases rs with
      | nil => simp only [ev]
      | cons r rs =>
        simp only [ev]
        have h1 := ih ((st.log r.id).enter r.key i) (.body i (r.body.under (st.marked r.key i))) j hj
        rw [enter_obj] at h1
        split
        · next h => rw [h] at h1; rw [ih _ (.chain i rs) j hj, leave_obj]; exact h1
        all_goals (next h => rw [h] at h1; simp only [leave_obj]; exact h1)
    | body i b =>
      cases b with
      | const v => simp only [ev]
      | none => simp only [ev]
      | cread m k c => simp only [ev]; exact ih st (.body i (.read m k c)) j hj
      | ctry m k c => simp only [ev]; exact ih st (.body i (.tryRead m k c)) j hj
      | read m k c => simp only [ev]; rw [combine_obj]; exact ih st (.get i m) j hj
      | tryRead m k c =>
        simp only [ev]
        have h1 := ih st (.get i m) j hj
        split
        · next h => rw [h] at h1; exact h1
        · next h => rw [h] at h1; rw [combine_obj, ih _ (.get i m) j hj]; exact h1
        · next h => rw [h] at h1; rw [combine_obj, ih _ (.get i m) j hj]; exact h1
        · next h => rw [h] at h1; exact h1
        · next h => rw [h] at h1; exact h1

/-! ### fuel: a finished evaluation does not depend on the amount of fuel -/

theorem combine_fuel {k c : Int} {x : State × Res} (h : (combine k c x).2 ≠ .fuelOut) : x.2 ≠ .fuelOut := by
  obtain ⟨s, r⟩ := x; cases r <;> simp_all [combine]

theorem finishGet_fuel {i : Inst} {n : Name} {x : State × Res} (h : (finishGet i n x).2 ≠ .fuelOut) :
    x.2 ≠ .fuelOut := by
  obtain ⟨s, r⟩ := x; cases r <;> simp_all [finishGet, noneOutcome_gen]

theorem ev_succ : ∀ (f : Nat) (st : State) (t : Task), (ev f st t).2 ≠ .fuelOut → ev (f + 1) st t = ev f st t := by
  intro f
  induction f with
  | zero => intro st t h; simp [ev] at h
  | succ f ih =>
    intro st t h
    cases t with
    | get i n =>
      simp only [ev] at h
      rw [ev]; conv => rhs; rw [ev]
      split
      · rfl
      · rfl
      · next hl => simp only [hl] at h; exact ih _ _ h
      · rfl
      · next hl => simp only [hl] at h; exact ih _ _ h
      · next hl => simp only [hl] at h; exact ih _ _ h
    | unset i n =>
      simp only [ev] at h
      rw [ev]; conv => rhs; rw [ev]
      split
      · rfl
      · next hl => simp only [hl] at h; rw [ih _ _ (finishGet_fuel h)]
      · next hl => simp only [hl] at h; rw [ih _ _ (finishGet_fuel h)]
    | chain i rs =>
      cases rs with
      | nil => simp only [ev]
      | cons r rs =>
        simp only [ev] at h
        rw [ev]; conv => rhs; rw [ev]
        have hb : (ev f ((st.log r.id).enter r.key i) (.body i (r.body.under (st.marked r.key i)))).2 ≠ .fuelOut := by
          intro hc
          generalize ev f ((st.log r.id).enter r.key i) (.body i (r.body.under (st.marked r.key i))) = x at h hc
          obtain ⟨s, q⟩ := x; simp only at hc; subst hc; simp at h
        rw [ih _ _ hb]
        generalize ev f ((st.log r.id).enter r.key i) (.body i (r.body.under (st.marked r.key i))) = x at h hb
        obtain ⟨s, q⟩ := x
        cases q
        · rfl
        · simp only at h ⊢; exact ih _ _ h
        all_goals rfl
    | body i b =>
      cases b with
      | const v => simp only [ev]
      | none => simp only [ev]
      | cread m k c =>
        simp only [ev] at h
        rw [ev]; conv => rhs; rw [ev]
        exact ih _ _ h
      | ctry m k c =>
        simp only [ev] at h
        rw [ev]; conv => rhs; rw [ev]
        exact ih _ _ h
      | read m k c =>
        simp only [ev] at h
        rw [ev]; conv => rhs; rw [ev]
        rw [ih _ _ (combine_fuel h)]
      | tryRead m k c =>
        simp only [ev] at h
        rw [ev]; conv => rhs; rw [ev]
        have hb : (ev f st (.get i m)).2 ≠ .fuelOut := by
          intro hc
          generalize ev f st (.get i m) = x at h hc
          obtain ⟨s, r⟩ := x; simp only at hc; subst hc; simp at h
        rw [ih _ _ hb]
        generalize ev f st (.get i m) = x at h hb
        obtain ⟨s, r⟩ := x
        cases r
        · simp only at h ⊢; rw [ih _ _ (combine_fuel h)]
        · simp only at h ⊢; rw [ih _ _ (combine_fuel h)]
        all_goals rfl

theorem ev_fuel_mono {f g : Nat} (hfg : f ≤ g) (st : State) (t : Task) (h : (ev f st t).2 ≠ .fuelOut) :
    ev g st t = ev f st t := by
  induction hfg with
  | refl => rfl
  | step _ ih' => rw [ev_succ _ _ _ (by rw [ih']; exact h), ih']

/-! ### `reevaluate_cache` -/

/-- what a re-evaluation of instance `i` may change: only the cache VALUES of `i` (names are kept, new ones may be
appended by dependent reads) and the trace -/
structure PresR (i : Inst) (st st' : State) : Prop extends Same st st' where
  dict : ∀ j, (st'.obj j).dict = (st.obj j).dict
  other : ∀ j, j ≠ i → st'.obj j = st.obj j

theorem PresR.refl (i : Inst) (st : State) : PresR i st st := ⟨Same.refl st, fun _ => rfl, fun _ _ => rfl⟩

theorem PresR.trans {i : Inst} {a b c : State} (h1 : PresR i a b) (h2 : PresR i b c) : PresR i a c :=
  ⟨h1.toSame.trans h2.toSame, fun j => (h2.dict j).trans (h1.dict j),
   fun j hj => (h2.other j hj).trans (h1.other j hj)⟩

theorem PresR.ofEv (f : Nat) (st : State) (t : Task) : PresR t.inst st (ev f st t).1 :=
  ⟨(ev_pres f st t).toSame, (ev_pres f st t).dict, ev_frame f st t⟩

theorem PresR.remember {i : Inst} {st s : State} (h : PresR i st s) (n : Name) (x : Option Val) :
    PresR i st (s.remember i n x) :=
  ⟨h.toSame.remember i n x, fun j => (remember_dict s i j n x).trans (h.dict j),
   fun j hj => (remember_other s i j n x hj).trans (h.other j hj)⟩

theorem reevalLoop_pres (fuel : Nat) (i : Inst) : ∀ (names : List Name) (st : State),
    PresR i st (reevalLoop fuel i st names).1 := by
  intro names
  induction names with
  | nil => intro st; exact PresR.refl i st
  | cons n ns ih =>
    intro st
    simp only [reevalLoop]
    have h1 : PresR i st (ev fuel st (.chain i (order st (st.obj i).cls n))).1 := PresR.ofEv fuel st (.chain i _)
    split
    · next h => rw [h] at h1; exact (h1.remember n _).trans (ih _)
    · next h => rw [h] at h1; exact (h1.remember n _).trans (ih _)
    all_goals (next h => rw [h] at h1; exact h1)

theorem tierRegs_congr {st s : State} (h : Same st s) (j : Inst) (n : Name) (t : Nat) :
    tierRegs s (s.obj j).cls n t = tierRegs st (st.obj j).cls n t := by
  simp only [tierRegs, h.mro, h.regs, h.cls]

theorem order_congr {st s : State} (h : Same st s) (j : Inst) (n : Name) :
    order s (s.obj j).cls n = order st (st.obj j).cls n := by
  unfold order
  congr 1
  funext t
  exact tierRegs_congr h j n t

theorem mem_tierRegs {st : State} {c : Cls} {n : Name} {t : Nat} {r : Reg} (h : r ∈ tierRegs st c n t) : r ∈ st.regs := by
  simp only [tierRegs_gen, List.mem_flatMap, List.mem_reverse, List.mem_filter] at h
  obtain ⟨_, _, hr, _⟩ := h
  exact hr

/-- the resolution order lists registrations of the registry only -/
theorem mem_order_regs {st : State} {c : Cls} {n : Name} {r : Reg} (h : r ∈ order st c n) : r ∈ st.regs := by
  simp only [order, List.mem_flatMap] at h
  obtain ⟨_, _, hr⟩ := h
  exact mem_tierRegs hr

/-- the loop over a concatenated list of names: first the front part, then (when that succeeded) the rest -/
theorem reevalLoop_append (fuel : Nat) (i : Inst) : ∀ (pre post : List Name) (st : State),
    reevalLoop fuel i st (pre ++ post) =
      match reevalLoop fuel i st pre with
      | (s, .none) => reevalLoop fuel i s post
      | x => x := by
  intro pre
  induction pre with
  | nil => intro post st; simp [reevalLoop]
  | cons n ns ih =>
    intro post st
    simp only [List.cons_append, reevalLoop]
    split <;> simp [ih]

/-- a finished loop stopped with `None` or with an error, never with a value -/
theorem reevalLoop_res (fuel : Nat) (i : Inst) : ∀ (names : List Name) (st : State) (v : Val),
    (reevalLoop fuel i st names).2 ≠ .val v := by
  intro names
  induction names with
  | nil => intro st v; simp [reevalLoop]
  | cons n ns ih =>
    intro st v
    simp only [reevalLoop]
    split
    · exact ih _ _
    · exact ih _ _
    all_goals simp

/-- once a VALUE sits under `n` it stays there while the remaining names (not containing `n`) are recomputed -/
theorem reevalLoop_keeps (fuel : Nat) (i : Inst) (n : Name) (v : Val) : ∀ (names : List Name) (st : State),
    n ∉ names → lookup n (st.obj i).cache = some (some v) →
    lookup n ((reevalLoop fuel i st names).1.obj i).cache = some (some v) := by
  intro names
  induction names with
  | nil => intro st _ h; exact h
  | cons m ms ih =>
    intro st hn h
    simp only [List.mem_cons, not_or] at hn
    simp only [reevalLoop]
    have h1 := (ev_pres fuel st (.chain i (order st (st.obj i).cls m))).cacheMono i n v h
    have hput : ∀ (s : State) (x : Option Val), lookup n (s.obj i).cache = some (some v) →
        lookup n ((s.remember i m x).obj i).cache = some (some v) := by
      intro s x hs
      simp only [State.remember, State.setObj, if_true]
      rw [lookup_put_ne hn.1]; exact hs
    split
    · next h' => rw [h'] at h1; exact ih _ hn.2 (hput _ _ h1)
    · next h' => rw [h'] at h1; exact ih _ hn.2 (hput _ _ h1)
    all_goals (next h' => rw [h'] at h1; exact h1)

/-- a remembered name stays a remembered name -/
theorem reevalLoop_mem (fuel : Nat) (i : Inst) (n : Name) (names : List Name) (st : State)
    (h : n ∈ keys (st.obj i).cache) : n ∈ keys ((reevalLoop fuel i st names).1.obj i).cache :=
  ((reevalLoop_pres fuel i names st).keysPrefix i).subset h

theorem remember_lookup_self (s : State) (i : Inst) (n : Name) (x : Option Val) :
    lookup n ((s.remember i n x).obj i).cache = some x := by
  simp only [State.remember, State.setObj, if_true]; exact lookup_put_self _ _ _

theorem mem_keys_of_lookup {α : Type} {n : Name} {l : List (Name × α)} {x : α} (h : lookup n l = some x) :
    n ∈ keys l := (lookup_isSome_iff n l).1 (by rw [h]; rfl)

/-- **re-evaluation recomputes every remembered name from the current registry**: when the loop over
`pre ++ n :: post` finishes, the turn of `n` came in a state `s` reached from `st` by re-evaluating `pre`
(same registry, same explicit values), the chain of `n` was run there, and a value it produced is what is
remembered under `n` at the end (`None` is stored too: `n` stays a remembered name). -/
theorem reevalLoop_recomputes (fuel : Nat) (i : Inst) (pre post : List Name) (n : Name) (st fin : State)
    (hn : n ∉ post) (hfin : reevalLoop fuel i st (pre ++ n :: post) = (fin, .none)) :
    ∃ s s1 r, reevalLoop fuel i st pre = (s, .none) ∧ PresR i st s ∧
      ev fuel s (.chain i (order st (st.obj i).cls n)) = (s1, r) ∧
      ((∃ v, r = .val v ∧ lookup n (fin.obj i).cache = some (some v)) ∨
       (r = .none ∧ n ∈ keys (fin.obj i).cache)) := by
  rw [reevalLoop_append] at hfin
  have hp := reevalLoop_pres fuel i pre st
  generalize hpre : reevalLoop fuel i st pre = x at hfin hp
  obtain ⟨s, r0⟩ := x
  cases r0 with
  | none =>
    simp only at hfin hp
    refine ⟨s, (ev fuel s (.chain i (order st (st.obj i).cls n))).1,
            (ev fuel s (.chain i (order st (st.obj i).cls n))).2, rfl, hp, rfl, ?_⟩
    simp only [reevalLoop] at hfin
    rw [order_congr hp.toSame i n] at hfin
    generalize ev fuel s (.chain i (order st (st.obj i).cls n)) = y at hfin
    obtain ⟨s1, r⟩ := y
    cases r with
    | val v =>
      left
      refine ⟨v, rfl, ?_⟩
      simp only at hfin
      have := reevalLoop_keeps fuel i n v post (s1.remember i n (some v)) hn (remember_lookup_self _ _ _ _)
      rw [hfin] at this; exact this
    | none =>
      right
      refine ⟨rfl, ?_⟩
      simp only at hfin
      have := reevalLoop_mem fuel i n post (s1.remember i n none)
        (mem_keys_of_lookup (remember_lookup_self _ _ _ _))
      rw [hfin] at this; exact this
    | attrErr => simp at hfin
    | typeErr => simp at hfin
    | fuelOut => simp at hfin
  | val v => exact absurd (by rw [hpre]) (reevalLoop_res fuel i pre st v)
  | attrErr => simp at hfin
  | typeErr => simp at hfin
  | fuelOut => simp at hfin

/-! ### closed form for implementations without dependencies -/

/-- a body that reads no other hook -/
def Body.isLeaf : Body → Bool
  | .const _ => true
  | .none => true
  | _ => false

/-- first non-`None` result of a chain of leaf implementations -/
def firstConst : List Reg → Option Val
  | [] => none
  | r :: rs => match r.body with
    | .const v => some v
    | _ => firstConst rs

/-- the implementations such a chain invokes: all up to and including the first that returns a value -/
def invoked : List Reg → List Id
  | [] => []
  | r :: rs => match r.body with
    | .const _ => [r.id]
    | _ => r.id :: invoked rs

theorem chain_leaf (i : Inst) : ∀ (rs : List Reg) (f : Nat) (st : State), (∀ r ∈ rs, r.body.isLeaf = true) →
    rs.length < f →
    ev f st (.chain i rs) = ({ st with trace := st.trace ++ invoked rs }, Res.ofOpt (firstConst rs)) := by
  intro rs
  induction rs with
  | nil =>
    intro f st _ hf
    obtain ⟨f, rfl⟩ : ∃ g, f = g + 1 := ⟨f - 1, by omega⟩
    simp [ev, invoked, firstConst, Res.ofOpt]
  | cons r rs ih =>
    intro f st hl hf
    obtain ⟨f, rfl⟩ : ∃ g, f = g + 2 := ⟨f - 2, by simp at hf; omega⟩
    have hr := hl r (by simp)
    have ih' := ih (f + 1) (st.log r.id) (fun r' h' => hl r' (by simp [h'])) (by simp at hf ⊢; omega)
    rw [ev]
    cases hb : r.body with
    | const v =>
      simp only [Body.under, ev]
      rw [leave_enter_log]
      simp [invoked, firstConst, hb, Res.ofOpt, State.log]
    | none =>
      simp only [Body.under, ev]
      rw [leave_enter_log, ih']
      simp [invoked, firstConst, hb, State.log]
    | read m k c => simp [hb, Body.isLeaf] at hr
    | tryRead m k c => simp [hb, Body.isLeaf] at hr
    | cread m k c => simp [hb, Body.isLeaf] at hr
    | ctry m k c => simp [hb, Body.isLeaf] at hr

theorem lookup_remember_ne (s : State) (i : Inst) {m n : Name} (h : m ≠ n) (x : Option Val) :
    lookup m ((s.remember i n x).obj i).cache = lookup m (s.obj i).cache := by
  simp only [State.remember, State.setObj, if_true]; exact lookup_put_ne h _ _

/-- with leaf implementations a re-evaluation over remembered names succeeds, keeps the set of remembered names
and leaves under every listed name exactly the first non-`None` result of the CURRENT registry -/
theorem reevalLoop_leaf (fuel : Nat) (i : Inst) : ∀ (names : List Name) (st : State),
    (∀ r ∈ st.regs, r.body.isLeaf = true) → (∀ n, (order st (st.obj i).cls n).length < fuel) →
    (∀ n ∈ names, n ∈ keys (st.obj i).cache) →
    ∃ fin, reevalLoop fuel i st names = (fin, .none) ∧
      keys (fin.obj i).cache = keys (st.obj i).cache ∧
      (∀ n ∈ names, lookup n (fin.obj i).cache = some (firstConst (order st (st.obj i).cls n))) ∧
      (∀ n, n ∉ names → lookup n (fin.obj i).cache = lookup n (st.obj i).cache) := by
  intro names
  induction names with
  | nil => intro st _ _ _; exact ⟨st, rfl, rfl, by simp, fun _ _ => rfl⟩
  | cons n ns ih =>
    intro st hleaf hfuel hsub
    have hord : ∀ r ∈ order st (st.obj i).cls n, r.body.isLeaf = true := by
      intro r hr
      exact hleaf r (mem_order_regs hr)
    have hch := chain_leaf i (order st (st.obj i).cls n) fuel st hord (hfuel n)
    -- the state in which the rest of the loop runs
    generalize hfc : firstConst (order st (st.obj i).cls n) = x at hch
    generalize hs0 : ({ st with trace := st.trace ++ invoked (order st (st.obj i).cls n) } : State) = s0 at hch
    have hs0obj : s0.obj = st.obj := by rw [← hs0]
    have hs0mro : s0.mro = st.mro := by rw [← hs0]
    have hs0regs : s0.regs = st.regs := by rw [← hs0]
    generalize hs' : s0.remember i n x = s'
    have hstep : reevalLoop fuel i st (n :: ns) = reevalLoop fuel i s' ns := by
      simp only [reevalLoop, hch]
      cases x <;> simp [Res.ofOpt, hs']
    have hn : n ∈ keys (st.obj i).cache := hsub n (by simp)
    have hkeys : keys (s'.obj i).cache = keys (st.obj i).cache := by
      rw [← hs']
      simp only [State.remember, State.setObj, if_true, hs0obj]
      exact keys_put_mem _ hn
    have hcls : (s'.obj i).cls = (st.obj i).cls := by
      rw [← hs']; simp [State.remember, State.setObj, hs0obj]
    have hordeq : ∀ m, order s' (s'.obj i).cls m = order st (st.obj i).cls m := by
      intro m
      have hmro : s'.mro = st.mro := by rw [← hs']; simp only [State.remember, State.setObj, hs0mro]
      have hregs : s'.regs = st.regs := by rw [← hs']; simp only [State.remember, State.setObj, hs0regs]
      unfold order; congr 1; funext t
      simp only [tierRegs, hcls, hmro, hregs]
    have hleaf' : ∀ r ∈ s'.regs, r.body.isLeaf = true := by
      rw [← hs']; simpa only [State.remember, State.setObj, hs0regs] using hleaf
    obtain ⟨fin, h1, h2, h3, h4⟩ := ih s' hleaf' (by intro m; rw [hordeq]; exact hfuel m)
      (by intro m hm; rw [hkeys]; exact hsub m (by simp [hm]))
    refine ⟨fin, hstep.trans h1, h2.trans hkeys, ?_, ?_⟩
    · intro m hm
      by_cases hmn : m ∈ ns
      · rw [h3 m hmn, hordeq]
      · have : m = n := by simpa [hmn] using hm
        subst this
        rw [h4 m hmn, ← hs', remember_lookup_self, hfc]
    · intro m hm
      simp only [List.mem_cons, not_or] at hm
      rw [h4 m hm.2, ← hs', lookup_remember_ne _ _ hm.1, hs0obj]

/-! ### `evaluate_and_set_hooks` -/

theorem assign_other (s : State) (i j : Inst) (n : Name) (v : PyVal) (h : j ≠ i) :
    (s.assign i n v).obj j = s.obj j := by
  simp [State.assign, State.setObj, h]

theorem assign_cache (s : State) (i j : Inst) (n : Name) (v : PyVal) :
    ((s.assign i n v).obj j).cache = (s.obj j).cache := by
  by_cases hj : j = i
  · subst hj; simp [State.assign, State.setObj]
  · simp [State.assign, State.setObj, hj]

theorem assign_lookup_self (s : State) (i : Inst) (n : Name) (v : PyVal) :
    lookup n ((s.assign i n v).obj i).dict = some v := by
  simp only [State.assign, State.setObj, if_true]; exact lookup_put_self _ _ _

theorem assign_lookup_ne (s : State) (i : Inst) {m n : Name} (h : m ≠ n) (v : PyVal) :
    lookup m ((s.assign i n v).obj i).dict = lookup m (s.obj i).dict := by
  simp only [State.assign, State.setObj, if_true]; exact lookup_put_ne h _ _

theorem Same.assign {st s : State} (h : Same st s) (i : Inst) (n : Name) (v : PyVal) : Same st (s.assign i n v) where
  n := h.n
  mro := h.mro
  regs := h.regs
  roots := h.roots
  cls j := by
    by_cases hj : j = i
    · subst hj; simp [State.assign, State.setObj, h.cls]
    · simp [State.assign, State.setObj, hj, h.cls]
  fb j := by
    by_cases hj : j = i
    · subst hj; simp [State.assign, State.setObj, h.fb]
    · simp [State.assign, State.setObj, hj, h.fb]
  keysPrefix j := by rw [assign_cache]; exact h.keysPrefix j
  nodup hnd j := by rw [assign_cache]; exact h.nodup hnd j
  trace := h.trace

/-- what a root-hook evaluation on instance `i` may change: explicit values of `i` only, cache entries are only
added or filled (on `i` and on the fall-back object), remembered values stay -/
structure PresE (i : Inst) (st st' : State) : Prop extends Same st st' where
  dictOther : ∀ j, j ≠ i → (st'.obj j).dict = (st.obj j).dict
  cacheMono : ∀ j m v, lookup m (st.obj j).cache = some (some v) → lookup m (st'.obj j).cache = some (some v)

theorem PresE.refl (i : Inst) (st : State) : PresE i st st := ⟨Same.refl st, fun _ _ => rfl, fun _ _ _ h => h⟩

theorem PresE.trans {i : Inst} {a b c : State} (h1 : PresE i a b) (h2 : PresE i b c) : PresE i a c :=
  ⟨h1.toSame.trans h2.toSame, fun j hj => (h2.dictOther j hj).trans (h1.dictOther j hj),
   fun j m v h => h2.cacheMono j m v (h1.cacheMono j m v h)⟩

theorem PresE.ofPres {i : Inst} {a b : State} (h : Pres a b) : PresE i a b :=
  ⟨h.toSame, fun j _ => h.dict j, h.cacheMono⟩

theorem PresE.assign {i : Inst} {st s : State} (h : PresE i st s) (n : Name) (v : PyVal) :
    PresE i st (s.assign i n v) :=
  ⟨h.toSame.assign i n v, fun j hj => by rw [assign_other s i j n v hj]; exact h.dictOther j hj,
   fun j m w hm => by rw [assign_cache]; exact h.cacheMono j m w hm⟩

theorem fallback_pres (fuel : Nat) (st : State) (i : Inst) (n : Name) : Pres st (fallback fuel st i n).1 := by
  simp only [fallback]
  split
  · exact Pres.refl st
  · next j _ =>
    have h := ev_pres fuel st (.get j n)
    split
    · next h' => rw [h'] at h; exact h
    · exact h

theorem rootLoop_pres (fuel : Nat) (i : Inst) : ∀ (roots : List (Cls × Name)) (st : State) (acc : List Val),
    PresE i st (rootLoop fuel i st roots acc).1 := by
  intro roots
  induction roots with
  | nil => intro st acc; exact PresE.refl i st
  | cons e rs ih =>
    intro st acc
    obtain ⟨c, n⟩ := e
    simp only [rootLoop]
    split
    · have h1 : PresE i st (ev fuel st (.chain i (order st (st.obj i).cls n))).1 := PresE.ofPres (ev_pres _ _ _)
      split
      · next h => rw [h] at h1; exact (h1.assign n _).trans (ih _ _)
      · next st1 h =>
        rw [h] at h1
        have h2 : PresE i st (fallback fuel st1 i n).1 := h1.trans (PresE.ofPres (fallback_pres _ _ _ _))
        split
        · next h' => rw [h'] at h2; exact (h2.assign n _).trans (ih _ _)
        all_goals (next h' => rw [h'] at h2; exact h2)
      all_goals (next h => rw [h] at h1; exact h1)
    · exact ih _ _

/-- the dict of `i` seen through `lookup`: names that are not root names are left alone -/
theorem rootLoop_dict_outside (fuel : Nat) (i : Inst) (m : Name) : ∀ (roots : List (Cls × Name)) (st : State)
    (acc : List Val), (∀ e ∈ roots, e.2 ≠ m) →
    lookup m ((rootLoop fuel i st roots acc).1.obj i).dict = lookup m (st.obj i).dict := by
  intro roots
  induction roots with
  | nil => intro st acc _; rfl
  | cons e rs ih =>
    intro st acc hm
    obtain ⟨c, n⟩ := e
    have hn : m ≠ n := fun h => hm (c, n) (by simp) h.symm
    have hrs : ∀ e ∈ rs, e.2 ≠ m := fun e he => hm e (by simp [he])
    simp only [rootLoop]
    split
    · have h1 := (ev_pres fuel st (.chain i (order st (st.obj i).cls n))).dict i
      split
      · next h => rw [h] at h1; rw [ih _ _ hrs, assign_lookup_ne _ _ hn, h1]
      · next st1 h =>
        rw [h] at h1
        have h2 := (fallback_pres fuel st1 i n).dict i
        split
        · next h' => rw [h'] at h2; rw [ih _ _ hrs, assign_lookup_ne _ _ hn, h2, h1]
        all_goals (next h' => rw [h'] at h2; simp only; rw [h2, h1])
      all_goals (next h => rw [h] at h1; simp only; rw [h1])
    · exact ih _ _ hrs

/-- a plain explicit value is only ever replaced by another plain explicit value -/
theorem rootLoop_plain_stays (fuel : Nat) (i : Inst) (m : Name) : ∀ (roots : List (Cls × Name)) (st : State)
    (acc : List Val), (∃ v, lookup m (st.obj i).dict = some (.plain v)) →
    ∃ v, lookup m ((rootLoop fuel i st roots acc).1.obj i).dict = some (.plain v) := by
  intro roots
  induction roots with
  | nil => intro st acc h; exact h
  | cons e rs ih =>
    intro st acc hm
    obtain ⟨c, n⟩ := e
    have hput : ∀ (s : State) (w : Val), (s.obj i).dict = (st.obj i).dict →
        ∃ v, lookup m ((s.assign i n (.plain w)).obj i).dict = some (.plain v) := by
      intro s w hs
      by_cases hmn : m = n
      · subst hmn; exact ⟨w, assign_lookup_self _ _ _ _⟩
      · rw [assign_lookup_ne _ _ hmn, hs]; exact hm
    simp only [rootLoop]
    split
    · have h1 := (ev_pres fuel st (.chain i (order st (st.obj i).cls n))).dict i
      split
      · next h => rw [h] at h1; exact ih _ _ (hput _ _ h1)
      · next st1 h =>
        rw [h] at h1
        have h2 := (fallback_pres fuel st1 i n).dict i
        split
        · next h' => rw [h'] at h2; exact ih _ _ (hput _ _ (h2.trans h1))
        all_goals (next h' => rw [h'] at h2; simp only; rw [h2, h1]; exact hm)
      all_goals (next h => rw [h] at h1; simp only; rw [h1]; exact hm)
    · exact ih _ _ hm

/-- the returned list only grows -/
theorem rootLoop_acc (fuel : Nat) (i : Inst) : ∀ (roots : List (Cls × Name)) (st : State) (acc : List Val),
    ∀ v ∈ acc, v ∈ (rootLoop fuel i st roots acc).2.2 := by
  intro roots
  induction roots with
  | nil => intro st acc v h; exact h
  | cons e rs ih =>
    intro st acc v hv
    obtain ⟨c, n⟩ := e
    simp only [rootLoop]
    split
    · split
      · exact ih _ _ v (by simp [hv])
      · split
        · exact ih _ _ v (by simp [hv])
        all_goals exact hv
      all_goals exact hv
    · exact ih _ _ v hv

/-- one successful iteration of the root loop: the head is skipped (its owner is not a class of the instance), or its
chain (else the fall-back) produced a value `w`, which is ASSIGNED as a plain explicit value and appended to the output -/
theorem rootLoop_cons_none {fuel : Nat} {i : Inst} {c0 : Cls} {n0 : Name} {rs : List (Cls × Name)} {st fin : State}
    {acc out : List Val} (h : rootLoop fuel i st ((c0, n0) :: rs) acc = (fin, .none, out)) :
    ((st.mro (st.obj i).cls).contains c0 = false ∧ rootLoop fuel i st rs acc = (fin, .none, out)) ∨
    ((st.mro (st.obj i).cls).contains c0 = true ∧ ∃ s w, Pres st s ∧
      (ev fuel st (.chain i (order st (st.obj i).cls n0)) = (s, .val w) ∨
       ∃ st1, ev fuel st (.chain i (order st (st.obj i).cls n0)) = (st1, .none) ∧ fallback fuel st1 i n0 = (s, .val w)) ∧
      rootLoop fuel i (s.assign i n0 (.plain w)) rs (acc ++ [w]) = (fin, .none, out)) := by
  simp only [rootLoop] at h
  split at h
  · next hc =>
    right
    refine ⟨hc, ?_⟩
    have h1 := ev_pres fuel st (.chain i (order st (st.obj i).cls n0))
    split at h
    · next st1 v hch => rw [hch] at h1; exact ⟨st1, v, h1, Or.inl hch, h⟩
    · next st1 hch =>
      rw [hch] at h1
      have h2 := fallback_pres fuel st1 i n0
      split at h
      · next st2 v hfb => rw [hfb] at h2; exact ⟨st2, v, h1.trans h2, Or.inr ⟨st1, hch, hfb⟩, h⟩
      all_goals simp at h
    all_goals simp at h
  · next hc => left; exact ⟨by simpa using hc, h⟩

/-- a name holding a plain explicit value that is among the collected outputs keeps that property -/
theorem rootLoop_tracked (fuel : Nat) (i : Inst) (m : Name) : ∀ (roots : List (Cls × Name)) (st fin : State)
    (acc out : List Val), rootLoop fuel i st roots acc = (fin, .none, out) →
    (∃ v, lookup m (st.obj i).dict = some (.plain v) ∧ v ∈ acc) →
    ∃ v, lookup m (fin.obj i).dict = some (.plain v) ∧ v ∈ out := by
  intro roots
  induction roots with
  | nil =>
    intro st fin acc out h hm
    simp only [rootLoop, Prod.mk.injEq] at h
    obtain ⟨h1, _, h3⟩ := h
    subst h1; subst h3; exact hm
  | cons e rs ih =>
    intro st fin acc out h hm
    obtain ⟨c0, n0⟩ := e
    rcases rootLoop_cons_none h with ⟨_, h'⟩ | ⟨_, s, w, hp, _, h'⟩
    · exact ih _ _ _ _ h' hm
    · refine ih _ _ _ _ h' ?_
      by_cases hmn : m = n0
      · subst hmn; exact ⟨w, assign_lookup_self _ _ _ _, by simp⟩
      · obtain ⟨v, hv, hva⟩ := hm
        exact ⟨v, by rw [assign_lookup_ne _ _ hmn, hp.dict i]; exact hv, by simp [hva]⟩

/-- **root hooks become explicit values**: after a successful evaluation every root hook owned by a class of the
instance's MRO is a plain explicit value of the instance, and that value is among the returned ones -/
theorem rootLoop_explicit (fuel : Nat) (i : Inst) : ∀ (roots : List (Cls × Name)) (st fin : State) (acc out : List Val),
    rootLoop fuel i st roots acc = (fin, .none, out) →
    ∀ c n, (c, n) ∈ roots → (st.mro (st.obj i).cls).contains c = true →
      ∃ v, lookup n (fin.obj i).dict = some (.plain v) ∧ v ∈ out := by
  intro roots
  induction roots with
  | nil => intro st fin acc out _ c n h; simp at h
  | cons e rs ih =>
    intro st fin acc out hfin c n hmem hc
    obtain ⟨c0, n0⟩ := e
    rcases rootLoop_cons_none hfin with ⟨hskip, h'⟩ | ⟨_, s, w, hp, _, h'⟩
    · rcases List.mem_cons.1 hmem with heq | hin
      · injection heq with h1 h2; subst h1; rw [hskip] at hc; simp at hc
      · exact ih _ _ _ _ h' c n hin hc
    · have hs' : Same st (s.assign i n0 (.plain w)) := hp.toSame.assign i n0 _
      rcases List.mem_cons.1 hmem with heq | hin
      · injection heq with h1 h2; subst h1; subst h2
        exact rootLoop_tracked fuel i n rs _ _ _ _ h' ⟨w, assign_lookup_self _ _ _ _, by simp⟩
      · exact ih _ _ _ _ h' c n hin (by rw [hs'.mro, hs'.cls]; exact hc)

/-- ... and the value is the one the chain of the current registry produced (the fall-back when the chain has none),
provided the name is not evaluated a second time further down the list -/
theorem rootLoop_head_value {fuel : Nat} {i : Inst} {c0 : Cls} {n0 : Name} {rs : List (Cls × Name)} {st fin : State}
    {acc out : List Val} (h : rootLoop fuel i st ((c0, n0) :: rs) acc = (fin, .none, out))
    (hc : (st.mro (st.obj i).cls).contains c0 = true) (hrs : ∀ e ∈ rs, e.2 ≠ n0) :
    ∃ s w, (ev fuel st (.chain i (order st (st.obj i).cls n0)) = (s, .val w) ∨
       ∃ st1, ev fuel st (.chain i (order st (st.obj i).cls n0)) = (st1, .none) ∧ fallback fuel st1 i n0 = (s, .val w)) ∧
      lookup n0 (fin.obj i).dict = some (.plain w) := by
  rcases rootLoop_cons_none h with ⟨hskip, _⟩ | ⟨_, s, w, _, hv, h'⟩
  · rw [hskip] at hc; simp at hc
  · refine ⟨s, w, hv, ?_⟩
    have := rootLoop_dict_outside fuel i n0 rs (s.assign i n0 (.plain w)) (acc ++ [w]) hrs
    rw [h', assign_lookup_self] at this
    exact this

/-! ### single operations and histories -/

/-- may the operation write the explicit value `(i, n)`?  (`evaluate_and_set_hooks` on `i` may write any name) -/
def Op.setsExplicit (i : Inst) (n : Name) : Op → Bool
  | .assign i' n' _ => i' == i && n' == n
  | .delete i' n' => i' == i && n' == n
  | .evalRoot i' => i' == i
  | _ => false

/-- does the operation assign or delete the explicit value `(i, n)` by hand? -/
def Op.userSets (i : Inst) (n : Name) : Op → Bool
  | .assign i' n' _ => i' == i && n' == n
  | .delete i' n' => i' == i && n' == n
  | _ => false

/-- does the operation request re-evaluation / clearing of the cache of `i`? -/
def Op.resetsCache (i : Inst) : Op → Bool
  | .reevaluate i' => i' == i
  | .clearCache i' => i' == i
  | _ => false

/-- the instance an operation is applied to -/
def Op.target : Op → Option Inst
  | .read i _ | .assign i _ _ | .delete i _ | .reevaluate i | .clearCache i | .hasSet i _ | .hasCached i _
  | .hasSetOrCached i _ | .hasValue i _ | .evalRoot i | .setFallback i _ => some i
  | _ => none

theorem setObj_other (s : State) (i j : Inst) (o : Obj) (h : j ≠ i) : (s.setObj i o).obj j = s.obj j := by
  simp [State.setObj, h]

theorem setObj_self (s : State) (i : Inst) (o : Obj) : (s.setObj i o).obj i = o := by
  simp [State.setObj]

theorem step_n_mono (fuel : Nat) (st : State) (op : Op) : st.n ≤ (step fuel st op).1.n := by
  cases op with
  | read i n => simp only [step, reeval_gen]; rw [(ev_pres _ _ _).n]; exact Nat.le_refl _
  | reevaluate i => simp only [step, reeval_gen]; rw [(reevalLoop_pres _ _ _ _).n]; exact Nat.le_refl _
  | evalRoot i => simp only [step, reeval_gen]; rw [(rootLoop_pres _ _ _ _ _).n]; exact Nat.le_refl _
  | hasValue i n =>
    simp only [step, reeval_gen]
    have h := (ev_pres fuel { st with trace := [] } (.get i n)).n
    split <;> (next h' => rw [h'] at h; simp only; rw [h]; exact Nat.le_refl _)
  | newInst c => simp [step, State.setObj]
  | handOver i c => simp [step, State.setObj]
  | rootInsertBefore p e => simp only [step]; split <;> exact Nat.le_refl _
  | rootInsertAfter p e => simp only [step]; split <;> exact Nat.le_refl _
  | rootRemoveLast e => simp only [step]; split <;> exact Nat.le_refl _
  | _ => simp [step, State.setObj, State.assign]

/-- the explicit value `(i, n)` of an existing instance changes only through an operation that may set it -/
theorem step_dict_stable (fuel : Nat) (st : State) (op : Op) (i : Inst) (n : Name) (hi : i < st.n)
    (h : op.setsExplicit i n = false) :
    lookup n ((step fuel st op).1.obj i).dict = lookup n (st.obj i).dict := by
  cases op with
  | defClass c mro => simp [step]
  | newInst c =>
    simp only [step, reeval_gen]; rw [setObj_other _ _ _ _ (Nat.ne_of_lt hi)]
  | read j m => simp only [step, reeval_gen]; rw [(ev_pres _ _ _).dict]
  | assign j m v =>
    simp only [step, reeval_gen]
    by_cases hj : i = j
    · subst hj
      have hm : n ≠ m := by
        intro hm; subst hm; simp [Op.setsExplicit] at h
      exact assign_lookup_ne _ _ hm _
    · rw [assign_other _ _ _ _ _ hj]
  | delete j m =>
    simp only [step, reeval_gen]
    by_cases hj : i = j
    · subst hj
      have hm : n ≠ m := by
        intro hm; subst hm; simp [Op.setsExplicit] at h
      rw [setObj_self]; exact lookup_del_ne hm _
    · rw [setObj_other _ _ _ _ hj]
  | reevaluate j => simp only [step, reeval_gen]; rw [(reevalLoop_pres _ _ _ _).dict]
  | clearCache j =>
    simp only [step, reeval_gen]
    by_cases hj : i = j
    · subst hj; rw [setObj_self]
    · rw [setObj_other _ _ _ _ hj]
  | addImpl id c m b => simp [step]
  | removeImpl id => simp [step]
  | hasSet j m => simp [step]
  | hasCached j m => simp [step]
  | hasSetOrCached j m => simp [step]
  | hasValue j m =>
    simp only [step, reeval_gen]
    have h1 := (ev_pres fuel { st with trace := [] } (.get j m)).dict i
    split <;> (next h' => rw [h'] at h1; simp only; rw [h1])
  | setRoots l => simp [step]
  | evalRoot j =>
    simp only [step, reeval_gen]
    have hj : i ≠ j := by
      intro hj; subst hj; simp [Op.setsExplicit] at h
    rw [(rootLoop_pres _ _ _ _ _).dictOther i hj]
  | setFallback j k =>
    simp only [step, reeval_gen]
    by_cases hj : i = j
    · subst hj; rw [setObj_self]
    · rw [setObj_other _ _ _ _ hj]
  | handOver j c =>
    simp only [step, reeval_gen]; rw [setObj_other _ _ _ _ (Nat.ne_of_lt hi)]
  | addReg key fn c m b first last => simp [step]
  | rootAdd e => simp [step]
  | rootInsertBefore p e => simp only [step]; split <;> rfl
  | rootInsertAfter p e => simp only [step]; split <;> rfl
  | rootRemoveLast e => simp only [step]; split <;> rfl

/-- a plain explicit value of an existing instance that nobody assigns or deletes by hand stays a plain explicit value
(root evaluation may replace it by the new plain value) -/
theorem step_plain_stays (fuel : Nat) (st : State) (op : Op) (i : Inst) (n : Name) (hi : i < st.n)
    (h : op.userSets i n = false) (hp : ∃ v, lookup n (st.obj i).dict = some (.plain v)) :
    ∃ v, lookup n ((step fuel st op).1.obj i).dict = some (.plain v) := by
  by_cases hr : op.setsExplicit i n = false
  · rw [step_dict_stable fuel st op i n hi hr]; exact hp
  · cases op with
    | evalRoot j =>
      have hj : j = i := by simpa [Op.setsExplicit] using hr
      subst hj
      simp only [step, reeval_gen]
      exact rootLoop_plain_stays fuel j n _ _ _ hp
    | assign j m v => simp [Op.setsExplicit, Op.userSets] at hr h; exact absurd (hr.2) (h hr.1)
    | delete j m => simp [Op.setsExplicit, Op.userSets] at hr h; exact absurd (hr.2) (h hr.1)
    | _ => simp [Op.setsExplicit] at hr

/-- a remembered value of an existing instance survives every operation except a re-evaluation / clearing of the
cache of that instance -/
theorem step_cache_stable (fuel : Nat) (st : State) (op : Op) (i : Inst) (n : Name) (v : Val) (hi : i < st.n)
    (h : op.resetsCache i = false) (hc : lookup n (st.obj i).cache = some (some v)) :
    lookup n ((step fuel st op).1.obj i).cache = some (some v) := by
  cases op with
  | defClass c mro => simpa [step] using hc
  | newInst c => simp only [step, reeval_gen]; rw [setObj_other _ _ _ _ (Nat.ne_of_lt hi)]; exact hc
  | read j m => simp only [step, reeval_gen]; exact (ev_pres _ _ _).cacheMono i n v hc
  | assign j m w => simp only [step, reeval_gen]; rw [assign_cache]; exact hc
  | delete j m =>
    simp only [step, reeval_gen]
    by_cases hj : i = j
    · subst hj; rw [setObj_self]; exact hc
    · rw [setObj_other _ _ _ _ hj]; exact hc
  | reevaluate j =>
    simp only [step, reeval_gen]
    have hj : i ≠ j := by
      intro hj; subst hj; simp [Op.resetsCache] at h
    rw [(reevalLoop_pres _ _ _ _).other i hj]; exact hc
  | clearCache j =>
    simp only [step, reeval_gen]
    have hj : i ≠ j := by
      intro hj; subst hj; simp [Op.resetsCache] at h
    rw [setObj_other _ _ _ _ hj]; exact hc
  | addImpl id c m b => simpa [step] using hc
  | removeImpl id => simpa [step] using hc
  | hasSet j m => simpa [step] using hc
  | hasCached j m => simpa [step] using hc
  | hasSetOrCached j m => simpa [step] using hc
  | hasValue j m =>
    simp only [step, reeval_gen]
    have h1 := (ev_pres fuel { st with trace := [] } (.get j m)).cacheMono i n v hc
    split <;> (next h' => rw [h'] at h1; exact h1)
  | setRoots l => simpa [step] using hc
  | evalRoot j => simp only [step, reeval_gen]; exact (rootLoop_pres _ _ _ _ _).cacheMono i n v hc
  | setFallback j k =>
    simp only [step, reeval_gen]
    by_cases hj : i = j
    · subst hj; rw [setObj_self]; exact hc
    · rw [setObj_other _ _ _ _ hj]; exact hc
  | handOver j c => simp only [step, reeval_gen]; rw [setObj_other _ _ _ _ (Nat.ne_of_lt hi)]; exact hc
  | addReg key fn c m b first last => simpa [step] using hc
  | rootAdd e => simpa [step] using hc
  | rootInsertBefore p e => simp only [step]; split <;> exact hc
  | rootInsertAfter p e => simp only [step]; split <;> exact hc
  | rootRemoveLast e => simp only [step]; split <;> exact hc

/-! ### independence of instances -/

theorem fallback_frame (fuel : Nat) (st : State) (i k : Inst) (n : Name) (hk : (st.obj i).fb ≠ some k) :
    (fallback fuel st i n).1.obj k = st.obj k := by
  simp only [fallback]
  split
  · rfl
  · next j hj =>
    have hkj : k ≠ j := by intro e; subst e; exact hk hj
    have h := ev_frame fuel st (.get j n) k hkj
    split
    · next h' => rw [h'] at h; exact h
    · exact h

theorem rootLoop_frame (fuel : Nat) (i k : Inst) (hki : k ≠ i) : ∀ (roots : List (Cls × Name)) (st : State)
    (acc : List Val), (st.obj i).fb ≠ some k → (rootLoop fuel i st roots acc).1.obj k = st.obj k := by
  intro roots
  induction roots with
  | nil => intro st acc _; rfl
  | cons e rs ih =>
    intro st acc hfb
    obtain ⟨c, n⟩ := e
    simp only [rootLoop]
    split
    · have h1 := ev_frame fuel st (.chain i (order st (st.obj i).cls n)) k hki
      have p1 := ev_pres fuel st (.chain i (order st (st.obj i).cls n))
      split
      · next s v h =>
        rw [h] at h1 p1
        have hs : Same st (s.assign i n (.plain v)) := p1.toSame.assign i n _
        rw [ih _ _ (by rw [hs.fb]; exact hfb), assign_other _ _ _ _ _ hki, h1]
      · next st1 h =>
        rw [h] at h1 p1
        have hfb1 : (st1.obj i).fb ≠ some k := by rw [p1.fb]; exact hfb
        have h2 := fallback_frame fuel st1 i k n hfb1
        have p2 := fallback_pres fuel st1 i n
        split
        · next s v h' =>
          rw [h'] at h2 p2
          have hs : Same st (s.assign i n (.plain v)) := (p1.trans p2).toSame.assign i n _
          rw [ih _ _ (by rw [hs.fb]; exact hfb), assign_other _ _ _ _ _ hki, h2, h1]
        all_goals (next h' => rw [h'] at h2; simp only; rw [h2, h1])
      all_goals (next h => rw [h] at h1; simp only; rw [h1])
    · exact ih _ _ hfb

/-- **instances are independent**: an operation applied to another instance (and not a root evaluation falling back
on `i`) leaves the whole object `i` — explicit and remembered values — untouched; so do registrations -/
theorem step_frame (fuel : Nat) (st : State) (op : Op) (i : Inst) (hi : i < st.n) (ht : op.target ≠ some i)
    (hfb : ∀ j, op = .evalRoot j → (st.obj j).fb ≠ some i) : (step fuel st op).1.obj i = st.obj i := by
  have ne : ∀ j, op.target = some j → i ≠ j := fun j hj e => ht (by rw [hj, e])
  cases op with
  | defClass c mro => simp [step]
  | newInst c => simp only [step, reeval_gen]; rw [setObj_other _ _ _ _ (Nat.ne_of_lt hi)]
  | read j m => simp only [step, reeval_gen]; exact ev_frame _ _ (.get j m) i (ne j rfl)
  | assign j m w => simp only [step, reeval_gen]; exact assign_other _ _ _ _ _ (ne j rfl)
  | delete j m => simp only [step, reeval_gen]; exact setObj_other _ _ _ _ (ne j rfl)
  | reevaluate j => simp only [step, reeval_gen]; exact (reevalLoop_pres _ _ _ _).other i (ne j rfl)
  | clearCache j => simp only [step, reeval_gen]; exact setObj_other _ _ _ _ (ne j rfl)
  | addImpl id c m b => simp [step]
  | removeImpl id => simp [step]
  | hasSet j m => simp [step]
  | hasCached j m => simp [step]
  | hasSetOrCached j m => simp [step]
  | hasValue j m =>
    simp only [step, reeval_gen]
    have h1 := ev_frame fuel { st with trace := [] } (.get j m) i (ne j rfl)
    split <;> (next h' => rw [h'] at h1; exact h1)
  | setRoots l => simp [step]
  | evalRoot j => simp only [step, reeval_gen]; exact rootLoop_frame fuel j i (ne j rfl) _ _ _ (hfb j rfl)
  | setFallback j k => simp only [step, reeval_gen]; exact setObj_other _ _ _ _ (ne j rfl)
  | handOver j c => simp only [step, reeval_gen]; rw [setObj_other _ _ _ _ (Nat.ne_of_lt hi)]
  | addReg key fn c m b first last => simp [step]
  | rootAdd e => simp [step]
  | rootInsertBefore p e => simp only [step]; split <;> rfl
  | rootInsertAfter p e => simp only [step]; split <;> rfl
  | rootRemoveLast e => simp only [step]; split <;> rfl

/-! ### reading the loops off a `step` -/

theorem evalRoot_loop {fuel : Nat} {st fin : State} {i : Inst} {out : List Val}
    (h : step fuel st (.evalRoot i) = (fin, .vals .none out)) :
    rootLoop fuel i { st with trace := [] } st.roots [] = (fin, .none, out) := by
  simp only [step, reeval_gen] at h
  generalize rootLoop fuel i { st with trace := [] } st.roots [] = x at h
  obtain ⟨a, b, c⟩ := x
  simp only [Prod.mk.injEq, Out.vals.injEq] at h
  rw [h.1, h.2.1, h.2.2]

theorem reevaluate_loop {fuel : Nat} {st fin : State} {i : Inst} {r : Res}
    (h : step fuel st (.reevaluate i) = (fin, .res r)) :
    reevalLoop fuel i { st with trace := [] } (keys (st.obj i).cache) = (fin, r) := by
  simp only [step, reeval_gen] at h
  generalize reevalLoop fuel i { st with trace := [] } (keys (st.obj i).cache) = x at h
  obtain ⟨a, b⟩ := x
  simp only [Prod.mk.injEq, Out.res.injEq] at h
  rw [h.1, h.2]

/-- the cache/compute part of `Hook.__get__` when no VALUE is remembered under `n` -/
theorem unset_eq (f : Nat) (st : State) (i : Inst) (n : Name)
    (hc : ∀ w, lookup n (st.obj i).cache ≠ some (some w)) :
    ev (f + 1) st (.unset i n) = finishGet i n (ev f st (.chain i (order st (st.obj i).cls n))) := by
  rw [ev]
  split
  · next v h => exact absurd h (hc v)
  · rfl
  · rfl

theorem run_cons (fuel : Nat) (st : State) (op : Op) (ops : List Op) :
    run fuel st (op :: ops) = run fuel (step fuel st op).1 ops := rfl

theorem run_append (fuel : Nat) (st : State) (ops ops' : List Op) :
    run fuel st (ops ++ ops') = run fuel (run fuel st ops) ops' := by
  simp [run, List.foldl_append]

theorem run_n_mono (fuel : Nat) (ops : List Op) : ∀ st, st.n ≤ (run fuel st ops).n := by
  induction ops with
  | nil => intro st; exact Nat.le_refl _
  | cons op ops ih => intro st; rw [run_cons]; exact Nat.le_trans (step_n_mono fuel st op) (ih _)

/-- no operation ever produces a cache with a duplicated name -/
theorem step_nodup (fuel : Nat) (st : State) (op : Op) (h : ∀ j, (keys (st.obj j).cache).Nodup) :
    ∀ j, (keys ((step fuel st op).1.obj j).cache).Nodup := by
  have h0 : ∀ j, (keys (({ st with trace := [] } : State).obj j).cache).Nodup := h
  have hset : ∀ (s : State) (i : Inst) (o : Obj), (∀ j, (keys (s.obj j).cache).Nodup) → (keys o.cache).Nodup →
      ∀ j, (keys ((s.setObj i o).obj j).cache).Nodup := by
    intro s i o hs ho j
    by_cases hj : j = i
    · subst hj; rw [setObj_self]; exact ho
    · rw [setObj_other _ _ _ _ hj]; exact hs j
  cases op with
  | defClass c mro => simpa [step] using h
  | newInst c => simp only [step, reeval_gen]; exact hset _ _ _ h0 (by simp [blank, keys])
  | read i n => simp only [step, reeval_gen]; exact (ev_pres _ _ _).nodup h0
  | assign i n v => intro j; simp only [step, reeval_gen]; rw [assign_cache]; exact h j
  | delete i n => simp only [step, reeval_gen]; exact hset _ _ _ h0 (h i)
  | reevaluate i => simp only [step, reeval_gen]; exact (reevalLoop_pres _ _ _ _).nodup h0
  | clearCache i => simp only [step, reeval_gen]; exact hset _ _ _ h0 (by simp [keys])
  | addImpl id c n b => simpa [step] using h
  | removeImpl id => simpa [step] using h
  | hasSet i n => simpa [step] using h
  | hasCached i n => simpa [step] using h
  | hasSetOrCached i n => simpa [step] using h
  | hasValue i n =>
    simp only [step, reeval_gen]
    have h1 := (ev_pres fuel { st with trace := [] } (.get i n)).nodup h0
    split <;> (next h' => rw [h'] at h1; exact h1)
  | setRoots l => simpa [step] using h
  | evalRoot i => simp only [step, reeval_gen]; exact (rootLoop_pres _ _ _ _ _).nodup h0
  | setFallback i k => simp only [step, reeval_gen]; exact hset _ _ _ h0 (h i)
  | handOver i c => simp only [step, reeval_gen]; exact hset _ _ _ h0 (by simp [keys])
  | addReg key fn c n b first last => simpa [step] using h
  | rootAdd e => simpa [step] using h
  | rootInsertBefore p e => simp only [step]; split <;> exact h
  | rootInsertAfter p e => simp only [step]; split <;> exact h
  | rootRemoveLast e => simp only [step]; split <;> exact h


/-! ### executing marks: every evaluation - finished, failed or out of fuel - leaves them as they were -/

theorem finishGet_active (i : Inst) (n : Name) (x : State × Res) : (finishGet i n x).1.active = x.1.active := by
  obtain ⟨s, r⟩ := x
  cases r <;> simp [finishGet, State.remember, State.setObj]

/-- **`try … finally`**: whatever an evaluation task does - return a value, return `None`, raise AttributeError / TypeError,
run out of fuel (RecursionError) - the set of executing marks afterwards is the set before. -/
theorem ev_active : ∀ (f : Nat) (st : State) (t : Task), (ev f st t).1.active = st.active := by
  intro f
  induction f with
  | zero => intro st t; simp only [ev]
  | succ f ih =>
    intro st t
    cases t with
    | get i n =>
      simp only [ev]
      split
      · rfl
      · rfl
      · exact ih (st.log _) _
      · rfl
      · exact ih _ _
      · exact ih _ _
    | unset i n =>
      simp only [ev]
      split
      · rfl
      · rw [finishGet_active]; exact ih _ _
      · rw [finishGet_active]; exact ih _ _
    | chain i rs =>
      cases rs with
      | nil => simp only [ev]
      | cons r rs =>
        simp only [ev]
        have h1 := ih ((st.log r.id).enter r.key i) (.body i (r.body.under (st.marked r.key i)))
        split
        · next s1 h => rw [h] at h1; rw [ih]; exact leave_enter (st.log r.id) r.key i false s1 h1
        · next s1 v h => rw [h] at h1; exact leave_enter (st.log r.id) r.key i false s1 h1
        all_goals (next s1 h => rw [h] at h1; exact leave_enter (st.log r.id) r.key i true s1 h1)
    | body i b =>
      cases b with
      | const v => simp only [ev]
      | none => simp only [ev]
      | cread m k c => simp only [ev]; exact ih _ _
      | ctry m k c => simp only [ev]; exact ih _ _
      | read m k c => simp only [ev]; rw [combine_obj]; exact ih _ _
      | tryRead m k c =>
        simp only [ev]
        have h1 := ih st (.get i m)
        split
        · next h => rw [h] at h1; exact h1
        · next h => rw [h] at h1; rw [combine_obj, ih]; exact h1
        · next h => rw [h] at h1; rw [combine_obj, ih]; exact h1
        · next h => rw [h] at h1; exact h1
        · next h => rw [h] at h1; exact h1

theorem reevalLoop_active (fuel : Nat) (i : Inst) : ∀ (names : List Name) (st : State),
    (reevalLoop fuel i st names).1.active = st.active := by
  intro names
  induction names with
  | nil => intro st; rfl
  | cons n ns ih =>
    intro st
    simp only [reevalLoop]
    have h1 := ev_active fuel st (.chain i (order st (st.obj i).cls n))
    split
    · next h => rw [h] at h1; rw [ih]; exact h1
    · next h => rw [h] at h1; rw [ih]; exact h1
    all_goals (next h => rw [h] at h1; exact h1)

theorem fallback_active (fuel : Nat) (st : State) (i : Inst) (n : Name) : (fallback fuel st i n).1.active = st.active := by
  simp only [fallback]
  split
  · rfl
  · next j _ =>
    have h := ev_active fuel st (.get j n)
    split
    · next h' => rw [h'] at h; exact h
    · exact h

theorem rootLoop_active (fuel : Nat) (i : Inst) : ∀ (roots : List (Cls × Name)) (st : State) (acc : List Val),
    (rootLoop fuel i st roots acc).1.active = st.active := by
  intro roots
  induction roots with
  | nil => intro st acc; rfl
  | cons e rs ih =>
    intro st acc
    obtain ⟨c, n⟩ := e
    simp only [rootLoop]
    split
    · have h1 := ev_active fuel st (.chain i (order st (st.obj i).cls n))
      split
      · next h => rw [h] at h1; rw [ih]; exact h1
      · next st1 h =>
        rw [h] at h1
        have h2 := fallback_active fuel st1 i n
        split
        · next h' => rw [h'] at h2; rw [ih]; exact h2.trans h1
        all_goals (next h' => rw [h'] at h2; exact h2.trans h1)
      all_goals (next h => rw [h] at h1; exact h1)
    · exact ih _ _

/-- no operation - whatever its outcome - leaves an executing mark behind or removes one -/
theorem step_active (fuel : Nat) (st : State) (op : Op) : (step fuel st op).1.active = st.active := by
  cases op with
  | read i n => simp only [step]; exact ev_active _ _ _
  | reevaluate i => simp only [step, reeval_gen]; exact reevalLoop_active _ _ _ _
  | evalRoot i => simp only [step]; exact rootLoop_active _ _ _ _ _
  | hasValue i n =>
    simp only [step]
    have h := ev_active fuel { st with trace := [] } (.get i n)
    split <;> (next h' => rw [h'] at h; exact h)
  | rootInsertBefore p e => simp only [step]; split <;> rfl
  | rootInsertAfter p e => simp only [step]; split <;> rfl
  | rootRemoveLast e => simp only [step]; split <;> rfl
  | _ => simp [step, State.setObj, State.assign]

theorem run_active (fuel : Nat) (ops : List Op) : ∀ st : State, (run fuel st ops).active = st.active := by
  induction ops with
  | nil => intro st; rfl
  | cons op ops ih => intro st; rw [run_cons, ih, step_active]

/-! ### registrations: a multiset of registration objects -/

/-- with distinct registration keys, filtering one key out is erasing exactly that one registration -/
theorem filter_key_erase : ∀ (l : List Reg) (r : Reg), (l.map (·.key)).Nodup → r ∈ l →
    l.filter (fun x => !(x.key == r.key)) = l.erase r := by
  intro l
  induction l with
  | nil => intro r _ h; simp at h
  | cons x l ih =>
    intro r hnd hr
    simp only [List.map_cons, List.nodup_cons] at hnd
    by_cases hx : x = r
    · subst hx
      have : l.filter (fun y => !(y.key == x.key)) = l := by
        apply List.filter_eq_self.mpr
        intro y hy
        have : y.key ≠ x.key := fun e => hnd.1 (by rw [← e]; exact List.mem_map_of_mem hy)
        simp [this]
      simp [this]
    · have hr' : r ∈ l := by
        rcases List.mem_cons.1 hr with h | h
        · exact absurd h.symm hx
        · exact h
      have hk : x.key ≠ r.key := fun e => hnd.1 (by rw [e]; exact List.mem_map_of_mem hr')
      have hxr : (x == r) = false := by simp [hx]
      simp [hk, List.erase_cons, hxr, ih r hnd.2 hr']

theorem step_regs_other (fuel : Nat) (st : State) (op : Op)
    (h : ∀ id c n b, op ≠ .addImpl id c n b) (h2 : ∀ k, op ≠ .removeImpl k)
    (h3 : ∀ k f c n b x y, op ≠ .addReg k f c n b x y) : (step fuel st op).1.regs = st.regs := by
  cases op with
  | read i n => simp only [step]; exact (ev_pres _ _ _).regs
  | reevaluate i => simp only [step, reeval_gen]; exact (reevalLoop_pres _ _ _ _).regs
  | evalRoot i => simp only [step]; exact (rootLoop_pres _ _ _ _ _).regs
  | hasValue i n =>
    simp only [step]
    have hh := (ev_pres fuel { st with trace := [] } (.get i n)).regs
    split <;> (next h' => rw [h'] at hh; exact hh)
  | rootInsertBefore p e => simp only [step]; split <;> rfl
  | rootInsertAfter p e => simp only [step]; split <;> rfl
  | rootRemoveLast e => simp only [step]; split <;> rfl
  | addImpl id c n b => exact absurd rfl (h id c n b)
  | removeImpl k => exact absurd rfl (h2 k)
  | addReg k f c n b x y => exact absurd rfl (h3 k f c n b x y)
  | _ => simp [step, State.setObj, State.assign]

/-! ### the `root_hooks` list -/

theorem idxOf_split {α : Type} [DecidableEq α] (p : α) : ∀ (l : List α) (k : Nat), idxOf p l = some k →
    ∃ pre post, l = pre ++ p :: post ∧ p ∉ pre ∧ pre.length = k := by
  intro l
  induction l with
  | nil => intro k h; simp [idxOf] at h
  | cons x l ih =>
    intro k h
    simp only [idxOf] at h
    by_cases hx : x = p
    · subst hx
      simp at h
      exact ⟨[], l, rfl, by simp, by simpa using h⟩
    · simp only [hx, if_false, Option.map_eq_some_iff] at h
      obtain ⟨k', hk', rfl⟩ := h
      obtain ⟨pre, post, h1, h2, h3⟩ := ih k' hk'
      refine ⟨x :: pre, post, by rw [h1]; rfl, ?_, by simp [h3]⟩
      simp only [List.mem_cons, not_or]
      exact ⟨fun e => hx e.symm, h2⟩

theorem idxOf_none {α : Type} [DecidableEq α] (p : α) : ∀ (l : List α), idxOf p l = none ↔ p ∉ l := by
  intro l
  induction l with
  | nil => simp [idxOf]
  | cons x l ih =>
    simp only [idxOf, List.mem_cons, not_or]
    by_cases hx : x = p
    · simp [hx]
    · simp only [hx, if_false, Option.map_eq_none_iff, ih]
      constructor
      · intro h; exact ⟨fun e => hx e.symm, h⟩
      · intro h; exact h.2

theorem insertAt_append {α : Type} (x : α) (s : Nat) : ∀ (pre rest : List α),
    insertAt x (pre.length + s) (pre ++ rest) = pre ++ insertAt x s rest := by
  intro pre
  induction pre with
  | nil => intro rest; simp
  | cons y pre ih =>
    intro rest
    have : (y :: pre).length + s = (pre.length + s) + 1 := by simp; omega
    rw [this]
    simp only [List.cons_append, insertAt]
    rw [ih]

theorem removeLastOcc_none {α : Type} [DecidableEq α] (x : α) : ∀ (l : List α), removeLastOcc x l = none ↔ x ∉ l := by
  intro l
  induction l with
  | nil => simp [removeLastOcc]
  | cons y l ih =>
    simp only [removeLastOcc, List.mem_cons, not_or]
    cases h : removeLastOcc x l with
    | some l' =>
      have : x ∈ l := Decidable.byContradiction fun hc => by
        rw [(ih).2 hc] at h; cases h
      simp [this]
    | none =>
      have hx := ih.1 h
      by_cases hy : y = x
      · simp [hy]
      · simp only [hy, if_false, true_iff]
        exact ⟨fun e => hy e.symm, hx⟩

theorem removeLastOcc_split {α : Type} [DecidableEq α] (x : α) : ∀ (l l' : List α), removeLastOcc x l = some l' →
    ∃ pre post, l = pre ++ x :: post ∧ x ∉ post ∧ l' = pre ++ post := by
  intro l
  induction l with
  | nil => intro l' h; simp [removeLastOcc] at h
  | cons y l ih =>
    intro l' h
    simp only [removeLastOcc] at h
    cases hr : removeLastOcc x l with
    | some l2 =>
      rw [hr] at h
      simp only [Option.some.injEq] at h
      obtain ⟨pre, post, h1, h2, h3⟩ := ih l2 hr
      exact ⟨y :: pre, post, by rw [h1]; rfl, h2, by rw [← h, h3]; rfl⟩
    | none =>
      rw [hr] at h
      have hx := (removeLastOcc_none x l).1 hr
      by_cases hy : y = x
      · subst hy
        simp only [if_true, Option.some.injEq] at h
        exact ⟨[], l, rfl, hx, by rw [← h]; rfl⟩
      · simp [hy] at h

/-- the root loop over a concatenated list: first the front part, then - when that went through - the rest, in the state
and with the outputs the front part left -/
theorem rootLoop_append (fuel : Nat) (i : Inst) : ∀ (l1 l2 : List (Cls × Name)) (st : State) (acc : List Val),
    rootLoop fuel i st (l1 ++ l2) acc =
      match rootLoop fuel i st l1 acc with
      | (s, .none, a) => rootLoop fuel i s l2 a
      | x => x := by
  intro l1
  induction l1 with
  | nil => intro l2 st acc; simp [rootLoop]
  | cons e rs ih =>
    intro l2 st acc
    obtain ⟨c, n⟩ := e
    simp only [List.cons_append, rootLoop]
    split
    · split
      · exact ih _ _ _
      · split
        · exact ih _ _ _
        all_goals rfl
      all_goals rfl
    · exact ih _ _ _

/-- a finished root loop ends with `None` or an error, never with a value -/
theorem rootLoop_res (fuel : Nat) (i : Inst) : ∀ (roots : List (Cls × Name)) (st : State) (acc : List Val) (v : Val),
    (rootLoop fuel i st roots acc).2.1 ≠ .val v := by
  intro roots
  induction roots with
  | nil => intro st acc v; simp [rootLoop]
  | cons e rs ih =>
    intro st acc v
    obtain ⟨c, n⟩ := e
    simp only [rootLoop]
    split
    · split
      · exact ih _ _ _
      · split
        · exact ih _ _ _
        all_goals simp
      all_goals simp
    · exact ih _ _ _


/-! ### membership in the resolution order; histories and the registry -/

theorem mem_order_iff (st : State) (c : Cls) (n : Name) (r : Reg) :
    r ∈ order st c n ↔ r ∈ st.regs ∧ r.cls ∈ st.mro c ∧ r.hook = n ∧ r.tier ≤ 2 := by
  simp only [order_gen, tierRegs_gen, List.mem_append, List.mem_flatMap, List.mem_reverse, List.mem_filter,
    Bool.and_eq_true, beq_iff_eq]
  constructor
  · rintro (⟨k, hk, hr, ⟨h1, h2⟩, h3⟩ | ⟨k, hk, hr, ⟨h1, h2⟩, h3⟩ | ⟨k, hk, hr, ⟨h1, h2⟩, h3⟩) <;>
      exact ⟨hr, by rw [h1]; exact hk, h2, by omega⟩
  · rintro ⟨hr, hc, hn, ht⟩
    have : r.tier = 0 ∨ r.tier = 1 ∨ r.tier = 2 := by omega
    rcases this with h | h | h
    · exact Or.inl ⟨r.cls, hc, hr, ⟨rfl, hn⟩, h⟩
    · exact Or.inr (Or.inl ⟨r.cls, hc, hr, ⟨rfl, hn⟩, h⟩)
    · exact Or.inr (Or.inr ⟨r.cls, hc, hr, ⟨rfl, hn⟩, h⟩)

/-- does the operation register or remove an implementation? -/
def Op.editsRegistry : Op → Bool
  | .addImpl _ _ _ _ | .removeImpl _ | .addReg _ _ _ _ _ _ _ => true
  | _ => false

theorem step_regs_stable (fuel : Nat) (st : State) (op : Op) (h : op.editsRegistry = false) :
    (step fuel st op).1.regs = st.regs := by
  apply step_regs_other
  · intro id c n b e; subst e; simp [Op.editsRegistry] at h
  · intro k e; subst e; simp [Op.editsRegistry] at h
  · intro k f c n b x y e; subst e; simp [Op.editsRegistry] at h

theorem run_regs_stable (fuel : Nat) (ops : List Op) : ∀ st : State, (∀ op ∈ ops, op.editsRegistry = false) →
    (run fuel st ops).regs = st.regs := by
  induction ops with
  | nil => intro st _; rfl
  | cons op ops ih =>
    intro st h
    rw [run_cons, ih _ (fun o ho => h o (by simp [ho])), step_regs_stable _ _ _ (h op (by simp))]

/-- the registration key an operation introduces -/
def Op.newKey : Op → Option Id
  | .addImpl id _ _ _ => some id
  | .addReg key _ _ _ _ _ _ => some key
  | _ => none

/-- every registration of the history uses a key that was not used before (`HookFunction` objects are distinct) -/
def freshKeys (used : List Id) : List Op → Bool
  | [] => true
  | op :: ops =>
    match op.newKey with
    | some k => !used.contains k && freshKeys (k :: used) ops
    | none => freshKeys used ops

theorem step_keys (fuel : Nat) (st : State) (op : Op) (used : List Id)
    (hu : ∀ r ∈ st.regs, r.key ∈ used) (hnd : (st.regs.map (·.key)).Nodup) :
    match op.newKey with
    | some k => k ∉ used → ((step fuel st op).1.regs.map (·.key)).Nodup ∧ ∀ r ∈ (step fuel st op).1.regs, r.key ∈ k :: used
    | none => ((step fuel st op).1.regs.map (·.key)).Nodup ∧ ∀ r ∈ (step fuel st op).1.regs, r.key ∈ used := by
  have hadd : ∀ (k : Id) (r : Reg), r.key = k → k ∉ used →
      ((st.regs ++ [r]).map (·.key)).Nodup ∧ ∀ x ∈ st.regs ++ [r], x.key ∈ k :: used := by
    intro k r hk hfresh
    constructor
    · rw [List.map_append, List.nodup_append]
      refine ⟨hnd, by simp, ?_⟩
      intro a ha b hb
      simp only [List.map_cons, List.map_nil, List.mem_singleton] at hb
      subst hb
      obtain ⟨x, hx, rfl⟩ := List.mem_map.1 ha
      intro e
      exact hfresh (by rw [← hk, ← e]; exact hu x hx)
    · intro x hx
      rcases List.mem_append.1 hx with h | h
      · exact List.mem_cons_of_mem _ (hu x h)
      · simp only [List.mem_singleton] at h; subst h; rw [hk]; exact List.mem_cons_self
  cases op with
  | addImpl id c n b => simp only [Op.newKey, step]; intro hf; exact hadd id _ rfl hf
  | addReg key fn c n b first last => simp only [Op.newKey, step]; intro hf; exact hadd key _ rfl hf
  | removeImpl k =>
    simp only [Op.newKey, step]
    constructor
    · exact (List.filter_sublist.map _).nodup hnd
    · intro r hr; exact hu r (List.mem_filter.1 hr).1
  | _ =>
    simp only [Op.newKey]
    rw [step_regs_stable _ _ _ (by simp [Op.editsRegistry])]
    exact ⟨hnd, hu⟩

theorem run_keys (fuel : Nat) (ops : List Op) : ∀ (st : State) (used : List Id),
    (∀ r ∈ st.regs, r.key ∈ used) → (st.regs.map (·.key)).Nodup → freshKeys used ops = true →
    ((run fuel st ops).regs.map (·.key)).Nodup := by
  induction ops with
  | nil => intro st used _ h _; exact h
  | cons op ops ih =>
    intro st used hu hnd hf
    rw [run_cons]
    have hs := step_keys fuel st op used hu hnd
    simp only [freshKeys] at hf
    cases hk : op.newKey with
    | some k =>
      rw [hk] at hs hf
      simp only [Bool.and_eq_true, Bool.not_eq_true', List.contains_eq_mem, decide_eq_false_iff_not] at hf
      obtain ⟨h1, h2⟩ := hs hf.1
      exact ih _ (k :: used) h2 h1 hf.2
    | none =>
      rw [hk] at hs hf
      exact ih _ used hs.2 hs.1 hf

end Life
