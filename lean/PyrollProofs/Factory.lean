import PyrollModel.Factory
import PyrollProofs.RealNum

/-! Helper lemmas for the profile-factory model (C15) over ℝ. -/

namespace Factory

@[simp] theorem le_real (a b : ℝ) : (PyNum.le a b : Bool) = decide (a ≤ b) := rfl
@[simp] theorem lt_real (a b : ℝ) : (PyNum.lt a b : Bool) = decide (a < b) := rfl

/-- `maxL` is the maximum: it equals any member that bounds all members -/
theorem maxL_eq_of : ∀ (l : List ℝ) (m m0 : ℝ), (m0 = m ∨ m0 ∈ l) → m ≤ m0 → (∀ y ∈ l, y ≤ m0) → maxL m l = m0 := by
  intro l
  induction l with
  | nil =>
    intro m m0 h _ _
    rcases h with h | h
    · simp [maxL, h]
    · simp at h
  | cons x xs ih =>
    intro m m0 h hm hub
    simp only [maxL, le_real]
    have hx : x ≤ m0 := hub x (by simp)
    by_cases hmx : m ≤ x
    · simp only [hmx, decide_true, if_true]
      apply ih
      · rcases h with h | h
        · left; subst h; exact le_antisymm hmx hx
        · rcases List.mem_cons.mp h with h | h
          · left; exact h
          · right; exact h
      · exact hx
      · intro y hy; exact hub y (by simp [hy])
    · simp only [hmx, decide_false]
      apply ih
      · rcases h with h | h
        · left; exact h
        · rcases List.mem_cons.mp h with h | h
          · exfalso; subst h; exact hmx hm
          · right; exact h
      · exact hm
      · intro y hy; exact hub y (by simp [hy])

/-- outcome predicates used by the property statements -/
def Outcome.isTypeError {α : Type} : Outcome α → Prop
  | .typeError => True
  | _ => False

def Outcome.isValueError {α : Type} : Outcome α → Prop
  | .valueError => True
  | _ => False

/-- the factory accepted the arguments and the resolved environment satisfies `P` -/
def Outcome.okWith {α : Type} (o : Outcome α) (P : (String → α) → Prop) : Prop :=
  match o with
  | .ok ρ => P ρ
  | _ => False

theorem sqrt_two_mul_self : Real.sqrt 2 * Real.sqrt 2 = 2 := Real.mul_self_sqrt (by norm_num)
theorem sqrt_three_mul_self : Real.sqrt 3 * Real.sqrt 3 = 3 := Real.mul_self_sqrt (by norm_num)
theorem sqrt_two_pos : 0 < Real.sqrt 2 := Real.sqrt_pos.mpr (by norm_num)
theorem sqrt_three_pos : 0 < Real.sqrt 3 := Real.sqrt_pos.mpr (by norm_num)

end Factory

namespace Factory

/-- distance from a squared-distance certificate -/
theorem dist_eq (p q : ℝ × ℝ) (d : ℝ) (hd : 0 ≤ d)
    (h : (q.1 - p.1) * (q.1 - p.1) + (q.2 - p.2) * (q.2 - p.2) = d * d) : dist p q = d := by
  simp only [dist, PyNum.sqrt_real, h]
  exact Real.sqrt_mul_self hd

/-- extent from the two supporting vertices -/
theorem extent_eq (vs : List (ℝ × ℝ)) (r dx dy m m' : ℝ) (x x' : ℝ) (xs xs' : List ℝ)
    (e : vs.map (fun p => p.1 * dx + p.2 * dy) = x :: xs)
    (e' : vs.map (fun p => p.1 * -dx + p.2 * -dy) = x' :: xs')
    (hm : m = x ∨ m ∈ xs) (hx : x ≤ m) (hub : ∀ y ∈ xs, y ≤ m)
    (hm' : m' = x' ∨ m' ∈ xs') (hx' : x' ≤ m') (hub' : ∀ y ∈ xs', y ≤ m') :
    extent vs r dx dy = m + m' + 2 * r := by
  simp only [extent, supp, e, e', maxL_eq_of xs x m hm hx hub, maxL_eq_of xs' x' m' hm' hx' hub', PyNum.nat_real]
  norm_num

end Factory

namespace Factory
variable {α : Type} [PyNum α]

theorem run_typeError_iff (s : Spec) (pres : String → Bool) (ρ : String → α) :
    (s.run pres ρ).isTypeError ↔ resolveGroups pres ρ s.groups = none := by
  unfold Spec.run
  cases h : resolveGroups pres ρ s.groups with
  | none => simp [Outcome.isTypeError]
  | some ρ' =>
    by_cases hr : s.outOfRange ρ' = true <;> simp [hr, Outcome.isTypeError]

theorem run_ok_of (s : Spec) (pres : String → Bool) (ρ ρ' : String → α) (P : (String → α) → Prop)
    (h : resolveGroups pres ρ s.groups = some ρ') (hr : s.outOfRange ρ' = false) (hP : P ρ') :
    (s.run pres ρ).okWith P := by
  simp [Spec.run, h, hr, Outcome.okWith, hP]

theorem run_valueError_of (s : Spec) (pres : String → Bool) (ρ ρ' : String → α)
    (h : resolveGroups pres ρ s.groups = some ρ') (hr : s.outOfRange ρ' = true) :
    (s.run pres ρ).isValueError := by
  simp [Spec.run, h, hr, Outcome.isValueError]

omit [PyNum α] in
/-- the three outcomes exclude each other -/
theorem okWith_not_error (o : Outcome α) (P : (String → α) → Prop) (h : o.okWith P) :
    ¬ o.isTypeError ∧ ¬ o.isValueError := by
  cases o <;> simp_all [Outcome.okWith, Outcome.isTypeError, Outcome.isValueError]

end Factory

namespace Factory
/-! range comparisons over ℝ as propositions -/
@[simp] theorem holds_le_real (ρ : String → ℝ) (a b : Expr) :
    Check.holds ρ { lhs := a, op := .le, rhs := b } = true ↔ a.eval ρ ≤ b.eval ρ := by simp [Check.holds]
@[simp] theorem holds_lt_real (ρ : String → ℝ) (a b : Expr) :
    Check.holds ρ { lhs := a, op := .lt, rhs := b } = true ↔ a.eval ρ < b.eval ρ := by simp [Check.holds]
@[simp] theorem holds_ge_real (ρ : String → ℝ) (a b : Expr) :
    Check.holds ρ { lhs := a, op := .ge, rhs := b } = true ↔ b.eval ρ ≤ a.eval ρ := by simp [Check.holds]
@[simp] theorem holds_gt_real (ρ : String → ℝ) (a b : Expr) :
    Check.holds ρ { lhs := a, op := .gt, rhs := b } = true ↔ b.eval ρ < a.eval ρ := by simp [Check.holds]
end Factory

namespace Factory
/-! keyword attachment -/

theorem find?_key_unique {V : Type} : ∀ (l : List (String × V)) (k : String) (v : V),
    (k, v) ∈ l → (l.map Prod.fst).Nodup → l.find? (fun kv => kv.1 = k) = some (k, v) := by
  intro l
  induction l with
  | nil => intro k v h; simp at h
  | cons x xs ih =>
    intro k v hmem hnd
    rw [List.map_cons, List.nodup_cons] at hnd
    by_cases hx : x.1 = k
    · have : x = (k, v) := by
        rcases List.mem_cons.mp hmem with h | h
        · exact h.symm
        · exfalso; apply hnd.1; rw [hx]; exact List.mem_map.mpr ⟨(k, v), h, rfl⟩
      simp [List.find?, this]
    · have hmem' : (k, v) ∈ xs := by
        rcases List.mem_cons.mp hmem with h | h
        · exfalso; apply hx; rw [← h]
        · exact h
      simp [List.find?, hx, ih k v hmem' hnd.2]

theorem attach_kwargs {V : Type} (presets explicit kwargs : List (String × V))
    (hnd : (kwargs.map Prod.fst).Nodup) (hdisj : ∀ kv ∈ kwargs, ∀ e ∈ explicit, e.1 ≠ kv.1) :
    ∃ d, attach presets explicit kwargs = some d ∧ ∀ kv ∈ kwargs, lookup d kv.1 = some kv.2 := by
  have hno : (kwargs.any fun kv => explicit.any fun e => decide (e.1 = kv.1)) = false := by
    rw [Bool.eq_false_iff]; intro h
    simp only [List.any_eq_true, decide_eq_true_eq] at h
    obtain ⟨kv, hkv, e, he, heq⟩ := h
    exact hdisj kv hkv e he heq
  refine ⟨kwargs.reverse ++ explicit.reverse ++ presets.reverse, by simp [attach, hno], ?_⟩
  intro kv hkv
  have hnd' : ((kwargs.reverse).map Prod.fst).Nodup := by
    rw [List.map_reverse]; exact List.nodup_reverse.mpr hnd
  have := find?_key_unique kwargs.reverse kv.1 kv.2 (by simpa using hkv) hnd'
  simp [lookup, List.find?_append, this]

theorem attach_collision {V : Type} (presets explicit kwargs : List (String × V))
    (h : ∃ kv ∈ kwargs, ∃ e ∈ explicit, e.1 = kv.1) : attach presets explicit kwargs = none := by
  obtain ⟨kv, hkv, e, he, heq⟩ := h
  have : (kwargs.any fun kv => explicit.any fun e => decide (e.1 = kv.1)) = true := by
    simp only [List.any_eq_true, decide_eq_true_eq]
    exact ⟨kv, hkv, e, he, heq⟩
  simp [attach, this]

end Factory

namespace Factory
@[simp] theorem holds_le_real_false (ρ : String → ℝ) (a b : Expr) :
    Check.holds ρ { lhs := a, op := .le, rhs := b } = false ↔ b.eval ρ < a.eval ρ := by simp [Check.holds]
@[simp] theorem holds_lt_real_false (ρ : String → ℝ) (a b : Expr) :
    Check.holds ρ { lhs := a, op := .lt, rhs := b } = false ↔ b.eval ρ ≤ a.eval ρ := by simp [Check.holds]
@[simp] theorem holds_ge_real_false (ρ : String → ℝ) (a b : Expr) :
    Check.holds ρ { lhs := a, op := .ge, rhs := b } = false ↔ a.eval ρ < b.eval ρ := by simp [Check.holds]
@[simp] theorem holds_gt_real_false (ρ : String → ℝ) (a b : Expr) :
    Check.holds ρ { lhs := a, op := .gt, rhs := b } = false ↔ a.eval ρ ≤ b.eval ρ := by simp [Check.holds]
end Factory
