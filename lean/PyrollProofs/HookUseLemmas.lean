import PyrollModel.HookUse
import PyrollProofs.HookOrderLemmas

/-!
  C01 helper lemmas about `evx` (evaluation with the re-entrancy marks as state, failing implementations and
  `try … finally`) and the use machine `ustep` (objects that stay): the marks are restored on every path, `evx` on an
  object with its input is `ev`, the registry under a use-history is in the simulation relation with the abstract
  machine run on its registry operations, the side tables name plain constant implementations only.
-/

namespace Hooks

/-- what the model consumes from the GENERATED source table: the `discard` of the re-entrancy mark sits in the `finally`
    clause of `HookFunction.__call__`, so a call that ends in an exception discards its mark as well -/
@[simp] theorem excUnmark_gen (m : List (Nat × Nat)) (k : Nat × Nat) : excUnmark m k = m.erase k := rfl

/-- whatever happens inside - a value, `None`, an exception, fuel exhausted - a call leaves the marks as it found them -/
theorem evx_marks (chainOf : Cls → List HF) (fl : Flags) (s : Nat) :
    ∀ (fuel : Nat) (full rest : List HF) (i depth : Nat) (act : List (Nat × Nat)) (tr : List Ev),
      (evx chainOf fl s fuel full rest i depth act tr).marks = act := by
  intro fuel
  induction fuel with
  | zero => intro full rest i depth act tr; simp [evx]
  | succ n ih =>
    intro full rest i depth act tr
    cases rest with
    | nil => simp [evx]
    | cons f rest =>
      simp only [evx]
      split
      · split
        · exact ih ..
        · split
          · exact ih ..
          · split
            · simp
            · simp only [ih, excUnmark_gen, List.erase_cons_head]
              split
              · rfl
              · split
                · rfl
                · exact ih ..
      · split
        · split
          · simp only [ih, excUnmark_gen, List.erase_cons_head]
            split <;> first | rfl | exact ih ..
          · exact ih ..
        · split
          · exact ih ..
          · split
            · simp
            · split
              · simp
              · simp only [List.erase_cons_head]; exact ih ..
        · exact ih ..

/-- the table of implementations that take the `cycle` argument names no wrapper and no delegating implementation of
    the chain `l` (it is a table of plain constant implementations) -/
def Sep (fl : Flags) (l : List HF) : Prop :=
  ∀ f ∈ l, (f.wrapper = true ∨ ∃ c, f.body = .delegate c) → fl.aware f.id = false

/-- on an object whose input is supplied, `evx` is `ev`: same value, same trace, marks untouched -/
theorem evx_eq_ev (chainOf : Cls → List HF) (fl : Flags) (hch : ∀ c, Sep fl (chainOf c)) :
    ∀ (fuel : Nat) (full rest : List HF) (i depth : Nat) (act : List (Nat × Nat)) (tr : List Ev),
      Sep fl full → Sep fl rest → (∀ p ∈ act, fl.aware p.1 = false) →
      evx chainOf fl 2 fuel full rest i depth act tr =
        ⟨.val (ev chainOf fuel full rest i depth act tr).1, (ev chainOf fuel full rest i depth act tr).2, act⟩ := by
  intro fuel
  induction fuel with
  | zero => intro full rest i depth act tr _ _ _; simp [evx, ev]
  | succ n ih =>
    intro full rest i depth act tr hfull hrest hact
    cases rest with
    | nil => simp [evx, ev]
    | cons f rest =>
      have hrest' : Sep fl rest := fun g hg => hrest g (by simp [hg])
      have hf := hrest f (by simp)
      cases hw : f.wrapper with
      | true =>
        have haw : fl.aware f.id = false := hf (Or.inl hw)
        have hn2 : (fl.needs f.id && (2 : Nat) != 2) = false := by simp
        have hact' : ∀ p ∈ (f.id, i) :: act, fl.aware p.1 = false := by
          intro p hp
          rcases List.mem_cons.1 hp with rfl | hp
          · exact haw
          · exact hact p hp
        by_cases hm : (f.id, i) ∈ act
        · simp only [evx, ev, hw, if_true, hm]
          exact ih _ _ _ _ _ _ hfull hrest' hact
        · cases hb : f.body with
          | decline =>
            simp only [evx, ev, hw, if_true, hm, if_false, hb]
            exact ih _ _ _ _ _ _ hfull hrest' hact
          | ret v =>
            simp only [evx, ev, hw, if_true, hm, if_false, hb, hn2, Bool.false_eq_true]
            rw [ih _ _ _ _ _ _ hfull hfull hact']
            simp only [List.erase_cons_head]
            generalize ev chainOf n full full i depth ((f.id, i) :: act) (tr ++ [Ev.enter f.id]) = r
            cases hwa : wapply _ r.1 with
            | some x => rfl
            | none => exact ih _ _ _ _ _ _ hfull hrest' hact
          | delegate c =>
            simp only [evx, ev, hw, if_true, hm, if_false, hb, hn2, Bool.false_eq_true]
            rw [ih _ _ _ _ _ _ hfull hfull hact']
            simp only [List.erase_cons_head]
            generalize ev chainOf n full full i depth ((f.id, i) :: act) (tr ++ [Ev.enter f.id]) = r
            cases hwa : wapply _ r.1 with
            | some x => rfl
            | none => exact ih _ _ _ _ _ _ hfull hrest' hact
          | wrap k d =>
            simp only [evx, ev, hw, if_true, hm, if_false, hb, hn2, Bool.false_eq_true]
            rw [ih _ _ _ _ _ _ hfull hfull hact']
            simp only [List.erase_cons_head]
            generalize ev chainOf n full full i depth ((f.id, i) :: act) (tr ++ [Ev.enter f.id]) = r
            cases hwa : wapply _ r.1 with
            | some x => rfl
            | none => exact ih _ _ _ _ _ _ hfull hrest' hact
      | false =>
        cases hb : f.body with
        | decline =>
          simp only [evx, ev, hw, hb, Bool.false_eq_true, if_false]
          exact ih _ _ _ _ _ _ hfull hrest' hact
        | wrap k d =>
          simp only [evx, ev, hw, hb, Bool.false_eq_true, if_false]
          exact ih _ _ _ _ _ _ hfull hrest' hact
        | delegate c =>
          have haw : fl.aware f.id = false := hf (Or.inr ⟨c, hb⟩)
          have hact' : ∀ p ∈ (f.id, i) :: act, fl.aware p.1 = false := by
            intro p hp
            rcases List.mem_cons.1 hp with rfl | hp
            · exact haw
            · exact hact p hp
          by_cases hd : depth = 0
          · simp only [evx, ev, hw, hb, Bool.false_eq_true, if_false, hd, if_true]
            rw [ih _ _ _ _ _ _ (hch c) (hch c) hact']
            simp only [List.erase_cons_head]
            generalize ev chainOf n (chainOf c) (chainOf c) (tr.length + 1) 1 ((f.id, i) :: act)
              (tr ++ [Ev.call f.id, Ev.inst c]) = r
            cases hr : r.1 with
            | some x => rfl
            | none => exact ih _ _ _ _ _ _ hfull hrest' hact
          · simp only [evx, ev, hw, hb, Bool.false_eq_true, if_false, hd]
            exact ih _ _ _ _ _ _ hfull hrest' hact
        | ret v =>
          have hc : (fl.aware f.id && decide ((f.id, i) ∈ act)) = false := by
            by_cases hm : (f.id, i) ∈ act
            · simp [hact _ hm]
            · simp [hm]
          cases v with
          | none =>
            simp only [evx, ev, hw, hb, Bool.false_eq_true, if_false, hc, List.erase_cons_head]
            simp
            exact ih _ _ _ _ _ _ hfull hrest' hact
          | some x =>
            simp only [evx, ev, hw, hb, Bool.false_eq_true, if_false, hc, List.erase_cons_head]
            simp

/-! ### the use machine -/

theorem useEval_marks (u : UState) (o : Nat) (ob : Obj) (re : Bool) : (useEval u o ob re).marks = u.marks := by
  simp only [useEval, evalObj, evx_marks]

theorem ustep_marks (u : UState) (op : UOp) : (ustep u op).marks = u.marks := by
  cases op with
  | reg op => rfl
  | addNeed c t v a => simp only [ustep]; split <;> rfl
  | addNeedW c t k d => simp only [ustep]; split <;> rfl
  | newObj o c => simp only [ustep]; split <;> rfl
  | setInp o s => simp only [ustep]; split <;> rfl
  | get o => simp only [ustep]; split; · rfl
             split; · exact useEval_marks ..
             rfl
  | has o => simp only [ustep]; split; · rfl
             split; · exact useEval_marks ..
             rfl
  | reeval o => simp only [ustep]; split; · rfl
                split; · exact useEval_marks ..
                rfl

theorem ufoldl_marks (l : List UOp) : ∀ u : UState, (l.foldl ustep u).marks = u.marks := by
  induction l with
  | nil => intro u; rfl
  | cons op l ih => intro u; rw [List.foldl_cons, ih, ustep_marks]

/-- what a use-history does to the abstract machine: its registry operations -/
def uastep (a : AState) : UOp → AState
  | .reg op => astep a op
  | .addNeed c t v _ => astep a (.add c t false (.ret (some v)))
  | .addNeedW c t k d => astep a (.add c t true (.wrap k d))
  | _ => a

theorem regOps_foldl (l : List UOp) : ∀ a : AState, (regOps l).foldl astep a = l.foldl uastep a := by
  induction l with
  | nil => intro a; rfl
  | cons op l ih => intro a; cases op <;> simp [regOps, uastep, ih]

theorem touchEval_rel {st : State} {a : AState} (h : Rel st a) (c : Cls) (tr : List Ev) : Rel (touchEval st c tr) a :=
  Rel.foldTouchAll _ (h.touchAll c)

theorem useEval_rel {u : UState} {a : AState} (h : Rel u.reg a) (o : Nat) (ob : Obj) (re : Bool) :
    Rel (useEval u o ob re).reg a := touchEval_rel h _ _

theorem addNeed_reg (u : UState) (c : Cls) (t : Tier) (v : Nat) (aw : Bool) :
    (ustep u (.addNeed c t v aw)).reg = step u.reg (.add c t false (.ret (some v))) := by
  simp only [ustep]; split <;> rfl

theorem addNeedW_reg (u : UState) (c : Cls) (t : Tier) (k : Nat) (d : Option Nat) :
    (ustep u (.addNeedW c t k d)).reg = step u.reg (.add c t true (.wrap k d)) := by
  simp only [ustep]; split <;> rfl

theorem ustep_rel {u : UState} {a : AState} (h : Rel u.reg a) (op : UOp) : Rel (ustep u op).reg (uastep a op) := by
  cases op with
  | reg op => exact h.step op
  | addNeed c t v aw => rw [addNeed_reg]; exact h.step _
  | addNeedW c t k d => rw [addNeedW_reg]; exact h.step _
  | newObj o c => simp only [ustep, uastep]; split <;> exact h
  | setInp o s => simp only [ustep, uastep]; split <;> exact h
  | get o => simp only [ustep, uastep]; split; · exact h
             split; · exact useEval_rel h ..
             exact h.touch _
  | has o => simp only [ustep, uastep]; split; · exact h
             split; · exact useEval_rel h ..
             exact h.touch _
  | reeval o => simp only [ustep, uastep]; split; · exact h
                split; · exact useEval_rel h ..
                exact h

theorem ufoldl_rel (l : List UOp) : ∀ {u : UState} {a : AState}, Rel u.reg a → Rel (l.foldl ustep u).reg (l.foldl uastep a) := by
  induction l with
  | nil => intro u a h; exact h
  | cons op l ih => intro u a h; exact ih (ustep_rel h op)

/-- the registry after a use-history is in the simulation relation with the abstract machine (class hierarchy + log of
    live registrations) run on the registry operations of the history alone -/
theorem urun_rel (l : List UOp) : Rel (urun l).reg (arun (regOps l)) := by
  unfold urun arun
  rw [regOps_foldl]
  exact ufoldl_rel l rel_init

/-! ### the side tables name plain constant implementations -/

/-- every table entry is the id of a registration made already, and a live registration with that id is a plain
    implementation answering a constant -/
def TablesOk (u : UState) (a : AState) : Prop :=
  ∀ id, id ∈ u.aware →
    id < a.next ∧ ∀ r ∈ a.log, r.hf.id = id → r.hf.wrapper = false ∧ ∃ v, r.hf.body = .ret v

theorem astep_next_le (a : AState) (op : Op) : a.next ≤ (astep a op).next := by
  cases op <;> simp only [astep] <;> (try split) <;> simp

theorem astep_log_cases (a : AState) (op : Op) (r : Reg) (hr : r ∈ (astep a op).log) :
    r ∈ a.log ∨ (r.hf.id = a.next ∧ ∃ c t w b, op = .add c t w b ∧ r.hf = ⟨a.next, w, b⟩) := by
  cases op with
  | add c t w b =>
    simp only [astep] at hr
    split at hr
    · simp only [List.mem_append, List.mem_singleton] at hr
      rcases hr with hr | rfl
      · exact Or.inl hr
      · exact Or.inr ⟨rfl, c, t, w, b, rfl, rfl⟩
    · exact Or.inl hr
  | remove c id =>
    simp only [astep, List.mem_filter] at hr
    exact Or.inl hr.1
  | defClass c m hook =>
    simp only [astep] at hr
    split at hr <;> exact Or.inl hr
  | extension c =>
    simp only [astep] at hr
    split at hr <;> exact Or.inl hr
  | touchClass c => exact Or.inl hr
  | touchInst c => exact Or.inl hr
  | readFns c => exact Or.inl hr
  | read c => exact Or.inl hr
  | touchVia v c => exact Or.inl hr
  | readVia v c => exact Or.inl hr

theorem tables_same {u u' : UState} {a : AState} (h : TablesOk u a) (ha : u'.aware = u.aware) :
    TablesOk u' a := by
  intro id hid
  rw [ha] at hid
  exact h id hid

theorem tables_astep {u u' : UState} {a : AState} (h : TablesOk u a) (ha : u'.aware = u.aware) (op : Op) :
    TablesOk u' (astep a op) := by
  intro id hid
  rw [ha] at hid
  have := h id hid
  refine ⟨Nat.lt_of_lt_of_le this.1 (astep_next_le a op), fun r hr hrid => ?_⟩
  rcases astep_log_cases a op r hr with hr' | ⟨he, _⟩
  · exact this.2 r hr' hrid
  · omega

theorem ustep_tables {u : UState} {a : AState} (hrel : Rel u.reg a) (h : TablesOk u a) (op : UOp) :
    TablesOk (ustep u op) (uastep a op) := by
  cases op with
  | reg op => exact tables_astep h rfl op
  | addNeedW c t k d => exact tables_astep h (by simp only [ustep]; split <;> rfl) _
  | addNeed c t v aw =>
    have hvis : ((touch u.reg c).own c).isSome = avisible a c := hrel.touch_own c
    intro id hid
    simp only [uastep]
    by_cases hv : avisible a c = true
    · -- the registration succeeds on both machines: new entry `a.next`, a plain constant
      have hlog : (astep a (.add c t false (.ret (some v)))).log = a.log ++ [⟨⟨a.next, false, .ret (some v)⟩, c, t⟩] := by
        simp [astep, hv]
      have hnext : (astep a (.add c t false (.ret (some v)))).next = a.next + 1 := by simp [astep, hv]
      have hold : id ∈ u.aware ∨ id = a.next := by
        simp only [ustep] at hid
        split at hid
        · exact Or.inl hid
        · simp only [hrel.next_eq] at hid
          split at hid
          · rcases List.mem_cons.1 hid with h2 | h2
            · exact Or.inr h2
            · exact Or.inl h2
          · exact Or.inl hid
      rw [hlog, hnext]
      rcases hold with hold | rfl
      · have := h id hold
        refine ⟨by omega, fun r hr hrid => ?_⟩
        simp only [List.mem_append, List.mem_singleton] at hr
        rcases hr with hr | rfl
        · exact this.2 r hr hrid
        · simp at hrid; omega
      · refine ⟨by omega, fun r hr hrid => ?_⟩
        simp only [List.mem_append, List.mem_singleton] at hr
        rcases hr with hr | rfl
        · have := hrel.ids_lt r hr; omega
        · exact ⟨rfl, _, rfl⟩
    · -- AttributeError on both machines: nothing is registered, the tables stay
      have hnone : (touch u.reg c).own c = none := by
        cases ho : (touch u.reg c).own c with
        | none => rfl
        | some x => rw [ho] at hvis; simp at hvis; exact absurd hvis hv
      have hst : astep a (.add c t false (.ret (some v))) = a := by simp [astep, hv]
      rw [hst]
      simp only [ustep, hnone] at hid
      exact h id hid
  | newObj o c => exact tables_same h (by simp only [ustep]; split <;> rfl)
  | setInp o s => exact tables_same h (by simp only [ustep]; split <;> rfl)
  | get o =>
    refine tables_same h ?_
    simp only [ustep]; split; · rfl
    split <;> rfl
  | has o =>
    refine tables_same h ?_
    simp only [ustep]; split; · rfl
    split <;> rfl
  | reeval o =>
    refine tables_same h ?_
    simp only [ustep]; split; · rfl
    split <;> rfl

theorem ufoldl_tables (l : List UOp) : ∀ {u : UState} {a : AState}, Rel u.reg a → TablesOk u a →
    TablesOk (l.foldl ustep u) (l.foldl uastep a) := by
  induction l with
  | nil => intro u a _ h; exact h
  | cons op l ih => intro u a hr h; exact ih (ustep_rel hr op) (ustep_tables hr h op)

theorem urun_tables (l : List UOp) : TablesOk (urun l) (arun (regOps l)) := by
  unfold urun arun
  rw [regOps_foldl]
  refine ufoldl_tables l rel_init ?_
  intro id hid
  simp [uinit] at hid

/-- after any use-history the `cycle` table names no wrapper and no delegating implementation of any chain -/
theorem urun_sep (l : List UOp) (c : Cls) : Sep (urun l).flags (implOrder (urun l).reg c) := by
  intro f hf hk
  rw [(urun_rel l).implOrder_eq, specOrder, List.mem_map] at hf
  obtain ⟨r, hr, rfl⟩ := hf
  have hlog := (mem_specRegs.1 hr).1
  cases hmem : (urun l).flags.aware r.hf.id with
  | false => rfl
  | true =>
    exfalso
    have hin : r.hf.id ∈ (urun l).aware := by simpa [UState.flags] using hmem
    obtain ⟨hw, v, hb⟩ := (urun_tables l r.hf.id hin).2 r hlog rfl
    rcases hk with hk | ⟨c', hk⟩
    · rw [hw] at hk; cases hk
    · rw [hb] at hk; cases hk

end Hooks
