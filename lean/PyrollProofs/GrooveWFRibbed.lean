import PyrollModel.Gen.C03Ribbed
import PyrollProofs.GrooveWFConstruct

/-!
# `EquivalentRibbedGroove.__init__` over ℝ (lemmas for `PyrollProps/C03.lean`)

`ribbedArgs_eq`: the generated table (`Gen.C03Ribbed.ribbed`) evaluated on the bound arguments: which values reach
`GenericElongationGroove.__init__`; `chord_eq`, `r2_segment`, `hEq_pos/neg`, `r2_pos/neg`: the geometry of the radius `r2`.
-/

open GrooveWF Gen.C03Ribbed

namespace GrooveWFRibbed

/-- the numeric arguments of `EquivalentRibbedGroove(...)` as python binds them (`pad_angle` with its default `0` if
    not given; `rib_flank_angle` is only stored) -/
structure In where
  r1 : ℝ
  r3 : ℝ
  ribDistance : ℝ
  ribWidth : ℝ
  ribAngle : ℝ
  bodyHeight : ℝ
  outerDiameter : ℝ
  usableWidth : ℝ
  depth : ℝ
  padAngle : ℝ

def In.given (x : In) : List (String × ℝ) :=
  [("r1", x.r1), ("r3", x.r3), ("rib_distance", x.ribDistance), ("rib_width", x.ribWidth), ("rib_angle", x.ribAngle),
   ("base_body_height", x.bodyHeight), ("nominal_outer_diameter", x.outerDiameter), ("usable_width", x.usableWidth),
   ("depth", x.depth), ("pad_angle", x.padAngle)]

/-- height of the equivalent circular segment: the rib height `D/2 − h/2` weighted with the share of the length that is
    covered by ribs, `(w / cos β) / d` -/
noncomputable def In.hEq (x : In) : ℝ :=
  (x.outerDiameter / 2 - x.bodyHeight / 2) * (x.ribWidth / Real.cos (x.ribAngle * (Real.pi / 180)) / x.ribDistance)

/-- `circle_segment_base_width` as the source computes it (law of sines in the help triangle) -/
noncomputable def In.chord (x : In) : ℝ :=
  x.bodyHeight - 2 * (x.outerDiameter / 2 * Real.sin (Real.pi - (Real.pi / 4 + (Real.pi -
    Real.arcsin (x.bodyHeight * Real.sqrt 2 / 2 * Real.sin (Real.pi / 4) / (x.outerDiameter / 2)))))
    / Real.sin (Real.pi / 4))

noncomputable def In.r2 (x : In) : ℝ := (4 * x.hEq ^ 2 + x.chord ^ 2) / (8 * x.hEq)

noncomputable def solOf (alpha3 flankAngle : ℝ) : List (String × ℝ) := [("sol.alpha3", alpha3), ("sol.flank_angle", flankAngle)]

theorem ribbedArgs_eq (x : In) (a3 fa : ℝ) (kw : List (String × ℝ)) :
    (ribbedArgs ribbed 0 x.given (solOf a3 fa) kw).given =
      [("r2", x.r2), ("depth", x.depth), ("usable_width", x.usableWidth), ("r1", x.r1),
       ("pad_angle", x.padAngle * (Real.pi / 180)), ("r3", x.r3), ("alpha3", a3), ("flank_angle", fa)] ++ kw := by
  simp only [ribbedArgs, ribbedEnv, ribbed, bindLocals, In.given, solOf, Expr.eval, envOfL, List.lookup, List.map,
    List.cons_append, List.nil_append, String.reduceBEq, PyNum.nat_real, PyNum.pi_real, PyNum.sin_real, PyNum.cos_real,
    PyNum.sqrt_real, PyNum.asin_real, PyNum.npow_real, Nat.cast_ofNat, if_true, In.r2, In.hEq, In.chord]


/-- **the chord**: the law-of-sines detour of the source is the chord that the flat face of the base body (at distance
    `h/2` from the bar axis) cuts out of the outer circle of radius `D/2`: `2·√((D/2)² − (h/2)²)` -/
theorem chord_eq (x : In) (hh : 0 ≤ x.bodyHeight) (hD : x.bodyHeight ≤ x.outerDiameter) (hpos : 0 < x.outerDiameter) :
    x.chord = 2 * Real.sqrt ((x.outerDiameter / 2) ^ 2 - (x.bodyHeight / 2) ^ 2) := by
  have hs4 : Real.sin (Real.pi / 4) = Real.sqrt 2 / 2 := Real.sin_pi_div_four
  have hc4 : Real.cos (Real.pi / 4) = Real.sqrt 2 / 2 := Real.cos_pi_div_four
  have h2 : Real.sqrt 2 * Real.sqrt 2 = 2 := Real.mul_self_sqrt (by norm_num)
  have h2pos : 0 < Real.sqrt 2 := Real.sqrt_pos.mpr (by norm_num)
  set R := x.outerDiameter / 2 with hR
  set h := x.bodyHeight with hh'
  have hRpos : 0 < R := by positivity
  set t := h / 2 / R with ht
  have harg : h * Real.sqrt 2 / 2 * (Real.sqrt 2 / 2) / R = t := by
    rw [ht]; field_simp; nlinarith [h2]
  have ht0 : 0 ≤ t := by rw [ht]; positivity
  have ht1 : t ≤ 1 := by
    rw [ht, div_le_one hRpos]; rw [hR]; linarith
  have hangle : Real.pi - (Real.pi / 4 + (Real.pi - Real.arcsin t)) = Real.arcsin t - Real.pi / 4 := by ring
  have hsin : Real.sin (Real.arcsin t - Real.pi / 4) = t * (Real.sqrt 2 / 2) - Real.sqrt (1 - t ^ 2) * (Real.sqrt 2 / 2) := by
    rw [Real.sin_sub, Real.sin_arcsin (by linarith) ht1, Real.cos_arcsin, hs4, hc4]
  have hroot : R * Real.sqrt (1 - t ^ 2) = Real.sqrt (R ^ 2 - (h / 2) ^ 2) := by
    have : R ^ 2 - (h / 2) ^ 2 = R ^ 2 * (1 - t ^ 2) := by rw [ht]; field_simp
    rw [this, Real.sqrt_mul (by positivity), Real.sqrt_sq hRpos.le]
  unfold In.chord
  rw [← hR, ← hh', hs4, harg, hangle, hsin]
  have : h - 2 * (R * (t * (Real.sqrt 2 / 2) - Real.sqrt (1 - t ^ 2) * (Real.sqrt 2 / 2)) / (Real.sqrt 2 / 2))
      = h - 2 * R * t + 2 * (R * Real.sqrt (1 - t ^ 2)) := by
    field_simp; ring
  rw [this, hroot, ht]
  field_simp; ring

/-- **`r2` is the radius of the circular segment** of height `hEq` over that chord: the circle of radius `r2` whose apex is
    `hEq` above the chord passes through the chord's end points -/
theorem r2_segment (x : In) (h : x.hEq ≠ 0) : (x.r2 - x.hEq) ^ 2 + (x.chord / 2) ^ 2 = x.r2 ^ 2 := by
  unfold In.r2; field_simp; ring

/-- ribs on a base body thinner than the outer diameter: the equivalent segment has a positive height … -/
theorem hEq_pos (x : In) (hd : 0 < x.ribDistance) (hw : 0 < x.ribWidth) (hb : |x.ribAngle| < 90)
    (hD : x.bodyHeight < x.outerDiameter) : 0 < x.hEq := by
  have hcos : 0 < Real.cos (x.ribAngle * (Real.pi / 180)) := by
    apply Real.cos_pos_of_mem_Ioo
    have := abs_lt.mp hb
    constructor <;> nlinarith [Real.pi_pos]
  unfold In.hEq
  have : 0 < x.outerDiameter / 2 - x.bodyHeight / 2 := by linarith
  positivity

/-- … and a base body thicker than the outer diameter a negative one -/
theorem hEq_neg (x : In) (hd : 0 < x.ribDistance) (hw : 0 < x.ribWidth) (hb : |x.ribAngle| < 90)
    (hD : x.outerDiameter < x.bodyHeight) : x.hEq < 0 := by
  have hcos : 0 < Real.cos (x.ribAngle * (Real.pi / 180)) := by
    apply Real.cos_pos_of_mem_Ioo
    have := abs_lt.mp hb
    constructor <;> nlinarith [Real.pi_pos]
  unfold In.hEq
  have h1 : x.outerDiameter / 2 - x.bodyHeight / 2 < 0 := by linarith
  have h2 : 0 < x.ribWidth / Real.cos (x.ribAngle * (Real.pi / 180)) / x.ribDistance := by positivity
  exact mul_neg_of_neg_of_pos h1 h2

/-- the sign of `r2` is the sign of `hEq` -/
theorem r2_pos (x : In) (h : 0 < x.hEq) : 0 < x.r2 := by
  unfold In.r2; positivity

theorem r2_neg (x : In) (h : x.hEq < 0) : x.r2 < 0 := by
  unfold In.r2
  apply div_neg_of_pos_of_neg
  · have := sq_pos_of_neg h; positivity
  · linarith

end GrooveWFRibbed
