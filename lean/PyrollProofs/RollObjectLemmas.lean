import PyrollModel.RollObject
/-
  C10 - lemmas about the model of what a `Roll` object remembers between two calls (`PyrollModel/RollObject.lean`), for
  ARBITRARY tables that pass the static check `RollTables.sound`: in every life of the object in which the groove contour
  is not replaced - or any life at all, when `reevaluate_cache` empties the private attributes BEFORE the hook values are
  re-evaluated (`RollTables.emptiesFirst`; emptying them again afterwards does not matter) - every answer is computed from
  the data the roll has at the time of the call.  Core Lean only.
-/
namespace RollObject

theorem lookupS_mem {β : Type} (l : List (String × β)) (n : String) (v : β) (h : lookupS l n = some v) : (n, v) ∈ l := by
  induction l with
  | nil => simp [lookupS] at h
  | cons e r ih =>
    unfold lookupS at h
    split at h
    · rename_i he
      cases e with
      | mk a b =>
        simp only at he
        simp only [Option.some.injEq] at h
        subst he; subst h
        exact List.mem_cons_self
    · exact List.mem_cons_of_mem _ (ih h)

theorem firstStale_eq (d : Ver) (l : List (String × Ver)) (h : ∀ e ∈ l, e.2 = d) : firstStale d l = d := by
  induction l with
  | nil => rfl
  | cons e r ih =>
    unfold firstStale
    rw [if_pos (h e List.mem_cons_self)]
    exact ih (fun e' he' => h e' (List.mem_cons_of_mem _ he'))

/-- what the static check and the statement order of `reevaluate_cache` say about the private attribute `f` of a remembering
    method: it is emptied before the hook values are re-evaluated, or afterwards and then depends on the contour only; and
    when `reevaluate_cache` empties everything first, so it does `f` -/
def Kept (T : RollTables) (f : String) : Prop :=
  (T.resetsBefore.contains f = true ∨ (T.resetsAfter.contains f = true ∧ T.depOf f = .shape))
    ∧ (T.emptiesFirst = true → T.resetsBefore.contains f = true)

/-- what `sound` says about one remembering method -/
theorem sound_memo (T : RollTables) (hs : T.sound = true) (m f : String) (h : lookupS T.methods m = some (.memo f)) :
    Kept T f := by
  have hm := lookupS_mem _ _ _ h
  unfold RollTables.sound at hs
  rw [Bool.and_eq_true] at hs
  have h2 := (List.all_eq_true.mp hs.2) _ hm
  simp only [Bool.and_eq_true, Bool.or_eq_true, beq_iff_eq] at h2
  refine ⟨h2.2, fun hE => ?_⟩
  unfold RollTables.emptiesFirst at hE
  exact (List.all_eq_true.mp hE) _ hm

/-- every remembered value and every cached hook value answers for the data the roll has now -/
def Inv (T : RollTables) (o : RollObj) : Prop :=
  (∀ e ∈ o.store, Kept T e.1 ∧ (T.depOf e.1).eff e.2 o.data = o.data) ∧
  (∀ e ∈ o.cache, e.2 = o.data)

theorem callMemo_inv (T : RollTables) (o : RollObj) (f : String) (hi : Inv T o) (hf : Kept T f) :
    Inv T (callMemo T o f).1 ∧ (callMemo T o f).2 = o.data ∧ (callMemo T o f).1.data = o.data
      ∧ (callMemo T o f).1.cache = o.cache := by
  unfold callMemo
  split
  · rename_i v hv
    have := hi.1 _ (lookupS_mem _ _ _ hv)
    exact ⟨hi, this.2, rfl, rfl⟩
  · refine ⟨⟨?_, hi.2⟩, rfl, rfl, rfl⟩
    intro e he
    rcases List.mem_cons.mp he with rfl | he
    · refine ⟨hf, ?_⟩
      cases T.depOf f <;> rfl
    · exact hi.1 e he

theorem readHook_inv (T : RollTables) (hs : T.sound = true) (o : RollObj) (h m : String) (hi : Inv T o) :
    Inv T (readHook T o h m).1 ∧ (readHook T o h m).2 = o.data ∧ (readHook T o h m).1.data = o.data := by
  unfold readHook
  split
  · rename_i v hv
    exact ⟨hi, hi.2 _ (lookupS_mem _ _ _ hv), rfl⟩
  · split
    · rename_i f hm
      have hc := callMemo_inv T o f hi (sound_memo T hs m f hm)
      refine ⟨⟨hc.1.1, ?_⟩, hc.2.1, hc.2.2.1⟩
      intro e he
      rcases List.mem_cons.mp he with rfl | he
      · exact hc.2.1.trans hc.2.2.1.symm
      · exact hc.1.2 e he
    · refine ⟨⟨hi.1, ?_⟩, rfl, rfl⟩
      intro e he
      rcases List.mem_cons.mp he with rfl | he
      · rfl
      · exact hi.2 e he

theorem readHooks_inv (T : RollTables) (hs : T.sound = true) (l : List (String × String)) :
    ∀ o : RollObj, Inv T o → Inv T (readHooks T l o) ∧ (readHooks T l o).data = o.data := by
  induction l with
  | nil => intro o hi; exact ⟨hi, rfl⟩
  | cons hm r ih =>
    intro o hi
    have hc := readHook_inv T hs o hm.1 hm.2 hi
    have := ih _ hc.1
    unfold readHooks
    exact ⟨this.1, this.2.trans hc.2.2⟩

theorem callMethod_inv (T : RollTables) (hs : T.sound = true) (o : RollObj) (m : String) (hi : Inv T o) :
    Inv T (callMethod T o m).1 ∧ (callMethod T o m).2 = o.data ∧ (callMethod T o m).1.data = o.data := by
  unfold callMethod
  split
  · rename_i f hm
    have hc := callMemo_inv T o f hi (sound_memo T hs m f hm)
    exact ⟨hc.1, hc.2.1, hc.2.2.1⟩
  · have hr := readHooks_inv T hs T.hookReads o hi
    refine ⟨hr.1, ?_, hr.2⟩
    exact firstStale_eq _ _ (fun e he => (hr.1.2 e he).trans hr.2)

theorem refresh_inv (T : RollTables) (hs : T.sound = true) (was : List (String × Ver)) (l : List (String × String)) :
    ∀ o : RollObj, Inv T o → Inv T (refresh T was l o) ∧ (refresh T was l o).data = o.data := by
  induction l with
  | nil => intro o hi; exact ⟨hi, rfl⟩
  | cons hm r ih =>
    intro o hi
    unfold refresh
    split
    · exact ih o hi
    · have hc := readHook_inv T hs o hm.1 hm.2 hi
      have := ih _ hc.1
      exact ⟨this.1, this.2.trans hc.2.2⟩

theorem emptyFields_inv (T : RollTables) (fs : List String) (o : RollObj) (hi : Inv T o) : Inv T (emptyFields fs o) :=
  ⟨fun e he => hi.1 e (List.mem_filter.mp he).1, hi.2⟩

/-- `reevaluate_cache()` after a change of the data to `d'` that leaves the contour as it is - or after ANY change, when
    everything the remembering methods keep is emptied before the hook values are re-evaluated -/
theorem reevaluate_inv (T : RollTables) (hs : T.sound = true) (o : RollObj) (d' : Ver) (hi : Inv T o)
    (hd : T.emptiesFirst = false → d'.shape = o.data.shape) :
    Inv T (reevaluate T { o with data := d' }) ∧ (reevaluate T { o with data := d' }).data = d' := by
  unfold reevaluate
  have hi' : Inv T { emptyFields T.resetsBefore { o with data := d' } with cache := [] } := by
    refine ⟨?_, by intro e he; cases he⟩
    intro e he
    simp only [emptyFields] at he
    have hmem := List.mem_filter.mp he
    have h := hi.1 e hmem.1
    have hnb : T.resetsBefore.contains e.1 = false := by simpa using hmem.2
    refine ⟨h.1, ?_⟩
    rcases h.1.1 with hb | ⟨_, hdep⟩
    · rw [hb] at hnb; cases hnb
    · -- `e.1` survives the first emptying: it is emptied afterwards only, depends on the contour only, and the contour
      -- has not changed
      have hE : T.emptiesFirst = false := by
        cases hE : T.emptiesFirst with
        | false => rfl
        | true => have := h.1.2 hE; rw [this] at hnb; cases hnb
      have h3 := h.2
      rw [hdep] at h3 ⊢
      simp only [Dep.eff] at h3 ⊢
      have hsh : e.2.shape = o.data.shape := by
        have := congrArg Ver.shape h3
        simpa using this
      cases d' with
      | mk s r =>
        simp only at hd ⊢
        rw [hsh, ← hd hE]
        rfl
  have h := refresh_inv T hs o.cache T.hookReads _ hi'
  exact ⟨emptyFields_inv T _ _ h.1, h.2⟩

theorem rollStep_inv (T : RollTables) (hs : T.sound = true) (o : RollObj) (op : RollOp) (hi : Inv T o)
    (hop : T.emptiesFirst = false → op ≠ .changeShape) :
    Inv T (rollStep T o op).1 ∧ ∀ a, (rollStep T o op).2 = some a → a.1 = a.2 := by
  cases op with
  | changeRest =>
    have h := reevaluate_inv T hs o { o.data with rest := o.data.rest + 1 } hi (fun _ => rfl)
    exact ⟨h.1, by intro a ha; cases ha⟩
  | changeShape =>
    have hr : T.emptiesFirst = false → False := fun h => hop h rfl
    have h := reevaluate_inv T hs o { o.data with shape := o.data.shape + 1 } hi (fun h => (hr h).elim)
    exact ⟨h.1, by intro a ha; cases ha⟩
  | call n =>
    simp only [rollStep]
    split
    · rename_i m hm
      have hc := readHook_inv T hs o n m hi
      refine ⟨hc.1, ?_⟩
      intro a ha
      simp only [Option.some.injEq] at ha
      subst ha
      exact hc.2.1
    · have hc := callMethod_inv T hs o n hi
      refine ⟨hc.1, ?_⟩
      intro a ha
      simp only [Option.some.injEq] at ha
      subst ha
      exact hc.2.1

/-- a used roll answers like a new one: every answer of every life is computed from the data the roll has at the time of
    the call - provided the groove contour is not replaced while `reevaluate_cache` leaves something a remembering method
    keeps in place until after the hook values were re-evaluated -/
theorem rollRun_fresh (T : RollTables) (hs : T.sound = true) (ops : List RollOp) :
    ∀ o : RollObj, Inv T o → (T.emptiesFirst = false → RollOp.changeShape ∉ ops) →
      ∀ a ∈ rollRun T o ops, a.1 = a.2 := by
  induction ops with
  | nil => intro o _ _ a ha; cases ha
  | cons op r ih =>
    intro o hi hop a ha
    have hstep := rollStep_inv T hs o op hi (fun h heq => hop h (heq ▸ List.mem_cons_self))
    have hr := ih (rollStep T o op).1 hstep.1 (fun h hmem => hop h (List.mem_cons_of_mem _ hmem))
    unfold rollRun at ha
    split at ha
    · rename_i b hb
      rcases List.mem_cons.mp ha with rfl | ha
      · exact hstep.2 _ hb
      · exact hr a ha
    · exact hr a ha

/-- ... and with everything emptied first: EVERY life, groove replacements included -/
theorem rollRun_fresh_of_emptiesFirst (T : RollTables) (hs : T.sound = true) (hE : T.emptiesFirst = true)
    (ops : List RollOp) (o : RollObj) (hi : Inv T o) : ∀ a ∈ rollRun T o ops, a.1 = a.2 :=
  rollRun_fresh T hs ops o hi (fun h => by rw [hE] at h; cases h)

theorem inv_new (T : RollTables) : Inv T {} := by
  constructor
  · intro e he; cases he
  · intro e he; cases he

end RollObject
