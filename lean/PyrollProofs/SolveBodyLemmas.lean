import PyrollModel.SolveBody
import Mathlib.Tactic

/-!
Helper lemmas about `PyrollModel/SolveBody.lean` (C05): a vector concatenated from parts of matching lengths pairs up part by
part; the geometry memo.
-/

namespace SolveBody

variable {α : Type}

theorem vector_length_eq (parts : List String) (cur old : String → List α)
    (hlen : ∀ h ∈ parts, (cur h).length = (old h).length) :
    (vector parts cur).length = (vector parts old).length := by
  induction parts with
  | nil => rfl
  | cons h t ih =>
    simp only [vector, List.flatMap_cons, List.length_append] at ih ⊢
    rw [hlen h (by simp), ih fun x hx => hlen x (by simp [hx])]

/-- the pairs of two vectors built from the same parts = the pairs of the parts, one part after the other -/
theorem zip_vector (parts : List String) (cur old : String → List α)
    (hlen : ∀ h ∈ parts, (cur h).length = (old h).length) :
    (vector parts cur).zip (vector parts old) = parts.flatMap fun h => (cur h).zip (old h) := by
  induction parts with
  | nil => rfl
  | cons h t ih =>
    simp only [vector, List.flatMap_cons] at ih ⊢
    rw [List.zip_append (hlen h (by simp)), ih fun x hx => hlen x (by simp [hx])]

theorem mem_zip_vector (parts : List String) (cur old : String → List α)
    (hlen : ∀ h ∈ parts, (cur h).length = (old h).length) (h : String) (hh : h ∈ parts) (q : α × α)
    (hq : q ∈ (cur h).zip (old h)) : q ∈ (vector parts cur).zip (vector parts old) := by
  rw [zip_vector parts cur old hlen]
  exact List.mem_flatMap.mpr ⟨h, hh, hq⟩

/-! ### geometry memos -/

variable {G ρ γ : Type}

/-- the abstract state over-approximates the concrete one -/
def Covers (bR : G → ρ) (s : MemoState G ρ γ) (t : Bool × Tag) : Prop :=
  (t.1 = false → s.pm = none) ∧ (t.2 = .none → s.rm = none) ∧ (t.2 = .good → s.rm = none ∨ s.rm = some (bR s.rv))

theorem covers_top (bR : G → ρ) (s : MemoState G ρ γ) : Covers bR s (true, .bad) := by
  refine ⟨?_, ?_, ?_⟩ <;> intro h <;> simp at h

theorem covers_step (bR : G → ρ) (bP : G → ρ → γ) (i : BodyIn G) (s : MemoState G ρ γ) (t : Bool × Tag) (e : Eff)
    (h : Covers bR s t) : Covers bR (stepEff bR bP i s e) (stepAbs t e) := by
  obtain ⟨p, r⟩ := t
  obtain ⟨h1, h2, h3⟩ := h
  cases e with
  | recomputeRoll => refine ⟨?_, ?_, ?_⟩ <;> simp_all [stepEff, stepAbs]
  | recomputePass =>
    cases r with
    | bad => refine ⟨?_, ?_, ?_⟩ <;> simp [stepEff, stepAbs]
    | none =>
      have := h2 rfl
      refine ⟨?_, ?_, ?_⟩ <;> simp [stepEff, stepAbs, this]
    | good =>
      rcases h3 rfl with hr | hr <;> refine ⟨?_, ?_, ?_⟩ <;> simp [stepEff, stepAbs, hr]
  | clearPass => refine ⟨?_, ?_, ?_⟩ <;> simp_all [stepEff, stepAbs]
  | clearRoll => refine ⟨?_, ?_, ?_⟩ <;> simp_all [stepEff, stepAbs]
  | other => exact ⟨h1, h2, h3⟩

theorem covers_foldl (bR : G → ρ) (bP : G → ρ → γ) (i : BodyIn G) (prog : List Eff) (s : MemoState G ρ γ) (t : Bool × Tag)
    (h : Covers bR s t) : Covers bR (prog.foldl (stepEff bR bP i) s) (prog.foldl stepAbs t) := by
  induction prog generalizing s t with
  | nil => exact h
  | cons e rest ih => exact ih _ _ (covers_step bR bP i s t e h)

/-- a `reevaluate_cache` that satisfies the predicate: afterwards, whatever it found and whatever the recomputations built,
    there is no pass memo and the roll memo - if any - is the contour line of the roll's current values -/
theorem no_stale_memo_after (bR : G → ρ) (bP : G → ρ → γ) (i : BodyIn G) (prog : List Eff)
    (h : leavesNoStaleMemo prog = true) (s : MemoState G ρ γ) :
    (prog.foldl (stepEff bR bP i) s).pm = none ∧
    (prog.foldl (stepEff bR bP i) s).rm.getD (bR (prog.foldl (stepEff bR bP i) s).rv) = bR (prog.foldl (stepEff bR bP i) s).rv := by
  have hc := covers_foldl bR bP i prog s _ (covers_top bR s)
  simp only [leavesNoStaleMemo, survivors, Bool.and_eq_true, beq_iff_eq, bne_iff_ne, ne_eq] at h
  obtain ⟨hp, hr⟩ := h
  obtain ⟨c1, c2, c3⟩ := hc
  refine ⟨c1 hp, ?_⟩
  cases ht : (prog.foldl stepAbs (true, Tag.bad)).2 with
  | bad => exact absurd ht hr
  | none => rw [c2 ht]; rfl
  | good => rcases c3 ht with hx | hx <;> rw [hx] <;> rfl

/-- consequence for the loop: every body uses the pass contour built from the values the roll and the pass hold after ITS
    `reevaluate_cache`, whatever the memos held before and whatever was built in the middle of a recomputation -/
theorem usedGeometries_current (bR : G → ρ) (bP : G → ρ → γ) (prog : List Eff) (h : leavesNoStaleMemo prog = true)
    (is : List (BodyIn G)) (s : MemoState G ρ γ) :
    ∀ t ∈ usedGeometries bR bP prog is s, t.1 = bP t.2.2.2 (bR t.2.2.1) ∧ t.2.1 = bR t.2.2.1 := by
  induction is generalizing s with
  | nil => intro t ht; simp [usedGeometries] at ht
  | cons i rest ih =>
    intro t ht
    simp only [usedGeometries, List.mem_cons] at ht
    obtain ⟨h1, h2⟩ := no_stale_memo_after bR bP i prog h s
    rcases ht with rfl | ht
    · simp only [h1, h2, Option.getD_none, and_self]
    · exact ih _ t ht

theorem foldl_keeps_pass (bR : G → ρ) (bP : G → ρ → γ) (i : BodyIn G) (prog : List Eff) (hp : Eff.clearPass ∉ prog)
    (c : γ) (s : MemoState G ρ γ) (hs : s.pm = some c) : (prog.foldl (stepEff bR bP i) s).pm = some c := by
  induction prog generalizing s with
  | nil => exact hs
  | cons e t ih =>
    have he : e ≠ Eff.clearPass := fun h => hp (h ▸ List.mem_cons_self)
    have ht : Eff.clearPass ∉ t := fun h => hp (List.mem_cons_of_mem _ h)
    refine ih ht _ ?_
    cases e <;> simp_all [stepEff]

/-- a `reevaluate_cache` that never clears the pass memo: once a pass contour exists all later bodies use it -/
theorem usedGeometries_stale (bR : G → ρ) (bP : G → ρ → γ) (prog : List Eff) (hp : Eff.clearPass ∉ prog)
    (is : List (BodyIn G)) (c : γ) (s : MemoState G ρ γ) (hs : s.pm = some c) :
    ∀ t ∈ usedGeometries bR bP prog is s, t.1 = c := by
  induction is generalizing s with
  | nil => intro t ht; simp [usedGeometries] at ht
  | cons i rest ih =>
    intro t ht
    simp only [usedGeometries, List.mem_cons] at ht
    have hk := foldl_keeps_pass bR bP i prog hp c s hs
    rcases ht with rfl | ht
    · simp [hk]
    · refine ih _ ?_ t ht
      simp [hk]

end SolveBody
