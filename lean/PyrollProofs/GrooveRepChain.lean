import PyrollModel.Gen.C10
import PyrollProofs.RealNum

/-! Helper lemmas for C10 about the GENERATED tables of `Gen/C10.lean` over ℝ: closed forms of the junction chain (one
step each), the contour-line functions at the junctions, the translated `local_depth` on CLOSED pieces (half-open
selection + agreement at the outer junction, by downward induction from the face), sample bounds. -/

open GrooveRep Gen.C10

namespace GrooveRepC

theorem eval_congr (ρ ρ' : String → ℝ) : ∀ (e : Expr), (∀ n ∈ e.vars, ρ n = ρ' n) → Expr.eval ρ e = Expr.eval ρ' e := by
  intro e
  induction e with
  | var n => intro h; exact h n (by simp [Expr.vars])
  | nat n => intro _; rfl
  | dec m k => intro _; rfl
  | pi => intro _; rfl
  | add a b iha ihb | sub a b iha ihb | mul a b iha ihb | div a b iha ihb =>
    intro h
    simp only [Expr.eval]
    rw [iha (fun n hn => h n (by simp [Expr.vars, hn])), ihb (fun n hn => h n (by simp [Expr.vars, hn]))]
  | neg a ih | pow a k ih | sqrt a ih | sin a ih | cos a ih | tan a ih | asin a ih | acos a ih | atan a ih | log a ih
    | exp a ih | abs a ih =>
    intro h
    simp only [Expr.eval]
    rw [ih (fun n hn => h n (by simpa [Expr.vars] using hn))]

variable (σ : String → ℝ)

theorem eval_setZ (e : Expr) (v : ℝ) (h : "z" ∉ e.vars) : Expr.eval (setVar σ "z" v) e = Expr.eval σ e := by
  apply eval_congr
  intro n hn
  have : n ≠ "z" := fun hz => h (hz ▸ hn)
  simp [setVar, this]

example : "z" ∉ z12.vars := by decide
example : "z" ∉ z12.vars := by simp [Expr.vars, z12, z1, z2, l12, alpha1]

theorem fn_r1_eval (v : ℝ) : Expr.eval (setVar σ "z" v) fn_r1_contour_line
    = Expr.eval σ y12 - Real.sqrt (σ "r1" ^ 2 - (v - Expr.eval σ z12) ^ 2) := by
  simp only [fn_r1_contour_line, Expr.eval, eval_setZ σ y12 v (by decide), eval_setZ σ z12 v (by decide),
    PyNum.sqrt_real, PyNum.npow_real']
  simp [setVar]

theorem sqrt_circle (r s c : ℝ) (hr : 0 ≤ r) (hc : 0 ≤ c) (h : s ^ 2 + c ^ 2 = 1) :
    Real.sqrt (r ^ 2 - (r * s) ^ 2) = r * c := by
  have : r ^ 2 - (r * s) ^ 2 = (r * c) ^ 2 := by linear_combination (-(r ^ 2)) * h
  rw [this, Real.sqrt_sq (mul_nonneg hr hc)]

theorem sc (x : ℝ) : Real.sin x ^ 2 + Real.cos x ^ 2 = 1 := Real.sin_sq_add_cos_sq x

/-! ### the contour-line functions at an arbitrary abscissa `v` -/

theorem fn_r2_eval (v : ℝ) : Expr.eval (setVar σ "z" v) fn_r2_contour_line
    = Expr.eval σ y11 + Real.sqrt (σ "r2" ^ 2 - (v - Expr.eval σ z11) ^ 2) := by
  simp only [fn_r2_contour_line, Expr.eval, eval_setZ σ y11 v (by decide), eval_setZ σ z11 v (by decide),
    PyNum.sqrt_real, PyNum.npow_real']
  simp [setVar]

theorem fn_r3_eval (v : ℝ) : Expr.eval (setVar σ "z" v) fn_r3_contour_line
    = Expr.eval σ y10 + Real.sqrt (σ "r3" ^ 2 - (v - Expr.eval σ z10) ^ 2) := by
  simp only [fn_r3_contour_line, Expr.eval, eval_setZ σ y10 v (by decide), eval_setZ σ z10 v (by decide),
    PyNum.sqrt_real, PyNum.npow_real']
  simp [setVar]

theorem fn_r4_eval (v : ℝ) : Expr.eval (setVar σ "z" v) fn_r4_contour_line
    = Expr.eval σ y8 - Real.sqrt (σ "r4" ^ 2 - (v - Expr.eval σ z8) ^ 2) := by
  simp only [fn_r4_contour_line, Expr.eval, eval_setZ σ y8 v (by decide), eval_setZ σ z8 v (by decide),
    PyNum.sqrt_real, PyNum.npow_real']
  simp [setVar]

theorem fn_flank_eval (v : ℝ) : Expr.eval (setVar σ "z" v) fn_flank_contour_line
    = Expr.eval σ y3 - Real.tan (σ "flank_angle") * (v - Expr.eval σ z3) := by
  simp only [fn_flank_contour_line, Expr.eval, eval_setZ σ y3 v (by decide), eval_setZ σ z3 v (by decide),
    PyNum.tan_real]
  simp [setVar]

theorem fn_ground_eval (v : ℝ) : Expr.eval (setVar σ "z" v) fn_ground_contour_line = σ "depth" - σ "indent" := by
  simp only [fn_ground_contour_line, Expr.eval, PyNum.nat_real]
  simp [setVar]

theorem fn_face_eval (v : ℝ) : Expr.eval (setVar σ "z" v) fn_face_contour_line
    = Real.tan (σ "pad_angle") * (v - Expr.eval σ z2) := by
  simp only [fn_face_contour_line, Expr.eval, eval_setZ σ z2 v (by decide), PyNum.tan_real]
  simp [setVar]

/-! ### one step of the junction chain each -/

theorem e_z1 : Expr.eval σ z1 = Expr.eval σ z2 + Expr.eval σ l12 * Real.cos (σ "pad_angle") := by
  simp only [z1, Expr.eval, PyNum.cos_real]
theorem e_y1 : Expr.eval σ y1 = Expr.eval σ l12 * Real.sin (σ "pad_angle") := by
  simp only [y1, Expr.eval, PyNum.sin_real]
theorem e_z0 : Expr.eval σ z0 = Expr.eval σ z1 + σ "pad" * Real.cos (σ "pad_angle") := by
  simp only [z0, Expr.eval, PyNum.cos_real]
theorem e_y0 : Expr.eval σ y0 = Expr.eval σ y1 + σ "pad" * Real.sin (σ "pad_angle") := by
  simp only [y0, Expr.eval, PyNum.sin_real]
theorem e_z12 : Expr.eval σ z12 = Expr.eval σ z1 - σ "r1" * Real.sin (σ "pad_angle") := by
  simp only [z12, Expr.eval, PyNum.sin_real]
theorem e_y12 : Expr.eval σ y12 = Expr.eval σ y1 + σ "r1" * Real.cos (σ "pad_angle") := by
  simp only [y12, Expr.eval, PyNum.cos_real]
theorem e_z3 : Expr.eval σ z3 = Expr.eval σ z12 - σ "r1" * Real.sin (σ "flank_angle") := by
  simp only [z3, Expr.eval, PyNum.sin_real]
theorem e_y3 : Expr.eval σ y3 = Expr.eval σ y12 - σ "r1" * Real.cos (σ "flank_angle") := by
  simp only [y3, Expr.eval, PyNum.cos_real]
theorem e_z9 : Expr.eval σ z9 = 0 := by simp only [z9, Expr.eval, PyNum.nat_real, Nat.cast_zero]
theorem e_y9 : Expr.eval σ y9 = σ "depth" - σ "indent" := by simp only [y9, Expr.eval]
theorem e_y7 : Expr.eval σ y7 = Expr.eval σ y9 := by simp only [y7]
theorem e_z8 : Expr.eval σ z8 = Expr.eval σ z7 := by simp only [z8]
theorem e_y8 : Expr.eval σ y8 = Expr.eval σ y9 + σ "r4" := by simp only [y8, Expr.eval]
theorem e_z6 : Expr.eval σ z6 = Expr.eval σ z8 + σ "r4" * Real.sin (σ "alpha4") := by
  simp only [z6, Expr.eval, PyNum.sin_real]
theorem e_y6 : Expr.eval σ y6 = Expr.eval σ y8 - σ "r4" * Real.cos (σ "alpha4") := by
  simp only [y6, Expr.eval, PyNum.cos_real]

/-- the angle `alpha3 / 2 + beta` of the code (`= alpha4`) -/
noncomputable def angA (σ : String → ℝ) : ℝ := σ "alpha3" / 2 + (σ "alpha4" - σ "alpha3" / 2)
/-- the angle `alpha3 / 2 - beta` of the code (`= alpha3 - alpha4`) -/
noncomputable def angB (σ : String → ℝ) : ℝ := σ "alpha3" / 2 - (σ "alpha4" - σ "alpha3" / 2)
/-- the code's `gamma` (`= π/2 − flank_angle`) -/
noncomputable def angG (σ : String → ℝ) : ℝ :=
  Real.pi / 2 - (σ "flank_angle" + σ "alpha4" - σ "alpha3") - σ "alpha3" + σ "alpha4"

theorem e_z10 : Expr.eval σ z10 = Expr.eval σ z6 + σ "r3" * Real.sin (angA σ) := by
  simp only [z10, beta, Expr.eval, PyNum.sin_real, PyNum.nat_real, angA, Nat.cast_ofNat]
theorem e_y10 : Expr.eval σ y10 = Expr.eval σ y6 - σ "r3" * Real.cos (angA σ) := by
  simp only [y10, beta, Expr.eval, PyNum.cos_real, PyNum.nat_real, angA, Nat.cast_ofNat]
theorem e_z5 : Expr.eval σ z5 = Expr.eval σ z10 + σ "r3" * Real.sin (angB σ) := by
  simp only [z5, beta, Expr.eval, PyNum.sin_real, PyNum.nat_real, angB, Nat.cast_ofNat]
theorem e_y5 : Expr.eval σ y5 = Expr.eval σ y10 + σ "r3" * Real.cos (angB σ) := by
  simp only [y5, beta, Expr.eval, PyNum.cos_real, PyNum.nat_real, angB, Nat.cast_ofNat]
theorem e_z11 : Expr.eval σ z11 = Expr.eval σ z10 + (σ "r3" - σ "r2") * Real.sin (angB σ) := by
  simp only [z11, beta, Expr.eval, PyNum.sin_real, PyNum.nat_real, angB, Nat.cast_ofNat]
theorem e_y11 : Expr.eval σ y11 = Expr.eval σ y10 + (σ "r3" - σ "r2") * Real.cos (angB σ) := by
  simp only [y11, beta, Expr.eval, PyNum.cos_real, PyNum.nat_real, angB, Nat.cast_ofNat]
theorem e_z4 : Expr.eval σ z4 = Expr.eval σ z11 + σ "r2" * Real.cos (angG σ) := by
  simp only [z4, gamma, alpha2, Expr.eval, PyNum.cos_real, PyNum.nat_real, PyNum.pi_real, angG, Nat.cast_ofNat]
theorem e_y4 : Expr.eval σ y4 = Expr.eval σ y11 + σ "r2" * Real.sin (angG σ) := by
  simp only [y4, gamma, alpha2, Expr.eval, PyNum.sin_real, PyNum.nat_real, PyNum.pi_real, angG, Nat.cast_ofNat]

/-! ### the piece functions at the junctions -/

theorem face_at_z1 (hc : Real.cos (σ "pad_angle") ≠ 0) :
    Expr.eval (setVar σ "z" (Expr.eval σ z1)) fn_face_contour_line = Expr.eval σ y1 := by
  rw [fn_face_eval, e_z1, e_y1, Real.tan_eq_sin_div_cos]; field_simp; ring

theorem face_at_z0 (hc : Real.cos (σ "pad_angle") ≠ 0) :
    Expr.eval (setVar σ "z" (Expr.eval σ z0)) fn_face_contour_line = Expr.eval σ y0 := by
  rw [fn_face_eval, e_z0, e_y0, e_z1, e_y1, Real.tan_eq_sin_div_cos]; field_simp; ring

theorem r1_at_z1 (hr : 0 ≤ σ "r1") (hc : 0 ≤ Real.cos (σ "pad_angle")) :
    Expr.eval (setVar σ "z" (Expr.eval σ z1)) fn_r1_contour_line = Expr.eval σ y1 := by
  rw [fn_r1_eval, e_z12, e_y12]
  rw [show Expr.eval σ z1 - (Expr.eval σ z1 - σ "r1" * Real.sin (σ "pad_angle")) = σ "r1" * Real.sin (σ "pad_angle") by ring,
    sqrt_circle _ _ _ hr hc (sc _)]
  ring

theorem r1_at_z3 (hr : 0 ≤ σ "r1") (hc : 0 ≤ Real.cos (σ "flank_angle")) :
    Expr.eval (setVar σ "z" (Expr.eval σ z3)) fn_r1_contour_line = Expr.eval σ y3 := by
  rw [fn_r1_eval, e_z3, e_y3]
  rw [show Expr.eval σ z12 - σ "r1" * Real.sin (σ "flank_angle") - Expr.eval σ z12
      = σ "r1" * (-Real.sin (σ "flank_angle")) by ring,
    sqrt_circle _ _ _ hr hc (by rw [neg_sq]; exact sc _)]

theorem flank_at_z3 : Expr.eval (setVar σ "z" (Expr.eval σ z3)) fn_flank_contour_line = Expr.eval σ y3 := by
  rw [fn_flank_eval]; ring

theorem r2_at_z4 (hr : 0 ≤ σ "r2") (hc : 0 ≤ Real.sin (angG σ)) :
    Expr.eval (setVar σ "z" (Expr.eval σ z4)) fn_r2_contour_line = Expr.eval σ y4 := by
  rw [fn_r2_eval, e_z4, e_y4]
  rw [show Expr.eval σ z11 + σ "r2" * Real.cos (angG σ) - Expr.eval σ z11 = σ "r2" * Real.cos (angG σ) by ring,
    sqrt_circle _ _ _ hr hc (by rw [add_comm]; exact sc _)]

theorem r2_at_z5 (hr : 0 ≤ σ "r2") (hc : 0 ≤ Real.cos (angB σ)) :
    Expr.eval (setVar σ "z" (Expr.eval σ z5)) fn_r2_contour_line = Expr.eval σ y5 := by
  rw [fn_r2_eval, e_z5, e_y5, e_z11, e_y11]
  rw [show Expr.eval σ z10 + σ "r3" * Real.sin (angB σ) - (Expr.eval σ z10 + (σ "r3" - σ "r2") * Real.sin (angB σ))
      = σ "r2" * Real.sin (angB σ) by ring, sqrt_circle _ _ _ hr hc (sc _)]
  ring

theorem r3_at_z5 (hr : 0 ≤ σ "r3") (hc : 0 ≤ Real.cos (angB σ)) :
    Expr.eval (setVar σ "z" (Expr.eval σ z5)) fn_r3_contour_line = Expr.eval σ y5 := by
  rw [fn_r3_eval, e_z5, e_y5]
  rw [show Expr.eval σ z10 + σ "r3" * Real.sin (angB σ) - Expr.eval σ z10 = σ "r3" * Real.sin (angB σ) by ring,
    sqrt_circle _ _ _ hr hc (sc _)]

theorem r3_at_z6 (hr : 0 ≤ σ "r3") (hc : 0 ≤ Real.cos (angA σ)) :
    Expr.eval (setVar σ "z" (Expr.eval σ z6)) fn_r3_contour_line = Expr.eval σ y6 := by
  rw [fn_r3_eval, e_z10, e_y10]
  rw [show Expr.eval σ z6 - (Expr.eval σ z6 + σ "r3" * Real.sin (angA σ)) = σ "r3" * (-Real.sin (angA σ)) by ring,
    sqrt_circle _ _ _ hr hc (by rw [neg_sq]; exact sc _)]
  ring

theorem r4_at_z6 (hr : 0 ≤ σ "r4") (hc : 0 ≤ Real.cos (σ "alpha4")) :
    Expr.eval (setVar σ "z" (Expr.eval σ z6)) fn_r4_contour_line = Expr.eval σ y6 := by
  rw [fn_r4_eval, e_z6, e_y6]
  rw [show Expr.eval σ z8 + σ "r4" * Real.sin (σ "alpha4") - Expr.eval σ z8 = σ "r4" * Real.sin (σ "alpha4") by ring,
    sqrt_circle _ _ _ hr hc (sc _)]

theorem r4_at_z7 (hr : 0 ≤ σ "r4") :
    Expr.eval (setVar σ "z" (Expr.eval σ z7)) fn_r4_contour_line = Expr.eval σ y7 := by
  rw [fn_r4_eval, e_z8, e_y8, e_y7, sub_self]
  rw [show σ "r4" ^ 2 - (0 : ℝ) ^ 2 = σ "r4" ^ 2 by ring, Real.sqrt_sq hr]; ring

theorem ground_at (v : ℝ) : Expr.eval (setVar σ "z" v) fn_ground_contour_line = Expr.eval σ y7 := by
  rw [fn_ground_eval, e_y7, e_y9]

/-! ### the depth function on closed pieces -/

/-- value of a contour-line function at abscissa `v` -/
noncomputable def F (σ : String → ℝ) (e : Expr) (v : ℝ) : ℝ := Expr.eval (setVar σ "z" v) e

/-- the translated `local_depth` -/
noncomputable def D (σ : String → ℝ) (z : ℝ) : ℝ := localDepth depth_abs pieces depth_default σ z

/-- junction order of a well-formed groove: `0 ≤ z7 ≤ z6 ≤ z5 ≤ z4 ≤ z3 ≤ z1 ≤ z0` -/
structure Ordered (σ : String → ℝ) : Prop where
  h7 : 0 ≤ Expr.eval σ z7
  h76 : Expr.eval σ z7 ≤ Expr.eval σ z6
  h65 : Expr.eval σ z6 ≤ Expr.eval σ z5
  h54 : Expr.eval σ z5 ≤ Expr.eval σ z4
  h43 : Expr.eval σ z4 ≤ Expr.eval σ z3
  h31 : Expr.eval σ z3 ≤ Expr.eval σ z1
  h10 : Expr.eval σ z1 ≤ Expr.eval σ z0

/-- adjacent pieces of the depth function take the same value at the junction between them -/
structure JunctionsAgree (σ : String → ℝ) : Prop where
  j7 : F σ fn_ground_contour_line (Expr.eval σ z7) = F σ fn_r4_contour_line (Expr.eval σ z7)
  j6 : F σ fn_r4_contour_line (Expr.eval σ z6) = F σ fn_r3_contour_line (Expr.eval σ z6)
  j5 : F σ fn_r3_contour_line (Expr.eval σ z5) = F σ fn_r2_contour_line (Expr.eval σ z5)
  j4 : F σ fn_r2_contour_line (Expr.eval σ z4) = F σ fn_flank_contour_line (Expr.eval σ z4)
  j3 : F σ fn_flank_contour_line (Expr.eval σ z3) = F σ fn_r1_contour_line (Expr.eval σ z3)
  j1 : F σ fn_r1_contour_line (Expr.eval σ z1) = F σ fn_face_contour_line (Expr.eval σ z1)

theorem D_unfold (z : ℝ) : D σ z =
    piecewise σ |z| pieces (F σ fn_face_contour_line |z|) := by
  simp only [D, localDepth, depth_abs, if_true, depth_default, F, PyNum.abs_real]

/-! ### the argument of the depth function (numeric kind handed over by the caller, conversions read from the source) -/

/-- the C cast `double → integer` (toward zero), on the reals -/
noncomputable instance instPyTruncReal : PyTrunc ℝ where
  trunc x := if 0 ≤ x then ⌊x⌋ else ⌈x⌉

/-- the embedding of the integers (`float(n)`), on the reals -/
@[simp] theorem ofInt_real (n : ℤ) : (ofInt n : ℝ) = n := by
  unfold ofInt
  split_ifs with h
  · rw [PyNum.nat_real, Nat.cast_natAbs, Int.cast_abs, abs_of_neg (by exact_mod_cast h)]; ring
  · rw [PyNum.nat_real, Nat.cast_natAbs, Int.cast_abs, abs_of_nonneg (by exact_mod_cast (not_lt.mp h))]

/-- handed a float, the translated `local_depth` (what it does to its argument included) hands back the float `D σ x`
    (whichever conversions the translator read) -/
theorem localDepthElem_float (x : ℝ) :
    localDepthElem depth_arg_ops pieces depth_default σ (.float x) = .float (D σ x) := by
  simp only [localDepthElem, convElem, depth_arg_ops, List.foldl, ArgOp.onElem, PyScalar.val, storeLike, D, localDepth,
    depth_abs, if_true, PyNum.abs_real]

/-- handed an integer, the translated `local_depth` hands back the float `D σ n` - provided the source converts its argument
    to float (on a source form without the conversion the hypothesis is refuted by `decide`) -/
theorem localDepthElem_int (h : ArgOp.asFloat ∈ depth_arg_ops) (n : ℤ) :
    localDepthElem depth_arg_ops pieces depth_default σ (.int n) = .float (D σ n) := by
  first
  | (simp only [localDepthElem, convElem, depth_arg_ops, List.foldl, ArgOp.onElem, PyScalar.val, storeLike, D, localDepth,
      depth_abs, if_true, PyNum.abs_real, ofInt_real, Nat.cast_natAbs, Int.cast_abs, Int.cast_id]; done)
  | (exact absurd h (by decide))

theorem D_face (o : Ordered σ) (z : ℝ) (h : Expr.eval σ z1 ≤ |z|) : D σ z = F σ fn_face_contour_line |z| := by
  obtain ⟨h7, h76, h65, h54, h43, h31, h10⟩ := o
  rw [D_unfold]
  simp only [pieces, piecewise, pieceCond, PyNum.le, PyNum.lt, Bool.and_eq_true, decide_eq_true_eq, Bool.true_and]
  split_ifs <;> first | rfl | (exfalso; linarith)

/-- half-open selection, then the junction value at the outer end -/
theorem D_r1 (o : Ordered σ) (j : JunctionsAgree σ) (z : ℝ) (h1 : Expr.eval σ z3 ≤ |z|) (h2 : |z| ≤ Expr.eval σ z1) :
    D σ z = F σ fn_r1_contour_line |z| := by
  rcases lt_or_eq_of_le h2 with hlt | heq
  · obtain ⟨h7, h76, h65, h54, h43, h31, h10⟩ := o
    rw [D_unfold]
    simp only [pieces, piecewise, pieceCond, PyNum.le, PyNum.lt, Bool.and_eq_true, decide_eq_true_eq, Bool.true_and]
    split_ifs <;> first | rfl | (exfalso; linarith) | (exfalso; simp_all)
  · rw [D_face σ o z heq.ge, heq, j.j1]

theorem D_flank (o : Ordered σ) (j : JunctionsAgree σ) (z : ℝ) (h1 : Expr.eval σ z4 ≤ |z|) (h2 : |z| ≤ Expr.eval σ z3) :
    D σ z = F σ fn_flank_contour_line |z| := by
  rcases lt_or_eq_of_le h2 with hlt | heq
  · obtain ⟨h7, h76, h65, h54, h43, h31, h10⟩ := o
    rw [D_unfold]
    simp only [pieces, piecewise, pieceCond, PyNum.le, PyNum.lt, Bool.and_eq_true, decide_eq_true_eq, Bool.true_and]
    split_ifs <;> first | rfl | (exfalso; linarith) | (exfalso; simp_all)
  · rw [D_r1 σ o j z heq.ge (heq ▸ o.h31), heq, j.j3]

theorem D_r2 (o : Ordered σ) (j : JunctionsAgree σ) (z : ℝ) (h1 : Expr.eval σ z5 ≤ |z|) (h2 : |z| ≤ Expr.eval σ z4) :
    D σ z = F σ fn_r2_contour_line |z| := by
  rcases lt_or_eq_of_le h2 with hlt | heq
  · obtain ⟨h7, h76, h65, h54, h43, h31, h10⟩ := o
    rw [D_unfold]
    simp only [pieces, piecewise, pieceCond, PyNum.le, PyNum.lt, Bool.and_eq_true, decide_eq_true_eq, Bool.true_and]
    split_ifs <;> first | rfl | (exfalso; linarith) | (exfalso; simp_all)
  · rw [D_flank σ o j z heq.ge (heq ▸ o.h43), heq, j.j4]

theorem D_r3 (o : Ordered σ) (j : JunctionsAgree σ) (z : ℝ) (h1 : Expr.eval σ z6 ≤ |z|) (h2 : |z| ≤ Expr.eval σ z5) :
    D σ z = F σ fn_r3_contour_line |z| := by
  rcases lt_or_eq_of_le h2 with hlt | heq
  · obtain ⟨h7, h76, h65, h54, h43, h31, h10⟩ := o
    rw [D_unfold]
    simp only [pieces, piecewise, pieceCond, PyNum.le, PyNum.lt, Bool.and_eq_true, decide_eq_true_eq, Bool.true_and]
    split_ifs <;> first | rfl | (exfalso; linarith) | (exfalso; simp_all)
  · rw [D_r2 σ o j z heq.ge (heq ▸ o.h54), heq, j.j5]

theorem D_r4 (o : Ordered σ) (j : JunctionsAgree σ) (z : ℝ) (h1 : Expr.eval σ z7 ≤ |z|) (h2 : |z| ≤ Expr.eval σ z6) :
    D σ z = F σ fn_r4_contour_line |z| := by
  rcases lt_or_eq_of_le h2 with hlt | heq
  · obtain ⟨h7, h76, h65, h54, h43, h31, h10⟩ := o
    rw [D_unfold]
    simp only [pieces, piecewise, pieceCond, PyNum.le, PyNum.lt, Bool.and_eq_true, decide_eq_true_eq, Bool.true_and]
    split_ifs <;> first | rfl | (exfalso; linarith) | (exfalso; simp_all)
  · rw [D_r3 σ o j z heq.ge (heq ▸ o.h65), heq, j.j6]

theorem D_ground (o : Ordered σ) (j : JunctionsAgree σ) (z : ℝ) (h2 : |z| ≤ Expr.eval σ z7) :
    D σ z = F σ fn_ground_contour_line |z| := by
  rcases lt_or_eq_of_le h2 with hlt | heq
  · obtain ⟨h7, h76, h65, h54, h43, h31, h10⟩ := o
    rw [D_unfold]
    simp only [pieces, piecewise, pieceCond, PyNum.le, PyNum.lt, Bool.and_eq_true, decide_eq_true_eq, Bool.true_and]
    split_ifs <;> first | rfl | (exfalso; linarith)
  · rw [D_r4 σ o j z heq.ge (heq ▸ o.h76), heq, j.j7]

/-! ### the junction identities from the parameter side conditions -/

theorem angA_eq : angA σ = σ "alpha4" := by unfold angA; ring
theorem angB_eq : angB σ = σ "alpha3" - σ "alpha4" := by unfold angB; ring
theorem angG_eq : angG σ = Real.pi / 2 - σ "flank_angle" := by unfold angG; ring

/-- side conditions on the resolved constructor arguments: radii non-negative, the angles in the quadrant in which the
    arcs are graphs over `z`, and the flank through junction 3 meets the `r2` arc in junction 4 (the groove is closed -
    what the constructors' solvers establish, C04) -/
structure Params (σ : String → ℝ) : Prop where
  r1 : 0 ≤ σ "r1"
  r2 : 0 ≤ σ "r2"
  r3 : 0 ≤ σ "r3"
  r4 : 0 ≤ σ "r4"
  cpad : 0 < Real.cos (σ "pad_angle")
  cflank : 0 ≤ Real.cos (σ "flank_angle")
  c4 : 0 ≤ Real.cos (σ "alpha4")
  c34 : 0 ≤ Real.cos (σ "alpha3" - σ "alpha4")
  closed : Expr.eval σ y4 = Expr.eval σ y3 - Real.tan (σ "flank_angle") * (Expr.eval σ z4 - Expr.eval σ z3)

theorem junctions_agree (p : Params σ) : JunctionsAgree σ where
  j7 := by unfold F; rw [ground_at, r4_at_z7 σ p.r4]
  j6 := by unfold F; rw [r4_at_z6 σ p.r4 p.c4, r3_at_z6 σ p.r3 (by rw [angA_eq]; exact p.c4)]
  j5 := by
    unfold F
    rw [r3_at_z5 σ p.r3 (by rw [angB_eq]; exact p.c34), r2_at_z5 σ p.r2 (by rw [angB_eq]; exact p.c34)]
  j4 := by
    unfold F
    rw [r2_at_z4 σ p.r2 (by rw [angG_eq, Real.sin_pi_div_two_sub]; exact p.cflank), fn_flank_eval, p.closed]
  j3 := by unfold F; rw [flank_at_z3, r1_at_z3 σ p.r1 p.cflank]
  j1 := by unfold F; rw [r1_at_z1 σ p.r1 p.cpad.le, face_at_z1 σ p.cpad.ne']

/-! ### samples -/

theorem mem_linspaceOpen_bounds (a b : ℝ) (n : ℕ) (hba : b ≤ a) (z : ℝ) (hz : z ∈ linspaceOpen a b n) :
    b ≤ z ∧ z ≤ a := by
  simp only [linspaceOpen, List.mem_map, List.mem_range, PyNum.nat_real] at hz
  obtain ⟨k, hk, rfl⟩ := hz
  have hn : (0 : ℝ) < n := by exact_mod_cast (Nat.lt_of_le_of_lt (Nat.zero_le k) hk)
  have hkn : (k : ℝ) ≤ n := by exact_mod_cast hk.le
  have hk0 : (0 : ℝ) ≤ k := Nat.cast_nonneg k
  have e : (k : ℝ) * ((b - a) / n) + a = a - (k / n) * (a - b) := by field_simp; ring
  have h1 : (0 : ℝ) ≤ k / n := div_nonneg hk0 hn.le
  have h2 : (k : ℝ) / n ≤ 1 := by rw [div_le_one hn]; exact hkn
  rw [e]
  constructor <;> nlinarith [mul_nonneg h1 (sub_nonneg.mpr hba), mul_le_mul_of_nonneg_right h2 (sub_nonneg.mpr hba)]

end GrooveRepC
