import PyrollProofs.HeapLemmas

/-! Helper lemmas for C12, part 2: the tracking invariant `Trk hb u tr0 s` ("state `s` was reached from a state
with heap `hb` and trace `tr0` by steps of a solve of unit `u`") and its preservation by every primitive. -/

namespace Heap

/-! ### components of an object not touched by a primitive -/

@[simp] theorem kind_write (s : S) (o f v i : Nat) : ((s.write o f v).h.obj i).kind = (s.h.obj i).kind := by
  rw [write_obj]; split
  · rename_i h; subst h; rfl
  · rfl
@[simp] theorem items_write (s : S) (o f v i : Nat) : ((s.write o f v).h.obj i).items = (s.h.obj i).items := by
  rw [write_obj]; split
  · rename_i h; subst h; rfl
  · rfl
@[simp] theorem content_write (s : S) (o f v i : Nat) : ((s.write o f v).h.obj i).content = (s.h.obj i).content := by
  rw [write_obj]; split
  · rename_i h; subst h; rfl
  · rfl
@[simp] theorem weak_write (s : S) (o f v i : Nat) : ((s.write o f v).h.obj i).weak = (s.h.obj i).weak := by
  rw [write_obj]; split
  · rename_i h; subst h; rfl
  · rfl

@[simp] theorem kind_del (s : S) (o f i : Nat) : ((s.del o f).h.obj i).kind = (s.h.obj i).kind := by
  rw [del_obj]; split
  · rename_i h; subst h; rfl
  · rfl
@[simp] theorem items_del (s : S) (o f i : Nat) : ((s.del o f).h.obj i).items = (s.h.obj i).items := by
  rw [del_obj]; split
  · rename_i h; subst h; rfl
  · rfl
@[simp] theorem content_del (s : S) (o f i : Nat) : ((s.del o f).h.obj i).content = (s.h.obj i).content := by
  rw [del_obj]; split
  · rename_i h; subst h; rfl
  · rfl
@[simp] theorem weak_del (s : S) (o f i : Nat) : ((s.del o f).h.obj i).weak = (s.h.obj i).weak := by
  rw [del_obj]; split
  · rename_i h; subst h; rfl
  · rfl
@[simp] theorem cache_del (s : S) (o f i : Nat) : ((s.del o f).h.obj i).cache = (s.h.obj i).cache := by
  rw [del_obj]; split
  · rename_i h; subst h; rfl
  · rfl

@[simp] theorem kind_setWeak (s : S) (o : Nat) (w : Option Nat) (i : Nat) :
    ((s.setWeak o w).h.obj i).kind = (s.h.obj i).kind := by
  rw [setWeak_obj]; split
  · rename_i h; subst h; rfl
  · rfl
@[simp] theorem items_setWeak (s : S) (o : Nat) (w : Option Nat) (i : Nat) :
    ((s.setWeak o w).h.obj i).items = (s.h.obj i).items := by
  rw [setWeak_obj]; split
  · rename_i h; subst h; rfl
  · rfl
@[simp] theorem content_setWeak (s : S) (o : Nat) (w : Option Nat) (i : Nat) :
    ((s.setWeak o w).h.obj i).content = (s.h.obj i).content := by
  rw [setWeak_obj]; split
  · rename_i h; subst h; rfl
  · rfl

@[simp] theorem kind_setItems (s : S) (o : Nat) (l : List Nat) (i : Nat) :
    ((s.setItems o l).h.obj i).kind = (s.h.obj i).kind := by
  rw [setItems_obj]; split
  · rename_i h; subst h; rfl
  · rfl
@[simp] theorem content_setItems (s : S) (o : Nat) (l : List Nat) (i : Nat) :
    ((s.setItems o l).h.obj i).content = (s.h.obj i).content := by
  rw [setItems_obj]; split
  · rename_i h; subst h; rfl
  · rfl
theorem items_setItems (s : S) (o : Nat) (l : List Nat) (i : Nat) :
    ((s.setItems o l).h.obj i).items = if i = o then l else (s.h.obj i).items := by
  rw [setItems_obj]; split <;> rfl

@[simp] theorem kind_setContent (s : S) (o : Nat) (c : List Nat) (i : Nat) :
    ((s.setContent o c).h.obj i).kind = (s.h.obj i).kind := by
  rw [setContent_obj]; split
  · rename_i h; subst h; rfl
  · rfl
@[simp] theorem items_setContent (s : S) (o : Nat) (c : List Nat) (i : Nat) :
    ((s.setContent o c).h.obj i).items = (s.h.obj i).items := by
  rw [setContent_obj]; split
  · rename_i h; subst h; rfl
  · rfl
theorem content_setContent (s : S) (o : Nat) (c : List Nat) (i : Nat) :
    ((s.setContent o c).h.obj i).content = if i = o then c else (s.h.obj i).content := by
  rw [setContent_obj]; split <;> rfl

@[simp] theorem kind_setCache (s : S) (o : Nat) (c : List Nat) (i : Nat) :
    ((s.setCache o c).h.obj i).kind = (s.h.obj i).kind := by
  rw [setCache_obj]; split
  · rename_i h; subst h; rfl
  · rfl
@[simp] theorem items_setCache (s : S) (o : Nat) (c : List Nat) (i : Nat) :
    ((s.setCache o c).h.obj i).items = (s.h.obj i).items := by
  rw [setCache_obj]; split
  · rename_i h; subst h; rfl
  · rfl
@[simp] theorem content_setCache (s : S) (o : Nat) (c : List Nat) (i : Nat) :
    ((s.setCache o c).h.obj i).content = (s.h.obj i).content := by
  rw [setCache_obj]; split
  · rename_i h; subst h; rfl
  · rfl
@[simp] theorem weak_setCache (s : S) (o : Nat) (c : List Nat) (i : Nat) :
    ((s.setCache o c).h.obj i).weak = (s.h.obj i).weak := by
  rw [setCache_obj]; split
  · rename_i h; subst h; rfl
  · rfl
theorem cache_setCache (s : S) (o : Nat) (c : List Nat) (i : Nat) :
    ((s.setCache o c).h.obj i).cache = if i = o then c else (s.h.obj i).cache := by
  rw [setCache_obj]; split <;> rfl

theorem targets_append (a b : List Eff) : targets (a ++ b) = targets a ++ targets b := by
  simp [targets, List.filterMap_append]

@[simp] theorem targets_alloc (o : Nat) : targets [.alloc o] = [] := rfl
@[simp] theorem targets_write (o f : Nat) : targets [.write o f] = [o] := rfl
@[simp] theorem targets_weakw (o : Nat) : targets [.weakw o] = [o] := rfl
@[simp] theorem targets_mutate (o : Nat) : targets [.mutate o] = [o] := rfl
@[simp] theorem targets_cachew (o : Nat) : targets [.cachew o] = [o] := rfl

/-! ### the tracking invariant -/

structure Trk (hb : H) (u : Nat) (tr0 : List Eff) (s : S) : Prop where
  wf : Wf s.h
  ext : Ext hb s.h
  tr : ∃ t, s.tr = tr0 ++ t ∧ ∀ o ∈ targets t, hb.next ≤ o ∨ Owned hb u o
  frame : ∀ o, o < hb.next → ¬ Owned hb u o → s.h.obj o = hb.obj o
  typed : Typed hb → Typed s.h

theorem Trk.refl {s : S} (w : Wf s.h) (u : Nat) : Trk s.h u s.tr s where
  wf := w
  ext := Ext.refl _ w
  tr := ⟨[], by simp, by intro o h; simp [targets] at h⟩
  frame := fun _ _ _ => rfl
  typed := id

theorem Trk.next_le {hb : H} {u : Nat} {tr0 : List Eff} {s : S} (T : Trk hb u tr0 s) : hb.next ≤ s.h.next :=
  T.ext.next_le

/-- allocation of an object whose ownership entries and items (if any) are themselves new objects -/
theorem Trk.alloc {hb : H} {u : Nat} {tr0 : List Eff} {s : S} (T : Trk hb u tr0 s) (ob : Obj)
    (hp : ∀ v ∈ ob.ptrs, v < s.h.next)
    (hown : ∀ f v, isOwn f = true → ob.fields.lookup f = some v → hb.next ≤ v)
    (hit : ∀ c ∈ ob.items, hb.next ≤ c)
    (hty : Typed s.h → (∀ f v, isOwn f = true → ob.fields.lookup f = some v → (s.h.obj v).kind = ownKind f) ∧
      (ob.kind = .subList → ∀ c ∈ ob.items, (s.h.obj c).kind = .unit)) :
    Trk hb u tr0 (s.alloc ob).1 where
  wf := T.wf.alloc ob hp
  ext := by
    have hle := T.ext.next_le
    refine ⟨by simp only [alloc_next]; omega, ?_, ?_, ?_, ?_, ?_, ?_⟩
    · intro o f v ho hf hg
      rw [getF_alloc] at hg
      have : o ≠ s.h.next := by omega
      simp only [this, if_false] at hg
      exact T.ext.oldOwn o f v ho hf hg
    · intro o ho
      rw [alloc_obj]; have : o ≠ s.h.next := by omega
      simp only [this, if_false]; exact T.ext.oldItems o ho
    · intro o ho
      rw [alloc_obj]; have : o ≠ s.h.next := by omega
      simp only [this, if_false]; exact T.ext.oldContent o ho
    · intro o ho
      rw [alloc_obj]; have : o ≠ s.h.next := by omega
      simp only [this, if_false]; exact T.ext.kind o ho
    · intro o f v ho hf hg
      rw [getF_alloc] at hg
      split at hg
      · exact hown f v hf hg
      · exact T.ext.newOwn o f v ho hf hg
    · intro o c ho hc
      rw [alloc_obj] at hc
      split at hc
      · exact hit c hc
      · exact T.ext.newItems o c ho hc
  tr := by
    obtain ⟨t, ht, hok⟩ := T.tr
    refine ⟨t ++ [.alloc s.h.next], by simp [ht], ?_⟩
    intro o ho
    rw [targets_append] at ho
    simp only [targets_alloc, List.append_nil] at ho
    exact hok o ho
  frame := by
    intro o ho hn
    rw [alloc_obj]
    have := T.ext.next_le
    have : o ≠ s.h.next := by omega
    simp only [this, if_false]
    exact T.frame o ho hn
  typed := by
    intro tb
    have ts := T.typed tb
    obtain ⟨h1, h2⟩ := hty ts
    have hk : ∀ v, v < s.h.next → ((s.alloc ob).1.h.obj v).kind = (s.h.obj v).kind := by
      intro v hv; rw [alloc_obj]; have : v ≠ s.h.next := by omega
      simp only [this, if_false]
    constructor
    · intro o f v hf hg
      rw [getF_alloc] at hg
      split at hg
      · have hv : v < s.h.next := hp v (mem_ptrs.2 (Or.inl ⟨f, mem_of_lookup hg⟩))
        rw [hk v hv]; exact h1 f v hf hg
      · have hv : v < s.h.next := T.wf.getF_lt hg
        rw [hk v hv]; exact ts.own o f v hf hg
    · intro l c hl hc
      rw [alloc_obj] at hl hc
      split at hl
      · rename_i he
        simp only [he, if_true] at hc
        have hv : c < s.h.next := hp c (mem_ptrs.2 (Or.inr (Or.inr hc)))
        rw [hk c hv]; exact h2 hl c hc
      · rename_i he
        simp only [he, if_false] at hc
        have hv : c < s.h.next := T.wf.closed l c (mem_ptrs.2 (Or.inr (Or.inr hc)))
        rw [hk c hv]; exact ts.items l c hl hc

/-- allocation of an object without ownership entries and without items (profile copies, values, atoms, units) -/
theorem Trk.allocPlain {hb : H} {u : Nat} {tr0 : List Eff} {s : S} (T : Trk hb u tr0 s) (ob : Obj)
    (hp : ∀ v ∈ ob.ptrs, v < s.h.next)
    (hown : ∀ f v, ob.fields.lookup f = some v → isOwn f = false)
    (hit : ob.items = []) : Trk hb u tr0 (s.alloc ob).1 := by
  apply T.alloc ob hp
  · intro f v hf hg; rw [hown f v hg] at hf; cases hf
  · intro c hc; rw [hit] at hc; cases hc
  · intro _
    refine ⟨?_, ?_⟩
    · intro f v hf hg; rw [hown f v hg] at hf; cases hf
    · intro _ c hc; rw [hit] at hc; cases hc

theorem Trk.write {hb : H} {u : Nat} {tr0 : List Eff} {s : S} (T : Trk hb u tr0 s) {o f v : Nat}
    (ht : hb.next ≤ o ∨ Owned hb u o) (ho : o < s.h.next) (hv : v < s.h.next)
    (hown : isOwn f = true → hb.next ≤ v)
    (hty : isOwn f = true → Typed s.h → (s.h.obj v).kind = ownKind f) :
    Trk hb u tr0 (s.write o f v) where
  wf := T.wf.write ho hv
  ext := by
    refine ⟨by simp only [write_next]; exact T.ext.next_le, ?_, ?_, ?_, ?_, ?_, ?_⟩
    · intro o' f' v' ho' hf hg
      rw [getF_write] at hg
      split at hg
      · rename_i he
        simp only [Option.some.injEq] at hg
        subst hg; right; rw [he.2] at hf; exact hown hf
      · exact T.ext.oldOwn o' f' v' ho' hf hg
    · intro o' ho'; rw [items_write]; exact T.ext.oldItems o' ho'
    · intro o' ho'; rw [content_write]; exact T.ext.oldContent o' ho'
    · intro o' ho'; rw [kind_write]; exact T.ext.kind o' ho'
    · intro o' f' v' ho' hf hg
      rw [getF_write] at hg
      split at hg
      · rename_i he
        simp only [Option.some.injEq] at hg
        subst hg; rw [he.2] at hf; exact hown hf
      · exact T.ext.newOwn o' f' v' ho' hf hg
    · intro o' c ho' hc; rw [items_write] at hc; exact T.ext.newItems o' c ho' hc
  tr := by
    obtain ⟨t, ht', hok⟩ := T.tr
    refine ⟨t ++ [.write o f], by simp [ht'], ?_⟩
    intro x hx
    rw [targets_append] at hx
    simp only [targets_write, List.mem_append, List.mem_singleton] at hx
    rcases hx with hx | hx
    · exact hok x hx
    · subst hx; exact ht
  frame := by
    intro x hx hn
    rw [write_obj]
    have : x ≠ o := by
      intro e; subst e
      rcases ht with h | h
      · omega
      · exact hn h
    simp only [this, if_false]
    exact T.frame x hx hn
  typed := by
    intro tb
    have ts := T.typed tb
    constructor
    · intro o' f' v' hf hg
      rw [getF_write] at hg
      rw [kind_write]
      split at hg
      · rename_i he
        simp only [Option.some.injEq] at hg
        subst hg; rw [he.2] at hf ⊢; exact hty hf ts
      · exact ts.own o' f' v' hf hg
    · intro l c hl hc
      rw [kind_write] at hl ⊢
      rw [items_write] at hc
      exact ts.items l c hl hc

/-- a write of an entry that is not an ownership entry -/
theorem Trk.writePlain {hb : H} {u : Nat} {tr0 : List Eff} {s : S} (T : Trk hb u tr0 s) {o f v : Nat}
    (ht : hb.next ≤ o ∨ Owned hb u o) (ho : o < s.h.next) (hv : v < s.h.next) (hf : isOwn f = false) :
    Trk hb u tr0 (s.write o f v) :=
  T.write ht ho hv (by intro h; rw [hf] at h; cases h) (by intro h; rw [hf] at h; cases h)

/-- an entry of an object that is new or owned by the unit being solved is deleted (`delattr`): whatever the entry,
the ownership structure can only lose by it -/
theorem Trk.del {hb : H} {u : Nat} {tr0 : List Eff} {s : S} (T : Trk hb u tr0 s) {o f : Nat}
    (ht : hb.next ≤ o ∨ Owned hb u o) (ho : o < s.h.next) : Trk hb u tr0 (s.del o f) where
  wf := T.wf.del ho
  ext := by
    refine ⟨by simp only [del_next]; exact T.ext.next_le, ?_, ?_, ?_, ?_, ?_, ?_⟩
    · intro o' f' v' ho' hf hg
      rw [getF_del] at hg
      split at hg
      · cases hg
      · exact T.ext.oldOwn o' f' v' ho' hf hg
    · intro o' ho'; rw [items_del]; exact T.ext.oldItems o' ho'
    · intro o' ho'; rw [content_del]; exact T.ext.oldContent o' ho'
    · intro o' ho'; rw [kind_del]; exact T.ext.kind o' ho'
    · intro o' f' v' ho' hf hg
      rw [getF_del] at hg
      split at hg
      · cases hg
      · exact T.ext.newOwn o' f' v' ho' hf hg
    · intro o' c ho' hc; rw [items_del] at hc; exact T.ext.newItems o' c ho' hc
  tr := by
    obtain ⟨t, ht', hok⟩ := T.tr
    refine ⟨t ++ [.write o f], by simp [ht'], ?_⟩
    intro x hx
    rw [targets_append] at hx
    simp only [targets_write, List.mem_append, List.mem_singleton] at hx
    rcases hx with hx | hx
    · exact hok x hx
    · subst hx; exact ht
  frame := by
    intro x hx hn
    rw [del_obj]
    have : x ≠ o := by
      intro e; subst e
      rcases ht with h | h
      · omega
      · exact hn h
    simp only [this, if_false]
    exact T.frame x hx hn
  typed := by
    intro tb
    have ts := T.typed tb
    constructor
    · intro o' f' v' hf hg
      rw [getF_del] at hg
      rw [kind_del]
      split at hg
      · cases hg
      · exact ts.own o' f' v' hf hg
    · intro l c hl hc
      rw [kind_del] at hl ⊢
      rw [items_del] at hc
      exact ts.items l c hl hc

theorem Trk.setWeak {hb : H} {u : Nat} {tr0 : List Eff} {s : S} (T : Trk hb u tr0 s) {o : Nat} {wk : Option Nat}
    (ht : hb.next ≤ o ∨ Owned hb u o) (ho : o < s.h.next) (hw : ∀ t, wk = some t → t < s.h.next) :
    Trk hb u tr0 (s.setWeak o wk) where
  wf := T.wf.setWeak ho hw
  ext := by
    refine ⟨by simp only [setWeak_next]; exact T.ext.next_le, ?_, ?_, ?_, ?_, ?_, ?_⟩
    · intro o' f' v' ho' hf hg; rw [getF_setWeak] at hg; exact T.ext.oldOwn o' f' v' ho' hf hg
    · intro o' ho'; rw [items_setWeak]; exact T.ext.oldItems o' ho'
    · intro o' ho'; rw [content_setWeak]; exact T.ext.oldContent o' ho'
    · intro o' ho'; rw [kind_setWeak]; exact T.ext.kind o' ho'
    · intro o' f' v' ho' hf hg; rw [getF_setWeak] at hg; exact T.ext.newOwn o' f' v' ho' hf hg
    · intro o' c ho' hc; rw [items_setWeak] at hc; exact T.ext.newItems o' c ho' hc
  tr := by
    obtain ⟨t, ht', hok⟩ := T.tr
    refine ⟨t ++ [.weakw o], by simp [ht'], ?_⟩
    intro x hx
    rw [targets_append] at hx
    simp only [targets_weakw, List.mem_append, List.mem_singleton] at hx
    rcases hx with hx | hx
    · exact hok x hx
    · subst hx; exact ht
  frame := by
    intro x hx hn
    rw [setWeak_obj]
    have : x ≠ o := by
      intro e; subst e
      rcases ht with h | h
      · omega
      · exact hn h
    simp only [this, if_false]
    exact T.frame x hx hn
  typed := by
    intro tb
    have ts := T.typed tb
    constructor
    · intro o' f' v' hf hg
      rw [getF_setWeak] at hg; rw [kind_setWeak]; exact ts.own o' f' v' hf hg
    · intro l c hl hc
      rw [kind_setWeak] at hl ⊢; rw [items_setWeak] at hc; exact ts.items l c hl hc

/-- in-place change of the content of a value object created since the base state -/
theorem Trk.setContent {hb : H} {u : Nat} {tr0 : List Eff} {s : S} (T : Trk hb u tr0 s) {o : Nat} {c : List Nat}
    (hfresh : hb.next ≤ o) (ho : o < s.h.next) : Trk hb u tr0 (s.setContent o c) where
  wf := T.wf.setContent ho
  ext := by
    refine ⟨by simp only [setContent_next]; exact T.ext.next_le, ?_, ?_, ?_, ?_, ?_, ?_⟩
    · intro o' f' v' ho' hf hg; rw [getF_setContent] at hg; exact T.ext.oldOwn o' f' v' ho' hf hg
    · intro o' ho'; rw [items_setContent]; exact T.ext.oldItems o' ho'
    · intro o' ho'
      rw [content_setContent]
      have : o' ≠ o := by omega
      simp only [this, if_false]; exact T.ext.oldContent o' ho'
    · intro o' ho'; rw [kind_setContent]; exact T.ext.kind o' ho'
    · intro o' f' v' ho' hf hg; rw [getF_setContent] at hg; exact T.ext.newOwn o' f' v' ho' hf hg
    · intro o' x ho' hc; rw [items_setContent] at hc; exact T.ext.newItems o' x ho' hc
  tr := by
    obtain ⟨t, ht', hok⟩ := T.tr
    refine ⟨t ++ [.mutate o], by simp [ht'], ?_⟩
    intro x hx
    rw [targets_append] at hx
    simp only [targets_mutate, List.mem_append, List.mem_singleton] at hx
    rcases hx with hx | hx
    · exact hok x hx
    · subst hx; left; exact hfresh
  frame := by
    intro x hx hn
    rw [setContent_obj]
    have : x ≠ o := by omega
    simp only [this, if_false]
    exact T.frame x hx hn
  typed := by
    intro tb
    have ts := T.typed tb
    constructor
    · intro o' f' v' hf hg
      rw [getF_setContent] at hg; rw [kind_setContent]; exact ts.own o' f' v' hf hg
    · intro l x hl hc
      rw [kind_setContent] at hl ⊢; rw [items_setContent] at hc; exact ts.items l x hl hc

/-- a change of the hook value cache of an object that is new or owned by the unit being solved -/
theorem Trk.setCache {hb : H} {u : Nat} {tr0 : List Eff} {s : S} (T : Trk hb u tr0 s) {o : Nat} {c : List Nat}
    (ht : hb.next ≤ o ∨ Owned hb u o) (ho : o < s.h.next) : Trk hb u tr0 (s.setCache o c) where
  wf := T.wf.setCache ho
  ext := by
    refine ⟨by simp only [setCache_next]; exact T.ext.next_le, ?_, ?_, ?_, ?_, ?_, ?_⟩
    · intro o' f' v' ho' hf hg; rw [getF_setCache] at hg; exact T.ext.oldOwn o' f' v' ho' hf hg
    · intro o' ho'; rw [items_setCache]; exact T.ext.oldItems o' ho'
    · intro o' ho'; rw [content_setCache]; exact T.ext.oldContent o' ho'
    · intro o' ho'; rw [kind_setCache]; exact T.ext.kind o' ho'
    · intro o' f' v' ho' hf hg; rw [getF_setCache] at hg; exact T.ext.newOwn o' f' v' ho' hf hg
    · intro o' x ho' hc; rw [items_setCache] at hc; exact T.ext.newItems o' x ho' hc
  tr := by
    obtain ⟨t, ht', hok⟩ := T.tr
    refine ⟨t ++ [.cachew o], by simp [ht'], ?_⟩
    intro x hx
    rw [targets_append] at hx
    simp only [targets_cachew, List.mem_append, List.mem_singleton] at hx
    rcases hx with hx | hx
    · exact hok x hx
    · subst hx; exact ht
  frame := by
    intro x hx hn
    rw [setCache_obj]
    have : x ≠ o := by
      intro e; subst e
      rcases ht with h | h
      · omega
      · exact hn h
    simp only [this, if_false]
    exact T.frame x hx hn
  typed := by
    intro tb
    have ts := T.typed tb
    constructor
    · intro o' f' v' hf hg
      rw [getF_setCache] at hg; rw [kind_setCache]; exact ts.own o' f' v' hf hg
    · intro l x hl hc
      rw [kind_setCache] at hl ⊢; rw [items_setCache] at hc; exact ts.items l x hl hc

/-- a write target reached through an ownership entry of the unit being solved is owned or new -/
theorem Trk.ownTarget {hb : H} {u : Nat} {tr0 : List Eff} {s : S} (T : Trk hb u tr0 s) (hu : u < hb.next)
    {f v : Nat} (hf : isOwn f = true) (hg : getF s.h u f = some v) : hb.next ≤ v ∨ Owned hb u v := by
  rcases T.ext.oldOwn u f v hu hf hg with h | h
  · right; exact Owned.field hf h
  · left; exact h

/-- what makes a unit `c` a legitimate callee of a solve of `u` started in heap `hb` -/
def Callee (hb : H) (u c : Nat) : Prop := hb.next ≤ c ∨ (c < hb.next ∧ ∀ o, Owned hb c o → Owned hb u o)

theorem Trk.children {hb : H} {u : Nat} {tr0 : List Eff} {s : S} (T : Trk hb u tr0 s) (wb : Wf hb)
    (hu : u < hb.next) {l c : Nat} (hl : getF s.h u fSUB = some l) (hc : c ∈ (s.h.obj l).items) :
    Callee hb u c ∧ c < s.h.next := by
  refine ⟨?_, T.wf.closed l c (mem_ptrs.2 (Or.inr (Or.inr hc)))⟩
  rcases T.ext.oldOwn u fSUB l hu (by decide) hl with h | h
  · have hl' : l < hb.next := wb.getF_lt h
    rw [T.ext.oldItems l hl'] at hc
    right
    refine ⟨wb.closed l c (mem_ptrs.2 (Or.inr (Or.inr hc))), ?_⟩
    intro o ho; exact Owned.child h hc ho
  · left; exact T.ext.newItems l c h hc

/-- a sub-call: the callee's own tracking (relative to the state at the call) composes with ours -/
theorem Trk.call {hb : H} {u : Nat} {tr0 : List Eff} {s s' : S} (T : Trk hb u tr0 s) (wb : Wf hb)
    {c : Nat} (hc : Callee hb u c) (T' : Trk s.h c s.tr s') : Trk hb u tr0 s' where
  wf := T'.wf
  ext := T.ext.trans T'.ext
  tr := by
    obtain ⟨t, ht, hok⟩ := T.tr
    obtain ⟨t', ht', hok'⟩ := T'.tr
    refine ⟨t ++ t', by rw [ht', ht, List.append_assoc], ?_⟩
    intro o ho
    rw [targets_append, List.mem_append] at ho
    rcases ho with ho | ho
    · exact hok o ho
    · rcases hok' o ho with h | h
      · left; exact Nat.le_trans T.ext.next_le h
      · have := owned_of_ext wb T.ext h
        rcases hc with hc | ⟨hc, hsub⟩
        · left; exact this.2 hc
        · rcases this.1 hc with h' | h'
          · left; exact h'
          · right; exact hsub o h'
  frame := by
    intro o ho hn
    have hos : o < s.h.next := Nat.lt_of_lt_of_le ho T.ext.next_le
    have hn' : ¬ Owned s.h c o := by
      intro h
      have := owned_of_ext wb T.ext h
      rcases hc with hc | ⟨hc, hsub⟩
      · have := this.2 hc; omega
      · rcases this.1 hc with h' | h'
        · omega
        · exact hn (hsub o h')
    rw [T'.frame o hos hn']; exact T.frame o ho hn
  typed := fun tb => T'.typed (T.typed tb)

end Heap
