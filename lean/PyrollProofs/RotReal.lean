import PyrollModel.Rot
import PyrollProofs.RealNum

/-! Helper lemmas for C14: the number tests of the rotation model over ℝ. -/

namespace Rot

theorem isZero_real (x : ℝ) : isZero x = decide (x = 0) := by
  simp only [isZero, PyNum.le, PyNum.nat_real, Nat.cast_zero]
  by_cases h : x = 0
  · simp [h]
  · have : ¬ (x ≤ 0 ∧ 0 ≤ x) := fun ⟨a, b⟩ => h (le_antisymm a b)
    simp only [h, decide_false, Bool.and_eq_false_iff, decide_eq_false_iff_not]
    by_cases h1 : x ≤ 0
    · exact Or.inr (fun h2 => this ⟨h1, h2⟩)
    · exact Or.inl h1

theorem eqNat_real (x : ℝ) (n : ℕ) : eqNat x n = decide (x = (n : ℝ)) := by
  simp only [eqNat, PyNum.le, PyNum.nat_real]
  by_cases h : x = (n : ℝ)
  · simp [h]
  · have : ¬ (x ≤ (n : ℝ) ∧ (n : ℝ) ≤ x) := fun ⟨a, b⟩ => h (le_antisymm a b)
    simp only [h, decide_false, Bool.and_eq_false_iff, decide_eq_false_iff_not]
    by_cases h1 : x ≤ (n : ℝ)
    · exact Or.inr (fun h2 => this ⟨h1, h2⟩)
    · exact Or.inl h1

end Rot
