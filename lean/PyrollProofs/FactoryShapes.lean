import PyrollProofs.Factory

/-!
Ideal dimensions (core polygon ⊕ disc of radius `r`, see `PyrollModel/Factory.lean`) of the four families of core
polygons the profile factories use, over ℝ: point, axis-parallel rectangle, rhombus on its tips, regular hexagon on a
flat side.  `PyrollProps/C15.lean` shows that the vertex lists GENERATED from `profile.py` are instances of these.
-/

namespace Factory

def rectV (a b : ℝ) : List (ℝ × ℝ) := [(a, -b), (a, b), (-a, b), (-a, -b)]
def rhombV (a b : ℝ) : List (ℝ × ℝ) := [(a, 0), (0, b), (-a, 0), (0, -b)]
noncomputable def hexV (c : ℝ) : List (ℝ × ℝ) :=
  [(-c, 0), (-(c / 2), Real.sqrt 3 / 2 * c), (c / 2, Real.sqrt 3 / 2 * c), (c, 0), (c / 2, -(Real.sqrt 3 / 2 * c)),
   (-(c / 2), -(Real.sqrt 3 / 2 * c))]

/-! ### point (round profile) -/

theorem point_width (r : ℝ) : Shape.width { verts := [((0 : ℝ), (0 : ℝ))], r := r } = 2 * r := by
  simp only [Shape.width]
  rw [extent_eq _ r _ _ 0 0 _ _ _ _ rfl rfl] <;> simp

theorem point_height (r : ℝ) : Shape.height { verts := [((0 : ℝ), (0 : ℝ))], r := r } = 2 * r := by
  simp only [Shape.height]
  rw [extent_eq _ r _ _ 0 0 _ _ _ _ rfl rfl] <;> simp

theorem point_area (r : ℝ) : Shape.area { verts := [((0 : ℝ), (0 : ℝ))], r := r } = Real.pi * r ^ 2 := by
  simp only [Shape.area, shoelace2, shoelaceFrom, perimeter, perimeterFrom, cross, PyNum.nat_real, PyNum.abs_real,
    PyNum.pi_real]
  rw [dist_eq _ _ 0 le_rfl (by simp)]
  simp; ring

/-! ### rectangle (box profile) -/

theorem rect_width (a b r : ℝ) (ha : 0 ≤ a) :
    Shape.width { verts := rectV a b, r := r } = 2 * a + 2 * r := by
  simp only [Shape.width, rectV]
  rw [extent_eq _ r _ _ a a _ _ _ _ rfl rfl]
  all_goals (try simp)
  all_goals linarith

theorem rect_height (a b r : ℝ) (hb : 0 ≤ b) :
    Shape.height { verts := rectV a b, r := r } = 2 * b + 2 * r := by
  simp only [Shape.height, rectV]
  rw [extent_eq _ r _ _ b b _ _ _ _ rfl rfl]
  all_goals (try simp)
  all_goals linarith

theorem rect_area (a b r : ℝ) (ha : 0 ≤ a) (hb : 0 ≤ b) :
    Shape.area { verts := rectV a b, r := r } = 4 * a * b + r * (4 * a + 4 * b) + Real.pi * r ^ 2 := by
  simp only [Shape.area, rectV, shoelace2, shoelaceFrom, perimeter, perimeterFrom, cross, PyNum.nat_real, PyNum.abs_real,
    PyNum.pi_real]
  rw [dist_eq _ _ (2 * b) (by linarith) (by simp; ring), dist_eq _ _ (2 * a) (by linarith) (by simp; ring),
    dist_eq _ _ (2 * b) (by linarith) (by simp; ring), dist_eq _ _ (2 * a) (by linarith) (by simp; ring)]
  have : a * b - a * -b + (a * b - -a * b + (-a * -b - -a * b + (-a * -b - a * -b))) = 8 * (a * b) := by ring
  rw [this, abs_of_nonneg (by positivity)]
  push_cast; ring

/-! ### rhombus (diamond and square profiles) -/

theorem rhomb_width (a b r : ℝ) (ha : 0 ≤ a) :
    Shape.width { verts := rhombV a b, r := r } = 2 * a + 2 * r := by
  simp only [Shape.width, rhombV]
  rw [extent_eq _ r _ _ a a _ _ _ _ rfl rfl]
  all_goals (try simp)
  all_goals linarith

theorem rhomb_height (a b r : ℝ) (hb : 0 ≤ b) :
    Shape.height { verts := rhombV a b, r := r } = 2 * b + 2 * r := by
  simp only [Shape.height, rhombV]
  rw [extent_eq _ r _ _ b b _ _ _ _ rfl rfl]
  all_goals (try simp)
  all_goals linarith

theorem rhomb_area (a b r : ℝ) (ha : 0 ≤ a) (hb : 0 ≤ b) :
    Shape.area { verts := rhombV a b, r := r }
      = 2 * a * b + r * (4 * Real.sqrt (a * a + b * b)) + Real.pi * r ^ 2 := by
  simp only [Shape.area, rhombV, shoelace2, shoelaceFrom, perimeter, perimeterFrom, cross, PyNum.nat_real, PyNum.abs_real,
    PyNum.pi_real, dist, PyNum.sqrt_real]
  have e1 : (0 - a) * (0 - a) + (b - 0) * (b - 0) = a * a + b * b := by ring
  have e2 : (-a - 0) * (-a - 0) + (0 - b) * (0 - b) = a * a + b * b := by ring
  have e3 : (0 - -a) * (0 - -a) + (-b - 0) * (-b - 0) = a * a + b * b := by ring
  have e4 : (a - 0) * (a - 0) + (0 - -b) * (0 - -b) = a * a + b * b := by ring
  rw [e1, e2, e3, e4]
  have : a * b - 0 * 0 + (0 * 0 - -a * b + (-a * -b - 0 * 0 + (0 * 0 - a * -b))) = 4 * (a * b) := by ring
  rw [this, abs_of_nonneg (by positivity)]
  push_cast; ring

/-- extent of the rhombus with equal half-diagonals (the square standing on its tip) across its flat sides -/
theorem rhomb_extent45 (a r : ℝ) (ha : 0 ≤ a) :
    extent (rhombV a a) r (Real.sqrt 2 / 2) (Real.sqrt 2 / 2) = Real.sqrt 2 * a + 2 * r ∧
    extent (rhombV a a) r (-(Real.sqrt 2 / 2)) (Real.sqrt 2 / 2) = Real.sqrt 2 * a + 2 * r := by
  have h2 := sqrt_two_pos
  have : 0 ≤ Real.sqrt 2 / 2 * a := by positivity
  constructor
  · rw [extent_eq _ r _ _ (a * (Real.sqrt 2 / 2)) (a * (Real.sqrt 2 / 2)) _ _ _ _ rfl rfl]
    all_goals (try simp)
    all_goals (repeat' apply And.intro)
    all_goals nlinarith
  · rw [extent_eq _ r _ _ (a * (Real.sqrt 2 / 2)) (a * (Real.sqrt 2 / 2)) _ _ _ _ rfl rfl]
    all_goals (try simp)
    all_goals (repeat' apply And.intro)
    all_goals nlinarith

/-! ### regular hexagon standing on a flat side -/

theorem hex_width (c r : ℝ) (hc : 0 ≤ c) :
    Shape.width { verts := hexV c, r := r } = 2 * c + 2 * r := by
  simp only [Shape.width, hexV]
  rw [extent_eq _ r _ _ c c _ _ _ _ rfl rfl]
  all_goals (try simp)
  all_goals (repeat' apply And.intro)
  all_goals linarith

theorem hex_height (c r : ℝ) (hc : 0 ≤ c) :
    Shape.height { verts := hexV c, r := r } = Real.sqrt 3 * c + 2 * r := by
  have h3 := sqrt_three_pos
  have : 0 ≤ Real.sqrt 3 / 2 * c := by positivity
  simp only [Shape.height, hexV]
  rw [extent_eq _ r _ _ (Real.sqrt 3 / 2 * c) (Real.sqrt 3 / 2 * c) _ _ _ _ rfl rfl]
  all_goals (try simp)
  all_goals (repeat' apply And.intro)
  all_goals linarith

/-- across the two other pairs of flat sides (normals at 30° and 150°) -/
theorem hex_extent30 (c r : ℝ) (hc : 0 ≤ c) :
    extent (hexV c) r (Real.sqrt 3 / 2) (1 / 2) = Real.sqrt 3 * c + 2 * r ∧
    extent (hexV c) r (-(Real.sqrt 3 / 2)) (1 / 2) = Real.sqrt 3 * c + 2 * r := by
  have h3 := sqrt_three_pos
  have h33 := sqrt_three_mul_self
  have : 0 ≤ Real.sqrt 3 * c := by positivity
  constructor
  · rw [extent_eq _ r _ _ (c * (Real.sqrt 3 / 2)) (c * (Real.sqrt 3 / 2)) _ _ _ _ rfl rfl]
    all_goals (try simp)
    all_goals (repeat' apply And.intro)
    all_goals nlinarith
  · rw [extent_eq _ r _ _ (c * (Real.sqrt 3 / 2)) (c * (Real.sqrt 3 / 2)) _ _ _ _ rfl rfl]
    all_goals (try simp)
    all_goals (repeat' apply And.intro)
    all_goals nlinarith

theorem hex_area (c r : ℝ) (hc : 0 ≤ c) :
    Shape.area { verts := hexV c, r := r } = 3 * Real.sqrt 3 / 2 * c ^ 2 + r * (6 * c) + Real.pi * r ^ 2 := by
  have h3 := sqrt_three_pos
  have h33 := sqrt_three_mul_self
  simp only [Shape.area, hexV, shoelace2, shoelaceFrom, perimeter, perimeterFrom, cross, PyNum.nat_real, PyNum.abs_real,
    PyNum.pi_real]
  rw [dist_eq _ _ c hc (by simp <;> nlinarith), dist_eq _ _ c hc (by simp <;> nlinarith),
    dist_eq _ _ c hc (by simp <;> nlinarith), dist_eq _ _ c hc (by simp <;> nlinarith),
    dist_eq _ _ c hc (by simp <;> nlinarith), dist_eq _ _ c hc (by simp <;> nlinarith)]
  have : -c * (Real.sqrt 3 / 2 * c) - -(c / 2) * 0 + (-(c / 2) * (Real.sqrt 3 / 2 * c) - c / 2 * (Real.sqrt 3 / 2 * c) +
      (c / 2 * 0 - c * (Real.sqrt 3 / 2 * c) + (c * -(Real.sqrt 3 / 2 * c) - c / 2 * 0 +
      (c / 2 * -(Real.sqrt 3 / 2 * c) - -(c / 2) * -(Real.sqrt 3 / 2 * c) + (-(c / 2) * 0 - -c * -(Real.sqrt 3 / 2 * c))))))
      = -(3 * Real.sqrt 3 * c ^ 2) := by ring
  rw [this, abs_neg, abs_of_nonneg (by positivity)]
  push_cast; ring

/-! ### symmetry of the core vertex lists: closed under both mirror images (hence centred on the origin) -/

def MirrorSymmetric (vs : List (ℝ × ℝ)) : Prop :=
  ∀ p ∈ vs, (-p.1, p.2) ∈ vs ∧ (p.1, -p.2) ∈ vs

theorem rect_symm (a b : ℝ) : MirrorSymmetric (rectV a b) := by
  intro p hp; simp [rectV] at hp ⊢
  rcases hp with rfl | rfl | rfl | rfl <;> simp

theorem rhomb_symm (a b : ℝ) : MirrorSymmetric (rhombV a b) := by
  intro p hp; simp [rhombV] at hp ⊢
  rcases hp with rfl | rfl | rfl | rfl <;> simp

theorem hex_symm (c : ℝ) : MirrorSymmetric (hexV c) := by
  intro p hp; simp [hexV] at hp ⊢
  rcases hp with rfl | rfl | rfl | rfl | rfl | rfl <;> simp

theorem point_symm : MirrorSymmetric [((0 : ℝ), (0 : ℝ))] := by
  intro p hp; simp at hp ⊢; subst hp; simp

/-- the square's core is invariant under the quarter turn -/
theorem rhomb_quarter_turn (a : ℝ) : ∀ p ∈ rhombV a a, (-p.2, p.1) ∈ rhombV a a := by
  intro p hp; simp [rhombV] at hp ⊢
  rcases hp with rfl | rfl | rfl | rfl <;> simp

/-- the hexagon's core is invariant under the rotation by 60° -/
theorem hex_sixth_turn (c : ℝ) :
    ∀ p ∈ hexV c, (p.1 / 2 - Real.sqrt 3 / 2 * p.2, Real.sqrt 3 / 2 * p.1 + p.2 / 2) ∈ hexV c := by
  have h33 := sqrt_three_mul_self
  intro p hp; simp only [hexV, List.mem_cons, List.mem_nil_iff, or_false] at hp ⊢
  rcases hp with rfl | rfl | rfl | rfl | rfl | rfl
  · right; right; right; right; right; ext <;> simp <;> ring
  · left; ext <;> simp <;> first | ring1 | linear_combination (-(c / 4)) * h33 | linear_combination (c / 4) * h33
  · right; left; ext <;> simp <;> first | ring1 | linear_combination (-(c / 4)) * h33 | linear_combination (c / 4) * h33
  · right; right; left; ext <;> simp <;> ring
  · right; right; right; left; ext <;> simp <;> first | ring1 | linear_combination (-(c / 4)) * h33 | linear_combination (c / 4) * h33
  · right; right; right; right; left; ext <;> simp <;> first | ring1 | linear_combination (-(c / 4)) * h33 | linear_combination (c / 4) * h33

end Factory
