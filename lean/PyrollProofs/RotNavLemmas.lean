import PyrollProofs.RotLemmas
import PyrollModel.RotNav

/-!
Helper lemmas for C14, part 3: the object graph (`PyrollModel/RotNav.lean`) - `Unit.prev`, the backward walk as a navigation over
parent pointers and member lists, `_SubUnitsList.__init__` / `.clear`, `PassSequence.flatten`.
-/

namespace Rot

/-- `Unit.prev`: `ValueError` without parent, `IndexError` for the first member, else the member before -/
def expectedPrev : PrevSpec := { noParent := .value, first := .index, offset := 1 }

theorem idxOf_mid (pre post : List Nat) (u : Nat) (h : u ∉ pre) : (pre ++ u :: post).idxOf u = pre.length := by
  induction pre with
  | nil => simp
  | cons a pre ih =>
    have ha : a ≠ u := fun e => h (by simp [e])
    have hu : u ∉ pre := fun e => h (by simp [e])
    have hb : (a == u) = false := by simp [ha]
    simp [List.idxOf_cons, hb, ih hu]

/-- `prev` of a member of a sequence whose parent pointer is in order: the member before it -/
theorem prevOf_member (h : Heap) (s u : Nat) (pre post : List Nat) (hs : h.subs s = pre ++ u :: post) (hu : u ∉ pre)
    (hp : h.parent u = some s) :
    prevOf expectedPrev h u = match pre.getLast? with | none => .error .index | some q => .ok q := by
  simp only [prevOf, hp, hs, idxOf_mid pre post u hu, expectedPrev]
  rcases List.eq_nil_or_concat pre with rfl | ⟨pre', q, rfl⟩
  · simp
  · simp

/-- the loop on the object graph, entered at member `u`, reads the kinds of `u` and of the members before it - nothing else
(`rpre` = the members before `u`, nearest first) -/
theorem walkNav_members_rev (w : WalkSpec) (h : Heap) (s : Nat) :
    ∀ (rpre : List Nat) (u : Nat) (post : List Nat) (fuel : Nat),
      h.subs s = rpre.reverse ++ u :: post → (rpre.reverse ++ [u]).Nodup → (∀ x ∈ u :: rpre, h.parent x = some s) →
      rpre.length < fuel →
      walkNav w expectedPrev h fuel u = .val (walkLoop w (h.kind u :: rpre.map h.kind)) := by
  intro rpre
  induction rpre with
  | nil =>
    intro u post fuel hs hnd hp hf
    obtain ⟨f, rfl⟩ : ∃ f, fuel = f + 1 := ⟨fuel - 1, by omega⟩
    have hpu := prevOf_member h s u [] post (by simpa using hs) (by simp) (hp u (by simp))
    simp only [walkNav, walkLoop]
    cases testKind (h.kind u) w.tests with
    | some b => simp
    | none => simp [hpu, walkLoop]
  | cons q rpre ih =>
    intro u post fuel hs hnd hp hf
    obtain ⟨f, rfl⟩ : ∃ f, fuel = f + 1 := ⟨fuel - 1, by omega⟩
    have hnd' : ((q :: rpre).reverse).Nodup ∧ u ∉ (q :: rpre).reverse := by
      rw [List.nodup_append] at hnd
      exact ⟨hnd.1, fun hm => hnd.2.2 u hm u (by simp) rfl⟩
    have hpu := prevOf_member h s u (q :: rpre).reverse post hs hnd'.2 (hp u (by simp))
    have hs' : h.subs s = rpre.reverse ++ q :: (u :: post) := by simp [hs]
    have ih' := ih q (u :: post) f hs' (by simpa using hnd'.1) (fun x hx => hp x (by simp at hx ⊢; rcases hx with h1 | h1 <;> simp [h1]))
      (by simp at hf; omega)
    simp only [walkNav, walkLoop]
    cases testKind (h.kind u) w.tests with
    | some b => simp
    | none => simp [hpu, ih', walkLoop]

/-- **the walk reads the kinds of the members before the unit and nothing else**: for a unit `i` of a sequence `s` whose parent
pointers are in order (`i` and the members before it point to `s`, and are pairwise distinct objects), the walk on the object
graph returns what `detect` returns on the list of their kinds, nearest first - whatever the members hold as subunits of their
own, whatever stands behind `i`, whatever else is in the graph -/
theorem detectNav_members (w : WalkSpec) (auto : Bool) (h : Heap) (s i : Nat) (pre post : List Nat)
    (hs : h.subs s = pre ++ i :: post) (hnd : (pre ++ [i]).Nodup) (hp : ∀ x ∈ pre ++ [i], h.parent x = some s)
    (fuel : Nat) (hf : pre.length ≤ fuel) :
    detectNav w expectedPrev auto h i fuel = .val (detect w auto true (pre.map h.kind).reverse) := by
  have hi : h.parent i = some s := hp i (by simp)
  have hni : i ∉ pre := by
    rw [List.nodup_append] at hnd
    exact fun hm => hnd.2.2 i hm i (by simp) rfl
  have hpi := prevOf_member h s i pre post hs hni hi
  rcases List.eq_nil_or_concat pre with rfl | ⟨pre', q, hq⟩
  · simp only [detectNav, detect, hi, hpi]
    cases (!w.needsAuto || auto) <;> simp
  · rw [List.concat_eq_append] at hq
    subst hq
    have hnd' : (pre' ++ [q]).Nodup := by
      rw [List.nodup_append] at hnd; exact hnd.1
    have hs' : h.subs s = pre'.reverse.reverse ++ q :: (i :: post) := by simp [hs]
    have hw := walkNav_members_rev w h s pre'.reverse q (i :: post) fuel hs' (by simpa using hnd')
      (fun x hx => hp x (by simp at hx ⊢; rcases hx with h1 | h1 <;> simp [h1])) (by simp at hf ⊢; omega)
    simp only [detectNav, detect, hi, hpi]
    cases (!w.needsAuto || auto) <;> simp [hw, List.map_reverse]

/-! ### `_SubUnitsList` and `flatten` -/

def expectedListOps : ListOpsSpec :=
  { init := [.super, .eachParent true], clear := [.eachParent false, .super] }

def expectedFlatten : FlattenSpec := [.main [.collect, .clear, .orphan], .install]

theorem runClear_kind (it : Nat) : ∀ (l : List ListStmt) (h : Heap), (runClear it l h).kind = h.kind ∧ (runClear it l h).isSeq = h.isSeq
  | [], h => by simp [runClear]
  | .super :: r, h => by simpa [runClear, Heap.setSubs] using runClear_kind it r (h.setSubs it [])
  | .eachParent b :: r, h => by
    simpa [runClear, Heap.setParents] using runClear_kind it r (h.setParents (h.subs it) (if b then some it else none))

theorem runItemOps_kind (L : ListOpsSpec) (it : Nat) :
    ∀ (ops : List ItemOp) (st : FS), (runItemOps L it ops st).h.kind = st.h.kind ∧ (runItemOps L it ops st).h.isSeq = st.h.isSeq
  | [], st => by simp [runItemOps]
  | .collect :: r, st => by simpa [runItemOps] using runItemOps_kind L it r _
  | .clear :: r, st => by
    have := runItemOps_kind L it r { st with h := runClear it L.clear st.h }
    simpa [runItemOps, runClear_kind] using this
  | .orphan :: r, st => by simpa [runItemOps, Heap.setParents] using runItemOps_kind L it r { st with h := st.h.setParents [it] none }
  | .remember :: r, st => by simpa [runItemOps] using runItemOps_kind L it r _

theorem runMain_kind (L : ListOpsSpec) (ops : List ItemOp) :
    ∀ (items : List Nat) (st : FS), (runMain L ops items st).h.kind = st.h.kind ∧ (runMain L ops items st).h.isSeq = st.h.isSeq
  | [], st => by simp [runMain]
  | it :: r, st => by
    simp only [runMain]
    split
    · have := runMain_kind L ops r (runItemOps L it ops st)
      simpa [runItemOps_kind] using this
    · simpa using runMain_kind L ops r { st with acc := st.acc ++ [it] }

/-- the loop of `flatten` (as read): `new_list` receives, member by member, the member itself or - for a sequence - its units -/
theorem runMain_acc (h0 : Heap) :
    ∀ (items : List Nat) (st : FS), items.Nodup →
      (∀ it ∈ items, st.h.subs it = h0.subs it) → st.h.isSeq = h0.isSeq →
      (runMain expectedListOps [.collect, .clear, .orphan] items st).acc =
        st.acc ++ items.flatMap (fun it => if h0.isSeq it then h0.subs it else [it])
  | [], st, _, _, _ => by simp [runMain]
  | it :: r, st, hnd, hsub, hseq => by
    have hit : it ∉ r := (List.nodup_cons.1 hnd).1
    have hr : r.Nodup := (List.nodup_cons.1 hnd).2
    simp only [runMain, hseq]
    cases hq : h0.isSeq it with
    | false =>
      have := runMain_acc h0 r { st with acc := st.acc ++ [it] } hr (fun x hx => hsub x (by simp [hx])) hseq
      simp [this, hq]
    | true =>
      have := runMain_acc h0 r (runItemOps expectedListOps it [.collect, .clear, .orphan] st) hr
        (fun x hx => by
          have hne : x ≠ it := fun e => hit (e ▸ hx)
          simp [runItemOps, runClear, expectedListOps, Heap.setParents, Heap.setSubs, hne, hsub x (by simp [hx])])
        (by simp [runItemOps, runClear, expectedListOps, Heap.setParents, Heap.setSubs, hseq])
      simp only [if_true]
      rw [this]
      simp [runItemOps, hsub it (by simp), hq]

/-- **`flatten` hands every unit over to the flattened sequence**: afterwards each member of `s` has `s` as parent (the new list
is installed LAST, after the dissolved sub-sequences were emptied) -/
theorem flatten_adopts (h : Heap) (s : Nat) :
    ∀ u ∈ (flatten expectedListOps expectedFlatten h s).subs s,
      (flatten expectedListOps expectedFlatten h s).parent u = some s := by
  intro u hu
  simp only [flatten, expectedFlatten, runPhases, expectedListOps, runInit, Heap.setSubs, Heap.setParents] at hu ⊢
  simp only [if_true] at hu
  simp [hu]

/-- … in the order of the members, a member that is a sequence replaced by its units -/
theorem flatten_members (h : Heap) (s : Nat) (hnd : (h.subs s).Nodup) :
    (flatten expectedListOps expectedFlatten h s).subs s = flatMembers h s := by
  have := runMain_acc h (h.subs s) { h := h, acc := [], kept := [] } hnd (fun _ _ => rfl) rfl
  simp only [flatten, expectedFlatten, runPhases, expectedListOps, runInit, Heap.setSubs, flatMembers]
  simpa [expectedListOps] using this

theorem flatten_kind (h : Heap) (s : Nat) : (flatten expectedListOps expectedFlatten h s).kind = h.kind := by
  simp only [flatten, expectedFlatten, runPhases, expectedListOps, runInit, Heap.setSubs, Heap.setParents]
  exact (runMain_kind _ _ _ _).1

end Rot
