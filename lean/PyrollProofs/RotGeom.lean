import PyrollModel.GeomRot
import PyrollProofs.RealNum

/-!
Helper lemmas for C14 (geometry over ℝ): a rotation about the origin preserves the cross product and the distance of any
two points, hence the shoelace sum and the edge-length sum of every coordinate ring; rotations compose additively.
-/

namespace GeomRot

theorem rotate_x (t : ℝ) (p : Pt ℝ) : (rotate t p).x = Real.cos t * p.x - Real.sin t * p.y := rfl
theorem rotate_y (t : ℝ) (p : Pt ℝ) : (rotate t p).y = Real.sin t * p.x + Real.cos t * p.y := rfl

theorem rad_real (d : ℝ) : rad d = d * Real.pi / 180 := by
  simp [rad]

theorem cross_rotate (t : ℝ) (p q : Pt ℝ) : cross (rotate t p) (rotate t q) = cross p q := by
  simp only [cross, rotate_x, rotate_y]
  linear_combination (p.x * q.y - q.x * p.y) * Real.sin_sq_add_cos_sq t

theorem distArg_rotate (t : ℝ) (p q : Pt ℝ) :
    ((rotate t q).x - (rotate t p).x) * ((rotate t q).x - (rotate t p).x)
      + ((rotate t q).y - (rotate t p).y) * ((rotate t q).y - (rotate t p).y)
    = (q.x - p.x) * (q.x - p.x) + (q.y - p.y) * (q.y - p.y) := by
  simp only [rotate_x, rotate_y]
  linear_combination ((q.x - p.x) * (q.x - p.x) + (q.y - p.y) * (q.y - p.y)) * Real.sin_sq_add_cos_sq t

theorem dist_rotate (t : ℝ) (p q : Pt ℝ) : dist (rotate t p) (rotate t q) = dist p q := by
  unfold dist
  rw [distArg_rotate]

theorem sumCross_map_rotate (t : ℝ) : ∀ ps : List (Pt ℝ), sumCross (ps.map (rotate t)) = sumCross ps
  | [] => rfl
  | [_] => rfl
  | p :: q :: r => by
    have ih := sumCross_map_rotate t (q :: r)
    simp only [List.map_cons] at ih ⊢
    simp only [sumCross, cross_rotate, ih]

theorem perimeter_map_rotate (t : ℝ) : ∀ ps : List (Pt ℝ), perimeter (ps.map (rotate t)) = perimeter ps
  | [] => rfl
  | [_] => rfl
  | p :: q :: r => by
    have ih := perimeter_map_rotate t (q :: r)
    simp only [List.map_cons] at ih ⊢
    simp only [perimeter, dist_rotate, ih]

theorem rotate_rotate (s t : ℝ) (p : Pt ℝ) : rotate s (rotate t p) = rotate (s + t) p := by
  have hx : (rotate s (rotate t p)).x = (rotate (s + t) p).x := by
    simp only [rotate_x, rotate_y, Real.cos_add, Real.sin_add]; ring
  have hy : (rotate s (rotate t p)).y = (rotate (s + t) p).y := by
    simp only [rotate_x, rotate_y, Real.cos_add, Real.sin_add]; ring
  cases h1 : rotate s (rotate t p); cases h2 : rotate (s + t) p
  simp only [h1, h2] at hx hy
  simp [hx, hy]

theorem rotate_zero (p : Pt ℝ) : rotate 0 p = p := by
  cases p
  simp [rotate]

theorem rotate_two_pi (p : Pt ℝ) : rotate (2 * Real.pi) p = p := by
  cases p
  simp [rotate]

end GeomRot
