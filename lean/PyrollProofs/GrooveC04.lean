import PyrollModel.Gen.C04Groove
import PyrollProofs.RealNum

/-!
# Closed forms of the GENERATED junction chain (helper lemmas for C04, reusable by C03)

`Gen.C04.Groove.z0 … y12` are the terms the translator reads out of `GenericElongationGroove.__init__`.  The lemmas
below evaluate them over ℝ for an arbitrary argument environment `σ` (the values `__init__` works with after the
fourth-of-four resolution) and bring the angles into the form the geometry needs
(`α3/2 + β = α4`, `α3/2 − β = α3 − α4`, `γ = π/2 − flank_angle`).
-/

open Gen.C04.Groove

namespace GrooveC04

theorem tan_half_cos (h d : ℝ) (hc : Real.cos h ≠ 0) :
    Real.tan h * (Real.cos (h - d) + Real.cos (h + d)) = Real.sin (h - d) + Real.sin (h + d) := by
  rw [Real.tan_eq_sin_div_cos, Real.cos_sub, Real.cos_add, Real.sin_sub, Real.sin_add]; field_simp; ring

theorem tan_half_sin (h d : ℝ) (hc : Real.cos h ≠ 0) :
    Real.tan h * (Real.sin (h + d) - Real.sin (h - d)) = Real.cos (h - d) - Real.cos (h + d) := by
  rw [Real.tan_eq_sin_div_cos, Real.cos_sub, Real.cos_add, Real.sin_sub, Real.sin_add]; field_simp; ring

theorem tan_half_mem (α : ℝ) (h0 : 0 < α) (h1 : α < Real.pi / 2) :
    0 < Real.tan (α / 2) ∧ Real.tan (α / 2) < 1 := by
  have hpi := Real.pi_pos
  constructor
  · exact Real.tan_pos_of_pos_of_lt_pi_div_two (by linarith) (by linarith)
  · rw [← Real.tan_pi_div_four]
    exact Real.tan_lt_tan_of_lt_of_lt_pi_div_two (by linarith) (by linarith) (by linarith)

/-- The residual of the `even_ground_width + usable_width` branch of `solve_box_like`,
    `d − (W − r·tan(α/2))·tan α`, has at most one root in `(0, π/2)` when `0 ≤ r ≤ W`, `0 < W`. -/
theorem box_res_inj (W r d α β : ℝ) (hrW : r ≤ W) (hW : 0 < W)
    (hα0 : 0 < α) (hα1 : α < Real.pi / 2) (hβ0 : 0 < β) (hβ1 : β < Real.pi / 2)
    (hα : d - (W - r * Real.tan (α / 2)) * Real.tan α = 0)
    (hβ : d - (W - r * Real.tan (β / 2)) * Real.tan β = 0) : α = β := by
  obtain ⟨t0, t1⟩ := tan_half_mem α hα0 hα1
  obtain ⟨s0, s1⟩ := tan_half_mem β hβ0 hβ1
  have eα : Real.tan α = 2 * Real.tan (α / 2) / (1 - Real.tan (α / 2) ^ 2) := by
    rw [← Real.tan_two_mul]; congr 1; ring
  have eβ : Real.tan β = 2 * Real.tan (β / 2) / (1 - Real.tan (β / 2) ^ 2) := by
    rw [← Real.tan_two_mul]; congr 1; ring
  rw [eα] at hα; rw [eβ] at hβ
  set t := Real.tan (α / 2) with ht
  set s := Real.tan (β / 2) with hs
  have ht2 : 1 - t ^ 2 ≠ 0 := by nlinarith
  have hs2 : 1 - s ^ 2 ≠ 0 := by nlinarith
  have key : (t - s) * (W * (1 + t * s) - r * (t + s)) = 0 := by
    field_simp at hα hβ
    linear_combination (-(1 - s ^ 2) / 2) * hα + ((1 - t ^ 2) / 2) * hβ
  have pos : 0 < W * (1 + t * s) - r * (t + s) := by
    have h1 : 0 < (1 - t) * (1 - s) := mul_pos (by linarith) (by linarith)
    have h2 : 0 ≤ (W - r) * (t + s) := mul_nonneg (by linarith) (by linarith)
    nlinarith
  have hts : t = s := by
    rcases mul_eq_zero.mp key with h | h
    · linarith
    · linarith
  have hpi := Real.pi_pos
  have := Real.injOn_tan (show α / 2 ∈ Set.Ioo (-(Real.pi / 2)) (Real.pi / 2) from ⟨by linarith, by linarith⟩)
    (show β / 2 ∈ Set.Ioo (-(Real.pi / 2)) (Real.pi / 2) from ⟨by linarith, by linarith⟩) hts
  linarith

/-- half-angle form used by `solve_box_like`: `tan(x/2) = (1 − cos x)/sin x` -/
theorem tan_half_eq (x : ℝ) (hs : Real.sin x ≠ 0) : Real.tan (x / 2) = (1 - Real.cos x) / Real.sin x := by
  have h2 : x = 2 * (x / 2) := by ring
  have hsx : Real.sin x = 2 * Real.sin (x / 2) * Real.cos (x / 2) := by
    conv_lhs => rw [h2]
    exact Real.sin_two_mul _
  have hcx : Real.cos x = 2 * Real.cos (x / 2) ^ 2 - 1 := by
    conv_lhs => rw [h2]
    exact Real.cos_two_mul _
  have hc2 : Real.cos (x / 2) ≠ 0 := by
    intro h; apply hs; rw [hsx, h]; ring
  have hs2 : Real.sin (x / 2) ≠ 0 := by
    intro h; apply hs; rw [hsx, h]; ring
  rw [Real.tan_eq_sin_div_cos, hsx, hcx]
  field_simp
  linear_combination (2 : ℝ) * Real.sin_sq_add_cos_sq (x / 2)

/-- the part of the `width is None` residual of `solve_r124` that does not depend on the flank mode,
    `r2·(1 − cos x) + r1·tan((x+p)/2)·sin x`, is strictly increasing on `(0, π/2)` -/
theorem r124_core_strictMono (r1 r2 p α β : ℝ) (hr1 : 0 ≤ r1) (hr2 : 0 < r2) (hp0 : 0 ≤ p) (hp1 : p < Real.pi / 2)
    (hα : 0 < α) (hαβ : α < β) (hβ : β < Real.pi / 2) :
    r2 * (1 - Real.cos α) + r1 * Real.tan ((α + p) / 2) * Real.sin α
      < r2 * (1 - Real.cos β) + r1 * Real.tan ((β + p) / 2) * Real.sin β := by
  have hpi := Real.pi_pos
  have hc : Real.cos β < Real.cos α :=
    Real.cos_lt_cos_of_nonneg_of_le_pi_div_two hα.le hβ.le hαβ
  have hs : Real.sin α < Real.sin β :=
    Real.sin_lt_sin_of_lt_of_le_pi_div_two (by linarith) hβ.le hαβ
  have hs0 : 0 < Real.sin α := Real.sin_pos_of_pos_of_lt_pi hα (by linarith)
  have ht : Real.tan ((α + p) / 2) < Real.tan ((β + p) / 2) :=
    Real.tan_lt_tan_of_lt_of_lt_pi_div_two (by linarith) (by linarith) (by linarith)
  have ht0 : 0 < Real.tan ((α + p) / 2) :=
    Real.tan_pos_of_pos_of_lt_pi_div_two (by linarith) (by linarith)
  have h1 : r2 * (1 - Real.cos α) < r2 * (1 - Real.cos β) := by
    apply mul_lt_mul_of_pos_left _ hr2; linarith
  have h2 : Real.tan ((α + p) / 2) * Real.sin α ≤ Real.tan ((β + p) / 2) * Real.sin β :=
    mul_le_mul ht.le hs.le hs0.le (ht0.trans ht).le
  have h3 : r1 * Real.tan ((α + p) / 2) * Real.sin α ≤ r1 * Real.tan ((β + p) / 2) * Real.sin β := by
    rw [mul_assoc, mul_assoc]; exact mul_le_mul_of_nonneg_left h2 hr1
  linarith

variable (σ : String → ℝ)

/-- tangent length of the face fillet `r1` (the code's `l12`, and the solvers' `l23`) -/
noncomputable def lt (σ : String → ℝ) : ℝ := σ "r1" * Real.tan ((σ "flank_angle" + σ "pad_angle") / 2)

theorem eval_l12 : Expr.eval σ l12 = lt σ := by
  simp only [l12, alpha1, Expr.eval, lt, PyNum.nat_real, PyNum.tan_real, Nat.cast_ofNat]

/-! ### face side: junctions 2, 1, 12 (centre of r1), 3 -/

theorem eval_z2 : Expr.eval σ z2 = σ "usable_width" / 2 := by
  simp only [z2, Expr.eval, PyNum.nat_real, Nat.cast_ofNat]

theorem eval_y2 : Expr.eval σ y2 = 0 := by
  simp only [y2, Expr.eval, PyNum.nat_real, Nat.cast_zero]

theorem eval_z1 : Expr.eval σ z1 = σ "usable_width" / 2 + lt σ * Real.cos (σ "pad_angle") := by
  simp only [z1, Expr.eval, eval_z2, eval_l12, PyNum.cos_real]

theorem eval_y1 : Expr.eval σ y1 = lt σ * Real.sin (σ "pad_angle") := by
  simp only [y1, Expr.eval, eval_l12, PyNum.sin_real]

theorem eval_z12 : Expr.eval σ z12
    = σ "usable_width" / 2 + lt σ * Real.cos (σ "pad_angle") - σ "r1" * Real.sin (σ "pad_angle") := by
  simp only [z12, Expr.eval, eval_z1, PyNum.sin_real]

theorem eval_y12 : Expr.eval σ y12 = lt σ * Real.sin (σ "pad_angle") + σ "r1" * Real.cos (σ "pad_angle") := by
  simp only [y12, Expr.eval, eval_y1, PyNum.cos_real]

/-- junction 3 (flank / r1) lies on the flank line through `(usable_width/2, 0)`, the tangent length `lt` away -/
theorem eval_z3 (hc : Real.cos ((σ "flank_angle" + σ "pad_angle") / 2) ≠ 0) :
    Expr.eval σ z3 = σ "usable_width" / 2 - lt σ * Real.cos (σ "flank_angle") := by
  have h1 := tan_half_cos ((σ "flank_angle" + σ "pad_angle") / 2) ((σ "flank_angle" - σ "pad_angle") / 2) hc
  rw [show (σ "flank_angle" + σ "pad_angle") / 2 - (σ "flank_angle" - σ "pad_angle") / 2 = σ "pad_angle" by ring,
      show (σ "flank_angle" + σ "pad_angle") / 2 + (σ "flank_angle" - σ "pad_angle") / 2 = σ "flank_angle" by ring] at h1
  simp only [z3, Expr.eval, eval_z12, PyNum.sin_real, lt] at *
  linear_combination (σ "r1") * h1

theorem eval_y3 (hc : Real.cos ((σ "flank_angle" + σ "pad_angle") / 2) ≠ 0) :
    Expr.eval σ y3 = lt σ * Real.sin (σ "flank_angle") := by
  have h1 := tan_half_sin ((σ "flank_angle" + σ "pad_angle") / 2) ((σ "flank_angle" - σ "pad_angle") / 2) hc
  rw [show (σ "flank_angle" + σ "pad_angle") / 2 - (σ "flank_angle" - σ "pad_angle") / 2 = σ "pad_angle" by ring,
      show (σ "flank_angle" + σ "pad_angle") / 2 + (σ "flank_angle" - σ "pad_angle") / 2 = σ "flank_angle" by ring] at h1
  simp only [y3, Expr.eval, eval_y12, PyNum.cos_real, lt] at *
  linear_combination (-(σ "r1")) * h1

/-! ### centre side: junctions 9, 7, 8 (centre of r4), 6, 10 (centre of r3), 5, 11 (centre of r2), 4 -/

theorem eval_alpha1 : Expr.eval σ alpha1 = σ "flank_angle" + σ "pad_angle" := by
  simp only [alpha1, Expr.eval]

theorem eval_alpha2 : Expr.eval σ alpha2 = σ "flank_angle" + σ "alpha4" - σ "alpha3" := by
  simp only [alpha2, Expr.eval]

theorem eval_beta : Expr.eval σ beta = σ "alpha4" - σ "alpha3" / 2 := by
  simp only [beta, Expr.eval, PyNum.nat_real, Nat.cast_ofNat]

theorem eval_gamma : Expr.eval σ gamma = Real.pi / 2 - σ "flank_angle" := by
  simp only [gamma, Expr.eval, eval_alpha2, PyNum.nat_real, PyNum.pi_real, Nat.cast_ofNat]; ring

theorem eval_z9 : Expr.eval σ z9 = 0 := by simp only [z9, Expr.eval, PyNum.nat_real, Nat.cast_zero]
theorem eval_y9 : Expr.eval σ y9 = σ "depth" - σ "indent" := by simp only [y9, Expr.eval]
theorem eval_z7 : Expr.eval σ z7 = σ "even_ground_width" / 2 := by
  simp only [z7, Expr.eval, PyNum.nat_real, Nat.cast_ofNat]
theorem eval_y7 : Expr.eval σ y7 = σ "depth" - σ "indent" := by simp only [y7, eval_y9]
theorem eval_z8 : Expr.eval σ z8 = σ "even_ground_width" / 2 := by simp only [z8, eval_z7]
theorem eval_y8 : Expr.eval σ y8 = σ "depth" - σ "indent" + σ "r4" := by simp only [y8, Expr.eval, eval_y9]

theorem eval_z6 : Expr.eval σ z6 = σ "even_ground_width" / 2 + σ "r4" * Real.sin (σ "alpha4") := by
  simp only [z6, Expr.eval, eval_z8, PyNum.sin_real]
theorem eval_y6 : Expr.eval σ y6 = σ "depth" - σ "indent" + σ "r4" - σ "r4" * Real.cos (σ "alpha4") := by
  simp only [y6, Expr.eval, eval_y8, PyNum.cos_real]

theorem eval_z10 : Expr.eval σ z10 = Expr.eval σ z6 + σ "r3" * Real.sin (σ "alpha4") := by
  simp only [z10, Expr.eval, eval_beta, PyNum.sin_real, PyNum.nat_real, Nat.cast_ofNat]
  rw [show σ "alpha3" / 2 + (σ "alpha4" - σ "alpha3" / 2) = σ "alpha4" by ring]
theorem eval_y10 : Expr.eval σ y10 = Expr.eval σ y6 - σ "r3" * Real.cos (σ "alpha4") := by
  simp only [y10, Expr.eval, eval_beta, PyNum.cos_real, PyNum.nat_real, Nat.cast_ofNat]
  rw [show σ "alpha3" / 2 + (σ "alpha4" - σ "alpha3" / 2) = σ "alpha4" by ring]

theorem eval_z5 : Expr.eval σ z5 = Expr.eval σ z10 + σ "r3" * Real.sin (σ "alpha3" - σ "alpha4") := by
  simp only [z5, Expr.eval, eval_beta, PyNum.sin_real, PyNum.nat_real, Nat.cast_ofNat]
  rw [show σ "alpha3" / 2 - (σ "alpha4" - σ "alpha3" / 2) = σ "alpha3" - σ "alpha4" by ring]
theorem eval_y5 : Expr.eval σ y5 = Expr.eval σ y10 + σ "r3" * Real.cos (σ "alpha3" - σ "alpha4") := by
  simp only [y5, Expr.eval, eval_beta, PyNum.cos_real, PyNum.nat_real, Nat.cast_ofNat]
  rw [show σ "alpha3" / 2 - (σ "alpha4" - σ "alpha3" / 2) = σ "alpha3" - σ "alpha4" by ring]

theorem eval_z11 : Expr.eval σ z11
    = Expr.eval σ z10 + (σ "r3" - σ "r2") * Real.sin (σ "alpha3" - σ "alpha4") := by
  simp only [z11, Expr.eval, eval_beta, PyNum.sin_real, PyNum.nat_real, Nat.cast_ofNat]
  rw [show σ "alpha3" / 2 - (σ "alpha4" - σ "alpha3" / 2) = σ "alpha3" - σ "alpha4" by ring]
theorem eval_y11 : Expr.eval σ y11
    = Expr.eval σ y10 + (σ "r3" - σ "r2") * Real.cos (σ "alpha3" - σ "alpha4") := by
  simp only [y11, Expr.eval, eval_beta, PyNum.cos_real, PyNum.nat_real, Nat.cast_ofNat]
  rw [show σ "alpha3" / 2 - (σ "alpha4" - σ "alpha3" / 2) = σ "alpha3" - σ "alpha4" by ring]

theorem eval_z4 : Expr.eval σ z4 = Expr.eval σ z11 + σ "r2" * Real.sin (σ "flank_angle") := by
  simp only [z4, Expr.eval, eval_gamma, PyNum.cos_real, Real.cos_pi_div_two_sub]
theorem eval_y4 : Expr.eval σ y4 = Expr.eval σ y11 + σ "r2" * Real.cos (σ "flank_angle") := by
  simp only [y4, Expr.eval, eval_gamma, PyNum.sin_real, Real.sin_pi_div_two_sub]

/-- junction 4 (r2 / flank) in closed form -/
theorem z4_closed : Expr.eval σ z4
    = σ "even_ground_width" / 2 + (σ "r4" + σ "r3") * Real.sin (σ "alpha4")
      + (σ "r3" - σ "r2") * Real.sin (σ "alpha3" - σ "alpha4") + σ "r2" * Real.sin (σ "flank_angle") := by
  rw [eval_z4, eval_z11, eval_z10, eval_z6]; ring

theorem y4_closed : Expr.eval σ y4
    = σ "depth" - σ "indent" + σ "r4" - (σ "r4" + σ "r3") * Real.cos (σ "alpha4")
      + (σ "r3" - σ "r2") * Real.cos (σ "alpha3" - σ "alpha4") + σ "r2" * Real.cos (σ "flank_angle") := by
  rw [eval_y4, eval_y11, eval_y10, eval_y6]; ring

/-- the flank line of the code (`_flank_contour_line`) at the abscissa `σ "z"` -/
theorem eval_flank : Expr.eval σ fn_flank_contour_line
    = Expr.eval σ y3 - Real.tan (σ "flank_angle") * (σ "z" - Expr.eval σ z3) := by
  simp only [fn_flank_contour_line, Expr.eval, PyNum.tan_real]

end GrooveC04
