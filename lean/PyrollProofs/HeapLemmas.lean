import PyrollModel.Heap

/-! Helper lemmas for C12, part 1 (core Lean only): the primitives of the heap model, well-formedness,
ownership, heap extension, and the tracking invariant `Trk` that is threaded through `solve`. -/

namespace Heap

/-! ### association lists -/

theorem lookup_setF_same (l : List (Nat × Nat)) (f v : Nat) : (setF l f v).lookup f = some v := by
  induction l with
  | nil => simp [setF]
  | cons e r ih =>
    simp only [setF]
    split
    · simp [List.lookup]
    · rename_i hne
      simp only [List.lookup]
      have : (f == e.1) = false := by
        simp only [beq_eq_false_iff_ne, ne_eq]; intro h; exact hne h.symm
      rw [this]; exact ih

theorem lookup_setF_ne (l : List (Nat × Nat)) (f v g : Nat) (h : g ≠ f) :
    (setF l f v).lookup g = l.lookup g := by
  induction l with
  | nil =>
    simp only [setF, List.lookup]
    have : (g == f) = false := by simp [h]
    rw [this]
  | cons e r ih =>
    simp only [setF]
    split
    · rename_i he
      simp only [List.lookup]
      have h1 : (g == f) = false := by simp [h]
      have h2 : (g == e.1) = false := by rw [he]; exact h1
      rw [h1, h2]
    · simp only [List.lookup]
      split
      · rfl
      · exact ih

theorem mem_setF {l : List (Nat × Nat)} {f v : Nat} {e : Nat × Nat} (h : e ∈ setF l f v) :
    e ∈ l ∨ e = (f, v) := by
  induction l with
  | nil => simp [setF] at h; right; exact h
  | cons a r ih =>
    simp only [setF] at h
    split at h
    · simp only [List.mem_cons] at h
      rcases h with h | h
      · right; exact h
      · left; exact List.mem_cons_of_mem _ h
    · simp only [List.mem_cons] at h
      rcases h with h | h
      · left; rw [h]; exact List.mem_cons_self
      · rcases ih h with h | h
        · left; exact List.mem_cons_of_mem _ h
        · right; exact h

theorem mem_of_lookup {l : List (Nat × Nat)} {f v : Nat} (h : l.lookup f = some v) : (f, v) ∈ l := by
  induction l with
  | nil => simp [List.lookup] at h
  | cons a r ih =>
    obtain ⟨k, w⟩ := a
    simp only [List.lookup] at h
    split at h
    · rename_i heq
      have : f = k := by simpa using heq
      simp only [Option.some.injEq] at h
      subst this; subst h; exact List.mem_cons_self
    · exact List.mem_cons_of_mem _ (ih h)

/-- lookup after `del d[f]` -/
theorem lookup_filter_ne (l : List (Nat × Nat)) (f g : Nat) :
    (l.filter (fun e => e.1 != f)).lookup g = if g = f then none else l.lookup g := by
  induction l with
  | nil => simp
  | cons e r ih =>
    obtain ⟨k, w⟩ := e
    by_cases hk : k = f
    · subst hk
      have e1 : ((k, w) :: r).filter (fun e => e.1 != k) = r.filter (fun e => e.1 != k) := by simp
      rw [e1, ih]
      by_cases hg : g = k
      · simp [hg]
      · have : (g == k) = false := by simp [hg]
        simp [hg, List.lookup, this]
    · have e1 : ((k, w) :: r).filter (fun e => e.1 != f) = (k, w) :: r.filter (fun e => e.1 != f) := by simp [hk]
      rw [e1]
      simp only [List.lookup]
      by_cases hg : g = k
      · subst hg; simp [hk]
      · have : (g == k) = false := by simp [hg]
        rw [this]; exact ih

/-- the public part of a dict answers for public names like the dict -/
theorem lookup_filter_pred (l : List (Nat × Nat)) (q : Nat → Bool) (g : Nat) (hq : q g = true) :
    (l.filter (fun e => q e.1)).lookup g = l.lookup g := by
  induction l with
  | nil => rfl
  | cons e r ih =>
    obtain ⟨k, w⟩ := e
    by_cases hg : g = k
    · subst hg
      have e1 : ((g, w) :: r).filter (fun e => q e.1) = (g, w) :: r.filter (fun e => q e.1) := by simp [hq]
      rw [e1]; simp [List.lookup]
    · have hb : (g == k) = false := by simp [hg]
      by_cases hk : q k = true
      · have e1 : ((k, w) :: r).filter (fun e => q e.1) = (k, w) :: r.filter (fun e => q e.1) := by simp [hk]
        rw [e1]; simp only [List.lookup, hb]; exact ih
      · have e1 : ((k, w) :: r).filter (fun e => q e.1) = r.filter (fun e => q e.1) := by simp [hk]
        rw [e1]; simp only [List.lookup, hb]; exact ih

/-! ### pointers -/

theorem mem_ptrs {ob : Obj} {v : Nat} :
    v ∈ ob.ptrs ↔ (∃ f, (f, v) ∈ ob.fields) ∨ ob.weak = some v ∨ v ∈ ob.items := by
  unfold Obj.ptrs
  simp only [List.mem_append, List.mem_map, Option.mem_toList]
  constructor
  · rintro ((⟨e, he, rfl⟩ | h) | h)
    · left; exact ⟨e.1, he⟩
    · right; left; exact h
    · right; right; exact h
  · rintro (⟨f, hf⟩ | h | h)
    · left; left; exact ⟨(f, v), hf, rfl⟩
    · left; right; exact h
    · right; exact h

theorem getF_mem_ptrs {h : H} {o f v : Nat} (hg : getF h o f = some v) : v ∈ (h.obj o).ptrs :=
  mem_ptrs.2 (Or.inl ⟨f, mem_of_lookup hg⟩)

/-- every pointer is allocated; unallocated slots are empty -/
structure Wf (h : H) : Prop where
  fresh : ∀ o, h.next ≤ o → h.obj o = {}
  closed : ∀ o v, v ∈ (h.obj o).ptrs → v < h.next

theorem Wf.getF_lt {h : H} (w : Wf h) {o f v : Nat} (hg : getF h o f = some v) : v < h.next :=
  w.closed o v (getF_mem_ptrs hg)

theorem Wf.lt_of_getF {h : H} (w : Wf h) {o f v : Nat} (hg : getF h o f = some v) : o < h.next := by
  apply Nat.lt_of_not_le
  intro hle
  have := w.fresh o hle
  simp [getF, this] at hg

theorem Wf.empty : Wf H.empty := ⟨fun _ _ => rfl, by intro o v h; simp [H.empty, Obj.ptrs] at h⟩

/-! ### typing of the ownership entries -/

def ownKind (f : Nat) : Kind := if f = fOUT then .outProfile else if f = fROLL then .passRoll else .subList

structure Typed (h : H) : Prop where
  own : ∀ o f v, isOwn f = true → getF h o f = some v → (h.obj v).kind = ownKind f
  items : ∀ l c, (h.obj l).kind = .subList → c ∈ (h.obj l).items → (h.obj c).kind = .unit

/-! ### ownership -/

/-- what a unit owns: itself, its out-profile, its pass roll, its sub-unit list and whatever its sub-units own -/
inductive Owned (h : H) : Nat → Nat → Prop
  | self (u : Nat) : Owned h u u
  | field {u f v : Nat} : isOwn f = true → getF h u f = some v → Owned h u v
  | child {u l c o : Nat} : getF h u fSUB = some l → c ∈ (h.obj l).items → Owned h c o → Owned h u o

def ownedKind (k : Kind) : Prop := k = .unit ∨ k = .outProfile ∨ k = .passRoll ∨ k = .subList

theorem ownKind_owned (f : Nat) : ownedKind (ownKind f) := by
  unfold ownKind ownedKind; split
  · right; left; rfl
  · split
    · right; right; left; rfl
    · right; right; right; rfl

theorem Owned.kind {h : H} (t : Typed h) {u o : Nat} (ho : Owned h u o) (hu : (h.obj u).kind = .unit) :
    ownedKind (h.obj o).kind := by
  induction ho with
  | self u => left; exact hu
  | field hf hg => rw [t.own _ _ _ hf hg]; exact ownKind_owned _
  | child hl hc _ ih =>
    apply ih
    apply t.items _ _ _ hc
    have := t.own _ _ _ (by decide) hl
    simpa [ownKind, fSUB, fOUT, fROLL] using this

theorem Owned.lt {h : H} (w : Wf h) {u o : Nat} (ho : Owned h u o) (hu : u < h.next) : o < h.next := by
  induction ho with
  | self u => exact hu
  | field _ hg => exact w.getF_lt hg
  | child hl hc _ ih =>
    apply ih
    exact w.closed _ _ (mem_ptrs.2 (Or.inr (Or.inr hc)))

/-! ### heap extension: what may happen to the ownership structure while solving relative to a base heap -/

structure Ext (hb h : H) : Prop where
  next_le : hb.next ≤ h.next
  oldOwn : ∀ o f v, o < hb.next → isOwn f = true → getF h o f = some v → getF hb o f = some v ∨ hb.next ≤ v
  oldItems : ∀ o, o < hb.next → (h.obj o).items = (hb.obj o).items
  oldContent : ∀ o, o < hb.next → (h.obj o).content = (hb.obj o).content
  kind : ∀ o, o < hb.next → (h.obj o).kind = (hb.obj o).kind
  newOwn : ∀ o f v, hb.next ≤ o → isOwn f = true → getF h o f = some v → hb.next ≤ v
  newItems : ∀ o c, hb.next ≤ o → c ∈ (h.obj o).items → hb.next ≤ c

theorem Ext.refl (h : H) (w : Wf h) : Ext h h where
  next_le := Nat.le_refl _
  oldOwn := fun _ _ _ _ _ hg => Or.inl hg
  oldItems := fun _ _ => rfl
  oldContent := fun _ _ => rfl
  kind := fun _ _ => rfl
  newOwn := by
    intro o f v ho _ hg
    have := w.fresh o ho
    simp [getF, this] at hg
  newItems := by
    intro o c ho hc
    have := w.fresh o ho
    simp [this] at hc

theorem Ext.trans {a b c : H} (h1 : Ext a b) (h2 : Ext b c) : Ext a c where
  next_le := Nat.le_trans h1.next_le h2.next_le
  oldOwn := by
    intro o f v ho hf hg
    rcases h2.oldOwn o f v (Nat.lt_of_lt_of_le ho h1.next_le) hf hg with h | h
    · exact h1.oldOwn o f v ho hf h
    · right; exact Nat.le_trans h1.next_le h
  oldItems := by
    intro o ho
    rw [h2.oldItems o (Nat.lt_of_lt_of_le ho h1.next_le), h1.oldItems o ho]
  oldContent := by
    intro o ho
    rw [h2.oldContent o (Nat.lt_of_lt_of_le ho h1.next_le), h1.oldContent o ho]
  kind := by
    intro o ho
    rw [h2.kind o (Nat.lt_of_lt_of_le ho h1.next_le), h1.kind o ho]
  newOwn := by
    intro o f v ho hf hg
    by_cases hb : o < b.next
    · rcases h2.oldOwn o f v hb hf hg with h | h
      · exact h1.newOwn o f v ho hf h
      · exact Nat.le_trans h1.next_le h
    · exact Nat.le_trans h1.next_le (h2.newOwn o f v (Nat.le_of_not_lt hb) hf hg)
  newItems := by
    intro o x ho hx
    by_cases hb : o < b.next
    · rw [h2.oldItems o hb] at hx
      exact h1.newItems o x ho hx
    · exact Nat.le_trans h1.next_le (h2.newItems o x (Nat.le_of_not_lt hb) hx)

/-- ownership in an extended heap is ownership in the base heap, or concerns objects allocated since -/
theorem owned_of_ext {hb h : H} (w : Wf hb) (e : Ext hb h) {u o : Nat} (ho : Owned h u o) :
    (u < hb.next → hb.next ≤ o ∨ Owned hb u o) ∧ (hb.next ≤ u → hb.next ≤ o) := by
  induction ho with
  | self u => exact ⟨fun _ => Or.inr (Owned.self u), fun h => h⟩
  | @field u f v hf hg =>
    constructor
    · intro hu
      rcases e.oldOwn u f v hu hf hg with h | h
      · right; exact Owned.field hf h
      · left; exact h
    · intro hu; exact e.newOwn u f v hu hf hg
  | @child u l c o hl hc _ ih =>
    constructor
    · intro hu
      rcases e.oldOwn u fSUB l hu (by decide) hl with h | h
      · have hl' : l < hb.next := w.getF_lt h
        rw [e.oldItems l hl'] at hc
        have hc' : c < hb.next := w.closed _ _ (mem_ptrs.2 (Or.inr (Or.inr hc)))
        rcases ih.1 hc' with h' | h'
        · left; exact h'
        · right; exact Owned.child h hc h'
      · left; exact ih.2 (e.newItems l c h hc)
    · intro hu
      have hl' := e.newOwn u fSUB l hu (by decide) hl
      exact ih.2 (e.newItems l c hl' hc)

/-! ### the primitives -/

@[simp] theorem alloc_next (s : S) (ob : Obj) : (s.alloc ob).1.h.next = s.h.next + 1 := rfl
@[simp] theorem alloc_id (s : S) (ob : Obj) : (s.alloc ob).2 = s.h.next := rfl
@[simp] theorem alloc_tr (s : S) (ob : Obj) : (s.alloc ob).1.tr = s.tr ++ [.alloc s.h.next] := rfl
@[simp] theorem alloc_its (s : S) (ob : Obj) : (s.alloc ob).1.its = s.its := rfl
theorem alloc_obj (s : S) (ob : Obj) (i : Nat) :
    (s.alloc ob).1.h.obj i = if i = s.h.next then ob else s.h.obj i := rfl

@[simp] theorem write_next (s : S) (o f v : Nat) : (s.write o f v).h.next = s.h.next := rfl
@[simp] theorem write_tr (s : S) (o f v : Nat) : (s.write o f v).tr = s.tr ++ [.write o f] := rfl
theorem write_obj (s : S) (o f v i : Nat) :
    (s.write o f v).h.obj i = if i = o then { s.h.obj o with fields := setF (s.h.obj o).fields f v } else s.h.obj i := rfl

@[simp] theorem del_next (s : S) (o f : Nat) : (s.del o f).h.next = s.h.next := rfl
@[simp] theorem del_tr (s : S) (o f : Nat) : (s.del o f).tr = s.tr ++ [.write o f] := rfl
theorem del_obj (s : S) (o f i : Nat) :
    (s.del o f).h.obj i =
      if i = o then { s.h.obj o with fields := (s.h.obj o).fields.filter (fun e => e.1 != f) } else s.h.obj i := rfl

@[simp] theorem setWeak_next (s : S) (o : Nat) (w : Option Nat) : (s.setWeak o w).h.next = s.h.next := rfl
@[simp] theorem setWeak_tr (s : S) (o : Nat) (w : Option Nat) : (s.setWeak o w).tr = s.tr ++ [.weakw o] := rfl
theorem setWeak_obj (s : S) (o : Nat) (w : Option Nat) (i : Nat) :
    (s.setWeak o w).h.obj i = if i = o then { s.h.obj o with weak := w } else s.h.obj i := rfl

@[simp] theorem setItems_next (s : S) (o : Nat) (l : List Nat) : (s.setItems o l).h.next = s.h.next := rfl
@[simp] theorem setItems_tr (s : S) (o : Nat) (l : List Nat) : (s.setItems o l).tr = s.tr ++ [.mutate o] := rfl
theorem setItems_obj (s : S) (o : Nat) (l : List Nat) (i : Nat) :
    (s.setItems o l).h.obj i = if i = o then { s.h.obj o with items := l } else s.h.obj i := rfl

@[simp] theorem setContent_next (s : S) (o : Nat) (c : List Nat) : (s.setContent o c).h.next = s.h.next := rfl
@[simp] theorem setContent_tr (s : S) (o : Nat) (c : List Nat) : (s.setContent o c).tr = s.tr ++ [.mutate o] := rfl
theorem setContent_obj (s : S) (o : Nat) (c : List Nat) (i : Nat) :
    (s.setContent o c).h.obj i = if i = o then { s.h.obj o with content := c } else s.h.obj i := rfl

@[simp] theorem setCache_next (s : S) (o : Nat) (c : List Nat) : (s.setCache o c).h.next = s.h.next := rfl
@[simp] theorem setCache_tr (s : S) (o : Nat) (c : List Nat) : (s.setCache o c).tr = s.tr ++ [.cachew o] := rfl
theorem setCache_obj (s : S) (o : Nat) (c : List Nat) (i : Nat) :
    (s.setCache o c).h.obj i = if i = o then { s.h.obj o with cache := c } else s.h.obj i := rfl

theorem getF_alloc (s : S) (ob : Obj) (o f : Nat) :
    getF (s.alloc ob).1.h o f = if o = s.h.next then ob.fields.lookup f else getF s.h o f := by
  unfold getF; rw [alloc_obj]; split <;> rfl

theorem getF_write (s : S) (o f v o' f' : Nat) :
    getF (s.write o f v).h o' f' = if o' = o ∧ f' = f then some v else getF s.h o' f' := by
  unfold getF; rw [write_obj]
  by_cases ho : o' = o
  · subst ho
    simp only [if_true, true_and]
    by_cases hf : f' = f
    · subst hf; simp [lookup_setF_same]
    · simp [hf, lookup_setF_ne _ _ _ _ hf]
  · simp [ho]

theorem getF_del (s : S) (o f o' f' : Nat) :
    getF (s.del o f).h o' f' = if o' = o ∧ f' = f then none else getF s.h o' f' := by
  unfold getF; rw [del_obj]
  by_cases ho : o' = o
  · subst ho
    simp only [if_true, true_and]
    exact lookup_filter_ne _ _ _
  · simp [ho]

theorem getF_setWeak (s : S) (o : Nat) (w : Option Nat) (o' f : Nat) :
    getF (s.setWeak o w).h o' f = getF s.h o' f := by
  unfold getF; rw [setWeak_obj]; split
  · rename_i h; subst h; rfl
  · rfl

theorem getF_setItems (s : S) (o : Nat) (l : List Nat) (o' f : Nat) :
    getF (s.setItems o l).h o' f = getF s.h o' f := by
  unfold getF; rw [setItems_obj]; split
  · rename_i h; subst h; rfl
  · rfl

theorem getF_setContent (s : S) (o : Nat) (c : List Nat) (o' f : Nat) :
    getF (s.setContent o c).h o' f = getF s.h o' f := by
  unfold getF; rw [setContent_obj]; split
  · rename_i h; subst h; rfl
  · rfl

theorem getF_setCache (s : S) (o : Nat) (c : List Nat) (o' f : Nat) :
    getF (s.setCache o c).h o' f = getF s.h o' f := by
  unfold getF; rw [setCache_obj]; split
  · rename_i h; subst h; rfl
  · rfl

/-! ### well-formedness is preserved -/

theorem Wf.alloc {s : S} (w : Wf s.h) (ob : Obj) (hp : ∀ v ∈ ob.ptrs, v < s.h.next) : Wf (s.alloc ob).1.h where
  fresh := by
    intro o ho
    simp only [alloc_next] at ho
    rw [alloc_obj]
    have : o ≠ s.h.next := by omega
    simp only [this, if_false]
    exact w.fresh o (by omega)
  closed := by
    intro o v hv
    simp only [alloc_next]
    rw [alloc_obj] at hv
    split at hv
    · have := hp v hv; omega
    · have := w.closed o v hv; omega

theorem Wf.write {s : S} (w : Wf s.h) {o f v : Nat} (ho : o < s.h.next) (hv : v < s.h.next) :
    Wf (s.write o f v).h where
  fresh := by
    intro i hi
    simp only [write_next] at hi
    rw [write_obj]
    have : i ≠ o := by omega
    simp only [this, if_false]
    exact w.fresh i hi
  closed := by
    intro i x hx
    simp only [write_next]
    rw [write_obj] at hx
    split at hx
    · rcases mem_ptrs.1 hx with ⟨g, hg⟩ | h | h
      · rcases mem_setF hg with h | h
        · exact w.closed o x (mem_ptrs.2 (Or.inl ⟨g, h⟩))
        · have : x = v := by simpa using congrArg Prod.snd h
          omega
      · exact w.closed o x (mem_ptrs.2 (Or.inr (Or.inl h)))
      · exact w.closed o x (mem_ptrs.2 (Or.inr (Or.inr h)))
    · exact w.closed i x hx

theorem Wf.del {s : S} (w : Wf s.h) {o f : Nat} (ho : o < s.h.next) : Wf (s.del o f).h where
  fresh := by
    intro i hi
    simp only [del_next] at hi
    rw [del_obj]
    have : i ≠ o := by omega
    simp only [this, if_false]
    exact w.fresh i hi
  closed := by
    intro i x hx
    simp only [del_next]
    rw [del_obj] at hx
    split at hx
    · rcases mem_ptrs.1 hx with ⟨g, hg⟩ | h | h
      · exact w.closed o x (mem_ptrs.2 (Or.inl ⟨g, (List.mem_filter.1 hg).1⟩))
      · exact w.closed o x (mem_ptrs.2 (Or.inr (Or.inl h)))
      · exact w.closed o x (mem_ptrs.2 (Or.inr (Or.inr h)))
    · exact w.closed i x hx

theorem Wf.setWeak {s : S} (w : Wf s.h) {o : Nat} {wk : Option Nat} (ho : o < s.h.next)
    (hw : ∀ t, wk = some t → t < s.h.next) : Wf (s.setWeak o wk).h where
  fresh := by
    intro i hi
    simp only [setWeak_next] at hi
    rw [setWeak_obj]
    have : i ≠ o := by omega
    simp only [this, if_false]
    exact w.fresh i hi
  closed := by
    intro i x hx
    simp only [setWeak_next]
    rw [setWeak_obj] at hx
    split at hx
    · rcases mem_ptrs.1 hx with ⟨g, hg⟩ | h | h
      · exact w.closed o x (mem_ptrs.2 (Or.inl ⟨g, hg⟩))
      · exact hw x h
      · exact w.closed o x (mem_ptrs.2 (Or.inr (Or.inr h)))
    · exact w.closed i x hx

theorem Wf.setItems {s : S} (w : Wf s.h) {o : Nat} {l : List Nat} (ho : o < s.h.next)
    (hl : ∀ c ∈ l, c < s.h.next) : Wf (s.setItems o l).h where
  fresh := by
    intro i hi
    simp only [setItems_next] at hi
    rw [setItems_obj]
    have : i ≠ o := by omega
    simp only [this, if_false]
    exact w.fresh i hi
  closed := by
    intro i x hx
    simp only [setItems_next]
    rw [setItems_obj] at hx
    split at hx
    · rcases mem_ptrs.1 hx with ⟨g, hg⟩ | h | h
      · exact w.closed o x (mem_ptrs.2 (Or.inl ⟨g, hg⟩))
      · exact w.closed o x (mem_ptrs.2 (Or.inr (Or.inl h)))
      · exact hl x h
    · exact w.closed i x hx

theorem Wf.setContent {s : S} (w : Wf s.h) {o : Nat} {c : List Nat} (ho : o < s.h.next) :
    Wf (s.setContent o c).h where
  fresh := by
    intro i hi
    simp only [setContent_next] at hi
    rw [setContent_obj]
    have : i ≠ o := by omega
    simp only [this, if_false]
    exact w.fresh i hi
  closed := by
    intro i x hx
    simp only [setContent_next]
    rw [setContent_obj] at hx
    split at hx
    · exact w.closed o x hx
    · exact w.closed i x hx

theorem Wf.setCache {s : S} (w : Wf s.h) {o : Nat} {c : List Nat} (ho : o < s.h.next) :
    Wf (s.setCache o c).h where
  fresh := by
    intro i hi
    simp only [setCache_next] at hi
    rw [setCache_obj]
    have : i ≠ o := by omega
    simp only [this, if_false]
    exact w.fresh i hi
  closed := by
    intro i x hx
    simp only [setCache_next]
    rw [setCache_obj] at hx
    split at hx
    · exact w.closed o x hx
    · exact w.closed i x hx

end Heap
