import PyrollProofs.HeapTrk

/-! Helper lemmas for C12, part 5: deep copy with memo.  Invariant `DInv hb tr0 s m`: relative to the heap `hb` in
which `copy.deepcopy` was called, nothing old has been touched, every object created since points only to objects
created since or to immutable atoms, and the memo maps old objects to such new objects. -/

namespace Heap

def Fresh (hb : H) (v : Nat) : Prop := hb.next ≤ v ∨ (hb.obj v).kind = .atom

structure DInv (hb : H) (tr0 : List Eff) (s : S) (m : Memo) : Prop where
  wf : Wf s.h
  next_le : hb.next ≤ s.h.next
  frame : ∀ o, o < hb.next → s.h.obj o = hb.obj o
  memo : ∀ a b, (a, b) ∈ m → hb.next ≤ b ∧ b < s.h.next ∧ (s.h.obj b).kind = (hb.obj a).kind
  closed : ∀ o v, hb.next ≤ o → v ∈ (s.h.obj o).ptrs → Fresh hb v
  tr : ∃ t, s.tr = tr0 ++ t ∧ ∀ o ∈ targets t, hb.next ≤ o

theorem DInv.init {s : S} (w : Wf s.h) : DInv s.h s.tr s [] where
  wf := w
  next_le := Nat.le_refl _
  frame := fun _ _ => rfl
  memo := by intro a b h; cases h
  closed := by
    intro o v ho hv
    rw [w.fresh o ho] at hv
    simp [Obj.ptrs] at hv
  tr := ⟨[], by simp, by intro o h; simp [targets] at h⟩

theorem DInv.alloc {hb : H} {tr0 : List Eff} {s : S} {m : Memo} (D : DInv hb tr0 s m) (ob : Obj)
    (hp : ob.ptrs = []) : DInv hb tr0 (s.alloc ob).1 m where
  wf := D.wf.alloc ob (by intro v hv; rw [hp] at hv; cases hv)
  next_le := by simp only [alloc_next]; have := D.next_le; omega
  frame := by
    intro o ho
    rw [alloc_obj]
    have := D.next_le
    have : o ≠ s.h.next := by omega
    simp only [this, if_false]; exact D.frame o ho
  memo := by
    intro a b hab
    obtain ⟨h1, h2, h3⟩ := D.memo a b hab
    refine ⟨h1, by simp only [alloc_next]; omega, ?_⟩
    rw [alloc_obj]
    have : b ≠ s.h.next := by omega
    simp only [this, if_false]; exact h3
  closed := by
    intro o v ho hv
    rw [alloc_obj] at hv
    split at hv
    · rw [hp] at hv; cases hv
    · exact D.closed o v ho hv
  tr := by
    obtain ⟨t, ht, hok⟩ := D.tr
    refine ⟨t ++ [.alloc s.h.next], by simp [ht], ?_⟩
    intro o ho
    rw [targets_append] at ho
    simp only [targets_alloc, List.append_nil] at ho
    exact hok o ho

theorem DInv.memoCons {hb : H} {tr0 : List Eff} {s : S} {m : Memo} (D : DInv hb tr0 s m) {a b : Nat}
    (hb1 : hb.next ≤ b) (hb2 : b < s.h.next) (hk : (s.h.obj b).kind = (hb.obj a).kind) :
    DInv hb tr0 s ((a, b) :: m) where
  wf := D.wf
  next_le := D.next_le
  frame := D.frame
  closed := D.closed
  tr := D.tr
  memo := by
    intro x y hxy
    simp only [List.mem_cons, Prod.mk.injEq] at hxy
    rcases hxy with ⟨rfl, rfl⟩ | h
    · exact ⟨hb1, hb2, hk⟩
    · exact D.memo x y h

theorem DInv.write {hb : H} {tr0 : List Eff} {s : S} {m : Memo} (D : DInv hb tr0 s m) {o f v : Nat}
    (ho1 : hb.next ≤ o) (ho2 : o < s.h.next) (hv1 : v < s.h.next) (hv2 : Fresh hb v) :
    DInv hb tr0 (s.write o f v) m where
  wf := D.wf.write ho2 hv1
  next_le := by simp only [write_next]; exact D.next_le
  frame := by
    intro x hx
    rw [write_obj]
    have : x ≠ o := by omega
    simp only [this, if_false]; exact D.frame x hx
  memo := by
    intro a b hab
    obtain ⟨h1, h2, h3⟩ := D.memo a b hab
    exact ⟨h1, by simpa using h2, by rw [kind_write]; exact h3⟩
  closed := by
    intro x y hx hy
    rw [write_obj] at hy
    split at hy
    · rcases mem_ptrs.1 hy with ⟨g, hg⟩ | h | h
      · rcases mem_setF hg with h | h
        · exact D.closed o y ho1 (mem_ptrs.2 (Or.inl ⟨g, h⟩))
        · have : y = v := by simpa using congrArg Prod.snd h
          rw [this]; exact hv2
      · exact D.closed o y ho1 (mem_ptrs.2 (Or.inr (Or.inl h)))
      · exact D.closed o y ho1 (mem_ptrs.2 (Or.inr (Or.inr h)))
    · exact D.closed x y hx hy
  tr := by
    obtain ⟨t, ht, hok⟩ := D.tr
    refine ⟨t ++ [.write o f], by simp [ht], ?_⟩
    intro x hx
    rw [targets_append] at hx
    simp only [targets_write, List.mem_append, List.mem_singleton] at hx
    rcases hx with hx | hx
    · exact hok x hx
    · subst hx; exact ho1

theorem DInv.setWeak {hb : H} {tr0 : List Eff} {s : S} {m : Memo} (D : DInv hb tr0 s m) {o : Nat} {w : Option Nat}
    (ho1 : hb.next ≤ o) (ho2 : o < s.h.next) (hw : ∀ t, w = some t → t < s.h.next ∧ Fresh hb t) :
    DInv hb tr0 (s.setWeak o w) m where
  wf := D.wf.setWeak ho2 (fun t ht => (hw t ht).1)
  next_le := by simp only [setWeak_next]; exact D.next_le
  frame := by
    intro x hx
    rw [setWeak_obj]
    have : x ≠ o := by omega
    simp only [this, if_false]; exact D.frame x hx
  memo := by
    intro a b hab
    obtain ⟨h1, h2, h3⟩ := D.memo a b hab
    exact ⟨h1, by simpa using h2, by rw [kind_setWeak]; exact h3⟩
  closed := by
    intro x y hx hy
    rw [setWeak_obj] at hy
    split at hy
    · rcases mem_ptrs.1 hy with ⟨g, hg⟩ | h | h
      · exact D.closed o y ho1 (mem_ptrs.2 (Or.inl ⟨g, hg⟩))
      · exact (hw y h).2
      · exact D.closed o y ho1 (mem_ptrs.2 (Or.inr (Or.inr h)))
    · exact D.closed x y hx hy
  tr := by
    obtain ⟨t, ht, hok⟩ := D.tr
    refine ⟨t ++ [.weakw o], by simp [ht], ?_⟩
    intro x hx
    rw [targets_append] at hx
    simp only [targets_weakw, List.mem_append, List.mem_singleton] at hx
    rcases hx with hx | hx
    · exact hok x hx
    · subst hx; exact ho1

theorem DInv.setItems {hb : H} {tr0 : List Eff} {s : S} {m : Memo} (D : DInv hb tr0 s m) {o : Nat} {l : List Nat}
    (ho1 : hb.next ≤ o) (ho2 : o < s.h.next) (hl : ∀ c ∈ l, c < s.h.next ∧ Fresh hb c) :
    DInv hb tr0 (s.setItems o l) m where
  wf := D.wf.setItems ho2 (fun c hc => (hl c hc).1)
  next_le := by simp only [setItems_next]; exact D.next_le
  frame := by
    intro x hx
    rw [setItems_obj]
    have : x ≠ o := by omega
    simp only [this, if_false]; exact D.frame x hx
  memo := by
    intro a b hab
    obtain ⟨h1, h2, h3⟩ := D.memo a b hab
    exact ⟨h1, by simpa using h2, by rw [kind_setItems]; exact h3⟩
  closed := by
    intro x y hx hy
    rw [setItems_obj] at hy
    split at hy
    · rcases mem_ptrs.1 hy with ⟨g, hg⟩ | h | h
      · exact D.closed o y ho1 (mem_ptrs.2 (Or.inl ⟨g, hg⟩))
      · exact D.closed o y ho1 (mem_ptrs.2 (Or.inr (Or.inl h)))
      · exact (hl y h).2
    · exact D.closed x y hx hy
  tr := by
    obtain ⟨t, ht, hok⟩ := D.tr
    refine ⟨t ++ [.mutate o], by simp [ht], ?_⟩
    intro x hx
    rw [targets_append] at hx
    simp only [targets_mutate, List.mem_append, List.mem_singleton] at hx
    rcases hx with hx | hx
    · exact hok x hx
    · subst hx; exact ho1

/-! ### the specification of the recursive copy -/

structure CRes (hb : H) (tr0 : List Eff) (s : S) (o : Nat) (r : S × Memo × Nat) : Prop where
  inv : DInv hb tr0 r.1 r.2.1
  mono : s.h.next ≤ r.1.h.next
  lt : r.2.2 < r.1.h.next
  fresh : Fresh hb r.2.2
  kind : (r.1.h.obj r.2.2).kind = (hb.obj o).kind
  kstable : ∀ x, x < s.h.next → (r.1.h.obj x).kind = (s.h.obj x).kind

def CSpec (hb : H) (tr0 : List Eff) (f : CRec) : Prop :=
  ∀ s m o, DInv hb tr0 s m → o < hb.next → CRes hb tr0 s o (f s m o)

theorem copyFields_spec {hb : H} {tr0 : List Eff} {f : CRec} (hf : CSpec hb tr0 f) (r : Nat) (hr : hb.next ≤ r) :
    ∀ (fs : List (Nat × Nat)) (s : S) (m : Memo), DInv hb tr0 s m → r < s.h.next → (∀ e ∈ fs, e.2 < hb.next) →
      DInv hb tr0 (copyFields f r fs s m).1 (copyFields f r fs s m).2 ∧ s.h.next ≤ (copyFields f r fs s m).1.h.next ∧
      (∀ x, x < s.h.next → ((copyFields f r fs s m).1.h.obj x).kind = (s.h.obj x).kind) := by
  intro fs
  induction fs with
  | nil => intro s m D _ _; exact ⟨D, Nat.le_refl _, fun _ _ => rfl⟩
  | cons e rest ih =>
    intro s m D hrl hfs
    have c := hf s m e.2 D (hfs e List.mem_cons_self)
    have D1 := c.inv.write (o := r) (f := e.1) hr (Nat.lt_of_lt_of_le hrl c.mono) c.lt c.fresh
    obtain ⟨D2, hm, hk⟩ := ih _ _ D1 (by simpa using Nat.lt_of_lt_of_le hrl c.mono)
      (fun x hx => hfs x (List.mem_cons_of_mem _ hx))
    have e' : copyFields f r (e :: rest) s m =
        copyFields f r rest ((f s m e.2).1.write r e.1 (f s m e.2).2.2) (f s m e.2).2.1 := rfl
    rw [e']
    refine ⟨D2, ?_, ?_⟩
    · have := c.mono; simp only [write_next] at hm; omega
    · intro x hx
      rw [hk x (by simp only [write_next]; exact Nat.lt_of_lt_of_le hx c.mono), kind_write]
      exact c.kstable x hx

theorem copyWeak_spec {hb : H} {tr0 : List Eff} {f : CRec} (hf : CSpec hb tr0 f) (s : S) (m : Memo) (w : Option Nat)
    (D : DInv hb tr0 s m) (hw : ∀ t, w = some t → t < hb.next) :
    DInv hb tr0 (copyWeak f s m w).1 (copyWeak f s m w).2.1 ∧ s.h.next ≤ (copyWeak f s m w).1.h.next ∧
      (∀ t, (copyWeak f s m w).2.2 = some t → t < (copyWeak f s m w).1.h.next ∧ Fresh hb t) ∧
      (∀ x, x < s.h.next → ((copyWeak f s m w).1.h.obj x).kind = (s.h.obj x).kind) := by
  cases w with
  | none =>
    have e : copyWeak f s m none = (s, m, none) := rfl
    rw [e]
    refine ⟨D, Nat.le_refl _, ?_, fun _ _ => rfl⟩
    intro t h; cases h
  | some t =>
    have c := hf s m t D (hw t rfl)
    have e : copyWeak f s m (some t) = ((f s m t).1, (f s m t).2.1, some (f s m t).2.2) := rfl
    rw [e]
    refine ⟨c.inv, c.mono, ?_, c.kstable⟩
    intro x hx
    simp only [Option.some.injEq] at hx
    subst hx; exact ⟨c.lt, c.fresh⟩

theorem copyItems_spec {hb : H} {tr0 : List Eff} {f : CRec} (hf : CSpec hb tr0 f) (r : Nat) (hr : hb.next ≤ r)
    (owner : Option Nat) :
    ∀ (us : List Nat) (s : S) (m : Memo), DInv hb tr0 s m → r < s.h.next → (∀ e ∈ us, e < hb.next) →
      (∀ t, owner = some t → t < s.h.next ∧ Fresh hb t) →
      DInv hb tr0 (copyItems f r owner us s m).1 (copyItems f r owner us s m).2 ∧
      s.h.next ≤ (copyItems f r owner us s m).1.h.next ∧
      (∀ x, x < s.h.next → ((copyItems f r owner us s m).1.h.obj x).kind = (s.h.obj x).kind) := by
  intro us
  induction us with
  | nil => intro s m D _ _ _; exact ⟨D, Nat.le_refl _, fun _ _ => rfl⟩
  | cons e rest ih =>
    intro s m D hrl hus how
    have c := hf s m e D (hus e List.mem_cons_self)
    have how' : ∀ t, owner = some t → t < (f s m e).1.h.next ∧ Fresh hb t :=
      fun t ht => ⟨Nat.lt_of_lt_of_le (how t ht).1 c.mono, (how t ht).2⟩
    -- `append` re-parents the copy (only a unit has a parent; the copy of a unit is a new object)
    have hstep : ∃ s'' : S,
        s'' = (if ((f s m e).1.h.obj (f s m e).2.2).kind = .unit then (f s m e).1.setWeak (f s m e).2.2 owner
               else (f s m e).1) ∧
        DInv hb tr0 s'' (f s m e).2.1 ∧ s''.h.next = (f s m e).1.h.next ∧
        (∀ x, (s''.h.obj x).kind = ((f s m e).1.h.obj x).kind) ∧
        (∀ x, (s''.h.obj x).items = ((f s m e).1.h.obj x).items) := by
      refine ⟨_, rfl, ?_⟩
      split
      · rename_i hk
        have hfr : hb.next ≤ (f s m e).2.2 := by
          rcases c.fresh with h | h
          · exact h
          · apply Nat.le_of_not_lt
            intro hlt
            rw [c.inv.frame _ hlt, h] at hk
            cases hk
        exact ⟨c.inv.setWeak hfr c.lt how', rfl, fun x => kind_setWeak _ _ _ _, fun x => items_setWeak _ _ _ _⟩
      · exact ⟨c.inv, rfl, fun _ => rfl, fun _ => rfl⟩
    obtain ⟨s'', hs'', D1, hn, hk1, hi1⟩ := hstep
    have hrl'' : r < s''.h.next := by rw [hn]; exact Nat.lt_of_lt_of_le hrl c.mono
    have D2 := D1.setItems (o := r) (l := (s''.h.obj r).items ++ [(f s m e).2.2]) hr hrl'' (by
      intro x hx
      simp only [List.mem_append, List.mem_singleton] at hx
      rcases hx with hx | hx
      · exact ⟨D1.wf.closed r x (mem_ptrs.2 (Or.inr (Or.inr hx))), D1.closed r x hr (mem_ptrs.2 (Or.inr (Or.inr hx)))⟩
      · subst hx; exact ⟨by rw [hn]; exact c.lt, c.fresh⟩)
    obtain ⟨D3, hm, hk⟩ := ih _ _ D2 (by simpa using hrl'') (fun x hx => hus x (List.mem_cons_of_mem _ hx))
      (fun t ht => ⟨by simp only [setItems_next]; rw [hn]; exact (how' t ht).1, (how' t ht).2⟩)
    have e' : copyItems f r owner (e :: rest) s m =
        copyItems f r owner rest (s''.setItems r ((s''.h.obj r).items ++ [(f s m e).2.2])) (f s m e).2.1 := by
      rw [hs'']; rfl
    rw [e']
    refine ⟨D3, ?_, ?_⟩
    · simp only [setItems_next] at hm; have := c.mono; omega
    · intro x hx
      rw [hk x (by simp only [setItems_next]; rw [hn]; exact Nat.lt_of_lt_of_le hx c.mono), kind_setItems, hk1]
      exact c.kstable x hx

theorem empty_ptrs (ob : Obj) : ({ ob with fields := [], weak := none, items := [], content := [] } : Obj).ptrs = [] := by
  simp [Obj.ptrs]

theorem copyBody_spec {hb : H} {tr0 : List Eff} (wb : Wf hb) {f : CRec} (hf : CSpec hb tr0 f) :
    CSpec hb tr0 (copyBody f) := by
  intro s m o D ho
  have hobj : s.h.obj o = hb.obj o := D.frame o ho
  have hos : o < s.h.next := Nat.lt_of_lt_of_le ho D.next_le
  unfold copyBody
  split
  · -- memo hit
    rename_i o' hl
    obtain ⟨h1, h2, h3⟩ := D.memo o o' (mem_of_lookup hl)
    exact ⟨D, Nat.le_refl _, h2, Or.inl h1, h3, fun _ _ => rfl⟩
  · simp only
    split
    · -- atom: the object itself
      rename_i hk
      exact ⟨D, Nat.le_refl _, hos, Or.inr (by rw [← hobj]; exact hk), by rw [hobj], fun _ _ => rfl⟩
    · -- value: a new object with equal content
      rename_i hk
      have D1 := D.alloc { kind := .value, content := (s.h.obj o).content } (by simp [Obj.ptrs])
      have D2 := D1.memoCons (a := o) (b := s.h.next) D.next_le (by simp)
        (by simp only [alloc_obj, if_true]; rw [← hobj, hk])
      refine ⟨D2, by simp, by simp, Or.inl D.next_le, ?_, ?_⟩
      · simp only [alloc_id, alloc_obj, if_true]; rw [← hobj, hk]
      · intro x hx; rw [alloc_obj]; have : x ≠ s.h.next := by omega
        simp only [this, if_false]
    · -- sub-unit list
      rename_i hk
      have D1 := D.alloc { kind := .subList } (by simp [Obj.ptrs])
      have hwk : ∀ t, (s.h.obj o).weak = some t → t < hb.next := by
        intro t ht; rw [hobj] at ht
        exact wb.closed o t (mem_ptrs.2 (Or.inr (Or.inl ht)))
      obtain ⟨D2, hm2, hw2, hk2⟩ := copyWeak_spec hf _ m (s.h.obj o).weak D1 hwk
      have hr2 : s.h.next < (copyWeak f (s.alloc { kind := .subList }).1 m (s.h.obj o).weak).1.h.next := by
        simp only [alloc_next] at hm2; omega
      have D3 := D2.setWeak (o := s.h.next) D.next_le hr2 hw2
      have hit : ∀ e ∈ (s.h.obj o).items, e < hb.next := by
        intro e he; rw [hobj] at he
        exact wb.closed o e (mem_ptrs.2 (Or.inr (Or.inr he)))
      obtain ⟨D4, hm4, hk4⟩ := copyItems_spec hf s.h.next D.next_le
        (copyWeak f (s.alloc { kind := .subList }).1 m (s.h.obj o).weak).2.2 (s.h.obj o).items _ _ D3
        (by simpa using hr2) hit (by intro t ht; simpa using hw2 t ht)
      simp only [setWeak_next] at hm4
      have hkr : ∀ x, x < (s.alloc { kind := .subList }).1.h.next →
          ((copyItems f s.h.next (copyWeak f (s.alloc { kind := .subList }).1 m (s.h.obj o).weak).2.2
              (s.h.obj o).items
              ((copyWeak f (s.alloc { kind := .subList }).1 m (s.h.obj o).weak).1.setWeak s.h.next
                (copyWeak f (s.alloc { kind := .subList }).1 m (s.h.obj o).weak).2.2)
              (copyWeak f (s.alloc { kind := .subList }).1 m (s.h.obj o).weak).2.1).1.h.obj x).kind =
            ((s.alloc { kind := .subList }).1.h.obj x).kind := by
        intro x hx
        rw [hk4 x (by simp only [setWeak_next]; exact Nat.lt_of_lt_of_le hx hm2), kind_setWeak]
        exact hk2 x hx
      have hkind := hkr s.h.next (by simp)
      simp only [alloc_obj, if_true] at hkind
      have D5 := D4.memoCons (a := o) (b := s.h.next) D.next_le (by omega) (by rw [hkind, ← hobj, hk])
      simp only [alloc_id]
      refine ⟨D5, ?_, ?_, Or.inl D.next_le, ?_, ?_⟩
      all_goals (try dsimp only)
      · exact Nat.le_of_lt (Nat.lt_of_lt_of_le hr2 hm4)
      · exact Nat.lt_of_lt_of_le hr2 hm4
      · rw [hkind, ← hobj, hk]
      · intro x hx
        rw [hkr x (by simp only [alloc_next]; exact Nat.lt_succ_of_lt hx), alloc_obj]
        have : x ≠ s.h.next := Nat.ne_of_lt hx
        simp only [this, if_false]
    · -- HookHost.__deepcopy__ / default reconstruction: memo first, then the entries, then the weak link
      have D1 := D.alloc { s.h.obj o with fields := [], weak := none, items := [], content := [] } (empty_ptrs _)
      have D2 := D1.memoCons (a := o) (b := s.h.next) D.next_le (by simp)
        (by simp only [alloc_obj, if_true]; rw [← hobj])
      have hfs : ∀ e ∈ (s.h.obj o).fields, e.2 < hb.next := by
        intro e he; rw [hobj] at he
        exact wb.closed o e.2 (mem_ptrs.2 (Or.inl ⟨e.1, he⟩))
      obtain ⟨D3, hm3, hk3⟩ := copyFields_spec hf s.h.next D.next_le (s.h.obj o).fields _ _ D2 (by simp) hfs
      have hwk : ∀ t, (s.h.obj o).weak = some t → t < hb.next := by
        intro t ht; rw [hobj] at ht
        exact wb.closed o t (mem_ptrs.2 (Or.inr (Or.inl ht)))
      obtain ⟨D4, hm4, hw4, hk4⟩ := copyWeak_spec hf _ _ (s.h.obj o).weak D3 hwk
      simp only [alloc_next] at hm3
      have hr4 : s.h.next < (copyWeak f
          (copyFields f s.h.next (s.h.obj o).fields
            (s.alloc { s.h.obj o with fields := [], weak := none, items := [], content := [] }).1
            ((o, s.h.next) :: m)).1
          (copyFields f s.h.next (s.h.obj o).fields
            (s.alloc { s.h.obj o with fields := [], weak := none, items := [], content := [] }).1
            ((o, s.h.next) :: m)).2 (s.h.obj o).weak).1.h.next :=
        Nat.lt_of_lt_of_le (Nat.lt_of_lt_of_le (Nat.lt_succ_self _) hm3) hm4
      have D5 := D4.setWeak (o := s.h.next) D.next_le hr4 hw4
      simp only [alloc_id]
      have hkr : ∀ x, x < s.h.next + 1 →
          ((copyWeak f
            (copyFields f s.h.next (s.h.obj o).fields
              (s.alloc { s.h.obj o with fields := [], weak := none, items := [], content := [] }).1
              ((o, s.h.next) :: m)).1
            (copyFields f s.h.next (s.h.obj o).fields
              (s.alloc { s.h.obj o with fields := [], weak := none, items := [], content := [] }).1
              ((o, s.h.next) :: m)).2 (s.h.obj o).weak).1.h.obj x).kind =
          ((s.alloc { s.h.obj o with fields := [], weak := none, items := [], content := [] }).1.h.obj x).kind := by
        intro x hx
        rw [hk4 x (Nat.lt_of_lt_of_le hx hm3)]
        exact hk3 x (by simpa using hx)
      refine ⟨D5, ?_, ?_, Or.inl D.next_le, ?_, ?_⟩
      all_goals (try dsimp only)
      · exact Nat.le_of_lt hr4
      · exact hr4
      · rw [kind_setWeak, hkr s.h.next (Nat.lt_succ_self _)]
        simp only [alloc_obj, if_true]; rw [← hobj]
      · intro x hx
        rw [kind_setWeak, hkr x (Nat.lt_succ_of_lt hx), alloc_obj]
        have : x ≠ s.h.next := Nat.ne_of_lt hx
        simp only [this, if_false]

theorem copyObj_spec {hb : H} {tr0 : List Eff} (wb : Wf hb) : ∀ fuel, CSpec hb tr0 (copyObj fuel) := by
  intro fuel
  induction fuel with
  | zero =>
    intro s m o D ho
    have hobj : s.h.obj o = hb.obj o := D.frame o ho
    have hos : o < s.h.next := Nat.lt_of_lt_of_le ho D.next_le
    unfold copyObj
    split
    · rename_i o' hl
      obtain ⟨h1, h2, h3⟩ := D.memo o o' (mem_of_lookup hl)
      exact ⟨D, Nat.le_refl _, h2, Or.inl h1, h3, fun _ _ => rfl⟩
    · split
      · rename_i hk
        exact ⟨D, Nat.le_refl _, hos, Or.inr (by rw [← hobj]; exact hk), by rw [hobj], fun _ _ => rfl⟩
      · have D1 := D.alloc { kind := (s.h.obj o).kind } (by simp [Obj.ptrs])
        have D2 := D1.memoCons (a := o) (b := s.h.next) D.next_le (by simp)
          (by simp only [alloc_obj, if_true]; rw [← hobj])
        refine ⟨D2, by simp, by simp, Or.inl D.next_le, ?_, ?_⟩
        · simp only [alloc_id, alloc_obj, if_true]; rw [← hobj]
        · intro x hx; rw [alloc_obj]; have : x ≠ s.h.next := by omega
          simp only [this, if_false]
  | succ fuel ih => exact copyBody_spec wb ih

/-! ### reachability (strong entries, list items AND weak back-links; atoms are leaves) -/

inductive Reach (h : H) : Nat → Nat → Prop
  | refl (a : Nat) : Reach h a a
  | step {a b c : Nat} : Reach h a b → (h.obj b).kind ≠ .atom → c ∈ (h.obj b).ptrs → Reach h a c

theorem reach_old {h : H} (w : Wf h) {a x : Nat} (hr : Reach h a x) (ha : a < h.next) : x < h.next := by
  induction hr with
  | refl => exact ha
  | step _ _ hc _ => exact w.closed _ _ hc

/-- from a new object one reaches only new objects and atoms -/
theorem reach_fresh {hb : H} {tr0 : List Eff} {s : S} {m : Memo} (D : DInv hb tr0 s m) {a x : Nat}
    (hr : Reach s.h a x) (ha : Fresh hb a) : Fresh hb x := by
  induction hr with
  | refl => exact ha
  | @step b c _ hk hc ih =>
    rcases ih with h | h
    · exact D.closed b c h hc
    · by_cases hb' : b < hb.next
      · -- `b` is an old atom: no step leaves it
        exfalso; rw [D.frame b hb'] at hk; exact hk h
      · exact D.closed b c (Nat.le_of_not_lt hb') hc

end Heap
