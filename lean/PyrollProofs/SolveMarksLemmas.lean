import PyrollModel.SolveMarks
import Mathlib.Tactic

/-!
Helper lemmas about `PyrollModel/SolveMarks.lean` (C05): with marks kept per (function, instance) and discarded in the
`finally` unless the call was re-entrant, every nested hook evaluation restores the marks (induction on the call depth),
hence a history of evaluations leaves none behind and every evaluation answers as if it were the first.
-/

namespace SolveMarks

/-- the policy the model was written for: one store per function, `cycle = key in store`, `finally: if not cycle: discard` -/
def good : Policy := { perFunction := true, perInstance := true, unmark := .unlessCycle }

theorem key_good (g k : Nat) : key good g k = (g, k) := rfl

theorem flag_good (m : Marks) (g k : Nat) : flag good m g k = m.contains (g, k) := rfl

/-- marks after = marks before, for every world, depth, hook, instance and whatever marks are set -/
theorem read_restores (W : World) : ∀ (fuel g k : Nat) (m : Marks), (read good W fuel g k m).1 = m := by
  intro fuel
  induction fuel with
  | zero => intro g k m; rfl
  | succ n ih =>
    intro g k m
    unfold read
    cases hE : W.explicit g k with
    | some v => rfl
    | none =>
      simp only [flag_good, key_good]
      by_cases hc : m.contains (g, k) = true
      · simp only [hc, if_true, unmarked, good]
        cases W.dflt g k <;> rfl
      · have hc' : m.contains (g, k) = false := by simpa using hc
        simp only [hc', Bool.false_eq_true, if_false]
        cases hI : W.impl g k with
        | value v => simp [unmarked, good]
        | pass =>
          simp only [unmarked, good, Bool.false_eq_true, if_false, List.erase_cons_head]
          cases W.dflt g k <;> rfl
        | ask g' k' a b =>
          have h := ih g' k' ((g, k) :: m)
          rcases hr : read good W n g' k' ((g, k) :: m) with ⟨m', r⟩
          rw [hr] at h
          simp only at h
          subst h
          cases r <;> (simp only [hr]; simp [unmarked, good])

/-- a history of evaluations: no mark is left, and every evaluation answers exactly as it does on its own -/
theorem runAll_good (fuel : Nat) : ∀ (qs : List (World × Nat × Nat)) (m : Marks),
    (runAll good fuel qs m).1 = m ∧
    (runAll good fuel qs m).2 = qs.map (fun q => (read good q.1 fuel q.2.1 q.2.2 m).2) := by
  intro qs
  induction qs with
  | nil => intro m; exact ⟨rfl, rfl⟩
  | cons q qs ih =>
    intro m
    have h := read_restores q.1 fuel q.2.1 q.2.2 m
    simp only [runAll, h, List.map_cons]
    exact ⟨(ih m).1, by rw [(ih m).2]⟩

theorem runAll_append (fuel : Nat) (ps qs : List (World × Nat × Nat)) :
    (runAll good fuel (ps ++ qs) []).2 = (runAll good fuel ps []).2 ++ (runAll good fuel qs []).2 := by
  rw [(runAll_good fuel (ps ++ qs) []).2, (runAll_good fuel ps []).2, (runAll_good fuel qs []).2, List.map_append]

/-- a chain of `d` instances `k, …, k+d-1` each asking the next one, instance `k+d` holding `v`: the read on instance `k`
    goes all the way through — a nested call on ANOTHER instance is not a cycle, whatever the depth -/
theorem read_chain (g : Nat) (v a b : Int) (dflt : Option Int) :
    ∀ (d k fuel : Nat) (m : Marks), d < fuel → (∀ j, k ≤ j → j < k + d → (g, j) ∉ m) →
      read good (chain g (k + d) v a b dflt) fuel g k m = (m, .val (linIter a b d v)) := by
  intro d
  induction d with
  | zero =>
    intro k fuel m hf _
    obtain ⟨n, rfl⟩ : ∃ n, fuel = n + 1 := ⟨fuel - 1, by omega⟩
    simp [read, chain, linIter]
  | succ d ih =>
    intro k fuel m hf hm
    obtain ⟨n, rfl⟩ : ∃ n, fuel = n + 1 := ⟨fuel - 1, by omega⟩
    have hk : (g, k) ∉ m := hm k (le_refl _) (by omega)
    have hc : m.contains (g, k) = false := by simpa using hk
    have hstep := ih (k + 1) n ((g, k) :: m) (by omega) (by
      intro j h1 h2 hmem
      rcases List.mem_cons.mp hmem with h | h
      · have : j = k := (Prod.mk.injEq _ _ _ _ ▸ h).2
        omega
      · exact hm j (by omega) (by omega) h)
    have hidx : k + 1 + d = k + (d + 1) := by omega
    rw [hidx] at hstep
    unfold read
    have hE : (chain g (k + (d + 1)) v a b dflt).explicit g k = none := by
      simp [chain]
    rw [hE]
    simp only [flag_good, key_good, hc, Bool.false_eq_true, if_false]
    have hI : (chain g (k + (d + 1)) v a b dflt).impl g k = .ask g (k + 1) a b := rfl
    rw [hI]
    simp only [hstep]
    simp [unmarked, good, linIter]

end SolveMarks
