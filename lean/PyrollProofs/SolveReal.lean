import PyrollModel.SolveGen
import PyrollProofs.SolveLemmas
import PyrollProofs.RealNum

/-!
The real-number side of the solve-loop model (C05): what the generated comparison says over ℝ, the stop test on vectors
of equal length, a deterministic orbit as loop body, and the geometric-decay estimate used by `resolve_within_prec`.
-/

namespace Solve

variable {α S : Type}

/-! ### the stop test on vectors -/

theorem pairs_eq_len (cur old : List α) (h : cur.length = old.length) : pairs cur old = some (cur.zip old) := by
  simp [pairs, h]

/-- `np.all` over vectors of equal length: every component passes -/
theorem test_all_eq_len (w : α → α → Bool) (cur old : List α) (h : cur.length = old.length) :
    test w true cur (.vec old) = some (decide (∀ j, (hj : j < cur.length) → w cur[j] (old[j]'(h ▸ hj)) = true)) := by
  simp only [test, pairs_eq_len cur old h, Option.map_some, quant, if_true, Option.some.injEq]
  rw [Bool.eq_iff_iff]
  simp only [List.all_map, List.all_eq_true, Function.comp, id, decide_eq_true_eq]
  constructor
  · intro hall j hj
    exact hall (cur[j], old[j]'(h ▸ hj)) (by
      rw [List.mem_iff_getElem]
      exact ⟨j, by simp [hj, h ▸ hj], by simp⟩)
  · intro hall p hp
    rw [List.mem_iff_getElem] at hp
    obtain ⟨j, hj, rfl⟩ := hp
    simp only [List.length_zip, lt_min_iff] at hj
    simpa using hall j hj.1

theorem test_nan (w : α → α → Bool) (cur : List α) : test w true cur .nan = some cur.isEmpty := by
  cases cur <;> simp [test, quant]

/-- with lengths that agree the comparison never raises -/
theorem test_isSome_of_len (w : α → α → Bool) (allQ : Bool) (cur : List α) (old : Old α) (n : ℕ) (hc : cur.length = n)
    (ho : old = .nan ∨ ∃ o, old = .vec o ∧ o.length = n) : ∃ b, test w allQ cur old = some b := by
  rcases ho with rfl | ⟨o, rfl, hol⟩
  · exact ⟨_, rfl⟩
  · exact ⟨quant allQ ((cur.zip o).map fun p => w p.1 p.2), by simp [test, pairs_eq_len cur o (hc.trans hol.symm)]⟩

/-! ### a deterministic orbit as loop body -/

/-- the loop body of a unit whose persisted results follow the orbit `x 0, x 1, x 2, …` (the state is the index) -/
def orbitStep (x : ℕ → List α) : ℕ → ℕ × Except Exc (List α) := fun k => (k + 1, .ok (x (k + 1)))

/-- what the loop does on an orbit of vectors of one length: it never raises, the state is the index of the newest
    vector, the newest vector is the head of the trace -/
theorem loop_orbit (w : α → α → Bool) (allQ : Bool) (x : ℕ → List α) (n : ℕ) (hlen : ∀ k, (x k).length = n) (fuel : ℕ) :
    ∀ (old : Old α) (i : ℕ) (tr : List (List α)), (old = .nan ∨ ∃ o, old = .vec o ∧ o.length = n) →
      let r := loop w allQ (orbitStep x) fuel old i tr
      r.exc = none ∧ i ≤ r.st ∧ r.st ≤ i + fuel ∧ r.trace.length = tr.length + (r.st - i) ∧
        (i < r.st → r.trace.head? = some (x r.st)) := by
  induction fuel with
  | zero => intro old i tr _; simp [loop_zero]
  | succ fuel ih =>
    intro old i tr ho
    have hs : orbitStep x i = (i + 1, .ok (x (i + 1))) := rfl
    obtain ⟨b, hb⟩ := test_isSome_of_len w allQ (x (i + 1)) old n (hlen _) ho
    cases b with
    | true =>
      rw [loop_succ_true w allQ _ hs hb]
      simp
    | false =>
      rw [loop_succ_false w allQ _ hs hb]
      obtain ⟨h1, h2, h3, h4, h5⟩ := ih (.vec (x (i + 1))) (i + 1) (x (i + 1) :: tr) (.inr ⟨_, rfl, hlen _⟩)
      refine ⟨h1, by omega, by omega, by rw [h4]; simp; omega, fun _ => ?_⟩
      by_cases hlt : i + 1 < (loop w allQ (orbitStep x) fuel (.vec (x (i + 1))) (i + 1) (x (i + 1) :: tr)).st
      · exact h5 hlt
      · have heq : (loop w allQ (orbitStep x) fuel (.vec (x (i + 1))) (i + 1) (x (i + 1) :: tr)).st = i + 1 := by omega
        have hl := h4
        rw [heq] at hl ⊢
        simp only [Nat.sub_self, Nat.add_zero] at hl
        obtain ⟨new, hn, _⟩ := loop_trace w allQ (orbitStep x) fuel (.vec (x (i + 1))) (i + 1) (x (i + 1) :: tr)
        rw [hn] at hl ⊢
        have : new = [] := by
          simp only [List.length_append] at hl
          exact List.length_eq_zero_iff.mp (by omega)
        rw [this]
        rfl

/-- left by `break` on an orbit: at least one body ran, the newest vector passed the test against `_old_results`, and
    `_old_results` is the vector before it (the carried one if only one body ran) -/
theorem loop_orbit_quiet (w : α → α → Bool) (allQ : Bool) (x : ℕ → List α) (n : ℕ) (hlen : ∀ k, (x k).length = n) (fuel : ℕ) :
    ∀ (old : Old α) (i : ℕ) (tr : List (List α)), (old = .nan ∨ ∃ o, old = .vec o ∧ o.length = n) →
      (loop w allQ (orbitStep x) fuel old i tr).warned = false →
      let r := loop w allQ (orbitStep x) fuel old i tr
      i < r.st ∧ test w allQ (x r.st) r.old = some true ∧ (r.st = i + 1 → r.old = old) ∧
        (i + 1 < r.st → r.old = .vec (x (r.st - 1))) := by
  induction fuel with
  | zero => intro old i tr _ hw; simp [loop_zero] at hw
  | succ fuel ih =>
    intro old i tr ho
    have hs : orbitStep x i = (i + 1, .ok (x (i + 1))) := rfl
    obtain ⟨b, hb⟩ := test_isSome_of_len w allQ (x (i + 1)) old n (hlen _) ho
    cases b with
    | true =>
      rw [loop_succ_true w allQ _ hs hb]
      intro _
      exact ⟨Nat.lt_succ_self _, hb, fun _ => rfl, fun h => absurd h (Nat.lt_irrefl _)⟩
    | false =>
      rw [loop_succ_false w allQ _ hs hb]
      intro hw
      obtain ⟨h1, h2, h3, h4⟩ := ih (.vec (x (i + 1))) (i + 1) (x (i + 1) :: tr) (.inr ⟨_, rfl, hlen _⟩) hw
      refine ⟨by omega, h2, fun h => by omega, fun _ => ?_⟩
      by_cases he : (loop w allQ (orbitStep x) fuel (.vec (x (i + 1))) (i + 1) (x (i + 1) :: tr)).st = i + 1 + 1
      · rw [h3 he, he]; rfl
      · exact h4 (by omega)

/-! ### geometric decay of consecutive differences -/

/-- if consecutive differences of a real sequence shrink by the factor `q < 1`, every later member stays within
    `q/(1-q)` times the last difference -/
theorem geometric_tail (a : ℕ → ℝ) (q : ℝ) (hq0 : 0 ≤ q) (hq1 : q < 1)
    (h : ∀ k, |a (k + 2) - a (k + 1)| ≤ q * |a (k + 1) - a k|) :
    ∀ d i, |a (i + 1 + d) - a (i + 1)| ≤ q / (1 - q) * |a (i + 1) - a i| := by
  have h1q : 0 < 1 - q := by linarith
  intro d
  induction d with
  | zero =>
    intro i
    simp only [Nat.add_zero, sub_self, abs_zero]
    exact mul_nonneg (div_nonneg hq0 h1q.le) (abs_nonneg _)
  | succ d ih =>
    intro i
    have e : i + 1 + (d + 1) = (i + 1) + 1 + d := by omega
    rw [e]
    have tri : |a (i + 1 + 1 + d) - a (i + 1)| ≤ |a (i + 1 + 1 + d) - a (i + 1 + 1)| + |a (i + 1 + 1) - a (i + 1)| := by
      have : a (i + 1 + 1 + d) - a (i + 1) = (a (i + 1 + 1 + d) - a (i + 1 + 1)) + (a (i + 1 + 1) - a (i + 1)) := by ring
      rw [this]
      exact abs_add_le _ _
    have ih' := ih (i + 1)
    have hk := h i
    have hD : 0 ≤ |a (i + 1 + 1) - a (i + 1)| := abs_nonneg _
    calc |a (i + 1 + 1 + d) - a (i + 1)|
        ≤ q / (1 - q) * |a (i + 1 + 1) - a (i + 1)| + |a (i + 1 + 1) - a (i + 1)| := le_trans tri (by linarith)
      _ = 1 / (1 - q) * |a (i + 1 + 1) - a (i + 1)| := by field_simp; ring
      _ ≤ 1 / (1 - q) * (q * |a (i + 1) - a i|) :=
          mul_le_mul_of_nonneg_left hk (by positivity)
      _ = q / (1 - q) * |a (i + 1) - a i| := by field_simp

end Solve
