import PyrollModel.C17Geom
import PyrollProofs.RealNum
import Mathlib.MeasureTheory.Measure.Lebesgue.Basic
import Mathlib.MeasureTheory.Measure.Prod
import Mathlib.MeasureTheory.Measure.Hausdorff
import Mathlib.Analysis.Convex.Segment

/-!
# C17 — meaning of the geometric items over ℝ (helper lemmas for PyrollProps/C17Geo.lean)

A geometry term (`C17Geom.Geo`, generated from `Profile.local_height` / `local_width`) denotes a point set of `ℝ × ℝ`
(first coordinate z = width direction, second y = height direction); `.length` is the one-dimensional Hausdorff measure.
shapely's `buffer` is a parameter (`GeoEnv.buf`).  The chord of a region at `z` is the Lebesgue measure of its section;
chords are monotone in the region, bounded by the extent, zero outside it and integrate to the area (Tonelli).
-/

open MeasureTheory Set

namespace C17Geom

abbrev Region := Set (ℝ × ℝ)

theorem isometry_mk_left (z : ℝ) : Isometry (fun y : ℝ => ((z, y) : ℝ × ℝ)) := by
  refine Isometry.of_dist_eq fun a b => ?_
  simp [Prod.dist_eq]

theorem isometry_mk_right (y : ℝ) : Isometry (fun z : ℝ => ((z, y) : ℝ × ℝ)) := by
  refine Isometry.of_dist_eq fun a b => ?_
  simp [Prod.dist_eq]

theorem hausdorff_vertical (z : ℝ) (T : Set ℝ) : μH[1] ((fun y : ℝ => ((z, y) : ℝ × ℝ)) '' T) = volume T := by
  rw [(isometry_mk_left z).hausdorffMeasure_image (Or.inl zero_le_one), hausdorffMeasure_real]

theorem hausdorff_horizontal (y : ℝ) (T : Set ℝ) : μH[1] ((fun z : ℝ => ((z, y) : ℝ × ℝ)) '' T) = volume T := by
  rw [(isometry_mk_right y).hausdorffMeasure_image (Or.inl zero_le_one), hausdorffMeasure_real]

end C17Geom

namespace C17Geom

/-- what a geometry term is evaluated in: numeric attribute values (and the method parameter), geometry-valued
    attributes, and shapely's `buffer` (a parameter of the model) -/
structure GeoEnv where
  num : String → ℝ
  geo : String → Region
  buf : Region → ℝ → Region

/-- the point set of a geometry term -/
noncomputable def Geo.sem (E : GeoEnv) : Geo → Region
  | .attr p => E.geo p
  | .buffer g d => E.buf (g.sem E) (d.eval E.num)
  | .segment a b c d => _root_.segment ℝ ((a.eval E.num, b.eval E.num) : ℝ × ℝ) (c.eval E.num, d.eval E.num)
  | .inter a b => a.sem E ∩ b.sem E
  | .opaque _ => ∅

/-- `.length` of a geometry: one-dimensional Hausdorff measure of its point set (on axis-parallel lines the metric of
    `ℝ × ℝ` is the Euclidean one) -/
noncomputable def Geo.length (E : GeoEnv) (g : Geo) : ENNReal := μH[1] (g.sem E)

/-- the value a chord method returns -/
noncomputable def ChordMethod.value (m : ChordMethod) (E : GeoEnv) : ENNReal := m.result.length E

/-- the chord of a region on the vertical line at `z` / the horizontal line at `y` -/
noncomputable def chordV (S : Region) (z : ℝ) : ENNReal := volume {y | (z, y) ∈ S}
noncomputable def chordH (S : Region) (y : ℝ) : ENNReal := volume {z | (z, y) ∈ S}

theorem vertical_segment (z a b : ℝ) (h : a ≤ b) :
    segment ℝ ((z, a) : ℝ × ℝ) (z, b) = (fun y : ℝ => ((z, y) : ℝ × ℝ)) '' Icc a b := by
  rw [← segment_eq_Icc h, Prod.image_mk_segment_right]

theorem horizontal_segment (y a b : ℝ) (h : a ≤ b) :
    segment ℝ ((a, y) : ℝ × ℝ) (b, y) = (fun z : ℝ => ((z, y) : ℝ × ℝ)) '' Icc a b := by
  rw [← segment_eq_Icc h, Prod.image_mk_segment_left]

/-- length of (vertical segment ∩ region) = measure of the part of the section of the region inside the segment -/
theorem length_vertical_inter (z a b : ℝ) (h : a ≤ b) (B : Region) :
    μH[1] (segment ℝ ((z, a) : ℝ × ℝ) (z, b) ∩ B) = volume {y | y ∈ Icc a b ∧ (z, y) ∈ B} := by
  rw [vertical_segment z a b h, ← hausdorff_vertical z]
  congr 1
  ext p
  constructor
  · rintro ⟨⟨y, hy, rfl⟩, hB⟩
    exact ⟨y, ⟨hy, hB⟩, rfl⟩
  · rintro ⟨y, ⟨hy, hB⟩, rfl⟩
    exact ⟨⟨y, hy, rfl⟩, hB⟩

theorem length_horizontal_inter (y a b : ℝ) (h : a ≤ b) (B : Region) :
    μH[1] (segment ℝ ((a, y) : ℝ × ℝ) (b, y) ∩ B) = volume {z | z ∈ Icc a b ∧ (z, y) ∈ B} := by
  rw [horizontal_segment y a b h, ← hausdorff_horizontal y]
  congr 1
  ext p
  constructor
  · rintro ⟨⟨z, hz, rfl⟩, hB⟩
    exact ⟨z, ⟨hz, hB⟩, rfl⟩
  · rintro ⟨z, ⟨hz, hB⟩, rfl⟩
    exact ⟨⟨z, hz, rfl⟩, hB⟩

/-! ### chords of regions -/

theorem chordV_mono {S T : Region} (h : S ⊆ T) (z : ℝ) : chordV S z ≤ chordV T z :=
  measure_mono fun _ hy => h hy

theorem chordH_mono {S T : Region} (h : S ⊆ T) (y : ℝ) : chordH S y ≤ chordH T y :=
  measure_mono fun _ hz => h hz

/-- bounded by the overall height -/
theorem chordV_le_extent {T : Region} {a b : ℝ} (h : ∀ p ∈ T, a ≤ p.2 ∧ p.2 ≤ b) (z : ℝ) :
    chordV T z ≤ ENNReal.ofReal (b - a) := by
  calc chordV T z ≤ volume (Icc a b) := measure_mono fun y hy => h (z, y) hy
    _ = ENNReal.ofReal (b - a) := Real.volume_Icc

theorem chordH_le_extent {T : Region} {a b : ℝ} (h : ∀ p ∈ T, a ≤ p.1 ∧ p.1 ≤ b) (y : ℝ) :
    chordH T y ≤ ENNReal.ofReal (b - a) := by
  calc chordH T y ≤ volume (Icc a b) := measure_mono fun z hz => h (z, y) hz
    _ = ENNReal.ofReal (b - a) := Real.volume_Icc

/-- zero outside the region -/
theorem chordV_zero_outside {T : Region} {a b : ℝ} (h : ∀ p ∈ T, a ≤ p.1 ∧ p.1 ≤ b) {z : ℝ}
    (hz : z < a ∨ b < z) : chordV T z = 0 := by
  have : {y | (z, y) ∈ T} = ∅ := by
    refine Set.eq_empty_iff_forall_notMem.2 fun y hy => ?_
    have := h (z, y) hy
    rcases hz with hz | hz <;> simp at this <;> linarith [this.1, this.2]
  simp [chordV, this]

theorem chordH_zero_outside {T : Region} {a b : ℝ} (h : ∀ p ∈ T, a ≤ p.2 ∧ p.2 ≤ b) {y : ℝ}
    (hy : y < a ∨ b < y) : chordH T y = 0 := by
  have : {z | (z, y) ∈ T} = ∅ := by
    refine Set.eq_empty_iff_forall_notMem.2 fun z hz => ?_
    have := h (z, y) hz
    rcases hy with hy | hy <;> simp at this <;> linarith [this.1, this.2]
  simp [chordH, this]

/-- the chords integrate to the area (Tonelli) -/
theorem chordV_integral {T : Region} (hT : MeasurableSet T) : ∫⁻ z, chordV T z = volume T := by
  rw [Measure.volume_eq_prod, Measure.prod_apply hT]
  rfl

theorem chordH_integral {T : Region} (hT : MeasurableSet T) : ∫⁻ y, chordH T y = volume T := by
  rw [Measure.volume_eq_prod, Measure.prod_apply_symm hT]
  rfl

end C17Geom

/-! ### frame: a term's value depends only on what it reads -/

theorem Expr.eval_congr {ρ ρ' : String → ℝ} (e : Expr) (h : ∀ v ∈ e.vars, ρ v = ρ' v) :
    e.eval ρ = e.eval ρ' := by
  induction e with
  | var n => exact h n (by simp [Expr.vars])
  | nat n => rfl
  | dec m k => rfl
  | pi => rfl
  | add a b iha ihb | sub a b iha ihb | mul a b iha ihb | div a b iha ihb =>
    simp only [Expr.eval]
    rw [iha fun v hv => h v (by simp [Expr.vars, hv]), ihb fun v hv => h v (by simp [Expr.vars, hv])]
  | neg a ih | sqrt a ih | sin a ih | cos a ih | tan a ih | asin a ih | acos a ih | atan a ih | log a ih | exp a ih
  | abs a ih =>
    simp only [Expr.eval]
    rw [ih fun v hv => h v (by simpa [Expr.vars] using hv)]
  | pow a n ih =>
    simp only [Expr.eval]
    rw [ih fun v hv => h v (by simpa [Expr.vars] using hv)]

namespace C17Geom

theorem Geo.sem_congr {E E' : GeoEnv} (g : Geo) (hb : E.buf = E'.buf)
    (hn : ∀ v ∈ g.numVars, E.num v = E'.num v) (hg : ∀ p ∈ g.geoAttrs, E.geo p = E'.geo p) :
    g.sem E = g.sem E' := by
  induction g with
  | attr p => exact hg p (by simp [Geo.geoAttrs])
  | buffer g d ih =>
    simp only [Geo.sem]
    rw [ih (fun v hv => hn v (by simp [Geo.numVars, hv])) (fun p hp => hg p (by simpa [Geo.geoAttrs] using hp)),
      Expr.eval_congr d (fun v hv => hn v (by simp [Geo.numVars, hv])), hb]
  | segment a b c d =>
    simp only [Geo.sem]
    rw [Expr.eval_congr a (fun v hv => hn v (by simp [Geo.numVars, hv])),
      Expr.eval_congr b (fun v hv => hn v (by simp [Geo.numVars, hv])),
      Expr.eval_congr c (fun v hv => hn v (by simp [Geo.numVars, hv])),
      Expr.eval_congr d (fun v hv => hn v (by simp [Geo.numVars, hv]))]
  | inter a b iha ihb =>
    simp only [Geo.sem]
    rw [iha (fun v hv => hn v (by simp [Geo.numVars, hv])) (fun p hp => hg p (by simp [Geo.geoAttrs, hp])),
      ihb (fun v hv => hn v (by simp [Geo.numVars, hv])) (fun p hp => hg p (by simp [Geo.geoAttrs, hp]))]
  | «opaque» s => rfl

/-- two states of an object that agree on everything a chord method reads give the same value -/
theorem ChordMethod.value_congr (m : ChordMethod) {E E' : GeoEnv} (hb : E.buf = E'.buf)
    (hn : ∀ v ∈ m.result.numVars, E.num v = E'.num v) (hg : ∀ p ∈ m.result.geoAttrs, E.geo p = E'.geo p) :
    m.value E = m.value E' := by
  simp only [ChordMethod.value, Geo.length, Geo.sem_congr m.result hb hn hg]

end C17Geom
