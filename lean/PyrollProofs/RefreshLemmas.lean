import PyrollModel.Refresh
/-!
Helper lemmas about the cache re-evaluation model `PyrollModel/Refresh.lean` (C06): what one call of
`reevaluate_cache` (a list of effects) leaves in the helper's and in the unit's own cache (`foldl_helper_of_refresh`,
`foldl_helper_of_no_refresh`, `foldl_own_of_own`), what one iteration of `Unit.solve` leaves (`iteration_spec`,
`iteration_spec_stale`) and which value the sub-units read in the last of `n + 1` iterations (`iterate_reads_head`,
`iterate_stale`).  Core Lean only.
-/
namespace Refresh

theorem stampAll_idem (n : Nat) (c : Cache) : stampAll n (stampAll n c) = stampAll n c := by
  simp [stampAll, List.map_map, Function.comp_def]

theorem lookup_stampAll (n : Nat) (c : Cache) (name : String) :
    lookup (stampAll n c) name = (lookup c name).map fun _ => n := by
  induction c with
  | nil => simp [stampAll, lookup]
  | cons p r ih =>
    obtain ⟨k, s⟩ := p
    simp only [stampAll, List.map_cons, lookup] at ih ⊢
    by_cases h : k = name <;> simp [h, ih]

theorem lookup_append_self (c : Cache) (name : String) (n : Nat) (h : lookup c name = none) :
    lookup (c ++ [(name, n)]) name = some n := by
  induction c with
  | nil => simp [lookup]
  | cons p r ih =>
    obtain ⟨k, s⟩ := p
    simp only [lookup] at h
    by_cases hk : k = name
    · simp [hk] at h
    · simp only [hk, if_false] at h
      simp [lookup, hk, ih h]

/-- after a read the value is cached: a second read gives the same -/
theorem lookup_readHook (c : Cache) (now : Nat) (name : String) :
    lookup (readHook c now name).2 name = some (readHook c now name).1 := by
  unfold readHook
  cases h : lookup c name with
  | some s => simp [h]
  | none => simp [lookup_append_self c name now h]

theorem readHook_of_cached {c : Cache} {name : String} {s : Nat} (h : lookup c name = some s) (now : Nat) :
    readHook c now name = (s, c) := by
  simp [readHook, h]

variable (h : String) (helperOwn : Bool)

theorem applyEffect_now (st : St) (e : Effect) : (applyEffect h helperOwn st e).now = st.now := by
  cases e <;> simp [applyEffect]
  split <;> rfl

theorem applyEffect_reads (st : St) (e : Effect) : (applyEffect h helperOwn st e).reads = st.reads := by
  cases e <;> simp [applyEffect]
  split <;> rfl

theorem foldl_now (es : List Effect) (st : St) : (es.foldl (applyEffect h helperOwn) st).now = st.now := by
  induction es generalizing st with
  | nil => rfl
  | cons e es ih => simp [List.foldl_cons, ih, applyEffect_now]

theorem foldl_reads (es : List Effect) (st : St) : (es.foldl (applyEffect h helperOwn) st).reads = st.reads := by
  induction es generalizing st with
  | nil => rfl
  | cons e es ih => simp [List.foldl_cons, ih, applyEffect_reads]

/-- an effect leaves the helper's cache as it is or re-evaluates all of it -/
theorem applyEffect_helper (st : St) (e : Effect) :
    (applyEffect h helperOwn st e).helper = st.helper ∨
    (applyEffect h helperOwn st e).helper = stampAll st.now st.helper := by
  cases e <;> simp [applyEffect]
  split <;> simp

theorem foldl_helper_of_stamped (es : List Effect) (st : St) (hs : stampAll st.now st.helper = st.helper) :
    (es.foldl (applyEffect h helperOwn) st).helper = st.helper := by
  induction es generalizing st with
  | nil => rfl
  | cons e es ih =>
    rw [List.foldl_cons]
    have hn := applyEffect_now h helperOwn st e
    rcases applyEffect_helper h helperOwn st e with he | he
    · rw [ih _ (by rw [hn, he]; exact hs), he]
    · rw [ih _ (by rw [hn, he, stampAll_idem]), he, hs]

/-- **a call of `reevaluate_cache` that reaches the helper re-evaluates the helper's whole cache** -/
theorem foldl_helper_of_refresh (es : List Effect) (st : St) (hm : Effect.refresh h ∈ es) :
    (es.foldl (applyEffect h true) st).helper = stampAll st.now st.helper := by
  induction es generalizing st with
  | nil => cases hm
  | cons e es ih =>
    rw [List.foldl_cons]
    by_cases he : e = Effect.refresh h
    · subst he
      have h1 : (applyEffect h true st (Effect.refresh h)).helper = stampAll st.now st.helper := by simp [applyEffect]
      have h2 : (applyEffect h true st (Effect.refresh h)).now = st.now := applyEffect_now h true st _
      rw [foldl_helper_of_stamped h true es _ (by rw [h1, h2, stampAll_idem]), h1]
    · have hm' : Effect.refresh h ∈ es := by
        rcases List.mem_cons.mp hm with hm | hm
        · exact absurd hm.symm he
        · exact hm
      have hn := applyEffect_now h true st e
      rcases applyEffect_helper h true st e with hh | hh
      · rw [ih _ hm', hn, hh]
      · rw [ih _ hm', hn, hh, stampAll_idem]

/-- … and one that does not reach it (or a helper whose own method does not re-evaluate) leaves it as it is -/
theorem foldl_helper_of_no_refresh (es : List Effect) (st : St)
    (hm : helperOwn = false ∨ ∀ e ∈ es, e ≠ Effect.refresh h) :
    (es.foldl (applyEffect h helperOwn) st).helper = st.helper := by
  induction es generalizing st with
  | nil => rfl
  | cons e es ih =>
    rw [List.foldl_cons]
    have h1 : (applyEffect h helperOwn st e).helper = st.helper := by
      cases e with
      | refresh a =>
        simp only [applyEffect]
        split
        · rename_i hc
          rcases hm with hm | hm
          · simp [hm] at hc
          · exact absurd (by rw [hc.1]) (hm (Effect.refresh a) (List.mem_cons_self))
        · rfl
      | own => simp [applyEffect]
      | reset a => simp [applyEffect]
      | unknown k => simp [applyEffect]
    rw [ih _ (hm.imp id fun hm e he => hm e (List.mem_cons_of_mem _ he)), h1]

theorem applyEffect_own (st : St) (e : Effect) :
    (applyEffect h helperOwn st e).own = st.own ∨ (applyEffect h helperOwn st e).own = stampAll st.now st.own := by
  cases e <;> simp [applyEffect]
  split <;> simp

theorem foldl_own_of_stamped (es : List Effect) (st : St) (hs : stampAll st.now st.own = st.own) :
    (es.foldl (applyEffect h helperOwn) st).own = st.own := by
  induction es generalizing st with
  | nil => rfl
  | cons e es ih =>
    rw [List.foldl_cons]
    have hn := applyEffect_now h helperOwn st e
    rcases applyEffect_own h helperOwn st e with he | he
    · rw [ih _ (by rw [hn, he]; exact hs), he]
    · rw [ih _ (by rw [hn, he, stampAll_idem]), he, hs]

/-- a call of `reevaluate_cache` that reaches `HookHost.reevaluate_cache` re-evaluates the object's own cache -/
theorem foldl_own_of_own (es : List Effect) (st : St) (hm : Effect.own ∈ es) :
    (es.foldl (applyEffect h helperOwn) st).own = stampAll st.now st.own := by
  induction es generalizing st with
  | nil => cases hm
  | cons e es ih =>
    rw [List.foldl_cons]
    by_cases he : e = Effect.own
    · subst he
      have h1 : (applyEffect h helperOwn st Effect.own).own = stampAll st.now st.own := by simp [applyEffect]
      have h2 : (applyEffect h helperOwn st Effect.own).now = st.now := applyEffect_now h helperOwn st _
      rw [foldl_own_of_stamped h helperOwn es _ (by rw [h1, h2, stampAll_idem]), h1]
    · have hm' : Effect.own ∈ es := by
        rcases List.mem_cons.mp hm with hm | hm
        · exact absurd hm.symm he
        · exact hm
      have hn := applyEffect_now h helperOwn st e
      rcases applyEffect_own h helperOwn st e with hh | hh
      · rw [ih _ hm', hn, hh]
      · rw [ih _ hm', hn, hh, stampAll_idem]

variable (name : String)

/-- one iteration when `reevaluate_cache` reaches the helper: the sub-units read what was cached (or the current state's
    value), afterwards EVERYTHING in the helper's cache is of the state of this iteration -/
theorem iteration_spec (es : List Effect) (hm : Effect.refresh h ∈ es) (st : St) :
    (iteration es h true name st).now = st.now + 1 ∧
    (iteration es h true name st).reads = (readHook st.helper st.now name).1 :: st.reads ∧
    (iteration es h true name st).helper = stampAll st.now (readHook st.helper st.now name).2 ∧
    lookup (iteration es h true name st).helper name = some st.now := by
  have hh := foldl_helper_of_refresh h es
    { st with helper := (readHook st.helper st.now name).2, reads := (readHook st.helper st.now name).1 :: st.reads } hm
  refine ⟨?_, ?_, ?_, ?_⟩
  · simp [iteration, foldl_now]
  · simp [iteration, foldl_reads]
  · simpa [iteration] using hh
  · have : (iteration es h true name st).helper = stampAll st.now (readHook st.helper st.now name).2 := by
      simpa [iteration] using hh
    rw [this, lookup_stampAll, lookup_readHook]
    rfl

/-- one iteration when it does not: a value that is cached stays what it is -/
theorem iteration_spec_stale (es : List Effect) (hm : helperOwn = false ∨ ∀ e ∈ es, e ≠ Effect.refresh h) (st : St)
    {s : Nat} (hc : lookup st.helper name = some s) :
    (iteration es h helperOwn name st).now = st.now + 1 ∧
    (iteration es h helperOwn name st).reads = s :: st.reads ∧
    (iteration es h helperOwn name st).helper = st.helper := by
  have hr := readHook_of_cached hc st.now
  have hh := foldl_helper_of_no_refresh h helperOwn es
    { st with helper := (readHook st.helper st.now name).2, reads := (readHook st.helper st.now name).1 :: st.reads } hm
  refine ⟨?_, ?_, ?_⟩
  · simp [iteration, foldl_now]
  · simp [iteration, foldl_reads, hr]
  · have : (iteration es h helperOwn name st).helper = (readHook st.helper st.now name).2 := by
      simpa [iteration] using hh
    rw [this, hr]

/-- the value the sub-units read in the LAST of `n + 1` iterations: the cached one when there is only one iteration,
    else the one computed from the state of the iteration before -/
theorem iterate_reads_head (es : List Effect) (hm : Effect.refresh h ∈ es) (n : Nat) (st : St) {s : Nat}
    (hc : lookup st.helper name = some s) :
    (iterate es h true name (n + 1) st).reads.head? = some (match n with | 0 => s | k + 1 => st.now + k) := by
  induction n generalizing st s with
  | zero =>
    obtain ⟨-, hr, -, -⟩ := iteration_spec h name es hm st
    simp [iterate, hr, readHook_of_cached hc]
  | succ n ih =>
    obtain ⟨hn, -, -, hl⟩ := iteration_spec h name es hm st
    have := ih (iteration es h true name st) hl
    rw [show iterate es h true name (n + 1 + 1) st = iterate es h true name (n + 1) (iteration es h true name st) from rfl,
      this, hn]
    cases n with
    | zero => rfl
    | succ k => simp; omega

theorem iterate_stale (es : List Effect) (hm : helperOwn = false ∨ ∀ e ∈ es, e ≠ Effect.refresh h) (n : Nat) (st : St)
    {s : Nat} (hc : lookup st.helper name = some s) :
    (iterate es h helperOwn name n st).reads = List.replicate n s ++ st.reads ∧
    (iterate es h helperOwn name n st).helper = st.helper := by
  induction n generalizing st with
  | zero => simp [iterate]
  | succ n ih =>
    obtain ⟨-, hr, hh⟩ := iteration_spec_stale h helperOwn name es hm st hc
    obtain ⟨h1, h2⟩ := ih (iteration es h helperOwn name st) (by rw [hh]; exact hc)
    refine ⟨?_, ?_⟩
    · rw [show iterate es h helperOwn name (n + 1) st = iterate es h helperOwn name n (iteration es h helperOwn name st) from rfl,
        h1, hr, List.replicate_succ']
      simp
    · rw [show iterate es h helperOwn name (n + 1) st = iterate es h helperOwn name n (iteration es h helperOwn name st) from rfl,
        h2, hh]

end Refresh
