import PyrollModel.GrooveWF
import PyrollProofs.RealNum

/-!
# Helper lemmas for C03 (vertex lists over ℝ)

* `strictInc_pairwise` — the model's `np.all(np.diff(z) > 0)` is `List.Pairwise (· < ·)`.
* `zmonotone_simple` — a polyline whose vertices are strictly increasing in `z` is simple: two segments that are not
  neighbours have no point in common, two neighbours only their common vertex.
* `contour_*` — the mirrored polyline `mirror(right[:-1]) ++ reverse(right)`: its second half is `reverse right`, it is
  mirror-symmetric when the last point of `right` lies on `z = 0`, and strictly increasing in `z` when `reverse right` is.
-/

namespace GrooveWF

/-! ## the real instance of the small numeric helpers -/

@[simp] theorem lt_real (a b : ℝ) : PyNum.lt a b = decide (a < b) := rfl
@[simp] theorem le_real (a b : ℝ) : PyNum.le a b = decide (a ≤ b) := rfl
@[simp] theorem zero_real : (zero : ℝ) = 0 := by simp [zero]

theorem geZero_real (a : ℝ) : geZero a = decide (0 ≤ a) := by simp [geZero]

theorem finite_real (a : ℝ) : finite a = true := by simp [finite]

theorem maxN_real (a b : ℝ) : maxN a b = max a b := by
  unfold maxN
  simp only [lt_real, decide_eq_true_eq]
  split
  · rw [max_eq_right_of_lt ‹_›]
  · rw [max_eq_left (not_lt.mp ‹_›)]

/-! ## strictly increasing lists -/

theorem strictInc_head_lt : ∀ (a : ℝ) (l : List ℝ), strictInc (a :: l) = true → ∀ b ∈ l, a < b
  | _, [], _, b, hb => by cases hb
  | a, c :: r, h, b, hb => by
    simp only [strictInc, lt_real, Bool.and_eq_true, decide_eq_true_eq] at h
    rcases List.mem_cons.mp hb with rfl | hb
    · exact h.1
    · exact lt_trans h.1 (strictInc_head_lt c r h.2 b hb)

theorem strictInc_tail : ∀ (a : ℝ) (l : List ℝ), strictInc (a :: l) = true → strictInc l = true
  | _, [], _ => by simp [strictInc]
  | a, c :: r, h => by
    simp only [strictInc, Bool.and_eq_true] at h
    exact h.2

theorem strictInc_pairwise : ∀ (l : List ℝ), strictInc l = true → l.Pairwise (· < ·)
  | [], _ => List.Pairwise.nil
  | a :: l, h => List.Pairwise.cons (strictInc_head_lt a l h) (strictInc_pairwise l (strictInc_tail a l h))

theorem pairwise_strictInc : ∀ (l : List ℝ), l.Pairwise (· < ·) → strictInc l = true
  | [], _ => by simp [strictInc]
  | [a], _ => by simp [strictInc]
  | a :: b :: r, h => by
    obtain ⟨h1, h2⟩ := List.pairwise_cons.mp h
    simp only [strictInc, lt_real, Bool.and_eq_true, decide_eq_true_eq]
    exact ⟨h1 b (List.mem_cons_self ..), pairwise_strictInc (b :: r) h2⟩

/-! ## simple polylines -/

/-- `p` lies on the closed segment from `a` to `b` -/
def OnSeg (p a b : Pt ℝ) : Prop :=
  ∃ t : ℝ, 0 ≤ t ∧ t ≤ 1 ∧ p.z = a.z + t * (b.z - a.z) ∧ p.y = a.y + t * (b.y - a.y)

/-- the `i`-th segment of a vertex list -/
def seg (l : List (Pt ℝ)) (i : Nat) : Option (Pt ℝ × Pt ℝ) :=
  match l[i]?, l[i + 1]? with
  | some a, some b => some (a, b)
  | _, _ => none

/-- A polyline is simple when it does not touch or cross itself: segments `i < j` have no common point unless they are
    neighbours (`j = i + 1`), and then only the shared vertex.  (What GEOS' `is_simple` decides for a `LineString`.) -/
def Simple (l : List (Pt ℝ)) : Prop :=
  ∀ i j a b c d, i < j → seg l i = some (a, b) → seg l j = some (c, d) →
    ∀ p, OnSeg p a b → OnSeg p c d → j = i + 1 ∧ p.z = b.z ∧ p.y = b.y

theorem onSeg_z_bounds {p a b : Pt ℝ} (h : OnSeg p a b) (hab : a.z < b.z) : a.z ≤ p.z ∧ p.z ≤ b.z := by
  obtain ⟨t, t0, t1, hz, -⟩ := h
  constructor
  · rw [hz]; nlinarith
  · rw [hz]; nlinarith

theorem pairwise_getElem_lt {l : List (Pt ℝ)} (h : l.Pairwise (fun p q => p.z < q.z)) {i j : Nat} {a b : Pt ℝ}
    (hij : i < j) (ha : l[i]? = some a) (hb : l[j]? = some b) : a.z < b.z := by
  obtain ⟨hi, rfl⟩ := List.getElem?_eq_some_iff.mp ha
  obtain ⟨hj, rfl⟩ := List.getElem?_eq_some_iff.mp hb
  exact List.pairwise_iff_getElem.mp h i j hi hj hij

/-- **z-monotone ⇒ simple** (vertex lists): strictly increasing abscissae make the segments occupy z-intervals that
    overlap at most in one end point. -/
theorem zmonotone_simple (l : List (Pt ℝ)) (h : l.Pairwise (fun p q => p.z < q.z)) : Simple l := by
  intro i j a b c d hij hs1 hs2 p hp1 hp2
  simp only [seg] at hs1 hs2
  split at hs1 <;> simp only [Option.some.injEq, Prod.mk.injEq, reduceCtorEq] at hs1
  split at hs2 <;> simp only [Option.some.injEq, Prod.mk.injEq, reduceCtorEq] at hs2
  rename_i a' b' ha hb _ _ c' d' hc hd
  obtain ⟨rfl, rfl⟩ := hs1
  obtain ⟨rfl, rfl⟩ := hs2
  have hab : a'.z < b'.z := pairwise_getElem_lt h (Nat.lt_succ_self i) ha hb
  have hcd : c'.z < d'.z := pairwise_getElem_lt h (Nat.lt_succ_self j) hc hd
  obtain ⟨-, pb⟩ := onSeg_z_bounds hp1 hab
  obtain ⟨cp, -⟩ := onSeg_z_bounds hp2 hcd
  by_cases hj : j = i + 1
  · subst hj
    have hbc : b' = c' := by rw [hb] at hc; exact Option.some.inj hc
    subst hbc
    have hz : p.z = b'.z := le_antisymm pb cp
    refine ⟨rfl, hz, ?_⟩
    obtain ⟨t, t0, t1, hz1, hy1⟩ := hp1
    have ht : t = 1 := by
      have : (t - 1) * (b'.z - a'.z) = 0 := by rw [hz] at hz1; linarith
      rcases mul_eq_zero.mp this with h1 | h1
      · linarith
      · linarith
    rw [hy1, ht]; ring
  · exfalso
    have hlt : i + 1 < j := by omega
    have : b'.z < c'.z := pairwise_getElem_lt h hlt hb hc
    linarith

/-! ## the mirrored contour -/

theorem negZ_negZ (p : Pt ℝ) : negZ (negZ p) = p := by
  cases p; simp [negZ]

theorem negZ_of_z_zero {p : Pt ℝ} (h : p.z = 0) : negZ p = p := by
  cases p; simp only [negZ] at *; subst h; simp

/-- the mirror statement of the source: `left = right[:-1]` with `z` negated, `left ++ reverse right` -/
def stdMirror : Mirror := ⟨1, true, true⟩

theorem contour_std (init : List (Pt ℝ)) (c : Pt ℝ) :
    contour stdMirror (init ++ [c]) = init.map negZ ++ c :: init.reverse := by
  simp [contour, stdMirror]

theorem half_contour_std (init : List (Pt ℝ)) (c : Pt ℝ) :
    half (contour stdMirror (init ++ [c])) = c :: init.reverse := by
  rw [contour_std]
  unfold half
  have hl : (init.map negZ ++ c :: init.reverse).length / 2 = (init.map negZ).length := by
    simp only [List.length_append, List.length_map, List.length_cons, List.length_reverse]; omega
  rw [hl]
  exact List.drop_left' rfl

/-- mirror symmetry about `z = 0`: read backwards and mirrored, the vertex list is itself -/
theorem contour_symmetric (init : List (Pt ℝ)) (c : Pt ℝ) (hc : c.z = 0) :
    ((contour stdMirror (init ++ [c])).reverse).map negZ = contour stdMirror (init ++ [c]) := by
  rw [contour_std]
  simp only [List.reverse_append, List.reverse_cons, List.reverse_reverse, List.map_append, List.map_cons,
    List.map_nil, List.map_reverse, List.map_map, List.append_assoc]
  have : (negZ ∘ negZ : Pt ℝ → Pt ℝ) = id := by funext p; exact negZ_negZ p
  rw [this, List.map_id, negZ_of_z_zero hc]
  simp

/-- strict z-monotonicity of the second half (what the validator checks) gives it for the whole contour -/
theorem contour_pairwise (init : List (Pt ℝ)) (c : Pt ℝ) (hc : c.z = 0)
    (h : (c :: init.reverse).Pairwise (fun p q => p.z < q.z)) :
    (contour stdMirror (init ++ [c])).Pairwise (fun p q => p.z < q.z) := by
  rw [contour_std]
  obtain ⟨hc1, hr⟩ := List.pairwise_cons.mp h
  have hpos : ∀ q ∈ init, 0 < q.z := fun q hq => by
    have := hc1 q (List.mem_reverse.mpr hq); rwa [hc] at this
  rw [List.pairwise_append]
  refine ⟨?_, h, ?_⟩
  · rw [List.pairwise_map]
    rw [List.pairwise_reverse] at hr
    exact hr.imp (fun {a b} hab => by simp only [negZ]; linarith)
  · intro a ha b hb
    obtain ⟨q, hq, rfl⟩ := List.mem_map.mp ha
    have hq0 := hpos q hq
    rcases List.mem_cons.mp hb with rfl | hb
    · simp only [negZ]; rw [hc]; linarith
    · have := hpos b (List.mem_reverse.mp hb)
      simp only [negZ]; linarith

/-- every vertex of the contour is a vertex of the second half or the mirror image of one -/
theorem mem_contour_std {init : List (Pt ℝ)} {c v : Pt ℝ} (hv : v ∈ contour stdMirror (init ++ [c])) :
    v ∈ c :: init.reverse ∨ ∃ w ∈ c :: init.reverse, v = negZ w := by
  rw [contour_std] at hv
  rcases List.mem_append.mp hv with h | h
  · obtain ⟨w, hw, rfl⟩ := List.mem_map.mp h
    exact Or.inr ⟨w, List.mem_cons_of_mem _ (List.mem_reverse.mpr hw), rfl⟩
  · exact Or.inl h

end GrooveWF
