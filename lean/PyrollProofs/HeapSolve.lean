import PyrollProofs.HeapProg

/-! Helper lemmas for C12, part 4: `solve`.  Every function the solve model is made of keeps the tracking invariant;
the specification `Spec` of one `solve` call follows by induction on the fuel. -/

namespace Heap

theorem isOwn_of_public {f : Nat} (h : isPublic f = true) : isOwn f = false := by
  simp only [isPublic, decide_eq_true_eq] at h
  simp only [isOwn, fOUT, fROLL, fSUB, Bool.or_eq_false_iff, beq_eq_false_iff_ne, ne_eq]
  omega

theorem pubFields_lookup {h : H} {o f v : Nat} (hl : (pubFields h o).lookup f = some v) :
    (f, v) ∈ (h.obj o).fields ∧ isPublic f = true := by
  have := mem_of_lookup hl
  simp only [pubFields, List.mem_filter] at this
  exact this

theorem profCopy_ptrs {h : H} (w : Wf h) (k : Kind) (unit : Option Nat) (tpl : Nat)
    (hu : ∀ t, unit = some t → t < h.next) : ∀ v ∈ (profCopy h k unit tpl).ptrs, v < h.next := by
  intro v hv
  rcases mem_ptrs.1 hv with ⟨f, hf⟩ | hw | hi
  · simp only [profCopy, pubFields, List.mem_filter] at hf
    exact w.closed tpl v (mem_ptrs.2 (Or.inl ⟨f, hf.1⟩))
  · exact hu v hw
  · simp [profCopy] at hi

theorem profCopy_own {h : H} {k : Kind} {unit : Option Nat} {tpl f v : Nat}
    (hl : (profCopy h k unit tpl).fields.lookup f = some v) : isOwn f = false :=
  isOwn_of_public (pubFields_lookup hl).2

/-- allocation of a shallow profile copy -/
theorem Trk.allocCopy {hb : H} {u : Nat} {tr0 : List Eff} {s : S} (T : Trk hb u tr0 s) (k : Kind)
    (unit : Option Nat) (tpl : Nat) (hu : ∀ t, unit = some t → t < s.h.next) :
    Trk hb u tr0 (s.alloc (profCopy s.h k unit tpl)).1 :=
  T.allocPlain _ (profCopy_ptrs T.wf k unit tpl hu) (fun _ _ h => profCopy_own h) rfl

theorem Trk.writeOpt {hb : H} {u : Nat} {tr0 : List Eff} {s : S} (T : Trk hb u tr0 s) {o f : Nat} {vo : Option Nat}
    (ht : hb.next ≤ o ∨ Owned hb u o) (ho : o < s.h.next) (hv : ∀ v, vo = some v → v < s.h.next)
    (hf : isOwn f = false) : Step hb u tr0 s (writeOpt s o f vo) := by
  unfold Heap.writeOpt
  cases vo with
  | none => exact Step.refl T
  | some v => exact ⟨T.writePlain ht ho (hv v rfl) hf, by simp⟩

theorem Trk.copyField {hb : H} {u : Nat} {tr0 : List Eff} {s : S} (T : Trk hb u tr0 s) {o f : Nat} (src : Option Nat)
    (ht : hb.next ≤ o ∨ Owned hb u o) (ho : o < s.h.next) (hf : isOwn f = false) :
    Step hb u tr0 s (copyField s src o f) := by
  unfold Heap.copyField
  apply T.writeOpt ht ho _ hf
  intro v hv
  cases src with
  | none => simp at hv
  | some q => simp only [Option.bind_some] at hv; exact T.wf.getF_lt hv

/-- allocate a scalar and store it in a non-ownership entry -/
theorem Trk.allocWrite {hb : H} {u : Nat} {tr0 : List Eff} {s : S} (T : Trk hb u tr0 s) (k : Kind) (c : List Nat)
    {o f : Nat} (ht : hb.next ≤ o ∨ Owned hb u o) (ho : o < s.h.next) (hf : isOwn f = false) :
    Step hb u tr0 s ((s.alloc { kind := k, content := c }).1.write o f (s.alloc { kind := k, content := c }).2) := by
  refine ⟨(T.allocValue k c).writePlain ht ?_ ?_ hf, ?_⟩
  · simp only [alloc_next]; omega
  · simp
  · simp

/-! ### the hook value cache -/

theorem Trk.cacheStep {hb : H} {u : Nat} {tr0 : List Eff} {s : S} (T : Trk hb u tr0 s) {o : Nat} (c : List Nat)
    (ht : hb.next ≤ o ∨ Owned hb u o) (ho : o < s.h.next) : Step hb u tr0 s (s.setCache o c) :=
  ⟨T.setCache ht ho, by simp⟩

theorem cacheAdd_spec {hb : H} {u : Nat} {tr0 : List Eff} {s : S} (T : Trk hb u tr0 s) {o : Nat} (c : Nat)
    (ht : hb.next ≤ o ∨ Owned hb u o) (ho : o < s.h.next) : Step hb u tr0 s (cacheAdd s o c) :=
  T.cacheStep _ ht ho

theorem reCache_spec {hb : H} {u : Nat} {tr0 : List Eff} {s : S} (T : Trk hb u tr0 s) {o : Nat}
    (ht : hb.next ≤ o ∨ Owned hb u o) (ho : o < s.h.next) : Step hb u tr0 s (reCache s o) :=
  T.cacheStep _ ht ho

theorem onRoll_spec {hb : H} {u : Nat} {tr0 : List Eff} {s : S} (T : Trk hb u tr0 s) (g : S → Nat → S)
    (roll : Option Nat) (hr : ∀ r, roll = some r → (hb.next ≤ r ∨ Owned hb u r) ∧ r < s.h.next)
    (hg : ∀ r, (hb.next ≤ r ∨ Owned hb u r) → r < s.h.next → Step hb u tr0 s (g s r)) :
    Step hb u tr0 s (onRoll g s roll) := by
  unfold onRoll
  cases roll with
  | none => exact Step.refl T
  | some r => exact hg r (hr r rfl).1 (hr r rfl).2

/-! ### disk elements -/

theorem mkDisks_spec {hb : H} {u : Nat} {tr0 : List Eff} (p : Nat) :
    ∀ (n : Nat) (s : S), Trk hb u tr0 s → p < s.h.next →
      Step hb u tr0 s (mkDisks n s p).1 ∧
      (∀ d ∈ (mkDisks n s p).2, s.h.next ≤ d ∧ d < (mkDisks n s p).1.h.next ∧
        ((mkDisks n s p).1.h.obj d).kind = .unit) ∧
      (∀ o, o < s.h.next → ((mkDisks n s p).1.h.obj o).kind = (s.h.obj o).kind) := by
  intro n
  induction n with
  | zero =>
    intro s T _
    exact ⟨Step.refl T, by intro d hd; simp [mkDisks] at hd, fun _ _ => rfl⟩
  | succ n ih =>
    intro s T hp
    have hle := T.next_le
    -- the disk unit
    have T1 : Trk hb u tr0 (s.alloc { kind := .unit, tag := 5, weak := some p }).1 := by
      apply T.allocPlain
      · intro v hv; simp [Obj.ptrs] at hv; omega
      · intro f v h; simp [List.lookup] at h
      · rfl
    -- its own (empty) sub-unit list
    have T2 : Trk hb u tr0
        ((s.alloc { kind := .unit, tag := 5, weak := some p }).1.alloc { kind := .subList, weak := some s.h.next }).1 := by
      apply T1.allocPlain
      · intro v hv; simp [Obj.ptrs] at hv; simp only [alloc_next]; omega
      · intro f v h; simp [List.lookup] at h
      · rfl
    have T3 := T2.write (o := s.h.next) (f := fSUB) (v := s.h.next + 1) (Or.inl hle)
      (by simp only [alloc_next]; omega) (by simp only [alloc_next]; omega) (fun _ => by omega)
      (by intro _ _; simp [alloc_obj, ownKind, fSUB, fOUT, fROLL])
    obtain ⟨st, hds, hk⟩ := ih _ T3 (by simp only [write_next, alloc_next]; omega)
    simp only [mkDisks, alloc_id, alloc_next]
    refine ⟨⟨st.trk, ?_⟩, ?_, ?_⟩
    · have := st.mono; simp only [write_next, alloc_next] at this; omega
    · intro d hd
      simp only [List.mem_cons] at hd
      rcases hd with hd | hd
      · subst hd
        refine ⟨Nat.le_refl _, ?_, ?_⟩
        · have := st.mono; simp only [write_next, alloc_next] at this; omega
        · rw [hk _ (by simp only [write_next, alloc_next]; omega)]
          simp [alloc_obj]
      · obtain ⟨h1, h2, h3⟩ := hds d hd
        simp only [write_next, alloc_next] at h1
        exact ⟨by omega, h2, h3⟩
    · intro o ho
      rw [hk o (by simp only [write_next, alloc_next]; omega)]
      have h1 : o ≠ s.h.next := by omega
      have h2 : o ≠ s.h.next + 1 := by omega
      simp [alloc_obj, h1, h2]

/-! ### the specification of one `solve` call -/

structure Spec (s : S) (u : Nat) (r : S × Nat) : Prop where
  trk : Trk s.h u s.tr r.1
  ret_lo : s.h.next ≤ r.2
  ret_hi : r.2 < r.1.h.next
  ret_kind : (r.1.h.obj r.2).kind = .profile
  ret_weak : (r.1.h.obj r.2).weak = none
  ret_unref : ∀ o, r.2 ∉ (r.1.h.obj o).ptrs

def RecSpec (f : Rec) : Prop := ∀ s u p, Wf s.h → u < s.h.next → p < s.h.next → Spec s u (f s u p)

/-- the returned profile: a new plain public copy that nothing refers to -/
theorem spec_of_final {s s2 : S} {u o : Nat} (T : Trk s.h u s.tr s2) :
    Spec s u (s2.alloc (profCopy s2.h .profile none o)) where
  trk := T.allocCopy .profile none o (by intro t h; cases h)
  ret_lo := by simp only [alloc_id]; exact T.next_le
  ret_hi := by simp
  ret_kind := by simp [alloc_obj, profCopy]
  ret_weak := by simp [alloc_obj, profCopy]
  ret_unref := by
    intro x hx
    simp only [alloc_id] at hx
    rw [alloc_obj] at hx
    split at hx
    · have := profCopy_ptrs T.wf .profile none o (by intro t h; cases h) _ hx
      omega
    · have := T.wf.closed x _ hx
      omega

/-- calling a sub-solve from within a tracked solve -/
theorem Trk.sub {hb : H} {u : Nat} {tr0 : List Eff} {s : S} (T : Trk hb u tr0 s) (wb : Wf hb) {f : Rec}
    (hf : RecSpec f) {c p : Nat} (hc : Callee hb u c) (hcl : c < s.h.next) (hp : p < s.h.next) :
    Step hb u tr0 s (f s c p).1 ∧ (f s c p).2 < (f s c p).1.h.next := by
  have sp := hf s c p T.wf hcl hp
  exact ⟨⟨T.call wb hc sp.trk, sp.trk.next_le⟩, sp.ret_hi⟩

theorem solveChildren_spec {hb : H} {u : Nat} {tr0 : List Eff} (wb : Wf hb) {f : Rec} (hf : RecSpec f) :
    ∀ (cs : List Nat) (s : S) (p : Nat), Trk hb u tr0 s → p < s.h.next →
      (∀ c ∈ cs, Callee hb u c ∧ c < s.h.next) →
      Step hb u tr0 s (solveChildren f cs s p).1 ∧ (solveChildren f cs s p).2 < (solveChildren f cs s p).1.h.next := by
  intro cs
  induction cs with
  | nil => intro s p T hp _; exact ⟨Step.refl T, hp⟩
  | cons c rest ih =>
    intro s p T hp hcs
    obtain ⟨hc, hcl⟩ := hcs c List.mem_cons_self
    obtain ⟨st, hr⟩ := T.sub wb hf hc hcl hp
    have hrest : ∀ x ∈ rest, Callee hb u x ∧ x < (f s c p).1.h.next := by
      intro x hx
      obtain ⟨h1, h2⟩ := hcs x (List.mem_cons_of_mem _ hx)
      exact ⟨h1, Nat.lt_of_lt_of_le h2 st.mono⟩
    obtain ⟨st2, hr2⟩ := ih (f s c p).1 (f s c p).2 st.trk hr hrest
    have e : solveChildren f (c :: rest) s p = solveChildren f rest (f s c p).1 (f s c p).2 := rfl
    rw [e]
    exact ⟨Step.trans st st2, hr2⟩

/-! ### root hooks -/

theorem inHooks_spec {hb : H} {u : Nat} {tr0 : List Eff} {s : S} (T : Trk hb u tr0 s) (tag : Nat) {i : Nat}
    (hi : hb.next ≤ i) (hil : i < s.h.next) : Step hb u tr0 s (inHooks s tag i) := by
  unfold inHooks
  split
  · exact T.allocWrite .atom [] (Or.inl hi) hil (by decide)
  · exact Step.refl T

theorem unitHooks_spec {hb : H} {u : Nat} {tr0 : List Eff} {s : S} (T : Trk hb u tr0 s) (hu : u < hb.next) :
    Step hb u tr0 s (unitHooks s u) :=
  T.allocWrite .atom [] (Or.inr (Owned.self u)) (Nat.lt_of_lt_of_le hu T.next_le) (by decide)

theorem rollHooks_spec {hb : H} {u : Nat} {tr0 : List Eff} {s : S} (T : Trk hb u tr0 s) (roll : Option Nat)
    (hr : ∀ r, roll = some r → (hb.next ≤ r ∨ Owned hb u r) ∧ r < s.h.next) :
    Step hb u tr0 s (rollHooks s roll) := by
  unfold rollHooks
  cases roll with
  | none => exact Step.refl T
  | some r => exact T.allocWrite .atom [] (hr r rfl).1 (hr r rfl).2 (by decide)

theorem hookCS_spec {hb : H} {u : Nat} {tr0 : List Eff} {s : S} (T : Trk hb u tr0 s) (tag i : Nat) {o : Nat}
    (cs : List Nat) (ht : hb.next ≤ o ∨ Owned hb u o) (ho : o < s.h.next) :
    Step hb u tr0 s (hookCS s tag i o cs) := by
  unfold hookCS
  split
  · exact T.allocWrite .value [tag] ht ho (by decide)
  · exact T.copyField _ ht ho (by decide)

theorem hookT_spec {hb : H} {u : Nat} {tr0 : List Eff} {s : S} (T : Trk hb u tr0 s) {o : Nat}
    (ht : hb.next ≤ o ∨ Owned hb u o) (ho : o < s.h.next) : Step hb u tr0 s (hookT s o) :=
  T.allocWrite .atom [] ht ho (by decide)

theorem hookTOCS_spec {hb : H} {u : Nat} {tr0 : List Eff} {s : S} (T : Trk hb u tr0 s) (tag : Nat) {o : Nat}
    (ht : hb.next ≤ o ∨ Owned hb u o) (ho : o < s.h.next) : Step hb u tr0 s (hookTOCS s tag o) := by
  unfold hookTOCS
  split
  · exact T.writeOpt ht ho (fun v hv => T.wf.getF_lt hv) (by decide)
  · exact Step.refl T

theorem hookCL_spec {hb : H} {u : Nat} {tr0 : List Eff} {s : S} (T : Trk hb u tr0 s) (P : Producers) (hP : P.Safe)
    (tag : Nat) (ovr : Bool) (i : Nat) {o : Nat} (cs : List Nat) (roll : Option Nat)
    (ht : hb.next ≤ o ∨ Owned hb u o) (ho : o < s.h.next) :
    Step hb u tr0 s (hookCL P s tag ovr i o cs roll) := by
  have h0 : 0 < s.h.next := Nat.lt_of_le_of_lt (Nat.zero_le _) ho
  unfold hookCL
  split
  · -- pass: SymmetricRollPass.classifiers, then set(...)
    simp only
    have hsrc : ∀ v, ((roll.bind fun r => getF s.h r fGROOVE).bind fun g => getF s.h g fCL) = some v → v < s.h.next := by
      intro v hv
      cases hr : (roll.bind fun r => getF s.h r fGROOVE) with
      | none => rw [hr] at hv; simp at hv
      | some g => rw [hr] at hv; simp only [Option.bind_some] at hv; exact T.wf.getF_lt hv
    obtain ⟨s1, r1⟩ := runOn_spec P.sym hP.2.2 s _ T hsrc h0
    obtain ⟨s2, r2⟩ := runOn_spec P.pass hP.2.1 _ _ s1.trk r1 (Nat.lt_of_lt_of_le h0 s1.mono)
    have s3 := s2.trk.writeOpt (f := fCL) ht (Nat.lt_of_lt_of_le ho (Nat.le_trans s1.mono s2.mono)) r2 (by decide)
    exact Step.trans s1 (Step.trans s2 s3)
  · split
    · simp only
      obtain ⟨s1, r1⟩ := runOn_spec P.rot hP.1 s (getF s.h i fCL) T (fun v hv => T.wf.getF_lt hv) h0
      have s2 := s1.trk.writeOpt (f := fCL) ht (Nat.lt_of_lt_of_le ho s1.mono) r1 (by decide)
      exact Step.trans s1 s2
    · split
      · exact T.allocWrite .value [9] ht ho (by decide)
      · exact T.copyField _ ht ho (by decide)

theorem outHooks_spec {hb : H} {u : Nat} {tr0 : List Eff} {s : S} (T : Trk hb u tr0 s) (P : Producers) (hP : P.Safe)
    (tag : Nat) (ovr : Bool) (i : Nat) {o : Nat} (cs : List Nat) (roll : Option Nat)
    (ht : hb.next ≤ o ∨ Owned hb u o) (ho : o < s.h.next) :
    Step hb u tr0 s (outHooks P s tag ovr i o cs roll) := by
  unfold outHooks
  have a := hookCS_spec T tag i cs ht ho
  have b := hookCL_spec a.trk P hP tag ovr i cs roll ht (Nat.lt_of_lt_of_le ho a.mono)
  have c := hookT_spec b.trk ht (Nat.lt_of_lt_of_le ho (Nat.le_trans a.mono b.mono))
  have d := hookTOCS_spec c.trk tag ht (Nat.lt_of_lt_of_le ho (Nat.le_trans a.mono (Nat.le_trans b.mono c.mono)))
  exact Step.trans a (Step.trans b (Step.trans c d))

/-! ### one pass of the loop, the loop -/

/-- the facts about the objects a solve of `u` works on, stable while the heap grows -/
structure Locals (hb : H) (u i o : Nat) (roll : Option Nat) (cs : List Nat) (s : S) : Prop where
  hi : hb.next ≤ i ∧ i < s.h.next
  ho : (hb.next ≤ o ∨ Owned hb u o) ∧ o < s.h.next
  hr : ∀ r, roll = some r → (hb.next ≤ r ∨ Owned hb u r) ∧ r < s.h.next
  hc : ∀ c ∈ cs, Callee hb u c ∧ c < s.h.next

theorem Locals.mono {hb : H} {u i o : Nat} {roll : Option Nat} {cs : List Nat} {s s' : S}
    (L : Locals hb u i o roll cs s) (h : s.h.next ≤ s'.h.next) : Locals hb u i o roll cs s' where
  hi := ⟨L.hi.1, Nat.lt_of_lt_of_le L.hi.2 h⟩
  ho := ⟨L.ho.1, Nat.lt_of_lt_of_le L.ho.2 h⟩
  hr := fun r hr => ⟨(L.hr r hr).1, Nat.lt_of_lt_of_le (L.hr r hr).2 h⟩
  hc := fun c hc => ⟨(L.hc c hc).1, Nat.lt_of_lt_of_le (L.hc c hc).2 h⟩

theorem cacheHooks_spec {hb : H} {u : Nat} {tr0 : List Eff} (hu : u < hb.next) {i o : Nat} {roll : Option Nat}
    {cs : List Nat} {s : S} (T : Trk hb u tr0 s) (L : Locals hb u i o roll cs s) :
    Step hb u tr0 s (cacheHooks s u i o roll) := by
  unfold cacheHooks
  have a := cacheAdd_spec T cIN (Or.inl L.hi.1) L.hi.2
  have La := L.mono a.mono
  have b := cacheAdd_spec a.trk cOUT La.ho.1 La.ho.2
  have Lb := La.mono b.mono
  have c := cacheAdd_spec b.trk cUNIT (Or.inr (Owned.self u)) (Nat.lt_of_lt_of_le hu b.trk.next_le)
  have Lc := Lb.mono c.mono
  have d := onRoll_spec c.trk (fun a r => cacheAdd a r cROLL) roll Lc.hr
    (fun r h1 h2 => cacheAdd_spec c.trk cROLL h1 h2)
  exact Step.trans a (Step.trans b (Step.trans c d))

theorem iterBody_spec {hb : H} {u : Nat} {tr0 : List Eff} (wb : Wf hb) (hu : u < hb.next) (P : Producers)
    (hP : P.Safe) {f : Rec} (hf : RecSpec f) {i o : Nat} {roll : Option Nat} (tag : Nat) (ovr : Bool) {cs : List Nat}
    {s : S} (T : Trk hb u tr0 s) (L : Locals hb u i o roll cs s) :
    Step hb u tr0 s (iterBody P f u i o roll tag ovr cs s) := by
  unfold iterBody
  have z := reCache_spec T (Or.inl L.hi.1) L.hi.2
  have Lz := L.mono z.mono
  obtain ⟨a, _⟩ := solveChildren_spec wb hf cs _ i z.trk Lz.hi.2 Lz.hc
  have La := Lz.mono a.mono
  have a1 := reCache_spec a.trk (Or.inr (Owned.self u)) (Nat.lt_of_lt_of_le hu a.trk.next_le)
  have La1 := La.mono a1.mono
  have a2 := onRoll_spec a1.trk reCache roll La1.hr (fun r h1 h2 => reCache_spec a1.trk h1 h2)
  have La2 := La1.mono a2.mono
  have a3 := reCache_spec a2.trk La2.ho.1 La2.ho.2
  have La3 := La2.mono a3.mono
  have b := inHooks_spec a3.trk tag La3.hi.1 La3.hi.2
  have Lb := La3.mono b.mono
  have c := outHooks_spec b.trk P hP tag ovr i cs roll Lb.ho.1 Lb.ho.2
  have Lc := Lb.mono c.mono
  have d := unitHooks_spec c.trk hu
  have Ld := Lc.mono d.mono
  have e := rollHooks_spec d.trk roll Ld.hr
  have Le := Ld.mono e.mono
  have g := cacheHooks_spec hu e.trk Le
  exact Step.trans z (Step.trans a (Step.trans a1 (Step.trans a2 (Step.trans a3
    (Step.trans b (Step.trans c (Step.trans d (Step.trans e g))))))))

theorem iterN_spec {hb : H} {u : Nat} {tr0 : List Eff} {i o : Nat} {roll : Option Nat} {cs : List Nat} (g : S → S)
    (hg : ∀ s, Trk hb u tr0 s → Locals hb u i o roll cs s → Step hb u tr0 s (g s)) :
    ∀ (k : Nat) (s : S), Trk hb u tr0 s → Locals hb u i o roll cs s → Step hb u tr0 s (iterN k g s) := by
  intro k
  induction k with
  | zero => intro s T _; exact Step.refl T
  | succ k ih =>
    intro s T L
    have a := hg s T L
    have b := ih (g s) a.trk (L.mono a.mono)
    exact Step.trans a b

/-! ### init_solve -/

theorem runRotator_spec {hb : H} {u : Nat} {tr0 : List Eff} (wb : Wf hb) {f : Rec} (hf : RecSpec f) {s : S} {p : Nat}
    (T : Trk hb u tr0 s) (hul : u < s.h.next) (hp : p < s.h.next) :
    Step hb u tr0 s (runRotator f s u p).1 ∧ (runRotator f s u p).2 < (runRotator f s u p).1.h.next := by
  unfold runRotator
  simp only
  have hle := T.next_le
  have T1 : Trk hb u tr0 (s.alloc { kind := .unit, tag := 4, weak := some u }).1 := by
    apply T.allocPlain
    · intro v hv; simp [Obj.ptrs] at hv; omega
    · intro g v h; simp [List.lookup] at h
    · rfl
  have T2 : Trk hb u tr0
      ((s.alloc { kind := .unit, tag := 4, weak := some u }).1.alloc { kind := .subList, weak := some s.h.next }).1 := by
    apply T1.allocPlain
    · intro v hv; simp [Obj.ptrs] at hv; simp only [alloc_next]; omega
    · intro g v h; simp [List.lookup] at h
    · rfl
  have T3 := T2.write (o := s.h.next) (f := fSUB) (v := s.h.next + 1) (Or.inl hle)
    (by simp only [alloc_next]; omega) (by simp only [alloc_next]; omega) (fun _ => by omega)
    (by intro _ _; simp [alloc_obj, ownKind, fSUB, fOUT, fROLL])
  obtain ⟨st, hr⟩ := T3.sub wb hf (c := s.h.next) (p := p) (Or.inl hle)
    (by simp only [write_next, alloc_next]; omega) (by simp only [write_next, alloc_next]; omega)
  simp only [alloc_id, alloc_next]
  refine ⟨⟨st.trk, ?_⟩, hr⟩
  have := st.mono; simp only [write_next, alloc_next] at this; omega

theorem preProcess_spec {hb : H} {u : Nat} {tr0 : List Eff} (wb : Wf hb) {f : Rec} (hf : RecSpec f) {s : S} {p : Nat}
    (T : Trk hb u tr0 s) (hul : u < s.h.next) (hp : p < s.h.next) :
    Step hb u tr0 s (preProcess f s u p).1 ∧ (preProcess f s u p).2 < (preProcess f s u p).1.h.next := by
  unfold preProcess
  simp only
  split
  · have z := T.cacheStep ((s.h.obj u).cache.filter (· != cROT)) (Or.inr (Owned.self u)) hul
    split
    · obtain ⟨a, hr⟩ := runRotator_spec wb hf (p := p) z.trk (by simpa using hul) (by simpa using hp)
      exact ⟨Step.trans z a, hr⟩
    · exact ⟨z, by simpa using hp⟩
  · exact ⟨Step.refl T, hp⟩

theorem storeIn_spec {hb : H} {u : Nat} {tr0 : List Eff} {s : S} (T : Trk hb u tr0 s) (hu : u < hb.next) (p1 : Nat) :
    Step hb u tr0 s (storeIn s u p1).1 ∧ hb.next ≤ (storeIn s u p1).2 ∧ (storeIn s u p1).2 < (storeIn s u p1).1.h.next := by
  have hle := T.next_le
  unfold storeIn
  simp only [alloc_id]
  have T1 := T.allocCopy .inProfile (some u) p1 (by intro t h; simp only [Option.some.injEq] at h; omega)
  have T2 := T1.writePlain (o := u) (f := fIN) (v := s.h.next) (Or.inr (Owned.self u))
    (by simp only [alloc_next]; omega) (by simp only [alloc_next]; omega) (by decide)
  exact ⟨⟨T2, by simp⟩, hle, by simp⟩

/-! ### a re-used out-profile: the `else:` branch of `init_solve` (form `Reuse.handOver`) -/

theorem delOutdated_spec {hb : H} {u : Nat} {tr0 : List Eff} (roots : List Nat) (handed : List (Nat × Nat)) {o : Nat}
    (ht : hb.next ≤ o ∨ Owned hb u o) :
    ∀ (fs : List (Nat × Nat)) (s : S), Trk hb u tr0 s → o < s.h.next →
      Step hb u tr0 s (delOutdated roots handed o fs s) ∧ (delOutdated roots handed o fs s).h.next = s.h.next := by
  intro fs
  induction fs with
  | nil => intro s T _; exact ⟨Step.refl T, rfl⟩
  | cons e r ih =>
    intro s T ho
    simp only [delOutdated]
    split
    · obtain ⟨st, hn⟩ := ih (s.del o e.1) (T.del ht ho) (by simpa using ho)
      refine ⟨⟨st.trk, ?_⟩, by rw [hn]; rfl⟩
      have := st.mono; simpa using this
    · exact ih s T ho

theorem handOver_spec {hb : H} {u : Nat} {tr0 : List Eff} (roots : List Nat) (handed : List (Nat × Nat)) {o : Nat}
    (ht : hb.next ≤ o ∨ Owned hb u o) :
    ∀ (l : List (Nat × Nat)) (s : S), Trk hb u tr0 s → o < s.h.next →
      (∀ e ∈ l, isOwn e.1 = false ∧ (handed.lookup e.1).getD e.2 < s.h.next) →
      Step hb u tr0 s (handOver roots handed o l s) ∧ (handOver roots handed o l s).h.next = s.h.next := by
  intro l
  induction l with
  | nil => intro s T _ _; exact ⟨Step.refl T, rfl⟩
  | cons e r ih =>
    intro s T ho hl
    simp only [handOver]
    have hr : ∀ x ∈ r, isOwn x.1 = false ∧ (handed.lookup x.1).getD x.2 < s.h.next :=
      fun x hx => hl x (List.mem_cons_of_mem _ hx)
    split
    · exact ih s T ho hr
    · obtain ⟨hf, hv⟩ := hl e List.mem_cons_self
      obtain ⟨st, hn⟩ := ih (s.write o e.1 ((handed.lookup e.1).getD e.2)) (T.writePlain ht ho hv hf)
        (by simpa using ho) (by simpa using hr)
      refine ⟨⟨st.trk, ?_⟩, by rw [hn]; rfl⟩
      have := st.mono; simpa using this

theorem reuseOut_spec {hb : H} {u : Nat} {tr0 : List Eff} {s : S} (T : Trk hb u tr0 s) (tag : Nat) {o : Nat}
    (ht : hb.next ≤ o ∨ Owned hb u o) (ho : o < s.h.next) (p1 : Nat) :
    Step hb u tr0 s (reuseOut tag s o p1) ∧ (reuseOut tag s o p1).h.next = s.h.next := by
  unfold reuseOut
  simp only
  obtain ⟨a, ha⟩ := delOutdated_spec (outRoots tag) (pubFields s.h p1) ht (s.h.obj o).fields s T ho
  obtain ⟨b, hb'⟩ := handOver_spec (outRoots tag) (pubFields s.h p1) ht (pubFields s.h p1) _ a.trk (by rw [ha]; exact ho) (by
    intro e he
    have hm : e ∈ (s.h.obj p1).fields ∧ isPublic e.1 = true := by
      simpa [pubFields, List.mem_filter] using he
    refine ⟨isOwn_of_public hm.2, ?_⟩
    rw [ha]
    cases hl : (pubFields s.h p1).lookup e.1 with
    | none => exact T.wf.closed p1 e.2 (mem_ptrs.2 (Or.inl ⟨e.1, hm.1⟩))
    | some v => exact T.wf.closed p1 v (mem_ptrs.2 (Or.inl ⟨e.1, (pubFields_lookup hl).1⟩)))
  exact ⟨Step.trans a b, by rw [hb', ha]⟩

theorem ensureOut_spec {hb : H} {u : Nat} {tr0 : List Eff} {s : S} (rf : Reuse) (tag : Nat) (T : Trk hb u tr0 s)
    (hu : u < hb.next) (p1 : Nat) :
    Step hb u tr0 s (ensureOut rf tag s u p1).1 ∧
      (hb.next ≤ (ensureOut rf tag s u p1).2 ∨ Owned hb u (ensureOut rf tag s u p1).2) ∧
      (ensureOut rf tag s u p1).2 < (ensureOut rf tag s u p1).1.h.next := by
  have hle := T.next_le
  unfold ensureOut
  split
  · rename_i o ho
    have hot := T.ownTarget hu (by decide) ho
    have hol := T.wf.getF_lt ho
    cases rf with
    | keep => exact ⟨Step.refl T, hot, hol⟩
    | handOver =>
      obtain ⟨st, hn⟩ := reuseOut_spec T tag hot hol p1
      exact ⟨st, hot, by simp only; rw [hn]; exact hol⟩
  · simp only [alloc_id]
    have T1 := T.allocCopy .outProfile (some u) p1 (by intro t h; simp only [Option.some.injEq] at h; omega)
    have T2 := T1.write (o := u) (f := fOUT) (v := s.h.next) (Or.inr (Owned.self u))
      (by simp only [alloc_next]; omega) (by simp only [alloc_next]; omega) (fun _ => hle)
      (by intro _ _; simp [alloc_obj, profCopy, ownKind])
    exact ⟨⟨T2, by simp⟩, Or.inl hle, by simp⟩

theorem ensureDisks_spec {hb : H} {u : Nat} {tr0 : List Eff} {s : S} (T : Trk hb u tr0 s) (hu : u < hb.next) (ob : Obj) :
    Step hb u tr0 s (ensureDisks s u ob) := by
  have hle := T.next_le
  unfold ensureDisks
  split
  · simp only
    obtain ⟨a, hds, _⟩ := mkDisks_spec (hb := hb) (u := u) (tr0 := tr0) u ob.disks s T (by omega)
    have T1 : Trk hb u tr0 ((mkDisks ob.disks s u).1.alloc
        { kind := .subList, weak := some u, items := (mkDisks ob.disks s u).2 }).1 := by
      apply a.trk.alloc
      · intro v hv
        rcases mem_ptrs.1 hv with ⟨g, hg⟩ | hw | hi
        · simp at hg
        · simp only [Option.some.injEq] at hw; have := a.mono; omega
        · exact (hds v hi).2.1
      · intro g v _ h; simp [List.lookup] at h
      · intro c hc; have := (hds c hc).1; omega
      · intro _
        refine ⟨by intro g v _ h; simp [List.lookup] at h, ?_⟩
        intro _ c hc; exact (hds c hc).2.2
    have T2 := T1.write (o := u) (f := fSUB) (v := (mkDisks ob.disks s u).1.h.next) (Or.inr (Owned.self u))
      (by simp only [alloc_next]; have := a.mono; omega) (by simp) (fun _ => a.trk.next_le)
      (by intro _ _; simp [alloc_obj, ownKind, fSUB, fOUT, fROLL])
    refine ⟨T2, ?_⟩
    simp only [write_next, alloc_next]; have := a.mono; omega
  · exact Step.refl T

theorem passInit_spec {hb : H} {u : Nat} {tr0 : List Eff} {s : S} (T : Trk hb u tr0 s) (ob : Obj) {o : Nat}
    (ht : hb.next ≤ o ∨ Owned hb u o) (ho : o < s.h.next) : Step hb u tr0 s (passInit s ob o) := by
  unfold passInit
  split
  · exact T.allocWrite .value [7] ht ho (by decide)
  · exact Step.refl T

theorem initSolve_spec {hb : H} {u : Nat} {tr0 : List Eff} (wb : Wf hb) (hu : u < hb.next) (rf : Reuse) {f : Rec}
    (hf : RecSpec f) {s : S} {p : Nat} (T : Trk hb u tr0 s) (hp : p < s.h.next) :
    Step hb u tr0 s (initSolve rf f s u p).1 ∧
      (hb.next ≤ (initSolve rf f s u p).2.1 ∧ (initSolve rf f s u p).2.1 < (initSolve rf f s u p).1.h.next) ∧
      ((hb.next ≤ (initSolve rf f s u p).2.2 ∨ Owned hb u (initSolve rf f s u p).2.2) ∧
        (initSolve rf f s u p).2.2 < (initSolve rf f s u p).1.h.next) := by
  have hul : u < s.h.next := Nat.lt_of_lt_of_le hu T.next_le
  obtain ⟨a, _⟩ := preProcess_spec wb hf T hul hp
  obtain ⟨b, hi1, hi2⟩ := storeIn_spec a.trk hu (preProcess f s u p).2
  obtain ⟨c, ho1, ho2⟩ := ensureOut_spec rf (s.h.obj u).tag b.trk hu (preProcess f s u p).2
  have d := ensureDisks_spec c.trk hu (s.h.obj u)
  have e := passInit_spec d.trk (s.h.obj u) ho1 (Nat.lt_of_lt_of_le ho2 d.mono)
  have hde := Nat.le_trans d.mono e.mono
  refine ⟨Step.trans a (Step.trans b (Step.trans c (Step.trans d e))), ⟨hi1, ?_⟩, ho1, ?_⟩
  · exact Nat.lt_of_lt_of_le hi2 (Nat.le_trans c.mono hde)
  · exact Nat.lt_of_lt_of_le ho2 hde

/-! ### what the `else:` branch establishes: the re-used out-profile answers for every public name that is not a root
hook exactly like the CURRENT incoming profile -/

theorem lookup_isSome_of_mem {l : List (Nat × Nat)} {e : Nat × Nat} (h : e ∈ l) : ∃ v, l.lookup e.1 = some v := by
  induction l with
  | nil => cases h
  | cons a r ih =>
    simp only [List.lookup]
    by_cases hk : e.1 = a.1
    · have : (e.1 == a.1) = true := by simp [hk]
      rw [this]; exact ⟨a.2, rfl⟩
    · have hb : (e.1 == a.1) = false := by simp [hk]
      rw [hb]
      rcases List.mem_cons.1 h with h | h
      · subst h; exact absurd rfl hk
      · exact ih h

/-- an outdated name is gone after the deletions (it was absent, or it is among the entries the list was made from) -/
theorem getF_delOutdated_none (roots : List Nat) (handed : List (Nat × Nat)) (o g : Nat)
    (hc : (isPublic g && !roots.contains g && (handed.lookup g).isNone) = true) :
    ∀ (fs : List (Nat × Nat)) (s : S), (getF s.h o g = none ∨ ∃ e ∈ fs, e.1 = g) →
      getF (delOutdated roots handed o fs s).h o g = none := by
  intro fs
  induction fs with
  | nil =>
    intro s h
    rcases h with h | ⟨e, he, _⟩
    · exact h
    · cases he
  | cons e r ih =>
    intro s h
    simp only [delOutdated]
    apply ih
    by_cases hk : e.1 = g
    · left; rw [hk, hc]; simp only [if_true]; rw [getF_del]; simp
    · rcases h with h | ⟨x, hx, hxg⟩
      · left
        split
        · rw [getF_del]; split
          · rfl
          · exact h
        · exact h
      · right
        rcases List.mem_cons.1 hx with hx | hx
        · subst hx; exact absurd hxg hk
        · exact ⟨x, hx, hxg⟩

/-- the hand-over writes only names of the incoming profile -/
theorem getF_handOver_other (roots : List Nat) (handed : List (Nat × Nat)) (o x g : Nat) :
    ∀ (l : List (Nat × Nat)) (s : S), (∀ e ∈ l, e.1 ≠ g) → getF (handOver roots handed o l s).h x g = getF s.h x g := by
  intro l
  induction l with
  | nil => intro s _; rfl
  | cons e r ih =>
    intro s h
    simp only [handOver]
    rw [ih _ (fun y hy => h y (List.mem_cons_of_mem _ hy))]
    split
    · rfl
    · rw [getF_write]
      have : ¬ (x = o ∧ g = e.1) := fun hh => h e List.mem_cons_self hh.2.symm
      simp [this]

/-- a name of the incoming profile that is not a root hook ends up with the incoming profile's value -/
theorem getF_handOver_set (roots : List Nat) (handed : List (Nat × Nat)) (o g v : Nat)
    (hnr : roots.contains g = false) (hv : handed.lookup g = some v) :
    ∀ (l : List (Nat × Nat)) (s : S), (getF s.h o g = some v ∨ ∃ e ∈ l, e.1 = g) →
      getF (handOver roots handed o l s).h o g = some v := by
  intro l
  induction l with
  | nil =>
    intro s h
    rcases h with h | ⟨e, he, _⟩
    · exact h
    · cases he
  | cons e r ih =>
    intro s h
    simp only [handOver]
    apply ih
    by_cases hk : e.1 = g
    · left; rw [hk, hnr, hv]; simp [getF_write]
    · rcases h with h | ⟨x, hx, hxg⟩
      · left
        split
        · exact h
        · rw [getF_write]
          have : ¬ (o = o ∧ g = e.1) := fun hh => hk hh.2.symm
          rw [if_neg this]; exact h
      · right
        rcases List.mem_cons.1 hx with hx | hx
        · subst hx; exact absurd hxg hk
        · exact ⟨x, hx, hxg⟩

theorem getF_pubFields {h : H} {p g : Nat} (hpub : isPublic g = true) : (pubFields h p).lookup g = getF h p g :=
  lookup_filter_pred _ isPublic g hpub

/-- `else:` branch: afterwards the re-used out-profile `o` has, under every public name that is not a root hook, what
the incoming profile `p1` has under it (the same reference, or nothing) -/
theorem reuseOut_getF (tag : Nat) (s : S) (o p1 g : Nat) (hpub : isPublic g = true)
    (hnr : (outRoots tag).contains g = false) : getF (reuseOut tag s o p1).h o g = getF s.h p1 g := by
  unfold reuseOut
  simp only
  rw [← getF_pubFields (h := s.h) (p := p1) hpub]
  cases hl : (pubFields s.h p1).lookup g with
  | none =>
    rw [getF_handOver_other]
    · apply getF_delOutdated_none
      · rw [hpub, hnr, hl]; rfl
      · cases ho : getF s.h o g with
        | none => left; rfl
        | some v => right; exact ⟨(g, v), mem_of_lookup ho, rfl⟩
    · intro e he hk
      obtain ⟨v, hv⟩ := lookup_isSome_of_mem he
      rw [hk, hl] at hv; cases hv
  | some v =>
    apply getF_handOver_set _ _ _ _ _ hnr hl
    right; exact ⟨(g, v), mem_of_lookup hl, rfl⟩

/-- `Unit.init_solve` in the form `handOver`, out-profile created OR re-used: under every public name that is not a
root hook the unit's out-profile has what the incoming profile has -/
theorem ensureOut_handOver_getF (tag : Nat) (s : S) (u p1 g : Nat) (hpub : isPublic g = true)
    (hnr : (outRoots tag).contains g = false) :
    getF (ensureOut .handOver tag s u p1).1.h (ensureOut .handOver tag s u p1).2 g = getF s.h p1 g := by
  unfold ensureOut
  split
  · exact reuseOut_getF tag s _ p1 g hpub hnr
  · simp only [alloc_id]
    rw [getF_write]
    have hg : g ≠ fOUT := by
      intro e; subst e; revert hpub; decide
    simp only [hg, and_false, if_false]
    rw [getF_alloc]
    simp only [if_true]
    exact getF_pubFields hpub

/-- … whereas the form `keep` leaves a re-used out-profile (and everything else) as the previous solve left it -/
theorem ensureOut_keep_reused (tag : Nat) (s : S) (u p1 o : Nat) (ho : getF s.h u fOUT = some o) :
    ensureOut .keep tag s u p1 = (s, o) := by
  unfold ensureOut
  rw [ho]

/-! ### solve -/

theorem popIt_h (s : S) : s.popIt.2.h = s.h := by
  unfold S.popIt; split <;> rfl
theorem popIt_tr (s : S) : s.popIt.2.tr = s.tr := by
  unfold S.popIt; split <;> rfl

theorem solveBody_spec (P : Producers) (hP : P.Safe) {f : Rec} (hf : RecSpec f) : RecSpec (solveBody P f) := by
  intro s u p w hu hp
  -- everything is tracked relative to the entry state
  have T0 : Trk s.h u s.tr s.popIt.2 := by
    have := Trk.refl (s := s.popIt.2) (by rw [popIt_h]; exact w) u
    rw [popIt_h, popIt_tr] at this; exact this
  obtain ⟨a, hi, ho⟩ := initSolve_spec w hu P.reuse hf T0 (by rw [popIt_h]; exact hp)
  -- the locals of the loop
  have L : Locals s.h u (initSolve P.reuse f s.popIt.2 u p).2.1 (initSolve P.reuse f s.popIt.2 u p).2.2
      (if (s.popIt.2.h.obj u).tag = 1 then getF (initSolve P.reuse f s.popIt.2 u p).1.h u fROLL else none)
      (subItems (initSolve P.reuse f s.popIt.2 u p).1.h u) (initSolve P.reuse f s.popIt.2 u p).1 := by
    refine ⟨hi, ho, ?_, ?_⟩
    · intro r hr
      split at hr
      · exact ⟨a.trk.ownTarget hu (by decide) hr, a.trk.wf.getF_lt hr⟩
      · cases hr
    · intro c hc
      unfold subItems at hc
      split at hc
      · rename_i l hl
        exact a.trk.children w hu hl hc
      · cases hc
  have b := iterN_spec (hb := s.h) (u := u) (tr0 := s.tr) _
    (fun s' T' L' => iterBody_spec w hu P hP hf (s.popIt.2.h.obj u).tag (s.popIt.2.h.obj u).ovr T' L')
    s.popIt.1 _ a.trk L
  have e : solveBody P f s u p =
      (iterN s.popIt.1 (iterBody P f u (initSolve P.reuse f s.popIt.2 u p).2.1 (initSolve P.reuse f s.popIt.2 u p).2.2
          (if (s.popIt.2.h.obj u).tag = 1 then getF (initSolve P.reuse f s.popIt.2 u p).1.h u fROLL else none)
          (s.popIt.2.h.obj u).tag (s.popIt.2.h.obj u).ovr (subItems (initSolve P.reuse f s.popIt.2 u p).1.h u))
        (initSolve P.reuse f s.popIt.2 u p).1).alloc
        (profCopy (iterN s.popIt.1 (iterBody P f u (initSolve P.reuse f s.popIt.2 u p).2.1 (initSolve P.reuse f s.popIt.2 u p).2.2
          (if (s.popIt.2.h.obj u).tag = 1 then getF (initSolve P.reuse f s.popIt.2 u p).1.h u fROLL else none)
          (s.popIt.2.h.obj u).tag (s.popIt.2.h.obj u).ovr (subItems (initSolve P.reuse f s.popIt.2 u p).1.h u))
        (initSolve P.reuse f s.popIt.2 u p).1).h .profile none (initSolve P.reuse f s.popIt.2 u p).2.2) := rfl
  rw [e]
  exact spec_of_final b.trk

theorem solveU_spec (P : Producers) (hP : P.Safe) : ∀ fuel, RecSpec (solveU P fuel) := by
  intro fuel
  induction fuel with
  | zero =>
    intro s u p w _ _
    exact spec_of_final (Trk.refl w u)
  | succ fuel ih => exact solveBody_spec P hP ih

end Heap
