import PyrollModel.LifecycleCopy

/-!
Helper lemmas for the shallow-copy model of C02 (`PyrollModel/LifecycleCopy.lean`; core Lean only): what the GENERATED
descriptions of `HookHost.__init__` / `__copy__` instantiate to, and per-operation frame lemmas (the explicit values of a
host change only by assignments to it, the dictionary object it refers to only by a rebind of it).
-/

namespace LifeCopy

/-- the host an operation is applied to -/
def Op.target : Op → Option Host
  | .copy _ => none
  | .assign i _ _ | .delete i _ | .read i _ | .clear i | .rebind i => some i
  | _ => none

/-- does the operation write an explicit value of host `j`? -/
def Op.setsExplicit (j : Host) : Op → Bool
  | .assign i _ _ | .delete i _ => i == j
  | _ => false

theorem setHost_self (w : World) (i : Host) (o : Obj) : (w.setHost i o).host i = o := by simp [World.setHost]
theorem setHost_other (w : World) (i j : Host) (o : Obj) (h : j ≠ i) : (w.setHost i o).host j = w.host j := by
  simp [World.setHost, h]

/-- `HookHost.__init__`: a new dictionary object (consumed fact `initCache`) -/
theorem bindFreshCache_gen (w : World) (i : Host) : w.bindFreshCache i =
    { (w.setHost i { w.host i with cache := some w.nDicts }).setStore w.nDicts [] with nDicts := w.nDicts + 1 } := rfl

/-- `HookHost.__copy__`: the entries of `__dict__` - `__cache__` among them - are taken over (consumed fact `copyMode`) -/
theorem shallowCopy_gen (w : World) (i : Host) : w.shallowCopy i =
    { w.setHost w.nHosts { dict := (w.host i).dict, cache := (w.host i).cache } with nHosts := w.nHosts + 1 } := rfl

theorem step_nHosts_mono (w : World) (op : Op) : w.nHosts ≤ (step w op).1.nHosts := by
  cases op with
  | new => simp [step, bindFreshCache_gen, World.setHost, World.setStore]
  | copy i => simp [step, shallowCopy_gen, World.setHost]
  | assign i n v => simp only [step]; split <;> simp [World.setHost]
  | delete i n => simp only [step]; split <;> simp [World.setHost]
  | read i n =>
    simp only [step]
    split
    · exact Nat.le_refl _
    · split
      · exact Nat.le_refl _
      · split
        · exact Nat.le_refl _
        · split <;> simp [World.setStore]
  | clear i => simp only [step]; split <;> simp [World.setStore]
  | rebind i => simp [step, bindFreshCache_gen, World.setHost, World.setStore]
  | setImpl n v => simp [step]

/-- the explicit values of an existing host change only through an assignment / deletion applied to THAT host -/
theorem step_dict_stable (w : World) (op : Op) (j : Host) (hj : j < w.nHosts) (h : op.setsExplicit j = false) :
    ((step w op).1.host j).dict = (w.host j).dict := by
  have hne : j ≠ w.nHosts := Nat.ne_of_lt hj
  cases op with
  | new => simp [step, bindFreshCache_gen, World.setHost, World.setStore, hne]
  | copy i => simp [step, shallowCopy_gen, World.setHost, hne]
  | assign i n v =>
    have : j ≠ i := by intro e; subst e; simp [Op.setsExplicit] at h
    simp only [step]; split <;> simp [World.setHost, this]
  | delete i n =>
    have : j ≠ i := by intro e; subst e; simp [Op.setsExplicit] at h
    simp only [step]; split <;> simp [World.setHost, this]
  | read i n =>
    simp only [step]
    split
    · rfl
    · split
      · rfl
      · split
        · rfl
        · split <;> rfl
  | clear i => simp only [step]; split <;> rfl
  | rebind i =>
    simp only [step, bindFreshCache_gen, World.setStore]
    by_cases e : j = i
    · subst e; simp [World.setHost]
    · simp [World.setHost, e]
  | setImpl n v => simp [step]

/-- the dictionary object an existing host refers to changes only when that host is given a new one -/
theorem step_cache_ref_stable (w : World) (op : Op) (j : Host) (hj : j < w.nHosts) (h : op ≠ .rebind j) :
    ((step w op).1.host j).cache = (w.host j).cache := by
  have hne : j ≠ w.nHosts := Nat.ne_of_lt hj
  cases op with
  | new => simp [step, bindFreshCache_gen, World.setHost, World.setStore, hne]
  | copy i => simp [step, shallowCopy_gen, World.setHost, hne]
  | assign i n v =>
    simp only [step]; split
    · by_cases e : j = i
      · subst e; simp [World.setHost]
      · simp [World.setHost, e]
    · rfl
  | delete i n =>
    simp only [step]; split
    · by_cases e : j = i
      · subst e; simp [World.setHost]
      · simp [World.setHost, e]
    · rfl
  | read i n =>
    simp only [step]
    split
    · rfl
    · split
      · rfl
      · split
        · rfl
        · split <;> rfl
  | clear i => simp only [step]; split <;> rfl
  | rebind i =>
    have e : j ≠ i := by intro e; subst e; exact h rfl
    simp [step, bindFreshCache_gen, World.setStore, World.setHost, e]
  | setImpl n v => simp [step]

theorem run_cons (w : World) (op : Op) (ops : List Op) : run w (op :: ops) = run (step w op).1 ops := rfl

theorem run_nHosts_mono (ops : List Op) : ∀ w : World, w.nHosts ≤ (run w ops).nHosts := by
  induction ops with
  | nil => intro w; exact Nat.le_refl _
  | cons op ops ih => intro w; rw [run_cons]; exact Nat.le_trans (step_nHosts_mono w op) (ih _)

end LifeCopy
