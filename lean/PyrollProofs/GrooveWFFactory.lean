import PyrollModel.GrooveWFFactory
/-!
Lemmas about the lookup model of the by-name factory (`PyrollModel/GrooveWFFactory.lean`), used by `PyrollProps/C03.lean`.
Core Lean only.
-/
namespace GrooveWF

/-- the package namespace built from a class table binds exactly the names of the table, each to its core class -/
theorem attr_corePkg (cls : List String) (n : String) :
    attr (corePkg cls) n = if cls.contains n then some (coreObj n) else none := by
  induction cls with
  | nil => simp [corePkg, attr]
  | cons c r ih =>
    simp only [corePkg, attr, List.contains_cons]
    by_cases h : c = n
    · subst h; simp
    · have h' : (n == c) = false := by simpa using fun e => h e.symm
      simp [h, h', ih]

/-- a module defining groove classes binds exactly those names, each to its own class -/
theorem attr_pluginModule (m : String) (names : List String) (n : String) :
    attr (pluginModule m names) n = if names.contains n then some (foreignObj m n) else none := by
  induction names with
  | nil => simp [pluginModule, attr]
  | cons c r ih =>
    simp only [pluginModule, attr, List.contains_cons]
    by_cases h : c = n
    · subst h; simp
    · have h' : (n == c) = false := by simpa using fun e => h e.symm
      simp [h, h', ih]

/-- no module binds the name (to something that qualifies): the scan finds nothing -/
theorem firstHit_none (n : String) (g : Bool) (ms : List Namespace)
    (h : ∀ m ∈ ms, ∀ o, attr m n = some o → (if g then o.groove else o.truthy) = false) : firstHit n g ms = none := by
  induction ms with
  | nil => rfl
  | cons m r ih =>
    have hr := ih (fun m' hm' => h m' (List.mem_cons_of_mem _ hm'))
    cases ha : attr m n with
    | none => simp [firstHit, ha, hr]
    | some o =>
      have := h m List.mem_cons_self o ha
      simp [firstHit, ha, this, hr]

/-- the scan takes the first module of the list whose binding qualifies -/
theorem firstHit_skip (n : String) (g : Bool) (pre : List Namespace) (m : Namespace) (post : List Namespace) (o : Obj)
    (hpre : ∀ m' ∈ pre, ∀ o', attr m' n = some o' → (if g then o'.groove else o'.truthy) = false)
    (hm : attr m n = some o) (ho : (if g then o.groove else o.truthy) = true) :
    firstHit n g (pre ++ m :: post) = some o := by
  induction pre with
  | nil => simp [firstHit, hm, ho]
  | cons p r ih =>
    have hr := ih (fun m' hm' => hpre m' (List.mem_cons_of_mem _ hm'))
    cases ha : attr p n with
    | none => simp [firstHit, ha, hr]
    | some o' =>
      have := hpre p List.mem_cons_self o' ha
      simp [firstHit, ha, this, hr]

/-- what the scan hands back qualifies, and is bound under the name in one of the modules -/
theorem firstHit_some (n : String) (g : Bool) (ms : List Namespace) (o : Obj) (h : firstHit n g ms = some o) :
    (if g then o.groove else o.truthy) = true ∧ ∃ m ∈ ms, attr m n = some o := by
  induction ms with
  | nil => simp [firstHit] at h
  | cons m r ih =>
    simp only [firstHit] at h
    cases ha : attr m n with
    | none =>
      rw [ha] at h
      obtain ⟨h1, m', hm', h2⟩ := ih h
      exact ⟨h1, m', List.mem_cons_of_mem _ hm', h2⟩
    | some o' =>
      rw [ha] at h
      by_cases hq : (if g then o'.groove else o'.truthy) = true
      · simp only [hq, if_true, Option.some.injEq] at h
        subst h
        exact ⟨hq, m, List.mem_cons_self, ha⟩
      · simp only [hq] at h
        obtain ⟨h1, m', hm', h2⟩ := ih h
        exact ⟨h1, m', List.mem_cons_of_mem _ hm', h2⟩

end GrooveWF
