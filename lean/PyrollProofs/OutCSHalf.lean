import PyrollProofs.OutCSClip

/-! The half-plane clip of a vertex ring over ℝ and the triple clip of the three-roll construction
    (`clip y ≤ w/2`, turn by 120°, three times). -/

namespace OutCS
open PassGeom

/-! ### one half-plane -/

theorem coord_crossOn (a : Axis) (v : ℝ) (p q : Pt ℝ) : coord a (crossOn a v p q) = v := by
  cases a <;> rfl

theorem mem_clipHalf (a : Axis) (k : Bool) (v : ℝ) (l : List (Pt ℝ)) (q : Pt ℝ) :
    q ∈ clipHalf a k v l ↔
      (q ∈ l ∧ insideH a k v q = true) ∨
      ∃ p p', (p, p') ∈ l.zip l.tail ∧ between v (coord a p) (coord a p') = true ∧ q = crossOn a v p p' := by
  induction l with
  | nil => simp [clipHalf]
  | cons p rest ih =>
    have hp : q ∈ (if insideH a k v p = true then [p] else []) ↔ (q = p ∧ insideH a k v q = true) := by
      by_cases hin : insideH a k v p = true
      · simp only [hin, if_true, List.mem_singleton]
        constructor
        · rintro rfl; exact ⟨rfl, hin⟩
        · exact fun h => h.1
      · simp only [hin]
        constructor
        · intro h; simp at h
        · rintro ⟨rfl, h⟩; exact absurd h hin
    cases rest with
    | nil =>
      simp only [clipHalf, List.mem_append, hp, crossNext, List.not_mem_nil, or_false, List.tail_cons,
        List.zip_nil_right, false_and, exists_false, List.mem_singleton]
    | cons r rest' =>
      rw [show clipHalf a k v (p :: r :: rest') = (if insideH a k v p = true then [p] else []) ++
        (if between v (coord a p) (coord a r) = true then [crossOn a v p r] else []) ++ clipHalf a k v (r :: rest') from rfl]
      simp only [List.mem_append, hp, ih]
      simp only [List.tail_cons, List.zip_cons_cons, List.mem_cons, Prod.mk.injEq]
      constructor
      · rintro ((h | h) | (⟨h, h1⟩ | ⟨x, y, hxy, hb, hq⟩))
        · exact Or.inl ⟨Or.inl h.1, h.2⟩
        · split at h
          · rename_i hb
            simp only [List.mem_singleton] at h
            exact Or.inr ⟨p, r, Or.inl ⟨rfl, rfl⟩, hb, h⟩
          · simp at h
        · exact Or.inl ⟨Or.inr h, h1⟩
        · exact Or.inr ⟨x, y, Or.inr hxy, hb, hq⟩
      · rintro (⟨(h | h), h1⟩ | ⟨x, y, (⟨rfl, rfl⟩ | hxy), hb, hq⟩)
        · exact Or.inl (Or.inl ⟨h, h1⟩)
        · exact Or.inr (Or.inl ⟨h, h1⟩)
        · left; right; simp [hb, hq]
        · exact Or.inr (Or.inr ⟨x, y, hxy, hb, hq⟩)

theorem crossOn_onSeg (a : Axis) (v : ℝ) (p q : Pt ℝ) (h : between v (coord a p) (coord a q) = true) :
    OnSeg (crossOn a v p q) p q := by
  rw [between_iff] at h
  cases a with
  | x => exact crossAt_onSeg v p q h
  | y =>
    simp only [coord] at h
    refine ⟨(v - p.y) / (q.y - p.y), ?_, ?_, ?_, ?_⟩
    · rcases h with h | h
      · exact div_nonneg (by linarith) (by linarith)
      · exact div_nonneg_of_nonpos (by linarith) (by linarith)
    · rcases h with h | h
      · rw [div_le_one (by linarith)]; linarith
      · rw [div_le_one_of_neg (by linarith)]; linarith
    · simp only [crossOn]; ring
    · have : q.y - p.y ≠ 0 := by rcases h with h | h <;> intro h0 <;> linarith
      simp only [crossOn]
      field_simp
      ring

/-- a linear bound that holds at both ends of a segment holds on the segment -/
theorem OnSeg.linear_le {q a b : Pt ℝ} (h : OnSeg q a b) (n1 n2 c : ℝ)
    (ha : n1 * a.x + n2 * a.y ≤ c) (hb : n1 * b.x + n2 * b.y ≤ c) : n1 * q.x + n2 * q.y ≤ c := by
  obtain ⟨t, t0, t1, hx, hy⟩ := h
  have e : n1 * q.x + n2 * q.y = (1 - t) * (n1 * a.x + n2 * a.y) + t * (n1 * b.x + n2 * b.y) := by
    rw [hx, hy]; ring
  rw [e]
  have h1 : (1 - t) * (n1 * a.x + n2 * a.y) ≤ (1 - t) * c := mul_le_mul_of_nonneg_left ha (by linarith)
  have h2 : t * (n1 * b.x + n2 * b.y) ≤ t * c := mul_le_mul_of_nonneg_left hb t0
  linarith

/-- a half-plane clip keeps every linear bound that held for all vertices -/
theorem clipHalf_linear_le (a : Axis) (k : Bool) (v : ℝ) (l : List (Pt ℝ)) (n1 n2 c : ℝ)
    (h : ∀ p ∈ l, n1 * p.x + n2 * p.y ≤ c) : ∀ q ∈ clipHalf a k v l, n1 * q.x + n2 * q.y ≤ c := by
  intro q hq
  rcases (mem_clipHalf a k v l q).mp hq with ⟨hq, _⟩ | ⟨p, p', hpp, hb, rfl⟩
  · exact h q hq
  · exact (crossOn_onSeg a v p p' hb).linear_le n1 n2 c (h p (List.of_mem_zip hpp).1)
      (h p' (List.mem_of_mem_tail (List.of_mem_zip hpp).2))

/-- after keeping `y ≤ v` every vertex has `y ≤ v` -/
theorem clipHalf_y_le (v : ℝ) (l : List (Pt ℝ)) : ∀ q ∈ clipHalf .y true v l, q.y ≤ v := by
  intro q hq
  rcases (mem_clipHalf .y true v l q).mp hq with ⟨_, hin⟩ | ⟨p, p', _, _, rfl⟩
  · simpa [insideH, coord] using hin
  · exact le_of_eq (coord_crossOn .y v p p')

theorem mem_clipHalf_of_inside (v : ℝ) (l : List (Pt ℝ)) (q : Pt ℝ) (hq : q ∈ l) (h : q.y ≤ v) : q ∈ clipHalf .y true v l :=
  (mem_clipHalf .y true v l q).mpr (Or.inl ⟨hq, by simpa [insideH, coord] using h⟩)

/-! ### the turn by 120° -/

theorem rotPt_120 (p : Pt ℝ) :
    rotPt (120 : ℝ) p = ⟨-(1 / 2) * p.x - Real.sqrt 3 / 2 * p.y, Real.sqrt 3 / 2 * p.x - 1 / 2 * p.y⟩ := by
  have h : (120 : ℝ) * Real.pi / ((180 : ℕ) : ℝ) = Real.pi - Real.pi / 3 := by push_cast; field_simp; ring
  have h3 := sqrt3_gt_one
  simp only [rotPt, PyNum.pi_real, PyNum.nat_real, PyNum.cos_real, PyNum.sin_real, h, Real.cos_pi_sub, Real.sin_pi_sub,
    Real.cos_pi_div_three, Real.sin_pi_div_three]
  rw [snap_of_large (-(1 / 2)) (by norm_num),
    snap_of_large (Real.sqrt 3 / 2) (by rw [abs_of_pos (by positivity)]; linarith)]
  ext
  · simp; ring
  · simp; ring

/-- the turn by 120° as a map of the plane -/
noncomputable def rot120 (p : Pt ℝ) : Pt ℝ :=
  ⟨-(1 / 2) * p.x - Real.sqrt 3 / 2 * p.y, Real.sqrt 3 / 2 * p.x - 1 / 2 * p.y⟩

theorem rot120_two (p : Pt ℝ) :
    rot120 (rot120 p) = ⟨-(1 / 2) * p.x + Real.sqrt 3 / 2 * p.y, -(Real.sqrt 3 / 2) * p.x - 1 / 2 * p.y⟩ := by
  have h := sqrt3_sq
  ext
  · simp only [rot120]
    linear_combination (-(1 / 4) * p.x) * h
  · simp only [rot120]
    linear_combination (-(1 / 4) * p.y) * h

theorem rot120_three (p : Pt ℝ) : rot120 (rot120 (rot120 p)) = p := by
  have h := sqrt3_sq
  rw [rot120_two]
  ext
  · simp only [rot120]
    linear_combination (1 / 4 * p.x) * h
  · simp only [rot120]
    linear_combination (1 / 4 * p.y) * h

/-- reach of a point towards the three gaps of a three-roll pass (directions 90°, 210°, 330°) -/
noncomputable def reach90 (q : Pt ℝ) : ℝ := q.y
noncomputable def reach210 (q : Pt ℝ) : ℝ := -(Real.sqrt 3 / 2) * q.x - 1 / 2 * q.y
noncomputable def reach330 (q : Pt ℝ) : ℝ := Real.sqrt 3 / 2 * q.x - 1 / 2 * q.y

theorem reach90_rot (p : Pt ℝ) : reach90 (rot120 p) = reach330 p := by simp only [reach90, reach330, rot120]
theorem reach210_rot (p : Pt ℝ) : reach210 (rot120 p) = reach90 p := by
  simp only [reach210, reach90, rot120]
  linear_combination (1 / 4 * p.y) * sqrt3_sq
theorem reach330_rot (p : Pt ℝ) : reach330 (rot120 p) = reach210 p := by
  simp only [reach330, reach210, rot120]
  linear_combination (-(1 / 4) * p.y) * sqrt3_sq

/-- one round of the three-roll construction: keep `y ≤ v`, close the ring, turn by 120° -/
noncomputable def clipTurn (v : ℝ) (l : List (Pt ℝ)) : List (Pt ℝ) :=
  (closeRing (clipHalf .y true v l)).map rot120

theorem mem_clipTurn (v : ℝ) (l : List (Pt ℝ)) (q : Pt ℝ) :
    q ∈ clipTurn v l ↔ ∃ p ∈ clipHalf .y true v l, q = rot120 p := by
  simp only [clipTurn, List.mem_map, mem_closeRing]
  constructor
  · rintro ⟨p, hp, rfl⟩; exact ⟨p, hp, rfl⟩
  · rintro ⟨p, hp, rfl⟩; exact ⟨p, hp, rfl⟩

/-- every vertex of the triple clip reaches at most `v` towards each of the three gaps -/
theorem clipTurn3_bounded (v : ℝ) (l : List (Pt ℝ)) :
    ∀ q ∈ clipTurn v (clipTurn v (clipTurn v l)), reach90 q ≤ v ∧ reach210 q ≤ v ∧ reach330 q ≤ v := by
  -- round 1: reach210 ≤ v
  have r1 : ∀ q ∈ clipTurn v l, reach210 q ≤ v := by
    intro q hq
    obtain ⟨p, hp, rfl⟩ := (mem_clipTurn v l q).mp hq
    rw [reach210_rot]; exact clipHalf_y_le v l p hp
  -- round 2: reach210 ≤ v and reach330 ≤ v
  have r2 : ∀ q ∈ clipTurn v (clipTurn v l), reach210 q ≤ v ∧ reach330 q ≤ v := by
    intro q hq
    obtain ⟨p, hp, rfl⟩ := (mem_clipTurn v _ q).mp hq
    refine ⟨by rw [reach210_rot]; exact clipHalf_y_le v _ p hp, ?_⟩
    rw [reach330_rot]
    have := clipHalf_linear_le .y true v (clipTurn v l) (-(Real.sqrt 3 / 2)) (-(1 / 2)) v
      (fun x hx => by have := r1 x hx; simp only [reach210] at this; linarith) p hp
    simp only [reach210]; linarith
  intro q hq
  obtain ⟨p, hp, rfl⟩ := (mem_clipTurn v _ q).mp hq
  refine ⟨?_, by rw [reach210_rot]; exact clipHalf_y_le v _ p hp, ?_⟩
  · rw [reach90_rot]
    have := clipHalf_linear_le .y true v (clipTurn v (clipTurn v l)) (Real.sqrt 3 / 2) (-(1 / 2)) v
      (fun x hx => by have := (r2 x hx).2; simp only [reach330] at this; linarith) p hp
    simp only [reach330]; linarith
  · rw [reach330_rot]
    have := clipHalf_linear_le .y true v (clipTurn v (clipTurn v l)) (-(Real.sqrt 3 / 2)) (-(1 / 2)) v
      (fun x hx => by have := (r2 x hx).1; simp only [reach210] at this; linarith) p hp
    simp only [reach210]; linarith

/-- a vertex of the ring that reaches at most `v` towards each gap is a vertex of the triple clip -/
theorem clipTurn3_keeps (v : ℝ) (l : List (Pt ℝ)) (p : Pt ℝ) (hp : p ∈ l)
    (h90 : reach90 p ≤ v) (h210 : reach210 p ≤ v) (h330 : reach330 p ≤ v) :
    p ∈ clipTurn v (clipTurn v (clipTurn v l)) := by
  have s1 : rot120 p ∈ clipTurn v l :=
    (mem_clipTurn v l _).mpr ⟨p, mem_clipHalf_of_inside v l p hp h90, rfl⟩
  have s2 : rot120 (rot120 p) ∈ clipTurn v (clipTurn v l) :=
    (mem_clipTurn v _ _).mpr ⟨rot120 p, mem_clipHalf_of_inside v _ _ s1 (by
      have := reach90_rot p; simp only [reach90] at this; rw [this]; exact h330), rfl⟩
  have s3 : rot120 (rot120 (rot120 p)) ∈ clipTurn v (clipTurn v (clipTurn v l)) :=
    (mem_clipTurn v _ _).mpr ⟨rot120 (rot120 p), mem_clipHalf_of_inside v _ _ s2 (by
      have := reach90_rot (rot120 p); simp only [reach90] at this; rw [this, reach330_rot]; exact h210), rfl⟩
  rwa [rot120_three] at s3

end OutCS
