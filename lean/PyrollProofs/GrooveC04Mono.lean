import PyrollProofs.GrooveC04

/-!
# Monotonicity lemmas for the `r2 is None` residuals of `solve_r124` (helper lemmas for C04)

With `t = tan(α/2)` and the tangent length of the face fillet `l(α) = r1·tan((α+p)/2)`, the residual the solver hands to
`root_scalar` in the `r2 is None` case vanishes iff

  `depth = flank-height(α) + t·(width/2 + l(α) − flank-width(α))`

(`C04.r124_r2None_*_reduced`).  The right-hand sides are strictly increasing on `(0, π/2)`, also for the sharp edge
`r1 = 0`; hence `depth` and `width` determine the flank angle.
-/

namespace GrooveC04

/-- flank-free / flank length given: `tan(x/2)·(W + r1·tan((x+p)/2))` is strictly increasing on `(0, π/2)`
    (`W` = half width (+ flank length) `> 0`, `r1 ≥ 0` — the sharp edge `r1 = 0` included) -/
theorem r124_r2None_core_strictMono (r1 W p α β : ℝ) (hr1 : 0 ≤ r1) (hW : 0 < W) (hp0 : 0 ≤ p) (hp1 : p < Real.pi / 2)
    (hα : 0 < α) (hαβ : α < β) (hβ : β < Real.pi / 2) :
    Real.tan (α / 2) * (W + r1 * Real.tan ((α + p) / 2)) < Real.tan (β / 2) * (W + r1 * Real.tan ((β + p) / 2)) := by
  have hpi := Real.pi_pos
  have ht : Real.tan (α / 2) < Real.tan (β / 2) :=
    Real.tan_lt_tan_of_lt_of_lt_pi_div_two (by linarith) (by linarith) (by linarith)
  have ht0 : 0 < Real.tan (α / 2) := Real.tan_pos_of_pos_of_lt_pi_div_two (by linarith) (by linarith)
  have hu : Real.tan ((α + p) / 2) < Real.tan ((β + p) / 2) :=
    Real.tan_lt_tan_of_lt_of_lt_pi_div_two (by linarith) (by linarith) (by linarith)
  have hu0 : 0 < Real.tan ((α + p) / 2) := Real.tan_pos_of_pos_of_lt_pi_div_two (by linarith) (by linarith)
  have hA : 0 < W + r1 * Real.tan ((α + p) / 2) := by
    have := mul_nonneg hr1 hu0.le; linarith
  have hAB : W + r1 * Real.tan ((α + p) / 2) ≤ W + r1 * Real.tan ((β + p) / 2) := by
    have := mul_le_mul_of_nonneg_left hu.le hr1; linarith
  calc Real.tan (α / 2) * (W + r1 * Real.tan ((α + p) / 2))
      < Real.tan (β / 2) * (W + r1 * Real.tan ((α + p) / 2)) := mul_lt_mul_of_pos_right ht hA
    _ ≤ Real.tan (β / 2) * (W + r1 * Real.tan ((β + p) / 2)) := mul_le_mul_of_nonneg_left hAB (ht0.trans ht).le

/-- `tan x` in terms of `t = tan(x/2)` -/
theorem tan_of_half (x : ℝ) :
    Real.tan x = 2 * Real.tan (x / 2) / (1 - Real.tan (x / 2) ^ 2) := by
  rw [← Real.tan_two_mul]; congr 1; ring

/-- flank height given: `tan(x/2)/tan x = (1 − tan²(x/2))/2`, so `1 − tan(x/2)/tan x` is strictly increasing -/
theorem one_sub_half_div_strictMono (α β : ℝ) (hα : 0 < α) (hαβ : α < β) (hβ : β < Real.pi / 2) :
    1 - Real.tan (α / 2) / Real.tan α < 1 - Real.tan (β / 2) / Real.tan β := by
  have hpi := Real.pi_pos
  obtain ⟨a0, a1⟩ := tan_half_mem α hα (by linarith)
  obtain ⟨b0, b1⟩ := tan_half_mem β (by linarith) hβ
  have ht : Real.tan (α / 2) < Real.tan (β / 2) :=
    Real.tan_lt_tan_of_lt_of_lt_pi_div_two (by linarith) (by linarith) (by linarith)
  rw [tan_of_half α, tan_of_half β]
  set t := Real.tan (α / 2)
  set s := Real.tan (β / 2)
  have ht2 : 1 - t ^ 2 ≠ 0 := by nlinarith
  have hs2 : 1 - s ^ 2 ≠ 0 := by nlinarith
  have e1 : t / (2 * t / (1 - t ^ 2)) = (1 - t ^ 2) / 2 := by field_simp
  have e2 : s / (2 * s / (1 - s ^ 2)) = (1 - s ^ 2) / 2 := by field_simp
  rw [e1, e2]
  nlinarith

/-- flank width given: `tan x − tan(x/2)` is strictly increasing on `(0, π/2)` -/
theorem tan_sub_half_strictMono (α β : ℝ) (hα : 0 < α) (hαβ : α < β) (hβ : β < Real.pi / 2) :
    Real.tan α - Real.tan (α / 2) < Real.tan β - Real.tan (β / 2) := by
  have hpi := Real.pi_pos
  obtain ⟨a0, a1⟩ := tan_half_mem α hα (by linarith)
  obtain ⟨b0, b1⟩ := tan_half_mem β (by linarith) hβ
  have ht : Real.tan (α / 2) < Real.tan (β / 2) :=
    Real.tan_lt_tan_of_lt_of_lt_pi_div_two (by linarith) (by linarith) (by linarith)
  rw [tan_of_half α, tan_of_half β]
  set t := Real.tan (α / 2)
  set s := Real.tan (β / 2)
  have ht2 : 0 < 1 - t ^ 2 := by nlinarith
  have hs2 : 0 < 1 - s ^ 2 := by nlinarith
  have e1 : 2 * t / (1 - t ^ 2) - t = t * (1 + t ^ 2) / (1 - t ^ 2) := by field_simp; ring
  have e2 : 2 * s / (1 - s ^ 2) - s = s * (1 + s ^ 2) / (1 - s ^ 2) := by field_simp; ring
  rw [e1, e2, div_lt_div_iff₀ ht2 hs2]
  have hts : 0 < s - t := by linarith
  have h1 : 0 < t * s := mul_pos a0 b0
  have hst : 0 < 1 - s * t := by nlinarith
  have key : s * (1 + s ^ 2) * (1 - t ^ 2) - t * (1 + t ^ 2) * (1 - s ^ 2)
      = (s - t) * (1 + s ^ 2 + s * t + t ^ 2 + s * t * (1 - s * t)) := by ring
  have pos : 0 < (s - t) * (1 + s ^ 2 + s * t + t ^ 2 + s * t * (1 - s * t)) := by
    apply mul_pos hts
    have := mul_pos h1 hst
    have h2 : s * t = t * s := mul_comm _ _
    nlinarith [sq_nonneg s, sq_nonneg t]
  linarith

/-- on `(0, π/2)` the divisions of the `r2 is None` residual are defined -/
theorem sin_ne_zero_cos_ne_one (α : ℝ) (h0 : 0 < α) (h1 : α < Real.pi / 2) : Real.sin α ≠ 0 ∧ Real.cos α ≠ 1 := by
  have hpi := Real.pi_pos
  refine ⟨(Real.sin_pos_of_pos_of_lt_pi h0 (by linarith)).ne', ?_⟩
  have := Real.cos_lt_cos_of_nonneg_of_le_pi_div_two (le_refl 0) h1.le h0
  rw [Real.cos_zero] at this
  exact this.ne

/-- The `r2 is None` residual of `solve_r124` in reduced form.  `Q` is the radius the residual computes from the depth
    equation (`e1`), `hres` the width equation; eliminating `Q` leaves one equation between depth, width and the angle:
    `depth = fh + tan(α/2)·(width/2 + l − fw)` (`l` the tangent length of the face fillet, `fw`, `fh` the flank's extent). -/
theorem r2None_reduce (w d l fw fh α Q : ℝ) (hs : Real.sin α ≠ 0)
    (e1 : Q * (1 - Real.cos α) = d - l * Real.sin α - fh)
    (hres : w / 2 - Q * Real.sin α - l * Real.cos α - fw = 0) :
    d = fh + Real.tan (α / 2) * (w / 2 + l - fw) := by
  rw [tan_half_eq α hs]
  field_simp
  linear_combination 2 * ((Real.cos α - 1) * hres - Real.sin α * e1 + l * Real.sin_sq_add_cos_sq α)

/-- `sin α − tan(α/2)·cos α = tan(α/2)` (a flank of length `L` adds `L·tan(α/2)` to the reduced depth equation) -/
theorem sin_sub_half_cos (α : ℝ) (hs : Real.sin α ≠ 0) :
    Real.sin α - Real.tan (α / 2) * Real.cos α = Real.tan (α / 2) := by
  rw [tan_half_eq α hs]
  field_simp
  linear_combination Real.sin_sq_add_cos_sq α

end GrooveC04
