import PyrollModel.Gen.C03
import PyrollModel.Gen.C03Ribbed
import PyrollProofs.GrooveWFConstruct
import PyrollProofs.GrooveWFExample
import PyrollProofs.GrooveWFRibbed

/-!
# An accepted `EquivalentRibbedGroove` over ℝ (non-vacuity witness for `C03.ribbed_accepted_wellformed`)

The ribbed bar `D = 5`, `h = 3`, ribs of width 1 every 1 at 0° has `hEq = 1`, chord `4`, hence `r2 = 5/2` (`barFlat_r2`,
through `chord_eq`).  Requested as a flat pass (`usable_width = 2`, `depth = 0`, `r1 = 0`, `r3 = 4`, solver answer
`alpha3 = 0`, flank angle `0`, forwarded keyword `pad = 1/5`) every arc has zero extent and the whole constructor can be
evaluated in ℝ like `GrooveWFExample.flat_accepted`: all seven validations pass on `(±6/5, 0) (±1, 0) (0, 0)`.
-/

open GrooveWF Gen.C03 Gen.C03Ribbed GrooveWFRibbed
set_option linter.unusedSimpArgs false

namespace GrooveWFRibbedExample
open GrooveWFExample (cfg0 hdef pts0 hpts hhalf)

/-- the bar `D = 5`, `h = 3`, ribs of width 1 every 1 at 0° (`hEq = 1`, chord 4, `r2 = 5/2`), requested as a FLAT pass:
    `usable_width = 2`, `depth = 0` -/
noncomputable def barFlat : In := ⟨0, 4, 1, 1, 0, 3, 5, 2, 0, 0⟩

theorem barFlat_r2 : barFlat.r2 = 5 / 2 := by
  have h1 : barFlat.hEq = 1 := by simp [In.hEq, barFlat]; norm_num
  have h2 : barFlat.chord = 4 := by
    rw [chord_eq barFlat (by norm_num [barFlat]) (by norm_num [barFlat]) (by norm_num [barFlat])]
    have : ((barFlat.outerDiameter / 2) ^ 2 - (barFlat.bodyHeight / 2) ^ 2) = 2 ^ 2 := by norm_num [barFlat]
    rw [this, Real.sqrt_sq (by norm_num)]; norm_num
  rw [In.r2, h1, h2]; norm_num

noncomputable def flatArgsR : Params ℝ := ⟨[("r2", 5 / 2), ("depth", 0), ("usable_width", 2), ("r1", 0), ("pad_angle", 0),
  ("r3", 4), ("alpha3", 0), ("flank_angle", 0), ("pad", 1 / 5)]⟩

theorem hargs : ribbedArgs ribbed 0 barFlat.given (solOf 0 0) [("pad", 1 / 5)] = flatArgsR := by
  have := ribbedArgs_eq barFlat 0 0 [("pad", 1 / 5)]
  rw [barFlat_r2] at this
  cases hp : ribbedArgs ribbed 0 barFlat.given (solOf 0 0) [("pad", 1 / 5)] with
  | mk gv =>
    rw [hp] at this
    simp only at this
    rw [this]
    simp [flatArgsR, barFlat]

noncomputable def wdR : List (String × ℝ) := [("r2", 5 / 2), ("depth", 0), ("usable_width", 2), ("r1", 0), ("pad_angle", 0),
  ("r3", 4), ("alpha3", 0), ("flank_angle", 0), ("pad", 1 / 5),
  ("r4", 0), ("alpha4", 0), ("indent", 0), ("even_ground_width", 0), ("rel_pad", 1/5)]

theorem hwdR : withDefaults spec cfg0 0 flatArgsR = wdR := by
  simp only [withDefaults, hdef, flatArgsR, Params.get, List.lookup, List.filter, String.reduceBEq, Option.isNone, List.map, Expr.eval, envOfL, cfg0, wdR, List.cons_append, List.nil_append, PyNum.nat_real, Nat.cast_zero]

noncomputable def envR : List (String × ℝ) := ("pad", 1/5) :: ("ground_width", 2) :: wdR

macro "evR" : tactic => `(tactic| simp only [negViolated, upperViolated, geZero_real, padOf, isclose, Params.get, List.lookup, List.filter, List.find?, List.map, List.any, String.reduceBEq, String.reduceEq,
  Option.isNone, Expr.eval, envOfL, wdR, envR, cfg0, List.cons_append, List.nil_append, PyNum.nat_real, PyNum.dec_real, PyNum.pi_real,
  PyNum.sin_real, PyNum.cos_real, PyNum.tan_real, PyNum.abs_real, PyNum.sqrt_real, PyNum.atan_real,
  Nat.cast_zero, Nat.cast_ofNat, Nat.cast_one, lt_real, le_real, zero_real, Bool.or_false, Bool.false_or, Bool.and_true, Bool.true_and,
  reduceIte, decide_eq_true_eq, Real.sin_zero, Real.cos_zero, Real.tan_zero, sub_self, abs_zero, mul_zero, zero_mul, add_zero, zero_add,
  sub_zero, zero_div, mul_one, one_mul, neg_zero, Bool.not_true, Bool.not_false, ite_true, ite_false])

theorem hresR : resolve spec 0 wdR = .ok (("ground_width", 2) :: wdR) := by
  have hr : spec.resolution = resolution := rfl
  unfold resolve
  rw [hr]
  simp only [resolution, isclose]
  evR
  norm_num
  evR
  norm_num

theorem hprepR : prepare spec cfg0 0 flatArgsR = .ok envR := by
  unfold prepare
  rw [hwdR, hresR]
  have hq : spec.required = ["r1", "r2"] := rfl
  have hn : spec.nonneg = ["r1", "r2", "r3", "r4", "alpha3", "alpha4", "indent", "even_ground_width", "flank_angle",
      "usable_width", "ground_width", "depth"] := rfl
  have hu : spec.upper = [("flank_angle", .div .pi (.nat 2))] := rfl
  have hpd : spec.padDefault = .mul (.var "usable_width") (.var "rel_pad") := rfl
  rw [hq, hn, hu]
  simp only [hpd, flatArgsR]
  evR
  norm_num [Real.pi_pos]
  try evR
  try norm_num [Real.pi_pos]

macro "ch" : tactic => `(tactic| simp only [Option.getD, Gen.C03.Groove.chain, Gen.C03.Groove.alpha1, Gen.C03.Groove.alpha2, Gen.C03.Groove.z2, Gen.C03.Groove.y2, Gen.C03.Groove.l12, Gen.C03.Groove.z1, Gen.C03.Groove.y1, Gen.C03.Groove.z0, Gen.C03.Groove.y0, Gen.C03.Groove.z12, Gen.C03.Groove.y12, Gen.C03.Groove.z3, Gen.C03.Groove.y3, Gen.C03.Groove.z9, Gen.C03.Groove.y9, Gen.C03.Groove.z7, Gen.C03.Groove.y7, Gen.C03.Groove.z8, Gen.C03.Groove.y8, Gen.C03.Groove.z6, Gen.C03.Groove.y6, Gen.C03.Groove.beta, Gen.C03.Groove.z10, Gen.C03.Groove.y10, Gen.C03.Groove.z5, Gen.C03.Groove.y5, Gen.C03.Groove.z11, Gen.C03.Groove.y11, Gen.C03.Groove.gamma, Gen.C03.Groove.z4, Gen.C03.Groove.y4])

theorem hrightR : rightSide spec (envOfL 0 (envR ++ cfg0)) 2 = [⟨6/5, 0⟩, ⟨1, 0⟩, ⟨0, 0⟩] := by
  have hp : spec.pieces = pieces := rfl
  have hc : spec.chain = Gen.C03.Groove.chain := rfl
  simp only [rightSide, hp, pieces, List.flatMap_cons, List.flatMap_nil, piecePts, jv, lookupE, hc]
  ch
  evR
  norm_num [maxN_real, envR, wdR]

theorem flatR_accepted : construct spec (fun _ => true) cfg0 2 0 flatArgsR = .ok ⟨pts0, envR⟩ := by
  have hk : spec.checks = checks := rfl
  unfold construct
  rw [hprepR]
  simp only
  rw [hrightR, hpts, hk]
  simp only [checks, runChecks, runCheck, hhalf, List.all_cons, List.all_nil, List.any_cons, List.any_nil, List.map, List.filter,
    strictInc, maxL, List.foldl, finite_real, maxN_real]
  ch
  evR
  norm_num [maxN_real, envR, wdR]

/-- the whole ribbed constructor on that bar: decorator, locals, `super().__init__`, generic constructor -/
theorem ribbedFlat_accepted :
    constructRibbed spec ribbed (fun _ => true) cfg0 2 0 barFlat.given (solOf 0 0) [("pad", 1 / 5)] = .ok ⟨pts0, envR⟩ := by
  have hok : ribbedInputOk ribbed barFlat.given = true := by
    have hv : ribbed.validated = true := rfl
    simp only [ribbedInputOk, hv, Bool.not_true, Bool.false_or, List.all_eq_true]
    intro kv hkv
    simp only [In.given, barFlat, List.mem_cons, List.not_mem_nil, or_false] at hkv
    rcases hkv with rfl | rfl | rfl | rfl | rfl | rfl | rfl | rfl | rfl | rfl <;>
      simp [finite_real, geZero_real]
  unfold constructRibbed
  rw [if_pos hok, hargs]
  exact flatR_accepted

end GrooveWFRibbedExample
