import PyrollModel.Failure

/-!
# Helper lemmas about the failed-evaluation model (`PyrollModel/Failure.lean`) — used by `PyrollProps/C07.lean`

* `af_spec`      – the finiteness test of the code computes the specification `leavesFinite`
* `frame_eval`   – what ANY evaluation (any task, any fuel, any outcome) may do to the state
* `eval_core`    – the ghost fields never influence a result or the observable state
* `own_entry`    – a hook that is being computed and is not re-entered gets no cache entry meanwhile
* `limit_propagates` – without `has_value` guards, reaching the recursion limit fails the whole evaluation
-/

-- every unfolding of `eval` names the lemmas about the generated source tables, whether the goal has that case or not
set_option linter.unusedSimpArgs false

namespace Failure

theorem npIsFiniteAll_ok {v : Val} {b : Bool} (h : npIsFiniteAll v = .ok b) : b = leavesFinite v := by
  unfold npIsFiniteAll at h
  split at h
  · cases h
  · split at h
    · cases h; rfl
    · cases h

theorem shape_noncons_some (v : Val) (hv : ∀ a b, v ≠ .cons a b) : (shape v).isSome := by
  cases v <;> simp [shape] at * 

theorem af_spec : ∀ v, af false v = leavesFinite v ∧ af true v = leavesFinite v := by
  intro v
  induction v with
  | cons hd tl ih1 ih2 =>
    have ht : af true (.cons hd tl) = leavesFinite (.cons hd tl) := by
      simp [af, leavesFinite, ih1.1, ih2.2]
    refine ⟨?_, ht⟩
    rw [af]
    split
    · next b hb => exact npIsFiniteAll_ok hb
    · simp [leavesFinite, ih1.1, ih2.2]
    · simp [leavesFinite, ih1.1, ih2.2]
  | _ => simp [af, npIsFiniteAll, shape, allNumeric, leavesFinite]

/-! ### what the model consumes from the GENERATED source tables (`PyrollModel/Gen/C07Hooks.lean`)

`post`, `stored`, `unmark` and `errTask` are the model's `Hook.__get__` tail, `HookFunction.__call__` clean-up and error-path
step instantiated with the tables read from `pyroll/core/hooks.py` on every run.  The lemmas below (`post_gen`, `stored_gen`,
`unmark_gen`, `errTask_gen`) evaluate them for the generated values; they
are the only places where the proofs look at the tables, and every unfolding of `eval` in the proofs goes through them.  A
source change that alters a table (a check dropped or reordered, the store moved before a check, the discard moved out of
`finally`, the `if not cycle` guard removed) makes the lemma concerned - and with it the theorems - fail to build. -/

/-- the tail of `Hook.__get__` the proofs are about: RecursionError → AttributeError, `None` → AttributeError, a value
    that is or contains a non-finite number → ValueError, in this order -/
def postRef : Res → Res
  | .exc .recursionError => .exc .attributeError
  | .exc e => .exc e
  | .val .none => .exc .attributeError
  | .val v => if allFinite v then .val v else .exc .valueError

/-- the checks read from the source are these -/
theorem post_gen : post = postRef := by
  funext r
  cases r with
  | exc e => cases e <;> rfl
  | val v => cases v <;> rfl

/-- the value is stored after ALL the checks -/
theorem stored_gen (r : Res) : stored r = post r := rfl

/-- the discard sits in `finally` and is guarded by `if not cycle` -/
theorem unmark_gen (st1 : St) (f i : Nat) (cyc : Bool) (r : Res) :
    unmark st1 f i cyc r = if cyc then st1 else st1.setMark f i false := by
  cases cyc <;> rfl

/-- a table all of whose entries are empty has an empty entry at every position -/
theorem getD_isEmpty_of_all : ∀ (tbl : List (List String)), tbl.all List.isEmpty = true → ∀ k, (tbl.getD k []).isEmpty = true
  | [], _, k => by simp
  | x :: xs, h, 0 => by simp only [List.all_cons, Bool.and_eq_true] at h; simpa using h.1
  | x :: xs, h, k + 1 => by
    simp only [List.all_cons, Bool.and_eq_true] at h
    simpa using getD_isEmpty_of_all xs h.2 k

/-- THE ERROR PATH EVALUATES NOTHING ON THE INSTANCE: in the table read from the source (`Gen.C07.ErrPath.onInstance`, per
    failing check of `Hook.__get__` what the construction of the exception evaluates on the instance) every entry is empty, so
    the model's error-path step is the identity.  A source whose message is built with `{instance!r}`, `instance.__attrs__`, a
    `__str__` that reads hooks … produces a non-empty entry: this lemma - and with it every theorem about `eval` - stops
    building. -/
theorem errTask_gen (P : Prog) (i : Nat) (r : Res) : errTask P i r = none := by
  unfold errTask errTaskWith
  split
  · rfl
  · rw [getD_isEmpty_of_all Gen.C07.ErrPath.onInstance (by decide)]; rfl

/-- what evaluation may do to the state: `__dict__` untouched, marks and reading-ghost restored,
cache entries either untouched or a valid (not None, finite) value -/
structure Frame (st st' : St) : Prop where
  dict : st'.dict = st.dict
  marks : st'.marks = st.marks
  reading : st'.reading = st.reading
  cache : ∀ i h, st'.cache i h = st.cache i h ∨ ∃ v, st'.cache i h = some v ∧ v ≠ .none ∧ allFinite v = true
  reentered : st.reentered = true → st'.reentered = true

theorem Frame.refl (st : St) : Frame st st := ⟨rfl, rfl, rfl, fun _ _ => .inl rfl, id⟩

theorem Frame.trans {a b c : St} (h1 : Frame a b) (h2 : Frame b c) : Frame a c := by
  refine ⟨h2.dict.trans h1.dict, h2.marks.trans h1.marks, h2.reading.trans h1.reading, fun i h => ?_,
    fun h => h2.reentered (h1.reentered h)⟩
  rcases h2.cache i h with e | g
  · rw [e]; exact h1.cache i h
  · exact .inr g

theorem post_val {r : Res} {v : Val} (h : post r = .val v) : r = .val v ∧ v ≠ .none ∧ allFinite v = true := by
  rw [post_gen] at h; unfold postRef at h
  split at h <;> try cases h
  split at h
  · cases h; refine ⟨rfl, ?_, by assumption⟩
    intro hv; subst hv; simp_all
  · cases h

theorem frame_eval (P : Prog) : ∀ n st task, Frame st (eval P n st task).2 := by
  intro n
  induction n with
  | zero => intro st task; simp only [eval, unmark_gen, stored_gen, errTask_gen, finish]; exact ⟨rfl, rfl, rfl, fun _ _ => .inl rfl, id⟩
  | succ n ih =>
    intro st task
    cases task with
    | read i h =>
      simp only [eval, unmark_gen, stored_gen, errTask_gen, finish]
      split
      · exact Frame.refl st
      · split
        · exact Frame.refl st
        · have hf := ih (st.enter i h) (.chain i h (P.chain h))
          generalize eval P n (st.enter i h) (.chain i h (P.chain h)) = res at hf
          obtain ⟨r, st1⟩ := res
          have hd : st1.dict = st.dict := hf.dict
          have hm : st1.marks = st.marks := hf.marks
          have hr : ∀ i' h', ¬(i' = i ∧ h' = h) → st1.reading i' h' = st.reading i' h' := by
            intro i' h' hc; have := congrFun (congrFun hf.reading i') h'
            simp only [St.enter] at this; rw [if_neg hc] at this; exact this
          have hc : ∀ i' h', st1.cache i' h' = st.cache i' h' ∨
              ∃ v, st1.cache i' h' = some v ∧ v ≠ .none ∧ allFinite v = true := hf.cache
          have hre : st.reentered = true → st1.reentered = true := fun h' =>
            hf.reentered (by simp [St.enter, h'])
          simp only
          refine ⟨?_, ?_, ?_, ?_, ?_⟩
          rotate_right
          · cases hp : post r <;> simpa [store, St.setCache, St.setReading] using hre
          · cases hp : post r <;> simpa [store, St.setCache, St.setReading] using hd
          · cases hp : post r <;> simpa [store, St.setCache, St.setReading] using hm
          · cases hp : post r <;> simp only [store, St.setCache, St.setReading] <;>
              (funext i' h'; by_cases hc' : i' = i ∧ h' = h
               · simp [hc']
               · simpa [hc'] using hr i' h' hc')
          · intro i' h'
            cases hp : post r with
            | exc e => simpa [store, St.setReading] using hc i' h'
            | val v =>
              by_cases hc' : i' = i ∧ h' = h
              · right; exact ⟨v, by simp [store, St.setCache, hc'], (post_val hp).2⟩
              · simpa [store, St.setCache, St.setReading, hc'] using hc i' h'
    | chain i h fs =>
      cases fs with
      | nil => simp only [eval, unmark_gen, stored_gen, errTask_gen, finish]; exact Frame.refl st
      | cons f fs =>
        simp only [eval, unmark_gen, stored_gen, errTask_gen, finish]
        have hf := ih (st.setMark f i true) (.body f i (st.marks f i) 0 (P.body f))
        generalize eval P n (st.setMark f i true) (.body f i (st.marks f i) 0 (P.body f)) = res at hf
        obtain ⟨r, st1⟩ := res
        have hd : st1.dict = st.dict := hf.dict
        have hm : ∀ f' i', st1.marks f' i' = if f' = f ∧ i' = i then true else st.marks f' i' :=
          fun f' i' => congrFun (congrFun hf.marks f') i'
        have hr : st1.reading = st.reading := hf.reading
        have hc : ∀ i' h', st1.cache i' h' = st.cache i' h' ∨
            ∃ v, st1.cache i' h' = some v ∧ v ≠ .none ∧ allFinite v = true := hf.cache
        simp only
        have hre : st.reentered = true → st1.reentered = true := hf.reentered
        have h2 : Frame st (if st.marks f i = true then st1 else st1.setMark f i false) := by
          refine ⟨?_, ?_, ?_, ?_, ?_⟩
          rotate_right
          · split <;> simpa [St.setMark] using hre
          · split <;> simpa [St.setMark] using hd
          · funext f' i'
            by_cases hmk : st.marks f i = true
            · rw [if_pos hmk, hm]; split
              · next hc' => rw [hc'.1, hc'.2, hmk]
              · rfl
            · rw [if_neg hmk]
              show (if f' = f ∧ i' = i then false else st1.marks f' i') = st.marks f' i'
              by_cases hc' : f' = f ∧ i' = i
              · rw [if_pos hc', hc'.1, hc'.2]; simpa using hmk
              · rw [if_neg hc', hm, if_neg hc']
          · split <;> simpa [St.setMark] using hr
          · intro i' h'; split <;> simpa [St.setMark] using hc i' h'
        generalize (if st.marks f i = true then st1 else st1.setMark f i false) = st2 at h2
        split
        · exact h2.trans (ih st2 _)
        · exact h2
        · exact h2.trans (ih st2 _)
        · exact h2
    | body f i cyc acc b =>
      cases b with
      | ret v => simp only [eval, unmark_gen, stored_gen, errTask_gen, finish]; exact Frame.refl st
      | retAcc c => simp only [eval, unmark_gen, stored_gen, errTask_gen, finish]; exact Frame.refl st
      | raise e => simp only [eval, unmark_gen, stored_gen, errTask_gen, finish]; exact Frame.refl st
      | read r h k =>
        simp only [eval, unmark_gen, stored_gen, errTask_gen, finish]
        have h1 := ih st (.read (resolve i r) h)
        split
        · next v st1 heq => rw [heq] at h1; exact h1.trans (ih st1 _)
        · next e st1 heq => rw [heq] at h1; exact h1
      | ifCycle a b' =>
        simp only [eval, unmark_gen, stored_gen, errTask_gen, finish]
        split
        · exact Frame.trans (b := { st with sawCycle := true }) ⟨rfl, rfl, rfl, fun _ _ => .inl rfl, id⟩ (ih _ _)
        · exact ih _ _
      | ifHas r h a b' =>
        simp only [eval, unmark_gen, stored_gen, errTask_gen, finish]
        have h1 := ih st (.read (resolve i r) h)
        split
        · next v st1 heq => rw [heq] at h1; exact h1.trans (ih st1 _)
        · next st1 heq => rw [heq] at h1; exact h1.trans (ih st1 _)
        · next e st1 _ heq => rw [heq] at h1; exact h1

/-- equality of the parts of the state that the python program can observe (everything but the ghost fields) -/
structure CoreEq (a b : St) : Prop where
  dict : a.dict = b.dict
  cache : a.cache = b.cache
  marks : a.marks = b.marks

theorem CoreEq.refl (a : St) : CoreEq a a := ⟨rfl, rfl, rfl⟩
theorem CoreEq.symm {a b : St} (h : CoreEq a b) : CoreEq b a := ⟨h.dict.symm, h.cache.symm, h.marks.symm⟩
theorem CoreEq.trans {a b c : St} (h1 : CoreEq a b) (h2 : CoreEq b c) : CoreEq a c :=
  ⟨h1.dict.trans h2.dict, h1.cache.trans h2.cache, h1.marks.trans h2.marks⟩

theorem CoreEq.setMark {a b : St} (h : CoreEq a b) (f i : Nat) (v : Bool) : CoreEq (a.setMark f i v) (b.setMark f i v) :=
  ⟨h.dict, h.cache, by simp [St.setMark, h.marks]⟩

theorem CoreEq.store {a b : St} (h : CoreEq a b) (i k : Nat) (r : Res) : CoreEq (store a i k r) (store b i k r) := by
  cases r with
  | val v => exact ⟨h.dict, by simp [Failure.store, St.setCache, h.cache], h.marks⟩
  | exc e => exact h

/-- the ghost fields never influence a result or the observable state -/
theorem eval_core (P : Prog) : ∀ n a b task, CoreEq a b →
    (eval P n a task).1 = (eval P n b task).1 ∧ CoreEq (eval P n a task).2 (eval P n b task).2 := by
  intro n
  induction n with
  | zero => intro a b task h; simp only [eval, unmark_gen, stored_gen, errTask_gen, finish]; exact ⟨by first | rfl | trivial, h.dict, h.cache, h.marks⟩
  | succ n ih =>
    intro a b task hab
    cases task with
    | read i h =>
      simp only [eval, unmark_gen, stored_gen, errTask_gen, finish, hab.dict, hab.cache]
      split
      · exact ⟨by first | rfl | trivial, hab⟩
      · split
        · exact ⟨by first | rfl | trivial, hab⟩
        · have hen : CoreEq (a.enter i h) (b.enter i h) := ⟨hab.dict, hab.cache, hab.marks⟩
          obtain ⟨h1, h2⟩ := ih _ _ (.chain i h (P.chain h)) hen
          generalize eval P n (a.enter i h) (.chain i h (P.chain h)) = ra at h1 h2
          generalize eval P n (b.enter i h) (.chain i h (P.chain h)) = rb at h1 h2
          obtain ⟨r, a1⟩ := ra; obtain ⟨r', b1⟩ := rb
          simp only at h1 h2; subst h1
          refine ⟨by first | rfl | trivial, ?_⟩
          exact CoreEq.store (a := a1.setReading i h (a.reading i h)) (b := b1.setReading i h (b.reading i h))
            ⟨h2.dict, h2.cache, h2.marks⟩ i h (post r)
    | chain i h fs =>
      cases fs with
      | nil => simp only [eval, unmark_gen, stored_gen, errTask_gen, finish]; exact ⟨by first | rfl | trivial, hab⟩
      | cons f fs =>
        simp only [eval, unmark_gen, stored_gen, errTask_gen, finish, hab.marks]
        obtain ⟨h1, h2⟩ := ih _ _ (.body f i (b.marks f i) 0 (P.body f)) (hab.setMark f i true)
        generalize eval P n (a.setMark f i true) (.body f i (b.marks f i) 0 (P.body f)) = ra at h1 h2
        generalize eval P n (b.setMark f i true) (.body f i (b.marks f i) 0 (P.body f)) = rb at h1 h2
        obtain ⟨r, a1⟩ := ra; obtain ⟨r', b1⟩ := rb
        simp only at h1 h2; subst h1
        have h3 : CoreEq (if b.marks f i = true then a1 else a1.setMark f i false)
            (if b.marks f i = true then b1 else b1.setMark f i false) := by
          split
          · exact h2
          · exact h2.setMark f i false
        simp only
        generalize (if b.marks f i = true then a1 else a1.setMark f i false) = a2 at h3
        generalize (if b.marks f i = true then b1 else b1.setMark f i false) = b2 at h3
        split
        · exact ih _ _ _ h3
        · exact ⟨by first | rfl | trivial, h3⟩
        · exact ih _ _ _ h3
        · exact ⟨by first | rfl | trivial, h3⟩
    | body f i cyc acc bd =>
      cases bd with
      | ret v => simp only [eval, unmark_gen, stored_gen, errTask_gen, finish]; exact ⟨by first | rfl | trivial, hab⟩
      | retAcc c => simp only [eval, unmark_gen, stored_gen, errTask_gen, finish]; exact ⟨by first | rfl | trivial, hab⟩
      | raise e => simp only [eval, unmark_gen, stored_gen, errTask_gen, finish]; exact ⟨by first | rfl | trivial, hab⟩
      | read r h k =>
        simp only [eval, unmark_gen, stored_gen, errTask_gen, finish]
        obtain ⟨h1, h2⟩ := ih a b (.read (resolve i r) h) hab
        generalize eval P n a (.read (resolve i r) h) = ra at h1 h2
        generalize eval P n b (.read (resolve i r) h) = rb at h1 h2
        obtain ⟨r1, a1⟩ := ra; obtain ⟨r1', b1⟩ := rb
        simp only at h1 h2; subst h1
        cases r1 with
        | val v => exact ih _ _ _ h2
        | exc e => exact ⟨by first | rfl | trivial, h2⟩
      | ifCycle x y =>
        simp only [eval, unmark_gen, stored_gen, errTask_gen, finish]
        split
        · exact ih _ _ _ ⟨hab.dict, hab.cache, hab.marks⟩
        · exact ih _ _ _ hab
      | ifHas r h x y =>
        simp only [eval, unmark_gen, stored_gen, errTask_gen, finish]
        obtain ⟨h1, h2⟩ := ih a b (.read (resolve i r) h) hab
        generalize eval P n a (.read (resolve i r) h) = ra at h1 h2
        generalize eval P n b (.read (resolve i r) h) = rb at h1 h2
        obtain ⟨r1, a1⟩ := ra; obtain ⟨r1', b1⟩ := rb
        simp only at h1 h2; subst h1
        split
        · next heq => cases heq; exact ih _ _ _ h2
        · next heq => cases heq; exact ih _ _ _ h2
        · next hne heq =>
          cases heq
          split
          · next heq' => cases heq'
          · next heq' => cases heq'; exact absurd rfl hne
          · next heq' => cases heq'; exact ⟨rfl, h2⟩

theorem frame_readHook (P : Prog) (fuel : Nat) (st : St) (i h : Nat) : Frame st (readHook P fuel st i h).2 :=
  frame_eval P fuel st _

/-- operations from outside: marks are never left behind -/
theorem step_marks (P : Prog) (fuel : Nat) (st : St) (op : Op) : (step P fuel st op).2.marks = st.marks := by
  cases op with
  | read i h => simp only [step]; exact (frame_readHook P fuel st i h).marks
  | has i h =>
    simp only [step]
    have := (frame_readHook P fuel st i h).marks
    split <;> simp_all
  | set i h v => rfl
  | del i h => rfl
  | clear => rfl

theorem step_core (P : Prog) (fuel : Nat) (a b : St) (op : Op) (hab : CoreEq a b) :
    (step P fuel a op).1 = (step P fuel b op).1 ∧ CoreEq (step P fuel a op).2 (step P fuel b op).2 := by
  cases op with
  | read i h =>
    simp only [step, readHook]
    obtain ⟨h1, h2⟩ := eval_core P fuel a b (.read i h) hab
    exact ⟨by rw [h1], h2⟩
  | has i h =>
    simp only [step, readHook]
    obtain ⟨h1, h2⟩ := eval_core P fuel a b (.read i h) hab
    generalize eval P fuel a (.read i h) = ra at h1 h2
    generalize eval P fuel b (.read i h) = rb at h1 h2
    obtain ⟨r, a1⟩ := ra; obtain ⟨r', b1⟩ := rb
    simp only at h1 h2; subst h1
    cases r with
    | val v => exact ⟨rfl, h2⟩
    | exc e => cases e <;> exact ⟨rfl, h2⟩
  | set i h v => exact ⟨rfl, by simp [step, St.setDict, hab.dict], hab.cache, hab.marks⟩
  | del i h => exact ⟨rfl, by simp [step, St.setDict, hab.dict], hab.cache, hab.marks⟩
  | clear => exact ⟨rfl, hab.dict, rfl, hab.marks⟩

theorem run_core (P : Prog) (fuel : Nat) (ops : List Op) : ∀ (a b : St), CoreEq a b →
    (run P fuel a ops).1 = (run P fuel b ops).1 ∧ CoreEq (run P fuel a ops).2 (run P fuel b ops).2 := by
  induction ops with
  | nil => intro a b h; exact ⟨rfl, h⟩
  | cons op ops ih =>
    intro a b hab
    simp only [run]
    obtain ⟨h1, h2⟩ := step_core P fuel a b op hab
    obtain ⟨h3, h4⟩ := ih _ _ h2
    exact ⟨by rw [h1, h3], h4⟩

theorem run_marks (P : Prog) (fuel : Nat) (ops : List Op) : ∀ st, (run P fuel st ops).2.marks = st.marks := by
  induction ops with
  | nil => intro st; rfl
  | cons op ops ih => intro st; simp only [run]; rw [ih, step_marks]

/-- While a computing read of hook `h` of instance `i` is on the stack and that hook is never re-entered,
nothing is written to its cache entry. -/
theorem own_entry (P : Prog) (i h : Nat) : ∀ n st task, st.reading i h = true →
    (eval P n st task).2.reentered = false → (eval P n st task).2.cache i h = st.cache i h := by
  intro n
  induction n with
  | zero => intro st task _ _; simp only [eval, unmark_gen, stored_gen, errTask_gen, finish]
  | succ n ih =>
    intro st task hr hne
    have mono : ∀ {a b : St}, Frame a b → b.reentered = false → a.reentered = false := by
      intro a b hf hb
      cases ha : a.reentered with
      | false => rfl
      | true => rw [hf.reentered ha] at hb; cases hb
    cases task with
    | read j k =>
      simp only [eval, unmark_gen, stored_gen, errTask_gen, finish] at hne ⊢
      split at hne
      · simp_all
      · split at hne
        · simp_all
        · have hf := frame_eval P n (st.enter j k) (.chain j k (P.chain k))
          have hi := ih (st.enter j k) (.chain j k (P.chain k))
          generalize eval P n (st.enter j k) (.chain j k (P.chain k)) = res at hf hi hne
          obtain ⟨r, st1⟩ := res
          simp only at hf hi hne ⊢
          have hne1 : st1.reentered = false := by
            cases hp : post r <;> simpa [store, St.setCache, St.setReading, hp] using hne
          have hen : (st.enter j k).reentered = false := mono hf hne1
          by_cases hjk : i = j ∧ h = k
          · -- the hook itself is read again: flagged as re-entered
            exfalso
            simp [St.enter, ← hjk.1, ← hjk.2, hr] at hen
          · have hc1 : st1.cache i h = st.cache i h := by
              apply hi _ hne1
              simp only [St.enter]; split <;> simp_all
            cases hp : post r with
            | exc e => simpa [store, St.setReading] using hc1
            | val v => simpa [store, St.setCache, St.setReading, hjk] using hc1
    | chain j k fs =>
      cases fs with
      | nil => simp only [eval, unmark_gen, stored_gen, errTask_gen, finish]
      | cons f fs =>
        simp only [eval, unmark_gen, stored_gen, errTask_gen, finish] at hne ⊢
        have hf := frame_eval P n (st.setMark f j true) (.body f j (st.marks f j) 0 (P.body f))
        have hi := ih (st.setMark f j true) (.body f j (st.marks f j) 0 (P.body f)) hr
        generalize eval P n (st.setMark f j true) (.body f j (st.marks f j) 0 (P.body f)) = res at hf hi hne
        obtain ⟨r, st1⟩ := res
        simp only at hf hi hne ⊢
        have hst2 : ∀ st2 : St, st2 = (if st.marks f j = true then st1 else st1.setMark f j false) →
            st2.reading i h = true ∧ (st2.reentered = false → st2.cache i h = st.cache i h) ∧
            (st2.reentered = false → st1.reentered = false) := by
          intro st2 h2; subst h2
          have hrd : st1.reading i h = true := by rw [hf.reading]; exact hr
          split
          · exact ⟨hrd, fun h' => hi h', id⟩
          · exact ⟨hrd, fun h' => hi h', id⟩
        generalize (if st.marks f j = true then st1 else st1.setMark f j false) = st2 at hst2 hne
        obtain ⟨h2r, h2c, _⟩ := hst2 st2 rfl
        split at hne
        · have hf2 := frame_eval P n st2 (.chain j k fs)
          rw [ih st2 _ h2r hne, h2c (mono hf2 hne)]
        · exact h2c hne
        · have hf2 := frame_eval P n st2 (.chain j k fs)
          rw [ih st2 _ h2r hne, h2c (mono hf2 hne)]
        · exact h2c hne
    | body f j cyc acc b =>
      cases b with
      | ret v => simp only [eval, unmark_gen, stored_gen, errTask_gen, finish]
      | retAcc c => simp only [eval, unmark_gen, stored_gen, errTask_gen, finish]
      | raise e => simp only [eval, unmark_gen, stored_gen, errTask_gen, finish]
      | read r k kb =>
        simp only [eval, unmark_gen, stored_gen, errTask_gen, finish] at hne ⊢
        have hf := frame_eval P n st (.read (resolve j r) k)
        have hi := ih st (.read (resolve j r) k) hr
        generalize eval P n st (.read (resolve j r) k) = res at hf hi hne
        obtain ⟨r1, st1⟩ := res
        simp only at hf hi hne ⊢
        have hrd : st1.reading i h = true := by rw [hf.reading]; exact hr
        cases r1 with
        | val v =>
          simp only at hne ⊢
          have hf2 := frame_eval P n st1 (.body f j cyc (acc + v.intOf) kb)
          rw [ih st1 _ hrd hne, hi (mono hf2 hne)]
        | exc e => simp only at hne ⊢; exact hi hne
      | ifCycle x y =>
        simp only [eval, unmark_gen, stored_gen, errTask_gen, finish] at hne ⊢
        split at hne
        · rename_i hc; simp only [hc, if_true] at hne ⊢; exact ih _ _ hr hne
        · rename_i hc; simp only [hc] at hne ⊢; exact ih _ _ hr hne
      | ifHas r k x y =>
        simp only [eval, unmark_gen, stored_gen, errTask_gen, finish] at hne ⊢
        have hf := frame_eval P n st (.read (resolve j r) k)
        have hi := ih st (.read (resolve j r) k) hr
        generalize eval P n st (.read (resolve j r) k) = res at hf hi hne
        obtain ⟨r1, st1⟩ := res
        simp only at hf hi hne ⊢
        have hrd : st1.reading i h = true := by rw [hf.reading]; exact hr
        split at hne
        · next heq =>
          cases heq
          have hf2 := frame_eval P n st1 (.body f j cyc acc x)
          rw [ih st1 _ hrd hne, hi (mono hf2 hne)]
        · next heq =>
          cases heq
          have hf2 := frame_eval P n st1 (.body f j cyc acc y)
          rw [ih st1 _ hrd hne, hi (mono hf2 hne)]
        · next hx heq =>
          cases heq
          exact hi hne

/-- no `has_value` guard anywhere in the body -/
def Body.guardFree : Body → Bool
  | .read _ _ k => k.guardFree
  | .ifCycle a b => a.guardFree && b.guardFree
  | .ifHas _ _ _ _ => false
  | _ => true

def Task.guardFree : Task → Bool
  | .body _ _ _ _ b => b.guardFree
  | _ => true

def Res.isLimitErr (r : Res) : Prop := r = .exc .recursionError ∨ r = .exc .attributeError

/-- In a program without `has_value` guards, reaching the recursion limit anywhere inside an evaluation makes
the evaluation fail with RecursionError (not yet converted) or AttributeError (converted by a `Hook.__get__`). -/
theorem limit_propagates (P : Prog) (hP : ∀ f, (P.body f).guardFree = true) : ∀ n st task,
    task.guardFree = true → st.hitLimit = false → (eval P n st task).2.hitLimit = true →
    (eval P n st task).1.isLimitErr := by
  intro n
  induction n with
  | zero => intro st task _ _ _; simp only [eval, unmark_gen, stored_gen, errTask_gen, finish]; exact .inl rfl
  | succ n ih =>
    intro st task hg h0 h1
    cases task with
    | read i h =>
      simp only [eval, unmark_gen, stored_gen, errTask_gen, finish] at h1 ⊢
      split at h1
      · simp_all
      · split at h1
        · simp_all
        · have hi := ih (st.enter i h) (.chain i h (P.chain h)) rfl h0
          generalize eval P n (st.enter i h) (.chain i h (P.chain h)) = res at hi h1
          obtain ⟨r, st1⟩ := res
          simp only at hi h1 ⊢
          have h1' : st1.hitLimit = true := by
            cases hp : post r <;> simpa [store, St.setCache, St.setReading, hp] using h1
          rcases hi h1' with e | e <;> subst e <;> exact .inr rfl
    | chain i h fs =>
      cases fs with
      | nil => simp only [eval, unmark_gen, stored_gen, errTask_gen, finish] at h1; simp_all
      | cons f fs =>
        simp only [eval, unmark_gen, stored_gen, errTask_gen, finish] at h1 ⊢
        have hi := ih (st.setMark f i true) (.body f i (st.marks f i) 0 (P.body f)) (hP f) h0
        generalize eval P n (st.setMark f i true) (.body f i (st.marks f i) 0 (P.body f)) = res at hi h1
        obtain ⟨r, st1⟩ := res
        simp only at hi h1 ⊢
        have hst2 : ∀ st2 : St, st2 = (if st.marks f i = true then st1 else st1.setMark f i false) →
            st2.hitLimit = st1.hitLimit := by
          intro st2 h2; subst h2; split <;> rfl
        generalize (if st.marks f i = true then st1 else st1.setMark f i false) = st2 at hst2 h1
        have h2 := hst2 st2 rfl
        cases hl : st1.hitLimit with
        | true =>
          rcases hi hl with e | e <;> subst e
          · exact .inl rfl
          · exact .inr rfl
        | false =>
          rw [hl] at h2
          split at h1
          · exact ih st2 _ rfl h2 h1
          · simp only at h1; rw [h2] at h1; cases h1
          · exact ih st2 _ rfl h2 h1
          · simp only at h1; rw [h2] at h1; cases h1
    | body f i cyc acc b =>
      cases b with
      | ret v => simp only [eval, unmark_gen, stored_gen, errTask_gen, finish] at h1; simp_all
      | retAcc c => simp only [eval, unmark_gen, stored_gen, errTask_gen, finish] at h1; simp_all
      | raise e => simp only [eval, unmark_gen, stored_gen, errTask_gen, finish] at h1; simp_all
      | read r k kb =>
        have hgk : kb.guardFree = true := by simpa [Task.guardFree, Body.guardFree] using hg
        simp only [eval, unmark_gen, stored_gen, errTask_gen, finish] at h1 ⊢
        have hi := ih st (.read (resolve i r) k) rfl h0
        generalize eval P n st (.read (resolve i r) k) = res at hi h1
        obtain ⟨r1, st1⟩ := res
        simp only at hi h1 ⊢
        cases hl : st1.hitLimit with
        | true =>
          rcases hi hl with e | e <;> subst e
          · exact .inl rfl
          · exact .inr rfl
        | false =>
          cases r1 with
          | val v => exact ih st1 _ hgk hl h1
          | exc e => simp only at h1; rw [hl] at h1; cases h1
      | ifCycle x y =>
        have hgx : x.guardFree = true ∧ y.guardFree = true := by
          simpa [Task.guardFree, Body.guardFree] using hg
        cases cyc
        · simp only [eval, unmark_gen, stored_gen, errTask_gen, finish, Bool.false_eq_true, if_false] at h1 ⊢; exact ih _ _ hgx.2 h0 h1
        · simp only [eval, unmark_gen, stored_gen, errTask_gen, finish, if_true] at h1 ⊢; exact ih _ _ hgx.1 h0 h1
      | ifHas r k x y => simp [Task.guardFree, Body.guardFree] at hg

end Failure
