import PyrollProofs.PassGeom

/-! The x-window clip of a vertex list and its extreme coordinates, over ℝ: characterisation of `minOf`/`maxOf`,
    membership in `clipCands`, and the transport of a clip through the placement of the lower roll of a three-roll
    pass (`p ↦ (-p.x, -(p.y + s))`, vertex order reversed). -/

namespace PassGeom

/-! ### minOf / maxOf -/

theorem foldl_min_spec (as : List ℝ) (a : ℝ) :
    (as.foldl (fun m b => if b < m then b else m) a = a ∨ as.foldl (fun m b => if b < m then b else m) a ∈ as) ∧
    as.foldl (fun m b => if b < m then b else m) a ≤ a ∧
    ∀ b ∈ as, as.foldl (fun m b => if b < m then b else m) a ≤ b := by
  induction as generalizing a with
  | nil => simp
  | cons x xs ih =>
    rw [List.foldl_cons]
    by_cases h : x < a
    · rw [if_pos h]
      obtain ⟨h1, h2, h3⟩ := ih x
      refine ⟨?_, by linarith, ?_⟩
      · rcases h1 with h1 | h1
        · right; rw [h1]; exact List.mem_cons_self
        · right; exact List.mem_cons_of_mem _ h1
      · intro b hb
        rcases List.mem_cons.mp hb with rfl | hb
        · exact h2
        · exact h3 b hb
    · rw [if_neg h]
      obtain ⟨h1, h2, h3⟩ := ih a
      refine ⟨?_, h2, ?_⟩
      · rcases h1 with h1 | h1
        · left; exact h1
        · right; exact List.mem_cons_of_mem _ h1
      · intro b hb
        rcases List.mem_cons.mp hb with rfl | hb
        · have := not_lt.mp h; linarith
        · exact h3 b hb

theorem foldl_max_spec (as : List ℝ) (a : ℝ) :
    (as.foldl (fun m b => if m < b then b else m) a = a ∨ as.foldl (fun m b => if m < b then b else m) a ∈ as) ∧
    a ≤ as.foldl (fun m b => if m < b then b else m) a ∧
    ∀ b ∈ as, b ≤ as.foldl (fun m b => if m < b then b else m) a := by
  induction as generalizing a with
  | nil => simp
  | cons x xs ih =>
    rw [List.foldl_cons]
    by_cases h : a < x
    · rw [if_pos h]
      obtain ⟨h1, h2, h3⟩ := ih x
      refine ⟨?_, by linarith, ?_⟩
      · rcases h1 with h1 | h1
        · right; rw [h1]; exact List.mem_cons_self
        · right; exact List.mem_cons_of_mem _ h1
      · intro b hb
        rcases List.mem_cons.mp hb with rfl | hb
        · exact h2
        · exact h3 b hb
    · rw [if_neg h]
      obtain ⟨h1, h2, h3⟩ := ih a
      refine ⟨?_, h2, ?_⟩
      · rcases h1 with h1 | h1
        · left; exact h1
        · right; exact List.mem_cons_of_mem _ h1
      · intro b hb
        rcases List.mem_cons.mp hb with rfl | hb
        · have := not_lt.mp h; linarith
        · exact h3 b hb

theorem minOf_cons (a : ℝ) (as : List ℝ) : minOf (a :: as) = as.foldl (fun m b => if b < m then b else m) a := by
  simp only [minOf, lt_real, decide_eq_true_eq]

theorem maxOf_cons (a : ℝ) (as : List ℝ) : maxOf (a :: as) = as.foldl (fun m b => if m < b then b else m) a := by
  simp only [maxOf, lt_real, decide_eq_true_eq]

theorem minOf_spec (l : List ℝ) (h : l ≠ []) : minOf l ∈ l ∧ ∀ b ∈ l, minOf l ≤ b := by
  cases l with
  | nil => exact absurd rfl h
  | cons a as =>
    rw [minOf_cons]
    obtain ⟨h1, h2, h3⟩ := foldl_min_spec as a
    refine ⟨?_, ?_⟩
    · rcases h1 with h1 | h1
      · rw [h1]; exact List.mem_cons_self
      · exact List.mem_cons_of_mem _ h1
    · intro b hb
      rcases List.mem_cons.mp hb with rfl | hb
      · exact h2
      · exact h3 b hb

theorem maxOf_spec (l : List ℝ) (h : l ≠ []) : maxOf l ∈ l ∧ ∀ b ∈ l, b ≤ maxOf l := by
  cases l with
  | nil => exact absurd rfl h
  | cons a as =>
    rw [maxOf_cons]
    obtain ⟨h1, h2, h3⟩ := foldl_max_spec as a
    refine ⟨?_, ?_⟩
    · rcases h1 with h1 | h1
      · rw [h1]; exact List.mem_cons_self
      · exact List.mem_cons_of_mem _ h1
    · intro b hb
      rcases List.mem_cons.mp hb with rfl | hb
      · exact h2
      · exact h3 b hb

theorem minOf_eq_of (l : List ℝ) (m : ℝ) (hm : m ∈ l) (hle : ∀ b ∈ l, m ≤ b) : minOf l = m := by
  have hne : l ≠ [] := List.ne_nil_of_mem hm
  obtain ⟨h1, h2⟩ := minOf_spec l hne
  exact le_antisymm (h2 m hm) (hle _ h1)

theorem maxOf_eq_of (l : List ℝ) (m : ℝ) (hm : m ∈ l) (hle : ∀ b ∈ l, b ≤ m) : maxOf l = m := by
  have hne : l ≠ [] := List.ne_nil_of_mem hm
  obtain ⟨h1, h2⟩ := maxOf_spec l hne
  exact le_antisymm (hle _ h1) (h2 m hm)

/-! ### segments -/

theorem mem_segs_iff {β : Type} (l : List β) (a b : β) :
    (a, b) ∈ l.zip l.tail ↔ ∃ l1 l2, l = l1 ++ a :: b :: l2 := by
  induction l with
  | nil => simp
  | cons x xs ih =>
    cases xs with
    | nil =>
      simp only [List.tail_cons, List.zip_nil_right, List.not_mem_nil, false_iff]
      rintro ⟨l1, l2, h⟩
      have := congrArg List.length h
      simp at this
      omega
    | cons y ys =>
      simp only [List.tail_cons, List.zip_cons_cons, List.mem_cons, Prod.mk.injEq]
      simp only [List.tail_cons] at ih
      rw [ih]
      constructor
      · rintro (⟨rfl, rfl⟩ | ⟨l1, l2, h⟩)
        · exact ⟨[], ys, rfl⟩
        · exact ⟨x :: l1, l2, by simp [h]⟩
      · rintro ⟨l1, l2, h⟩
        cases l1 with
        | nil =>
          simp only [List.nil_append, List.cons.injEq] at h
          left; exact ⟨h.1.symm, h.2.1.symm⟩
        | cons z zs =>
          simp only [List.cons_append, List.cons.injEq] at h
          right; exact ⟨zs, l2, h.2⟩

theorem mem_segs_reverse {β : Type} (l : List β) (a b : β) :
    (a, b) ∈ l.reverse.zip l.reverse.tail ↔ (b, a) ∈ l.zip l.tail := by
  rw [mem_segs_iff, mem_segs_iff]
  constructor
  · rintro ⟨l1, l2, h⟩
    refine ⟨l2.reverse, l1.reverse, ?_⟩
    have := congrArg List.reverse h
    simpa using this
  · rintro ⟨l1, l2, h⟩
    refine ⟨l2.reverse, l1.reverse, ?_⟩
    rw [h]; simp

theorem mem_segs_map {β : Type} (g : β → β) (l : List β) (a' b' : β) :
    (a', b') ∈ (l.map g).zip (l.map g).tail ↔ ∃ a b, (a, b) ∈ l.zip l.tail ∧ a' = g a ∧ b' = g b := by
  rw [← List.map_tail, List.zip_map, List.mem_map]
  constructor
  · rintro ⟨⟨a, b⟩, h, he⟩
    simp only [Prod.map_apply, Prod.mk.injEq] at he
    exact ⟨a, b, h, he.1.symm, he.2.symm⟩
  · rintro ⟨a, b, h, rfl, rfl⟩
    exact ⟨(a, b), h, rfl⟩

/-! ### membership in the clip candidates -/

theorem insideX_iff (lo hi : ℝ) (p : Pt ℝ) : insideX lo hi p = true ↔ lo ≤ p.x ∧ p.x ≤ hi := by
  simp [insideX]

theorem between_iff (v a b : ℝ) : between v a b = true ↔ (a < v ∧ v < b) ∨ (b < v ∧ v < a) := by
  simp [between]

theorem mem_crossings (lo hi : ℝ) (a b q : Pt ℝ) :
    q ∈ crossings lo hi (a, b) ↔
      (((a.x < lo ∧ lo < b.x) ∨ (b.x < lo ∧ lo < a.x)) ∧ q = crossAt lo a b) ∨
      (((a.x < hi ∧ hi < b.x) ∨ (b.x < hi ∧ hi < a.x)) ∧ q = crossAt hi a b) := by
  simp only [crossings, List.mem_append]
  constructor
  · rintro (h | h)
    · left
      by_cases hb : between lo a.x b.x = true
      · simp only [hb, if_true, List.mem_singleton] at h
        exact ⟨(between_iff _ _ _).mp hb, h⟩
      · simp [hb] at h
    · right
      by_cases hb : between hi a.x b.x = true
      · simp only [hb, if_true, List.mem_singleton] at h
        exact ⟨(between_iff _ _ _).mp hb, h⟩
      · simp [hb] at h
  · rintro (⟨hb, rfl⟩ | ⟨hb, rfl⟩)
    · left; simp [(between_iff _ _ _).mpr hb]
    · right; simp [(between_iff _ _ _).mpr hb]

theorem mem_clipCands (lo hi : ℝ) (l : List (Pt ℝ)) (q : Pt ℝ) :
    q ∈ clipCands lo hi l ↔
      (q ∈ l ∧ lo ≤ q.x ∧ q.x ≤ hi) ∨ ∃ a b, (a, b) ∈ l.zip l.tail ∧ q ∈ crossings lo hi (a, b) := by
  simp only [clipCands, segs, List.mem_append, List.mem_filter, insideX_iff, List.mem_flatMap, Prod.exists]

/-! ### the clip of the lower contour of a three-roll pass -/

/-- where the lower roll's vertices go: half turn of the contour lifted by `s` -/
def lowerMap (s : ℝ) (p : Pt ℝ) : Pt ℝ := ⟨-p.x, -(p.y + s)⟩

theorem crossAt_lowerMap (s w : ℝ) (u v : Pt ℝ) (h : u.x ≠ v.x) :
    crossAt (-w) (lowerMap s v) (lowerMap s u) = lowerMap s (crossAt w u v) := by
  have h1 : v.x - u.x ≠ 0 := sub_ne_zero.mpr (Ne.symm h)
  have h2 : -u.x - -v.x ≠ 0 := by intro h0; apply h1; linarith
  ext
  · simp [crossAt, lowerMap]
  · simp only [crossAt, lowerMap]
    field_simp
    ring

theorem crossAt_lowerMap' (s w : ℝ) (u v : Pt ℝ) (h : u.x ≠ v.x) :
    crossAt w (lowerMap s v) (lowerMap s u) = lowerMap s (crossAt (-w) u v) := by
  have := crossAt_lowerMap s (-w) u v h
  simpa using this

theorem mem_crossings_lowerMap (s w : ℝ) (u v q : Pt ℝ) :
    q ∈ crossings (-w) w (lowerMap s v, lowerMap s u) ↔ ∃ p ∈ crossings (-w) w (u, v), q = lowerMap s p := by
  simp only [mem_crossings]
  constructor
  · rintro (⟨hb, rfl⟩ | ⟨hb, rfl⟩)
    · have hne : u.x ≠ v.x := by
        simp only [lowerMap] at hb
        rcases hb with hb | hb <;> intro h0 <;> linarith [hb.1, hb.2]
      refine ⟨crossAt w u v, Or.inr ⟨?_, rfl⟩, crossAt_lowerMap s w u v hne⟩
      simp only [lowerMap] at hb
      rcases hb with hb | hb
      · left; constructor <;> linarith [hb.1, hb.2]
      · right; constructor <;> linarith [hb.1, hb.2]
    · have hne : u.x ≠ v.x := by
        simp only [lowerMap] at hb
        rcases hb with hb | hb <;> intro h0 <;> linarith [hb.1, hb.2]
      refine ⟨crossAt (-w) u v, Or.inl ⟨?_, rfl⟩, crossAt_lowerMap' s w u v hne⟩
      simp only [lowerMap] at hb
      rcases hb with hb | hb
      · left; constructor <;> linarith [hb.1, hb.2]
      · right; constructor <;> linarith [hb.1, hb.2]
  · rintro ⟨p, (⟨hb, rfl⟩ | ⟨hb, rfl⟩), rfl⟩
    · have hne : u.x ≠ v.x := by
        rcases hb with hb | hb <;> intro h0 <;> linarith [hb.1, hb.2]
      right
      refine ⟨?_, (crossAt_lowerMap' s w u v hne).symm⟩
      simp only [lowerMap]
      rcases hb with hb | hb
      · left; constructor <;> linarith [hb.1, hb.2]
      · right; constructor <;> linarith [hb.1, hb.2]
    · have hne : u.x ≠ v.x := by
        rcases hb with hb | hb <;> intro h0 <;> linarith [hb.1, hb.2]
      left
      refine ⟨?_, (crossAt_lowerMap s w u v hne).symm⟩
      simp only [lowerMap]
      rcases hb with hb | hb
      · left; constructor <;> linarith [hb.1, hb.2]
      · right; constructor <;> linarith [hb.1, hb.2]

/-- the clip candidates of the placed lower line are the images of the clip candidates of the contour -/
theorem mem_clipCands_lower (s w : ℝ) (c : List (Pt ℝ)) (q : Pt ℝ) :
    q ∈ clipCands (-w) w (c.map (lowerMap s)).reverse ↔ ∃ p ∈ clipCands (-w) w c, q = lowerMap s p := by
  simp only [mem_clipCands, List.mem_reverse, List.mem_map]
  constructor
  · rintro (⟨⟨p, hp, rfl⟩, h1, h2⟩ | ⟨a, b, hab, hq⟩)
    · refine ⟨p, Or.inl ⟨hp, ?_, ?_⟩, rfl⟩ <;> simp only [lowerMap] at h1 h2 <;> linarith
    · rw [mem_segs_reverse, mem_segs_map] at hab
      obtain ⟨u, v, huv, rfl, rfl⟩ := hab
      obtain ⟨p, hp, rfl⟩ := (mem_crossings_lowerMap s w u v q).mp hq
      exact ⟨p, Or.inr ⟨u, v, huv, hp⟩, rfl⟩
  · rintro ⟨p, (⟨hp, h1, h2⟩ | ⟨u, v, huv, hp⟩), rfl⟩
    · left
      refine ⟨⟨p, hp, rfl⟩, ?_, ?_⟩ <;> simp only [lowerMap] <;> linarith
    · right
      refine ⟨lowerMap s v, lowerMap s u, ?_, (mem_crossings_lowerMap s w u v _).mpr ⟨p, hp, rfl⟩⟩
      rw [mem_segs_reverse, mem_segs_map]
      exact ⟨u, v, huv, rfl, rfl⟩

/-- `bounds[1]` of the clipped lower line is minus (`bounds[3]` of the clipped contour plus the lift) -/
theorem bound1_lower (s w : ℝ) (c : List (Pt ℝ)) (hne : clipCands (-w) w c ≠ []) :
    bound 1 (clipCands (-w) w (c.map (lowerMap s)).reverse) = -(bound 3 (clipCands (-w) w c) + s) := by
  simp only [bound]
  have hne' : (clipCands (-w) w c).map (·.y) ≠ [] := by simpa using hne
  obtain ⟨hmem, hmax⟩ := maxOf_spec _ hne'
  obtain ⟨p, hp, hpy⟩ := List.mem_map.mp hmem
  apply minOf_eq_of
  · refine List.mem_map.mpr ⟨lowerMap s p, (mem_clipCands_lower s w c _).mpr ⟨p, hp, rfl⟩, ?_⟩
    simp only [lowerMap]; rw [← hpy]
  · intro b hb
    obtain ⟨q, hq, rfl⟩ := List.mem_map.mp hb
    obtain ⟨p', hp', rfl⟩ := (mem_clipCands_lower s w c q).mp hq
    have := hmax p'.y (List.mem_map.mpr ⟨p', hp', rfl⟩)
    simp only [lowerMap]; linarith

end PassGeom
