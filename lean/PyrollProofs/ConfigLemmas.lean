import PyrollModel.Config

/-! Helper lemmas for C20 (core Lean only, no Mathlib): texts (`strip`, `split`/`join`, case mapping), `str(int)` / `int(str)`,
the enum and mapping branches of the parser, and the one-step / whole-history behaviour of the explicit slots and the
environment. -/

namespace Config

/-! ### stripping -/

def AllP (p : Char → Bool) (ws : Text) : Prop := ∀ c ∈ ws, p c = true

/-- no character satisfying `p` at either end (the empty text qualifies) -/
def Trimmed (p : Char → Bool) (t : Text) : Prop := lstripBy p t = t ∧ lstripBy p t.reverse = t.reverse

instance (p : Char → Bool) (ws : Text) : Decidable (AllP p ws) := by unfold AllP; exact inferInstance
instance (p : Char → Bool) (t : Text) : Decidable (Trimmed p t) := by unfold Trimmed; exact inferInstance

theorem lstripBy_all {p : Char → Bool} {ws : Text} (h : AllP p ws) (t : Text) :
    lstripBy p (ws ++ t) = lstripBy p t := by
  induction ws with
  | nil => rfl
  | cons c cs ih =>
    have hc : p c = true := h c (by simp)
    have := ih (fun d hd => h d (by simp [hd]))
    simpa [lstripBy, hc] using this

theorem lstripBy_all_nil {p : Char → Bool} {ws : Text} (h : AllP p ws) : lstripBy p ws = [] := by
  have := lstripBy_all h []
  simpa [lstripBy] using this

theorem length_lstripBy_le (p : Char → Bool) (t : Text) : (lstripBy p t).length ≤ t.length := by
  induction t with
  | nil => simp [lstripBy]
  | cons c cs ih =>
    simp only [lstripBy, List.dropWhile_cons]
    split
    · simp only [lstripBy] at ih; simp; omega
    · simp

theorem head_of_lstripBy_self {p : Char → Bool} {c : Char} {r : Text} (h : lstripBy p (c :: r) = c :: r) :
    p c = false := by
  cases hc : p c with
  | false => rfl
  | true =>
    have h1 : lstripBy p (c :: r) = lstripBy p r := by simp [lstripBy, hc]
    have h2 := length_lstripBy_le p r
    rw [← h1, h] at h2
    simp at h2
    omega

theorem lstripBy_cons_not {p : Char → Bool} {c : Char} (hc : p c = false) (r : Text) :
    lstripBy p (c :: r) = c :: r := by
  simp [lstripBy, hc]

/-- blanks around a trimmed core are removed, nothing else -/
theorem stripBy_pad {p : Char → Bool} {ws1 ws2 core : Text} (h1 : AllP p ws1) (h2 : AllP p ws2)
    (hc : Trimmed p core) : stripBy p (ws1 ++ core ++ ws2) = core := by
  unfold stripBy
  rw [List.append_assoc, lstripBy_all h1]
  cases core with
  | nil =>
    rw [List.nil_append, lstripBy_all_nil h2]; rfl
  | cons c r =>
    have hpc := head_of_lstripBy_self hc.1
    have : lstripBy p (c :: r ++ ws2) = c :: r ++ ws2 := by
      rw [List.cons_append]; exact lstripBy_cons_not hpc _
    rw [this, List.reverse_append]
    have h2' : AllP p ws2.reverse := fun d hd => h2 d (by simpa using hd)
    rw [lstripBy_all h2', hc.2, List.reverse_reverse]

theorem stripBy_trimmed {p : Char → Bool} {t : Text} (h : Trimmed p t) : stripBy p t = t := by
  have := stripBy_pad (p := p) (ws1 := []) (ws2 := []) (by intro c hc; cases hc) (by intro c hc; cases hc) h
  simpa using this

theorem trimmed_of_none {p : Char → Bool} {t : Text} (h : ∀ c ∈ t, p c = false) : Trimmed p t := by
  have key : ∀ u : Text, (∀ c ∈ u, p c = false) → lstripBy p u = u := by
    intro u hu
    cases u with
    | nil => rfl
    | cons c r => exact lstripBy_cons_not (hu c (by simp)) r
  exact ⟨key t h, key _ (fun c hc => h c (by simpa using hc))⟩

/-! ### split / join -/

theorem split_ne_nil (sep : Char) (t : Text) : split sep t ≠ [] := by
  induction t with
  | nil => simp [split]
  | cons c cs ih =>
    simp only [split]
    split
    · simp
    · split <;> simp

theorem split_noSep {sep : Char} {x : Text} (h : sep ∉ x) : split sep x = [x] := by
  induction x with
  | nil => rfl
  | cons c cs ih =>
    have hc : c ≠ sep := fun e => h (by simp [e])
    have := ih (fun hm => h (by simp [hm]))
    simp [split, hc, this]

theorem split_append_sep {sep : Char} {x : Text} (h : sep ∉ x) (rest : Text) :
    split sep (x ++ sep :: rest) = x :: split sep rest := by
  induction x with
  | nil => simp [split]
  | cons c cs ih =>
    have hc : c ≠ sep := fun e => h (by simp [e])
    have := ih (fun hm => h (by simp [hm]))
    simp [split, hc, this]

/-- `sep.join(items).split(sep) == items` for a non-empty list of separator-free items -/
theorem split_join {sep : Char} : ∀ {items : List Text}, items ≠ [] → (∀ x ∈ items, sep ∉ x) →
    split sep (join sep items) = items
  | [], h, _ => absurd rfl h
  | [x], _, hx => by simpa [join] using split_noSep (hx x (by simp))
  | x :: y :: r, _, hx => by
    have ih := split_join (sep := sep) (items := y :: r) (by simp) (fun z hz => hx z (by simp [hz]))
    simp only [join]
    rw [split_append_sep (hx x (by simp)), ih]

/-! ### case mapping -/

theorem mapVia_cases (as bs : List Char) (c : Char) : mapVia as bs c = c ∨ (c ∈ as ∧ mapVia as bs c ∈ bs) := by
  induction as generalizing bs with
  | nil => left; simp [mapVia]
  | cons a as ih =>
    cases bs with
    | nil => left; simp [mapVia]
    | cons b bs =>
      simp only [mapVia]
      split
      · right; simp [*]
      · rcases ih bs with h | ⟨h1, h2⟩
        · left; exact h
        · right; exact ⟨by simp [h1], by simp [h2]⟩

theorem isSpace_lowerC (c : Char) : isSpace (lowerC c) = isSpace c := by
  rcases mapVia_cases uppers lowers c with h | ⟨h1, h2⟩
  · simp [lowerC, h]
  · have a : ∀ d ∈ uppers, isSpace d = false := by decide
    have b : ∀ d ∈ lowers, isSpace d = false := by decide
    rw [a c h1]; exact b _ h2

theorem upperC_of_not_lower {c : Char} (h : c ∉ lowers) : upperC c = c := by
  rcases mapVia_cases lowers uppers c with h' | ⟨h1, _⟩
  · exact h'
  · exact absurd h1 h

theorem map_upperC_of_upper {t : Text} (h : ∀ c ∈ t, c ∉ lowers) : t.map upperC = t := by
  induction t with
  | nil => rfl
  | cons c cs ih =>
    simp [upperC_of_not_lower (h c (by simp)), ih (fun d hd => h d (by simp [hd]))]

/-! ### integers -/

theorem digitVal_digitChar : ∀ d, d < 10 → digitVal (digitChar d) = d := by decide

theorem isDigit_digitChar : ∀ d, d < 10 → isDigit (digitChar d) = true := by decide

theorem digit_not_numSpace {c : Char} (h : isDigit c = true) : isNumSpace c = false := by
  have a : ∀ d ∈ digits, isNumSpace d = false := by decide
  exact a c (by simpa [isDigit] using h)

theorem digit_ne_special {c : Char} (h : isDigit c = true) : c ≠ '_' ∧ c ≠ '-' ∧ c ≠ '+' := by
  have a : ∀ d ∈ digits, d ≠ '_' ∧ d ≠ '-' ∧ d ≠ '+' := by decide
  exact a c (by simpa [isDigit] using h)

theorem valueRev_revDigits : ∀ fuel n, n < fuel → valueRev (revDigits fuel n) = n
  | 0, _, h => by omega
  | fuel + 1, n, h => by
    simp only [revDigits]
    split
    · rename_i hn; simp [valueRev, digitVal_digitChar n hn]
    · rename_i hn
      have := valueRev_revDigits fuel (n / 10) (by omega)
      simp only [valueRev, this, digitVal_digitChar (n % 10) (Nat.mod_lt _ (by omega))]
      omega

theorem revDigits_digits : ∀ fuel n, ∀ c ∈ revDigits fuel n, isDigit c = true
  | 0, _, c, h => by simp [revDigits] at h
  | fuel + 1, n, c, h => by
    simp only [revDigits] at h
    split at h
    · rename_i hn
      simp at h; subst h; exact isDigit_digitChar n hn
    · simp at h
      rcases h with h | h
      · subst h; exact isDigit_digitChar _ (Nat.mod_lt _ (by omega))
      · exact revDigits_digits fuel _ c h

theorem revDigits_ne_nil (fuel n : Nat) : revDigits (fuel + 1) n ≠ [] := by
  simp only [revDigits]; split <;> simp

theorem renderNat_digits (n : Nat) : ∀ c ∈ renderNat n, isDigit c = true := by
  intro c hc
  exact revDigits_digits (n + 1) n c (by simpa [renderNat] using hc)

theorem renderNat_ne_nil (n : Nat) : renderNat n ≠ [] := by
  simp [renderNat, revDigits_ne_nil]

theorem okDigits_all {t : Text} (h : ∀ c ∈ t, isDigit c = true) : ∀ b, okDigits b t = (b || !t.isEmpty) := by
  induction t with
  | nil => intro b; simp [okDigits]
  | cons c cs ih =>
    intro b
    have hc := h c (by simp)
    simp [okDigits, hc, ih (fun d hd => h d (by simp [hd])) true]

theorem filter_us_digits {t : Text} (h : ∀ c ∈ t, isDigit c = true) : t.filter (fun c => c != '_') = t := by
  apply List.filter_eq_self.mpr
  intro c hc
  simpa using (digit_ne_special (h c hc)).1

theorem natBody_renderNat (n : Nat) : natBody (renderNat n) = some n := by
  have hd := renderNat_digits n
  have hne := renderNat_ne_nil n
  unfold natBody
  rw [okDigits_all hd, filter_us_digits hd]
  have : (renderNat n).isEmpty = false := by
    cases h : renderNat n with
    | nil => exact absurd h hne
    | cons _ _ => rfl
  rw [this]
  simp [renderNat, valueRev_revDigits (n + 1) n (by omega)]

theorem renderInt_no_numSpace (n : Int) : ∀ c ∈ renderInt n, isNumSpace c = false := by
  intro c hc
  cases n with
  | ofNat k => exact digit_not_numSpace (renderNat_digits k c hc)
  | negSucc k =>
    simp only [renderInt, List.mem_cons] at hc
    rcases hc with h | h
    · subst h; decide
    · exact digit_not_numSpace (renderNat_digits _ c h)

theorem pyInt_render {ws1 ws2 : Text} (h1 : AllP isNumSpace ws1) (h2 : AllP isNumSpace ws2) (n : Int) :
    pyInt (ws1 ++ renderInt n ++ ws2) = some n := by
  unfold pyInt
  rw [stripBy_pad h1 h2 (trimmed_of_none (renderInt_no_numSpace n))]
  cases n with
  | ofNat k =>
    simp only [renderInt]
    cases hr : renderNat k with
    | nil => exact absurd hr (renderNat_ne_nil k)
    | cons c r =>
      have hc : isDigit c = true := renderNat_digits k c (by simp [hr])
      obtain ⟨_, h2, h3⟩ := digit_ne_special hc
      simp only [h2, h3, if_false]
      rw [← hr, natBody_renderNat]; rfl
  | negSucc k =>
    simp only [renderInt, if_true, natBody_renderNat, Option.map]
    rfl

/-! ### enum members -/

theorem hasValue_of_mem {ms : List (Text × Int)} {n : Text} {v : Int} (h : (n, v) ∈ ms) : hasValue v ms = true := by
  induction ms with
  | nil => cases h
  | cons m ms ih =>
    obtain ⟨n', v'⟩ := m
    simp only [List.mem_cons, Prod.mk.injEq] at h
    rcases h with ⟨_, h⟩ | h
    · simp [hasValue, h]
    · simp [hasValue, ih h]

theorem memberByName_of_mem {ms : List (Text × Int)} {n : Text} {v : Int} (hnd : (ms.map (·.1)).Nodup)
    (h : (n, v) ∈ ms) : memberByName n ms = some v := by
  induction ms with
  | nil => cases h
  | cons m ms ih =>
    obtain ⟨n', v'⟩ := m
    simp only [List.map_cons, List.nodup_cons, List.mem_map] at hnd
    simp only [List.mem_cons, Prod.mk.injEq] at h
    rcases h with ⟨h1, h2⟩ | h
    · simp [memberByName, h1, h2]
    · have : n' ≠ n := fun e => hnd.1 ⟨(n, v), h, by simp [e]⟩
      simp [memberByName, this, ih hnd.2 h]

/-! ### mappings -/

theorem dictOf_pairs : ∀ (ps : List (Text × Text)) (acc : List (Text × Text)),
    dictOf acc (ps.map fun kv => [kv.1, kv.2]) = .ok (.dict (ps.foldl (fun acc kv => dictSet kv.1 kv.2 acc) acc))
  | [], acc => rfl
  | (k, v) :: ps, acc => by simpa [dictOf] using dictOf_pairs ps (dictSet k v acc)

theorem dictOf_bad : ∀ (l : List (List Text)) (acc : List (Text × Text)), (∃ p ∈ l, p.length ≠ 2) →
    dictOf acc l = .error .valueError
  | [], _, h => by obtain ⟨p, hp, _⟩ := h; cases hp
  | p :: rest, acc, h => by
    match p, h with
    | [], _ => rfl
    | [_], _ => rfl
    | _ :: _ :: _ :: _, _ => rfl
    | [k, v], h =>
      simp only [dictOf]
      apply dictOf_bad rest
      obtain ⟨q, hq, hl⟩ := h
      simp only [List.mem_cons] at hq
      rcases hq with hq | hq
      · subst hq; simp at hl
      · exact ⟨q, hq, hl⟩

theorem dictSet_fresh {k v : Text} : ∀ {acc : List (Text × Text)}, k ∉ acc.map (·.1) → dictSet k v acc = acc ++ [(k, v)]
  | [], _ => rfl
  | (k', v') :: acc, h => by
    simp only [List.map_cons, List.mem_cons, not_or] at h
    have : k' ≠ k := fun e => h.1 e.symm
    simp [dictSet, this, dictSet_fresh h.2]

/-- distinct keys: `dict(pairs)` lists the pairs as given -/
theorem foldl_dictSet_nodup : ∀ (ps acc : List (Text × Text)), ((acc ++ ps).map (·.1)).Nodup →
    ps.foldl (fun acc kv => dictSet kv.1 kv.2 acc) acc = acc ++ ps
  | [], acc, _ => by simp
  | (k, v) :: ps, acc, h => by
    have hk : k ∉ acc.map (·.1) := by
      intro hm
      simp only [List.map_append, List.map_cons] at h
      have := (List.nodup_append.mp h).2.2 k hm k (by simp)
      exact this rfl
    simp only [List.foldl_cons, dictSet_fresh hk]
    have := foldl_dictSet_nodup ps (acc ++ [(k, v)]) (by simpa using h)
    simpa using this

/-! ### one step and whole histories: the explicit slots -/

/-- the most recent write if there is one, else the old content -/
def pick {α : Type} (w : Option (Option α)) (old : Option α) : Option α :=
  match w with
  | some w => w
  | none => old

instance : DecidableEq (Except Err V) := fun a b =>
  match a, b with
  | .ok x, .ok y => if h : x = y then isTrue (by rw [h]) else isFalse (by intro e; cases e; exact h rfl)
  | .error x, .error y => if h : x = y then isTrue (by rw [h]) else isFalse (by intro e; cases e; exact h rfl)
  | .ok _, .error _ => isFalse (by intro e; cases e)
  | .error _, .ok _ => isFalse (by intro e; cases e)

theorem find?_key_of_mem {β : Type} : ∀ (d : List (Text × β)), (d.map (·.1)).Nodup → ∀ {e : Text × β}, e ∈ d →
    ∀ (p : Text → Bool), (∀ n, p n = true ↔ n = e.1) → d.find? (fun x => p x.1) = some e
  | [], _, _, he, _, _ => by cases he
  | x :: rest, hnd, e, he, p, hp => by
    simp only [List.map_cons, List.nodup_cons] at hnd
    rcases List.mem_cons.mp he with rfl | hm
    · simp [(hp e.1).mpr rfl]
    · have hne : p x.1 = false := by
        cases h : p x.1 with
        | false => rfl
        | true => exact absurd (List.mem_map_of_mem (f := (·.1)) hm) ((hp x.1).mp h ▸ hnd.1)
      simp only [List.find?_cons, hne]
      exact find?_key_of_mem rest hnd.2 hm p hp

/-- the attribute holding the explicit value of `n`: `"_" + n` - what `__get__` reads, `__set__` writes and `__delete__`
removes according to the generated description -/
def slotOf (n : Text) : Text := '_' :: n

@[simp] theorem getSlot_src (n : Text) : src.getSlot ++ n = slotOf n := rfl
@[simp] theorem setSlot_src (n : Text) : src.setSlot ++ n = slotOf n := rfl
@[simp] theorem delSlot_src (n : Text) : src.delSlot ++ n = slotOf n := rfl
@[simp] theorem slotKey_src (c : Nat) (n : Text) : slotKey src c n = (c, slotOf n) := rfl

theorem slotOf_inj {a b : Text} (h : slotOf a = slotOf b) : a = b := by simpa [slotOf] using h

/-- the value the loop of `update` leaves in slot `k` (most recent entry wins; the loop stops at the first unknown name) -/
def updWrite (D : List CV) (c : Nat) (k : Key) : List (Text × V) → Option V
  | [] => none
  | (n, v) :: rest =>
    if known D c n then
      match updWrite D c k rest with
      | some w => some w
      | none => if (c, slotOf n) = k then some v else none
    else none

theorem updateLoop_explicit (D : List CV) (c : Nat) (k : Key) : ∀ (d : List (Text × V)) (e : Key → Option V),
    (updateLoop src D c d e).1 k = match updWrite D c k d with | some w => some w | none => e k
  | [], e => rfl
  | (n, v) :: rest, e => by
    simp only [updateLoop, updWrite]
    by_cases hk : known D c n = true
    · simp only [hk, if_true]
      rw [updateLoop_explicit D c k rest]
      cases updWrite D c k rest with
      | some w => rfl
      | none =>
        by_cases he : (c, slotOf n) = k
        · simp [cvSet, setKey, he]
        · have : k ≠ (c, slotOf n) := fun e => he e.symm
          simp [cvSet, setKey, he, this]
    · simp only [hk]
      have : src.updateRaises = true := rfl
      simp [this]

/-- what one operation writes into the explicit slot `k`: `none` = does not touch it, `some none` = leaves it absent -/
def writeOf (D : List CV) (k : Key) : Op → Option (Option V)
  | .assign c n v => if (c, slotOf n) = k ∧ known D c n = true then some (some v) else none
  | .delete c n => if (c, slotOf n) = k then some none else none
  | .update c d => (updWrite D c k d).map some
  | _ => none

theorem step_explicit (D : List CV) (s : State) (op : Op) (k : Key) :
    (step src D s op).1.explicit k = pick (writeOf D k op) (s.explicit k) := by
  unfold pick
  cases op with
  | assign c n v =>
    simp only [step, writeOf]
    by_cases hk : known D c n = true
    · by_cases he : (c, slotOf n) = k
      · simp [hk, he, cvSet, setKey]
      · have : k ≠ (c, slotOf n) := fun e => he e.symm
        simp [hk, he, cvSet, setKey, this]
    · simp [hk]
  | delete c n =>
    simp only [step, writeOf, cvDelete, delSlot_src]
    by_cases he : (c, slotOf n) = k
    · subst he
      cases hx : s.explicit (c, slotOf n) <;> simp [setKey, hx]
    · have : k ≠ (c, slotOf n) := fun e => he e.symm
      cases hx : s.explicit (c, slotOf n) <;> simp [he, setKey, this]
  | setenv x t => simp [step, writeOf]
  | unsetenv x => simp [step, writeOf]
  | update c d =>
    simp only [step, writeOf]
    rw [updateLoop_explicit]
    cases updWrite D c k d <;> rfl

/-- most recent write to slot `k`; the argument lists the history NEWEST FIRST -/
def lastWrite (D : List CV) (k : Key) : List Op → Option (Option V)
  | [] => none
  | op :: older => match writeOf D k op with
    | some w => some w
    | none => lastWrite D k older

theorem explicit_run_rev (D : List CV) (k : Key) : ∀ (r : List Op) (s : State),
    (run src D s r.reverse).explicit k = pick (lastWrite D k r) (s.explicit k)
  | [], s => rfl
  | op :: older, s => by
    simp only [run, List.reverse_cons, List.foldl_append, List.foldl_cons, List.foldl_nil, lastWrite]
    rw [step_explicit]
    cases writeOf D k op with
    | some w => rfl
    | none => exact explicit_run_rev D k older s

theorem explicit_run (D : List CV) (k : Key) (h : List Op) (s : State) :
    (run src D s h).explicit k = pick (lastWrite D k h.reverse) (s.explicit k) := by
  simpa using explicit_run_rev D k h.reverse s

/-! ### … and the environment -/

def envWriteOf (x : Text) : Op → Option (Option Text)
  | .setenv y t => if y = x then some (some t) else none
  | .unsetenv y => if y = x then some none else none
  | _ => none

theorem step_env (D : List CV) (s : State) (op : Op) (x : Text) :
    (step src D s op).1.env x = pick (envWriteOf x op) (s.env x) := by
  unfold pick
  cases op with
  | assign c n v => simp only [step, envWriteOf]; split <;> rfl
  | delete c n =>
    simp only [step, envWriteOf, cvDelete]
  | setenv y t =>
    simp only [step, envWriteOf, setVar]
    by_cases he : y = x
    · simp [he]
    · have : x ≠ y := fun e => he e.symm
      simp [he, this]
  | unsetenv y =>
    simp only [step, envWriteOf, setVar]
    by_cases he : y = x
    · simp [he]
    · have : x ≠ y := fun e => he e.symm
      simp [he, this]
  | update c d => simp [step, envWriteOf]

def lastEnvWrite (x : Text) : List Op → Option (Option Text)
  | [] => none
  | op :: older => match envWriteOf x op with
    | some w => some w
    | none => lastEnvWrite x older

theorem env_run_rev (D : List CV) (x : Text) : ∀ (r : List Op) (s : State),
    (run src D s r.reverse).env x = pick (lastEnvWrite x r) (s.env x)
  | [], s => rfl
  | op :: older, s => by
    simp only [run, List.reverse_cons, List.foldl_append, List.foldl_cons, List.foldl_nil, lastEnvWrite]
    rw [step_env]
    cases envWriteOf x op with
    | some w => rfl
    | none => exact env_run_rev D x older s

theorem env_run (D : List CV) (x : Text) (h : List Op) (s : State) :
    (run src D s h).env x = pick (lastEnvWrite x h.reverse) (s.env x) := by
  simpa using env_run_rev D x h.reverse s

/-! ### which branch of `parse` a declared value takes (source order and tests of the generated description) -/

theorem parse_custom (P : Parsers) (cv : CV) (t : Text) {i : Nat} (hp : cv.parser = some i) :
    parse src P cv t = P i t := by
  simp [parse, src, Gen.C20.parseTests, parseBranches, Ty.passes, hp, runBranch]

theorem parse_bool (P : Parsers) (cv : CV) (t : Text) (hty : cv.ty = .bool) (hp : cv.parser = none) :
    parse src P cv t = parseBool src.boolElse t src.boolTests := by
  simp [parse, src, Gen.C20.parseTests, parseBranches, Ty.passes, Ty.exact, hp, hty, runBranch]

theorem parse_str (P : Parsers) (cv : CV) (t : Text) (hty : cv.ty = .str) (hp : cv.parser = none) :
    parse src P cv t = .ok (.str t) := by
  simp [parse, src, Gen.C20.parseTests, parseBranches, Ty.passes, Ty.exact, hp, hty, runBranch]

theorem parse_path (P : Parsers) (cv : CV) (t : Text) (hty : cv.ty = .path) (hp : cv.parser = none) :
    parse src P cv t = .ok (.path t) := by
  simp [parse, src, Gen.C20.parseTests, parseBranches, Ty.passes, Ty.exact, Ty.supers, hp, hty, construct, constructRoot,
    Ty.root, Ty.wrap, Except.map]

/-- every enum class, whatever data type it mixes in, takes the enum branch -/
theorem parse_enum (P : Parsers) (cv : CV) (t : Text) {mix : Mix} {ms : List (Text × Int)} (hty : cv.ty = .enum mix ms)
    (hp : cv.parser = none) : parse src P cv t = enumChain mix ms t src.enumLookups := by
  cases mix <;> simp [parse, src, Gen.C20.parseTests, parseBranches, Ty.passes, Ty.exact, Ty.supers, hp, hty, runBranch]

theorem parse_dict (P : Parsers) (cv : CV) (t : Text) (hty : cv.ty = .dict) (hp : cv.parser = none) :
    parse src P cv t = dictOf [] ((split src.mapSep t).map fun p =>
      (split src.mapKvSep (applyOps src.mapPairNorm p)).map (applyOps src.mapPartNorm)) := by
  simp only [parse, src, Gen.C20.parseTests, parseBranches, Ty.passes, Ty.exact, Ty.supers, hp, hty, runBranch, Ty.root]
  simp only [Option.isSome_none, List.contains_cons, List.contains_nil]
  simp [Except.map]
  cases dictOf [] _ <;> rfl

theorem parse_list (P : Parsers) (cv : CV) (t : Text) (hty : cv.ty = .list) (hp : cv.parser = none) :
    parse src P cv t = .ok (.list ((split src.listSep t).map (applyOps src.listItemNorm))) := by
  simp [parse, src, Gen.C20.parseTests, parseBranches, Ty.passes, Ty.exact, Ty.supers, hp, hty, runBranch, itemsRoot, Ty.root,
    Ty.wrap, Except.map]

theorem parse_tuple (P : Parsers) (cv : CV) (t : Text) (hty : cv.ty = .tuple) (hp : cv.parser = none) :
    parse src P cv t = .ok (.tuple ((split src.listSep t).map (applyOps src.listItemNorm))) := by
  simp [parse, src, Gen.C20.parseTests, parseBranches, Ty.passes, Ty.exact, Ty.supers, hp, hty, runBranch, itemsRoot, Ty.root,
    Ty.wrap, Except.map]

theorem parse_int (P : Parsers) (cv : CV) (t : Text) (hty : cv.ty = .int) (hp : cv.parser = none) :
    parse src P cv t = match pyInt t with | some n => .ok (.int n) | none => .error .valueError := by
  simp only [parse, src, Gen.C20.parseTests, parseBranches, Ty.passes, Ty.exact, Ty.supers, hp, hty, construct, constructRoot,
    Ty.root]
  cases pyInt t <;> simp [Except.map, Ty.wrap]

theorem parse_other (P : Parsers) (cv : CV) (t : Text) {k : Nat} (hty : cv.ty = .other k) (hp : cv.parser = none) :
    parse src P cv t = .ok (.sym k t) := by
  simp [parse, src, Gen.C20.parseTests, parseBranches, Ty.passes, Ty.exact, Ty.supers, hp, hty, construct, constructRoot,
    Ty.root, Ty.wrap, Except.map]

/-! ### the type lattice: well-formed types, what their subclasses inherit -/

/-- classes python lets one derive from (in the model): everything but `bool` (final), enum classes with members (final)
and the `NamedTuple` classes -/
def Ty.subclassable : Ty → Bool
  | .bool => false
  | .enum _ _ => false
  | .ntuple _ => false
  | _ => true

/-- well-formed types: `sub` only over subclassable well-formed types -/
def Ty.wf : Ty → Bool
  | .sub _ b => b.subclassable && b.wf
  | _ => true

/-- the built-in types a chain of user-defined subclasses can start from -/
def Ty.isBase : Ty → Bool
  | .path | .str | .int | .dict | .list | .tuple | .other _ => true
  | _ => false

theorem root_of_subclassable : ∀ (b : Ty), b.subclassable = true → b.wf = true →
    b.root.isBase = true ∧ b.supers = b.root.supers ∧ b.root.root = b.root
  | .bool, h, _ => by cases h
  | .enum _ _, h, _ => by cases h
  | .ntuple _, h, _ => by cases h
  | .path, _, _ => by decide
  | .str, _, _ => by decide
  | .int, _, _ => by decide
  | .dict, _, _ => by decide
  | .list, _, _ => by decide
  | .tuple, _, _ => by decide
  | .other _, _, _ => ⟨rfl, rfl, rfl⟩
  | .sub _ b, _, hw => by
    simp only [Ty.wf, Bool.and_eq_true] at hw
    exact root_of_subclassable b hw.1 hw.2

/-- the `if` cascade of `parse` for a type that IS no dispatch class (`exact = none`): only the subclass tests count -/
theorem parseBranches_src_of_supers (P : Parsers) (cv : CV) (t : Text) (hp : cv.parser = none) (he : cv.ty.exact = none) :
    parse src P cv t =
      if cv.ty.supers.contains .enum then runBranch src P cv t ⟨.enum, .subclass, .std⟩
      else if cv.ty.supers.contains .str then runBranch src P cv t ⟨.str, .subclass, .selfType⟩
      else if cv.ty.supers.contains .mapping then runBranch src P cv t ⟨.mapping, .subclass, .std⟩
      else if cv.ty.supers.contains .iterable then runBranch src P cv t ⟨.iterable, .subclass, .std⟩
      else construct cv.ty t := by
  simp only [parse, src, Gen.C20.parseTests, parseBranches, Ty.passes, hp, he, Option.isSome_none]
  simp

/-! ### stripping a text with a non-blank character in the middle (`key = value`) -/

def rstripBy (p : Char → Bool) (t : Text) : Text := (lstripBy p t.reverse).reverse

theorem stripBy_eq (p : Char → Bool) (t : Text) : stripBy p t = rstripBy p (lstripBy p t) := rfl

theorem lstripBy_append_stop {p : Char → Bool} {m : Char} (hm : p m = false) (a b : Text) :
    lstripBy p (a ++ m :: b) = lstripBy p a ++ m :: b := by
  induction a with
  | nil => simp [lstripBy, hm]
  | cons c cs ih =>
    cases hc : p c with
    | true => simpa [lstripBy, hc] using ih
    | false => simp [lstripBy, hc]

theorem stripBy_mid {p : Char → Bool} {m : Char} (hm : p m = false) (a b : Text) :
    stripBy p (a ++ m :: b) = lstripBy p a ++ m :: rstripBy p b := by
  unfold stripBy rstripBy
  rw [lstripBy_append_stop hm, List.reverse_append, List.reverse_cons, List.append_assoc, List.singleton_append,
    lstripBy_append_stop hm]
  simp

theorem mem_lstripBy {p : Char → Bool} {t : Text} {c : Char} (h : c ∈ lstripBy p t) : c ∈ t :=
  (List.dropWhile_sublist p).subset h

theorem mem_rstripBy {p : Char → Bool} {t : Text} {c : Char} (h : c ∈ rstripBy p t) : c ∈ t := by
  have := mem_lstripBy (p := p) (t := t.reverse) (c := c) (by simpa [rstripBy] using h)
  simpa using this

theorem lstripBy_idem (p : Char → Bool) (t : Text) : lstripBy p (lstripBy p t) = lstripBy p t := by
  induction t with
  | nil => rfl
  | cons c cs ih =>
    cases hc : p c with
    | true => simpa [lstripBy, hc] using ih
    | false => simp [lstripBy, hc]

theorem stripBy_lstripBy (p : Char → Bool) (t : Text) : stripBy p (lstripBy p t) = stripBy p t := by
  unfold stripBy; rw [lstripBy_idem]

/-- stripping what `rstrip` leaves of a padded core gives the core -/
theorem stripBy_rstripBy_pad {p : Char → Bool} {ws1 ws2 core : Text} (h1 : AllP p ws1) (h2 : AllP p ws2)
    (hc : Trimmed p core) : stripBy p (rstripBy p (ws1 ++ core ++ ws2)) = core := by
  unfold rstripBy
  have h2' : AllP p ws2.reverse := fun d hd => h2 d (by simpa using hd)
  have h1' : AllP p ws1.reverse := fun d hd => h1 d (by simpa using hd)
  rw [List.reverse_append, List.reverse_append, lstripBy_all h2']
  cases hr : core.reverse with
  | nil =>
    have : core = [] := by simpa using hr
    subst this
    rw [List.nil_append, lstripBy_all_nil h1']; rfl
  | cons c r =>
    have hpc : p c = false := head_of_lstripBy_self (by rw [← hr]; exact hc.2)
    rw [List.cons_append, lstripBy_cons_not hpc, ← List.cons_append, ← hr, ← List.reverse_append, List.reverse_reverse]
    have := stripBy_pad (ws2 := []) h1 (by intro d hd; cases hd) hc
    simpa using this

/-! ### texts that are no integer -/

theorem okDigits_chars : ∀ (t : Text) (b : Bool), okDigits b t = true → ∀ c ∈ t, isDigit c = true ∨ c = '_'
  | [], _, _, c, hc => by cases hc
  | d :: ds, b, h, c, hc => by
    simp only [okDigits] at h
    by_cases hd : isDigit d = true
    · simp only [hd, if_true] at h
      rcases List.mem_cons.mp hc with e | e
      · left; rw [e]; exact hd
      · exact okDigits_chars ds true h c e
    · simp only [hd] at h
      by_cases hu : (d = '_' && b) = true
      · simp only [hu, if_true] at h
        rcases List.mem_cons.mp hc with e | e
        · right; rw [e]; simp at hu; exact hu.1
        · exact okDigits_chars ds false h c e
      · simp [hu] at h

theorem natBody_none {body : Text} {c : Char} (hc : c ∈ body) (hd : isDigit c = false) (hu : c ≠ '_') :
    natBody body = none := by
  unfold natBody
  cases h : okDigits false body with
  | false => simp
  | true =>
    rcases okDigits_chars body false h c hc with e | e
    · rw [hd] at e; cases e
    · exact absurd e hu

/-- a text containing (after removing surrounding blanks) anything but digits, `_`, `+`, `-` is no integer -/
theorem pyInt_none_of_bad_char {t : Text} {c : Char} (hc : c ∈ stripBy isNumSpace t) (hd : isDigit c = false)
    (h1 : c ≠ '_') (h2 : c ≠ '-') (h3 : c ≠ '+') : pyInt t = none := by
  unfold pyInt
  cases hs : stripBy isNumSpace t with
  | nil => rfl
  | cons c0 body =>
    rw [hs] at hc
    simp only
    by_cases e1 : c0 = '-'
    · have : c ∈ body := by
        rcases List.mem_cons.mp hc with e | e
        · exact absurd (e.trans e1) h2
        · exact e
      simp [e1, natBody_none this hd h1]
    · by_cases e2 : c0 = '+'
      · have : c ∈ body := by
          rcases List.mem_cons.mp hc with e | e
          · exact absurd (e.trans e2) h3
          · exact e
        simp [e2, natBody_none this hd h1]
      · simp [e1, e2, natBody_none hc hd h1]

/-! ### vocabulary of the parsing theorems of `PyrollProps/C20.lean` -/

/-- the attempt by number of the enum branch fails for this text (not an integer, or no member has that value) -/
def NumberMiss (ms : List (Text × Int)) (t : Text) : Prop := ∀ n, pyInt t = some n → hasValue n ms = false

theorem enumAttempt_number_miss {mix : Mix} {ms : List (Text × Int)} {t : Text} (hf : ∀ k, mix ≠ .flag k)
    (h : NumberMiss ms t) : enumAttempt mix ms t .byNumber = .error .valueError := by
  simp only [enumAttempt]
  cases hp : pyInt t with
  | none => rfl
  | some n =>
    simp only [h n hp, Bool.and_false]
    cases mix with
    | flag k => exact absurd rfl (hf k)
    | _ => rfl

/-- for an enum whose members are texts (`str` mix-in) the attempt by number always fails -/
theorem enumAttempt_number_str {ms : List (Text × Int)} {t : Text} :
    enumAttempt .str ms t .byNumber = .error .valueError := by
  simp only [enumAttempt, Mix.byNumber, Bool.false_and]
  cases pyInt t <;> rfl

/-- the attempt by number fails for this text, by kind of enum: members that are texts (`str` mix-in) have no numbers; an
`IntFlag` accepts every number (so the text must be no number at all); otherwise no member has that value -/
def NumberMissFor (mix : Mix) (ms : List (Text × Int)) (t : Text) : Prop :=
  match mix with
  | .str => True
  | .flag _ => pyInt t = none
  | _ => NumberMiss ms t

theorem enumAttempt_number_missFor {mix : Mix} {ms : List (Text × Int)} {t : Text} (h : NumberMissFor mix ms t) :
    enumAttempt mix ms t .byNumber = .error .valueError := by
  cases mix with
  | str => exact enumAttempt_number_str
  | flag k =>
    have h : pyInt t = none := h
    simp [enumAttempt, h]
  | plain => exact enumAttempt_number_miss (by intro k hk; cases hk) h
  | int => exact enumAttempt_number_miss (by intro k hk; cases hk) h

/-- a text with blanks around a trimmed, separator-free core -/
structure Padded where
  pre : Text
  core : Text
  post : Text

def Padded.text (x : Padded) : Text := x.pre ++ x.core ++ x.post

/-- blanks are blanks, the core has none at its ends and contains none of the characters `bad` -/
def Padded.Ok (bad : List Char) (x : Padded) : Prop :=
  AllP isSpace x.pre ∧ AllP isSpace x.post ∧ Trimmed isSpace x.core ∧ ∀ c ∈ bad, c ∉ x.core

theorem Padded.strip_text {bad : List Char} {x : Padded} (h : x.Ok bad) : strip x.text = x.core :=
  stripBy_pad h.1 h.2.1 h.2.2.1

theorem Padded.not_mem_text {bad : List Char} {x : Padded} (h : x.Ok bad) {c : Char} (hc : c ∈ bad)
    (hs : isSpace c = false) : c ∉ x.text := by
  intro hm
  simp only [Padded.text, List.mem_append] at hm
  rcases hm with (hm | hm) | hm
  · have := h.1 c hm; rw [hs] at this; cases this
  · exact h.2.2.2 c hc hm
  · have := h.2.1 c hm; rw [hs] at this; cases this

/-! ### the `config` decorator: name selection -/

/-- python's `str.isupper()` read as a statement: some upper-case cased character, no lower-case one -/
def UpperName (n : Text) : Prop := (∃ c ∈ n, c ∈ casedUppers) ∧ (∀ c ∈ n, c ∉ casedLowers)
/-- "upper-case public name" of the property text / the decorator's docstring -/
def PublicUpper (n : Text) : Prop := UpperName n ∧ n.head? ≠ some '_'

theorem pyIsUpper_iff (n : Text) : pyIsUpper n = true ↔ UpperName n := by
  simp [pyIsUpper, UpperName, List.any_eq_true]

theorem startsWith_us (n : Text) : startsWith ['_'] n = true ↔ n.head? = some '_' := by
  cases n with
  | nil => simp [startsWith]
  | cons b bs =>
    simp only [startsWith, Bool.and_true, beq_iff_eq, List.head?_cons, Option.some.injEq]
    exact eq_comm

theorem startsWith_us_false (n : Text) : startsWith ['_'] n = false ↔ n.head? ≠ some '_' := by
  rw [ne_eq, ← startsWith_us]; simp

theorem isConfigName_iff (n : Text) : isConfigName src n = true ↔ PublicUpper n := by
  simp [isConfigName, src, Gen.C20.nameTests, nameTest, pyIsUpper_iff, PublicUpper, startsWith_us_false]

/-- the prefix a descriptor ends up with: the one given, else the module path of the owner (upper case, dots as underscores) -/
def prefixOr (pre m : Text) : Text := if pre ≠ [] then pre else modulePrefix m

theorem applyOps_modulePrefixNorm (m : Text) : applyOps src.modulePrefixNorm m = modulePrefix m := rfl

theorem declare_src (a : InitArgs) (c : Nat) (n m : Text) :
    declare src a c n m = ⟨c, n, a.default, a.ty, a.parser, a.envVar, prefixOr a.envPrefix m, m⟩ := by
  simp [declare, setName, init, src, Gen.C20.initStores, Gen.C20.setNameStores, Gen.C20.prefixFallback, prefixOr,
    Gen.C20.modulePrefixNorm, applyOps, applyOp, modulePrefix]

theorem decorate1_some {c : Nat} {pre m : Text} {a : Attr} (h : isConfigName src a.name = true) :
    decorate1 src c pre m a = some ⟨c, a.name, a.default, a.ty, a.parser, a.envOverride, prefixOr pre m, m⟩ := by
  unfold decorate1
  rw [if_pos h, declare_src]
  simp [src, Gen.C20.wrappedKeeps]

theorem decorate1_none {c : Nat} {pre m : Text} {a : Attr} (h : isConfigName src a.name = false) :
    decorate1 src c pre m a = none := by
  simp [decorate1, h]

theorem not_lower_of_upperName {n : Text} (h : UpperName n) : ∀ c ∈ n, c ∉ lowers :=
  fun c hc hl => h.2 c hc (List.mem_append_left _ hl)

end Config
