import PyrollProofs.FailureLemmas

/-!
# Reference semantics and transparency of remembering — helper lemmas for the twin theorem of `PyrollProps/C07.lean`

`pev` evaluates a task without cache and without re-entrancy marks: a function of `__dict__` alone.
`sim`: for programs that never branch on `cycle`, in a state whose cache is coherent with that reference semantics,
the real evaluation (`eval`, with cache and marks) of any task that stays below the recursion limit yields the
reference result and leaves a coherent state — whatever the outcome (value or any exception).
-/

-- every unfolding of `eval` names the lemmas about the generated source tables, whether the goal has that case or not
set_option linter.unusedSimpArgs false

namespace Failure

/-- no branch on the `cycle` argument anywhere in the body -/
def Body.cycleFree : Body → Bool
  | .read _ _ k => k.cycleFree
  | .ifCycle _ _ => false
  | .ifHas _ _ a b => a.cycleFree && b.cycleFree
  | _ => true

def Task.cycleFree : Task → Bool
  | .body _ _ _ _ b => b.cycleFree
  | _ => true

/-- Reference semantics: what a task evaluates to when nothing is remembered and nothing is marked — a function of
`__dict__` alone.  Second component: the recursion limit was reached somewhere. -/
def pev (P : Prog) (d : Nat → Nat → Option Val) : Nat → Task → Res × Bool
  | 0, _ => (.exc .recursionError, true)
  | n + 1, .read i h =>
    match present (d i h) with
    | some v => (.val v, false)
    | none => ((post (pev P d n (.chain i h (P.chain h))).1), (pev P d n (.chain i h (P.chain h))).2)
  | _ + 1, .chain _ _ [] => (.val .none, false)
  | n + 1, .chain i h (f :: fs) =>
    match pev P d n (.body f i false 0 (P.body f)) with
    | (.exc .stopIteration, b) => ((pev P d n (.chain i h fs)).1, b || (pev P d n (.chain i h fs)).2)
    | (.exc e, b) => (.exc e, b)
    | (.val .none, b) => ((pev P d n (.chain i h fs)).1, b || (pev P d n (.chain i h fs)).2)
    | (.val v, b) => (.val v, b)
  | n + 1, .body f i cyc acc b =>
    match b with
    | .ret v => (.val v, false)
    | .retAcc c => (.val (.int (acc + c)), false)
    | .raise e => (.exc e, false)
    | .read r h k =>
      match pev P d n (.read (resolve i r) h) with
      | (.val v, b1) => ((pev P d n (.body f i cyc (acc + v.intOf) k)).1, b1 || (pev P d n (.body f i cyc (acc + v.intOf) k)).2)
      | (.exc e, b1) => (.exc e, b1)
    | .ifCycle a b' => if cyc then pev P d n (.body f i cyc acc a) else pev P d n (.body f i cyc acc b')
    | .ifHas r h a b' =>
      match pev P d n (.read (resolve i r) h) with
      | (.val _, b1) => ((pev P d n (.body f i cyc acc a)).1, b1 || (pev P d n (.body f i cyc acc a)).2)
      | (.exc .attributeError, b1) => ((pev P d n (.body f i cyc acc b')).1, b1 || (pev P d n (.body f i cyc acc b')).2)
      | (.exc e, b1) => (.exc e, b1)


theorem pev_read (P : Prog) (d : Nat → Nat → Option Val) (n i h : Nat) :
    pev P d (n + 1) (.read i h) = match present (d i h) with
      | some v => (.val v, false)
      | none => ((post (pev P d n (.chain i h (P.chain h))).1), (pev P d n (.chain i h (P.chain h))).2) := by
  simp only [pev]

theorem pev_chain_cons (P : Prog) (d : Nat → Nat → Option Val) (n i h f : Nat) (fs : List Nat) :
    pev P d (n + 1) (.chain i h (f :: fs)) = match pev P d n (.body f i false 0 (P.body f)) with
      | (.exc .stopIteration, b) => ((pev P d n (.chain i h fs)).1, b || (pev P d n (.chain i h fs)).2)
      | (.exc e, b) => (.exc e, b)
      | (.val .none, b) => ((pev P d n (.chain i h fs)).1, b || (pev P d n (.chain i h fs)).2)
      | (.val v, b) => (.val v, b) := by
  simp only [pev]

theorem pev_body_read (P : Prog) (d : Nat → Nat → Option Val) (n f i : Nat) (cyc : Bool) (acc : Int) (r : Option Nat)
    (h : Nat) (k : Body) :
    pev P d (n + 1) (.body f i cyc acc (.read r h k)) = match pev P d n (.read (resolve i r) h) with
      | (.val v, b1) => ((pev P d n (.body f i cyc (acc + v.intOf) k)).1, b1 || (pev P d n (.body f i cyc (acc + v.intOf) k)).2)
      | (.exc e, b1) => (.exc e, b1) := by
  simp only [pev]

theorem pev_body_has (P : Prog) (d : Nat → Nat → Option Val) (n f i : Nat) (cyc : Bool) (acc : Int) (r : Option Nat)
    (h : Nat) (a b' : Body) :
    pev P d (n + 1) (.body f i cyc acc (.ifHas r h a b')) = match pev P d n (.read (resolve i r) h) with
      | (.val _, b1) => ((pev P d n (.body f i cyc acc a)).1, b1 || (pev P d n (.body f i cyc acc a)).2)
      | (.exc .attributeError, b1) => ((pev P d n (.body f i cyc acc b')).1, b1 || (pev P d n (.body f i cyc acc b')).2)
      | (.exc e, b1) => (.exc e, b1) := by
  simp only [pev]

theorem pev_body_cyc (P : Prog) (d : Nat → Nat → Option Val) (n f i : Nat) (cyc : Bool) (acc : Int) (a b' : Body) :
    pev P d (n + 1) (.body f i cyc acc (.ifCycle a b')) =
      if cyc then pev P d n (.body f i cyc acc a) else pev P d n (.body f i cyc acc b') := by
  simp only [pev]

/-- below the limit, more fuel changes nothing -/
theorem pev_mono (P : Prog) (d : Nat → Nat → Option Val) : ∀ n task r, pev P d n task = (r, false) →
    pev P d (n + 1) task = (r, false) := by
  intro n
  induction n with
  | zero => intro task r h; simp [pev] at h
  | succ n ih =>
    intro task r hp
    cases task with
    | read i h =>
      rw [pev_read] at hp ⊢
      split
      · next v hv => simp only [hv] at hp; exact hp
      · next hv =>
        simp only [hv] at hp
        generalize hq : pev P d n (.chain i h (P.chain h)) = q at hp
        obtain ⟨r0, b0⟩ := q
        simp only [Prod.mk.injEq] at hp
        obtain ⟨h1, h2⟩ := hp; subst h2
        rw [ih _ _ hq]; simp [h1]
    | chain i h fs =>
      cases fs with
      | nil => simp only [pev] at hp ⊢; exact hp
      | cons f fs =>
        rw [pev_chain_cons] at hp ⊢
        generalize hq : pev P d n (.body f i false 0 (P.body f)) = q at hp
        obtain ⟨r0, b0⟩ := q
        have hb0 : b0 = false := by
          split at hp <;> simp only [Prod.mk.injEq, Bool.or_eq_false_iff] at hp <;> simp_all
        subst hb0
        rw [ih _ _ hq]
        split at hp
        · next heq =>
          cases heq; simp only [Prod.mk.injEq, Bool.false_or] at hp ⊢
          rw [ih _ _ (Prod.ext hp.1 hp.2)]; exact ⟨rfl, rfl⟩
        · next hne heq => cases heq; exact hp
        · next heq =>
          cases heq; simp only [Prod.mk.injEq, Bool.false_or] at hp ⊢
          rw [ih _ _ (Prod.ext hp.1 hp.2)]; exact ⟨rfl, rfl⟩
        · next hne heq => cases heq; exact hp
    | body f i cyc acc b =>
      cases b with
      | ret v => simp only [pev] at hp ⊢; exact hp
      | retAcc c => simp only [pev] at hp ⊢; exact hp
      | raise e => simp only [pev] at hp ⊢; exact hp
      | read r h k =>
        rw [pev_body_read] at hp ⊢
        generalize hq : pev P d n (.read (resolve i r) h) = q at hp
        obtain ⟨r0, b0⟩ := q
        have hb0 : b0 = false := by
          split at hp <;> simp only [Prod.mk.injEq, Bool.or_eq_false_iff] at hp <;> simp_all
        subst hb0
        rw [ih _ _ hq]
        split at hp
        · next heq =>
          cases heq; simp only [Prod.mk.injEq, Bool.false_or] at hp ⊢
          rw [ih _ _ (Prod.ext hp.1 hp.2)]; exact ⟨rfl, rfl⟩
        · next heq => cases heq; exact hp
      | ifCycle x y =>
        rw [pev_body_cyc] at hp ⊢
        split at hp
        · next hc => rw [if_pos hc]; exact ih _ _ hp
        · next hc => rw [if_neg hc]; exact ih _ _ hp
      | ifHas r h x y =>
        rw [pev_body_has] at hp ⊢
        generalize hq : pev P d n (.read (resolve i r) h) = q at hp
        obtain ⟨r0, b0⟩ := q
        have hb0 : b0 = false := by
          split at hp <;> simp only [Prod.mk.injEq, Bool.or_eq_false_iff] at hp <;> simp_all
        subst hb0
        rw [ih _ _ hq]
        split at hp
        · next heq =>
          cases heq; simp only [Prod.mk.injEq, Bool.false_or] at hp ⊢
          rw [ih _ _ (Prod.ext hp.1 hp.2)]; exact ⟨rfl, rfl⟩
        · next heq =>
          cases heq; simp only [Prod.mk.injEq, Bool.false_or] at hp ⊢
          rw [ih _ _ (Prod.ext hp.1 hp.2)]; exact ⟨rfl, rfl⟩
        · next hne heq => cases heq; exact hp

theorem pev_le (P : Prog) (d : Nat → Nat → Option Val) (n : Nat) (task : Task) (r : Res)
    (h : pev P d n task = (r, false)) : ∀ m, n ≤ m → pev P d m task = (r, false) := by
  intro m hm
  induction m with
  | zero => have : n = 0 := by omega
            subst this; exact h
  | succ m ih =>
    by_cases hn : n = m + 1
    · subst hn; exact h
    · exact pev_mono P d m task r (ih (by omega))

/-- below the limit the reference result does not depend on the fuel -/
theorem pev_det (P : Prog) (d : Nat → Nat → Option Val) (n m : Nat) (task : Task) (r r' : Res)
    (h : pev P d n task = (r, false)) (h' : pev P d m task = (r', false)) : r = r' := by
  have h1 := pev_le P d n task r h (max n m) (Nat.le_max_left n m)
  have h2 := pev_le P d m task r' h' (max n m) (Nat.le_max_right n m)
  rw [h1] at h2; cases h2; rfl

/-- a body that never branches on `cycle` evaluates the same whatever `cycle` is -/
theorem pev_cyc (P : Prog) (d : Nat → Nat → Option Val) : ∀ n f i c1 c2 acc b, b.cycleFree = true →
    pev P d n (.body f i c1 acc b) = pev P d n (.body f i c2 acc b) := by
  intro n
  induction n with
  | zero => intros; simp [pev]
  | succ n ih =>
    intro f i c1 c2 acc b hb
    cases b with
    | ret v => simp only [pev]
    | retAcc c => simp only [pev]
    | raise e => simp only [pev]
    | read r h k =>
      have hk : k.cycleFree = true := by simpa [Body.cycleFree] using hb
      rw [pev_body_read, pev_body_read]
      split
      · rw [ih f i c1 c2 _ k hk]
      · rfl
    | ifCycle x y => simp [Body.cycleFree] at hb
    | ifHas r h x y =>
      have hk : x.cycleFree = true ∧ y.cycleFree = true := by simpa [Body.cycleFree] using hb
      rw [pev_body_has, pev_body_has]
      split
      · rw [ih f i c1 c2 _ x hk.1]
      · rw [ih f i c1 c2 _ y hk.2]
      · rfl

/-- the cache `c` is coherent with the reference semantics over `__dict__ = d`: every remembered value that can be
consulted is what the reference evaluation of that hook yields (at any fuel at which it stays below the limit) -/
def CohD (P : Prog) (d c : Nat → Nat → Option Val) : Prop :=
  ∀ i h v, present (d i h) = none → present (c i h) = some v →
    ∀ n r, pev P d n (.read i h) = (r, false) → r = .val v

/-- the empty cache is coherent -/
theorem init_coherent (P : Prog) : CohD P init.dict init.cache := by
  intro i h v _ h2; simp [init, present] at h2

theorem sim (P : Prog) (hP : ∀ f, (P.body f).cycleFree = true) (d : Nat → Nat → Option Val) :
    ∀ n st task r, task.cycleFree = true → st.dict = d → CohD P d st.cache → pev P d n task = (r, false) →
    (eval P n st task).1 = r ∧ CohD P d (eval P n st task).2.cache := by
  intro n
  induction n with
  | zero => intro st task r _ _ _ hp; simp [pev] at hp
  | succ n ih =>
    intro st task r hcf hd hcoh hp
    cases task with
    | read i h =>
      have hp0 := hp
      rw [pev_read] at hp
      simp only [eval, unmark_gen, stored_gen, errTask_gen, finish]
      cases hdv : present (st.dict i h) with
      | some v =>
        rw [hd] at hdv; simp only [hdv, Prod.mk.injEq] at hp
        exact ⟨hp.1, hcoh⟩
      | none =>
        rw [hd] at hdv; simp only [hdv, Prod.mk.injEq] at hp
        obtain ⟨hp1, hp2⟩ := hp
        cases hcv : present (st.cache i h) with
        | some v' =>
          simp only
          exact ⟨(hcoh i h v' hdv hcv (n + 1) r hp0).symm, hcoh⟩
        | none =>
          simp only
          have hi := ih (st.enter i h) (.chain i h (P.chain h)) _ rfl hd hcoh (Prod.ext rfl hp2)
          have hf := frame_eval P n (st.enter i h) (.chain i h (P.chain h))
          generalize eval P n (st.enter i h) (.chain i h (P.chain h)) = res at hi hf
          obtain ⟨r1, st1⟩ := res
          simp only at hi hf ⊢
          obtain ⟨hr1, hc1⟩ := hi
          rw [hr1, hp1]
          refine ⟨rfl, ?_⟩
          cases hpr : r with
          | exc e => simpa [store, St.setReading] using hc1
          | val v =>
            intro i' k v' h1 h2 n' r' h3
            by_cases hik : i' = i ∧ k = h
            · obtain ⟨e1, e2⟩ := hik; subst e1; subst e2
              have hvn : v ≠ .none := (post_val (hpr ▸ hp1)).2.1
              have hpv : present (some v) = some v := by cases v <;> simp_all [present]
              have : v' = v := by
                have h2' : present (some v) = some v' := by simpa [store, St.setCache] using h2
                rw [hpv] at h2'; cases h2'; rfl
              subst this
              rw [hpr] at hp0
              exact (pev_det P d _ _ _ _ _ hp0 h3).symm
            · have h2' : present (st1.cache i' k) = some v' := by
                simpa [store, St.setCache, St.setReading, hik] using h2
              exact hc1 i' k v' h1 h2' n' r' h3
    | chain i h fs =>
      cases fs with
      | nil =>
        simp only [pev, Prod.mk.injEq] at hp
        simp only [eval, unmark_gen, stored_gen, errTask_gen, finish]
        exact ⟨hp.1, hcoh⟩
      | cons f fs =>
        rw [pev_chain_cons, pev_cyc P d n f i false (st.marks f i) 0 (P.body f) (hP f)] at hp
        simp only [eval, unmark_gen, stored_gen, errTask_gen, finish]
        generalize hq : pev P d n (.body f i (st.marks f i) 0 (P.body f)) = q at hp
        obtain ⟨r0, b0⟩ := q
        have hb0 : b0 = false := by
          split at hp <;> simp only [Prod.mk.injEq, Bool.or_eq_false_iff] at hp <;> simp_all
        subst hb0
        have hi := ih (st.setMark f i true) (.body f i (st.marks f i) 0 (P.body f)) r0 (hP f) hd hcoh hq
        have hf := frame_eval P n (st.setMark f i true) (.body f i (st.marks f i) 0 (P.body f))
        generalize eval P n (st.setMark f i true) (.body f i (st.marks f i) 0 (P.body f)) = res at hi hf
        obtain ⟨r1, st1⟩ := res
        simp only at hi hf ⊢
        obtain ⟨hr1, hc1⟩ := hi
        subst hr1
        have hst2 : ∀ st2 : St, st2 = (if st.marks f i = true then st1 else st1.setMark f i false) →
            st2.dict = d ∧ CohD P d st2.cache := by
          intro st2 h2; subst h2
          have hd1 : st1.dict = d := by rw [hf.dict]; exact hd
          split
          · exact ⟨hd1, hc1⟩
          · exact ⟨hd1, hc1⟩
        generalize (if st.marks f i = true then st1 else st1.setMark f i false) = st2 at hst2
        obtain ⟨hd2, hc2⟩ := hst2 st2 rfl
        split at hp
        · next heq =>
          cases heq; simp only [Prod.mk.injEq, Bool.false_or] at hp
          exact ih st2 (.chain i h fs) r rfl hd2 hc2 (Prod.ext hp.1 hp.2)
        · next hne heq =>
          cases heq; simp only [Prod.mk.injEq] at hp
          split
          · next heq' => cases heq'; exact absurd rfl hne
          · next heq' => cases heq'; exact ⟨hp.1, hc2⟩
          · next heq' => cases heq'
          · next heq' => cases heq'
        · next heq =>
          cases heq; simp only [Prod.mk.injEq, Bool.false_or] at hp
          exact ih st2 (.chain i h fs) r rfl hd2 hc2 (Prod.ext hp.1 hp.2)
        · next hne heq =>
          cases heq; simp only [Prod.mk.injEq] at hp
          split
          · next heq' => cases heq'
          · next heq' => cases heq'
          · next heq' => cases heq'; exact absurd rfl hne
          · next heq' => cases heq'; exact ⟨hp.1, hc2⟩
    | body f i cyc acc b =>
      cases b with
      | ret v => simp only [pev, Prod.mk.injEq] at hp; simp only [eval, unmark_gen, stored_gen, errTask_gen, finish]; exact ⟨hp.1, hcoh⟩
      | retAcc c => simp only [pev, Prod.mk.injEq] at hp; simp only [eval, unmark_gen, stored_gen, errTask_gen, finish]; exact ⟨hp.1, hcoh⟩
      | raise e => simp only [pev, Prod.mk.injEq] at hp; simp only [eval, unmark_gen, stored_gen, errTask_gen, finish]; exact ⟨hp.1, hcoh⟩
      | read rr h k =>
        have hk : k.cycleFree = true := by simpa [Task.cycleFree, Body.cycleFree] using hcf
        rw [pev_body_read] at hp
        simp only [eval, unmark_gen, stored_gen, errTask_gen, finish]
        generalize hq : pev P d n (.read (resolve i rr) h) = q at hp
        obtain ⟨r0, b0⟩ := q
        have hb0 : b0 = false := by
          split at hp <;> simp only [Prod.mk.injEq, Bool.or_eq_false_iff] at hp <;> simp_all
        subst hb0
        have hi := ih st (.read (resolve i rr) h) r0 rfl hd hcoh hq
        have hf := frame_eval P n st (.read (resolve i rr) h)
        generalize eval P n st (.read (resolve i rr) h) = res at hi hf
        obtain ⟨r1, st1⟩ := res
        simp only at hi hf ⊢
        obtain ⟨hr1, hc1⟩ := hi
        subst hr1
        have hd1 : st1.dict = d := by rw [hf.dict]; exact hd
        split at hp
        · next heq =>
          cases heq; simp only [Prod.mk.injEq, Bool.false_or] at hp
          exact ih st1 _ r hk hd1 hc1 (Prod.ext hp.1 hp.2)
        · next heq =>
          cases heq; simp only [Prod.mk.injEq] at hp
          exact ⟨hp.1, hc1⟩
      | ifCycle x y => simp [Task.cycleFree, Body.cycleFree] at hcf
      | ifHas rr h x y =>
        have hk : x.cycleFree = true ∧ y.cycleFree = true := by simpa [Task.cycleFree, Body.cycleFree] using hcf
        rw [pev_body_has] at hp
        simp only [eval, unmark_gen, stored_gen, errTask_gen, finish]
        generalize hq : pev P d n (.read (resolve i rr) h) = q at hp
        obtain ⟨r0, b0⟩ := q
        have hb0 : b0 = false := by
          split at hp <;> simp only [Prod.mk.injEq, Bool.or_eq_false_iff] at hp <;> simp_all
        subst hb0
        have hi := ih st (.read (resolve i rr) h) r0 rfl hd hcoh hq
        have hf := frame_eval P n st (.read (resolve i rr) h)
        generalize eval P n st (.read (resolve i rr) h) = res at hi hf
        obtain ⟨r1, st1⟩ := res
        simp only at hi hf ⊢
        obtain ⟨hr1, hc1⟩ := hi
        subst hr1
        have hd1 : st1.dict = d := by rw [hf.dict]; exact hd
        split at hp
        · next heq =>
          cases heq; simp only [Prod.mk.injEq, Bool.false_or] at hp
          exact ih st1 _ r hk.1 hd1 hc1 (Prod.ext hp.1 hp.2)
        · next heq =>
          cases heq; simp only [Prod.mk.injEq, Bool.false_or] at hp
          exact ih st1 _ r hk.2 hd1 hc1 (Prod.ext hp.1 hp.2)
        · next hne heq =>
          cases heq; simp only [Prod.mk.injEq] at hp
          split
          · next heq' => cases heq'
          · next heq' => cases heq'; exact absurd rfl hne
          · next heq' => cases heq'; exact ⟨hp.1, hc1⟩

/-- operations that only ask: reads, `has_value`, and forgetting all remembered values -/
def Op.isQuery : Op → Bool
  | .read _ _ | .has _ _ | .clear => true
  | _ => false

/-- what an operation answers according to the reference semantics -/
def refOut (P : Prog) (d : Nat → Nat → Option Val) (fuel : Nat) : Op → Out
  | .read i h => .res (pev P d fuel (.read i h)).1
  | .has i h =>
    match (pev P d fuel (.read i h)).1 with
    | .val _ => .bool true
    | .exc .attributeError => .bool false
    | .exc e => .res (.exc e)
  | _ => .ok

/-- the reference evaluation of the read an operation makes stays below the recursion limit -/
def refOk (P : Prog) (d : Nat → Nat → Option Val) (fuel : Nat) : Op → Prop
  | .read i h | .has i h => (pev P d fuel (.read i h)).2 = false
  | _ => True

instance (P : Prog) (d : Nat → Nat → Option Val) (fuel : Nat) (op : Op) : Decidable (refOk P d fuel op) := by
  cases op <;> simp only [refOk] <;> infer_instance

/-- the reference evaluation of every read of the history stays below the recursion limit -/
def RefBelowLimit (P : Prog) (d : Nat → Nat → Option Val) (fuel : Nat) (ops : List Op) : Prop :=
  ∀ op ∈ ops, refOk P d fuel op

instance (P : Prog) (d : Nat → Nat → Option Val) (fuel : Nat) (ops : List Op) :
    Decidable (RefBelowLimit P d fuel ops) := by
  unfold RefBelowLimit; infer_instance

theorem coherent_step (P : Prog) (hP : ∀ f, (P.body f).cycleFree = true) (d : Nat → Nat → Option Val) (fuel : Nat)
    (st : St) (op : Op) (hq : op.isQuery = true) (hd : st.dict = d) (hc : CohD P d st.cache)
    (hl : RefBelowLimit P d fuel [op]) :
    (step P fuel st op).1 = refOut P d fuel op ∧ (step P fuel st op).2.dict = d ∧
    CohD P d (step P fuel st op).2.cache := by
  cases op with
  | read i h =>
    have hl' : (pev P d fuel (.read i h)).2 = false := hl _ (List.mem_singleton.mpr rfl)
    simp only [step, readHook, refOut]
    generalize hpe : pev P d fuel (.read i h) = q at hl'
    obtain ⟨rp, bp⟩ := q
    simp only at hl'; subst hl'
    obtain ⟨h1, h2⟩ := sim P hP d fuel st (.read i h) rp rfl hd hc hpe
    exact ⟨by rw [h1], by rw [(frame_eval P fuel st _).dict]; exact hd, h2⟩
  | has i h =>
    have hl' : (pev P d fuel (.read i h)).2 = false := hl _ (List.mem_singleton.mpr rfl)
    simp only [step, readHook, refOut]
    generalize hpe : pev P d fuel (.read i h) = q at hl'
    obtain ⟨rp, bp⟩ := q
    simp only at hl'; subst hl'
    obtain ⟨h1, h2⟩ := sim P hP d fuel st (.read i h) rp rfl hd hc hpe
    have hf := (frame_eval P fuel st (.read i h)).dict
    generalize eval P fuel st (.read i h) = res at h1 h2 hf
    obtain ⟨r1, st1⟩ := res
    simp only at h1 h2 hf
    subst h1
    cases r1 with
    | val v => exact ⟨rfl, hf.trans hd, h2⟩
    | exc e => cases e <;> exact ⟨rfl, hf.trans hd, h2⟩
  | clear =>
    refine ⟨rfl, hd, ?_⟩
    intro i h v _ h2; simp [step, St.clearCaches, present] at h2
  | set i h v => simp [Op.isQuery] at hq
  | del i h => simp [Op.isQuery] at hq

/-- In a coherent state the answers of a history of questions are a function of `__dict__` alone. -/
theorem coherent_run (P : Prog) (hP : ∀ f, (P.body f).cycleFree = true) (d : Nat → Nat → Option Val) (fuel : Nat)
    (ops : List Op) : ∀ (st : St), (∀ op ∈ ops, op.isQuery = true) → st.dict = d → CohD P d st.cache →
    RefBelowLimit P d fuel ops → (run P fuel st ops).1 = ops.map (refOut P d fuel) := by
  induction ops with
  | nil => intros; rfl
  | cons op ops ih =>
    intro st hq hd hc hl
    obtain ⟨h1, h2, h3⟩ := coherent_step P hP d fuel st op (hq op (List.mem_cons_self ..)) hd hc
      (fun o ho => hl o (by rw [List.mem_singleton.mp ho]; exact List.mem_cons_self ..))
    simp only [run, List.map_cons]
    rw [h1, ih _ (fun o ho => hq o (List.mem_cons_of_mem _ ho)) h2 h3 (fun o ho => hl o (List.mem_cons_of_mem _ ho))]

end Failure
