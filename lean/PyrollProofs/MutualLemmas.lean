import PyrollModel.Mutual
import PyrollProofs.RealNum

/-!
Helper lemmas for C16 (`PyrollProps/C16.lean`): fuel monotonicity of the hook interpreter and the passage from the
kernel-evaluated Boolean check `checkAll` (every world × every subset × every read order) to quantified statements.
-/

namespace Mutual

/-! ### more fuel never changes a run that finished -/

theorem exec_final (w : World) (n : Nat) (m : M) (h : m.final = true) : exec w n m = some m := by
  cases n <;> simp [exec, h]

theorem exec_mono (w : World) (n k : Nat) (m r : M) (h : exec w n m = some r) : exec w (n + k) m = some r := by
  induction n generalizing m with
  | zero =>
    simp only [exec] at h
    split at h
    · rename_i hf
      have hm : m = r := Option.some.inj h
      subst hm
      simpa using exec_final w k m hf
    · cases h
  | succ n ih =>
    have e : n + 1 + k = (n + k) + 1 := by omega
    rw [e]
    simp only [exec] at h ⊢
    split
    · rename_i hf; simpa [hf] using h
    · rename_i hf
      simp only [hf] at h
      exact ih _ (by simpa using h)

theorem read1_mono (w : World) (n k : Nat) (o : Obj) (x : String)
    (h : (read1 w n o x).1.res ≠ .err .fuel) : read1 w (n + k) o x = read1 w n o x := by
  unfold read1 at h ⊢
  cases he : exec w n { ctl := .read x, stack := [], obj := o, steps := 0, maxDepth := 0 } with
  | none => simp [he] at h
  | some m => simp [exec_mono w n k _ m he]

theorem readAll_mono (w : World) (n k : Nat) (o : Obj) (xs : List String)
    (h : ∀ r ∈ (readAll w n o xs).1, r.res ≠ .err .fuel) : readAll w (n + k) o xs = readAll w n o xs := by
  induction xs generalizing o with
  | nil => simp [readAll]
  | cons x rest ih =>
    simp only [readAll] at h ⊢
    have h1 : (read1 w n o x).1.res ≠ .err .fuel := h _ (by simp)
    rw [read1_mono w n k o x h1]
    have h2 : ∀ r ∈ (readAll w n (read1 w n o x).2 rest).1, r.res ≠ .err .fuel := by
      intro r hr; exact h r (by simp [hr])
    rw [ih _ h2]

/-! ### from the Boolean check to quantified statements -/

theorem checkAll_sound {s : Spec} {fuel : Nat} {ws : List GW} (h : checkAll s fuel ws = true) :
    ∀ g ∈ ws, ∀ sup ∈ sublists s.members, ∀ ord ∈ perms s.members, okRun s fuel g sup ord = true := by
  intro g hg sup hs ord ho
  simp only [checkAll, List.all_eq_true] at h
  exact h g hg sup hs ord ho

theorem okRun_reads {s : Spec} {fuel : Nat} {g : GW} {sup ord : List String} (h : okRun s fuel g sup ord = true) :
    ∀ r ∈ (scenario g.world fuel (g.base ++ sup) ord).1, okRead s g sup r = true := by
  intro r hr
  simp only [okRun, Bool.and_eq_true, List.all_eq_true] at h
  exact h.1.1 r hr

theorem okRun_marks {s : Spec} {fuel : Nat} {g : GW} {sup ord : List String} (h : okRun s fuel g sup ord = true) :
    (scenario g.world fuel (g.base ++ sup) ord).2.active = [] := by
  simp only [okRun, Bool.and_eq_true, List.isEmpty_iff] at h
  exact h.1.2

theorem okRead_no_fuel {s : Spec} {g : GW} {sup : List String} {r : Read} (h : okRead s g sup r = true) :
    r.res ≠ .err .fuel := by
  intro hf
  simp [okRead, hf] at h

/-- a finished, checked run is the same for every larger fuel -/
theorem scenario_fuel_irrelevant {s : Spec} {fuel : Nat} {g : GW} {sup ord : List String}
    (h : okRun s fuel g sup ord = true) (k : Nat) :
    scenario g.world (fuel + k) (g.base ++ sup) ord = scenario g.world fuel (g.base ++ sup) ord := by
  unfold scenario
  apply readAll_mono
  intro r hr
  exact okRead_no_fuel (okRun_reads h r hr)

theorem lookup_mem {β : Type} {n : String} {l : List (String × β)} {v : β} (h : lookup n l = some v) :
    (n, v) ∈ l := by
  induction l with
  | nil => simp [lookup] at h
  | cons p rest ih =>
    obtain ⟨k, x⟩ := p
    simp only [lookup] at h
    split at h
    · rename_i hk; cases h; simp [hk]
    · exact List.mem_cons_of_mem _ (ih h)

theorem mem_formsOf {s : Spec} {sup : List String} {m : String} {e : Expr} (h : e ∈ s.formsOf sup m) :
    ∃ l, (m, l) ∈ s.forms sup ∧ e ∈ l := by
  unfold Spec.formsOf at h
  cases hl : lookup m (s.forms sup) with
  | none => simp [hl] at h
  | some l => exact ⟨l, lookup_mem hl, by simpa [hl] using h⟩

/-- what a checked read tells: bounded; a value of an admitted form exactly when the member is derivable (a supplied
    member reads back as itself); AttributeError exactly when it is not derivable; nothing else -/
theorem okRead_cases {s : Spec} {g : GW} {sup : List String} {r : Read} (h : okRead s g sup r = true) :
    r.steps ≤ s.maxSteps ∧ r.depth ≤ s.maxDepth ∧
    ((derivable s g sup r.name = true ∧ ∃ e, r.res = .val e ∧ e ∈ s.formsOf sup r.name ∧
        (r.name ∈ sup → e = .var r.name)) ∨
     (derivable s g sup r.name = false ∧ r.res = .err .attr)) := by
  unfold okRead at h
  simp only [Bool.and_eq_true, decide_eq_true_eq] at h
  obtain ⟨⟨h1, h2⟩, h3⟩ := h
  refine ⟨h1, h2, ?_⟩
  cases hr : r.res with
  | val e =>
    simp only [hr, Bool.and_eq_true, Bool.or_eq_true, Bool.not_eq_true', beq_iff_eq, List.contains_eq_mem,
      decide_eq_true_eq, decide_eq_false_iff_not] at h3
    left
    refine ⟨h3.1.1, e, rfl, h3.1.2, ?_⟩
    intro hm
    rcases h3.2 with hn | he
    · exact absurd hm hn
    · exact he
  | none => simp [hr] at h3
  | err x =>
    cases x <;> simp [hr] at h3
    right
    exact ⟨h3, rfl⟩

/-! ### what is supplied is derivable -/

theorem closeStep_subset (rules : List (String × List String)) (k : List String) (x : String) (h : x ∈ k) :
    x ∈ closeStep rules k := by
  unfold closeStep
  induction rules generalizing k with
  | nil => simpa using h
  | cons r rs ih =>
    simp only [List.foldl_cons]
    apply ih
    split
    · exact List.mem_cons_of_mem _ h
    · exact h

theorem closure_subset (rules : List (String × List String)) (n : Nat) (k : List String) (x : String) (h : x ∈ k) :
    x ∈ closure rules n k := by
  induction n generalizing k with
  | zero => simpa [closure] using h
  | succ n ih => simp only [closure]; exact ih _ (closeStep_subset rules k x h)

theorem derivable_of_supplied (s : Spec) (g : GW) (sup : List String) (m : String) (h : m ∈ sup) :
    derivable s g sup m = true := by
  unfold derivable
  simp only [List.contains_eq_mem, decide_eq_true_eq]
  apply closure_subset
  simp [h]

/-! ### the two statements every group theorem of `PyrollProps/C16.lean` instantiates -/

/-- **Consistency of a group** (`s`: members, documented directions, admitted forms; `ws`: the worlds; `ρ`: an assignment
of reals to the members and external quantities; `adm sup`: the hypotheses on `ρ` for the supplied set `sup`).
For EVERY world, EVERY subset `sup` of supplied members, EVERY read order `ord` of all members on a fresh instance and
every fuel ≥ `fuel0`, every read `r`:
* a supplied member reads back as itself,
* a member that follows from what is supplied reads a value `e` with `eval ρ e = ρ member` — THE value of the
  consistent assignment, whatever the order and whichever members were supplied,
* any other member fails with AttributeError. -/
def GroupConsistent (s : Spec) (fuel0 : Nat) (ws : List GW) (ρ : String → ℝ) (adm : List String → Prop) : Prop :=
  ∀ g ∈ ws, ∀ sup ∈ sublists s.members, adm sup → ∀ ord ∈ perms s.members, ∀ fuel, fuel0 ≤ fuel →
    ∀ r ∈ (scenario g.world fuel (g.base ++ sup) ord).1,
      (r.name ∈ sup → r.res = .val (.var r.name)) ∧
      (derivable s g sup r.name = true → ∃ e, r.res = .val e ∧ Expr.eval ρ e = ρ r.name) ∧
      (derivable s g sup r.name = false → r.res = .err .attr)

theorem groupConsistent_of {s : Spec} {fuel0 : Nat} {ws : List GW} {ρ : String → ℝ} {adm : List String → Prop}
    (hctl : checkAll s fuel0 ws = true)
    (hforms : ∀ sup ∈ sublists s.members, adm sup → ∀ p ∈ s.forms sup, ∀ e ∈ p.2, Expr.eval ρ e = ρ p.1) :
    GroupConsistent s fuel0 ws ρ adm := by
  intro g hg sup hs ha ord ho fuel hf r hr
  have hrun := checkAll_sound hctl g hg sup hs ord ho
  obtain ⟨k, rfl⟩ := Nat.exists_eq_add_of_le hf
  rw [scenario_fuel_irrelevant hrun k] at hr
  obtain ⟨_, _, hc⟩ := okRead_cases (okRun_reads hrun r hr)
  rcases hc with ⟨hd, e, he, hmem, hsup⟩ | ⟨hd, he⟩
  · refine ⟨fun hm => by rw [he, hsup hm], fun _ => ⟨e, he, ?_⟩, ?_⟩
    · obtain ⟨l, hl, hel⟩ := mem_formsOf hmem
      exact hforms sup hs ha (r.name, l) hl e hel
    · intro h; rw [hd] at h; cases h
  · refine ⟨fun hm => ?_, ?_, fun _ => he⟩
    · rw [derivable_of_supplied s g sup r.name hm] at hd
      cases hd
    · intro h; rw [hd] at h; cases h

/-- **Too little supplied ⇒ AttributeError in bounded time**: for every world, subset, order and every fuel ≥ `fuel0`
each read finishes within `N` machine steps and `D` stack frames (never out of fuel = no hang / RecursionError), a
member that does not follow from what is supplied fails with AttributeError, and no re-entrancy mark is left. -/
def InsufficientBounded (s : Spec) (fuel0 : Nat) (ws : List GW) (N D : Nat) : Prop :=
  ∀ g ∈ ws, ∀ sup ∈ sublists s.members, ∀ ord ∈ perms s.members, ∀ fuel, fuel0 ≤ fuel →
    (∀ r ∈ (scenario g.world fuel (g.base ++ sup) ord).1,
      r.steps ≤ N ∧ r.depth ≤ D ∧ r.res ≠ .err .fuel ∧
      (derivable s g sup r.name = false → r.res = .err .attr)) ∧
    (scenario g.world fuel (g.base ++ sup) ord).2.active = []

theorem insufficientBounded_of {s : Spec} {fuel0 : Nat} {ws : List GW} {N D : Nat}
    (hctl : checkAll s fuel0 ws = true) (hN : s.maxSteps ≤ N) (hD : s.maxDepth ≤ D) :
    InsufficientBounded s fuel0 ws N D := by
  intro g hg sup hs ord ho fuel hf
  have hrun := checkAll_sound hctl g hg sup hs ord ho
  obtain ⟨k, rfl⟩ := Nat.exists_eq_add_of_le hf
  rw [scenario_fuel_irrelevant hrun k]
  refine ⟨fun r hr => ?_, okRun_marks hrun⟩
  have hok := okRun_reads hrun r hr
  obtain ⟨h1, h2, hc⟩ := okRead_cases hok
  refine ⟨le_trans h1 hN, le_trans h2 hD, okRead_no_fuel hok, fun hd => ?_⟩
  rcases hc with ⟨hd', _⟩ | ⟨_, he⟩
  · rw [hd] at hd'; cases hd'
  · exact he

/-! ### a hook given as `None` is not supplied -/

/-- For every world, every hook `h` of `hs` given explicitly as `None` (in `__dict__`, holding `None`), every subset of the
other members supplied, every read order and every fuel ≥ `fuel0`: the reads give exactly the results (symbolic values,
error kinds) of the object that does not mention `h` at all; none runs out of fuel; no mark is left. -/
def NoneIsAbsent (members : List String) (fuel0 : Nat) (ws : List GW) (hs : List String) : Prop :=
  ∀ g ∈ ws, ∀ h ∈ hs, ∀ sup ∈ sublists (members.filter (· ≠ h)), ∀ ord ∈ perms members, ∀ fuel, fuel0 ≤ fuel →
    (scenarioN g.world fuel (g.base ++ sup) [h] ord).1.map (·.res)
        = (scenario g.world fuel (g.base ++ sup) ord).1.map (·.res) ∧
    (∀ r ∈ (scenarioN g.world fuel (g.base ++ sup) [h] ord).1, r.res ≠ .err .fuel) ∧
    (scenarioN g.world fuel (g.base ++ sup) [h] ord).2.active = []

theorem noneIsAbsent_of {members : List String} {fuel0 : Nat} {ws : List GW} {hs : List String}
    (hc : checkNone members fuel0 ws hs = true) : NoneIsAbsent members fuel0 ws hs := by
  intro g hg h hh sup hsup ord ho fuel hf
  simp only [checkNone, List.all_eq_true] at hc
  have hrun := hc g hg h hh sup hsup ord ho
  simp only [sameRun, Bool.and_eq_true, List.all_eq_true, beq_iff_eq, bne_iff_ne, ne_eq, List.isEmpty_iff] at hrun
  obtain ⟨⟨⟨⟨he, ha⟩, hb⟩, hact⟩, _⟩ := hrun
  obtain ⟨k, rfl⟩ := Nat.exists_eq_add_of_le hf
  have ea : scenarioN g.world (fuel0 + k) (g.base ++ sup) [h] ord = scenarioN g.world fuel0 (g.base ++ sup) [h] ord := by
    unfold scenarioN
    exact readAll_mono _ _ _ _ _ (fun r hr => ha r hr)
  have eb : scenario g.world (fuel0 + k) (g.base ++ sup) ord = scenario g.world fuel0 (g.base ++ sup) ord := by
    unfold scenario
    exact readAll_mono _ _ _ _ _ (fun r hr => hb r hr)
  rw [ea, eb]
  exact ⟨he, ha, hact⟩

end Mutual
