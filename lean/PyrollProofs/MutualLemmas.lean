import PyrollModel.Mutual
import PyrollProofs.RealNum

/-!
Helper lemmas for C16 (`PyrollProps/C16.lean`): fuel monotonicity of the hook interpreter and the passage from the
kernel-evaluated Boolean check `checkAll` (every world × every subset × every read order) to quantified statements.
-/

namespace Mutual

/-! ### more fuel never changes a run that finished -/

theorem exec_final (w : World) (n : Nat) (m : M) (h : m.final = true) : exec w n m = some m := by
  cases n <;> simp [exec, h]

theorem exec_mono (w : World) (n k : Nat) (m r : M) (h : exec w n m = some r) : exec w (n + k) m = some r := by
  induction n generalizing m with
  | zero =>
    simp only [exec] at h
    split at h
    · rename_i hf
      have hm : m = r := Option.some.inj h
      subst hm
      simpa using exec_final w k m hf
    · cases h
  | succ n ih =>
    have e : n + 1 + k = (n + k) + 1 := by omega
    rw [e]
    simp only [exec] at h ⊢
    split
    · rename_i hf; simpa [hf] using h
    · rename_i hf
      simp only [hf] at h
      exact ih _ (by simpa using h)

theorem read1_mono (w : World) (n k : Nat) (o : Obj) (x : String)
    (h : (read1 w n o x).1.res ≠ .err .fuel) : read1 w (n + k) o x = read1 w n o x := by
  unfold read1 at h ⊢
  cases he : exec w n { ctl := .read x, stack := [], obj := o, steps := 0, maxDepth := 0 } with
  | none => simp [he] at h
  | some m => simp [exec_mono w n k _ m he]

theorem readAll_mono (w : World) (n k : Nat) (o : Obj) (xs : List String)
    (h : ∀ r ∈ (readAll w n o xs).1, r.res ≠ .err .fuel) : readAll w (n + k) o xs = readAll w n o xs := by
  induction xs generalizing o with
  | nil => simp [readAll]
  | cons x rest ih =>
    simp only [readAll] at h ⊢
    have h1 : (read1 w n o x).1.res ≠ .err .fuel := h _ (by simp)
    rw [read1_mono w n k o x h1]
    have h2 : ∀ r ∈ (readAll w n (read1 w n o x).2 rest).1, r.res ≠ .err .fuel := by
      intro r hr; exact h r (by simp [hr])
    rw [ih _ h2]

/-! ### from the Boolean check to quantified statements -/

theorem checkAll_sound {s : Spec} {fuel : Nat} {ws : List GW} (h : checkAll s fuel ws = true) :
    ∀ g ∈ ws, ∀ sup ∈ sublists s.members, ∀ ord ∈ perms s.members, okRun s fuel g sup ord = true := by
  intro g hg sup hs ord ho
  simp only [checkAll, List.all_eq_true] at h
  exact h g hg sup hs ord ho

theorem okRun_reads {s : Spec} {fuel : Nat} {g : GW} {sup ord : List String} (h : okRun s fuel g sup ord = true) :
    ∀ r ∈ (scenario g.world fuel (g.base ++ sup) ord).1, okRead s g sup r = true := by
  intro r hr
  simp only [okRun, Bool.and_eq_true, List.all_eq_true] at h
  exact h.1.1 r hr

theorem okRun_marks {s : Spec} {fuel : Nat} {g : GW} {sup ord : List String} (h : okRun s fuel g sup ord = true) :
    (scenario g.world fuel (g.base ++ sup) ord).2.active = [] := by
  simp only [okRun, Bool.and_eq_true, List.isEmpty_iff] at h
  exact h.1.2

theorem okRead_no_fuel {s : Spec} {g : GW} {sup : List String} {r : Read} (h : okRead s g sup r = true) :
    r.res ≠ .err .fuel := by
  intro hf
  simp [okRead, hf] at h

/-- a finished, checked run is the same for every larger fuel -/
theorem scenario_fuel_irrelevant {s : Spec} {fuel : Nat} {g : GW} {sup ord : List String}
    (h : okRun s fuel g sup ord = true) (k : Nat) :
    scenario g.world (fuel + k) (g.base ++ sup) ord = scenario g.world fuel (g.base ++ sup) ord := by
  unfold scenario
  apply readAll_mono
  intro r hr
  exact okRead_no_fuel (okRun_reads h r hr)

theorem lookup_mem {β : Type} {n : String} {l : List (String × β)} {v : β} (h : lookup n l = some v) :
    (n, v) ∈ l := by
  induction l with
  | nil => simp [lookup] at h
  | cons p rest ih =>
    obtain ⟨k, x⟩ := p
    simp only [lookup] at h
    split at h
    · rename_i hk; cases h; simp [hk]
    · exact List.mem_cons_of_mem _ (ih h)

theorem mem_formsOf {s : Spec} {sup : List String} {m : String} {e : Expr} (h : e ∈ s.formsOf sup m) :
    ∃ l, (m, l) ∈ s.forms sup ∧ e ∈ l := by
  unfold Spec.formsOf at h
  cases hl : lookup m (s.forms sup) with
  | none => simp [hl] at h
  | some l => exact ⟨l, lookup_mem hl, by simpa [hl] using h⟩

/-- what a checked read tells: bounded; a value of an admitted form exactly when the member is derivable (a supplied
    member reads back as itself); AttributeError exactly when it is not derivable; nothing else -/
theorem okRead_cases {s : Spec} {g : GW} {sup : List String} {r : Read} (h : okRead s g sup r = true) :
    r.steps ≤ s.maxSteps ∧ r.depth ≤ s.maxDepth ∧
    ((derivable s g sup r.name = true ∧ ∃ e, r.res = .val e ∧ e ∈ s.formsOf sup r.name ∧
        (r.name ∈ sup → e = .var r.name)) ∨
     (derivable s g sup r.name = false ∧ r.res = .err .attr)) := by
  unfold okRead at h
  simp only [Bool.and_eq_true, decide_eq_true_eq] at h
  obtain ⟨⟨h1, h2⟩, h3⟩ := h
  refine ⟨h1, h2, ?_⟩
  cases hr : r.res with
  | val e =>
    simp only [hr, Bool.and_eq_true, Bool.or_eq_true, Bool.not_eq_true', beq_iff_eq, List.contains_eq_mem,
      decide_eq_true_eq, decide_eq_false_iff_not] at h3
    left
    refine ⟨h3.1.1, e, rfl, h3.1.2, ?_⟩
    intro hm
    rcases h3.2 with hn | he
    · exact absurd hm hn
    · exact he
  | none => simp [hr] at h3
  | err x =>
    cases x <;> simp [hr] at h3
    right
    exact ⟨h3, rfl⟩

/-! ### what is supplied is derivable -/

theorem closeStep_subset (rules : List (String × List String)) (k : List String) (x : String) (h : x ∈ k) :
    x ∈ closeStep rules k := by
  unfold closeStep
  induction rules generalizing k with
  | nil => simpa using h
  | cons r rs ih =>
    simp only [List.foldl_cons]
    apply ih
    split
    · exact List.mem_cons_of_mem _ h
    · exact h

theorem closure_subset (rules : List (String × List String)) (n : Nat) (k : List String) (x : String) (h : x ∈ k) :
    x ∈ closure rules n k := by
  induction n generalizing k with
  | zero => simpa [closure] using h
  | succ n ih => simp only [closure]; exact ih _ (closeStep_subset rules k x h)

theorem derivable_of_supplied (s : Spec) (g : GW) (sup : List String) (m : String) (h : m ∈ sup) :
    derivable s g sup m = true := by
  unfold derivable
  simp only [List.contains_eq_mem, decide_eq_true_eq]
  apply closure_subset
  simp [h]

/-! ### the two statements every group theorem of `PyrollProps/C16.lean` instantiates -/

/-- **Consistency of a group** (`s`: members, documented directions, admitted forms; `ws`: the worlds; `ρ`: an assignment
of reals to the members and external quantities; `adm sup`: the hypotheses on `ρ` for the supplied set `sup`).
For EVERY world, EVERY subset `sup` of supplied members, EVERY read order `ord` of all members on a fresh instance and
every fuel ≥ `fuel0`, every read `r`:
* a supplied member reads back as itself,
* a member that follows from what is supplied reads a value `e` with `eval ρ e = ρ member` — THE value of the
  consistent assignment, whatever the order and whichever members were supplied,
* any other member fails with AttributeError. -/
def GroupConsistent (s : Spec) (fuel0 : Nat) (ws : List GW) (ρ : String → ℝ) (adm : List String → Prop) : Prop :=
  ∀ g ∈ ws, ∀ sup ∈ sublists s.members, adm sup → ∀ ord ∈ perms s.members, ∀ fuel, fuel0 ≤ fuel →
    ∀ r ∈ (scenario g.world fuel (g.base ++ sup) ord).1,
      (r.name ∈ sup → r.res = .val (.var r.name)) ∧
      (derivable s g sup r.name = true → ∃ e, r.res = .val e ∧ Expr.eval ρ e = ρ r.name) ∧
      (derivable s g sup r.name = false → r.res = .err .attr)

theorem groupConsistent_of {s : Spec} {fuel0 : Nat} {ws : List GW} {ρ : String → ℝ} {adm : List String → Prop}
    (hctl : checkAll s fuel0 ws = true)
    (hforms : ∀ sup ∈ sublists s.members, adm sup → ∀ p ∈ s.forms sup, ∀ e ∈ p.2, Expr.eval ρ e = ρ p.1) :
    GroupConsistent s fuel0 ws ρ adm := by
  intro g hg sup hs ha ord ho fuel hf r hr
  have hrun := checkAll_sound hctl g hg sup hs ord ho
  obtain ⟨k, rfl⟩ := Nat.exists_eq_add_of_le hf
  rw [scenario_fuel_irrelevant hrun k] at hr
  obtain ⟨_, _, hc⟩ := okRead_cases (okRun_reads hrun r hr)
  rcases hc with ⟨hd, e, he, hmem, hsup⟩ | ⟨hd, he⟩
  · refine ⟨fun hm => by rw [he, hsup hm], fun _ => ⟨e, he, ?_⟩, ?_⟩
    · obtain ⟨l, hl, hel⟩ := mem_formsOf hmem
      exact hforms sup hs ha (r.name, l) hl e hel
    · intro h; rw [hd] at h; cases h
  · refine ⟨fun hm => ?_, ?_, fun _ => he⟩
    · rw [derivable_of_supplied s g sup r.name hm] at hd
      cases hd
    · intro h; rw [hd] at h; cases h

/-- **Too little supplied ⇒ AttributeError in bounded time**: for every world, subset, order and every fuel ≥ `fuel0`
each read finishes within `N` machine steps and `D` stack frames (never out of fuel = no hang / RecursionError), a
member that does not follow from what is supplied fails with AttributeError, and no re-entrancy mark is left. -/
def InsufficientBounded (s : Spec) (fuel0 : Nat) (ws : List GW) (N D : Nat) : Prop :=
  ∀ g ∈ ws, ∀ sup ∈ sublists s.members, ∀ ord ∈ perms s.members, ∀ fuel, fuel0 ≤ fuel →
    (∀ r ∈ (scenario g.world fuel (g.base ++ sup) ord).1,
      r.steps ≤ N ∧ r.depth ≤ D ∧ r.res ≠ .err .fuel ∧
      (derivable s g sup r.name = false → r.res = .err .attr)) ∧
    (scenario g.world fuel (g.base ++ sup) ord).2.active = []

theorem insufficientBounded_of {s : Spec} {fuel0 : Nat} {ws : List GW} {N D : Nat}
    (hctl : checkAll s fuel0 ws = true) (hN : s.maxSteps ≤ N) (hD : s.maxDepth ≤ D) :
    InsufficientBounded s fuel0 ws N D := by
  intro g hg sup hs ord ho fuel hf
  have hrun := checkAll_sound hctl g hg sup hs ord ho
  obtain ⟨k, rfl⟩ := Nat.exists_eq_add_of_le hf
  rw [scenario_fuel_irrelevant hrun k]
  refine ⟨fun r hr => ?_, okRun_marks hrun⟩
  have hok := okRun_reads hrun r hr
  obtain ⟨h1, h2, hc⟩ := okRead_cases hok
  refine ⟨le_trans h1 hN, le_trans h2 hD, okRead_no_fuel hok, fun hd => ?_⟩
  rcases hc with ⟨hd', _⟩ | ⟨_, he⟩
  · rw [hd] at hd'; cases hd'
  · exact he

/-! ### a hook given as `None` is not supplied -/

/-- For every world, every hook `h` of `hs` given explicitly as `None` (in `__dict__`, holding `None`), every subset of the
other members supplied, every read order and every fuel ≥ `fuel0`: the reads give exactly the results (symbolic values,
error kinds) of the object that does not mention `h` at all; none runs out of fuel; no mark is left. -/
def NoneIsAbsent (members : List String) (fuel0 : Nat) (ws : List GW) (hs : List String) : Prop :=
  ∀ g ∈ ws, ∀ h ∈ hs, ∀ sup ∈ sublists (members.filter (· ≠ h)), ∀ ord ∈ perms members, ∀ fuel, fuel0 ≤ fuel →
    (scenarioN g.world fuel (g.base ++ sup) [h] ord).1.map (·.res)
        = (scenario g.world fuel (g.base ++ sup) ord).1.map (·.res) ∧
    (∀ r ∈ (scenarioN g.world fuel (g.base ++ sup) [h] ord).1, r.res ≠ .err .fuel) ∧
    (scenarioN g.world fuel (g.base ++ sup) [h] ord).2.active = []

theorem noneIsAbsent_of {members : List String} {fuel0 : Nat} {ws : List GW} {hs : List String}
    (hc : checkNone members fuel0 ws hs = true) : NoneIsAbsent members fuel0 ws hs := by
  intro g hg h hh sup hsup ord ho fuel hf
  simp only [checkNone, List.all_eq_true] at hc
  have hrun := hc g hg h hh sup hsup ord ho
  simp only [sameRun, Bool.and_eq_true, List.all_eq_true, beq_iff_eq, bne_iff_ne, ne_eq, List.isEmpty_iff] at hrun
  obtain ⟨⟨⟨⟨he, ha⟩, hb⟩, hact⟩, _⟩ := hrun
  obtain ⟨k, rfl⟩ := Nat.exists_eq_add_of_le hf
  have ea : scenarioN g.world (fuel0 + k) (g.base ++ sup) [h] ord = scenarioN g.world fuel0 (g.base ++ sup) [h] ord := by
    unfold scenarioN
    exact readAll_mono _ _ _ _ _ (fun r hr => ha r hr)
  have eb : scenario g.world (fuel0 + k) (g.base ++ sup) ord = scenario g.world fuel0 (g.base ++ sup) ord := by
    unfold scenario
    exact readAll_mono _ _ _ _ _ (fun r hr => hb r hr)
  rw [ea, eb]
  exact ⟨he, ha, hact⟩

/-! ## explicit values that are CALLABLES (`Hook.__get__` calls them) -/


def Obj.numb (o : Obj) : Obj := { o with set := o.set ++ o.callSet.map (·.1), callSet := [] }
def M.numb (m : M) : M := { m with obj := m.obj.numb }
def Obj.unary (o : Obj) : Prop := ∀ p ∈ o.callSet, p.2 ≤ 1

theorem lookup_none_iff {β : Type} (n : String) (l : List (String × β)) :
    lookup n l = Option.none ↔ n ∉ l.map (·.1) := by
  induction l with
  | nil => simp [lookup]
  | cons p rest ih =>
    obtain ⟨k, x⟩ := p
    simp only [lookup, List.map_cons, List.mem_cons, not_or]
    by_cases hk : k = n
    · simp [hk]
    · simp [hk, ih, Ne.symm hk]

theorem callExplicit_std (n : String) (k : Nat) (h : k ≤ 1) : callExplicit CallConv.std n k = .val (.var n) := by
  have : k = 0 ∨ k = 1 := by omega
  rcases this with rfl | rfl <;> simp [callExplicit, CallConv.std, lookupN]

theorem numb_hasSet (o : Obj) (n : String) : o.numb.hasSet n = o.hasSet n := by
  have h : (lookup n o.callSet).isSome = decide (n ∈ o.callSet.map (·.1)) := by
    cases hl : lookup n o.callSet with
    | none => simpa using (lookup_none_iff n o.callSet).mp hl
    | some v => simpa using ⟨v, lookup_mem hl⟩
  simp only [Obj.numb, Obj.hasSet, h, lookup, List.contains_eq_mem, List.mem_append, Option.isSome_none, Bool.or_false,
    Bool.decide_or]
  cases decide (n ∈ o.set) <;> cases decide (n ∈ o.noneSet) <;> cases decide (n ∈ List.map (fun x => x.fst) o.callSet) <;> simp

theorem ownRead_numb (o : Obj) (hu : o.unary) (n : String) :
    ownRead CallConv.std o.numb n = ownRead CallConv.std o n := by
  unfold ownRead
  by_cases hs : n ∈ o.set
  · simp [Obj.numb, hs]
  · cases hl : lookup n o.callSet with
    | some k =>
      have hm := lookup_mem hl
      have : n ∈ o.callSet.map (·.1) := List.mem_map.mpr ⟨(n, k), hm, rfl⟩
      simp [Obj.numb, hs, this, callExplicit_std n k (hu _ hm)]
    | none =>
      have := (lookup_none_iff n o.callSet).mp hl
      simp [Obj.numb, hs, this, lookup]

theorem step_numb (w : World) (hc : w.conv = CallConv.std) (m : M) (hu : m.obj.unary) :
    step w m.numb = (step w m).numb := by
  have h1 := ownRead_numb m.obj hu
  have h2 := numb_hasSet m.obj
  unfold step M.numb
  simp only [hc, h1, h2]
  repeat' split
  all_goals simp_all [Obj.numb]


theorem step_callSet (w : World) (m : M) : (step w m).obj.callSet = m.obj.callSet := by
  unfold step
  dsimp only
  repeat' split
  all_goals simp

theorem final_numb (m : M) : m.numb.final = m.final := rfl

theorem exec_numb (w : World) (hc : w.conv = CallConv.std) (n : Nat) (m : M) (hu : m.obj.unary) :
    exec w n m.numb = (exec w n m).map M.numb := by
  induction n generalizing m with
  | zero => by_cases hf : m.final = true <;> simp [exec, final_numb, hf]
  | succ n ih =>
    by_cases hf : m.final = true
    · simp [exec, final_numb, hf]
    · simp only [exec, final_numb, hf]
      rw [step_numb w hc m hu]
      exact ih _ (by unfold Obj.unary; rw [step_callSet]; exact hu)

theorem exec_callSet (w : World) (n : Nat) (m r : M) (h : exec w n m = some r) : r.obj.callSet = m.obj.callSet := by
  induction n generalizing m with
  | zero =>
    simp only [exec] at h
    split at h
    · cases h; rfl
    · cases h
  | succ n ih =>
    simp only [exec] at h
    split at h
    · cases h; rfl
    · exact (ih _ h).trans (step_callSet w m)

theorem read1_callSet (w : World) (fuel : Nat) (o : Obj) (n : String) : (read1 w fuel o n).2.callSet = o.callSet := by
  unfold read1
  split
  · rename_i m hm
    have := exec_callSet w fuel _ m hm
    split <;> exact this
  · rfl

theorem read1_numb (w : World) (hc : w.conv = CallConv.std) (fuel : Nat) (o : Obj) (hu : o.unary) (n : String) :
    read1 w fuel o.numb n = ((read1 w fuel o n).1, (read1 w fuel o n).2.numb) := by
  unfold read1
  have e : ({ ctl := .read n, stack := [], obj := o.numb, steps := 0, maxDepth := 0 } : M)
      = M.numb { ctl := .read n, stack := [], obj := o, steps := 0, maxDepth := 0 } := rfl
  rw [e, exec_numb w hc fuel _ hu]
  cases exec w fuel { ctl := .read n, stack := [], obj := o, steps := 0, maxDepth := 0 } with
  | none => rfl
  | some m =>
    simp only [Option.map_some, M.numb]
    split <;> rfl

theorem readAll_numb (w : World) (hc : w.conv = CallConv.std) (fuel : Nat) (o : Obj) (hu : o.unary) (ord : List String) :
    readAll w fuel o.numb ord = ((readAll w fuel o ord).1, (readAll w fuel o ord).2.numb) := by
  induction ord generalizing o with
  | nil => rfl
  | cons n r ih =>
    simp only [readAll]
    rw [read1_numb w hc fuel o hu n]
    simp only []
    rw [ih (read1 w fuel o n).2 (by unfold Obj.unary; rw [read1_callSet]; exact hu)]

/-! ### only membership in `__dict__` matters, not the order of its entries -/

def Obj.withSet (o : Obj) (s : List String) : Obj := { o with set := s }
def M.withSet (m : M) (s : List String) : M := { m with obj := m.obj.withSet s }

theorem step_set (w : World) (m : M) : (step w m).obj.set = m.obj.set := by
  unfold step
  dsimp only
  repeat' split
  all_goals simp

theorem step_withSet (w : World) (m : M) (s : List String) (hs : ∀ n, n ∈ s ↔ n ∈ m.obj.set) :
    step w (m.withSet s) = (step w m).withSet s := by
  have h1 : ∀ n, ownRead w.conv (m.obj.withSet s) n = ownRead w.conv m.obj n := by
    intro n; simp [ownRead, Obj.withSet, hs n]
  have h2 : ∀ n, (m.obj.withSet s).hasSet n = m.obj.hasSet n := by
    intro n; simp [Obj.hasSet, Obj.withSet, hs n]
  unfold step M.withSet
  simp only [h1, h2]
  repeat' split
  all_goals simp_all [Obj.withSet]

theorem exec_withSet (w : World) (n : Nat) (m : M) (s : List String) (hs : ∀ n, n ∈ s ↔ n ∈ m.obj.set) :
    exec w n (m.withSet s) = (exec w n m).map (·.withSet s) := by
  have hfin : (m.withSet s).final = m.final := rfl
  induction n generalizing m with
  | zero => by_cases hf : m.final = true <;> simp [exec, hfin, hf]
  | succ n ih =>
    have hfin : (m.withSet s).final = m.final := rfl
    by_cases hf : m.final = true
    · simp [exec, hfin, hf]
    · simp only [exec, hfin, hf]
      rw [step_withSet w m s hs]
      exact ih _ (by intro k; rw [step_set]; exact hs k) rfl

theorem exec_set (w : World) (n : Nat) (m r : M) (h : exec w n m = some r) : r.obj.set = m.obj.set := by
  induction n generalizing m with
  | zero =>
    simp only [exec] at h
    split at h
    · cases h; rfl
    · cases h
  | succ n ih =>
    simp only [exec] at h
    split at h
    · cases h; rfl
    · exact (ih _ h).trans (step_set w m)

theorem read1_set (w : World) (fuel : Nat) (o : Obj) (n : String) : (read1 w fuel o n).2.set = o.set := by
  unfold read1
  split
  · rename_i m hm
    have := exec_set w fuel _ m hm
    split <;> exact this
  · rfl

theorem read1_withSet (w : World) (fuel : Nat) (o : Obj) (s : List String) (hs : ∀ n, n ∈ s ↔ n ∈ o.set)
    (n : String) : read1 w fuel (o.withSet s) n = ((read1 w fuel o n).1, (read1 w fuel o n).2.withSet s) := by
  unfold read1
  have e : ({ ctl := .read n, stack := [], obj := o.withSet s, steps := 0, maxDepth := 0 } : M)
      = M.withSet { ctl := .read n, stack := [], obj := o, steps := 0, maxDepth := 0 } s := rfl
  rw [e, exec_withSet w fuel _ s hs]
  cases exec w fuel { ctl := .read n, stack := [], obj := o, steps := 0, maxDepth := 0 } with
  | none => rfl
  | some m =>
    simp only [Option.map_some, M.withSet]
    split <;> rfl

theorem readAll_withSet (w : World) (fuel : Nat) (o : Obj) (s : List String) (hs : ∀ n, n ∈ s ↔ n ∈ o.set)
    (ord : List String) :
    readAll w fuel (o.withSet s) ord = ((readAll w fuel o ord).1, (readAll w fuel o ord).2.withSet s) := by
  induction ord generalizing o with
  | nil => rfl
  | cons n r ih =>
    simp only [readAll]
    rw [read1_withSet w fuel o s hs n]
    simp only []
    rw [ih (read1 w fuel o n).2 (by intro k; rw [read1_set]; exact hs k)]

/-- **a member supplied as a callable is supplied**: with the calling convention of `Hook.__get__`
(`inspect.signature`: no parameter → `value()`, otherwise `value(instance)`) an object whose explicit values `set` are
partly callables of 0 or 1 parameters (`calls`) answers every sequence of reads exactly as the object that carries the
numbers: same values, same error kinds, same step counts, same numbers of hook function invocations, same cache, same marks -/
theorem scenarioC_eq_scenario (w : World) (hc : w.conv = CallConv.std) (fuel : Nat) (set : List String)
    (calls : List (String × Nat)) (hu : ∀ p ∈ calls, p.2 ≤ 1) (ord : List String) :
    (scenarioC w fuel set calls ord).1 = (scenario w fuel set ord).1 ∧
    (scenarioC w fuel set calls ord).2.cache = (scenario w fuel set ord).2.cache ∧
    (scenarioC w fuel set calls ord).2.active = (scenario w fuel set ord).2.active := by
  have hu' : (Obj.freshC set calls).unary := by
    intro p hp
    simp only [Obj.freshC, List.mem_filter] at hp
    exact hu p hp.1
  have hmem : ∀ n, n ∈ (Obj.freshC set calls).numb.set ↔ n ∈ (Obj.fresh set).set := by
    intro n
    simp only [Obj.freshC, Obj.numb, Obj.fresh, List.mem_append, List.mem_filter, List.mem_map, List.contains_eq_mem,
      decide_eq_true_eq]
    constructor
    · rintro (⟨h, _⟩ | ⟨p, ⟨_, hp⟩, rfl⟩)
      · exact h
      · exact hp
    · intro h
      cases hl : lookup n calls with
      | none => left; exact ⟨h, by simp⟩
      | some k => right; exact ⟨(n, k), ⟨lookup_mem hl, h⟩, rfl⟩
  have e : (Obj.freshC set calls).numb = (Obj.fresh set).withSet (Obj.freshC set calls).numb.set := by
    simp [Obj.freshC, Obj.numb, Obj.fresh, Obj.withSet]
  have h1 := readAll_numb w hc fuel (Obj.freshC set calls) hu' ord
  have h2 := readAll_withSet w fuel (Obj.fresh set) _ hmem ord
  rw [e, h2] at h1
  have h3 := congrArg Prod.fst h1
  have h4 := congrArg Prod.snd h1
  simp only at h3 h4
  unfold scenarioC scenario
  refine ⟨h3.symm, ?_, ?_⟩
  · have := congrArg Obj.cache h4; simpa [Obj.withSet, Obj.numb] using this.symm
  · have := congrArg Obj.active h4; simpa [Obj.withSet, Obj.numb] using this.symm


/-! ## template objects and copy sites -/


/-! ### the explicit part of an object (`__dict__`) is changed by edits only, never by a read -/

/-- same `__dict__` -/
def Obj.sameDict (a b : Obj) : Prop :=
  a.set = b.set ∧ a.noneSet = b.noneSet ∧ a.callSet = b.callSet ∧ a.given = b.given

theorem Obj.sameDict_refl (a : Obj) : a.sameDict a := ⟨rfl, rfl, rfl, rfl⟩
theorem Obj.sameDict.trans {a b c : Obj} (h1 : a.sameDict b) (h2 : b.sameDict c) : a.sameDict c :=
  ⟨h1.1.trans h2.1, h1.2.1.trans h2.2.1, h1.2.2.1.trans h2.2.2.1, h1.2.2.2.trans h2.2.2.2⟩

theorem explicitOnly_eq_iff (a b : Obj) : a.explicitOnly = b.explicitOnly ↔ a.sameDict b := by
  cases a; cases b
  simp [Obj.explicitOnly, Obj.sameDict]

theorem step_dict (w : World) (m : M) : (step w m).obj.sameDict m.obj := by
  unfold step Obj.sameDict
  dsimp only
  repeat' split
  all_goals simp

theorem exec_dict (w : World) (n : Nat) (m r : M) (h : exec w n m = some r) : r.obj.sameDict m.obj := by
  induction n generalizing m with
  | zero =>
    simp only [exec] at h
    split at h
    · cases h; exact Obj.sameDict_refl _
    · cases h
  | succ n ih =>
    simp only [exec] at h
    split at h
    · cases h; exact Obj.sameDict_refl _
    · exact (ih _ h).trans (step_dict w m)

theorem read1_dict (w : World) (fuel : Nat) (o : Obj) (n : String) : (read1 w fuel o n).2.sameDict o := by
  unfold read1
  split
  · rename_i m hm
    have := exec_dict w fuel _ m hm
    split <;> exact this
  · exact Obj.sameDict_refl _

def isRead : Op → Bool
  | .read _ => true
  | _ => false

/-- the edits of a history (the reads dropped) -/
def editsOf (ops : List Op) : List Op := ops.filter (fun op => !isRead op)

theorem applyOp_dict (w w' : World) (fuel fuel' : Nat) (a b : Obj) (h : a.sameDict b) (op : Op) (hop : isRead op = false) :
    (applyOp w fuel a op).sameDict (applyOp w' fuel' b op) := by
  obtain ⟨h1, h2, h3, h4⟩ := h
  cases op <;> simp [isRead] at hop <;> simp [applyOp, Obj.forget, Obj.sameDict, h1, h2, h3, h4]

theorem applyOps_dict (w : World) (fuel : Nat) (a b : Obj) (h : a.sameDict b) (ops : List Op) :
    (applyOps w fuel a ops).sameDict (applyOps w fuel b (editsOf ops)) := by
  induction ops generalizing a b with
  | nil => simpa [applyOps, applyOpsR, editsOf] using h
  | cons op r ih =>
    cases op with
    | read n =>
      have e : editsOf (Op.read n :: r) = editsOf r := by simp [editsOf, isRead]
      rw [e]
      have : applyOps w fuel a (Op.read n :: r) = applyOps w fuel (read1 w fuel a n).2 r := by
        simp [applyOps, applyOpsR]
      rw [this]
      exact ih _ _ ((read1_dict w fuel a n).trans h)
    | supply n =>
      have e : editsOf (Op.supply n :: r) = Op.supply n :: editsOf r := by simp [editsOf, isRead]
      rw [e]
      have h1 : ∀ o, applyOps w fuel o (Op.supply n :: r) = applyOps w fuel (applyOp w fuel o (.supply n)) r := by
        intro o; simp [applyOps, applyOpsR]
      have h2 : ∀ o, applyOps w fuel o (Op.supply n :: editsOf r) = applyOps w fuel (applyOp w fuel o (.supply n)) (editsOf r) := by
        intro o; simp [applyOps, applyOpsR]
      rw [h1, h2]
      exact ih _ _ (applyOp_dict w w fuel fuel a b h _ rfl)
    | unsupply n =>
      have e : editsOf (Op.unsupply n :: r) = Op.unsupply n :: editsOf r := by simp [editsOf, isRead]
      rw [e]
      have h1 : ∀ o, applyOps w fuel o (Op.unsupply n :: r) = applyOps w fuel (applyOp w fuel o (.unsupply n)) r := by
        intro o; simp [applyOps, applyOpsR]
      have h2 : ∀ o, applyOps w fuel o (Op.unsupply n :: editsOf r) = applyOps w fuel (applyOp w fuel o (.unsupply n)) (editsOf r) := by
        intro o; simp [applyOps, applyOpsR]
      rw [h1, h2]
      exact ih _ _ (applyOp_dict w w fuel fuel a b h _ rfl)
    | supplyNone n =>
      have e : editsOf (Op.supplyNone n :: r) = Op.supplyNone n :: editsOf r := by simp [editsOf, isRead]
      rw [e]
      have h1 : ∀ o, applyOps w fuel o (Op.supplyNone n :: r) = applyOps w fuel (applyOp w fuel o (.supplyNone n)) r := by
        intro o; simp [applyOps, applyOpsR]
      have h2 : ∀ o, applyOps w fuel o (Op.supplyNone n :: editsOf r) = applyOps w fuel (applyOp w fuel o (.supplyNone n)) (editsOf r) := by
        intro o; simp [applyOps, applyOpsR]
      rw [h1, h2]
      exact ih _ _ (applyOp_dict w w fuel fuel a b h _ rfl)

/-! ### a copy site that takes over the template's `__dict__` only builds the fresh object given the explicit values -/

theorem filterMap_const_none {α β : Type} (l : List α) : l.filterMap (fun _ => (Option.none : Option β)) = [] := by
  induction l with
  | nil => rfl
  | cons x r ih => simp [ih]

set_option linter.unusedSimpArgs false in
theorem ofEntries_dictEntries (o : Obj) : Obj.ofEntries o.dictEntries = o.explicitOnly := by
  cases o with
  | mk set cache active noneSet callSet given =>
    simp only [Obj.ofEntries, Obj.dictEntries, Obj.explicitOnly, List.filterMap_append, List.filterMap_map]
    congr 1 <;> simp [Function.comp_def, filterMap_const_none]

theorem copyObj_dict (o : Obj) : copyObj ["dict"] o = some o.explicitOnly := by
  simp [copyObj, copyDict, mergeDict, ofEntries_dictEntries]


/-- a copy site that takes over the public part of the template's `__dict__` and nothing else, applied to a template with ANY
history `ops` of reads and edits (on any world, with any fuel): the copy IS the fresh object that carries the explicit
values the template holds after its edits — nothing the reads left in the template's `__cache__` reaches it -/
theorem copy_dict_after_history (tw : World) (fuel : Nat) (o : Obj) (ops : List Op) :
    copyObj ["dict"] (applyOps tw fuel o ops) = some (applyOps tw fuel o (editsOf ops)).explicitOnly := by
  rw [copyObj_dict]
  exact congrArg some ((explicitOnly_eq_iff _ _).mpr (applyOps_dict tw fuel o o (Obj.sameDict_refl o) ops))

/-- without reads the world and the fuel do not matter -/
theorem applyOps_edits_indep (w w' : World) (fuel fuel' : Nat) (o : Obj) (ops : List Op) :
    applyOps w fuel o (editsOf ops) = applyOps w' fuel' o (editsOf ops) := by
  induction ops generalizing o with
  | nil => rfl
  | cons op r ih =>
    cases op with
    | read n => simpa [editsOf, isRead] using ih o
    | supply n => simpa [editsOf, isRead, applyOps, applyOpsR, applyOp] using ih _
    | unsupply n => simpa [editsOf, isRead, applyOps, applyOpsR, applyOp] using ih _
    | supplyNone n => simpa [editsOf, isRead, applyOps, applyOpsR, applyOp] using ih _

def isNoneOp : Op → Bool
  | .supplyNone _ => true
  | _ => false

/-- an object whose `__dict__` holds numbers only -/
def Obj.plain (o : Obj) : Prop := o.noneSet = [] ∧ o.callSet = [] ∧ o.given = []

/-- edits that supply numbers / delete, on an object that holds numbers only: the names in `__dict__` are `editSet` -/
theorem applyOps_edits_plain (w : World) (fuel : Nat) (o : Obj) (hp : o.plain) (ops : List Op)
    (hn : ∀ op ∈ ops, isNoneOp op = false) :
    (applyOps w fuel o (editsOf ops)).set = editSet o.set ops ∧ (applyOps w fuel o (editsOf ops)).plain := by
  induction ops generalizing o with
  | nil => exact ⟨rfl, hp⟩
  | cons op r ih =>
    have hr : ∀ op ∈ r, isNoneOp op = false := fun x hx => hn x (List.mem_cons_of_mem _ hx)
    obtain ⟨p1, p2, p3⟩ := hp
    cases op with
    | read n => simpa [editsOf, isRead, editSet] using ih o ⟨p1, p2, p3⟩ hr
    | supply n =>
      have := ih (applyOp w fuel o (.supply n)) (by simp [Obj.plain, applyOp, Obj.forget, p1, p2, p3]) hr
      simpa [editsOf, isRead, editSet, applyOps, applyOpsR, applyOp, Obj.forget] using this
    | unsupply n =>
      have := ih (applyOp w fuel o (.unsupply n)) (by simp [Obj.plain, applyOp, Obj.forget, p1, p2, p3]) hr
      simpa [editsOf, isRead, editSet, applyOps, applyOpsR, applyOp, Obj.forget] using this
    | supplyNone n => exact absurd (hn _ (List.mem_cons_self)) (by simp [isNoneOp])

theorem explicitOnly_plain (o : Obj) (hp : o.plain) : o.explicitOnly = Obj.fresh o.set := by
  obtain ⟨p1, p2, p3⟩ := hp
  cases o
  simp_all [Obj.explicitOnly, Obj.fresh]

/-- **copy-then-read = read on a fresh object given the template's explicit values.**  Template: a fresh object of world `tw`
with the names `s0` supplied, put through ANY history `ops` of reads, new supplies and deletions (`hn`: no `None`); copy site:
takes over the template's `__dict__`; then the names `ord` are read on the copy in world `cw`.  The reads (values
symbolically, error kinds, steps, depth, hook function invocations) and the final state are those of `scenario cw fuel'
(editSet s0 ops) ord` — the fresh object of world `cw` given exactly the names the template holds explicitly after its edits. -/
theorem copy_dict_reads_as_fresh (tw cw : World) (fuel fuel' : Nat) (s0 : List String) (ops : List Op)
    (hn : ∀ op ∈ ops, isNoneOp op = false) (ord : List String) :
    ∃ c, copyObj ["dict"] (applyOps tw fuel (Obj.fresh s0) ops) = some c ∧
      readAll cw fuel' c ord = scenario cw fuel' (editSet s0 ops) ord := by
  refine ⟨_, copy_dict_after_history tw fuel (Obj.fresh s0) ops, ?_⟩
  obtain ⟨h1, h2⟩ := applyOps_edits_plain tw fuel (Obj.fresh s0) ⟨rfl, rfl, rfl⟩ ops hn
  rw [explicitOnly_plain _ h2, h1]
  rfl

/-! ## the group statements for objects whose explicit values are (partly) callables -/

/-- `GroupConsistent` with the supplied members and the other explicit values of the world (`g.base`) given IN WHATEVER FORM:
any of them as a callable without parameter or with one parameter (`calls`: name ↦ number of parameters), the rest as numbers -/
def GroupConsistentC (s : Spec) (fuel0 : Nat) (ws : List GW) (ρ : String → ℝ) (adm : List String → Prop) : Prop :=
  ∀ g ∈ ws, ∀ sup ∈ sublists s.members, adm sup → ∀ calls : List (String × Nat), (∀ p ∈ calls, p.2 ≤ 1) →
    ∀ ord ∈ perms s.members, ∀ fuel, fuel0 ≤ fuel →
    ∀ r ∈ (scenarioC g.world fuel (g.base ++ sup) calls ord).1,
      (r.name ∈ sup → r.res = .val (.var r.name)) ∧
      (derivable s g sup r.name = true → ∃ e, r.res = .val e ∧ Expr.eval ρ e = ρ r.name) ∧
      (derivable s g sup r.name = false → r.res = .err .attr)

theorem groupConsistentC_of {s : Spec} {fuel0 : Nat} {ws : List GW} {ρ : String → ℝ} {adm : List String → Prop}
    (hw : ∀ g ∈ ws, g.world.conv = CallConv.std) (h : GroupConsistent s fuel0 ws ρ adm) :
    GroupConsistentC s fuel0 ws ρ adm := by
  intro g hg sup hs ha calls hu ord ho fuel hf r hr
  rw [(scenarioC_eq_scenario g.world (hw g hg) fuel (g.base ++ sup) calls hu ord).1] at hr
  exact h g hg sup hs ha ord ho fuel hf r hr

/-- `InsufficientBounded` in whatever form the explicit values are given -/
def InsufficientBoundedC (s : Spec) (fuel0 : Nat) (ws : List GW) (N D : Nat) : Prop :=
  ∀ g ∈ ws, ∀ sup ∈ sublists s.members, ∀ calls : List (String × Nat), (∀ p ∈ calls, p.2 ≤ 1) →
    ∀ ord ∈ perms s.members, ∀ fuel, fuel0 ≤ fuel →
    (∀ r ∈ (scenarioC g.world fuel (g.base ++ sup) calls ord).1,
      r.steps ≤ N ∧ r.depth ≤ D ∧ r.res ≠ .err .fuel ∧
      (derivable s g sup r.name = false → r.res = .err .attr)) ∧
    (scenarioC g.world fuel (g.base ++ sup) calls ord).2.active = []

theorem insufficientBoundedC_of {s : Spec} {fuel0 : Nat} {ws : List GW} {N D : Nat}
    (hw : ∀ g ∈ ws, g.world.conv = CallConv.std) (h : InsufficientBounded s fuel0 ws N D) :
    InsufficientBoundedC s fuel0 ws N D := by
  intro g hg sup hs calls hu ord ho fuel hf
  obtain ⟨e1, _, e3⟩ := scenarioC_eq_scenario g.world (hw g hg) fuel (g.base ++ sup) calls hu ord
  rw [e1, e3]
  exact h g hg sup hs ord ho fuel hf

end Mutual
