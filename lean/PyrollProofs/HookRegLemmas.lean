import PyrollModel.HookOps

/-!
  Helper lemmas for C01 (registration / resolution order): the simulation relation `Rel` between the concrete
  registry (`State`: six stores per class, lazily created per-subclass hook objects) and the abstract state
  (`AState`: class hierarchy + log of live registrations), its preservation by every operation, and the
  characterisation of `specRegs` as the list sorted by the documented priority.  Core Lean only.
-/

namespace Hooks

/-! ### well-formed class hierarchies -/

structure MroOk (mro : Cls → List Cls) : Prop where
  head : ∀ c, mro c ≠ [] → (mro c).head? = some c
  closed : ∀ c k, k ∈ mro c → ∀ j, j ∈ mro k → j ∈ mro c
  defd : ∀ c k, k ∈ mro c → mro k ≠ []
  nodup : ∀ c, (mro c).Nodup

theorem MroOk.self_mem {mro : Cls → List Cls} (h : MroOk mro) {c : Cls} (hc : mro c ≠ []) : c ∈ mro c := by
  have := h.head c hc
  cases hm : mro c with
  | nil => exact absurd hm hc
  | cons a l => rw [hm] at this; simp at this; subst this; simp

theorem mroOk_init : MroOk (fun _ => ([] : List Cls)) := by
  constructor <;> simp

theorem classOk_iff {mro : Cls → List Cls} {c : Cls} {m : List Cls} (h : classOk mro c m = true) :
    mro c = [] ∧ m.head? = some c ∧ m.Nodup ∧
      ∀ k ∈ m.tail, mro k ≠ [] ∧ ∀ j ∈ mro k, j ∈ m.tail := by
  simp only [classOk, Bool.and_eq_true, beq_iff_eq, decide_eq_true_eq, List.all_eq_true, bne_iff_ne, ne_eq] at h
  obtain ⟨⟨⟨h1, h2⟩, h3⟩, h4⟩ := h
  exact ⟨h1, h2, h3, fun k hk => ⟨(h4 k hk).1, fun j hj => (h4 k hk).2 j hj⟩⟩

theorem MroOk.defClass {mro : Cls → List Cls} (h : MroOk mro) {c : Cls} {m : List Cls}
    (hok : classOk mro c m = true) : MroOk (fun x => if x = c then m else mro x) := by
  obtain ⟨hc, hh, hn, ht⟩ := classOk_iff hok
  cases m with
  | nil => simp at hh
  | cons a tl =>
    simp at hh; subst hh
    simp only [List.tail_cons] at ht
    have hne : ∀ k, mro k ≠ [] → k ≠ a := fun k hk e => hk (e ▸ hc)
    constructor
    · intro x hx
      by_cases hxa : x = a
      · subst hxa; simp
      · simp only [hxa, if_false] at hx ⊢; exact h.head x hx
    · intro x k hk j hj
      by_cases hxa : x = a
      · subst hxa
        simp only [if_true] at hk ⊢
        by_cases hka : k = x
        · subst hka; simpa using hj
        · simp only [hka, if_false] at hj
          have hk' : k ∈ tl := by simpa [hka] using hk
          exact List.mem_cons_of_mem _ ((ht k hk').2 j hj)
      · simp only [hxa, if_false] at hk ⊢
        have hka : k ≠ a := hne k (h.defd x k hk)
        simp only [hka, if_false] at hj
        exact h.closed x k hk j hj
    · intro x k hk
      by_cases hxa : x = a
      · subst hxa
        simp only [if_true] at hk
        by_cases hka : k = x
        · subst hka; simp
        · simp only [hka, if_false]
          have hk' : k ∈ tl := by simpa [hka] using hk
          exact (ht k hk').1
      · simp only [hxa, if_false] at hk
        have hka : k ≠ a := hne k (h.defd x k hk)
        simp only [hka, if_false]
        exact h.defd x k hk
    · intro x
      by_cases hxa : x = a
      · subst hxa; simpa using hn
      · simp only [hxa, if_false]; exact h.nodup x

/-! ### the simulation relation -/

/-- the live registrations of class `k` in the store selected by `(w, t)`, in registration order -/
def alog (a : AState) (k : Cls) (w : Bool) (t : Tier) : List HF :=
  (a.log.filter fun r => r.cls == k && r.hf.wrapper == w && r.tier == t).map (·.hf)

structure Rel (st : State) (a : AState) : Prop where
  mro_eq : st.mro = a.mro
  next_eq : st.next = a.next
  ok : MroOk a.mro
  /-- a class carries an own hook object only if the hook is defined on it or on one of its bases -/
  own_vis : ∀ k, (st.own k).isSome → avisible a k = true
  /-- a class on which the hook was defined carries an own hook object -/
  hook_own : ∀ k, a.hookAt k = true → (st.own k).isSome
  /-- the six stores are the log filtered by (class, wrapper, tier), in log order -/
  stores : ∀ k w t, storeOf st k w t = alog a k w t
  ids_lt : ∀ r ∈ a.log, r.hf.id < a.next
  ids_sorted : a.log.Pairwise (fun r1 r2 => r1.hf.id < r2.hf.id)

theorem rel_init : Rel init ainit := by
  constructor <;> simp [init, ainit, mroOk_init, storeOf, alog, avisible]

theorem store_empty (w : Bool) (t : Tier) : ({} : HookObj).store w t = [] := by
  cases w <;> cases t <;> rfl

theorem storeOf_none {st : State} {k : Cls} (h : st.own k = none) (w : Bool) (t : Tier) : storeOf st k w t = [] := by
  simp [storeOf, h]

/-- no own hook object ⇒ no live registration on that class -/
theorem Rel.no_reg {st : State} {a : AState} (h : Rel st a) {k : Cls} (hk : st.own k = none) :
    ∀ r ∈ a.log, r.cls ≠ k := by
  intro r hr e
  have := h.stores k r.hf.wrapper r.tier
  rw [storeOf_none hk] at this
  have hm : r.hf ∈ alog a k r.hf.wrapper r.tier := by
    simp only [alog, List.mem_map, List.mem_filter]
    exact ⟨r, ⟨hr, by simp [e]⟩, rfl⟩
  rw [← this] at hm
  simp at hm

theorem avisible_nonempty {a : AState} {c : Cls} (h : avisible a c = true) : a.mro c ≠ [] := by
  intro e; simp [avisible, e] at h

theorem Rel.own_defd {st : State} {a : AState} (h : Rel st a) {k : Cls} (hk : (st.own k).isSome) : a.mro k ≠ [] :=
  avisible_nonempty (h.own_vis k hk)

/-- concrete and abstract visibility of the hook agree -/
theorem Rel.visible_iff {st : State} {a : AState} (h : Rel st a) (c : Cls) : visible st c = avisible a c := by
  simp only [visible, lookup, avisible, h.mro_eq]
  rw [Bool.eq_iff_iff, List.find?_isSome, List.any_eq_true]
  constructor
  · rintro ⟨k, hk, ho⟩
    have := h.own_vis k ho
    simp only [avisible, List.any_eq_true] at this
    obtain ⟨j, hj, hh⟩ := this
    exact ⟨j, h.ok.closed c k hk j hj, hh⟩
  · rintro ⟨k, hk, hh⟩
    exact ⟨k, hk, h.hook_own k hh⟩

/-- when the hook found for `s` is owned by another class, `s` has no own hook object -/
theorem Rel.lookup_other {st : State} {a : AState} (h : Rel st a) {s k : Cls} (hl : lookup st s = some k)
    (hne : k ≠ s) : st.own s = none := by
  cases ho : st.own s with
  | none => rfl
  | some o =>
    exfalso
    have hs : a.mro s ≠ [] := h.own_defd (by simp [ho])
    have hh := h.ok.head s hs
    simp only [lookup, h.mro_eq] at hl
    cases hm : a.mro s with
    | nil => exact hs hm
    | cons x l =>
      rw [hm] at hh hl
      simp at hh; subst hh
      simp [ho] at hl
      exact hne hl.symm

theorem Rel.touch {st : State} {a : AState} (h : Rel st a) (s : Cls) : Rel (touch st s) a := by
  unfold Hooks.touch
  cases hl : lookup st s with
  | none => exact h
  | some k =>
    by_cases hks : k = s
    · simp [hks]; exact h
    · simp only [hks, if_false]
      have hnone := h.lookup_other hl hks
      have hk_mem : k ∈ a.mro s := by
        have := List.mem_of_find?_eq_some hl; rwa [h.mro_eq] at this
      have hk_own : (st.own k).isSome := List.find?_some (p := fun k => (st.own k).isSome) hl
      constructor
      · exact h.mro_eq
      · exact h.next_eq
      · exact h.ok
      · intro x hx
        by_cases hxs : x = s
        · subst hxs
          have := h.own_vis k hk_own
          simp only [avisible, List.any_eq_true] at this ⊢
          obtain ⟨j, hj, hh⟩ := this
          exact ⟨j, h.ok.closed x k hk_mem j hj, hh⟩
        · simp only [hxs, if_false] at hx; exact h.own_vis x hx
      · intro x hx
        by_cases hxs : x = s
        · simp [hxs]
        · simp only [hxs, if_false]; exact h.hook_own x hx
      · intro x w t
        by_cases hxs : x = s
        · subst hxs
          rw [← h.stores x w t, storeOf_none hnone]
          simp [storeOf, store_empty]
        · rw [← h.stores x w t]; simp [storeOf, hxs]
      · exact h.ids_lt
      · exact h.ids_sorted

/-- a class that carries no hook object gets a new empty one while a class of its `__mro__` carries one -/
theorem Rel.create {st : State} {a : AState} (h : Rel st a) {c k : Cls} (hnone : st.own c = none)
    (hk_mem : k ∈ a.mro c) (hk_own : (st.own k).isSome) :
    Rel { st with own := fun x => if x = c then some {} else st.own x } a := by
  constructor
  · exact h.mro_eq
  · exact h.next_eq
  · exact h.ok
  · intro x hx
    by_cases hxs : x = c
    · subst hxs
      have := h.own_vis k hk_own
      simp only [avisible, List.any_eq_true] at this ⊢
      obtain ⟨j, hj, hh⟩ := this
      exact ⟨j, h.ok.closed x k hk_mem j hj, hh⟩
    · simp only [hxs, if_false] at hx; exact h.own_vis x hx
  · intro x hx
    by_cases hxs : x = c
    · simp [hxs]
    · simp only [hxs, if_false]; exact h.hook_own x hx
  · intro x w t
    by_cases hxs : x = c
    · subst hxs
      rw [← h.stores x w t, storeOf_none hnone]
      simp [storeOf, store_empty]
    · rw [← h.stores x w t]; simp [storeOf, hxs]
  · exact h.ids_lt
  · exact h.ids_sorted

/-- the hook object `viaLookup` finds belongs to a class of the `__mro__` that carries one -/
theorem viaLookup_some {st : State} {v : Via} {c s : Cls} (h : viaLookup st v c = some s) :
    s ∈ st.mro c ∧ (st.own s).isSome := by
  cases v with
  | super k =>
    simp only [viaLookup] at h
    refine ⟨?_, List.find?_some (p := fun j => (st.own j).isSome) h⟩
    have hm := List.mem_of_find?_eq_some h
    exact (List.dropWhile_sublist _).subset (List.mem_of_mem_tail hm)
  | dict s' =>
    simp only [viaLookup] at h
    split at h
    · rename_i hc
      cases h
      simp only [Bool.and_eq_true, List.contains_iff_mem] at hc
      exact hc
    · cases h

/-- **the form of the source the simulation needs**: asked with another owner, `Hook.__get__` uses the hook object that
    class carries already.  Decided by evaluation of the GENERATED fact (`Gen.C01.Hooks.getOwnerReuse`, read from the class-level
    part of `Hook.__get__` on every run): with the other form - a new hook object every time - this lemma, and every theorem of
    C01 that rests on the simulation, fails to build (and rightly so: `new_hook_for_other_owner_forgets_registrations`). -/
theorem ownerReuse_gen : ownerReuse = true := rfl

/-- the hook object of a class of `c.__mro__` asked for `c` (`super(K, x).h`, an explicit descriptor call): in the reusing
    form nothing changes for a class that carries a hook object, and a class that carries none gets an empty one - exactly
    what plain attribute lookup does -/
theorem Rel.askAs {st : State} {a : AState} (h : Rel st a) {s c : Cls} (hs : s ∈ a.mro c) (ho : (st.own s).isSome) :
    Rel (askAs true st s c) a := by
  unfold Hooks.askAs
  by_cases e : s = c
  · simp only [e, if_true]; exact h
  · simp only [e, if_false, Bool.true_and]
    cases hc : st.own c with
    | some o => simp only [Option.isSome_some, if_true]; exact h
    | none => simp only [Option.isSome_none, Bool.false_eq_true, if_false]; exact h.create hc hs ho

/-- after the access through `c` the class carries an own hook object exactly when the hook is visible for it -/
theorem Rel.touch_own {st : State} {a : AState} (h : Rel st a) (c : Cls) :
    ((Hooks.touch st c).own c).isSome = avisible a c := by
  rw [← h.visible_iff c]
  unfold Hooks.touch visible
  cases hl : lookup st c with
  | none =>
    simp only [Option.isSome_none]
    cases ho : st.own c with
    | none => rfl
    | some o =>
      exfalso
      have hs : a.mro c ≠ [] := h.own_defd (by simp [ho])
      have hmem := h.ok.self_mem hs
      have : (lookup st c).isSome := by
        simp only [lookup, h.mro_eq, List.find?_isSome]
        exact ⟨c, hmem, by simp [ho]⟩
      simp [hl] at this
  | some k =>
    by_cases hks : k = c
    · subst hks
      have := List.find?_some hl
      simpa using this
    · simp [hks]

/-! ### what the model consumes from the GENERATED source tables (`PyrollModel/Gen/C01Hooks.lean`)

These four lemmas are the only places where the simulation proof looks at the tables read from `pyroll/core/hooks.py`: the
stores are walked in the documented order, each store is yielded reversed, `add_function` appends to the store of the
flags, `remove_function` looks into all six stores.  They are decided by evaluation of the generated data; a source
change that alters one of them makes the lemma - and every theorem of C01 that rests on the simulation - fail to build. -/

/-- `functions_gen` walks the stores in the documented order (wrappers first; first, normal, last) -/
theorem implTiers_eq : implTiers = tiers6 := by decide

/-- `_yield_functions_from` yields a store through `reversed(...)` -/
theorem orient_gen (l : List HF) : orient Gen.C01.Hooks.yieldReversed l = l.reverse := rfl

/-- `add_function` appends to the store that belongs to the flags -/
theorem addStore_gen (w : Bool) (t : Tier) : addStore? w t = some (w, t) := by
  cases w <;> cases t <;> decide

/-- `remove_function` looks into every one of the six stores -/
theorem removeHits_gen (w : Bool) (t : Tier) : removeHits w t = true := by
  cases w <;> cases t <;> decide

theorem walk_rel {st : State} {a : AState} (w : Bool) (t : Tier) (m : List Cls) :
    Rel st a → Rel (walk w t st m).1 a ∧ (walk w t st m).2 = m.flatMap fun k => (alog a k w t).reverse := by
  induction m generalizing st with
  | nil => intro h; exact ⟨h, rfl⟩
  | cons s rest ih =>
    intro h
    have h1 := h.touch s
    obtain ⟨r1, r2⟩ := ih h1
    refine ⟨r1, ?_⟩
    simp only [walk, orient_gen, List.flatMap_cons, r2, h1.stores]

theorem walkAll_rel {st : State} {a : AState} (m : List Cls) (ks : List (Bool × Tier)) :
    Rel st a → Rel (walkAll st m ks).1 a ∧
      (walkAll st m ks).2 = ks.flatMap fun wt => m.flatMap fun k => (alog a k wt.1 wt.2).reverse := by
  induction ks generalizing st with
  | nil => intro h; exact ⟨h, rfl⟩
  | cons wt ks ih =>
    intro h
    obtain ⟨a1, a2⟩ := walk_rel wt.1 wt.2 m h
    obtain ⟨b1, b2⟩ := ih a1
    refine ⟨b1, ?_⟩
    simp only [walkAll, List.flatMap_cons, a2, b2]

/-- the resolution order computed by the code is the documented order of the live registrations -/
theorem Rel.implOrder_eq {st : State} {a : AState} (h : Rel st a) (c : Cls) :
    implOrder st c = specOrder (a.mro c) a.log := by
  rw [implOrder, implTiers_eq, (walkAll_rel (st.mro c) tiers6 h).2]
  simp only [specOrder, specRegs, List.map_flatMap, List.map_reverse, alog, h.mro_eq]

theorem Rel.touchAll {st : State} {a : AState} (h : Rel st a) (c : Cls) : Rel (Hooks.touchAll st c) a :=
  (walkAll_rel _ implTiers (h.touch c)).1

theorem Rel.foldTouchAll {a : AState} (cs : List Cls) : ∀ {st : State}, Rel st a → Rel (cs.foldl Hooks.touchAll st) a := by
  induction cs with
  | nil => intro st h; exact h
  | cons c cs ih => intro st h; exact ih (h.touchAll c)

/-! ### the stores under `push` / `erase` -/

theorem push_store (h : HookObj) (w : Bool) (t : Tier) (f : HF) (w' : Bool) (t' : Tier) :
    (h.push w t f).store w' t' = if w' = w ∧ t' = t then h.store w' t' ++ [f] else h.store w' t' := by
  rw [HookObj.push, addStore_gen]
  cases w <;> cases t <;> cases w' <;> cases t' <;> simp [HookObj.pushAt, HookObj.store]

theorem erase_store (h : HookObj) (id : Nat) (w : Bool) (t : Tier) :
    (h.erase id).store w t = eraseId (h.store w t) id := by
  cases w <;> cases t <;> simp [HookObj.erase, HookObj.store, removeHits_gen]

/-- `list.remove` of a function whose id occurs at most once = dropping every entry with that id -/
theorem eraseId_eq_filter (l : List Reg) (id : Nat) (hs : l.Pairwise (fun r1 r2 => r1.hf.id < r2.hf.id)) :
    eraseId (l.map (·.hf)) id = (l.filter fun r => r.hf.id != id).map (·.hf) := by
  induction l with
  | nil => rfl
  | cons r l ih =>
    rw [List.pairwise_cons] at hs
    simp only [eraseId, List.map_cons, List.eraseP_cons, List.filter_cons]
    by_cases hr : r.hf.id = id
    · subst hr
      simp only [beq_self_eq_true, cond_true, bne_self_eq_false, Bool.false_eq_true, if_false]
      congr 1
      symm
      rw [List.filter_eq_self]
      intro x hx
      have := hs.1 x hx
      simp; omega
    · have hb : (r.hf.id == id) = false := by simp [hr]
      have hb' : (r.hf.id != id) = true := by simp [hr]
      simp only [hb, cond_false, hb', if_true, List.map_cons]
      congr 1
      exact ih hs.2

/-! ### every operation preserves the relation -/

theorem astep_eta (a : AState) : ({ a with log := a.log } : AState) = a := rfl

/-- every operation of the machine in the REUSING form preserves the relation -/
theorem Rel.stepWith_true {st : State} {a : AState} (h : Rel st a) (op : Op) :
    Rel (Hooks.stepWith true st op) (astep a op) := by
  cases op with
  | touchClass c => exact h.touch c
  | touchInst c => exact h.touch c
  | readFns c =>
    simp only [Hooks.stepWith, astep, functionsOf]
    split
    · exact (walkAll_rel _ implTiers (h.touch c)).1
    · exact h.touch c
  | read c => exact Rel.foldTouchAll _ (h.touchAll c)
  | touchVia v c =>
    simp only [Hooks.stepWith, astep]
    cases hl : viaLookup st v c with
    | none => exact h
    | some s =>
      obtain ⟨hm, ho⟩ := viaLookup_some hl
      exact h.askAs (h.mro_eq ▸ hm) ho
  | readVia v c =>
    simp only [Hooks.stepWith, astep]
    cases hl : viaLookup st v c with
    | none => exact h
    | some s =>
      obtain ⟨hm, ho⟩ := viaLookup_some hl
      exact Rel.foldTouchAll _ ((h.askAs (h.mro_eq ▸ hm) ho).touchAll c)
  | defClass c m hook =>
    simp only [Hooks.stepWith, astep, h.mro_eq]
    by_cases hok : classOk a.mro c m = true
    · simp only [hok, if_true]
      obtain ⟨hc, hh, hn, ht⟩ := classOk_iff hok
      have hcm : c ∈ m := by
        cases m with
        | nil => simp at hh
        | cons x l => simp at hh; simp [hh]
      have hown : st.own c = none := by
        cases ho : st.own c with
        | none => rfl
        | some o => exact absurd hc (h.own_defd (by simp [ho]))
      constructor
      · rfl
      · exact h.next_eq
      · exact h.ok.defClass hok
      · intro k hk
        by_cases hkc : k = c
        · subst hkc
          simp only [if_true] at hk
          cases hook with
          | false => simp at hk
          | true =>
            simp only [avisible, if_true, List.any_eq_true]
            exact ⟨k, hcm, by simp⟩
        · simp only [hkc, if_false] at hk
          have := h.own_vis k hk
          simp only [avisible, List.any_eq_true, hkc, if_false] at this ⊢
          obtain ⟨j, hj, hh'⟩ := this
          have hjc : j ≠ c := fun e => h.ok.defd k j hj (e ▸ hc)
          exact ⟨j, hj, by simp [hjc, hh']⟩
      · intro k hk
        by_cases hkc : k = c
        · subst hkc; simp only [if_true] at hk ⊢; simp [hk]
        · simp only [hkc, if_false] at hk ⊢; exact h.hook_own k hk
      · intro k w t
        by_cases hkc : k = c
        · subst hkc
          have : alog a k w t = [] := by rw [← h.stores k w t, storeOf_none hown]
          simp only [alog] at this ⊢
          rw [this]
          cases hook <;> simp [storeOf, store_empty]
        · have := h.stores k w t
          simp only [storeOf, hkc, if_false, alog] at this ⊢
          exact this
      · exact h.ids_lt
      · exact h.ids_sorted
    · simp only [hok]; exact h
  | extension c =>
    simp only [Hooks.stepWith, astep, h.mro_eq]
    by_cases hc : a.mro c = []
    · simp [hc]; exact h
    · have hne : (a.mro c != []) = true := by simp [hc]
      simp only [hne, if_true]
      have hvis : ∀ k, avisible a k = true →
          avisible { a with hookAt := fun x => if x = c then true else a.hookAt x } k = true := by
        intro k hk
        simp only [avisible, List.any_eq_true] at hk ⊢
        obtain ⟨j, hj, hh⟩ := hk
        exact ⟨j, hj, by by_cases e : j = c <;> simp [e, hh]⟩
      have hself : avisible { a with hookAt := fun x => if x = c then true else a.hookAt x } c = true := by
        simp only [avisible, List.any_eq_true]
        exact ⟨c, h.ok.self_mem hc, by simp⟩
      cases ho : st.own c with
      | some o =>
        simp only
        constructor
        · exact h.mro_eq
        · exact h.next_eq
        · exact h.ok
        · intro k hk; exact hvis k (h.own_vis k hk)
        · intro k hk
          by_cases e : k = c
          · subst e; simp [ho]
          · simp only [e, if_false] at hk; exact h.hook_own k hk
        · exact h.stores
        · exact h.ids_lt
        · exact h.ids_sorted
      | none =>
        simp only [setOwn]
        constructor
        · exact h.mro_eq
        · exact h.next_eq
        · exact h.ok
        · intro k hk
          by_cases e : k = c
          · subst e; exact hself
          · simp only [e, if_false] at hk; exact hvis k (h.own_vis k hk)
        · intro k hk
          by_cases e : k = c
          · simp [e]
          · simp only [e, if_false] at hk ⊢; exact h.hook_own k hk
        · intro k w t
          by_cases e : k = c
          · subst e
            show storeOf _ k w t = alog a k w t
            rw [← h.stores k w t, storeOf_none ho]
            simp [storeOf, store_empty]
          · show storeOf _ k w t = alog a k w t
            rw [← h.stores k w t]; simp [storeOf, e]
        · exact h.ids_lt
        · exact h.ids_sorted
  | add c t w b =>
    have h1 := h.touch c
    have hown := h.touch_own c
    simp only [Hooks.stepWith, astep]
    cases ho : (Hooks.touch st c).own c with
    | none =>
      have : avisible a c = false := by rw [← hown, ho]; rfl
      simp only [this, Bool.false_eq_true, if_false]
      exact h1
    | some o =>
      have hv : avisible a c = true := by rw [← hown, ho]; rfl
      simp only [hv, if_true, setOwn]
      constructor
      · exact h1.mro_eq
      · simp only; rw [h1.next_eq]
      · exact h1.ok
      · intro k hk
        by_cases e : k = c
        · subst e; exact hv
        · simp only [e, if_false] at hk; exact h1.own_vis k hk
      · intro k hk
        by_cases e : k = c
        · simp [e]
        · simp only [e, if_false]; exact h1.hook_own k hk
      · intro k w' t'
        have hs := h1.stores k w' t'
        by_cases e : k = c
        · subst e
          simp only [storeOf, ho] at hs
          simp only [storeOf, if_true, push_store, alog, List.filter_append, List.map_append, h1.next_eq]
          simp only [alog] at hs
          by_cases hwt : w' = w ∧ t' = t
          · obtain ⟨rfl, rfl⟩ := hwt
            simp [hs]
          · simp only [hwt, if_false, hs]
            have : (List.filter (fun r : Reg => r.cls == k && r.hf.wrapper == w' && r.tier == t')
                [⟨⟨a.next, w, b⟩, k, t⟩]) = [] := by
              simp only [List.filter_cons, List.filter_nil]
              have : ((k == k && w == w' && t == t') = true) = False := by
                simp only [beq_self_eq_true, Bool.true_and, Bool.and_eq_true, beq_iff_eq, eq_iff_iff, iff_false]
                rintro ⟨rfl, rfl⟩; exact hwt ⟨rfl, rfl⟩
              simp only [this, if_false]
            rw [this]; simp
        · simp only [storeOf, e, if_false, alog, List.filter_append, List.map_append] at hs ⊢
          rw [hs]
          have : (List.filter (fun r : Reg => r.cls == k && r.hf.wrapper == w' && r.tier == t')
              [⟨⟨a.next, w, b⟩, c, t⟩]) = [] := by
            have hck : (c == k) = false := by simp; exact fun e' => e e'.symm
            simp [hck]
          rw [this]; simp
      · intro r hr
        simp only [List.mem_append, List.mem_singleton] at hr
        rcases hr with hr | rfl
        · have := h.ids_lt r hr; simp only; omega
        · simp
      · rw [List.pairwise_append]
        refine ⟨h.ids_sorted, by simp, ?_⟩
        intro r1 hr1 r2 hr2
        simp only [List.mem_singleton] at hr2
        subst hr2
        exact h.ids_lt r1 hr1
  | remove c id =>
    have h1 := h.touch c
    simp only [Hooks.stepWith, astep]
    cases ho : (Hooks.touch st c).own c with
    | none =>
      simp only
      have hnr := h1.no_reg ho
      have : (a.log.filter fun r => !(r.cls == c && r.hf.id == id)) = a.log := by
        rw [List.filter_eq_self]
        intro r hr
        have := hnr r hr
        simp [this]
      rw [this]
      exact h1
    | some o =>
      simp only [setOwn]
      constructor
      · exact h1.mro_eq
      · exact h1.next_eq
      · exact h1.ok
      · intro k hk
        by_cases e : k = c
        · subst e; exact h1.own_vis k (by simp [ho])
        · simp only [e, if_false] at hk; exact h1.own_vis k hk
      · intro k hk
        by_cases e : k = c
        · simp [e]
        · simp only [e, if_false]; exact h1.hook_own k hk
      · intro k w t
        have hs := h1.stores k w t
        by_cases e : k = c
        · subst e
          simp only [storeOf, ho] at hs
          simp only [storeOf, if_true, erase_store, hs, alog]
          rw [eraseId_eq_filter _ _ (h.ids_sorted.filter _), List.filter_filter, List.filter_filter]
          congr 1
          apply List.filter_congr
          intro r _
          simp only [bne]
          cases (r.cls == k) <;> cases (r.hf.id == id) <;> cases (r.hf.wrapper == w) <;> cases (r.tier == t) <;> rfl
        · simp only [storeOf, e, if_false, alog] at hs ⊢
          rw [hs, List.filter_filter]
          congr 1
          apply List.filter_congr
          intro r _
          by_cases e1 : r.cls = k
          · have : (r.cls == c) = false := by simp [e1, e]
            simp [this]
          · simp [e1]
      · intro r hr
        exact h.ids_lt r (List.mem_filter.1 hr).1
      · exact h.ids_sorted.filter _

/-- the machine instantiated with the flag read from the source is the reusing one -/
theorem step_eq (st : State) (op : Op) : Hooks.step st op = Hooks.stepWith true st op := by
  rw [Hooks.step, ownerReuse_gen]

theorem Rel.step {st : State} {a : AState} (h : Rel st a) (op : Op) : Rel (Hooks.step st op) (astep a op) := by
  rw [step_eq]; exact h.stepWith_true op

theorem run_eq (ops : List Op) : run ops = runWith true ops := by
  have : Hooks.step = Hooks.stepWith true := by funext st op; exact step_eq st op
  rw [run, runWith, this]

theorem rel_foldlWith (ops : List Op) : ∀ {st : State} {a : AState}, Rel st a →
    Rel (ops.foldl (Hooks.stepWith true) st) (ops.foldl astep a) := by
  induction ops with
  | nil => intro st a h; exact h
  | cons op ops ih => intro st a h; exact ih (h.stepWith_true op)

/-- the simulation for the machine in the reusing form - independent of what the source says -/
theorem rel_runWith_true (ops : List Op) : Rel (runWith true ops) (arun ops) := rel_foldlWith ops rel_init

theorem rel_foldl (ops : List Op) : ∀ {st : State} {a : AState}, Rel st a → Rel (ops.foldl Hooks.step st) (ops.foldl astep a) := by
  induction ops with
  | nil => intro st a h; exact h
  | cons op ops ih => intro st a h; exact ih (h.step op)

theorem rel_run (ops : List Op) : Rel (run ops) (arun ops) := rel_foldl ops rel_init

/-! ### the abstract machine: fresh ids, accesses are no-ops -/

theorem astep_log (a : AState) (op : Op) :
    a.next ≤ (astep a op).next ∧ ∀ r ∈ (astep a op).log, r ∈ a.log ∨ a.next ≤ r.hf.id := by
  cases op with
  | add c t w b =>
    simp only [astep]
    split
    · refine ⟨by simp, ?_⟩
      intro r hr
      simp only [List.mem_append, List.mem_singleton] at hr
      rcases hr with hr | rfl
      · exact Or.inl hr
      · exact Or.inr (Nat.le_refl _)
    · exact ⟨Nat.le_refl _, fun r hr => Or.inl hr⟩
  | remove c id => exact ⟨Nat.le_refl _, fun r hr => Or.inl (List.mem_filter.1 hr).1⟩
  | defClass c m hook => simp only [astep]; split <;> exact ⟨Nat.le_refl _, fun r hr => Or.inl hr⟩
  | extension c => simp only [astep]; split <;> exact ⟨Nat.le_refl _, fun r hr => Or.inl hr⟩
  | touchClass c => exact ⟨Nat.le_refl _, fun r hr => Or.inl hr⟩
  | touchInst c => exact ⟨Nat.le_refl _, fun r hr => Or.inl hr⟩
  | readFns c => exact ⟨Nat.le_refl _, fun r hr => Or.inl hr⟩
  | read c => exact ⟨Nat.le_refl _, fun r hr => Or.inl hr⟩
  | touchVia v c => exact ⟨Nat.le_refl _, fun r hr => Or.inl hr⟩
  | readVia v c => exact ⟨Nat.le_refl _, fun r hr => Or.inl hr⟩

theorem afoldl_log (ops : List Op) : ∀ (a : AState),
    a.next ≤ (ops.foldl astep a).next ∧ ∀ r ∈ (ops.foldl astep a).log, r ∈ a.log ∨ a.next ≤ r.hf.id := by
  induction ops with
  | nil => intro a; exact ⟨Nat.le_refl _, fun r hr => Or.inl hr⟩
  | cons op ops ih =>
    intro a
    obtain ⟨n1, l1⟩ := astep_log a op
    obtain ⟨n2, l2⟩ := ih (astep a op)
    refine ⟨Nat.le_trans n1 n2, ?_⟩
    intro r hr
    rcases l2 r hr with h | h
    · exact l1 r h
    · exact Or.inr (Nat.le_trans n1 h)

theorem astep_touch (a : AState) (op : Op) (h : op.isTouch = true) : astep a op = a := by
  cases op <;> simp [Op.isTouch] at h <;> rfl

theorem afoldl_filter (ops : List Op) : ∀ (a : AState),
    (ops.filter fun o => !o.isTouch).foldl astep a = ops.foldl astep a := by
  induction ops with
  | nil => intro a; rfl
  | cons op ops ih =>
    intro a
    by_cases h : op.isTouch = true
    · simp [h, astep_touch a op h, ih]
    · simp [h, ih]

/-! ### appending operations to a history -/

theorem liveLog_append (ops ops' : List Op) : liveLog (ops ++ ops') = (ops'.foldl astep (arun ops)).log := by
  simp only [liveLog, arun, List.foldl_append]

theorem run_add_mro (ops : List Op) (c : Cls) (t : Tier) (w : Bool) (b : Body) :
    (run (ops ++ [.add c t w b])).mro = (run ops).mro := by
  rw [(rel_run _).mro_eq, (rel_run _).mro_eq]
  simp only [arun, List.foldl_append, List.foldl_cons, List.foldl_nil, astep]
  split <;> rfl

theorem run_remove_mro (ops : List Op) (c : Cls) (id : Nat) : (run (ops ++ [.remove c id])).mro = (run ops).mro := by
  rw [(rel_run _).mro_eq, (rel_run _).mro_eq]
  simp only [arun, List.foldl_append, List.foldl_cons, List.foldl_nil, astep]

theorem afoldl_touch (mid : List Op) (hmid : ∀ o ∈ mid, o.isTouch = true) (a : AState) : mid.foldl astep a = a := by
  induction mid generalizing a with
  | nil => rfl
  | cons o mid ih =>
    simp only [List.foldl_cons]
    rw [astep_touch a o (hmid o (by simp))]
    exact ih (fun o ho => hmid o (by simp [ho])) a

end Hooks
