import PyrollModel.Handover
import PyrollProofs.RealNum
/-!
Real-number helper lemmas for C06: python `sum`/`prod` as `List.sum`/`List.prod`, a value threaded through a list of
steps by an additive formula (`thread_additive`, `threadAll_sorted`), and the telescoping product of area ratios along a
chain of units (`prod_ratio_telescopes`).
-/
namespace Handover

theorem foldl_add_real (a : ℝ) (xs : List ℝ) : xs.foldl (· + ·) a = a + xs.sum := by
  induction xs generalizing a with
  | nil => simp
  | cons x xs ih => simp [ih, add_assoc]

theorem foldl_mul_real (a : ℝ) (xs : List ℝ) : xs.foldl (· * ·) a = a * xs.prod := by
  induction xs generalizing a with
  | nil => simp
  | cons x xs ih => simp [ih, mul_assoc]

theorem pySum_real (xs : List ℝ) : pySum xs = xs.sum := by
  simp [pySum, foldl_add_real]

theorem pyProd_real (xs : List ℝ) : pyProd xs = xs.prod := by
  simp [pyProd, foldl_mul_real]

/-- the two-variable environment `thread` evaluates its formula in -/
noncomputable def env2 (vIn vStep : String) (x s : ℝ) : String → ℝ :=
  fun n => if n = vIn then x else if n = vStep then s else PyNum.nat 0

theorem thread_cons (e : Expr) (vIn vStep : String) (x s : ℝ) (ss : List ℝ) :
    thread e vIn vStep x (s :: ss) = thread e vIn vStep (e.eval (env2 vIn vStep x s)) ss := rfl

theorem threadAll_cons (e : Expr) (vIn vStep : String) (x s : ℝ) (ss : List ℝ) :
    threadAll e vIn vStep x (s :: ss) = x :: threadAll e vIn vStep (e.eval (env2 vIn vStep x s)) ss := rfl

/-- a formula that adds the step to the threaded value accumulates the sum of the steps -/
theorem thread_additive (e : Expr) (vIn vStep : String) (hadd : ∀ x s : ℝ, e.eval (env2 vIn vStep x s) = x + s)
    (x : ℝ) (ss : List ℝ) : thread e vIn vStep x ss = x + ss.sum := by
  induction ss generalizing x with
  | nil => simp [thread]
  | cons s ss ih => rw [thread_cons, hadd, ih]; simp [add_assoc]

theorem threadAll_head (e : Expr) (vIn vStep : String) (x : ℝ) (ss : List ℝ) :
    ∃ t, threadAll e vIn vStep x ss = x :: t := by
  cases ss with
  | nil => exact ⟨[], rfl⟩
  | cons s ss => exact ⟨_, rfl⟩

/-- … and with non-negative steps every later value is at least every earlier one -/
theorem threadAll_sorted (e : Expr) (vIn vStep : String) (hadd : ∀ x s : ℝ, e.eval (env2 vIn vStep x s) = x + s)
    (x : ℝ) (ss : List ℝ) (hpos : ∀ s ∈ ss, 0 ≤ s) : (threadAll e vIn vStep x ss).Pairwise (· ≤ ·) := by
  induction ss generalizing x with
  | nil => simp [threadAll]
  | cons s ss ih =>
    rw [threadAll_cons, hadd]
    have hs : 0 ≤ s := hpos s (by simp)
    have ih' := ih (x + s) (fun t ht => hpos t (by simp [ht]))
    rw [List.pairwise_cons]
    refine ⟨?_, ih'⟩
    intro y hy
    -- every element of the tail is ≥ its head x + s
    obtain ⟨t, ht⟩ := threadAll_head e vIn vStep (x + s) ss
    rw [ht] at hy ih'
    rw [List.pairwise_cons] at ih'
    rcases List.mem_cons.mp hy with h | h
    · subst h; linarith
    · have := ih'.1 y h; linarith

theorem threadAll_last (e : Expr) (vIn vStep : String) (x : ℝ) (ss : List ℝ) :
    (threadAll e vIn vStep x ss).getLast? = some (thread e vIn vStep x ss) := by
  induction ss generalizing x with
  | nil => simp [threadAll, thread]
  | cons s ss ih =>
    rw [threadAll_cons, thread_cons]
    obtain ⟨t, ht⟩ := threadAll_head e vIn vStep (e.eval (env2 vIn vStep x s)) ss
    have := ih (e.eval (env2 vIn vStep x s))
    rw [ht] at this ⊢
    rw [List.getLast?_cons_cons]; exact this

/-- areas handed along a chain of units: each unit is (incoming area, outgoing area); the first unit's incoming area is
    `a`, every next unit's incoming area is its predecessor's outgoing area -/
def AreaChain : ℝ → List (ℝ × ℝ) → Prop
  | _, [] => True
  | a, u :: us => u.1 = a ∧ AreaChain u.2 us

def lastArea : ℝ → List (ℝ × ℝ) → ℝ
  | a, [] => a
  | _, u :: us => lastArea u.2 us

theorem lastArea_ne_zero (a : ℝ) (us : List (ℝ × ℝ)) (ha : a ≠ 0) (hne : ∀ u ∈ us, u.2 ≠ 0) :
    lastArea a us ≠ 0 := by
  induction us generalizing a with
  | nil => simpa [lastArea]
  | cons u us ih =>
    simp only [lastArea]
    exact ih u.2 (hne u (by simp)) (fun v hv => hne v (by simp [hv]))

theorem prod_ratio_telescopes (a0 : ℝ) (us : List (ℝ × ℝ)) (hc : AreaChain a0 us) (h0 : a0 ≠ 0)
    (hne : ∀ u ∈ us, u.2 ≠ 0) : (us.map fun u => u.1 / u.2).prod = a0 / lastArea a0 us := by
  induction us generalizing a0 with
  | nil => simp [lastArea, h0]
  | cons u us ih =>
    obtain ⟨h1, h2⟩ := hc
    have hu : u.2 ≠ 0 := hne u (by simp)
    have hrest : ∀ v ∈ us, v.2 ≠ 0 := fun v hv => hne v (by simp [hv])
    have := ih u.2 h2 hu hrest
    simp only [List.map_cons, List.prod_cons, this, lastArea, h1]
    have hl : lastArea u.2 us ≠ 0 := lastArea_ne_zero _ _ hu hrest
    field_simp
end Handover
