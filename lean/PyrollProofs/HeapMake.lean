import PyrollProofs.HeapEdit

/-! Helper lemmas for C12, part 7: the construction of a roll pass (`Heap.mkPass` = `SymmetricRollPass.__init__`).
What the heap looks like afterwards (form `copy`), that it stays well-formed and typed, and what the new pass owns. -/

namespace Heap

theorem mkPass_id (rs : RollStore) (s : S) (rot : Bool) (disks t : Nat) : (mkPass rs s rot disks t).2 = s.h.next := by
  cases rs <;> rfl

theorem mkPass_copy_next (s : S) (rot : Bool) (disks t : Nat) :
    (mkPass .copy s rot disks t).1.h.next = s.h.next + 3 := rfl

theorem mkPass_copy_tr (s : S) (rot : Bool) (disks t : Nat) :
    (mkPass .copy s rot disks t).1.tr =
      s.tr ++ [.alloc s.h.next, .alloc (s.h.next + 1), .write s.h.next fSUB, .alloc (s.h.next + 2),
               .write s.h.next fROLL] := by
  simp [mkPass, newUnit, S.alloc, S.write, H.upd]

/-- the heap after `TwoRollPass(roll=t, …)` in the form `copy`: three new objects - the pass `n`, its empty sub-unit
list `n + 1`, its OWN roll `n + 2` (public entries of `t` by reference, back-link to `n`, empty cache) - and every
object that existed exactly as it was -/
theorem mkPass_copy_obj (s : S) (rot : Bool) (disks t : Nat) (ht : t < s.h.next) (i : Nat) :
    (mkPass .copy s rot disks t).1.h.obj i =
      if i = s.h.next then
        { kind := .unit, tag := 1, rot := rot, disks := disks, fields := [(fSUB, s.h.next + 1), (fROLL, s.h.next + 2)] }
      else if i = s.h.next + 1 then { kind := .subList, weak := some s.h.next }
      else if i = s.h.next + 2 then { kind := .passRoll, fields := pubFields s.h t, weak := some s.h.next }
      else s.h.obj i := by
  generalize hn : s.h.next = n at *
  have h1 : t ≠ n := by omega
  have h2 : t ≠ n + 1 := by omega
  have a2 : n ≠ n + 1 + 1 := by omega
  simp only [mkPass, newUnit, S.alloc, S.write, H.upd, rollCopy, pubFields, hn]
  by_cases e0 : i = n
  · subst e0; simp [fSUB, fROLL, setF, a2]
  · by_cases e1 : i = n + 1
    · subst e1; simp
    · by_cases e2 : i = n + 2
      · subst e2; simp [h1, h2]
      · simp [e0, e1, e2]

theorem mem_pubFields {h : H} {o : Nat} {e : Nat × Nat} (he : e ∈ pubFields h o) :
    e ∈ (h.obj o).fields ∧ isPublic e.1 = true := by
  simpa [pubFields, List.mem_filter] using he

theorem public_not_own {f : Nat} (hp : isPublic f = true) : isOwn f = false := by
  simp only [isPublic, decide_eq_true_eq] at hp
  simp only [isOwn, fOUT, fROLL, fSUB, Bool.or_eq_false_iff, beq_eq_false_iff_ne]
  omega

/-- construction keeps the heap well-formed and typed (so every theorem about solves / histories / deep copies applies
to heaps in which passes were built from the rolls of other passes) -/
theorem mkPass_copy_good {s : S} (g : Good s) (rot : Bool) (disks : Nat) {t : Nat} (ht : t < s.h.next) :
    Good (mkPass .copy s rot disks t).1 := by
  have ob := mkPass_copy_obj s rot disks t ht
  have hnx := mkPass_copy_next s rot disks t
  refine ⟨⟨?_, ?_⟩, ⟨?_, ?_⟩⟩
  · intro o ho
    rw [hnx] at ho
    rw [ob o, if_neg (by omega), if_neg (by omega), if_neg (by omega)]
    exact g.wf.fresh o (by omega)
  · intro o v hv
    rw [hnx]
    rw [ob o] at hv
    split at hv
    · simp [Obj.ptrs] at hv; omega
    · split at hv
      · simp [Obj.ptrs] at hv; omega
      · split at hv
        · rcases mem_ptrs.1 hv with ⟨f, he⟩ | hw | hi
          · have := g.wf.closed t v (mem_ptrs.2 (Or.inl ⟨f, (mem_pubFields he).1⟩))
            omega
          · cases hw; omega
          · cases hi
        · have := g.wf.closed o v hv; omega
  · intro o f v hf hg
    unfold getF at hg
    rw [ob o] at hg
    split at hg
    · simp only [List.lookup] at hg
      split at hg
      · cases hg
        rename_i hfe
        have : f = fSUB := by simpa using hfe
        subst this
        rw [ob]; simp [ownKind, fSUB, fOUT, fROLL]
      · split at hg
        · cases hg
          rename_i hfe
          have : f = fROLL := by simpa using hfe
          subst this
          rw [ob]; simp [ownKind, fOUT, fROLL]
        · cases hg
    · split at hg
      · simp at hg
      · split at hg
        · have hm := mem_pubFields (mem_of_lookup hg)
          rw [public_not_own hm.2] at hf
          cases hf
        · have hv : v < s.h.next := g.wf.getF_lt hg
          rw [ob v, if_neg (by omega), if_neg (by omega), if_neg (by omega)]
          exact g.typed.own o f v hf hg
  · intro l c hl hc
    rw [ob l] at hl hc
    by_cases e0 : l = s.h.next
    · rw [if_pos e0] at hl; cases hl
    · rw [if_neg e0] at hl hc
      by_cases e1 : l = s.h.next + 1
      · rw [if_pos e1] at hc; cases hc
      · rw [if_neg e1] at hl hc
        by_cases e2 : l = s.h.next + 2
        · rw [if_pos e2] at hl; cases hl
        · rw [if_neg e2] at hl hc
          have hv : c < s.h.next := g.wf.closed l c (mem_ptrs.2 (Or.inr (Or.inr hc)))
          rw [ob c, if_neg (by omega), if_neg (by omega), if_neg (by omega)]
          exact g.typed.items l c hl hc

/-- what the new pass owns: itself, its new (empty) sub-unit list, its new roll - nothing that existed before, in
particular not the roll object it was built from -/
theorem mkPass_copy_owned {s : S} (rot : Bool) (disks : Nat) {t : Nat} (ht : t < s.h.next) {o : Nat}
    (ho : Owned (mkPass .copy s rot disks t).1.h s.h.next o) : s.h.next ≤ o := by
  have ob := mkPass_copy_obj s rot disks t ht
  generalize hu : s.h.next = u at ho
  induction ho with
  | self u => omega
  | field hf hg =>
    subst hu
    unfold getF at hg
    rw [ob, if_pos rfl] at hg
    simp only [List.lookup] at hg
    split at hg
    · cases hg; omega
    · split at hg
      · cases hg; omega
      · cases hg
  | child hl hc _ _ =>
    subst hu
    unfold getF at hl
    rw [ob, if_pos rfl] at hl
    simp only [List.lookup] at hl
    have : (fSUB == fSUB) = true := by decide
    simp only [this] at hl
    cases hl
    rw [ob, if_neg (by omega), if_pos rfl] at hc
    cases hc

end Heap
