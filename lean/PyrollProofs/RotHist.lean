import PyrollProofs.RotLemmas

/-!
Helper lemmas for C14, part 2: the pre-processor loop of `Unit.init_solve` (`runPre`, `initSolve`, `applyPre`) and histories
(`goH`, `solveH`, `runHistory`: one sequence solved, edited, solved again, the roll passes keeping their cached `rotation`).
Generic in the tables; `PyrollProps/C14.lean` instantiates them with the generated ones.
-/

namespace Rot

/-- what the proofs use of `Unit.init_solve`: `None` is skipped, every pre-processor is fed the output of the one before,
the result of the chain becomes the in profile -/
def FlowThreads (F : FlowSpec) : Prop := F.skipsNone = true ∧ F.chains = true ∧ F.inFromChain = true

/-! ### the loop of `init_solve` -/

theorem runPre_threads {P : Type} {F : FlowSpec} (hF : FlowThreads F) (orig : P) :
    ∀ (pres : List (Option (P → P))) (cur : P),
      runPre F orig cur pres = some ((pres.filterMap id).foldl (fun q f => f q) cur)
  | [], cur => by simp [runPre]
  | none :: ps, cur => by simp [runPre, hF.1, runPre_threads hF orig ps cur]
  | some f :: ps, cur => by simp [runPre, hF.2.1, runPre_threads hF orig ps (f cur)]

theorem initSolve_threads {P : Type} {F : FlowSpec} (hF : FlowThreads F) (pres : List (Option (P → P))) (p : P) :
    initSolve F pres p = some ((pres.filterMap id).foldl (fun q f => f q) p) := by
  simp [initSolve, runPre_threads hF, hF.2.2]

section num
variable {α : Type} [PyNum α] {T : Tables}

/-- pre-processors that are not the rotator factory leave the profile as it is -/
theorem foldl_neutral (θ : Option α) : ∀ (l : List PreKind) (q : Prof α), PreKind.factory ∉ l →
    ((l.map (preFn T θ)).filterMap id).foldl (fun q f => f q) q = q
  | [], q, _ => by simp
  | k :: l, q, h => by
    have hk : k ≠ .factory := fun e => h (by simp [e])
    have hl : PreKind.factory ∉ l := fun e => h (by simp [e])
    cases k with
    | factory => exact absurd rfl hk
    | neutral => simpa [preFn] using foldl_neutral θ l q hl
    | absent => simpa [preFn] using foldl_neutral θ l q hl

/-- the pre-processor list of a pass class: `rotator_factory` exactly once, anything else around it -/
def OneFactory (pres : List PreKind) : Prop :=
  ∃ a b, pres = a ++ PreKind.factory :: b ∧ PreKind.factory ∉ a ∧ PreKind.factory ∉ b

theorem chain_result (θ : Option α) (pres : List PreKind) (h : OneFactory pres) (q : Prof α) :
    ((pres.map (preFn T θ)).filterMap id).foldl (fun q f => f q) q =
      match θ with
      | none => q
      | some θ => { turn := q.turn + θ, cls := marksOut T.marks q.cls θ } := by
  obtain ⟨a, b, rfl, ha, hb⟩ := h
  simp only [List.map_append, List.map_cons, List.filterMap_append, List.filterMap_cons, List.foldl_append]
  rw [foldl_neutral θ a q ha]
  cases θ with
  | none => simpa [preFn] using foldl_neutral (T := T) (none : Option α) b q hb
  | some θ => simpa [preFn] using foldl_neutral (T := T) (some θ) b _ hb

/-- the observations `enterPassV` can emit -/
inductive EntryShaped (T : Tables) (st : St α) : Obs α → Prop
  | err : EntryShaped T st .err
  | plain (v : RotVal α) : EntryShaped T st (.pass v none st.turn st.cls)
  | turned (v : RotVal α) (θ : α) : EntryShaped T st (.pass v (some θ) (st.turn + θ) (marksOut T.marks st.cls θ))

theorem enterPassV_shaped (st : St α) (v : Option (RotVal α)) (c : List String) :
    EntryShaped T st (enterPassV T st v c) := by
  unfold enterPassV
  cases v with
  | none => exact .err
  | some v =>
    simp only
    cases factory T.factory v with
    | none => exact .plain v
    | some a =>
      simp only
      cases resolveAngle T a st.cls (some c) with
      | none => exact .err
      | some θ => exact .turned v θ

/-- further pre-processors around the rotator factory do not change what arrives as in profile -/
theorem applyPre_shaped {F : FlowSpec} (hF : FlowThreads F) (st : St α) (pres : List PreKind) (h : OneFactory pres)
    (o : Obs α) (ho : EntryShaped T st o) : applyPre F T st pres o = o := by
  cases ho with
  | err => rfl
  | plain v => simp only [applyPre, initSolve_threads hF, chain_result none pres h]
  | turned v θ => simp only [applyPre, initSolve_threads hF, chain_result (some θ) pres h]

theorem enterPassV_eq (auto : Bool) (st : St α) (s : Setting α) (c : List String) :
    enterPassV T st (rotationValue T auto true st.before s) c = enterPass T auto st s c := by
  unfold enterPassV enterPass
  cases rotationValue T auto true st.before s <;> rfl

/-! ### histories -/

omit [PyNum α] in
/-- when the factory discards the cached value it sees what a fresh pass would see -/
theorem entryValue_fresh {C : CacheSpec} (hC : C.factoryDropsCache = true) (auto : Bool) (before : List Kind) (s : Setting α)
    (cached : Option Bool) : entryValue T C auto before s cached = rotationValue T auto true before s := by
  cases s <;> simp [entryValue, hC]

/-- all roll passes of the arrangement have a class whose pre-processors contain the rotator factory exactly once -/
def PresOk (us : List (Slot α)) : Prop := ∀ sl ∈ us, sl.u.isPass = true → OneFactory sl.pres

/-- **one iteration, any caches**: with a factory that discards the cached value, an iteration over units with identity and
arbitrary caches left by earlier solves emits exactly what `go` emits for fresh objects -/
theorem goH_fresh {F : FlowSpec} {C : CacheSpec} (hF : FlowThreads F) (hC : C.factoryDropsCache = true) (auto : Bool) :
    ∀ (us : List (Slot α)) (store : Store) (st : St α), PresOk us →
      (goH F T C auto store st us).1 = go T auto st (us.map Slot.u)
  | [], _, _, _ => by simp [goH, go]
  | ⟨i, u, pres⟩ :: us, store, st, h => by
    have hus : PresOk us := fun sl hsl => h sl (by simp [hsl])
    cases u with
    | pass s c =>
      have hp : OneFactory pres := h ⟨i, .pass s c, pres⟩ (by simp) rfl
      have ho : applyPre F T st pres (enterPassV T st (entryValue T C auto st.before s (store.get i)) c)
          = enterPass T auto st s c := by
        rw [entryValue_fresh hC, applyPre_shaped hF st pres hp _ (enterPassV_shaped st _ c), enterPassV_eq]
      simp only [goH, ho, List.map_cons, go]
      split
      · rfl
      · simp [goH_fresh hF hC auto us _ _ hus]
    | rotator a =>
      simp only [goH, List.map_cons, go]
      split
      · rfl
      · simp [goH_fresh hF hC auto us _ _ hus]
    | transport => simp [goH, go, goH_fresh hF hC auto us _ _ hus]
    | other => simp [goH, go, goH_fresh hF hC auto us _ _ hus]

theorem solveH_fresh {F : FlowSpec} {C : CacheSpec} (hF : FlowThreads F) (hC : C.factoryDropsCache = true) (auto : Bool)
    (us : List (Slot α)) (st : St α) (h : PresOk us) :
    ∀ (n : Nat) (store : Store), (solveH F T C auto n store st us).1 = go T auto st (us.map Slot.u)
  | 0, store => by simp [solveH, goH_fresh hF hC auto us store st h]
  | n + 1, store => by simp [solveH, solveH_fresh hF hC auto us st h n]

theorem runHistory_fresh {F : FlowSpec} {C : CacheSpec} (hF : FlowThreads F) (hC : C.factoryDropsCache = true)
    (cls0 : List String) :
    ∀ (hs : List (Step α)) (store : Store), (∀ h ∈ hs, PresOk h.us) →
      runHistory F T C cls0 store hs = hs.map (fun h => runSeq T h.auto cls0 (h.us.map Slot.u))
  | [], _, _ => by simp [runHistory]
  | h :: hs, store, hok => by
    simp only [runHistory, List.map_cons, runSeq]
    rw [solveH_fresh hF hC h.auto h.us _ (hok h (by simp)) h.extra store,
      runHistory_fresh hF hC cls0 hs _ (fun h' hh' => hok h' (by simp [hh']))]
    simp [runSeq]

end num

end Rot

/-! ## the second outer iteration repairs a stale first one (source shape without the discarding statement) -/

namespace Rot

/-! ### the caches after one iteration -/

theorem Store.get_set_self (s : Store) (i : Nat) (b : Bool) : (s.set i b).get i = some b := by
  simp [Store.get, Store.set]

theorem Store.get_erase_ne (s : Store) (i j : Nat) (h : j ≠ i) : (s.erase i).get j = s.get j := by
  induction s with
  | nil => rfl
  | cons e s ih =>
    obtain ⟨k, b⟩ := e
    simp only [Store.get, Store.erase] at ih ⊢
    by_cases hk : k = i
    · subst hk
      have : (j == k) = false := by simpa using h
      simp [List.filter, List.lookup, this, ih]
    · have hk' : (k != i) = true := by simpa using hk
      simp only [List.filter, hk', List.lookup]
      cases hjk : (j == k) <;> simp [ih]

theorem Store.get_erase_self (s : Store) (i : Nat) : (s.erase i).get i = none := by
  induction s with
  | nil => rfl
  | cons e s ih =>
    obtain ⟨k, b⟩ := e
    simp only [Store.get, Store.erase] at ih ⊢
    by_cases hk : k = i
    · subst hk
      simp [List.filter, ih]
    · have hk' : (k != i) = true := by simpa using hk
      have : (i == k) = false := by simpa using fun e => hk e.symm
      simp [List.filter, hk', List.lookup, this, ih]

theorem Store.get_set_ne (s : Store) (i j : Nat) (b : Bool) (h : j ≠ i) : (s.set i b).get j = s.get j := by
  have : (j == i) = false := by simpa using h
  have h2 := Store.get_erase_ne s i j h
  simp only [Store.get] at h2
  simp [Store.get, Store.set, List.lookup, this, h2]

end Rot

namespace Rot
section num
variable {α : Type} [PyNum α] {T : Tables}

/-- identities of the roll passes of an arrangement -/
def passIds : List (Slot α) → List Nat
  | [] => []
  | ⟨i, .pass _ _, _⟩ :: us => i :: passIds us
  | ⟨_, .rotator _, _⟩ :: us => passIds us
  | ⟨_, .transport, _⟩ :: us => passIds us
  | ⟨_, .other, _⟩ :: us => passIds us

/-- the caches hold, for every roll pass the run reaches, nothing or the value the hook functions give in this arrangement -/
def Good (T : Tables) (auto : Bool) : Store → St α → List (Slot α) → Prop
  | _, _, [] => True
  | store, st, ⟨i, .pass _ c, _⟩ :: us =>
    (store.get i = none ∨ store.get i = fnValue T auto true st.before) ∧
      Good T auto store { before := .pass :: st.before, cls := c, turn := PyNum.nat 0 } us
  | store, st, ⟨_, .rotator a, _⟩ :: us =>
    match resolveAngle T a st.cls (nextPassCls (us.map Slot.u)) with
    | none => True
    | some θ => Good T auto store { before := .rotator :: st.before, cls := marksOut T.marks st.cls θ, turn := st.turn + θ } us
  | store, st, ⟨_, .transport, _⟩ :: us => Good T auto store { st with before := .transport :: st.before } us
  | store, st, ⟨_, .other, _⟩ :: us => Good T auto store { st with before := .other :: st.before } us

theorem Good_congr (auto : Bool) (s1 s2 : Store) : ∀ (us : List (Slot α)) (st : St α),
    (∀ j ∈ passIds us, s2.get j = s1.get j) → Good T auto s1 st us → Good T auto s2 st us
  | [], _, _, _ => trivial
  | ⟨i, u, pres⟩ :: us, st, h, hg => by
    cases u with
    | pass s c =>
      simp only [Good] at hg ⊢
      have hi := h i (by simp [passIds])
      refine ⟨by rw [hi]; exact hg.1, Good_congr auto s1 s2 us _ (fun j hj => h j (by simp [passIds, hj])) hg.2⟩
    | rotator a =>
      simp only [Good] at hg ⊢
      split
      · trivial
      · rename_i θ hθ
        rw [hθ] at hg
        exact Good_congr auto s1 s2 us _ (fun j hj => h j (by simpa [passIds] using hj)) hg
    | transport =>
      simp only [Good] at hg ⊢
      exact Good_congr auto s1 s2 us _ (fun j hj => h j (by simpa [passIds] using hj)) hg
    | other =>
      simp only [Good] at hg ⊢
      exact Good_congr auto s1 s2 us _ (fun j hj => h j (by simpa [passIds] using hj)) hg

omit [PyNum α] in
theorem rotationValue_unset_fn (auto hp : Bool) (before : List Kind) :
    rotationValue (α := α) T auto hp before .unset = (fnValue T auto hp before).map RotVal.ofBool := rfl

omit [PyNum α] in
/-- a cache that is empty or up to date does not change what the factory sees -/
theorem entryValue_good (C : CacheSpec) (auto : Bool) (before : List Kind) (s : Setting α) (cached : Option Bool)
    (h : cached = none ∨ cached = fnValue T auto true before) :
    entryValue T C auto before s cached = rotationValue T auto true before s := by
  cases s with
  | unset =>
    simp only [entryValue]
    split
    · rfl
    · rcases h with rfl | rfl
      · rfl
      · rw [rotationValue_unset_fn]
        cases fnValue T auto true before <;> rfl
  | tt => rfl
  | ff => rfl
  | num x => rfl

/-- the store after a pass: what `goH` writes -/
def storeAfter (T : Tables) (C : CacheSpec) (auto : Bool) (store : Store) (before : List Kind) (i : Nat) (s : Setting α) : Store :=
  match cacheAfter T C auto before s (store.get i) with
  | some b => store.set i b
  | none => store.erase i

omit [PyNum α] in
theorem storeAfter_other (C : CacheSpec) (auto : Bool) (store : Store) (before : List Kind) (i j : Nat) (s : Setting α)
    (h : j ≠ i) : (storeAfter T C auto store before i s).get j = store.get j := by
  unfold storeAfter
  split
  · exact Store.get_set_ne _ _ _ _ h
  · exact Store.get_erase_ne _ _ _ h

omit [PyNum α] in
theorem storeAfter_self (C : CacheSpec) (auto : Bool) (store : Store) (before : List Kind) (i : Nat) (s : Setting α) :
    (storeAfter T C auto store before i s).get i = none ∨
      (storeAfter T C auto store before i s).get i = fnValue T auto true before := by
  unfold storeAfter
  split
  · rename_i b hb
    right
    rw [Store.get_set_self]
    cases s <;> simp only [cacheAfter] at hb
    · exact hb.symm
    all_goals
      split at hb
      · cases hb
      · split at hb
        · exact hb.symm
        · cases hb
  · left; exact Store.get_erase_self _ _

end num
end Rot

namespace Rot
section num2
variable {α : Type} [PyNum α] {T : Tables}

theorem goH_pass_eq (F : FlowSpec) (C : CacheSpec) (auto : Bool) (store : Store) (st : St α) (i : Nat) (s : Setting α)
    (c : List String) (pres : List PreKind) (us : List (Slot α)) :
    goH F T C auto store st (⟨i, .pass s c, pres⟩ :: us) =
      (let o := applyPre F T st pres (enterPassV T st (entryValue T C auto st.before s (store.get i)) c)
       if o.isErr then ([o], store) else
         let r := goH F T C auto (storeAfter T C auto store st.before i s)
           { before := .pass :: st.before, cls := c, turn := PyNum.nat 0 } us
         (o :: r.1, r.2)) := rfl

/-- an iteration leaves the caches of passes that are not in the arrangement alone -/
theorem goH_get_other (F : FlowSpec) (C : CacheSpec) (auto : Bool) : ∀ (us : List (Slot α)) (store : Store) (st : St α) (j : Nat),
    j ∉ passIds us → (goH F T C auto store st us).2.get j = store.get j
  | [], _, _, _, _ => rfl
  | ⟨i, u, pres⟩ :: us, store, st, j, hj => by
    cases u with
    | pass s c =>
      have hji : j ≠ i := fun e => hj (by simp [passIds, e])
      have hju : j ∉ passIds us := fun e => hj (by simp [passIds, e])
      rw [goH_pass_eq]
      simp only
      split
      · rfl
      · simp only
        rw [goH_get_other F C auto us _ _ j hju, storeAfter_other C auto store st.before i j s hji]
    | rotator a =>
      have hju : j ∉ passIds us := by simpa [passIds] using hj
      simp only [goH]
      split
      · rfl
      · exact goH_get_other F C auto us _ _ j hju
    | transport =>
      have hju : j ∉ passIds us := by simpa [passIds] using hj
      simp only [goH]
      exact goH_get_other F C auto us _ _ j hju
    | other =>
      have hju : j ∉ passIds us := by simpa [passIds] using hj
      simp only [goH]
      exact goH_get_other F C auto us _ _ j hju

/-- **A**: with caches that are empty or up to date an iteration emits what `go` emits -/
theorem goH_of_good {F : FlowSpec} (hF : FlowThreads F) (C : CacheSpec) (auto : Bool) :
    ∀ (us : List (Slot α)) (store : Store) (st : St α), PresOk us → (passIds us).Nodup → Good T auto store st us →
      (goH F T C auto store st us).1 = go T auto st (us.map Slot.u)
  | [], _, _, _, _, _ => by simp [goH, go]
  | ⟨i, u, pres⟩ :: us, store, st, h, hn, hg => by
    have hus : PresOk us := fun sl hsl => h sl (by simp [hsl])
    cases u with
    | pass s c =>
      have hp : OneFactory pres := h ⟨i, .pass s c, pres⟩ (by simp) rfl
      simp only [passIds, List.nodup_cons] at hn
      simp only [Good] at hg
      have ho : applyPre F T st pres (enterPassV T st (entryValue T C auto st.before s (store.get i)) c)
          = enterPass T auto st s c := by
        rw [entryValue_good C auto st.before s _ hg.1, applyPre_shaped hF st pres hp _ (enterPassV_shaped st _ c),
          enterPassV_eq]
      rw [goH_pass_eq]
      simp only [ho, List.map_cons, go]
      split
      · rfl
      · have hg' : Good T auto (storeAfter T C auto store st.before i s)
            { before := .pass :: st.before, cls := c, turn := PyNum.nat 0 } us :=
          Good_congr auto store _ us _ (fun j hj => storeAfter_other C auto store st.before i j s
            (fun e => hn.1 (e ▸ hj))) hg.2
        simp [goH_of_good hF C auto us _ _ hus hn.2 hg']
    | rotator a =>
      have hn' : (passIds us).Nodup := by simpa [passIds] using hn
      simp only [Good] at hg
      simp only [goH, List.map_cons, go]
      split
      · rfl
      · rename_i θ hθ
        rw [hθ] at hg
        simp [goH_of_good hF C auto us _ _ hus hn' hg]
    | transport =>
      have hn' : (passIds us).Nodup := by simpa [passIds] using hn
      simp only [Good] at hg
      simp [goH, go, goH_of_good hF C auto us _ _ hus hn' hg]
    | other =>
      have hn' : (passIds us).Nodup := by simpa [passIds] using hn
      simp only [Good] at hg
      simp [goH, go, goH_of_good hF C auto us _ _ hus hn' hg]

omit [PyNum α] in
theorem entryValue_isSome (hT : AsRead T) (C : CacheSpec) (auto : Bool) (before : List Kind) (s : Setting α) (cached : Option Bool) :
    ∃ v, entryValue T C auto before s cached = some v := by
  cases s with
  | unset =>
    simp only [entryValue]
    split
    · exact ⟨_, rotationValue_unset hT auto true before⟩
    · split
      · exact ⟨_, rfl⟩
      · exact ⟨_, rotationValue_unset hT auto true before⟩
  | tt => exact ⟨_, rfl⟩
  | ff => exact ⟨_, rfl⟩
  | num x => exact ⟨_, rfl⟩

theorem enterPassV_some_not_err (hT : AsRead T) (st : St α) (v : RotVal α) (c : List String) :
    (enterPassV T st (some v) c).isErr = false := by
  simp only [enterPassV]
  cases hf : factory T.factory v with
  | none => rfl
  | some a =>
    cases a with
    | some x => simp [resolveAngle, Obs.isErr]
    | none =>
      obtain ⟨n, hn⟩ := ruleAngle_total hT st.cls c
      simp [resolveAngle, hn, Obs.isErr]

/-- **B**: after one iteration — from ANY caches — the caches of the passes the run reaches are empty or up to date -/
theorem goH_makes_good (hT : AsRead T) {F : FlowSpec} (hF : FlowThreads F) (C : CacheSpec) (auto : Bool) :
    ∀ (us : List (Slot α)) (store : Store) (st : St α), PresOk us → (passIds us).Nodup →
      Good T auto (goH F T C auto store st us).2 st us
  | [], _, _, _, _ => trivial
  | ⟨i, u, pres⟩ :: us, store, st, h, hn => by
    have hus : PresOk us := fun sl hsl => h sl (by simp [hsl])
    cases u with
    | pass s c =>
      have hp : OneFactory pres := h ⟨i, .pass s c, pres⟩ (by simp) rfl
      simp only [passIds, List.nodup_cons] at hn
      obtain ⟨v, hv⟩ := entryValue_isSome hT C auto st.before s (store.get i)
      have hne : (applyPre F T st pres (enterPassV T st (entryValue T C auto st.before s (store.get i)) c)).isErr = false := by
        rw [applyPre_shaped hF st pres hp _ (enterPassV_shaped st _ c), hv]
        exact enterPassV_some_not_err hT st v c
      rw [goH_pass_eq]
      simp only [hne, Bool.false_eq_true, if_false, Good]
      refine ⟨?_, goH_makes_good hT hF C auto us _ _ hus hn.2⟩
      rw [goH_get_other F C auto us _ _ i hn.1]
      exact storeAfter_self C auto store st.before i s
    | rotator a =>
      have hn' : (passIds us).Nodup := by simpa [passIds] using hn
      cases hθ : resolveAngle T a st.cls (nextPassCls (us.map Slot.u)) with
      | none => simp [Good, hθ]
      | some θ =>
        simp only [goH, Good, hθ]
        exact goH_makes_good hT hF C auto us _ _ hus hn'
    | transport =>
      have hn' : (passIds us).Nodup := by simpa [passIds] using hn
      simp only [goH, Good]
      exact goH_makes_good hT hF C auto us _ _ hus hn'
    | other =>
      have hn' : (passIds us).Nodup := by simpa [passIds] using hn
      simp only [goH, Good]
      exact goH_makes_good hT hF C auto us _ _ hus hn'

theorem solveH_of_good (hT : AsRead T) {F : FlowSpec} (hF : FlowThreads F) (C : CacheSpec) (auto : Bool) (us : List (Slot α))
    (st : St α) (h : PresOk us) (hn : (passIds us).Nodup) :
    ∀ (n : Nat) (store : Store), Good T auto store st us → (solveH F T C auto n store st us).1 = go T auto st (us.map Slot.u)
  | 0, store, hg => by simp [solveH, goH_of_good hF C auto us store st h hn hg]
  | n + 1, store, _ => by
    simp only [solveH]
    exact solveH_of_good hT hF C auto us st h hn n _ (goH_makes_good hT hF C auto us store st h hn)

/-- **from the second outer iteration on the final state is that of a fresh sequence**, whatever the caches were and whether
or not the factory discards them -/
theorem solveH_second_iteration (hT : AsRead T) {F : FlowSpec} (hF : FlowThreads F) (C : CacheSpec) (auto : Bool)
    (us : List (Slot α)) (st : St α) (h : PresOk us) (hn : (passIds us).Nodup) (n : Nat) (store : Store) :
    (solveH F T C auto (n + 1) store st us).1 = go T auto st (us.map Slot.u) := by
  simp only [solveH]
  exact solveH_of_good hT hF C auto us st h hn n _ (goH_makes_good hT hF C auto us store st h hn)

end num2
end Rot
