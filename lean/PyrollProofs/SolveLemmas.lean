import PyrollModel.Solve
import Mathlib.Tactic

/-!
Helper lemmas about the solve-loop model (C05): everything here is about `Solve.loop` for an arbitrary carrier,
comparison, step and state — plain inductions on the budget.
-/

namespace Solve

variable {α S S' : Type}

/-- `_old_results` as a function of the vectors that did NOT pass the test (newest first) and the carried value -/
def OldOf (old0 : Old α) : List (List α) → Old α
  | [] => old0
  | v :: _ => .vec v

/-- every vector of the list (newest first) was compared with its predecessor (the carried value for the oldest)
    and did not pass -/
def AllDisagree (w : α → α → Bool) (allQ : Bool) (old0 : Old α) : List (List α) → Prop
  | [] => True
  | cur :: rest => test w allQ cur (OldOf old0 rest) = some false ∧ AllDisagree w allQ old0 rest

/-- the loop was left by `break` -/
def LoopOut.quiet (r : LoopOut α S) : Prop := r.warned = false ∧ r.exc = none

section loop
variable (w : α → α → Bool) (allQ : Bool) (step : S → S × Except Exc (List α))

theorem loop_zero (old : Old α) (s : S) (tr : List (List α)) :
    loop w allQ step 0 old s tr = { old := old, st := s, trace := tr, warned := true, exc := none } := rfl

theorem loop_succ_error {s s' : S} {e : Exc} (h : step s = (s', .error e)) (fuel : Nat) (old : Old α)
    (tr : List (List α)) :
    loop w allQ step (fuel + 1) old s tr = { old := old, st := s', trace := tr, warned := false, exc := some e } := by
  simp [loop, h]

theorem loop_succ_none {s s' : S} {cur : List α} {old : Old α} (h : step s = (s', .ok cur))
    (ht : test w allQ cur old = none) (fuel : Nat) (tr : List (List α)) :
    loop w allQ step (fuel + 1) old s tr =
      { old := old, st := s', trace := tr, warned := false, exc := some .valueError } := by
  simp [loop, h, ht]

theorem loop_succ_true {s s' : S} {cur : List α} {old : Old α} (h : step s = (s', .ok cur))
    (ht : test w allQ cur old = some true) (fuel : Nat) (tr : List (List α)) :
    loop w allQ step (fuel + 1) old s tr =
      { old := old, st := s', trace := cur :: tr, warned := false, exc := none } := by
  simp [loop, h, ht]

theorem loop_succ_false {s s' : S} {cur : List α} {old : Old α} (h : step s = (s', .ok cur))
    (ht : test w allQ cur old = some false) (fuel : Nat) (tr : List (List α)) :
    loop w allQ step (fuel + 1) old s tr = loop w allQ step fuel (.vec cur) s' (cur :: tr) := by
  simp [loop, h, ht]

/-- case analysis of one loop body -/
theorem loop_cases (fuel : Nat) (old : Old α) (s : S) (tr : List (List α)) :
    (∃ s' e, step s = (s', .error e) ∧
      loop w allQ step (fuel + 1) old s tr = { old := old, st := s', trace := tr, warned := false, exc := some e }) ∨
    (∃ s' cur, step s = (s', .ok cur) ∧ test w allQ cur old = none ∧
      loop w allQ step (fuel + 1) old s tr =
        { old := old, st := s', trace := tr, warned := false, exc := some .valueError }) ∨
    (∃ s' cur, step s = (s', .ok cur) ∧ test w allQ cur old = some true ∧
      loop w allQ step (fuel + 1) old s tr = { old := old, st := s', trace := cur :: tr, warned := false, exc := none }) ∨
    (∃ s' cur, step s = (s', .ok cur) ∧ test w allQ cur old = some false ∧
      loop w allQ step (fuel + 1) old s tr = loop w allQ step fuel (.vec cur) s' (cur :: tr)) := by
  rcases hs : step s with ⟨s', r⟩
  cases r with
  | error e => exact .inl ⟨s', e, rfl, loop_succ_error w allQ step hs fuel old tr⟩
  | ok cur =>
    rcases ht : test w allQ cur old with _ | b
    · exact .inr (.inl ⟨s', cur, rfl, ht, loop_succ_none w allQ step hs ht fuel tr⟩)
    · cases b with
      | true => exact .inr (.inr (.inl ⟨s', cur, rfl, ht, loop_succ_true w allQ step hs ht fuel tr⟩))
      | false => exact .inr (.inr (.inr ⟨s', cur, rfl, ht, loop_succ_false w allQ step hs ht fuel tr⟩))

/-- the trace only grows, by at most the budget -/
theorem loop_trace (fuel : Nat) : ∀ (old : Old α) (s : S) (tr : List (List α)),
    ∃ new, (loop w allQ step fuel old s tr).trace = new ++ tr ∧ new.length ≤ fuel := by
  induction fuel with
  | zero => intro old s tr; exact ⟨[], rfl, Nat.le_refl _⟩
  | succ fuel ih =>
    intro old s tr
    rcases loop_cases w allQ step fuel old s tr with ⟨s', e, _, h⟩ | ⟨s', cur, _, _, h⟩ | ⟨s', cur, _, _, h⟩ |
      ⟨s', cur, _, _, h⟩
    · rw [h]; exact ⟨[], rfl, Nat.zero_le _⟩
    · rw [h]; exact ⟨[], rfl, Nat.zero_le _⟩
    · rw [h]; exact ⟨[cur], rfl, by simp⟩
    · rw [h]
      obtain ⟨new, hn, hl⟩ := ih (.vec cur) s' (cur :: tr)
      exact ⟨new ++ [cur], by simp [hn], by simp; omega⟩

/-- the warning is logged only when the whole budget was used, and then nothing was raised -/
theorem loop_warned (fuel : Nat) : ∀ (old : Old α) (s : S) (tr : List (List α)),
    (loop w allQ step fuel old s tr).warned = true →
      (loop w allQ step fuel old s tr).exc = none ∧ (loop w allQ step fuel old s tr).trace.length = tr.length + fuel := by
  induction fuel with
  | zero => intro old s tr _; exact ⟨rfl, rfl⟩
  | succ fuel ih =>
    intro old s tr
    rcases loop_cases w allQ step fuel old s tr with ⟨s', e, _, h⟩ | ⟨s', cur, _, _, h⟩ | ⟨s', cur, _, _, h⟩ |
      ⟨s', cur, _, _, h⟩
    · rw [h]; intro hw; simp at hw
    · rw [h]; intro hw; simp at hw
    · rw [h]; intro hw; simp at hw
    · rw [h]; intro hw
      obtain ⟨h1, h2⟩ := ih (.vec cur) s' (cur :: tr) hw
      exact ⟨h1, by rw [h2]; simp; omega⟩

/-- the vectors that did not pass the test -/
def LoopOut.failed (r : LoopOut α S) : List (List α) :=
  if r.warned = false ∧ r.exc = none then r.trace.tail else r.trace

/-- **the invariant**: whatever way the loop is left, `_old_results` is the newest vector that did not pass the test
    (the carried value if there is none), every such vector was compared with its predecessor and failed, and when
    the loop was left by `break` the newest vector passed the test against `_old_results`. -/
theorem loop_inv (old0 : Old α) (fuel : Nat) : ∀ (old : Old α) (s : S) (tr : List (List α)),
    old = OldOf old0 tr → AllDisagree w allQ old0 tr →
    let r := loop w allQ step fuel old s tr
    r.old = OldOf old0 r.failed ∧ AllDisagree w allQ old0 r.failed ∧
      (r.quiet → ∃ cur, r.trace = cur :: r.failed ∧ test w allQ cur r.old = some true) := by
  induction fuel with
  | zero =>
    intro old s tr ho ha
    simp only [loop_zero, LoopOut.failed, LoopOut.quiet]
    simp [ho, ha]
  | succ fuel ih =>
    intro old s tr ho ha
    rcases loop_cases w allQ step fuel old s tr with ⟨s', e, _, h⟩ | ⟨s', cur, _, _, h⟩ | ⟨s', cur, _, ht, h⟩ |
      ⟨s', cur, _, ht, h⟩
    · simp only [h, LoopOut.failed, LoopOut.quiet]; simp [ho, ha]
    · simp only [h, LoopOut.failed, LoopOut.quiet]; simp [ho, ha]
    · simp only [h, LoopOut.failed, LoopOut.quiet]
      simp only [and_self, if_true, List.tail_cons]
      exact ⟨ho, ha, fun _ => ⟨cur, rfl, ht⟩⟩
    · simp only [h]
      exact ih (.vec cur) s' (cur :: tr) rfl ⟨by rw [← ho]; exact ht, ha⟩

/-- two runs whose loop bodies produce the same vectors / exceptions from related states stay related and are
    indistinguishable from outside (simulation) -/
theorem loop_sim (step' : S' → S' × Except Exc (List α)) (R : S → S' → Prop)
    (hR : ∀ s s', R s s' → (step s).2 = (step' s').2 ∧ R (step s).1 (step' s').1) (fuel : Nat) :
    ∀ (old : Old α) (s : S) (s' : S') (tr : List (List α)), R s s' →
      let r := loop w allQ step fuel old s tr
      let r' := loop w allQ step' fuel old s' tr
      r.old = r'.old ∧ r.trace = r'.trace ∧ r.warned = r'.warned ∧ r.exc = r'.exc ∧ R r.st r'.st := by
  induction fuel with
  | zero => intro old s s' tr h; exact ⟨rfl, rfl, rfl, rfl, h⟩
  | succ fuel ih =>
    intro old s s' tr h
    obtain ⟨h2, h1⟩ := hR s s' h
    rcases hs : step s with ⟨t, r⟩
    rcases hs' : step' s' with ⟨t', r'⟩
    rw [hs, hs'] at h2 h1
    simp only at h2 h1
    subst h2
    cases r with
    | error e =>
      rw [loop_succ_error w allQ step hs, loop_succ_error w allQ step' hs']
      exact ⟨rfl, rfl, rfl, rfl, h1⟩
    | ok cur =>
      rcases ht : test w allQ cur old with _ | b
      · rw [loop_succ_none w allQ step hs ht, loop_succ_none w allQ step' hs' ht]
        exact ⟨rfl, rfl, rfl, rfl, h1⟩
      · cases b with
        | true =>
          rw [loop_succ_true w allQ step hs ht, loop_succ_true w allQ step' hs' ht]
          exact ⟨rfl, rfl, rfl, rfl, h1⟩
        | false =>
          rw [loop_succ_false w allQ step hs ht, loop_succ_false w allQ step' hs' ht]
          exact ih (.vec cur) t t' (cur :: tr) h1

/-- a loop that raised after `k` complete bodies left `_old_results` and the trace exactly as a loop with budget `k`
    (which ends with the warning, un-aborted) leaves them; the state is what the failing body made of that loop's state -/
theorem loop_abort (fuel : Nat) : ∀ (old : Old α) (s : S) (tr : List (List α)) (e : Exc),
    (loop w allQ step fuel old s tr).exc = some e →
    ∃ k, k < fuel ∧
      (loop w allQ step k old s tr).warned = true ∧ (loop w allQ step k old s tr).exc = none ∧
      (loop w allQ step fuel old s tr).old = (loop w allQ step k old s tr).old ∧
      (loop w allQ step fuel old s tr).trace = (loop w allQ step k old s tr).trace ∧
      (loop w allQ step fuel old s tr).st = (step (loop w allQ step k old s tr).st).1 ∧
      (loop w allQ step fuel old s tr).warned = false := by
  induction fuel with
  | zero => intro old s tr e h; simp [loop_zero] at h
  | succ fuel ih =>
    intro old s tr e
    rcases loop_cases w allQ step fuel old s tr with ⟨s', e', hs, h⟩ | ⟨s', cur, hs, _, h⟩ | ⟨s', cur, _, _, h⟩ |
      ⟨s', cur, hs, ht, h⟩
    · rw [h]; intro _
      exact ⟨0, Nat.succ_pos _, rfl, rfl, rfl, rfl, by simp [loop_zero, hs], rfl⟩
    · rw [h]; intro _
      exact ⟨0, Nat.succ_pos _, rfl, rfl, rfl, rfl, by simp [loop_zero, hs], rfl⟩
    · rw [h]; intro he; simp at he
    · rw [h]; intro he
      obtain ⟨k, hk, h1, h2, h3, h4, h5, h6⟩ := ih (.vec cur) s' (cur :: tr) e he
      refine ⟨k + 1, Nat.succ_lt_succ hk, ?_⟩
      rw [loop_succ_false w allQ step hs ht k tr]
      exact ⟨h1, h2, h3, h4, h5, h6⟩

/-- the trace handed in is only carried along -/
theorem loop_trace_irrel (fuel : Nat) : ∀ (old : Old α) (s : S) (tr : List (List α)),
    loop w allQ step fuel old s tr =
      { loop w allQ step fuel old s [] with trace := (loop w allQ step fuel old s []).trace ++ tr } := by
  induction fuel with
  | zero => intro old s tr; simp [loop_zero]
  | succ fuel ih =>
    intro old s tr
    rcases hs : step s with ⟨t, r⟩
    cases r with
    | error e => simp [loop_succ_error w allQ step hs]
    | ok cur =>
      rcases ht : test w allQ cur old with _ | b
      · simp [loop_succ_none w allQ step hs ht]
      · cases b with
        | true => simp [loop_succ_true w allQ step hs ht]
        | false =>
          rw [loop_succ_false w allQ step hs ht, loop_succ_false w allQ step hs ht, ih (.vec cur) t (cur :: tr),
            ih (.vec cur) t [cur]]
          simp

/-- a larger budget continues where the smaller one ran out -/
theorem loop_add (a b : Nat) : ∀ (old : Old α) (s : S) (tr : List (List α)),
    loop w allQ step (a + b) old s tr =
      if (loop w allQ step a old s tr).warned = true then
        loop w allQ step b (loop w allQ step a old s tr).old (loop w allQ step a old s tr).st
          (loop w allQ step a old s tr).trace
      else loop w allQ step a old s tr := by
  induction a with
  | zero => intro old s tr; simp [loop_zero]
  | succ a ih =>
    intro old s tr
    rw [Nat.succ_add]
    rcases hs : step s with ⟨t, r⟩
    cases r with
    | error e => simp [loop_succ_error w allQ step hs]
    | ok cur =>
      rcases ht : test w allQ cur old with _ | b
      · simp [loop_succ_none w allQ step hs ht]
      · cases b with
        | true => simp [loop_succ_true w allQ step hs ht]
        | false =>
          rw [loop_succ_false w allQ step hs ht, loop_succ_false w allQ step hs ht]
          exact ih (.vec cur) t (cur :: tr)

/-- a repaired loop body that does what the faulty one did wherever that one succeeded reproduces every run of the
    faulty body that was not aborted -/
theorem loop_congr_ok (step' : S → S × Except Exc (List α))
    (hagree : ∀ s v, (step s).2 = .ok v → step' s = step s) (fuel : Nat) :
    ∀ (old : Old α) (s : S) (tr : List (List α)), (loop w allQ step fuel old s tr).exc = none →
      loop w allQ step' fuel old s tr = loop w allQ step fuel old s tr := by
  induction fuel with
  | zero => intro old s tr _; rfl
  | succ fuel ih =>
    intro old s tr
    rcases hs : step s with ⟨t, r⟩
    cases r with
    | error e => rw [loop_succ_error w allQ step hs]; intro h; simp at h
    | ok cur =>
      have hs' : step' s = (t, .ok cur) := by rw [hagree s cur (by rw [hs]), hs]
      rcases ht : test w allQ cur old with _ | b
      · rw [loop_succ_none w allQ step hs ht]; intro h; simp at h
      · cases b with
        | true => intro _; rw [loop_succ_true w allQ step hs ht, loop_succ_true w allQ step' hs' ht]
        | false =>
          rw [loop_succ_false w allQ step hs ht, loop_succ_false w allQ step' hs' ht]
          exact ih (.vec cur) t (cur :: tr)

end loop

/-! ### `_solve_subunits` -/

/-- if some sub-unit raises, the parent's loop body raises `RuntimeError` whatever the sub-unit raised -/
theorem solveSubunits_error (subs : List (S → S × Except Exc Unit)) : ∀ (s : S) (e : Exc),
    (solveSubunits subs s).2 = .error e → e = .runtimeError := by
  induction subs with
  | nil => intro s e h; simp [solveSubunits] at h
  | cons u us ih =>
    intro s e h
    rcases hu : u s with ⟨s', r⟩
    cases r with
    | ok _ => simp only [solveSubunits, hu] at h; exact ih s' e h
    | error e' => simp only [solveSubunits, hu] at h; cases h; rfl

/-- sub-units in front of the failing one have run (in order), the ones behind it are not touched -/
theorem solveSubunits_split (pre post : List (S → S × Except Exc Unit)) (u : S → S × Except Exc Unit) (s : S)
    (hpre : (solveSubunits pre s).2 = .ok ()) (e : Exc) (hu : (u (solveSubunits pre s).1).2 = .error e) :
    solveSubunits (pre ++ u :: post) s = ((u (solveSubunits pre s).1).1, .error .runtimeError) := by
  induction pre generalizing s with
  | nil =>
    simp only [solveSubunits, List.nil_append] at hu ⊢
    rcases hus : u s with ⟨s', r⟩
    rw [hus] at hu
    simp only at hu
    subst hu
    rfl
  | cons p ps ih =>
    rcases hp : p s with ⟨s', r⟩
    cases r with
    | ok x =>
      simp only [solveSubunits, hp, List.cons_append] at hpre hu ⊢
      exact ih s' hpre hu
    | error e' => simp [solveSubunits, hp] at hpre

/-! ### re-entrancy marks -/

/-- whatever the implementation returns or raises: if the calls it makes itself leave the marks as they found them,
    so does `HookFunction.__call__` (the `finally` un-marks unless the call was re-entrant) -/
theorem markedCall_restores {β : Type} (key : Nat) (body : List Nat → Bool → List Nat × Except Exc β)
    (hbody : ∀ m c, (body m c).1 = m) (marks : List Nat) : (markedCall key body marks).1 = marks := by
  unfold markedCall
  by_cases h : key ∈ marks
  · simp [h, hbody]
  · simp [h, hbody]

/-! ### `init_solve`: hand-over into a re-used out profile (`Solve.handOver`) -/

theorem Entries.has_iff (e : Entries) (k : String) : e.has k = true ↔ ∃ v, e.get k = some v := by
  induction e with
  | nil => simp [Entries.has, Entries.get]
  | cons x xs ih =>
    simp only [Entries.has, Entries.get, List.any_cons, List.find?_cons] at ih ⊢
    by_cases h : x.1 == k
    · simp [h]
    · simp [h, ih]

theorem Entries.has_false_iff (e : Entries) (k : String) : e.has k = false ↔ e.get k = none := by
  rw [← Bool.not_eq_true, Entries.has_iff]
  cases e.get k <;> simp

theorem Entries.get_append (a b : Entries) (k : String) :
    Entries.get (a ++ b) k = match Entries.get a k with | some v => some v | none => Entries.get b k := by
  simp only [Entries.get, List.find?_append]
  cases List.find? (fun x => x.1 == k) a <;> simp

/-- filtering by a predicate on the NAME that holds for `k` does not change what is found under `k` -/
theorem Entries.find_filter (e : Entries) (p : String → Bool) (k : String) (hp : p k = true) :
    (e.filter fun x => p x.1).find? (fun x => x.1 == k) = e.find? fun x => x.1 == k := by
  simp only [List.find?_filter]
  apply List.find?_congr
  intro x _
  by_cases h : x.1 == k
  · have : x.1 = k := by simpa using h
    simp [this, hp]
  · simp [h]

theorem Entries.find_filter_false (e : Entries) (p : String → Bool) (k : String) (hp : p k = false) :
    (e.filter fun x => p x.1).find? (fun x => x.1 == k) = none := by
  simp only [List.find?_filter, List.find?_eq_none]
  intro x _
  by_cases h : x.1 == k
  · have : x.1 = k := by simpa using h
    simp [this, hp]
  · simp [h]

theorem Entries.find_key (e : Entries) (k : String) (x : String × Nat) (h : e.find? (fun x => x.1 == k) = some x) : x.1 = k := by
  have := List.find?_some h
  simpa using this

/-- `handOver` written with predicates on names and a map on values -/
theorem handOver_eq (roots : List String) (out tmpl : Entries) :
    handOver roots out tmpl =
      ((out.filter fun e => (fun n => roots.contains n || tmpl.has n) e.1).map fun x =>
          (x.1, if roots.contains x.1 then x.2 else (tmpl.get x.1).getD x.2)) ++
        tmpl.filter fun e => (fun n => !Entries.has (out.filter fun e => (fun n => roots.contains n || tmpl.has n) e.1) n) e.1 := by
  simp only [handOver]
  congr 1
  apply List.map_congr_left
  intro x _
  split <;> rfl

/-- what the re-used out profile holds under `k` after the hand-over -/
theorem handOver_get (roots : List String) (out tmpl : Entries) (k : String) :
    (handOver roots out tmpl).get k =
      if k ∈ roots then (match out.get k with | some v => some v | none => tmpl.get k) else tmpl.get k := by
  rw [handOver_eq, Entries.get_append]
  generalize hP : (fun n => roots.contains n || tmpl.has n) = P
  have hPk : P k = (decide (k ∈ roots) || tmpl.has k) := by rw [← hP]; simp
  have hA : Entries.get ((out.filter fun e => P e.1).map fun x =>
      (x.1, if roots.contains x.1 then x.2 else (tmpl.get x.1).getD x.2)) k =
      ((out.filter fun e => P e.1).find? fun x => x.1 == k).map
        fun x => if roots.contains x.1 then x.2 else (tmpl.get x.1).getD x.2 := by
    simp only [Entries.get, List.find?_map, Option.map_map]
    rfl
  rw [hA]
  -- is `k` absent from the kept entries?
  have hkept : P k = true → out.find? (fun x => x.1 == k) = none → (fun n => !Entries.has (out.filter fun e => P e.1) n) k = true := by
    intro hp hf
    have : Entries.has (out.filter fun e => P e.1) k = false := by
      rw [Entries.has_false_iff, Entries.get, Entries.find_filter _ P k hp, hf]
      rfl
    simp [this]
  by_cases hr : k ∈ roots
  · have hp : P k = true := by rw [hPk]; simp [hr]
    rw [Entries.find_filter _ P k hp, if_pos hr]
    cases hf : out.find? (fun x => x.1 == k) with
    | some x =>
      have hk := Entries.find_key _ _ _ hf
      simp [Entries.get, hf, hk, hr]
    | none =>
      simp only [Entries.get, hf, Option.map_none]
      exact congrArg (Option.map (·.2)) (Entries.find_filter tmpl (fun n => !Entries.has (out.filter fun e => P e.1) n) k (hkept hp hf))
  · rw [if_neg hr]
    by_cases ht : tmpl.has k = true
    · obtain ⟨v, hv⟩ := (Entries.has_iff _ _).mp ht
      have hp : P k = true := by rw [hPk]; simp [ht]
      rw [Entries.find_filter _ P k hp]
      cases hf : out.find? (fun x => x.1 == k) with
      | some x =>
        have hk := Entries.find_key _ _ _ hf
        simp [hk, hr, hv]
      | none =>
        simp only [Option.map_none]
        exact congrArg (Option.map (·.2)) (Entries.find_filter tmpl (fun n => !Entries.has (out.filter fun e => P e.1) n) k (hkept hp hf))
    · have ht' : tmpl.has k = false := by simpa using ht
      have hp : P k = false := by rw [hPk]; simp [hr, ht']
      rw [Entries.find_filter_false _ P k hp]
      simp only [Option.map_none]
      have hn := (Entries.has_false_iff _ _).mp ht'
      rw [hn]
      show Entries.get _ k = none
      rw [← Entries.has_false_iff]
      simp only [Entries.has, List.any_filter, List.any_eq_false]
      intro x hx
      by_cases h : x.1 == k
      · exfalso
        have : tmpl.has k = true := by
          simp only [Entries.has, List.any_eq_true]
          exact ⟨x, hx, h⟩
        rw [ht'] at this; simp at this
      · simp [h]

end Solve
