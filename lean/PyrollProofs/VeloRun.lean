import PyrollProofs.VeloLemmas

/-!
Invariant of the velocity loop (C19), stated once for both directions: a *sweep specification* says which entry of
the velocity vector a sweep keeps (`anc = List.getLast?` backward, `List.head?` forward) and that it hands that
entry's flux on to every other pass.
-/

namespace Velo

/-- what the loop needs to know about a sweep -/
structure SweepSpec (sw : List ℝ → List ℝ → List ℝ) (anc : List ℝ → Option ℝ) : Prop where
  len : ∀ A v, v.length = A.length → (sw A v).length = A.length
  /-- the anchor entry is never rewritten -/
  anchor : ∀ A v x, A ≠ [] → anc v = some x → anc (sw A v) = some x
  /-- every pass gets the anchor's flux w.r.t. the areas swept over -/
  flux : ∀ A v x a, anc v = some x → anc A = some a → (∀ y ∈ A, y ≠ 0) → ConstFlux (x * a) (sw A v) A
  idem : ∀ A v, sw A (sw A v) = sw A v
  anc_some : ∀ A : List ℝ, A ≠ [] → ∃ a, anc A = some a

theorem sweepB_spec {f : ℝ → ℝ → ℝ → ℝ} (hf : FluxStep f) : SweepSpec (sweepB f) List.getLast? where
  len := sweepB_length f
  anchor := fun A v x hA hx => sweepB_last f A v x hA hx
  flux := fun A v x a hx ha h => sweepB_flux hf A v x a hx ha h
  idem := sweepB_idem f
  anc_some := fun A hA => ⟨A.getLast hA, List.getLast?_eq_some_getLast hA⟩

theorem sweepF_spec {f : ℝ → ℝ → ℝ → ℝ} (hf : FluxStep f) : SweepSpec (sweepF f) List.head? where
  len := sweepF_length f
  anchor := by
    intro A v x hA hx
    cases A with
    | nil => exact absurd rfl hA
    | cons a as =>
      cases v with
      | nil => simp at hx
      | cons y vs =>
        simp only [List.head?_cons, Option.some.injEq] at hx
        subst hx
        exact sweepF_head f a y as vs
  flux := by
    intro A v x a hx ha h
    cases A with
    | nil => simp at ha
    | cons a' as =>
      cases v with
      | nil => simp at hx
      | cons y vs =>
        simp only [List.head?_cons, Option.some.injEq] at hx ha
        subst hx; subst ha
        exact sweepF_flux hf a' y as vs (fun z hz => h z (by simp [hz]))
  idem := sweepF_idem f
  anc_some := by
    intro A hA
    cases A with
    | nil => exact absurd rfl hA
    | cons a as => exact ⟨a, rfl⟩

/-- one entry of the trace: the velocities written keep the anchor value `x` and carry the anchor's flux through the
    areas they were computed from -/
def Good (anc : List ℝ → Option ℝ) (x : ℝ) (p : List ℝ × List ℝ) : Prop :=
  anc p.1 = some x ∧ ∃ a, anc p.2 = some a ∧ ConstFlux (x * a) p.1 p.2

structure Inv (anc : List ℝ → Option ℝ) (n : ℕ) (x : ℝ) (s : St ℝ) : Prop where
  cur_len : s.cur.length = n
  prev_len : s.prev.length = n
  areas : AreasOK n s.areas
  used : AreasOK n s.used
  head : (s.cur, s.used) ∈ s.trace
  good : ∀ p ∈ s.trace, Good anc x p

variable {sw : List ℝ → List ℝ → List ℝ} {anc : List ℝ → Option ℝ} {tol : ℝ} {S : ℕ → List ℝ → List ℝ}

theorem Inv.cur_good {n : ℕ} {x : ℝ} {s : St ℝ} (h : Inv anc n x s) : Good anc x (s.cur, s.used) :=
  h.good _ h.head

theorem AreasOK.ne_nil {n : ℕ} {A : List ℝ} (h : AreasOK n A) (hn : 0 < n) : A ≠ [] := by
  intro hA
  have := h.1
  rw [hA] at this
  simp at this
  omega

theorem inv_next (hsw : SweepSpec sw anc) {n : ℕ} (hn : 0 < n) {x : ℝ} (hS : ∀ k vs, AreasOK n (S k vs))
    (s : St ℝ) (h : Inv anc n x s) : Inv anc n x (next sw S s) := by
  have hne : s.areas ≠ [] := h.areas.ne_nil hn
  have hx : anc s.cur = some x := h.cur_good.1
  obtain ⟨a, ha⟩ := hsw.anc_some s.areas hne
  have hlen : s.cur.length = s.areas.length := by rw [h.cur_len, h.areas.1]
  refine ⟨?_, h.cur_len, hS _ _, h.areas, by simp [next], ?_⟩
  · show (sw s.areas s.cur).length = n
    rw [hsw.len _ _ hlen, h.areas.1]
  · intro p hp
    simp only [next, List.mem_cons] at hp
    rcases hp with rfl | hp
    · exact ⟨hsw.anchor _ _ _ hne hx, a, ha, hsw.flux _ _ _ _ hx ha h.areas.2⟩
    · exact h.good p hp

/-- the invariant holds of the state a run ends in -/
theorem run_inv (hsw : SweepSpec sw anc) {n : ℕ} (hn : 0 < n) {x : ℝ} (hS : ∀ k vs, AreasOK n (S k vs))
    (budget : ℕ) (v0 seedAreas : List ℝ) (hv0 : v0.length = n) (hseed : AreasOK n seedAreas) (hx : anc v0 = some x) :
    Inv anc n x (run sw tol S budget v0 seedAreas).st := by
  unfold run
  apply loop_inv (Inv anc n x) (inv_next hsw hn hS)
  have hne : seedAreas ≠ [] := hseed.ne_nil hn
  obtain ⟨a, ha⟩ := hsw.anc_some seedAreas hne
  have hlen : v0.length = seedAreas.length := by rw [hv0, hseed.1]
  have hl : (sw seedAreas v0).length = n := by rw [hsw.len _ _ hlen, hseed.1]
  refine ⟨hl, hl, hS _ _, hseed, by simp, ?_⟩
  intro p hp
  simp only [List.mem_singleton] at hp
  subst hp
  exact ⟨hsw.anchor _ _ _ hne hx, a, ha, hsw.flux _ _ _ _ hx ha hseed.2⟩

/-- left by `break` ⇒ every velocity moved by less than the tolerance in the last iteration -/
theorem run_converged (hsw : SweepSpec sw anc) {n : ℕ} (hn : 0 < n) {x : ℝ} (hS : ∀ k vs, AreasOK n (S k vs))
    (budget : ℕ) (v0 seedAreas : List ℝ) (hv0 : v0.length = n) (hseed : AreasOK n seedAreas) (hx : anc v0 = some x)
    (hc : (run sw tol S budget v0 seedAreas).converged = true) :
    List.Forall₂ (fun p c => |p - c| < tol) (run sw tol S budget v0 seedAreas).st.prev
      (run sw tol S budget v0 seedAreas).st.cur ∧ 1 ≤ (run sw tol S budget v0 seedAreas).st.k := by
  have hinv := run_inv (tol := tol) hsw hn hS budget v0 seedAreas hv0 hseed hx
  have hlen : (run sw tol S budget v0 seedAreas).st.prev.length = (run sw tol S budget v0 seedAreas).st.cur.length := by
    rw [hinv.prev_len, hinv.cur_len]
  unfold run at hc hlen ⊢
  have := loop_converged (sw := sw) (tol := tol) (S := S) budget _ hc
  exact ⟨(within_iff tol _ _ hlen).mp this.1, Nat.succ_le_of_lt this.2⟩

/-- budget exhausted ⇒ exactly `budget` iterations ran and the last stop test failed: some velocity moved by at
    least the tolerance -/
theorem run_exhausted (hsw : SweepSpec sw anc) {n : ℕ} (hn : 0 < n) {x : ℝ} (hS : ∀ k vs, AreasOK n (S k vs))
    (budget : ℕ) (v0 seedAreas : List ℝ) (hv0 : v0.length = n) (hseed : AreasOK n seedAreas) (hx : anc v0 = some x)
    (hc : (run sw tol S budget v0 seedAreas).converged = false) :
    (run sw tol S budget v0 seedAreas).st.k = budget ∧
    (0 < budget → ¬ List.Forall₂ (fun p c => |p - c| < tol) (run sw tol S budget v0 seedAreas).st.prev
      (run sw tol S budget v0 seedAreas).st.cur) := by
  have hinv := run_inv (tol := tol) hsw hn hS budget v0 seedAreas hv0 hseed hx
  have hlen : (run sw tol S budget v0 seedAreas).st.prev.length = (run sw tol S budget v0 seedAreas).st.cur.length := by
    rw [hinv.prev_len, hinv.cur_len]
  unfold run at hc hlen ⊢
  have := loop_exhausted (sw := sw) (tol := tol) (S := S) budget _ hc
  refine ⟨by have := this.1; simpa using this, fun hb hall => ?_⟩
  have h1 := this.2 hb
  rw [(within_iff tol _ _ hlen).mpr hall] at h1
  exact absurd h1 (by simp)

theorem run_k_le (budget : ℕ) (v0 seedAreas : List ℝ) : (run sw tol S budget v0 seedAreas).st.k ≤ budget := by
  unfold run
  have := loop_k_le (sw := sw) (tol := tol) (S := S) budget
    { cur := sw seedAreas v0, prev := sw seedAreas v0, used := seedAreas, areas := S 0 (sw seedAreas v0), k := 0,
      trace := [(sw seedAreas v0, seedAreas)] }
  simpa using this

/-- If `solve` leaves the same areas whatever the velocities are (a spread model that does not look at the velocity)
    the loop stops by `break` after at most two iterations (budget ≥ 2) and the final velocities carry the anchor's flux
    through the FINAL areas exactly. -/
theorem run_fixed_areas (hsw : SweepSpec sw anc) {n : ℕ} (hn : 0 < n) {x : ℝ} (A : List ℝ) (hA : AreasOK n A)
    (htol : 0 < tol) (budget : ℕ) (hb : 2 ≤ budget) (v0 seedAreas : List ℝ) (_hv0 : v0.length = n)
    (hseed : AreasOK n seedAreas) (hx : anc v0 = some x) :
    ∀ r, r = run sw tol (fun _ _ => A) budget v0 seedAreas →
    r.converged = true ∧ r.st.k ≤ 2 ∧ r.st.areas = A ∧ ∃ a, anc A = some a ∧ ConstFlux (x * a) r.st.cur r.st.areas := by
  intro r hr
  obtain ⟨a, ha⟩ := hsw.anc_some A (hA.ne_nil hn)
  have hx0 : anc (sw seedAreas v0) = some x := hsw.anchor _ _ _ (hseed.ne_nil hn) hx
  have hflux : ConstFlux (x * a) (sw A (sw seedAreas v0)) A := hsw.flux _ _ _ _ hx0 ha hA.2
  obtain ⟨m, rfl⟩ : ∃ m, budget = m + 2 := ⟨budget - 2, by omega⟩
  unfold run at hr
  simp only [loop, next] at hr
  by_cases hw : within tol (sw seedAreas v0) (sw A (sw seedAreas v0)) = true
  · simp only [hw, ↓reduceIte] at hr
    subst hr
    exact ⟨rfl, by simp, rfl, a, ha, hflux⟩
  · simp only [hw, hsw.idem, within_self tol htol, ↓reduceIte] at hr
    subst hr
    exact ⟨rfl, by simp, rfl, a, ha, hflux⟩

end Velo
