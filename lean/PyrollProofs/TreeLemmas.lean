import PyrollModel.Tree

/-! Helper lemmas for C13 (core Lean only, no Mathlib). -/

namespace Tree

/-- The tree invariant of C13: a unit is listed in `s` iff it names `s` as its parent; no unit is listed
twice; parents are allocated units. -/
structure Inv (st : TState) : Prop where
  mem_iff : ∀ s u, u ∈ st.children s ↔ st.parent u = some s
  nodup : ∀ s, (st.children s).Nodup
  bound : ∀ u p, st.parent u = some p → p < st.n
  fresh : ∀ u, st.n ≤ u → st.parent u = none

theorem split3 {α : Type} (l : List α) (lo hi : Nat) (h : lo ≤ hi) :
    l = l.take lo ++ ((l.drop lo).take (hi - lo) ++ l.drop hi) := by
  have h1 : (l.drop lo).drop (hi - lo) = l.drop hi := by
    rw [List.drop_drop]; congr 1; omega
  rw [← h1, List.take_append_drop, List.take_append_drop]

theorem sliceBounds_le (len : Nat) (i j : Option Int) : (sliceBounds len i j).1 ≤ (sliceBounds len i j).2 := by
  simp [sliceBounds]; omega

theorem normIdx_lt {len : Nat} {i : Int} {k : Nat} (h : normIdx len i = some k) : k < len := by
  unfold normIdx at h
  split at h <;> split at h <;> simp at h <;> omega

/-- generic re-wiring step on a three-way split of the child list: orphan `B`, store `A ++ N ++ C`, adopt `N` -/
theorem rewire3 (st : TState) (s : Nat) (A B C N : List Nat) (h : Inv st) (hs : s < st.n)
    (hl : st.children s = A ++ (B ++ C))
    (hN : ∀ u ∈ N, st.parent u = none) (hNd : N.Nodup) (hNn : ∀ u ∈ N, u < st.n) :
    Inv (setParents (setChildren (setParents st B none) s (A ++ N ++ C)) N (some s)) := by
  have h1 := h.mem_iff
  have h2 := h.nodup s
  rw [hl] at h2
  have h3 := h.nodup
  have h4 := h.bound
  have h5 := h.fresh
  simp only [List.nodup_append] at h2
  constructor
  · intro s' u'
    simp only [setParents, setChildren]
    have := h1 s u'
    rw [hl] at this
    grind
  · intro s'
    simp only [setParents, setChildren]
    by_cases hs : s' = s
    · simp only [hs, if_true]
      have : ∀ u ∈ N, u ∉ A ++ (B ++ C) := by
        intro u hu hmem
        rw [← hl, h1, hN u hu] at hmem
        cases hmem
      simp only [List.nodup_append]
      grind
    · simp only [hs, if_false]; exact h3 s'
  · intro u p
    simp only [setParents, setChildren]
    grind
  · intro u
    simp only [setParents, setChildren]
    grind

/-- same, with the adoption performed first (the order used by `append`, `insert`, `extend`) -/
theorem rewire3' (st : TState) (s : Nat) (A C N : List Nat) (h : Inv st) (hs : s < st.n)
    (hl : st.children s = A ++ C)
    (hN : ∀ u ∈ N, st.parent u = none) (hNd : N.Nodup) (hNn : ∀ u ∈ N, u < st.n) :
    Inv (setChildren (setParents st N (some s)) s (A ++ N ++ C)) := by
  have := rewire3 st s A [] C N h hs (by simpa using hl) hN hNd hNn
  have e : setParents (setChildren (setParents st [] none) s (A ++ N ++ C)) N (some s)
      = setChildren (setParents st N (some s)) s (A ++ N ++ C) := by
    simp [setParents, setChildren]
  rwa [e] at this


theorem append_inv (st : TState) (s u : Nat) (h : Inv st) (hs : s < st.n) (hf : st.parent u = none) (hu : u < st.n) :
    Inv (append st s u) := by
  have := rewire3' st s (st.children s) [] [u] h hs (by simp) (by simpa using hf) (by simp) (by simpa using hu)
  simpa [append] using this

theorem insert_inv (st : TState) (s : Nat) (i : Int) (u : Nat) (h : Inv st) (hs : s < st.n)
    (hf : st.parent u = none) (hu : u < st.n) : Inv (insert st s i u) := by
  have := rewire3' st s ((st.children s).take (clampIdx (st.children s).length i))
    ((st.children s).drop (clampIdx (st.children s).length i)) [u] h hs (by simp) (by simpa using hf) (by simp) (by simpa using hu)
  simpa [insert] using this

theorem extend_inv (st : TState) (s : Nat) (us : List Nat) (h : Inv st) (hs : s < st.n)
    (hf : ∀ u ∈ us, st.parent u = none) (hd : us.Nodup) (hn : ∀ u ∈ us, u < st.n) : Inv (extend st s us) := by
  have := rewire3' st s (st.children s) [] us h hs (by simp) hf hd hn
  simpa [extend] using this

theorem setSlice_inv (st : TState) (s : Nat) (i j : Option Int) (us : List Nat) (h : Inv st) (hs : s < st.n)
    (hf : ∀ u ∈ us, st.parent u = none) (hd : us.Nodup) (hn : ∀ u ∈ us, u < st.n) : Inv (setSlice st s i j us) := by
  have hle := sliceBounds_le (st.children s).length i j
  have key := split3 (st.children s) _ _ hle
  exact rewire3 st s _ _ _ us h hs key hf hd hn

theorem delSlice_inv (st : TState) (s : Nat) (i j : Option Int) (h : Inv st) (hs : s < st.n) :
    Inv (delSlice st s i j) := by
  have hle := sliceBounds_le (st.children s).length i j
  have key := split3 (st.children s) _ _ hle
  have := rewire3 st s _ _ _ [] h hs key (by simp) (by simp) (by simp)
  simpa [delSlice, setParents] using this

theorem setItem_inv (st : TState) (s : Nat) (i : Int) (u : Nat) (h : Inv st) (hs : s < st.n)
    (hf : st.parent u = none) (hu : u < st.n) : Inv (setItem st s i u).1 := by
  simp only [setItem]
  cases hk : normIdx (st.children s).length i with
  | none => simpa using h
  | some k =>
    have key := split3 (st.children s) k (k + 1) (by omega)
    have := rewire3 st s _ _ _ [u] h hs key (by simpa using hf) (by simp) (by simpa using hu)
    simpa using this

theorem delItem_inv (st : TState) (s : Nat) (i : Int) (h : Inv st) (hs : s < st.n) :
    Inv (delItem st s i).1 := by
  simp only [delItem]
  cases hk : normIdx (st.children s).length i with
  | none => simpa using h
  | some k =>
    have key := split3 (st.children s) k (k + 1) (by omega)
    have := rewire3 st s _ _ _ [] h hs key (by simp) (by simp) (by simp)
    simpa [setParents] using this

theorem pop_inv (st : TState) (s : Nat) (i : Int) (h : Inv st) (hs : s < st.n) :
    Inv (pop st s i).1 := by
  simp only [pop]
  cases hk : normIdx (st.children s).length i with
  | none => simpa using h
  | some k =>
    have key := split3 (st.children s) k (k + 1) (by omega)
    have := rewire3 st s _ _ _ [] h hs key (by simp) (by simp) (by simp)
    have e : setParents (setChildren st s (List.take k (st.children s) ++ List.drop (k + 1) (st.children s)))
          (List.take 1 (List.drop k (st.children s))) none
        = setParents (setChildren (setParents st (List.take (k + 1 - k) (List.drop k (st.children s))) none) s
          (List.take k (st.children s) ++ [] ++ List.drop (k + 1) (st.children s))) [] (some s) := by
      simp [setParents, setChildren]
    simp only [e]
    exact this

theorem clear_inv (st : TState) (s : Nat) (h : Inv st) (hs : s < st.n) : Inv (clear st s) := by
  have := rewire3 st s [] (st.children s) [] [] h hs (by simp) (by simp) (by simp) (by simp)
  simpa [clear, setParents] using this

theorem listCopy_inv (st : TState) (s : Nat) (h : Inv st) : Inv (listCopy st s) := by
  have e : listCopy st s = st := by
    have h1 := h.mem_iff
    simp only [listCopy, setParents]
    cases st with
    | mk n parent children kind label =>
      simp only [TState.mk.injEq, true_and, and_true]
      funext u
      simp only at h1
      split
      · rename_i hu; exact ((h1 s u).1 hu).symm
      · rfl
  rw [e]; exact h

theorem remove_inv (st : TState) (s u : Nat) (h : Inv st) (hs : s < st.n) : Inv (remove st s u).1 := by
  simp only [remove]
  split
  · rename_i hu
    obtain ⟨A, C, hAC, hA⟩ := List.eq_append_cons_of_mem hu
    have herase : (st.children s).erase u = A ++ C := by
      rw [hAC, List.erase_append_right _ hA]; simp
    have key : st.children s = A ++ ([u] ++ C) := by simpa using hAC
    have := rewire3 st s A [u] C [] h hs key (by simp) (by simp) (by simp)
    have e : setParents (setChildren st s ((st.children s).erase u)) [u] none
        = setParents (setChildren (setParents st [u] none) s (A ++ [] ++ C)) [] (some s) := by
      rw [herase]; simp [setParents, setChildren]
    rw [e]; exact this
  · exact h

theorem alloc_inv (st : TState) (k l : Nat) (h : Inv st) : Inv (alloc st k l).1 := by
  have h1 := h.mem_iff; have h2 := h.nodup; have h3 := h.bound; have h4 := h.fresh
  constructor
  · exact h1
  · exact h2
  · intro u p hp; have := h3 u p hp; simp [alloc]; omega
  · intro u hu; simp [alloc] at hu; exact h4 u (by omega)

theorem children_of_unallocated (st : TState) (h : Inv st) (s : Nat) (hs : st.n ≤ s) : st.children s = [] := by
  cases hc : st.children s with
  | nil => rfl
  | cons a t =>
    have : a ∈ st.children s := by rw [hc]; simp
    have := h.bound a s ((h.mem_iff s a).1 this)
    omega

theorem construct_inv (st : TState) (us : List Nat) (l : Nat) (h : Inv st)
    (hf : ∀ u ∈ us, st.parent u = none) (hd : us.Nodup) (hn : ∀ u ∈ us, u < st.n) : Inv (construct st us l).1 := by
  have h0 := alloc_inv st 3 l h
  have hc := children_of_unallocated st h st.n (Nat.le_refl _)
  have := rewire3 (alloc st 3 l).1 st.n [] [] [] us h0 (by simp [alloc]) (by simpa [alloc] using hc)
    (by simpa [alloc] using hf) hd (by intro u hu; have := hn u hu; simp [alloc]; omega)
  simpa [construct, setParents, alloc] using this


/-- loop invariant of `flattenAux` for the sequence `s` being flattened -/
structure FlatInv (s : Nat) (st : TState) (items acc : List Nat) : Prop where
  other : ∀ s', s' ≠ s → ∀ u, u ∈ st.children s' ↔ st.parent u = some s'
  nodup : ∀ s', (st.children s').Nodup
  bound : ∀ u p, st.parent u = some p → p < st.n
  fresh : ∀ u, st.n ≤ u → st.parent u = none
  nd : (acc ++ items).Nodup
  items_par : ∀ u ∈ items, st.parent u = some s ∧ u ≠ s
  acc_par : ∀ u ∈ acc, st.parent u = none ∨ st.parent u = some s
  acc_lt : ∀ u ∈ acc, u < st.n
  cover : ∀ u, st.parent u = some s → u ∈ acc ∨ u ∈ items

theorem flattenAux_inv (s : Nat) :
    ∀ (items : List Nat) (st : TState) (acc : List Nat), s < st.n → FlatInv s st items acc →
      Inv (setParents (setChildren (flattenAux st items acc).1 s (flattenAux st items acc).2)
        (flattenAux st items acc).2 (some s)) := by
  intro items
  induction items with
  | nil =>
    intro st acc hsn h
    obtain ⟨h1, h2, h3, hfr, h4, h5, h6, hlt, h7⟩ := h
    simp only [flattenAux]
    simp only [List.append_nil] at h4
    constructor
    · intro s' u
      simp only [setParents, setChildren]
      have := h1 s'
      grind
    · intro s'
      simp only [setParents, setChildren]
      grind
    · intro u p
      simp only [setParents, setChildren]
      grind
    · intro u hu
      simp only [setParents, setChildren] at hu ⊢
      have := h6 u
      have := hlt u
      grind
  | cons item rest ih =>
    intro st acc hsn h
    obtain ⟨h1, h2, h3, hfr, h4, h5, h6, hlt, h7⟩ := h
    simp only [flattenAux]
    split
    · -- a sequence is dissolved
      apply ih
      · simpa [setParents, setChildren, clear] using hsn
      · have hitem := h5 item (by simp)
        have hsub := h1 item hitem.2
        have hndsub := h2 item
        simp only [List.nodup_append, List.nodup_cons] at h4
        constructor
        · intro s' hs' u
          simp only [setParents, setChildren, clear]
          have := h1 s' hs' u
          have := hsub u
          grind
        · intro s'
          simp only [setParents, setChildren, clear]
          grind
        · intro u p
          simp only [setParents, setChildren, clear]
          grind
        · intro u hu
          simp only [setParents, setChildren, clear] at hu ⊢
          grind
        · simp only [List.nodup_append]
          have : ∀ u ∈ st.children item, st.parent u = some item := fun u hu => (hsub u).1 hu
          grind
        · intro u hu
          simp only [setParents, setChildren, clear]
          have := h5 u (by simp [hu])
          have := hsub u
          grind
        · intro u hu
          simp only [setParents, setChildren, clear]
          have := hsub u
          grind
        · intro u hu
          simp only [setParents, setChildren, clear] at hu ⊢
          have := hsub u
          have := hfr u
          grind
        · intro u
          simp only [setParents, setChildren, clear]
          have := h7 u
          grind
    · apply ih _ _ hsn
      simp only [List.nodup_append, List.nodup_cons] at h4
      constructor
      · exact h1
      · exact h2
      · exact h3
      · exact hfr
      · simp only [List.nodup_append]; grind
      · intro u hu; exact h5 u (by simp [hu])
      · intro u hu; have := h5 item (by simp); grind
      · intro u hu; have := h5 item (by simp); have := hfr item; grind
      · intro u hu; have := h7 u hu; grind

theorem flatten_inv (st : TState) (s : Nat) (h : Inv st) (hs : s < st.n) (hacyc : st.parent s ≠ some s) :
    Inv (flatten st s) := by
  have := flattenAux_inv s (st.children s) st [] hs
    { other := fun s' _ u => h.mem_iff s' u
      nodup := h.nodup
      bound := h.bound
      fresh := h.fresh
      nd := by simpa using h.nodup s
      items_par := by
        intro u hu
        have := (h.mem_iff s u).1 hu
        refine ⟨this, ?_⟩
        intro e; subst e; exact hacyc this
      acc_par := by simp
      acc_lt := by simp
      cover := by intro u hu; right; exact (h.mem_iff s u).2 hu }
  simpa [flatten] using this



/-- what one `deepCopy` call guarantees -/
structure CopySpec (st st' : TState) (r : Nat) : Prop where
  inv : Inv st'
  root : r = st.n
  grow : st.n < st'.n
  keepP : ∀ x, x < st.n → st'.parent x = st.parent x
  keepC : ∀ x, x < st.n → st'.children x = st.children x
  rootP : st'.parent r = none

def copyFold (f : TState → Nat → TState × Nat) (a : TState × List Nat) (c : Nat) : TState × List Nat :=
  let (b, c') := f a.1 c
  (b, a.2 ++ [c'])

theorem fold_spec (f : TState → Nat → TState × Nat)
    (hf : ∀ st u, Inv st → CopySpec st (f st u).1 (f st u).2) :
    ∀ (cl : List Nat) (a : TState) (acc : List Nat), Inv a →
      Inv (cl.foldl (copyFold f) (a, acc)).1 ∧ a.n ≤ (cl.foldl (copyFold f) (a, acc)).1.n ∧
      (∀ x, x < a.n → (cl.foldl (copyFold f) (a, acc)).1.parent x = a.parent x) ∧
      (∀ x, x < a.n → (cl.foldl (copyFold f) (a, acc)).1.children x = a.children x) ∧
      ∃ news, (cl.foldl (copyFold f) (a, acc)).2 = acc ++ news ∧ news.Nodup ∧
        ∀ c ∈ news, a.n ≤ c ∧ c < (cl.foldl (copyFold f) (a, acc)).1.n ∧
          (cl.foldl (copyFold f) (a, acc)).1.parent c = none := by
  intro cl
  induction cl with
  | nil => intro a acc h; exact ⟨h, Nat.le_refl _, fun _ _ => rfl, fun _ _ => rfl, [], by simp, by simp, by simp⟩
  | cons c rest ih =>
    intro a acc h
    have hc := hf a c h
    obtain ⟨i1, i2, i3, i4, news, e, nd, hn⟩ := ih (f a c).1 (acc ++ [(f a c).2]) hc.inv
    have hstep : copyFold f (a, acc) c = ((f a c).1, acc ++ [(f a c).2]) := rfl
    simp only [List.foldl_cons, hstep]
    refine ⟨i1, Nat.le_trans (Nat.le_of_lt hc.grow) i2, ?_, ?_, (f a c).2 :: news, ?_, ?_, ?_⟩
    · intro x hx; rw [i3 x (Nat.lt_trans hx hc.grow), hc.keepP x hx]
    · intro x hx; rw [i4 x (Nat.lt_trans hx hc.grow), hc.keepC x hx]
    · rw [e]; simp
    · simp only [List.nodup_cons]; refine ⟨?_, nd⟩
      intro hm; have := (hn _ hm).1; have := hc.root; have := hc.grow; omega
    · intro c' hc'
      simp only [List.mem_cons] at hc'
      rcases hc' with rfl | hc'
      · have hr := hc.root
        have hg := hc.grow
        refine ⟨Nat.le_of_eq hr.symm, by omega, ?_⟩
        rw [i3 _ (by omega)]; exact hc.rootP
      · have h' := hn c' hc'; have hg := hc.grow; exact ⟨by omega, h'.2.1, h'.2.2⟩

theorem alloc_spec (st : TState) (k l : Nat) (h : Inv st) : CopySpec st (alloc st k l).1 (alloc st k l).2 := by
  refine ⟨alloc_inv st k l h, rfl, by simp [alloc], fun _ _ => rfl, fun _ _ => rfl, ?_⟩
  simpa [alloc] using h.fresh st.n (Nat.le_refl _)

theorem deepCopy_eq (fuel : Nat) (st : TState) (u : Nat) :
    deepCopy (fuel + 1) st u =
      (setParents (setChildren ((st.children u).foldl (copyFold (deepCopy fuel)) ((alloc st (st.kind u) (st.label u)).1, [])).1
          st.n ((st.children u).foldl (copyFold (deepCopy fuel)) ((alloc st (st.kind u) (st.label u)).1, [])).2)
        ((st.children u).foldl (copyFold (deepCopy fuel)) ((alloc st (st.kind u) (st.label u)).1, [])).2 (some st.n), st.n) := by
  rfl

theorem deepCopy_spec : ∀ (fuel : Nat) (st : TState) (u : Nat), Inv st →
    CopySpec st (deepCopy fuel st u).1 (deepCopy fuel st u).2 := by
  intro fuel
  induction fuel with
  | zero => intro st u h; exact alloc_spec st _ _ h
  | succ fuel ih =>
    intro st u h
    rw [deepCopy_eq]
    have ha := alloc_spec st (st.kind u) (st.label u) h
    obtain ⟨i1, i2, i3, i4, news, e, nd, hn⟩ :=
      fold_spec (deepCopy fuel) ih (st.children u) (alloc st (st.kind u) (st.label u)).1 [] ha.inv
    generalize hst2 : ((st.children u).foldl (copyFold (deepCopy fuel)) ((alloc st (st.kind u) (st.label u)).1, [])) = r at *
    simp only [List.nil_append] at e
    have hn1 : (alloc st (st.kind u) (st.label u)).1.n = st.n + 1 := by simp [alloc]
    have hch : r.1.children st.n = [] := by
      rw [i4 st.n (by omega)]
      exact children_of_unallocated st h st.n (Nat.le_refl _)
    have hrw := rewire3 r.1 st.n [] [] [] r.2 i1 (by omega) (by simpa using hch)
      (by intro c hc; rw [e] at hc; exact (hn c hc).2.2) (by rw [e]; exact nd)
      (by intro c hc; rw [e] at hc; exact (hn c hc).2.1)
    have e2 : setParents (setChildren (setParents r.1 [] none) st.n ([] ++ r.2 ++ [])) r.2 (some st.n)
        = setParents (setChildren r.1 st.n r.2) r.2 (some st.n) := by
      simp [setParents, setChildren]
    rw [e2] at hrw
    refine ⟨hrw, rfl, ?_, ?_, ?_, ?_⟩
    · simp only [setParents, setChildren]; omega
    · intro x hx
      simp only [setParents, setChildren]
      have hx' : x ∉ r.2 := by
        intro hm; rw [e] at hm; have := (hn x hm).1; omega
      simp only [hx', if_false]
      rw [i3 x (by omega)]; rfl
    · intro x hx
      simp only [setParents, setChildren]
      have : x ≠ st.n := by omega
      simp only [this, if_false]
      rw [i4 x (by omega)]; rfl
    · simp only [setParents, setChildren]
      have hx' : st.n ∉ r.2 := by
        intro hm; rw [e] at hm; have := (hn _ hm).1; omega
      simp only [hx', if_false]
      rw [i3 st.n (by omega)]
      simpa [alloc] using h.fresh st.n (Nat.le_refl _)


end Tree
