import PyrollModel.Tree

/-! Helper lemmas for C13 (core Lean only, no Mathlib). -/

namespace Tree

/-- The tree invariant of C13: a unit is listed in `s` iff it names `s` as its parent; no unit is listed
twice; parents are allocated units. -/
structure Inv (st : TState) : Prop where
  mem_iff : ∀ s u, u ∈ st.children s ↔ st.parent u = some s
  nodup : ∀ s, (st.children s).Nodup
  bound : ∀ u p, st.parent u = some p → p < st.n
  fresh : ∀ u, st.n ≤ u → st.parent u = none

theorem split3 {α : Type} (l : List α) (lo hi : Nat) (h : lo ≤ hi) :
    l = l.take lo ++ ((l.drop lo).take (hi - lo) ++ l.drop hi) := by
  have h1 : (l.drop lo).drop (hi - lo) = l.drop hi := by
    rw [List.drop_drop]; congr 1; omega
  rw [← h1, List.take_append_drop, List.take_append_drop]

theorem sliceBounds_le (len : Nat) (i j : Option Int) : (sliceBounds len i j).1 ≤ (sliceBounds len i j).2 := by
  simp [sliceBounds]; omega

theorem normIdx_lt {len : Nat} {i : Int} {k : Nat} (h : normIdx len i = some k) : k < len := by
  unfold normIdx at h
  split at h <;> split at h <;> simp at h <;> omega

theorem take_one_drop (l : List Nat) (k : Nat) (hk : k < l.length) : (l.drop k).take 1 = [l[k]] := by
  rw [List.drop_eq_getElem_cons hk]; rfl

theorem setParents_children (st : TState) (us : List Nat) (p : Option Nat) :
    (setParents st us p).children = st.children := rfl

theorem setChildren_parent (st : TState) (s : Nat) (l : List Nat) : (setChildren st s l).parent = st.parent := rfl

/-- generic re-wiring step on a three-way split of the child list: orphan `B`, store `A ++ N ++ C`, adopt `N` -/
theorem rewire3 (st : TState) (s : Nat) (A B C N : List Nat) (h : Inv st) (hs : s < st.n)
    (hl : st.children s = A ++ (B ++ C))
    (hN : ∀ u ∈ N, st.parent u = none) (hNd : N.Nodup) (hNn : ∀ u ∈ N, u < st.n) :
    Inv (setParents (setChildren (setParents st B none) s (A ++ N ++ C)) N (some s)) := by
  have h1 := h.mem_iff
  have h2 := h.nodup s
  rw [hl] at h2
  have h3 := h.nodup
  have h4 := h.bound
  have h5 := h.fresh
  simp only [List.nodup_append] at h2
  constructor
  · intro s' u'
    simp only [setParents, setChildren]
    have := h1 s u'
    rw [hl] at this
    grind
  · intro s'
    simp only [setParents, setChildren]
    by_cases hs : s' = s
    · simp only [hs, if_true]
      have : ∀ u ∈ N, u ∉ A ++ (B ++ C) := by
        intro u hu hmem
        rw [← hl, h1, hN u hu] at hmem
        cases hmem
      simp only [List.nodup_append]
      grind
    · simp only [hs, if_false]; exact h3 s'
  · intro u p
    simp only [setParents, setChildren]
    grind
  · intro u
    simp only [setParents, setChildren]
    grind

/-- same, with the adoption performed first (the order used by `append`, `insert`, `extend`) -/
theorem rewire3' (st : TState) (s : Nat) (A C N : List Nat) (h : Inv st) (hs : s < st.n)
    (hl : st.children s = A ++ C)
    (hN : ∀ u ∈ N, st.parent u = none) (hNd : N.Nodup) (hNn : ∀ u ∈ N, u < st.n) :
    Inv (setChildren (setParents st N (some s)) s (A ++ N ++ C)) := by
  have := rewire3 st s A [] C N h hs (by simpa using hl) hN hNd hNn
  have e : setParents (setChildren (setParents st [] none) s (A ++ N ++ C)) N (some s)
      = setChildren (setParents st N (some s)) s (A ++ N ++ C) := by
    simp [setParents, setChildren]
  rwa [e] at this

/-- general re-wiring step: orphan `B` (units of the edited list), store `newl`, adopt `N`, where `newl` consists of
the old items outside `B` and of `N`, and every unit of `N` is unlisted or one of the replaced units `B` -/
theorem rewireG (st : TState) (s : Nat) (B N newl : List Nat) (h : Inv st) (hs : s < st.n)
    (hB : ∀ u ∈ B, u ∈ st.children s)
    (hmem : ∀ u, u ∈ newl ↔ (u ∈ st.children s ∧ u ∉ B) ∨ u ∈ N)
    (hnd : newl.Nodup)
    (hN : ∀ u ∈ N, st.parent u = none ∨ u ∈ B) (hNn : ∀ u ∈ N, u < st.n) :
    Inv (setParents (setChildren (setParents st B none) s newl) N (some s)) := by
  have h1 := h.mem_iff
  have h3 := h.nodup
  have h4 := h.bound
  have h5 := h.fresh
  constructor
  · intro s' u'
    simp only [setParents, setChildren]
    have := h1 s u'
    have := h1 s' u'
    have := hmem u'
    have := hN u'
    have := hB u'
    grind
  · intro s'
    simp only [setParents, setChildren]
    by_cases hs : s' = s
    · simp only [hs, if_true]; exact hnd
    · simp only [hs, if_false]; exact h3 s'
  · intro u p
    simp only [setParents, setChildren]
    grind
  · intro u
    simp only [setParents, setChildren]
    have := hN u
    have := hB u
    have := h1 s u
    grind

/-- contiguous replacement with overlap allowed -/
theorem rewire3o (st : TState) (s : Nat) (A B C N : List Nat) (h : Inv st) (hs : s < st.n)
    (hl : st.children s = A ++ (B ++ C))
    (hN : ∀ u ∈ N, st.parent u = none ∨ u ∈ B) (hNd : N.Nodup) (hNn : ∀ u ∈ N, u < st.n) :
    Inv (setParents (setChildren (setParents st B none) s (A ++ N ++ C)) N (some s)) := by
  have h2 := h.nodup s
  rw [hl] at h2
  simp only [List.nodup_append] at h2
  have hun : ∀ u ∈ N, st.parent u = none → u ∉ A ++ (B ++ C) := by
    intro u _ hp hmem
    rw [← hl, h.mem_iff, hp] at hmem
    cases hmem
  apply rewireG st s B N (A ++ N ++ C) h hs
  · intro u hu; rw [hl]; simp [hu]
  · intro u; rw [hl]; simp only [List.mem_append]; grind
  · simp only [List.nodup_append]
    simp only [List.mem_append] at hun
    grind
  · exact hN
  · exact hNn

/-! ### extended slices: positions, position-wise replacement / deletion -/

theorem extPos_up : ∀ (fuel : Nat) (cur stop k : Int), 0 < k → 0 ≤ cur →
    (∀ x ∈ extPos fuel cur stop k, cur ≤ (x : Int) ∧ (x : Int) < stop) ∧ (extPos fuel cur stop k).Nodup := by
  intro fuel
  induction fuel with
  | zero => intro cur stop k _ _; simp [extPos]
  | succ fuel ih =>
    intro cur stop k hk hc
    simp only [extPos]
    split
    · rename_i hcond
      have hlt : cur < stop := by omega
      obtain ⟨i1, i2⟩ := ih (cur + k) stop k hk (by omega)
      refine ⟨?_, ?_⟩
      · intro x hx
        simp only [List.mem_cons] at hx
        rcases hx with rfl | hx
        · omega
        · have := i1 x hx; omega
      · simp only [List.nodup_cons]
        refine ⟨?_, i2⟩
        intro hm; have := i1 _ hm; omega
    · simp

theorem extPos_down : ∀ (fuel : Nat) (cur stop k : Int), k < 0 → -1 ≤ stop →
    (∀ x ∈ extPos fuel cur stop k, stop < (x : Int) ∧ (x : Int) ≤ cur) ∧ (extPos fuel cur stop k).Nodup := by
  intro fuel
  induction fuel with
  | zero => intro cur stop k _ _; simp [extPos]
  | succ fuel ih =>
    intro cur stop k hk hc
    simp only [extPos]
    split
    · rename_i hcond
      have hlt : stop < cur := by omega
      obtain ⟨i1, i2⟩ := ih (cur + k) stop k hk hc
      refine ⟨?_, ?_⟩
      · intro x hx
        simp only [List.mem_cons] at hx
        rcases hx with rfl | hx
        · omega
        · have := i1 x hx; omega
      · simp only [List.nodup_cons]
        refine ⟨?_, i2⟩
        intro hm; have := i1 _ hm; omega
    · simp

/-- the positions addressed by an extended slice are distinct and inside the list -/
theorem slicePositions_spec (len : Nat) (i j : Option Int) (k : Int) (hk : k ≠ 0) :
    (∀ p ∈ slicePositions len i j k, p < len) ∧ (slicePositions len i j k).Nodup := by
  simp only [slicePositions]
  by_cases hpos : 0 < k
  · have hb : 0 ≤ (extBounds len i j k).1 ∧ (extBounds len i j k).2 ≤ (len : Int) := by
      simp only [extBounds, hpos, if_true]
      constructor
      · cases i with
        | none => simp
        | some i => simp only; split <;> omega
      · cases j with
        | none => simp
        | some j => simp only; split <;> omega
    obtain ⟨h1, h2⟩ := extPos_up len (extBounds len i j k).1 (extBounds len i j k).2 k hpos hb.1
    exact ⟨fun p hp => by have := h1 p hp; omega, h2⟩
  · have hneg : k < 0 := by omega
    have hb : (extBounds len i j k).1 ≤ (len : Int) - 1 ∧ -1 ≤ (extBounds len i j k).2 := by
      simp only [extBounds, hpos, if_false]
      constructor
      · cases i with
        | none => simp
        | some i => simp only; split <;> omega
      · cases j with
        | none => simp
        | some j => simp only; split <;> omega
    obtain ⟨h1, h2⟩ := extPos_down len (extBounds len i j k).1 (extBounds len i j k).2 k hneg hb.2
    exact ⟨fun p hp => by have := h1 p hp; omega, h2⟩

theorem mem_itemsAt (l pos : List Nat) (y : Nat) : y ∈ itemsAt l pos ↔ ∃ p ∈ pos, l[p]? = some y := by
  simp [itemsAt, List.mem_filterMap]

theorem length_replaceAt (pos us l : List Nat) : (replaceAt pos us l).length = l.length := by
  simp [replaceAt]

theorem getElem_replaceAt (pos us l : List Nat) (p : Nat) (hp : p < l.length) :
    (replaceAt pos us l)[p]'(by simpa [replaceAt] using hp) =
      if p ∈ pos then us.getD (pos.idxOf p) l[p] else l[p] := by
  simp [replaceAt]

/-- position-wise replacement: membership -/
theorem mem_replaceAt (pos us l : List Nat) (hl : l.Nodup) (hpn : pos.Nodup) (hpl : ∀ p ∈ pos, p < l.length)
    (hlen : us.length = pos.length) (x : Nat) :
    x ∈ replaceAt pos us l ↔ (x ∈ l ∧ x ∉ itemsAt l pos) ∨ x ∈ us := by
  constructor
  · intro hx
    obtain ⟨p, hp, rfl⟩ := List.mem_iff_getElem.1 hx
    have hp' : p < l.length := by simpa [replaceAt] using hp
    rw [getElem_replaceAt pos us l p hp']
    by_cases hm : p ∈ pos
    · right
      have := List.idxOf_lt_length_of_mem hm
      simp only [hm, if_true]
      rw [List.getD_eq_getElem?_getD, List.getElem?_eq_getElem (by omega)]
      simp
    · left
      simp only [hm, if_false]
      refine ⟨List.getElem_mem _, ?_⟩
      rw [mem_itemsAt]
      rintro ⟨p', hp'm, he⟩
      have hp'l := hpl p' hp'm
      rw [List.getElem?_eq_getElem hp'l] at he
      have : l[p'] = l[p] := by simpa using he
      have := (List.getElem_inj hl).1 this
      subst this; exact hm hp'm
  · rintro (⟨hx, hni⟩ | hx)
    · obtain ⟨p, hp, rfl⟩ := List.mem_iff_getElem.1 hx
      have hm : p ∉ pos := by
        intro hm; apply hni; rw [mem_itemsAt]; exact ⟨p, hm, by simp [hp]⟩
      apply List.mem_iff_getElem.2
      refine ⟨p, by simpa [replaceAt] using hp, ?_⟩
      rw [getElem_replaceAt pos us l p hp]; simp [hm]
    · obtain ⟨t, ht, rfl⟩ := List.mem_iff_getElem.1 hx
      have ht' : t < pos.length := by omega
      have hpm : pos[t] ∈ pos := List.getElem_mem _
      have hpl' := hpl _ hpm
      apply List.mem_iff_getElem.2
      refine ⟨pos[t], by simpa [replaceAt] using hpl', ?_⟩
      rw [getElem_replaceAt pos us l _ hpl']
      simp only [hpm, if_true]
      rw [hpn.idxOf_getElem t ht', List.getD_eq_getElem?_getD, List.getElem?_eq_getElem ht]
      simp

/-- position-wise replacement keeps the list duplicate-free when every new unit is unlisted or a replaced one -/
theorem nodup_replaceAt (pos us l : List Nat) (hl : l.Nodup) (hpl : ∀ p ∈ pos, p < l.length)
    (hlen : us.length = pos.length) (hun : us.Nodup) (hu : ∀ u ∈ us, u ∉ l ∨ u ∈ itemsAt l pos) :
    (replaceAt pos us l).Nodup := by
  have key : ∀ p (hp : p < l.length) (hm : p ∈ pos),
      (replaceAt pos us l)[p]'(by simpa [replaceAt] using hp) = us[pos.idxOf p]'(by
        have := List.idxOf_lt_length_of_mem hm; omega) := by
    intro p hp hm
    have := List.idxOf_lt_length_of_mem hm
    rw [getElem_replaceAt pos us l p hp]
    simp only [hm, if_true]
    rw [List.getD_eq_getElem?_getD, List.getElem?_eq_getElem (by omega)]
    simp
  have key2 : ∀ p (hp : p < l.length), p ∉ pos →
      (replaceAt pos us l)[p]'(by simpa [replaceAt] using hp) = l[p] := by
    intro p hp hm
    rw [getElem_replaceAt pos us l p hp]; simp [hm]
  -- an inserted unit never equals an old item outside the replaced positions
  have cross : ∀ p (hp : p < l.length) q (hq : q < l.length), p ∈ pos → q ∉ pos →
      (replaceAt pos us l)[p]'(by simpa [replaceAt] using hp) ≠ (replaceAt pos us l)[q]'(by simpa [replaceAt] using hq) := by
    intro p hp q hq hpm hqm he
    rw [key p hp hpm, key2 q hq hqm] at he
    have hmem : us[pos.idxOf p]'(by have := List.idxOf_lt_length_of_mem hpm; omega) ∈ us := List.getElem_mem _
    rcases hu _ hmem with h1 | h1
    · apply h1; rw [he]; exact List.getElem_mem _
    · rw [mem_itemsAt] at h1
      obtain ⟨p', hp'm, he'⟩ := h1
      have hp'l := hpl p' hp'm
      rw [List.getElem?_eq_getElem hp'l, he] at he'
      have : l[p'] = l[q] := by simpa using he'
      have := (List.getElem_inj hl).1 this
      subst this; exact hqm hp'm
  rw [List.Nodup, List.pairwise_iff_getElem]
  intro a b ha hb hab he
  have ha' : a < l.length := by simpa [replaceAt] using ha
  have hb' : b < l.length := by simpa [replaceAt] using hb
  by_cases hma : a ∈ pos <;> by_cases hmb : b ∈ pos
  · rw [key a ha' hma, key b hb' hmb] at he
    have := (List.getElem_inj hun).1 he
    have e1 := List.getElem_idxOf (List.idxOf_lt_length_of_mem hma)
    have e2 := List.getElem_idxOf (List.idxOf_lt_length_of_mem hmb)
    simp only [this] at e1
    rw [e1] at e2; omega
  · exact cross a ha' b hb' hma hmb he
  · exact cross b hb' a ha' hmb hma he.symm
  · rw [key2 a ha' hma, key2 b hb' hmb] at he
    have := (List.getElem_inj hl).1 he
    omega

theorem dropAt_sublist (pos l : List Nat) : (dropAt pos l).Sublist l := by
  have h1 : ((l.zipIdx.filter (fun a => decide (a.2 ∉ pos))).map Prod.fst).Sublist (l.zipIdx.map Prod.fst) :=
    List.Sublist.map _ List.filter_sublist
  rwa [List.zipIdx_map_fst] at h1

theorem mem_dropAt (pos l : List Nat) (hl : l.Nodup) (x : Nat) :
    x ∈ dropAt pos l ↔ (x ∈ l ∧ x ∉ itemsAt l pos) := by
  simp only [dropAt, List.mem_map, List.mem_filter, List.mem_zipIdx_iff_getElem?, mem_itemsAt]
  constructor
  · rintro ⟨⟨y, p⟩, ⟨he, hp⟩, rfl⟩
    simp only at he hp ⊢
    have hp : p ∉ pos := by simpa using hp
    refine ⟨List.mem_of_getElem? he, ?_⟩
    rintro ⟨p', hp'm, he'⟩
    obtain ⟨h1, e1⟩ := List.getElem?_eq_some_iff.1 he
    obtain ⟨h2, e2⟩ := List.getElem?_eq_some_iff.1 he'
    have := (List.getElem_inj hl).1 (e1.trans e2.symm)
    subst this; exact hp hp'm
  · rintro ⟨hx, hni⟩
    obtain ⟨p, hp, rfl⟩ := List.mem_iff_getElem.1 hx
    refine ⟨(l[p], p), ⟨by simp [hp], ?_⟩, rfl⟩
    simp only [decide_eq_true_eq]
    intro hm; exact hni ⟨p, hm, by simp [hp]⟩

theorem append_inv (st : TState) (s u : Nat) (h : Inv st) (hs : s < st.n) (hf : st.parent u = none) (hu : u < st.n) :
    Inv (append st s u) := by
  have := rewire3' st s (st.children s) [] [u] h hs (by simp) (by simpa using hf) (by simp) (by simpa using hu)
  simpa [append] using this

theorem insert_inv (st : TState) (s : Nat) (i : Int) (u : Nat) (h : Inv st) (hs : s < st.n)
    (hf : st.parent u = none) (hu : u < st.n) : Inv (insert st s i u) := by
  have := rewire3' st s ((st.children s).take (clampIdx (st.children s).length i))
    ((st.children s).drop (clampIdx (st.children s).length i)) [u] h hs (by simp) (by simpa using hf) (by simp) (by simpa using hu)
  simpa [insert] using this

theorem extend_inv (st : TState) (s : Nat) (us : List Nat) (h : Inv st) (hs : s < st.n)
    (hf : ∀ u ∈ us, st.parent u = none) (hd : us.Nodup) (hn : ∀ u ∈ us, u < st.n) : Inv (extend st s us) := by
  have := rewire3' st s (st.children s) [] us h hs (by simp) hf hd hn
  simpa [extend] using this

/-- slice assignment; every inserted unit is unlisted or one of the replaced units -/
theorem setSlice_inv (st : TState) (s : Nat) (i j : Option Int) (us : List Nat) (h : Inv st) (hs : s < st.n)
    (hf : ∀ u ∈ us, st.parent u = none ∨ u ∈ bySlice st s i j) (hd : us.Nodup) (hn : ∀ u ∈ us, u < st.n) :
    Inv (setSlice st s i j us) := by
  have hle := sliceBounds_le (st.children s).length i j
  have key := split3 (st.children s) _ _ hle
  exact rewire3o st s _ _ _ us h hs key hf hd hn

theorem delSlice_inv (st : TState) (s : Nat) (i j : Option Int) (h : Inv st) (hs : s < st.n) :
    Inv (delSlice st s i j) := by
  have hle := sliceBounds_le (st.children s).length i j
  have key := split3 (st.children s) _ _ hle
  have := rewire3 st s _ _ _ [] h hs key (by simp) (by simp) (by simp)
  simpa [delSlice, setParents] using this

/-- item assignment; the inserted unit is unlisted or the replaced unit itself (`l[i] = l[i]`) -/
theorem setItem_inv (st : TState) (s : Nat) (i : Int) (u : Nat) (h : Inv st) (hs : s < st.n)
    (hf : st.parent u = none ∨ u ∈ Op.replaced st (.setItem s i u)) (hu : u < st.n) : Inv (setItem st s i u).1 := by
  simp only [setItem]
  simp only [Op.replaced] at hf
  cases hk : normIdx (st.children s).length i with
  | none => simpa using h
  | some k =>
    simp only [hk] at hf
    have key := split3 (st.children s) k (k + 1) (by omega)
    have := rewire3o st s _ _ _ [u] h hs key (by simpa using hf) (by simp) (by simpa using hu)
    simpa using this

theorem delItem_inv (st : TState) (s : Nat) (i : Int) (h : Inv st) (hs : s < st.n) :
    Inv (delItem st s i).1 := by
  simp only [delItem]
  cases hk : normIdx (st.children s).length i with
  | none => simpa using h
  | some k =>
    have key := split3 (st.children s) k (k + 1) (by omega)
    have := rewire3 st s _ _ _ [] h hs key (by simp) (by simp) (by simp)
    simpa [setParents] using this

/-- extended-slice assignment `l[i:j:k] = us` (a size mismatch raises ValueError and leaves the state untouched) -/
theorem setSliceExt_inv (st : TState) (s : Nat) (i j : Option Int) (k : Int) (us : List Nat) (h : Inv st)
    (hs : s < st.n) (hf : ∀ u ∈ us, st.parent u = none ∨ u ∈ Op.replaced st (.setSliceExt s i j k us))
    (hd : us.Nodup) (hn : ∀ u ∈ us, u < st.n) :
    Inv (setSliceExt st s i j k us).1 := by
  simp only [setSliceExt]
  simp only [Op.replaced] at hf
  by_cases h0 : k = 0
  · simpa [h0] using h
  by_cases h1 : k = 1
  · simp only [h1, if_true] at hf
    simpa [h1] using setSlice_inv st s i j us h hs hf hd hn
  simp only [h0, h1, if_false] at hf ⊢
  by_cases hsz' : us.length = (slicePositions (st.children s).length i j k).length
  · simp only [hsz', if_true]
    obtain ⟨hpl, hpn⟩ := slicePositions_spec (st.children s).length i j k h0
    apply rewireG st s _ us _ h hs
    · intro u hu
      rw [mem_itemsAt] at hu
      obtain ⟨p, _, he⟩ := hu
      exact List.mem_of_getElem? he
    · exact mem_replaceAt _ us _ (h.nodup s) hpn hpl hsz'
    · apply nodup_replaceAt _ us _ (h.nodup s) hpl hsz' hd
      intro u hu
      rcases hf u hu with hp | hm
      · left; intro hmem; rw [h.mem_iff, hp] at hmem; cases hmem
      · right; exact hm
    · exact hf
    · exact hn
  · simpa [hsz'] using h

theorem delSliceExt_inv (st : TState) (s : Nat) (i j : Option Int) (k : Int) (h : Inv st) (hs : s < st.n) :
    Inv (delSliceExt st s i j k).1 := by
  simp only [delSliceExt]
  by_cases h0 : k = 0
  · simpa [h0] using h
  by_cases h1 : k = 1
  · simpa [h1] using delSlice_inv st s i j h hs
  simp only [h0, h1, if_false]
  have := rewireG st s (itemsAt (st.children s) (slicePositions (st.children s).length i j k)) []
    (dropAt (slicePositions (st.children s).length i j k) (st.children s)) h hs
    (by
      intro u hu
      rw [mem_itemsAt] at hu
      obtain ⟨p, _, he⟩ := hu
      exact List.mem_of_getElem? he)
    (by intro u; simpa using mem_dropAt _ _ (h.nodup s) u)
    ((h.nodup s).sublist (dropAt_sublist _ _)) (by simp) (by simp)
  simpa [setParents] using this

theorem pop_inv (st : TState) (s : Nat) (i : Int) (h : Inv st) (hs : s < st.n) :
    Inv (pop st s i).1 := by
  simp only [pop]
  cases hk : normIdx (st.children s).length i with
  | none => simpa using h
  | some k =>
    have key := split3 (st.children s) k (k + 1) (by omega)
    have := rewire3 st s _ _ _ [] h hs key (by simp) (by simp) (by simp)
    have e : setParents (setChildren st s (List.take k (st.children s) ++ List.drop (k + 1) (st.children s)))
          (List.take 1 (List.drop k (st.children s))) none
        = setParents (setChildren (setParents st (List.take (k + 1 - k) (List.drop k (st.children s))) none) s
          (List.take k (st.children s) ++ [] ++ List.drop (k + 1) (st.children s))) [] (some s) := by
      simp [setParents, setChildren]
    simp only [e]
    exact this

theorem clear_inv (st : TState) (s : Nat) (h : Inv st) (hs : s < st.n) : Inv (clear st s) := by
  have := rewire3 st s [] (st.children s) [] [] h hs (by simp) (by simp) (by simp) (by simp)
  simpa [clear, setParents] using this

theorem listCopy_inv (st : TState) (s : Nat) (h : Inv st) : Inv (listCopy st s) := by
  have e : listCopy st s = st := by
    have h1 := h.mem_iff
    simp only [listCopy, setParents]
    cases st with
    | mk n parent children kind label =>
      simp only [TState.mk.injEq, true_and, and_true]
      funext u
      simp only at h1
      split
      · rename_i hu; exact ((h1 s u).1 hu).symm
      · rfl
  rw [e]; exact h

theorem remove_inv (st : TState) (s u : Nat) (h : Inv st) (hs : s < st.n) : Inv (remove st s u).1 := by
  simp only [remove]
  split
  · rename_i hu
    obtain ⟨A, C, hAC, hA⟩ := List.eq_append_cons_of_mem hu
    have herase : (st.children s).erase u = A ++ C := by
      rw [hAC, List.erase_append_right _ hA]; simp
    have key : st.children s = A ++ ([u] ++ C) := by simpa using hAC
    have := rewire3 st s A [u] C [] h hs key (by simp) (by simp) (by simp)
    have e : setParents (setChildren st s ((st.children s).erase u)) [u] none
        = setParents (setChildren (setParents st [u] none) s (A ++ [] ++ C)) [] (some s) := by
      rw [herase]; simp [setParents, setChildren]
    rw [e]; exact this
  · exact h

theorem alloc_inv (st : TState) (k l : Nat) (h : Inv st) : Inv (alloc st k l).1 := by
  have h1 := h.mem_iff; have h2 := h.nodup; have h3 := h.bound; have h4 := h.fresh
  constructor
  · exact h1
  · exact h2
  · intro u p hp; have := h3 u p hp; simp [alloc]; omega
  · intro u hu; simp [alloc] at hu; exact h4 u (by omega)

theorem children_of_unallocated (st : TState) (h : Inv st) (s : Nat) (hs : st.n ≤ s) : st.children s = [] := by
  cases hc : st.children s with
  | nil => rfl
  | cons a t =>
    have : a ∈ st.children s := by rw [hc]; simp
    have := h.bound a s ((h.mem_iff s a).1 this)
    omega

theorem construct_inv (st : TState) (us : List Nat) (l : Nat) (h : Inv st)
    (hf : ∀ u ∈ us, st.parent u = none) (hd : us.Nodup) (hn : ∀ u ∈ us, u < st.n) : Inv (construct st us l).1 := by
  have h0 := alloc_inv st 3 l h
  have hc := children_of_unallocated st h st.n (Nat.le_refl _)
  have := rewire3 (alloc st 3 l).1 st.n [] [] [] us h0 (by simp [alloc]) (by simpa [alloc] using hc)
    (by simpa [alloc] using hf) hd (by intro u hu; have := hn u hu; simp [alloc]; omega)
  simpa [construct, setParents, alloc] using this


/-- loop invariant of `flattenAux` for the sequence `s` being flattened -/
structure FlatInv (s : Nat) (st : TState) (items acc : List Nat) : Prop where
  other : ∀ s', s' ≠ s → ∀ u, u ∈ st.children s' ↔ st.parent u = some s'
  nodup : ∀ s', (st.children s').Nodup
  bound : ∀ u p, st.parent u = some p → p < st.n
  fresh : ∀ u, st.n ≤ u → st.parent u = none
  nd : (acc ++ items).Nodup
  items_par : ∀ u ∈ items, st.parent u = some s ∧ u ≠ s
  acc_par : ∀ u ∈ acc, st.parent u = none ∨ st.parent u = some s
  acc_lt : ∀ u ∈ acc, u < st.n
  cover : ∀ u, st.parent u = some s → u ∈ acc ∨ u ∈ items

theorem flattenAux_inv (s : Nat) :
    ∀ (items : List Nat) (st : TState) (acc : List Nat), s < st.n → FlatInv s st items acc →
      Inv (setParents (setChildren (flattenAux st items acc).1 s (flattenAux st items acc).2)
        (flattenAux st items acc).2 (some s)) := by
  intro items
  induction items with
  | nil =>
    intro st acc hsn h
    obtain ⟨h1, h2, h3, hfr, h4, h5, h6, hlt, h7⟩ := h
    simp only [flattenAux]
    simp only [List.append_nil] at h4
    constructor
    · intro s' u
      simp only [setParents, setChildren]
      have := h1 s'
      grind
    · intro s'
      simp only [setParents, setChildren]
      grind
    · intro u p
      simp only [setParents, setChildren]
      grind
    · intro u hu
      simp only [setParents, setChildren] at hu ⊢
      have := h6 u
      have := hlt u
      grind
  | cons item rest ih =>
    intro st acc hsn h
    obtain ⟨h1, h2, h3, hfr, h4, h5, h6, hlt, h7⟩ := h
    simp only [flattenAux]
    split
    · -- a sequence is dissolved
      apply ih
      · simpa [setParents, setChildren, clear] using hsn
      · have hitem := h5 item (by simp)
        have hsub := h1 item hitem.2
        have hndsub := h2 item
        simp only [List.nodup_append, List.nodup_cons] at h4
        constructor
        · intro s' hs' u
          simp only [setParents, setChildren, clear]
          have := h1 s' hs' u
          have := hsub u
          grind
        · intro s'
          simp only [setParents, setChildren, clear]
          grind
        · intro u p
          simp only [setParents, setChildren, clear]
          grind
        · intro u hu
          simp only [setParents, setChildren, clear] at hu ⊢
          grind
        · simp only [List.nodup_append]
          have : ∀ u ∈ st.children item, st.parent u = some item := fun u hu => (hsub u).1 hu
          grind
        · intro u hu
          simp only [setParents, setChildren, clear]
          have := h5 u (by simp [hu])
          have := hsub u
          grind
        · intro u hu
          simp only [setParents, setChildren, clear]
          have := hsub u
          grind
        · intro u hu
          simp only [setParents, setChildren, clear] at hu ⊢
          have := hsub u
          have := hfr u
          grind
        · intro u
          simp only [setParents, setChildren, clear]
          have := h7 u
          grind
    · apply ih _ _ hsn
      simp only [List.nodup_append, List.nodup_cons] at h4
      constructor
      · exact h1
      · exact h2
      · exact h3
      · exact hfr
      · simp only [List.nodup_append]; grind
      · intro u hu; exact h5 u (by simp [hu])
      · intro u hu; have := h5 item (by simp); grind
      · intro u hu; have := h5 item (by simp); have := hfr item; grind
      · intro u hu; have := h7 u hu; grind

theorem flatten_inv (st : TState) (s : Nat) (h : Inv st) (hs : s < st.n) (hacyc : st.parent s ≠ some s) :
    Inv (flatten st s) := by
  have := flattenAux_inv s (st.children s) st [] hs
    { other := fun s' _ u => h.mem_iff s' u
      nodup := h.nodup
      bound := h.bound
      fresh := h.fresh
      nd := by simpa using h.nodup s
      items_par := by
        intro u hu
        have := (h.mem_iff s u).1 hu
        refine ⟨this, ?_⟩
        intro e; subst e; exact hacyc this
      acc_par := by simp
      acc_lt := by simp
      cover := by intro u hu; right; exact (h.mem_iff s u).2 hu }
  simpa [flatten] using this



/-- what one `deepCopy` call guarantees -/
structure CopySpec (st st' : TState) (r : Nat) : Prop where
  inv : Inv st'
  root : r = st.n
  grow : st.n < st'.n
  keepP : ∀ x, x < st.n → st'.parent x = st.parent x
  keepC : ∀ x, x < st.n → st'.children x = st.children x
  rootP : st'.parent r = none

def copyFold (f : TState → Nat → TState × Nat) (a : TState × List Nat) (c : Nat) : TState × List Nat :=
  let (b, c') := f a.1 c
  (b, a.2 ++ [c'])

theorem fold_spec (f : TState → Nat → TState × Nat)
    (hf : ∀ st u, Inv st → CopySpec st (f st u).1 (f st u).2) :
    ∀ (cl : List Nat) (a : TState) (acc : List Nat), Inv a →
      Inv (cl.foldl (copyFold f) (a, acc)).1 ∧ a.n ≤ (cl.foldl (copyFold f) (a, acc)).1.n ∧
      (∀ x, x < a.n → (cl.foldl (copyFold f) (a, acc)).1.parent x = a.parent x) ∧
      (∀ x, x < a.n → (cl.foldl (copyFold f) (a, acc)).1.children x = a.children x) ∧
      ∃ news, (cl.foldl (copyFold f) (a, acc)).2 = acc ++ news ∧ news.Nodup ∧
        ∀ c ∈ news, a.n ≤ c ∧ c < (cl.foldl (copyFold f) (a, acc)).1.n ∧
          (cl.foldl (copyFold f) (a, acc)).1.parent c = none := by
  intro cl
  induction cl with
  | nil => intro a acc h; exact ⟨h, Nat.le_refl _, fun _ _ => rfl, fun _ _ => rfl, [], by simp, by simp, by simp⟩
  | cons c rest ih =>
    intro a acc h
    have hc := hf a c h
    obtain ⟨i1, i2, i3, i4, news, e, nd, hn⟩ := ih (f a c).1 (acc ++ [(f a c).2]) hc.inv
    have hstep : copyFold f (a, acc) c = ((f a c).1, acc ++ [(f a c).2]) := rfl
    simp only [List.foldl_cons, hstep]
    refine ⟨i1, Nat.le_trans (Nat.le_of_lt hc.grow) i2, ?_, ?_, (f a c).2 :: news, ?_, ?_, ?_⟩
    · intro x hx; rw [i3 x (Nat.lt_trans hx hc.grow), hc.keepP x hx]
    · intro x hx; rw [i4 x (Nat.lt_trans hx hc.grow), hc.keepC x hx]
    · rw [e]; simp
    · simp only [List.nodup_cons]; refine ⟨?_, nd⟩
      intro hm; have := (hn _ hm).1; have := hc.root; have := hc.grow; omega
    · intro c' hc'
      simp only [List.mem_cons] at hc'
      rcases hc' with rfl | hc'
      · have hr := hc.root
        have hg := hc.grow
        refine ⟨Nat.le_of_eq hr.symm, by omega, ?_⟩
        rw [i3 _ (by omega)]; exact hc.rootP
      · have h' := hn c' hc'; have hg := hc.grow; exact ⟨by omega, h'.2.1, h'.2.2⟩

theorem alloc_spec (st : TState) (k l : Nat) (h : Inv st) : CopySpec st (alloc st k l).1 (alloc st k l).2 := by
  refine ⟨alloc_inv st k l h, rfl, by simp [alloc], fun _ _ => rfl, fun _ _ => rfl, ?_⟩
  simpa [alloc] using h.fresh st.n (Nat.le_refl _)

theorem deepCopy_eq (fuel : Nat) (st : TState) (u : Nat) :
    deepCopy (fuel + 1) st u =
      (setParents (setChildren ((st.children u).foldl (copyFold (deepCopy fuel)) ((alloc st (st.kind u) (st.label u)).1, [])).1
          st.n ((st.children u).foldl (copyFold (deepCopy fuel)) ((alloc st (st.kind u) (st.label u)).1, [])).2)
        ((st.children u).foldl (copyFold (deepCopy fuel)) ((alloc st (st.kind u) (st.label u)).1, [])).2 (some st.n), st.n) := by
  rfl

theorem deepCopy_spec : ∀ (fuel : Nat) (st : TState) (u : Nat), Inv st →
    CopySpec st (deepCopy fuel st u).1 (deepCopy fuel st u).2 := by
  intro fuel
  induction fuel with
  | zero => intro st u h; exact alloc_spec st _ _ h
  | succ fuel ih =>
    intro st u h
    rw [deepCopy_eq]
    have ha := alloc_spec st (st.kind u) (st.label u) h
    obtain ⟨i1, i2, i3, i4, news, e, nd, hn⟩ :=
      fold_spec (deepCopy fuel) ih (st.children u) (alloc st (st.kind u) (st.label u)).1 [] ha.inv
    generalize hst2 : ((st.children u).foldl (copyFold (deepCopy fuel)) ((alloc st (st.kind u) (st.label u)).1, [])) = r at *
    simp only [List.nil_append] at e
    have hn1 : (alloc st (st.kind u) (st.label u)).1.n = st.n + 1 := by simp [alloc]
    have hch : r.1.children st.n = [] := by
      rw [i4 st.n (by omega)]
      exact children_of_unallocated st h st.n (Nat.le_refl _)
    have hrw := rewire3 r.1 st.n [] [] [] r.2 i1 (by omega) (by simpa using hch)
      (by intro c hc; rw [e] at hc; exact (hn c hc).2.2) (by rw [e]; exact nd)
      (by intro c hc; rw [e] at hc; exact (hn c hc).2.1)
    have e2 : setParents (setChildren (setParents r.1 [] none) st.n ([] ++ r.2 ++ [])) r.2 (some st.n)
        = setParents (setChildren r.1 st.n r.2) r.2 (some st.n) := by
      simp [setParents, setChildren]
    rw [e2] at hrw
    refine ⟨hrw, rfl, ?_, ?_, ?_, ?_⟩
    · simp only [setParents, setChildren]; omega
    · intro x hx
      simp only [setParents, setChildren]
      have hx' : x ∉ r.2 := by
        intro hm; rw [e] at hm; have := (hn x hm).1; omega
      simp only [hx', if_false]
      rw [i3 x (by omega)]; rfl
    · intro x hx
      simp only [setParents, setChildren]
      have : x ≠ st.n := by omega
      simp only [this, if_false]
      rw [i4 x (by omega)]; rfl
    · simp only [setParents, setChildren]
      have hx' : st.n ∉ r.2 := by
        intro hm; rw [e] at hm; have := (hn _ hm).1; omega
      simp only [hx', if_false]
      rw [i3 st.n (by omega)]
      simpa [alloc] using h.fresh st.n (Nat.le_refl _)

/-! ### navigation -/

theorem nodup_bounded_length : ∀ (n : Nat) (l : List Nat), l.Nodup → (∀ x ∈ l, x < n) → l.length ≤ n := by
  intro n
  induction n with
  | zero =>
    intro l _ hb
    cases l with
    | nil => simp
    | cons a t => have := hb a (by simp); omega
  | succ n ih =>
    intro l hnd hb
    by_cases hm : n ∈ l
    · have h1 := ih (l.erase n) (hnd.erase n) (by
        intro x hx
        have := (hnd.mem_erase_iff).1 hx
        have := hb x this.2
        omega)
      have := List.length_erase_of_mem hm
      omega
    · have := ih l hnd (by
        intro x hx
        have := hb x hx
        have : x ≠ n := by intro e; subst e; exact hm hx
        omega)
      omega

theorem children_length_le (st : TState) (h : Inv st) (s : Nat) : (st.children s).length ≤ st.n := by
  apply nodup_bounded_length _ _ (h.nodup s)
  intro x hx
  have hp := (h.mem_iff s x).1 hx
  cases Nat.lt_or_ge x st.n with
  | inl hlt => exact hlt
  | inr hge => rw [h.fresh x hge] at hp; cases hp

/-- `prev`/`next` of a listed unit are its list neighbours -/
theorem nav_split (st : TState) (h : Inv st) (p u : Nat) (pre post : List Nat)
    (hl : st.children p = pre ++ u :: post) :
    prev st u = (match pre.getLast? with | some v => .unit v | none => .indexError) ∧
    next st u = (match post.head? with | some v => .unit v | none => .indexError) := by
  have hmem : u ∈ st.children p := by rw [hl]; simp
  have hpar := (h.mem_iff p u).1 hmem
  have hnd := h.nodup p
  rw [hl] at hnd
  have hnotin : u ∉ pre := by
    intro hm
    have := List.nodup_append.1 hnd
    exact this.2.2 u hm u (by simp) rfl
  have hidx : (pre ++ u :: post).idxOf u = pre.length := by
    rw [List.idxOf_append]; simp [hnotin]
  constructor
  · simp only [prev, hpar, hl, hidx]
    have : u ∈ pre ++ u :: post := by simp
    simp only [this, if_true]
    rcases List.eq_nil_or_concat pre with rfl | ⟨pre', v, rfl⟩
    · simp
    · simp [List.getLast?_eq_getElem?]
  · simp only [next, hpar, hl, hidx]
    have : u ∈ pre ++ u :: post := by simp
    simp only [this, if_true]
    cases post with
    | nil => simp
    | cons v post' => simp

theorem prevOfAux_spec (st : TState) (h : Inv st) (q p : Nat) :
    ∀ (fuel : Nat) (pre : List Nat) (u : Nat) (post : List Nat),
      st.children p = pre ++ u :: post → pre.length < fuel →
      prevOfAux fuel st u q =
        (match (pre.filter (isKind st q)).getLast? with | some v => .unit v | none => .indexError) := by
  intro fuel
  induction fuel with
  | zero => intro pre u post _ hf; omega
  | succ fuel ih =>
    intro pre u post hl hf
    have hp := (nav_split st h p u pre post hl).1
    simp only [prevOfAux, hp]
    rcases List.eq_nil_or_concat pre with rfl | ⟨pre', v, rfl⟩
    · simp
    · have e : (pre' ++ [v]).getLast? = some v := by simp
      simp only [List.concat_eq_append] at hl hf ⊢
      simp only [e]
      by_cases hk : isKind st q v = true
      · simp [hk, List.filter_append]
      · have := ih pre' v (u :: post) (by simpa using hl) (by simp at hf; omega)
        simp [hk, List.filter_append, this]

theorem nextOfAux_spec (st : TState) (h : Inv st) (q p : Nat) :
    ∀ (fuel : Nat) (post : List Nat) (u : Nat) (pre : List Nat),
      st.children p = pre ++ u :: post → post.length < fuel →
      nextOfAux fuel st u q =
        (match (post.filter (isKind st q)).head? with | some v => .unit v | none => .indexError) := by
  intro fuel
  induction fuel with
  | zero => intro post u pre _ hf; omega
  | succ fuel ih =>
    intro post u pre hl hf
    have hp := (nav_split st h p u pre post hl).2
    simp only [nextOfAux, hp]
    cases post with
    | nil => simp
    | cons v post' =>
      simp only [List.head?_cons]
      by_cases hk : isKind st q v = true
      · simp [hk]
      · have := ih post' v (pre ++ [u]) (by simpa using hl) (by simp at hf; omega)
        simp [hk, this]

end Tree
