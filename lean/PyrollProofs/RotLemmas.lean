import PyrollModel.Rot

/-!
Helper lemmas for C14 (discrete part): the backward walk, the `rotation` hook, the factory, totality and priority of the
rule table, the hand-over along a flat sequence (`stateAt`, `go`), classifier sets.

The lemmas are about the interpreters of `PyrollModel/Rot.lean` applied to ANY table set `T` that has the shape `AsRead T`
(what the proofs use of the tables).  `PyrollProps/C14.lean` instantiates `T` with the tables GENERATED from the source and
discharges `AsRead` by kernel evaluation against the regenerated file on every run.
-/

namespace Rot

/-! ### what the proofs use of the generated tables -/
def expectedWalk : WalkSpec :=
  { needsAuto := true, needsParent := true, noPrev := some true,
    tests := [(Kind.pass, true), (Kind.rotator, false)], exhausted := some true }
def expectedFactory : FactorySpec :=
  { condTruthy := true, angle := .valueUnlessTrue, parentIsPass := true, registered := true }
def defaultRule : Rule := { name := "default_90", tier := 1, alts := [(.tt, 90)] }

structure AsRead (T : Tables) : Prop where
  /-- `detect_already_rotated` -/
  walk : T.walk = expectedWalk
  /-- registration order on `BaseRollPass.rotation` -/
  fns : T.rotationFns = [.configValue, .detect]
  /-- `rotator_factory` -/
  factory : T.factory = expectedFactory
  /-- the unconditional rule is among the registered ones -/
  default : defaultRule ∈ evalOrder T.rules

variable {T : Tables}

/-- the nearest unit before the pass that is a roll pass or a rotator decides -/
theorem walkLoop_mid (hT : AsRead T) (mid rest : List Kind) (h : ∀ k ∈ mid, k ≠ .pass) :
    walkLoop T.walk (mid ++ .pass :: rest) = some (!mid.contains .rotator) := by
  induction mid with
  | nil => simp [walkLoop, hT.walk, expectedWalk, testKind]
  | cons k mid ih =>
    have hk : k ≠ .pass := h k (by simp)
    have ih' := ih (fun k' hk' => h k' (by simp [hk']))
    cases k with
    | pass => exact absurd rfl hk
    | rotator => simp [walkLoop, hT.walk, expectedWalk, testKind]
    | transport => simpa [walkLoop, hT.walk, expectedWalk, testKind] using ih'
    | other => simpa [walkLoop, hT.walk, expectedWalk, testKind] using ih'

theorem walkLoop_start (hT : AsRead T) (mid : List Kind) (h : ∀ k ∈ mid, k ≠ .pass) :
    walkLoop T.walk mid = some (!mid.contains .rotator) := by
  induction mid with
  | nil => simp [walkLoop, hT.walk, expectedWalk]
  | cons k mid ih =>
    have hk : k ≠ .pass := h k (by simp)
    have ih' := ih (fun k' hk' => h k' (by simp [hk']))
    cases k with
    | pass => exact absurd rfl hk
    | rotator => simp [walkLoop, hT.walk, expectedWalk, testKind]
    | transport => simpa [walkLoop, hT.walk, expectedWalk, testKind] using ih'
    | other => simpa [walkLoop, hT.walk, expectedWalk, testKind] using ih'

theorem detect_in_sequence (hT : AsRead T) (mid rest : List Kind) (h : ∀ k ∈ mid, k ≠ .pass) :
    detect T.walk true true (mid ++ .pass :: rest) = some (!mid.contains .rotator) := by
  have := walkLoop_mid hT mid rest h
  cases mid with
  | nil => simpa [detect, hT.walk, expectedWalk] using this
  | cons k mid => simpa [detect, hT.walk, expectedWalk] using this

theorem detect_at_start (hT : AsRead T) (mid : List Kind) (h : ∀ k ∈ mid, k ≠ .pass) :
    detect T.walk true true mid = some (!mid.contains .rotator) := by
  have := walkLoop_start hT mid h
  cases mid with
  | nil => simp [detect, hT.walk, expectedWalk]
  | cons k mid => simpa [detect, hT.walk, expectedWalk] using this

theorem detect_off (hT : AsRead T) (hp : Bool) (before : List Kind) : detect T.walk false hp before = none := by
  simp [detect, hT.walk, expectedWalk]

theorem detect_noParent (hT : AsRead T) (auto : Bool) (before : List Kind) : detect T.walk auto false before = none := by
  simp [detect, hT.walk, expectedWalk]

section
variable {α : Type}

theorem rotationValue_unset (hT : AsRead T) (auto hp : Bool) (before : List Kind) :
    rotationValue (α := α) T auto hp before .unset =
      some (RotVal.ofBool ((detect T.walk auto hp before).getD auto)) := by
  simp only [rotationValue, hT.fns, List.reverse_cons, List.reverse_nil, List.nil_append, List.cons_append,
    firstFn, RotFn.eval]
  cases detect T.walk auto hp before <;> simp

end

section num
variable {α : Type} [PyNum α]

theorem factory_tt (hT : AsRead T) : factory T.factory (.tt : RotVal α) = some none := by
  simp [factory, hT.factory, expectedFactory, RotVal.truthy]

theorem factory_ff (hT : AsRead T) : factory T.factory (.ff : RotVal α) = none := by
  simp [factory, hT.factory, expectedFactory, RotVal.truthy]

theorem factory_num (hT : AsRead T) (x : α) : factory T.factory (.num x) = if isZero x then none else some (some x) := by
  cases h : isZero x <;> simp [factory, hT.factory, expectedFactory, RotVal.truthy, h]

theorem factory_ofBool (hT : AsRead T) (b : Bool) : factory T.factory (RotVal.ofBool b : RotVal α) = if b then some none else none := by
  cases b <;> simp [RotVal.ofBool, factory_tt hT, factory_ff hT]

/-! ### the rule table is total: the unconditional rule is registered -/

theorem firstSome_isSome_of_mem (a b : List String) (r : Rule) (n : Nat) (hr : r.eval a b = some n) :
    ∀ l : List Rule, r ∈ l → (firstSome a b l).isSome
  | [], h => by simp at h
  | r' :: l, h => by
    simp only [firstSome]
    cases h' : r'.eval a b with
    | some _ => simp
    | none =>
      have : r ∈ l := by
        rcases List.mem_cons.1 h with rfl | h
        · rw [hr] at h'; cases h'
        · exact h
      simpa using firstSome_isSome_of_mem a b r n hr l this

theorem ruleAngle_isSome (hT : AsRead T) (a b : List String) : (ruleAngle T.rules a b).isSome :=
  firstSome_isSome_of_mem a b defaultRule 90 (by simp [defaultRule, Rule.eval, evalAlts, Cond.eval]) _ hT.default

theorem ruleAngle_total (hT : AsRead T) (a b : List String) : ∃ n, ruleAngle T.rules a b = some n :=
  Option.isSome_iff_exists.1 (ruleAngle_isSome hT a b)


/-! ### entering a pass -/

/-- no rotator is created: the profile goes in as it comes -/
theorem enterPass_none (auto : Bool) (st : St α) (s : Setting α) (c : List String) (v : RotVal α)
    (hv : rotationValue T auto true st.before s = some v) (hf : factory T.factory v = none) :
    enterPass T auto st s c = .pass v none st.turn st.cls := by
  simp [enterPass, hv, hf]

/-- a rotator with an explicit angle is created -/
theorem enterPass_angle (auto : Bool) (st : St α) (s : Setting α) (c : List String) (v : RotVal α) (x : α)
    (hv : rotationValue T auto true st.before s = some v) (hf : factory T.factory v = some (some x)) :
    enterPass T auto st s c = .pass v (some x) (st.turn + x) (marksOut T.marks st.cls x) := by
  simp [enterPass, hv, hf, resolveAngle]

/-- a rule-based rotator is created -/
theorem enterPass_rule (hT : AsRead T) (auto : Bool) (st : St α) (s : Setting α) (c : List String) (v : RotVal α)
    (hv : rotationValue T auto true st.before s = some v) (hf : factory T.factory v = some none) :
    ∃ n, ruleAngle T.rules st.cls c = some n ∧
      enterPass T auto st s c = .pass v (some (PyNum.nat n : α)) (st.turn + PyNum.nat n) (marksOut T.marks st.cls (PyNum.nat n : α)) := by
  obtain ⟨n, hn⟩ := ruleAngle_total hT st.cls c
  exact ⟨n, hn, by simp [enterPass, hv, hf, resolveAngle, hn]⟩

theorem enterPass_not_err (hT : AsRead T) (auto : Bool) (st : St α) (s : Setting α) (c : List String) :
    (enterPass T auto st s c).isErr = false := by
  have hv : ∃ v, rotationValue T auto true st.before s = some v := by
    cases s with
    | unset => exact ⟨_, rotationValue_unset hT auto true st.before⟩
    | tt => exact ⟨_, rfl⟩
    | ff => exact ⟨_, rfl⟩
    | num x => exact ⟨_, rfl⟩
  obtain ⟨v, hv⟩ := hv
  cases hf : factory T.factory v with
  | none => rw [enterPass_none auto st s c v hv hf]; rfl
  | some a =>
    cases a with
    | none =>
      obtain ⟨n, _, h⟩ := enterPass_rule hT auto st s c v hv hf
      rw [h]; rfl
    | some x => rw [enterPass_angle auto st s c v x hv hf]; rfl


/-! ### the hand-over along the sequence -/

theorem stateAt_before (auto : Bool) : ∀ (us : List (U α)) (st st' : St α) (n : Nat),
    stateAt T auto st us n = some st' → st'.before = ((us.take n).map U.kind).reverse ++ st.before
  | _, st, st', 0, h => by
    simp only [stateAt, Option.some.injEq] at h
    simp [← h]
  | [], st, st', n + 1, h => by simp [stateAt] at h
  | u :: us, st, st', n + 1, h => by
    cases u with
    | pass s c =>
      simp only [stateAt] at h
      split at h
      · cases h
      · have := stateAt_before auto us _ st' n h
        simp [this, U.kind]
    | rotator a =>
      simp only [stateAt] at h
      split at h
      · cases h
      · have := stateAt_before auto us _ st' n h
        simp [this, U.kind]
    | transport =>
      simp only [stateAt] at h
      have := stateAt_before auto us _ st' n h
      simp [this, U.kind]
    | other =>
      simp only [stateAt] at h
      have := stateAt_before auto us _ st' n h
      simp [this, U.kind]

/-- the observation `go` emits at a pass is `enterPass` in the state the hand-over has reached there -/
theorem go_get_pass (auto : Bool) : ∀ (us : List (U α)) (st st' : St α) (n : Nat) (s : Setting α) (c : List String),
    stateAt T auto st us n = some st' → us[n]? = some (.pass s c) →
    (go T auto st us)[n]? = some (enterPass T auto st' s c)
  | [], _, _, n, _, _, _, hu => by simp at hu
  | u :: us, st, st', 0, s, c, h, hu => by
    simp only [stateAt, Option.some.injEq] at h
    simp only [List.getElem?_cons_zero, Option.some.injEq] at hu
    subst h; subst hu
    simp only [go]
    split <;> simp
  | u :: us, st, st', n + 1, s, c, h, hu => by
    simp only [List.getElem?_cons_succ] at hu
    cases u with
    | pass s' c' =>
      simp only [stateAt] at h
      split at h
      · cases h
      · rename_i hne
        simp only [go, hne]
        simpa using go_get_pass auto us _ st' n s c h hu
    | rotator a =>
      simp only [stateAt] at h
      split at h
      · cases h
      · rename_i θ hθ
        simp only [go, hθ]
        simpa using go_get_pass auto us _ st' n s c h hu
    | transport =>
      simp only [stateAt] at h
      simp only [go]
      simpa using go_get_pass auto us _ st' n s c h hu
    | other =>
      simp only [stateAt] at h
      simp only [go]
      simpa using go_get_pass auto us _ st' n s c h hu


omit [PyNum α] in
theorem nextPassCls_isSome : ∀ (us : List (U α)) (n : Nat) (s : Setting α) (c : List String),
    us[n]? = some (.pass s c) → (nextPassCls us).isSome
  | [], n, _, _, h => by simp at h
  | u :: us, 0, s, c, h => by
    simp only [List.getElem?_cons_zero, Option.some.injEq] at h
    subst h; simp [nextPassCls]
  | u :: us, n + 1, s, c, h => by
    simp only [List.getElem?_cons_succ] at h
    have := nextPassCls_isSome us n s c h
    cases u <;> simp [nextPassCls, this]

/-- nothing raises before a roll pass: every rule-based rotator in front of it finds it as its next pass, and the rule table
is total -/
theorem stateAt_isSome_of_pass (hT : AsRead T) (auto : Bool) : ∀ (us : List (U α)) (st : St α) (n : Nat) (s : Setting α) (c : List String),
    us[n]? = some (.pass s c) → (stateAt T auto st us n).isSome
  | _, st, 0, _, _, _ => by simp [stateAt]
  | [], _, n + 1, _, _, h => by simp at h
  | u :: us, st, n + 1, s, c, h => by
    simp only [List.getElem?_cons_succ] at h
    cases u with
    | pass s' c' =>
      simp only [stateAt, enterPass_not_err hT]
      exact stateAt_isSome_of_pass hT auto us _ n s c h
    | rotator a =>
      simp only [stateAt]
      have hr : ∃ θ, resolveAngle T a st.cls (nextPassCls us) = some θ := by
        cases a with
        | some θ => exact ⟨θ, rfl⟩
        | none =>
          obtain ⟨c', hc'⟩ := Option.isSome_iff_exists.1 (nextPassCls_isSome us n s c h)
          obtain ⟨m, hm⟩ := ruleAngle_total hT st.cls c'
          exact ⟨PyNum.nat m, by simp [resolveAngle, hc', hm]⟩
      obtain ⟨θ, hθ⟩ := hr
      simp only [hθ]
      exact stateAt_isSome_of_pass hT auto us _ n s c h
    | transport =>
      simp only [stateAt]
      exact stateAt_isSome_of_pass hT auto us _ n s c h
    | other =>
      simp only [stateAt]
      exact stateAt_isSome_of_pass hT auto us _ n s c h

/-- the explicitly stated angles of the rotators of a stretch of units, in order -/
def explicitAngles : List (U α) → List α
  | [] => []
  | .rotator (some θ) :: us => θ :: explicitAngles us
  | _ :: us => explicitAngles us

/-- a stretch without roll pass and without rule-based rotator -/
def Plain (mid : List (U α)) : Prop := ∀ u ∈ mid, u.isPass = false ∧ (∀ θ, u = .rotator θ → θ ≠ none)

/-- between two passes only the explicit rotators change the profile: its turn grows by their angles, in order, and its
classifiers collect their marks -/
theorem stateAt_plain (auto : Bool) : ∀ (mid rest : List (U α)) (st : St α), Plain mid →
    stateAt T auto st (mid ++ rest) mid.length = some
      { before := (mid.map U.kind).reverse ++ st.before,
        cls := (explicitAngles mid).foldl (fun c θ => marksOut T.marks c θ) st.cls,
        turn := (explicitAngles mid).foldl (· + ·) st.turn }
  | [], rest, st, _ => by simp [stateAt, explicitAngles]
  | u :: mid, rest, st, h => by
    have hu := h u (by simp)
    have hm : Plain mid := fun u' hu' => h u' (by simp [hu'])
    cases u with
    | pass s c => simp [U.isPass] at hu
    | rotator a =>
      cases a with
      | none => exact absurd rfl (hu.2 none rfl)
      | some θ =>
        simp only [List.cons_append, List.length_cons, stateAt, resolveAngle]
        rw [stateAt_plain auto mid rest _ hm]
        simp [explicitAngles, U.kind]
    | transport =>
      simp only [List.cons_append, List.length_cons, stateAt]
      rw [stateAt_plain auto mid rest _ hm]
      simp [explicitAngles, U.kind]
    | other =>
      simp only [List.cons_append, List.length_cons, stateAt]
      rw [stateAt_plain auto mid rest _ hm]
      simp [explicitAngles, U.kind]


theorem stateAt_add (auto : Bool) : ∀ (us : List (U α)) (st : St α) (n k : Nat),
    stateAt T auto st us (n + k) = (stateAt T auto st us n).bind (fun st1 => stateAt T auto st1 (us.drop n) k)
  | us, st, 0, k => by simp [stateAt]
  | [], st, n + 1, k => by
    have : n + 1 + k = (n + k) + 1 := by omega
    simp [this, stateAt]
  | u :: us, st, n + 1, k => by
    have e : n + 1 + k = (n + k) + 1 := by omega
    rw [e]
    cases u with
    | pass s c =>
      simp only [stateAt, List.drop_succ_cons]
      split
      · simp
      · exact stateAt_add auto us _ n k
    | rotator a =>
      simp only [stateAt, List.drop_succ_cons]
      split
      · simp
      · exact stateAt_add auto us _ n k
    | transport => simpa only [stateAt, List.drop_succ_cons] using stateAt_add auto us _ n k
    | other => simpa only [stateAt, List.drop_succ_cons] using stateAt_add auto us _ n k

/-- the state in which pass k+1 is entered, in terms of the state in which pass k was entered: only the plain stretch between
them matters -/
theorem stateAt_next_pass (hT : AsRead T) (auto : Bool) (st : St α) (s1 : Setting α) (c1 : List String) (mid rest : List (U α))
    (hm : Plain mid) :
    stateAt T auto st (.pass s1 c1 :: mid ++ rest) (1 + mid.length) = some
      { before := (mid.map U.kind).reverse ++ .pass :: st.before,
        cls := (explicitAngles mid).foldl (fun c θ => marksOut T.marks c θ) c1,
        turn := (explicitAngles mid).foldl (· + ·) (PyNum.nat 0) } := by
  rw [stateAt_add]
  simp only [stateAt, enterPass_not_err hT, List.cons_append, Bool.false_eq_true, if_false, Option.bind_some, List.drop_succ_cons,
    List.drop_zero]
  exact stateAt_plain auto mid rest _ hm

end num

/-! ### classifier sets -/

theorem mem_addCls (s : List String) (c x : String) : x ∈ addCls s c ↔ x ∈ s ∨ x = c := by
  unfold addCls
  split
  · rename_i h
    constructor
    · exact Or.inl
    · rintro (h' | rfl)
      · exact h'
      · simpa using h
  · simp

theorem mem_unionCls : ∀ (b s : List String) (x : String), x ∈ unionCls s b ↔ x ∈ s ∨ x ∈ b
  | [], s, x => by simp [unionCls]
  | c :: b, s, x => by
    simp only [unionCls, mem_unionCls b, mem_addCls, List.mem_cons]
    constructor
    · rintro ((h | h) | h)
      · exact Or.inl h
      · exact Or.inr (Or.inl h)
      · exact Or.inr (Or.inr h)
    · rintro (h | h | h)
      · exact Or.inl (Or.inl h)
      · exact Or.inl (Or.inr h)
      · exact Or.inr h

theorem mem_marksOut {α : Type} [PyNum α] (M : MarkSpec) (inC : List String) (θ : α) (x : String) :
    x ∈ marksOut M inC θ ↔ x ∈ inC ∨ x ∈ M.base ∨ markOf θ M.marks = some x := by
  unfold marksOut
  cases h : markOf θ M.marks with
  | none => simp [mem_unionCls]
  | some m =>
    simp only [mem_addCls, mem_unionCls, Option.some.injEq]
    constructor
    · rintro ((h | h) | rfl)
      · exact Or.inl h
      · exact Or.inr (Or.inl h)
      · exact Or.inr (Or.inr rfl)
    · rintro (h | h | h)
      · exact Or.inl (Or.inl h)
      · exact Or.inl (Or.inr h)
      · exact Or.inr h.symm

/-! ### priority of the rules -/

/-- `firstSome` returns the value of the first rule (in evaluation order) that returns one -/
theorem firstSome_eq_some (a b : List String) (n : Nat) : ∀ l : List Rule,
    firstSome a b l = some n ↔
      ∃ pre r post, l = pre ++ r :: post ∧ r.eval a b = some n ∧ ∀ r' ∈ pre, r'.eval a b = none
  | [] => by simp [firstSome]
  | r0 :: l => by
    simp only [firstSome]
    cases h0 : r0.eval a b with
    | some m =>
      constructor
      · intro h
        exact ⟨[], r0, l, rfl, by simpa [h0] using h, by simp⟩
      · rintro ⟨pre, r, post, hl, hr, hp⟩
        cases pre with
        | nil =>
          simp only [List.nil_append, List.cons.injEq] at hl
          rw [← hl.1, h0] at hr
          simpa using hr
        | cons p pre =>
          simp only [List.cons_append, List.cons.injEq] at hl
          have := hp p (by simp)
          rw [← hl.1, h0] at this
          cases this
    | none =>
      simp only
      rw [firstSome_eq_some a b n l]
      constructor
      · rintro ⟨pre, r, post, hl, hr, hp⟩
        refine ⟨r0 :: pre, r, post, by simp [hl], hr, ?_⟩
        intro r' hr'
        rcases List.mem_cons.1 hr' with rfl | h
        · exact h0
        · exact hp r' h
      · rintro ⟨pre, r, post, hl, hr, hp⟩
        cases pre with
        | nil =>
          simp only [List.nil_append, List.cons.injEq] at hl
          rw [← hl.1, h0] at hr
          cases hr
        | cons p pre =>
          simp only [List.cons_append, List.cons.injEq] at hl
          exact ⟨pre, r, post, hl.2, hr, fun r' h => hp r' (by simp [h])⟩

end Rot
