import PyrollModel.PassGeom
import PyrollProofs.RealNum

/-! Helper lemmas for C09 about the vertex-list model `PyrollModel/PassGeom.lean`, over ℝ. -/

namespace PassGeom

@[simp] theorem le_real (a b : ℝ) : PyNum.le a b = decide (a ≤ b) := rfl
@[simp] theorem lt_real (a b : ℝ) : PyNum.lt a b = decide (a < b) := rfl

@[ext] theorem Pt.ext' {α : Type} {p q : Pt α} (hx : p.x = q.x) (hy : p.y = q.y) : p = q := by
  cases p; cases q; simp_all

/-! ### the placement acts vertex-wise -/

section place
variable {α : Type} [PyNum α]

theorem place_cons (ρ : String → α) (op : GOp) (ops : List GOp) (l : List (Pt α)) :
    place ρ (op :: ops) l = place ρ ops (applyOp ρ op l) := rfl

theorem placePt_cons (ρ : String → α) (op : GOp) (ops : List GOp) (p : Pt α) :
    placePt ρ (op :: ops) p = placePt ρ ops (applyPt ρ op p) := rfl

/-- the placed line is the vertex-wise image of the contour, reversed when the program reverses an odd number of times -/
theorem place_eq (ρ : String → α) (ops : List GOp) (l : List (Pt α)) :
    place ρ ops l = if flips ops then (l.map (placePt ρ ops)).reverse else l.map (placePt ρ ops) := by
  induction ops generalizing l with
  | nil =>
    have h : placePt ρ [] = fun p => p := rfl
    simp [place, flips, h]
  | cons op ops ih =>
    rw [place_cons, ih]
    cases op with
    | reverse =>
      have h : ∀ p, placePt ρ (GOp.reverse :: ops) p = placePt ρ ops p := fun p => rfl
      simp only [applyOp, flips, funext h]
      cases flips ops <;> simp [List.map_reverse]
    | translate dx dy =>
      simp only [applyOp, flips, List.map_map]
      rfl
    | rotate a =>
      simp only [applyOp, flips, List.map_map]
      rfl

theorem mem_place (ρ : String → α) (ops : List GOp) (l : List (Pt α)) (q : Pt α) :
    q ∈ place ρ ops l ↔ ∃ p ∈ l, q = placePt ρ ops p := by
  rw [place_eq]
  cases flips ops <;> simp [eq_comm]

end place

/-! ### shapely's rotation at the angles the passes use -/

theorem snap_of_large (v : ℝ) (h : (1:ℝ) / 4 ≤ |v|) : snap v = v := by
  have : ¬ (|v| < (25:ℝ) / 10 ^ 17) := by
    have : (25:ℝ) / 10 ^ 17 < 1 / 4 := by norm_num
    linarith
  simp [snap, this]

theorem snap_zero : snap (0 : ℝ) = 0 := by simp [snap]

theorem sqrt3_sq : Real.sqrt 3 * Real.sqrt 3 = 3 := Real.mul_self_sqrt (by norm_num)
theorem sqrt3_pos : 0 < Real.sqrt 3 := Real.sqrt_pos.mpr (by norm_num)
theorem sqrt3_gt_one : 1 < Real.sqrt 3 := by
  rw [show (1:ℝ) = Real.sqrt 1 by simp]
  exact Real.sqrt_lt_sqrt (by norm_num) (by norm_num)

theorem rotPt_180 (p : Pt ℝ) : rotPt (180 : ℝ) p = ⟨-p.x, -p.y⟩ := by
  have h : (180 : ℝ) * Real.pi / ((180 : ℕ) : ℝ) = Real.pi := by push_cast; field_simp
  simp only [rotPt, PyNum.pi_real, PyNum.nat_real, PyNum.cos_real, PyNum.sin_real, h, Real.cos_pi, Real.sin_pi]
  rw [snap_zero, snap_of_large (-1) (by norm_num)]
  ext <;> simp

theorem rotPt_neg180 (p : Pt ℝ) : rotPt (-(180 : ℝ)) p = ⟨-p.x, -p.y⟩ := by
  have h : -(180 : ℝ) * Real.pi / ((180 : ℕ) : ℝ) = -Real.pi := by push_cast; field_simp
  simp only [rotPt, PyNum.pi_real, PyNum.nat_real, PyNum.cos_real, PyNum.sin_real, h, Real.cos_neg, Real.sin_neg,
    Real.cos_pi, Real.sin_pi, neg_zero]
  rw [snap_zero, snap_of_large (-1) (by norm_num)]
  ext <;> simp

theorem rotPt_60 (p : Pt ℝ) :
    rotPt (60 : ℝ) p = ⟨1 / 2 * p.x - Real.sqrt 3 / 2 * p.y, Real.sqrt 3 / 2 * p.x + 1 / 2 * p.y⟩ := by
  have h : (60 : ℝ) * Real.pi / ((180 : ℕ) : ℝ) = Real.pi / 3 := by push_cast; field_simp; ring
  have h3 := sqrt3_gt_one
  simp only [rotPt, PyNum.pi_real, PyNum.nat_real, PyNum.cos_real, PyNum.sin_real, h, Real.cos_pi_div_three,
    Real.sin_pi_div_three]
  rw [snap_of_large (1 / 2) (by norm_num),
    snap_of_large (Real.sqrt 3 / 2) (by rw [abs_of_pos (by positivity)]; linarith)]
  ext <;> simp
  ring

theorem rotPt_neg60 (p : Pt ℝ) :
    rotPt (-(60 : ℝ)) p = ⟨1 / 2 * p.x + Real.sqrt 3 / 2 * p.y, -(Real.sqrt 3 / 2) * p.x + 1 / 2 * p.y⟩ := by
  have h : -(60 : ℝ) * Real.pi / ((180 : ℕ) : ℝ) = -(Real.pi / 3) := by push_cast; field_simp; ring
  have h3 := sqrt3_gt_one
  simp only [rotPt, PyNum.pi_real, PyNum.nat_real, PyNum.cos_real, PyNum.sin_real, h, Real.cos_neg, Real.sin_neg,
    Real.cos_pi_div_three, Real.sin_pi_div_three]
  rw [snap_of_large (1 / 2) (by norm_num),
    snap_of_large (-(Real.sqrt 3 / 2)) (by rw [abs_neg, abs_of_pos (by positivity)]; linarith)]
  ext <;> simp

theorem rotPt_120_deg (p : Pt ℝ) :
    rotPt (120 : ℝ) p = ⟨-(1 / 2) * p.x - Real.sqrt 3 / 2 * p.y, Real.sqrt 3 / 2 * p.x - 1 / 2 * p.y⟩ := by
  have h : (120 : ℝ) * Real.pi / ((180 : ℕ) : ℝ) = Real.pi - Real.pi / 3 := by push_cast; field_simp; ring
  have h3 := sqrt3_gt_one
  simp only [rotPt, PyNum.pi_real, PyNum.nat_real, PyNum.cos_real, PyNum.sin_real, h, Real.cos_pi_sub, Real.sin_pi_sub,
    Real.cos_pi_div_three, Real.sin_pi_div_three]
  rw [snap_of_large (-(1 / 2)) (by rw [abs_neg]; norm_num),
    snap_of_large (Real.sqrt 3 / 2) (by rw [abs_of_pos (by positivity)]; linarith)]
  ext <;> simp <;> ring

end PassGeom
