import PyrollProofs.HeapSolve

/-! Helper lemmas for C12, part 4b: the velocity solvers of a pass sequence (`solveVel`: hooks of the listed roll
passes read, `roll_pass.velocity = …`, `self.solve(in_profile)`, repeated) keep the tracking invariant of a solve of
the sequence: every write targets an object the rounds allocated or the sequence owns. -/

namespace Heap

/-- "`c` is listed directly in the unit `u`" -/
def Listed (h : H) (u c : Nat) : Prop := ∃ l, getF h u fSUB = some l ∧ c ∈ (h.obj l).items

theorem listed_of_subItems {h : H} {u c : Nat} (hc : c ∈ subItems h u) : Listed h u c := by
  unfold subItems at hc
  split at hc
  · rename_i l hl; exact ⟨l, hl, hc⟩
  · cases hc

/-- a unit listed directly in the unit being solved is a legitimate write target -/
theorem Trk.listedTarget {hb : H} {u : Nat} {tr0 : List Eff} {s : S} (T : Trk hb u tr0 s) (wb : Wf hb)
    (hu : u < hb.next) {c : Nat} (hc : Listed s.h u c) : (hb.next ≤ c ∨ Owned hb u c) ∧ c < s.h.next := by
  obtain ⟨l, hl, hm⟩ := hc
  obtain ⟨hcal, hlt⟩ := T.children wb hu hl hm
  refine ⟨?_, hlt⟩
  rcases hcal with h | ⟨_, hsub⟩
  · left; exact h
  · right; exact hsub c (Owned.self c)

/-- … and so is its pass roll -/
theorem Trk.listedRoll {hb : H} {u : Nat} {tr0 : List Eff} {s : S} (T : Trk hb u tr0 s) (wb : Wf hb)
    (hu : u < hb.next) {c r : Nat} (hc : Listed s.h u c) (hr : getF s.h c fROLL = some r) :
    (hb.next ≤ r ∨ Owned hb u r) ∧ r < s.h.next := by
  obtain ⟨l, hl, hm⟩ := hc
  have ho : Owned s.h u r := Owned.child hl hm (Owned.field (by decide) hr)
  exact ⟨(owned_of_ext wb T.ext ho).1 hu, T.wf.getF_lt hr⟩

theorem listed_setCache {s : S} {u c o : Nat} {k : List Nat} (h : Listed s.h u c) : Listed (s.setCache o k).h u c := by
  obtain ⟨l, hl, hm⟩ := h
  exact ⟨l, by rw [getF_setCache]; exact hl, by rw [items_setCache]; exact hm⟩

theorem listed_write {s : S} {u c o f v : Nat} (hf : f ≠ fSUB) (h : Listed s.h u c) : Listed (s.write o f v).h u c := by
  obtain ⟨l, hl, hm⟩ := h
  refine ⟨l, ?_, by rw [items_write]; exact hm⟩
  rw [getF_write]
  split
  · rename_i he; exact absurd he.2.symm hf
  · exact hl

theorem listed_alloc {s : S} (w : Wf s.h) {u c : Nat} (ob : Obj) (hu : u < s.h.next) (h : Listed s.h u c) :
    Listed (s.alloc ob).1.h u c := by
  obtain ⟨l, hl, hm⟩ := h
  have hl' : l < s.h.next := w.getF_lt hl
  refine ⟨l, ?_, ?_⟩
  · rw [getF_alloc]; have : u ≠ s.h.next := by omega
    simp only [this, if_false]; exact hl
  · rw [alloc_obj]; have : l ≠ s.h.next := by omega
    simp only [this, if_false]; exact hm

/-- reading `usable_cross_section` on the listed roll passes: cache gains on the passes and their rolls only -/
theorem velRead_spec {hb : H} {u : Nat} {tr0 : List Eff} (wb : Wf hb) (hu : u < hb.next) :
    ∀ (cs : List Nat) (s : S), Trk hb u tr0 s → (∀ c ∈ cs, Listed s.h u c) → Step hb u tr0 s (velRead cs s) := by
  intro cs
  induction cs with
  | nil => intro s T _; exact Step.refl T
  | cons c r ih =>
    intro s T hl
    have e : velRead (c :: r) s = velRead r
        (if (s.h.obj c).tag = 1 then onRoll (fun b x => cacheAdd b x cROLL) (cacheAdd s c cUNIT) (getF s.h c fROLL)
         else s) := rfl
    rw [e]
    have hc := hl c List.mem_cons_self
    split
    · obtain ⟨ht, hlt⟩ := T.listedTarget wb hu hc
      have st1 := cacheAdd_spec T cUNIT ht hlt
      have st2 : Step hb u tr0 (cacheAdd s c cUNIT)
          (onRoll (fun b x => cacheAdd b x cROLL) (cacheAdd s c cUNIT) (getF s.h c fROLL)) := by
        apply onRoll_spec st1.trk
        · intro x hx
          have hc' : Listed (cacheAdd s c cUNIT).h u c := listed_setCache hc
          exact st1.trk.listedRoll wb hu hc' (by unfold cacheAdd; rw [getF_setCache]; exact hx)
        · intro x hx hxl; exact cacheAdd_spec st1.trk cROLL hx hxl
      have st12 := st1.trans st2
      have hl' : ∀ c' ∈ r, Listed
          (onRoll (fun b x => cacheAdd b x cROLL) (cacheAdd s c cUNIT) (getF s.h c fROLL)).h u c' := by
        intro c' hc'
        have h0 := hl c' (List.mem_cons_of_mem _ hc')
        unfold onRoll
        split
        · exact listed_setCache (listed_setCache h0)
        · exact listed_setCache h0
      exact st12.trans (ih _ st12.trk hl')
    · exact ih s T (fun c' hc' => hl c' (List.mem_cons_of_mem _ hc'))

/-- `roll_pass.velocity = v` for the listed roll passes: writes to units the sequence owns (or created) -/
theorem setVels_spec {hb : H} {u : Nat} {tr0 : List Eff} (wb : Wf hb) (hu : u < hb.next) :
    ∀ (cs : List Nat) (s : S), Trk hb u tr0 s → (∀ c ∈ cs, Listed s.h u c) → Step hb u tr0 s (setVels cs s) := by
  intro cs
  induction cs with
  | nil => intro s T _; exact Step.refl T
  | cons c r ih =>
    intro s T hl
    have e : setVels (c :: r) s = setVels r
        (if (s.h.obj c).tag = 1 then (s.alloc { kind := .atom }).1.write c fUVEL (s.alloc { kind := .atom }).2
         else s) := rfl
    rw [e]
    have hc := hl c List.mem_cons_self
    have hus : u < s.h.next := Nat.lt_of_lt_of_le hu T.next_le
    split
    · obtain ⟨ht, hlt⟩ := T.listedTarget wb hu hc
      have st1 := T.allocWrite .atom [] (o := c) (f := fUVEL) ht hlt (by decide)
      have hl' : ∀ c' ∈ r, Listed ((s.alloc { kind := .atom }).1.write c fUVEL (s.alloc { kind := .atom }).2).h u c' := by
        intro c' hc'
        exact listed_write (by decide) (listed_alloc T.wf _ hus (hl c' (List.mem_cons_of_mem _ hc')))
      exact st1.trans (ih _ st1.trk hl')
    · exact ih s T (fun c' hc' => hl c' (List.mem_cons_of_mem _ hc'))

/-- one round: velocities set, then the sequence solved (the sequence is its own callee) -/
theorem velRound_spec (P : Producers) (hP : P.Safe) {hb : H} {u : Nat} {tr0 : List Eff} (wb : Wf hb) (hu : u < hb.next)
    {s : S} (T : Trk hb u tr0 s) (p : Nat) (hp : p < s.h.next) : Step hb u tr0 s (velRound P s u p) := by
  unfold velRound
  have st1 := setVels_spec wb hu (subItems s.h u) s T (fun c hc => listed_of_subItems hc)
  have hus : u < (setVels (subItems s.h u) s).h.next :=
    Nat.lt_of_lt_of_le hu st1.trk.next_le
  have sp := solveU_spec P hP ((setVels (subItems s.h u) s).h.next + 1) (setVels (subItems s.h u) s) u p st1.trk.wf hus
    (Nat.lt_of_lt_of_le hp st1.mono)
  have T2 := st1.trk.call wb (c := u) (Or.inr ⟨hu, fun _ h => h⟩) sp.trk
  exact ⟨T2, Nat.le_trans st1.mono sp.trk.next_le⟩

theorem velRounds_spec (P : Producers) (hP : P.Safe) {hb : H} {u : Nat} {tr0 : List Eff} (wb : Wf hb) (hu : u < hb.next)
    (p : Nat) : ∀ (n : Nat) (s : S), Trk hb u tr0 s → p < s.h.next → Step hb u tr0 s (velRounds P n s u p) := by
  intro n
  induction n with
  | zero => intro s T _; exact Step.refl T
  | succ n ih =>
    intro s T hp
    have st1 := velRound_spec P hP wb hu T p hp
    have e : velRounds P (n + 1) s u p = velRounds P n (velRound P s u p) u p := rfl
    rw [e]
    exact st1.trans (ih _ st1.trk (Nat.lt_of_lt_of_le hp st1.mono))

/-- `seq.solve_velocities_forward / backward(profile, …)`, any number of rounds: tracked as ONE solve of the sequence -/
theorem solveVel_spec (P : Producers) (hP : P.Safe) (n : Nat) (s : S) (u p : Nat) (w : Wf s.h) (hu : u < s.h.next)
    (hp : p < s.h.next) : Trk s.h u s.tr (solveVel P n s u p) := by
  unfold solveVel
  have st0 := velRead_spec (tr0 := s.tr) w hu (subItems s.h u) s (Trk.refl w u) (fun c hc => listed_of_subItems hc)
  exact (st0.trans (velRounds_spec P hP w hu p n _ st0.trk (Nat.lt_of_lt_of_le hp st0.mono))).trk

end Heap
