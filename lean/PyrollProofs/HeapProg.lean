import PyrollProofs.HeapTrk

/-! Helper lemmas for C12, part 3: the classifier producers.  A program that passes the static check `safeFrom`
changes in place only objects that it created itself. -/

namespace Heap

/-- one step of a solve of `u` (relative to base heap `hb`, base trace `tr0`): tracked, and the heap only grows -/
structure Step (hb : H) (u : Nat) (tr0 : List Eff) (s s' : S) : Prop where
  trk : Trk hb u tr0 s'
  mono : s.h.next ≤ s'.h.next

theorem Step.refl {hb : H} {u : Nat} {tr0 : List Eff} {s : S} (T : Trk hb u tr0 s) : Step hb u tr0 s s :=
  ⟨T, Nat.le_refl _⟩

theorem Step.trans {hb : H} {u : Nat} {tr0 : List Eff} {a b c : S} (h1 : Step hb u tr0 a b)
    (h2 : Step hb u tr0 b c) : Step hb u tr0 a c := ⟨h2.trk, Nat.le_trans h1.mono h2.mono⟩

/-- allocation of a value object / an atom -/
theorem Trk.allocValue {hb : H} {u : Nat} {tr0 : List Eff} {s : S} (T : Trk hb u tr0 s) (k : Kind) (c : List Nat) :
    Trk hb u tr0 (s.alloc { kind := k, content := c }).1 := by
  apply T.allocPlain
  · intro v hv; simp [Obj.ptrs] at hv
  · intro f v h; simp [List.lookup] at h
  · rfl

theorem lookup_cons (v x w : Nat) (env : Env) :
    List.lookup w ((v, x) :: env) = if w = v then some x else env.lookup w := by
  simp only [List.lookup]
  by_cases h : w = v
  · subst h; simp
  · have : (w == v) = false := by simp [h]
    simp [this, h]

def EnvOk (s : S) (env : Env) : Prop := ∀ v x, env.lookup v = some x → x < s.h.next
def FvOk (hb : H) (env : Env) (fv : List Nat) : Prop := ∀ v, v ∈ fv → ∃ x, env.lookup v = some x ∧ hb.next ≤ x

theorem evalS_spec {hb : H} {u : Nat} {tr0 : List Eff} (fe : Nat → Nat) (env : Env) :
    ∀ (e : SExpr) (s : S), Trk hb u tr0 s → (∀ p, fe p < s.h.next) → EnvOk s env → 0 < s.h.next →
      Step hb u tr0 s (evalS fe env e s).1 ∧ (evalS fe env e s).2 < (evalS fe env e s).1.h.next ∧
      (∀ fv, freshExpr fv e = true → FvOk hb env fv → hb.next ≤ (evalS fe env e s).2) := by
  intro e
  induction e with
  | foreign p =>
    intro s T hfe _ _
    exact ⟨Step.refl T, hfe p, by intro fv h; simp [freshExpr] at h⟩
  | var v =>
    intro s T _ henv h0
    refine ⟨Step.refl T, ?_, ?_⟩
    · simp only [evalS]
      cases hl : env.lookup v with
      | none => simpa using h0
      | some x => simpa using henv v x hl
    · intro fv hf hfv
      simp only [freshExpr, List.contains_iff_mem] at hf
      obtain ⟨x, hx, hle⟩ := hfv v hf
      simp only [evalS, hx]; exact hle
  | newSet e ih =>
    intro s T hfe henv h0
    obtain ⟨st, _, _⟩ := ih s T hfe henv h0
    simp only [evalS]
    refine ⟨⟨st.trk.allocValue _ _, ?_⟩, ?_, ?_⟩
    · simp only [alloc_next]; have := st.mono; omega
    · simp
    · intro _ _ _; simp only [alloc_id]; exact st.trk.next_le
  | union a b iha ihb =>
    intro s T hfe henv h0
    obtain ⟨sa, _, _⟩ := iha s T hfe henv h0
    have hfe' : ∀ p, fe p < (evalS fe env a s).1.h.next := fun p => Nat.lt_of_lt_of_le (hfe p) sa.mono
    have henv' : EnvOk (evalS fe env a s).1 env := fun v x h => Nat.lt_of_lt_of_le (henv v x h) sa.mono
    obtain ⟨sb, _, _⟩ := ihb (evalS fe env a s).1 sa.trk hfe' henv' (Nat.lt_of_lt_of_le h0 sa.mono)
    simp only [evalS]
    refine ⟨⟨sb.trk.allocValue _ _, ?_⟩, ?_, ?_⟩
    · simp only [alloc_next]; have := sa.mono; have := sb.mono; omega
    · simp
    · intro _ _ _; simp only [alloc_id]; exact sb.trk.next_le
  | lit el =>
    intro s T _ _ _
    simp only [evalS]
    refine ⟨⟨T.allocValue _ _, by simp⟩, by simp, ?_⟩
    intro _ _ _; simp only [alloc_id]; exact T.next_le

def guardHolds (gd : Nat → Bool) (st : Stmt) : Bool :=
  match st.guard with
  | none => true
  | some g => gd g

theorem runProg_cons (fe : Nat → Nat) (gd : Nat → Bool) (st : Stmt) (rest : Prog) (env : Env) (s : S) :
    runProg fe gd (st :: rest) env s =
      if guardHolds gd st = true then
        match st.act with
        | .assign v e =>
          runProg fe gd rest ((v, (evalS fe env e s).2) :: env) (evalS fe env e s).1
        | .add v x =>
          runProg fe gd rest env
            (s.setContent ((env.lookup v).getD 0) ((s.h.obj ((env.lookup v).getD 0)).content ++ [x]))
        | .ior v e =>
          runProg fe gd rest env
            ((evalS fe env e s).1.setContent ((env.lookup v).getD 0)
              (((evalS fe env e s).1.h.obj ((env.lookup v).getD 0)).content ++
                ((evalS fe env e s).1.h.obj (evalS fe env e s).2).content))
        | .update v e =>
          runProg fe gd rest env
            ((evalS fe env e s).1.setContent ((env.lookup v).getD 0)
              (((evalS fe env e s).1.h.obj ((env.lookup v).getD 0)).content ++
                ((evalS fe env e s).1.h.obj (evalS fe env e s).2).content))
        | .ret e => ((evalS fe env e s).1, some (evalS fe env e s).2)
      else runProg fe gd rest env s := by
  rfl

theorem runProg_spec {hb : H} {u : Nat} {tr0 : List Eff} (fe : Nat → Nat) (gd : Nat → Bool) :
    ∀ (p : Prog) (fv : List Nat) (env : Env) (s : S), safeFrom fv p = true → Trk hb u tr0 s →
      (∀ q, fe q < s.h.next) → EnvOk s env → FvOk hb env fv → 0 < s.h.next →
      Step hb u tr0 s (runProg fe gd p env s).1 ∧
      (∀ r, (runProg fe gd p env s).2 = some r → r < (runProg fe gd p env s).1.h.next) := by
  intro p
  induction p with
  | nil =>
    intro fv env s _ T _ _ _ _
    exact ⟨Step.refl T, by intro r h; simp [runProg] at h⟩
  | cons st rest ih =>
    intro fv env s hsafe T hfe henv hfv h0
    rw [runProg_cons]
    by_cases hg : guardHolds gd st = true
    · -- the statement runs
      simp only [hg, if_true]
      simp only [safeFrom] at hsafe
      cases hact : st.act with
      | assign v e =>
        rw [hact] at hsafe
        simp only at hsafe ⊢
        obtain ⟨se, hlt, hfr⟩ := evalS_spec (hb := hb) (u := u) (tr0 := tr0) fe env e s T hfe henv h0
        have hfe' : ∀ q, fe q < (evalS fe env e s).1.h.next := fun q => Nat.lt_of_lt_of_le (hfe q) se.mono
        have henv' : EnvOk (evalS fe env e s).1 ((v, (evalS fe env e s).2) :: env) := by
          intro w x hw
          rw [lookup_cons] at hw
          split at hw
          · simp only [Option.some.injEq] at hw; subst hw; exact hlt
          · exact Nat.lt_of_lt_of_le (henv w x hw) se.mono
        have h0' := Nat.lt_of_lt_of_le h0 se.mono
        split at hsafe
        · rename_i hc
          simp only [Bool.and_eq_true] at hc
          have hx := hfr fv hc.1 hfv
          have hfv' : FvOk hb ((v, (evalS fe env e s).2) :: env) (v :: fv) := by
            intro w hw
            rw [lookup_cons]
            by_cases hwv : w = v
            · simp only [hwv, if_true]; exact ⟨_, rfl, hx⟩
            · simp only [hwv, if_false]
              simp only [List.mem_cons, hwv, false_or] at hw
              exact hfv w hw
          obtain ⟨sr, hr⟩ := ih (v :: fv) _ _ hsafe se.trk hfe' henv' hfv' h0'
          exact ⟨Step.trans se sr, hr⟩
        · have hfv' : FvOk hb ((v, (evalS fe env e s).2) :: env) (fv.filter (· != v)) := by
            intro w hw
            simp only [List.mem_filter, bne_iff_ne, ne_eq] at hw
            rw [lookup_cons]
            simp only [hw.2, if_false]
            exact hfv w hw.1
          obtain ⟨sr, hr⟩ := ih _ _ _ hsafe se.trk hfe' henv' hfv' h0'
          exact ⟨Step.trans se sr, hr⟩
      | add v x =>
        rw [hact] at hsafe
        simp only [Bool.and_eq_true, List.contains_iff_mem] at hsafe ⊢
        obtain ⟨o, ho, hfresh⟩ := hfv v hsafe.1
        simp only [ho, Option.getD_some]
        have T1 : Trk hb u tr0 (s.setContent o ((s.h.obj o).content ++ [x])) :=
          T.setContent hfresh (henv v o ho)
        obtain ⟨sr, hr⟩ := ih fv env _ hsafe.2 T1 (by simpa using hfe) (by intro w y hw; simpa using henv w y hw) hfv
          (by simpa using h0)
        exact ⟨⟨sr.trk, by have := sr.mono; simpa using this⟩, hr⟩
      | ior v e =>
        rw [hact] at hsafe
        simp only [Bool.and_eq_true, List.contains_iff_mem] at hsafe ⊢
        obtain ⟨o, ho, hfresh⟩ := hfv v hsafe.1
        simp only [ho, Option.getD_some]
        obtain ⟨se, hlt, _⟩ := evalS_spec (hb := hb) (u := u) (tr0 := tr0) fe env e s T hfe henv h0
        have T1 := se.trk.setContent (c := ((evalS fe env e s).1.h.obj o).content ++
          ((evalS fe env e s).1.h.obj (evalS fe env e s).2).content) hfresh
          (Nat.lt_of_lt_of_le (henv v o ho) se.mono)
        obtain ⟨sr, hr⟩ := ih fv env _ hsafe.2 T1
          (by intro q; simpa using Nat.lt_of_lt_of_le (hfe q) se.mono)
          (by intro w y hw; simpa using Nat.lt_of_lt_of_le (henv w y hw) se.mono) hfv
          (by simpa using Nat.lt_of_lt_of_le h0 se.mono)
        exact ⟨⟨sr.trk, by have := sr.mono; have := se.mono; simp at *; omega⟩, hr⟩
      | update v e =>
        rw [hact] at hsafe
        simp only [Bool.and_eq_true, List.contains_iff_mem] at hsafe ⊢
        obtain ⟨o, ho, hfresh⟩ := hfv v hsafe.1
        simp only [ho, Option.getD_some]
        obtain ⟨se, hlt, _⟩ := evalS_spec (hb := hb) (u := u) (tr0 := tr0) fe env e s T hfe henv h0
        have T1 := se.trk.setContent (c := ((evalS fe env e s).1.h.obj o).content ++
          ((evalS fe env e s).1.h.obj (evalS fe env e s).2).content) hfresh
          (Nat.lt_of_lt_of_le (henv v o ho) se.mono)
        obtain ⟨sr, hr⟩ := ih fv env _ hsafe.2 T1
          (by intro q; simpa using Nat.lt_of_lt_of_le (hfe q) se.mono)
          (by intro w y hw; simpa using Nat.lt_of_lt_of_le (henv w y hw) se.mono) hfv
          (by simpa using Nat.lt_of_lt_of_le h0 se.mono)
        exact ⟨⟨sr.trk, by have := sr.mono; have := se.mono; simp at *; omega⟩, hr⟩
      | ret e =>
        simp only
        obtain ⟨se, hlt, _⟩ := evalS_spec (hb := hb) (u := u) (tr0 := tr0) fe env e s T hfe henv h0
        exact ⟨se, by intro r hr; simp only [Option.some.injEq] at hr; subst hr; exact hlt⟩
    · -- the statement is skipped: its test exists and does not hold
      simp only [hg]
      have hsome : st.guard.isNone = false := by
        cases hgd : st.guard with
        | none => simp [guardHolds, hgd] at hg
        | some g => rfl
      simp only [safeFrom] at hsafe
      have : ∃ fv', safeFrom fv' rest = true ∧ FvOk hb env fv' := by
        cases hact : st.act with
        | assign v e =>
          rw [hact] at hsafe
          simp only at hsafe
          split at hsafe
          · rename_i hc
            simp only [Bool.and_eq_true, hsome, Bool.false_or, List.contains_iff_mem] at hc
            refine ⟨v :: fv, hsafe, ?_⟩
            intro w hw
            simp only [List.mem_cons] at hw
            rcases hw with hw | hw
            · subst hw; exact hfv w hc.2
            · exact hfv w hw
          · refine ⟨fv.filter (· != v), hsafe, ?_⟩
            intro w hw
            simp only [List.mem_filter] at hw
            exact hfv w hw.1
        | add v x => rw [hact] at hsafe; simp only [Bool.and_eq_true] at hsafe; exact ⟨fv, hsafe.2, hfv⟩
        | ior v e => rw [hact] at hsafe; simp only [Bool.and_eq_true] at hsafe; exact ⟨fv, hsafe.2, hfv⟩
        | update v e => rw [hact] at hsafe; simp only [Bool.and_eq_true] at hsafe; exact ⟨fv, hsafe.2, hfv⟩
        | ret e => rw [hact] at hsafe; exact ⟨fv, hsafe, hfv⟩
      obtain ⟨fv', hs', hfv'⟩ := this
      exact ih fv' env s hs' T hfe henv hfv' h0

/-- `runOn`: a producer run on one foreign value (if there is one) -/
theorem runOn_spec {hb : H} {u : Nat} {tr0 : List Eff} (p : Prog) (hp : p.safe = true) (s : S) (src : Option Nat)
    (T : Trk hb u tr0 s) (hsrc : ∀ v, src = some v → v < s.h.next) (h0 : 0 < s.h.next) :
    Step hb u tr0 s (runOn p s src).1 ∧ (∀ r, (runOn p s src).2 = some r → r < (runOn p s src).1.h.next) := by
  unfold runOn
  cases src with
  | none => exact ⟨Step.refl T, by intro r h; cases h⟩
  | some v =>
    exact runProg_spec (fun _ => v) (fun _ => true) p [] [] s hp T (fun _ => hsrc v rfl)
      (by intro w x h; simp [List.lookup] at h) (by intro w h; cases h) h0

end Heap
