import PyrollProofs.GrooveWF

/-!
# Helper lemmas for C03: what an accepting run of `GrooveWF.construct` establishes

* `construct_ok`, `prepare_ok`, `resolve_ok/echo/wrong_arity` — inversion of the model along python's control flow.
* `runChecks_none`, `runChecks_ne_none` — every validation passed / a failing validation makes the constructor raise.
* `zStrict_ok`, `yBelow_ok`, `deepest_ok` — the content of the individual validations over ℝ.
* `WellFormed`, `wellFormed_of_checks` — the property, derived for an arbitrary `Spec` whose mirror statement is the
  modelled one, whose last piece is a point on `z = 0` and whose validations include the strict-z, below-face and
  deepest-point tests.
-/

namespace GrooveWF

/-- the environment the chain and the checks are evaluated in -/
def envOf' (dflt : ℝ) (cfg : List (String × ℝ)) (g : Groove ℝ) : String → ℝ := envOfL dflt (g.env ++ cfg)

/-! ## inversion -/

theorem runChecks_none {simple : List (Pt ℝ) → Bool} {σ : String → ℝ} {pts : List (Pt ℝ)} :
    ∀ (cs : List Check) (i : Nat), runChecks simple σ pts i cs = none →
      ∀ c ∈ cs, ∃ j, runCheck simple σ pts j c = none
  | [], _, _, c, hc => by cases hc
  | c0 :: r, i, h, c, hc => by
    simp only [runChecks] at h
    split at h
    · cases h
    · rename_i h0
      rcases List.mem_cons.mp hc with rfl | hc
      · exact ⟨i, h0⟩
      · exact runChecks_none r (i + 1) h c hc

theorem runChecks_ne_none {simple : List (Pt ℝ) → Bool} {σ : String → ℝ} {pts : List (Pt ℝ)} {c : Check}
    (hbad : ∀ j, runCheck simple σ pts j c ≠ none) :
    ∀ (cs : List Check) (i : Nat), c ∈ cs → runChecks simple σ pts i cs ≠ none
  | [], _, hc => by cases hc
  | c0 :: r, i, hc => by
    simp only [runChecks]
    split
    · simp
    · rename_i h0
      rcases List.mem_cons.mp hc with rfl | hc
      · exact absurd h0 (hbad i)
      · exact runChecks_ne_none hbad r (i + 1) hc

theorem prepare_ok {S : Spec} {cfg : List (String × ℝ)} {dflt : ℝ} {p : Params ℝ} {env : List (String × ℝ)}
    (h : prepare S cfg dflt p = .ok env) :
    ∃ resolved,
      S.required.any (fun k => (p.get k).isNone) = false ∧
      S.nonneg.any (negViolated (withDefaults S cfg dflt p)) = false ∧
      S.upper.any (upperViolated (envOfL dflt (withDefaults S cfg dflt p ++ cfg)) (withDefaults S cfg dflt p)) = false ∧
      resolve S dflt (withDefaults S cfg dflt p) = .ok resolved ∧
      env = ("pad", padOf S (envOfL dflt (resolved ++ cfg))) :: resolved := by
  unfold prepare at h
  split at h
  · cases h
  · rename_i h1
    split at h
    · cases h
    · rename_i h2
      split at h
      · cases h
      · rename_i h3
        split at h
        · cases h
        · rename_i resolved hr
          simp only [Except.ok.injEq] at h
          exact ⟨resolved, by simpa using h1, by simpa using h2, by simpa using h3, hr, h.symm⟩

theorem construct_ok {S : Spec} {simple : List (Pt ℝ) → Bool} {cfg : List (String × ℝ)} {N : Nat} {dflt : ℝ}
    {p : Params ℝ} {g : Groove ℝ} (h : construct S simple cfg N dflt p = .ok g) :
    prepare S cfg dflt p = .ok g.env ∧
    g.pts = contour S.mirror (rightSide S (envOf' dflt cfg g) N) ∧
    runChecks simple (envOf' dflt cfg g) g.pts 0 S.checks = none := by
  unfold construct at h
  split at h
  · cases h
  · rename_i env he
    simp only at h
    split at h
    · cases h
    · rename_i hc
      simp only [Except.ok.injEq] at h
      subst h
      exact ⟨he, rfl, hc⟩

theorem withDefaults_given {S : Spec} {cfg : List (String × ℝ)} {dflt : ℝ} {p : Params ℝ} {k : String} {v : ℝ}
    (hk : p.get k = some v) : (withDefaults S cfg dflt p).lookup k = some v := by
  simp only [Params.get] at hk
  simp only [withDefaults]
  rw [List.lookup_append, hk]; rfl

theorem resolve_ok {S : Spec} {dflt : ℝ} {wd resolved : List (String × ℝ)} (h : resolve S dflt wd = .ok resolved) :
    ∃ t v, (S.resolution.map (·.target)).filter (fun t => (wd.lookup t).isNone) = [t] ∧ resolved = (t, v) :: wd := by
  unfold resolve at h
  simp only at h
  split at h
  · rename_i t ht
    split at h
    · cases h
    · simp only [Except.ok.injEq] at h
      exact ⟨t, _, ht, h.symm⟩
  · cases h

/-- a value that was given survives the resolution unchanged (the resolution only fills the one missing member) -/
theorem resolve_echo {S : Spec} {dflt : ℝ} {wd resolved : List (String × ℝ)} (h : resolve S dflt wd = .ok resolved)
    {k : String} {v : ℝ} (hk : wd.lookup k = some v) : resolved.lookup k = some v := by
  obtain ⟨t, w, ht, rfl⟩ := resolve_ok h
  have hmem : t ∈ (S.resolution.map (·.target)).filter (fun t => (wd.lookup t).isNone) := by rw [ht]; simp
  have hnone : (wd.lookup t).isNone = true := (List.mem_filter.mp hmem).2
  have hne : k ≠ t := by
    rintro rfl; rw [hk] at hnone; simp at hnone
  simp only [List.lookup]
  rw [show (k == t) = false from by simpa using hne]
  exact hk

theorem resolve_wrong_arity {S : Spec} {dflt : ℝ} {wd : List (String × ℝ)}
    (h : ((S.resolution.map (·.target)).filter (fun t => (wd.lookup t).isNone)).length ≠ 1) :
    resolve S dflt wd = .error .arity := by
  unfold resolve
  simp only
  split
  · rename_i t ht; rw [ht] at h; simp at h
  · rfl

theorem rightSide_last {S : Spec} {ps : List Piece} {zc yc : String} (hp : S.pieces = ps ++ [.pt zc yc])
    (σ : String → ℝ) (N : Nat) :
    rightSide S σ N = ps.flatMap (piecePts S σ N) ++ [⟨jv S σ zc, jv S σ yc⟩] := by
  simp [rightSide, hp, piecePts]

/-! ## the content of the validations -/

theorem zStrict_ok {simple : List (Pt ℝ) → Bool} {σ : String → ℝ} {pts : List (Pt ℝ)} {j : Nat} {e : String}
    (h : runCheck simple σ pts j (.zStrict e) = none) : ((half pts).map (·.z)).Pairwise (· < ·) := by
  simp only [runCheck] at h
  split at h
  · exact strictInc_pairwise _ ‹_›
  · cases h

theorem zStrict_fails {simple : List (Pt ℝ) → Bool} {σ : String → ℝ} {pts : List (Pt ℝ)} {e : String}
    (h : ¬ ((half pts).map (·.z)).Pairwise (· < ·)) : ∀ j, runCheck simple σ pts j (.zStrict e) ≠ none := by
  intro j hj
  exact h (zStrict_ok hj)

theorem yBelow_ok {simple : List (Pt ℝ) → Bool} {σ : String → ℝ} {pts : List (Pt ℝ)} {j : Nat} {b : Expr} {e : String}
    (h : runCheck simple σ pts j (.yBelow b e) = none) : ∀ v ∈ half pts, b.eval σ ≤ v.y := by
  simp only [runCheck] at h
  split at h
  · cases h
  · rename_i hn
    intro v hv
    by_contra hlt
    apply hn
    rw [List.any_eq_true]
    exact ⟨v, hv, by simpa using not_le.mp hlt⟩

theorem foldl_maxN_ge : ∀ (l : List ℝ) (a : ℝ), a ≤ l.foldl maxN a ∧ ∀ x ∈ l, x ≤ l.foldl maxN a
  | [], a => ⟨le_refl a, fun _ h => by cases h⟩
  | b :: r, a => by
    obtain ⟨h1, h2⟩ := foldl_maxN_ge r (maxN a b)
    have ha : a ≤ maxN a b := by rw [maxN_real]; exact le_max_left a b
    have hb : b ≤ maxN a b := by rw [maxN_real]; exact le_max_right a b
    simp only [List.foldl]
    refine ⟨le_trans ha h1, ?_⟩
    intro x hx
    rcases List.mem_cons.mp hx with rfl | hx
    · exact le_trans hb h1
    · exact h2 x hx

theorem foldl_maxN_mem : ∀ (l : List ℝ) (a : ℝ), l.foldl maxN a = a ∨ l.foldl maxN a ∈ l
  | [], _ => Or.inl rfl
  | b :: r, a => by
    simp only [List.foldl]
    rcases foldl_maxN_mem r (maxN a b) with h | h
    · rw [h, maxN_real]
      rcases max_cases a b with ⟨hm, -⟩ | ⟨hm, -⟩
      · exact Or.inl hm
      · exact Or.inr (by rw [hm]; exact List.mem_cons_self ..)
    · exact Or.inr (List.mem_cons_of_mem _ h)

theorem maxL_spec {l : List ℝ} {d : ℝ} (h : maxL l = some d) : (∀ x ∈ l, x ≤ d) ∧ d ∈ l := by
  cases l with
  | nil => cases h
  | cons a r =>
    simp only [maxL, Option.some.injEq] at h
    subst h
    obtain ⟨h1, h2⟩ := foldl_maxN_ge r a
    refine ⟨?_, ?_⟩
    · intro x hx
      rcases List.mem_cons.mp hx with rfl | hx
      · exact h1
      · exact h2 x hx
    · rcases foldl_maxN_mem r a with h | h
      · rw [h]; exact List.mem_cons_self ..
      · exact List.mem_cons_of_mem _ h

theorem deepest_ok {simple : List (Pt ℝ) → Bool} {σ : String → ℝ} {pts : List (Pt ℝ)} {j : Nat} {zm hi lo : Expr}
    {e : String} (h : runCheck simple σ pts j (.deepest zm hi lo e) = none) :
    (∀ v ∈ half pts, v.z ≤ zm.eval σ → v.y ≤ hi.eval σ) ∧
    (∃ v ∈ half pts, v.z ≤ zm.eval σ ∧ lo.eval σ ≤ v.y) := by
  simp only [runCheck] at h
  split at h
  · cases h
  · rename_i d hd
    obtain ⟨hle, hmem⟩ := maxL_spec hd
    split at h
    · cases h
    · rename_i hb
      simp only [lt_real, Bool.or_eq_true, decide_eq_true_eq, not_or, not_lt] at hb
      obtain ⟨w, hw, rfl⟩ := List.mem_map.mp hmem
      obtain ⟨hw1, hw2⟩ := List.mem_filter.mp hw
      refine ⟨?_, ⟨w, hw1, by simpa using hw2, hb.2⟩⟩
      intro v hv hz
      have : v.y ≤ w.y := hle v.y (List.mem_map.mpr ⟨v, List.mem_filter.mpr ⟨hv, by simpa using hz⟩, rfl⟩)
      exact le_trans this hb.1

/-! ## the property -/

/-- A usable roll contour (vertex list `g.pts`): mirror-symmetric about the groove centre, strictly increasing in the
    width coordinate (hence single-valued and simple), never more than `faceTol` below the roll face, and with its deepest
    point inside `|z| ≤ zIn` between `dLo` and `dHi`. -/
structure WellFormed (g : Groove ℝ) (faceTol zIn dHi dLo : ℝ) : Prop where
  nonempty : g.pts ≠ []
  symmetric : (g.pts.reverse).map negZ = g.pts
  zIncreasing : g.pts.Pairwise (fun p q => p.z < q.z)
  simple : Simple g.pts
  aboveFace : ∀ v ∈ g.pts, -faceTol ≤ v.y
  notDeeper : ∀ v ∈ g.pts, |v.z| ≤ zIn → v.y ≤ dHi
  reachesDepth : ∃ v ∈ g.pts, |v.z| ≤ zIn ∧ dLo ≤ v.y

def hasZStrict (cs : List Check) : Bool := cs.any fun c => match c with | .zStrict _ => true | _ => false

theorem hasZStrict_mem {cs : List Check} (h : hasZStrict cs = true) : ∃ e, Check.zStrict e ∈ cs := by
  simp only [hasZStrict, List.any_eq_true] at h
  obtain ⟨c, hc, h⟩ := h
  cases c <;> simp at h
  exact ⟨_, hc⟩

/-- **The validations suffice.**  For any translated `Spec` whose mirror statement is the modelled one, whose last
    emitted point lies on `z = 0` and whose validations contain the strict-z test, a below-face test with bound `b` and
    a deepest-point test `(zm, hi, lo)`, every accepted groove is well-formed. -/
theorem wellFormed_of_checks {S : Spec} {simple : List (Pt ℝ) → Bool} {cfg : List (String × ℝ)} {N : Nat} {dflt : ℝ}
    {p : Params ℝ} {g : Groove ℝ} (h : construct S simple cfg N dflt p = .ok g)
    (hm : S.mirror = stdMirror) {ps : List Piece} {zc yc : String} (hp : S.pieces = ps ++ [.pt zc yc])
    (hz0 : jv S (envOf' dflt cfg g) zc = 0)
    {e1 e2 e3 : String} {b zm hi lo : Expr}
    (c1 : Check.zStrict e1 ∈ S.checks) (c2 : Check.yBelow b e2 ∈ S.checks) (c3 : Check.deepest zm hi lo e3 ∈ S.checks) :
    WellFormed g (-(b.eval (envOf' dflt cfg g))) (zm.eval (envOf' dflt cfg g)) (hi.eval (envOf' dflt cfg g))
      (lo.eval (envOf' dflt cfg g)) ∧
    (⟨0, jv S (envOf' dflt cfg g) yc⟩ : Pt ℝ) ∈ g.pts := by
  obtain ⟨-, hpts, hchk⟩ := construct_ok h
  set σ := envOf' dflt cfg g with hσ
  rw [hm, rightSide_last hp σ N] at hpts
  set init := ps.flatMap (piecePts S σ N) with hinit
  set c : Pt ℝ := ⟨jv S σ zc, jv S σ yc⟩ with hc
  have hcz : c.z = 0 := hz0
  have hhalf : half g.pts = c :: init.reverse := by rw [hpts]; exact half_contour_std init c
  obtain ⟨j1, r1⟩ := runChecks_none _ _ hchk _ c1
  obtain ⟨j2, r2⟩ := runChecks_none _ _ hchk _ c2
  obtain ⟨j3, r3⟩ := runChecks_none _ _ hchk _ c3
  have hzs := zStrict_ok r1
  rw [hhalf, List.pairwise_map] at hzs
  have hyb := yBelow_ok r2
  obtain ⟨hd1, v0, hv0, hv0z, hv0y⟩ := deepest_ok r3
  rw [hhalf] at hyb hd1 hv0
  -- vertices of the second half have z ≥ 0
  have hnonneg : ∀ v ∈ c :: init.reverse, 0 ≤ v.z := by
    intro v hv
    rcases List.mem_cons.mp hv with rfl | hv
    · rw [hcz]
    · have := (List.pairwise_cons.mp hzs).1 v hv
      rw [hcz] at this; exact this.le
  have hmemc : c ∈ g.pts := by rw [hpts, contour_std]; simp
  refine ⟨⟨?_, ?_, ?_, ?_, ?_, ?_, ?_⟩, ?_⟩
  · intro hnil; rw [hnil] at hmemc; cases hmemc
  · rw [hpts]; exact contour_symmetric init c hcz
  · rw [hpts]; exact contour_pairwise init c hcz hzs
  · apply zmonotone_simple; rw [hpts]; exact contour_pairwise init c hcz hzs
  · intro v hv
    rw [hpts] at hv
    rcases mem_contour_std hv with hv | ⟨w, hw, rfl⟩
    · simpa using hyb v hv
    · simpa [negZ] using hyb w hw
  · intro v hv hz
    rw [hpts] at hv
    rcases mem_contour_std hv with hv | ⟨w, hw, rfl⟩
    · exact hd1 v hv (le_trans (le_abs_self _) hz)
    · simp only [negZ, abs_neg] at hz ⊢
      exact hd1 w hw (le_trans (le_abs_self _) hz)
  · refine ⟨v0, ?_, ?_, hv0y⟩
    · rw [hpts, contour_std]; exact List.mem_append_right _ hv0
    · rw [abs_of_nonneg (hnonneg v0 hv0)]; exact hv0z
  · have : c = ⟨0, jv S σ yc⟩ := by rw [hc]; congr
    rw [← this]; exact hmemc

/-! ## rejection -/

/-- the junctions are in order when the sampled right half runs strictly inwards (what the strict-z test looks at) -/
def RightSideOrdered (S : Spec) (σ : String → ℝ) (N : Nat) : Prop :=
  ((half (contour S.mirror (rightSide S σ N))).map (·.z)).Pairwise (· < ·)

theorem construct_error_of_prepare {S : Spec} {simple : List (Pt ℝ) → Bool} {cfg : List (String × ℝ)} {N : Nat}
    {dflt : ℝ} {p : Params ℝ} {e : Err} (h : prepare S cfg dflt p = .error e) :
    construct S simple cfg N dflt p = .error e := by
  unfold construct; rw [h]

theorem construct_error_of_check {S : Spec} {simple : List (Pt ℝ) → Bool} {cfg : List (String × ℝ)} {N : Nat}
    {dflt : ℝ} {p : Params ℝ} {env : List (String × ℝ)} (he : prepare S cfg dflt p = .ok env) {c : Check}
    (hc : c ∈ S.checks)
    (hbad : ∀ j, runCheck simple (envOfL dflt (env ++ cfg))
      (contour S.mirror (rightSide S (envOfL dflt (env ++ cfg)) N)) j c ≠ none) :
    ∃ e, construct S simple cfg N dflt p = .error e := by
  unfold construct; rw [he]
  simp only
  have := runChecks_ne_none hbad S.checks 0 hc
  split
  · exact ⟨_, rfl⟩
  · rename_i hn; exact absurd hn this

theorem prepare_error_negative {S : Spec} {cfg : List (String × ℝ)} {dflt : ℝ} {p : Params ℝ}
    {k : String} {v : ℝ} (hk : k ∈ S.nonneg) (hv : (withDefaults S cfg dflt p).lookup k = some v) (hneg : v < 0) :
    ∃ e, prepare S cfg dflt p = .error e := by
  unfold prepare
  split
  · exact ⟨_, rfl⟩
  · have : S.nonneg.any (negViolated (withDefaults S cfg dflt p)) = true := by
      rw [List.any_eq_true]
      refine ⟨k, hk, ?_⟩
      simp only [negViolated, hv, geZero_real]
      simpa using hneg
    rw [if_pos this]
    exact ⟨_, rfl⟩

theorem prepare_error_arity {S : Spec} {cfg : List (String × ℝ)} {dflt : ℝ} {p : Params ℝ}
    (h : ((S.resolution.map (·.target)).filter
      (fun t => ((withDefaults S cfg dflt p).lookup t).isNone)).length ≠ 1) :
    ∃ e, prepare S cfg dflt p = .error e := by
  unfold prepare
  split
  · exact ⟨_, rfl⟩
  · split
    · exact ⟨_, rfl⟩
    · split
      · exact ⟨_, rfl⟩
      · rw [resolve_wrong_arity h]
        exact ⟨_, rfl⟩

end GrooveWF
